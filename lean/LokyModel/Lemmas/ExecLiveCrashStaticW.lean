import LokyModel.Lemmas.ExecLiveCrashStaticBase
/-! `staticSmallC'`: steps of a worker process, its death included. -/
namespace LokyModel.Exec.StaticCP
open StaticP
set_option linter.unusedSimpArgs false

theorem stepW_alive (s s' : St) (p : Pid) (v : Variant) (hs : stepW s p v = some s') : s.w p ≠ .dead := by
  intro e
  unfold stepW at hs
  simp [e] at hs

theorem stepW_crash (s s' : St) (p : Pid) (hs : stepW s p .crash = some s') : s' = die s p (-9) := by
  unfold stepW at hs
  split at hs <;> simp_all

theorem wStopL_of (pc : WPc) (h : wStopping pc = true) (hd : pc ≠ .dead) : wStopL pc = true := by
  simp [wStopL, h, hd]
theorem wStopping_of_L (pc : WPc) (h : wStopL pc = true) : wStopping pc = true := by
  simp [wStopL] at h; exact h.1

/-- everything the invariant needs to know about a step of worker `p` of a static pool, crash or not -/
structure WSumC (s s' : St) (p : Pid) : Prop where
  oth : ∀ q, q ≠ p → s'.w q = s.w q
  dd : ∀ q, s.w q = .dead → s'.w q = .dead
  wn : wNever (s'.w p) = false
  wb : wBadRes (s'.w p) = false
  st : wStopL (s'.w p) = true → wStopL (s.w p) = true ∨ ∃ m ∈ s.cqPipe, isStop m = true ∨ isClose m = true
  cq : ∀ m ∈ s'.cqPipe, m ∈ s.cqPipe
  rq : ∀ r ∈ s'.rqPipe, r ∈ s.rqPipe ∨ (rBad r = false ∧ (isPidMsg r = true → wStopL (s.w p) = true))
  rne : s.rqPipe ≠ [] → s'.rqPipe ≠ []
  mpc : s'.mpc = s.mpc
  fpc : s'.fpc = s.fpc
  upc : s'.upc = s.upc
  ucur : s'.ucur = s.ucur
  uscript : s'.uscript = s.uscript
  cqBuf : s'.cqBuf = s.cqBuf
  procDict : s'.procDict = s.procDict
  allPids : s'.allPids = s.allPids
  cfg : s'.cfg = s.cfg
  futs : s'.futs = s.futs
  wakeup : s'.wakeup = s.wakeup
  wakeupClosed : s'.wakeupClosed = s.wakeupClosed
  broken : s'.broken = s.broken
  killFlag : s'.killFlag = s.killFlag
  threadReg : s'.threadReg = s.threadReg

theorem wSumC_step (s s' : St) (p : Pid) (v : Variant) (hc : s.cfg.staticPool = true)
    (hl : s.leaky p = false) (hwn : wNever (s.w p) = false) (hwb : wBadRes (s.w p) = false)
    (hs : stepW s p v = some s') : WSumC s s' p := by
  have hal := stepW_alive s s' p v hs
  by_cases hv : v = .crash
  · subst hv
    have e := stepW_crash s s' p hs
    subst e
    constructor
    all_goals (first
      | rfl
      | (intro q hq; exact die_w_other _ _ _ _ hq)
      | (simp [die_w_self, wNever, wBadRes, wStopL]; done)
      | (intro r hr; left; simpa [die] using hr)
      | (intro r hr; simpa [die] using hr)
      | skip)
    · intro q hq
      by_cases e : q = p
      · subst e; exact die_w_self _ _ _
      · rw [die_w_other _ _ _ _ e]; exact hq
  · have W := wSum_step s s' p v hv hc hl hwn hwb hs
    refine { oth := W.oth, dd := ?_, wn := W.wn, wb := W.wb, st := ?_, cq := W.cq, rq := ?_, rne := W.rne, mpc := W.mpc, fpc := W.fpc,
             upc := W.upc, ucur := W.ucur, uscript := W.uscript, cqBuf := W.cqBuf, procDict := W.procDict, allPids := W.allPids,
             cfg := W.cfg, futs := W.futs, wakeup := W.wakeup, wakeupClosed := W.wakeupClosed, broken := W.broken,
             killFlag := W.killFlag, threadReg := W.threadReg }
    · intro q hq
      have e : q ≠ p := by intro e; subst e; exact hal hq
      rw [W.oth q e]; exact hq
    · intro h
      rcases W.st (wStopping_of_L _ h) with e | e
      · left; exact wStopL_of _ e hal
      · right; exact e
    · intro r hr
      rcases W.rq r hr with e | ⟨e1, e2⟩
      · left; exact e
      · right; exact ⟨e1, fun h => wStopL_of _ (e2 h) hal⟩

theorem ci_stepW (s s' : St) (p : Pid) (v : Variant) (hc : s.cfg.staticPool = true)
    (hp : p ∈ s.allPids) (h : CI s) (hl : ∀ q, s.leaky q = false) (hs : stepW s p v = some s') : CI s' := by
  have W := wSumC_step s s' p v hc (hl p) (h.wn p hp) (h.wb p hp) hs
  have hall : ∀ (P : WPc → Bool), (∀ q ∈ s.allPids, P (s.w q) = false) → P (s'.w p) = false →
      ∀ q ∈ s'.allPids, P (s'.w q) = false := by
    intro P h1 h2 q hq
    rw [W.allPids] at hq
    by_cases e : q = p
    · subst e; exact h2
    · rw [W.oth q e]; exact h1 q hq
  have had : anyDead s = true → anyDead s' = true :=
    anyDead_mono s s' (by rw [W.allPids]; exact fun _ h => h) (fun q _ => W.dd q)
  refine { mn := ?mn, kf := ?kf, wn := hall _ h.wn W.wn, bu := ?bu, bd := ?bd, md := ?md, pd := ?pd, kj := ?kj, rc := ?rc, cr := ?cr,
           je := ?je, api := ?api, fb := ?fb, wc := ?wc, pe := ?pe, snap := ?snap, wb := hall _ h.wb W.wb, rb := ?rb, cp := ?cp,
           fc := ?fc, cl := ?cl, late := ?late, tr := ?tr, nks := ?nks, nkc := ?nkc, nkp := ?nkp, fu := ?fu, ko := ?ko, pre := ?pre }
  all_goals try simp only [W.mpc, W.fpc, W.upc, W.ucur, W.uscript, W.cqBuf, W.procDict, W.allPids, W.cfg, W.futs, W.wakeup,
    W.wakeupClosed, W.broken, W.killFlag, W.threadReg]
  case mn => exact h.mn
  case kf => exact h.kf
  case bu => exact h.bu
  case bd => intro hb; exact had (h.bd hb)
  case md => intro hb; exact had (h.md hb)
  case pd => exact h.pd
  case kj => intro q hq; exact W.dd q (h.kj q hq)
  case rc => intro hm; exact W.rne (h.rc hm)
  case cr => exact h.cr
  case je => exact h.je
  case api => exact h.api
  case fb => exact h.fb
  case wc => exact h.wc
  case pe => exact h.pe
  case snap => exact h.snap
  case rb =>
    intro r hr
    rcases W.rq r hr with e | e
    · exact h.rb r e
    · exact e.1
  case cp => intro m hm; exact h.cp m (W.cq m hm)
  case fc => exact h.fc
  case cl => exact h.cl
  case late => exact h.late
  case tr => exact h.tr
  case nks => exact h.nks
  case nkc => exact h.nkc
  case nkp => exact h.nkp
  case fu => exact h.fu
  case ko => exact h.ko
  case pre =>
    intro hf
    have P := h.pre hf
    have hns : wStopL (s'.w p) = false := by
      cases hst : wStopL (s'.w p)
      · rfl
      · rcases W.st hst with e | ⟨m, hm, e | e⟩
        · rw [P.ns p hp] at e; cases e
        · rw [P.np m hm] at e; cases e
        · rw [h.cp m hm] at e; cases e
    refine { ns := hall _ P.ns hns, nb := ?nb, np := ?np, nr := ?nr, nf := ?nf }
    all_goals try simp only [W.mpc, W.fpc, W.upc, W.cqBuf, W.procDict, W.allPids, W.cfg]
    case nb => exact P.nb
    case np => intro m hm; exact P.np m (W.cq m hm)
    case nr =>
      intro r hr
      rcases W.rq r hr with e | e
      · exact P.nr r e
      · cases hr' : isPidMsg r
        · rfl
        · have := e.2 hr'; rw [P.ns p hp] at this; cases this
    case nf => exact P.nf

end LokyModel.Exec.StaticCP
