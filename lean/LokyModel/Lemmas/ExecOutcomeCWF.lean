import LokyModel.Lemmas.ExecOutcomeC
/-! `OutInvC`: steps of a worker process (a crash step included) and of the feeder thread.  As for `OutInv`
    (`ExecOutcomeWF.lean`); neither touches the broken flag or the manager's program counter. -/
namespace LokyModel.Exec
open StaticP

macro "outw_closeC" : tactic => `(tactic| (
  first
  | (intro x hx; simp_all; done)
  | (intro x hx; left; simpa using hx; done)
  | (simp [wArgOk]; done)
  | (simp_all [wArgOk]; done)
  | skip))

set_option maxHeartbeats 4000000 in
theorem outInvC_stepW (s s' : St) (p : Pid) (v : Variant) (h : OutInvC s) (hm : MsgInv s) (hs : stepW s p v = some s') :
    OutInvC s' := by
  have hwp := h.w p
  have hmp := hm.w p
  unfold stepW at hs
  crack_step
  all_goals (first
    | (refine out_wmoveC s _ h p _ rfl (by simp) ?_ ?_ ?_ <;> outw_closeC <;> done)
    | (refine out_wmoveC s _ h p _ (wGet_w' _ _) (by simp) ?_ ?_ (wArgOk_wGetPc _ _) <;> outw_closeC <;> done)
    -- the head of the call pipe is taken
    | (refine out_wmoveC s _ h p _ rfl (by simp) ?_ ?_ ?_
       · intro x hx; simp_all
       · intro x hx; left; simpa using hx
       · show cArgOk s.cfg _ = true; refine h.pipe _ ?_; simp_all)
    | (refine out_wmoveC s _ h p _ (wDispatch_w' _ _ _) (by simp) ?_ ?_ (wArgOk_wDispatchPc _ _ ?_)
       · intro x hx; simpa using hx
       · intro x hx; left; simpa using hx
       · simp_all [wArgOk])
    | (refine out_wmoveC s _ h p _ (wAfterStart_w' _ _) (by simp) ?_ ?_ ?_
       · intro x hx; simpa using hx
       · intro x hx; left; simpa using hx
       · split
         · rfl
         · exact wArgOk_wGetPc _ _)
    | (obtain ⟨pc, hw, hpc⟩ := wAfterResult_w' { s with rqWlock := s.rqWlock + 1, oRqWlock := none } p
       refine out_wmoveC s _ h p pc hw (by simp) ?_ ?_ ?_
       · intro x hx; simpa using hx
       · intro x hx; left; simpa using hx
       · rcases hpc with rfl | rfl | rfl <;> rfl)
    -- the body starts: the work id enters the execution log
    | (refine out_wmoveC s _ h p _ rfl (by simp) ?_ ?_ ?_
       · intro x hx; simpa using hx
       · intro x hx
         simp at hx
         rcases hx with hx | rfl
         · left; exact hx
         · right
           rw [‹s.w p = _›] at hwp hmp
           obtain ⟨h1, h2⟩ := hmp
           refine ⟨h1, ?_⟩
           unfold argOfW; rw [← h2]; simpa [wArgOk] using hwp
       · rfl)
    | skip)

/-! ### the feeder -/

/-- closes the side conditions of `out_keep` for a step that leaves futures alone -/
macro "out_simpleC" s:term "," h:term : tactic => `(tactic| (
  have hp := OutInvC.pipe $h; have hw := OutInvC.w $h; have hf := OutInvC.f $h; have hx := OutInvC.ex $h
  refine out_keepC' $s _ $h ?_ ?_ ?_ ?_ ?_ ?_ ?_
  · simp
  · simp
  · simp
  · intro x hx'; simp at hx'; simp_all [fArgOk, cArgOk]
  · intro q; simp_all
  · simp_all [fArgOk, cArgOk]
  · intro i hi; simp at hi; simp_all))

theorem out_fNextC (X : St) (h : OutInvC { X with fpc := .none }) (hb : X.cfg.benign)
    (hm : ∀ m ∈ X.cqBuf, goodC X.cfg X.taskOf m) : OutInvC (fNext X) := by
  unfold fNext
  split
  · out_simpleC _, h
  · out_simpleC _, h
  · out_simpleC _, h
  · rename_i w t rest hq
    have hg := hm (.call w t) (by simp [hq])
    obtain ⟨hlt, ht⟩ := hg
    have hben := specOf_benign X hb t
    have harg : argOfW X.cfg X.taskOf w = (specOf X t).args := by unfold argOfW argOf specOf; rw [← ht]
    have harg' : argOf X.cfg t = (specOf X t).args := rfl
    split
    · rename_i ha
      have hp := OutInvC.pipe h; have hw := OutInvC.w h; have hx := OutInvC.ex h
      refine out_keepC' _ _ h ?_ ?_ ?_ ?_ ?_ ?_ ?_
      · simp
      · simp
      · simp
      · intro x hx'; simp at hx'; simp_all
      · intro q; simp_all
      · simp [fArgOk, harg, ha, hlt, ArgKind.unsendable]
      · intro i hi; simp at hi; simp_all
    · rename_i ha
      have hp := OutInvC.pipe h; have hw := OutInvC.w h; have hx := OutInvC.ex h
      refine out_keepC' _ _ h ?_ ?_ ?_ ?_ ?_ ?_ ?_
      · simp
      · simp
      · simp
      · intro x hx'; simp at hx'; simp_all
      · intro q; simp_all
      · simp [fArgOk, harg, ha, hlt, ArgKind.unsendable]
      · intro i hi; simp at hi; simp_all
    · rename_i ha1 ha2
      have hok : (specOf X t).args = .ok := by
        simp only [TaskSpec.benign, Bool.and_eq_true, bne_iff_ne, ne_eq] at hben
        cases hq' : (specOf X t).args <;> simp_all
      have hp := OutInvC.pipe h; have hw := OutInvC.w h; have hx := OutInvC.ex h
      refine out_keepC' _ _ h ?_ ?_ ?_ ?_ ?_ ?_ ?_
      · simp
      · simp
      · simp
      · intro x hx'; simp at hx'; simp_all
      · intro q; simp_all
      · simp [fArgOk, cArgOk, harg', hok]
      · intro i hi; simp at hi; simp_all

/-- `_on_queue_feeder_error`: the future of the item fails with the feeder's exception -/
theorem out_errSemC (s : St) (h : OutInvC s) (w : Wid) (hpc : s.fpc = .errSem w) (X : St)
    (hfr : X.cfg = s.cfg ∧ X.taskOf = s.taskOf ∧ X.killFlag = s.killFlag ∧ X.uscript = s.uscript ∧ X.ucur = s.ucur ∧
           X.upc = s.upc ∧ X.cancelOk = s.cancelOk ∧ X.cqPipe = s.cqPipe ∧ X.w = s.w ∧ X.execW = s.execW ∧
           X.futs = s.futs.set w .excFeeder ∧ X.broken = s.broken ∧ X.mpc = s.mpc)
    (hf : X.fpc = .errAcq) : OutInvC X := by
  obtain ⟨f1, f2, f3, f4, f5, f6, f7, f8, f9, f10, f11, f12, f13⟩ := hfr
  have hfp := h.f; rw [hpc] at hfp
  simp only [fArgOk, Bool.and_eq_true, decide_eq_true_eq] at hfp
  refine out_moveC s X h ⟨f1, f2, f3, f4, f5, f6⟩ ?_ ?_ ?_ ?_ ?_ ?_
  · intro b hb; rw [f12]; rw [f13] at hb; exact h.brk b hb
  · intro i
    rw [f7, f12]
    have e1 : futOf X i = futOf (setFut s w .excFeeder) i := by simp [futOf, f11, setFut]
    rw [e1, futOf_setFut]
    split
    · rename_i hi; rw [hi.1]; simpa [futArgOkC, futArgOk] using hfp.2
    · exact h.fut i
  · rw [f8]; exact h.pipe
  · rw [f9]; exact h.w
  · rw [hf]; rfl
  · rw [f10]; exact h.ex


set_option maxHeartbeats 4000000 in
theorem outInvC_stepF (s s' : St) (v : Variant) (h : OutInvC s) (hm : MsgInv s) (hb : s.cfg.benign)
    (hs : stepF s v = some s') : OutInvC s' := by
  have hbuf := hm.buf
  unfold stepF at hs
  crack_step
  all_goals (first
    | (refine out_fNextC _ ?_ hb (by simpa using hbuf); out_simpleC s, h; done)
    | (out_simpleC s, h; done)
    -- the message in the feeder's hands enters the pipe
    | (have hf := OutInvC.f h; rw [‹s.fpc = _›] at hf
       have hp := OutInvC.pipe h; have hw := OutInvC.w h; have hx := OutInvC.ex h
       refine out_keepC' s _ h ?_ ?_ ?_ ?_ ?_ ?_ ?_
       · simp
       · simp
       · simp
       · intro x hx'; simp at hx'
         rcases hx' with hx' | rfl
         · exact hp x hx'
         · exact hf
       · intro q; simp_all
       · rfl
       · intro i hi; simp at hi; simp_all)
    -- `_on_queue_feeder_error`: the future of the item fails with the feeder's exception
    | (exact out_errSemC s h _ ‹s.fpc = _› _ (by simp [setFut]) (by simp))
    | skip)

end LokyModel.Exec
