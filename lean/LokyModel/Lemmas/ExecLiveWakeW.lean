import LokyModel.Lemmas.ExecLiveWakeBase
/-! `WX` and `WakeP` across a worker step. -/
namespace LokyModel.Exec
set_option linter.unusedSimpArgs false

set_option maxHeartbeats 4000000 in
theorem wx_stepW (s s' : St) (p : Pid) (v : Variant) (h : WX s) (hs : stepW s p v = some s') : WX s' := by
  unfold stepW at hs
  crack
  all_goals (refine WX_same s _ h ?_ ?_ ?_ ?_ ?_ ?_ ?_ ?_ ?_)
  all_goals (first
    | rfl
    | (simp; done)
    | (intro m hm; simp_all; done))

theorem wDispatch_self (s : St) (p : Pid) (m : CMsg) (hc : s.cfg.staticPool = true) (hm : isCall m = true) :
    wBusy ((wDispatch s p m).w p) = true := by
  cases m with
  | call w t =>
    have := (spec_static s hc t).2.1
    simp [wDispatch, this, setW_w', upd_same', wBusy]
  | stop => simp [isCall] at hm
  | close => simp [isCall] at hm

theorem wBusy_call (m : CMsg) : wBusy (.gRel m) = isCall m ∧ wBusy (.gSem m) = isCall m ∧ wBusy (.tSem m) = isCall m ∧
    wBusy (.tRel m) = isCall m := by
  cases m <;> simp [wBusy, isCall]

set_option maxHeartbeats 8000000 in
theorem wakeP_stepW (s s' : St) (p : Pid) (v : Variant) (hv : v ≠ .crash) (hc : s.cfg.staticPool = true)
    (hp : p ∈ s.allPids) (h : WakeP s) (hs : stepW s p v = some s') : WakeP s' := by
  unfold stepW at hs
  crack
  all_goals (first
    | (exact absurd rfl hv)
    | (refine wakeP_of (need_congr s _ ?_ ?_ ?_ ?_ ?_ ?_) (WW_W s _ p hp ?_ ?_ ?_ ?_ ?_ ?_ ?_ ?_ ?_ ?_ ?_) h))
  all_goals (first
    | rfl
    | (simp; done)
    | (intro q hq
       simp [wAfterStart_w_other, wGet_w_other, wDispatch_w_other, wAfterResult_w_other, setW_w_other, die_w_other, hq]; done)
    | (intro hb; simp_all [wBusy_call, setW_w', upd_same']; done)
    | (intro hb; simp_all [wBusy, setW_w', upd_same']; done)
    | (exfalso; exact (spec_static s hc _).1 ‹_›)
    | (intro hb; simp_all [wBusy_call]; exact .inl (wDispatch_self _ _ _ hc ‹_›))
    | (intro m hm hcall; simp_all [wBusy_call, setW_w', upd_same']; done)
    | (intro m hm hcall; simp_all [wBusy_call, setW_w', upd_same']; rcases hm with hm | hm <;> simp_all; done)
    | skip)

end LokyModel.Exec
