import LokyModel.ExecLiveDyn
/-! Executable strengthening of `respawnOk` (re-spawn) that is inductive; proofs in `ExecLiveRespawn.lean`.
    Import-light so that `Drivers/LiveCheckrespawnOk.lean` can evaluate it on random walks. -/
namespace LokyModel.Exec

/-- a `submit` that has registered its work item and has not yet passed its spawn loop: it is going to find the pool
    full or to spawn a worker before it releases the management lock -/
def uEarly : UPc → Bool
  | .subAcqMgmt | .subExit | .subPStart => true
  | _ => false

/-- with no worker registered and something pending, either a `submit` is still in front of its spawn loop or the
    manager is between a worker's exit announcement and its re-spawn decision.  (Neither a wake-up in the pipe nor a
    message in the result pipe is needed as an excuse: the manager empties `procDict` only inside `mRsp`, and it leaves
    `mRsp` with an empty `procDict` only when nothing is pending.) -/
def respawnX (s : St) : Bool :=
  !s.procDict.isEmpty || s.pending.isEmpty || (usersOf s).any (fun k => uEarly (s.upc k)) || mRsp s.mpc

def respawnOk' (s : St) : Bool := respawnOk s && respawnX s

end LokyModel.Exec
