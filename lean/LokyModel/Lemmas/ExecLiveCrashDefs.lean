import LokyModel.ExecLiveCrash
import LokyModel.Lemmas.ExecBasic
import LokyModel.Lemmas.ExecNoBreak
/-!
# Runs of a static pool in which workers may die at any point at which they hold no kernel lock

`ReachableLF cfg s`: `s` is reached from `init cfg` by ordinary steps (`ok`, `timeout`, `fail` variants of any actor) and
by crash steps of workers that are at a `lockFree` program counter (not between taking and releasing the call queue's
read lock, the result queue's write lock, or the management lock of the exit path: those are the windows of the listed
findings D5 / D7).  The manager's own `kill` steps are ordinary steps and may hit a worker anywhere.
-/
namespace LokyModel.Exec

inductive ReachableLF (cfg : Cfg) : St → Prop
  | init : ReachableLF cfg (init cfg)
  | step {s s' : St} {a : Actor} {v : Variant} : ReachableLF cfg s → v ≠ .crash → step s a v = some s' → ReachableLF cfg s'
  | crash {s s' : St} {p : Pid} : ReachableLF cfg s → lockFree (s.w p) = true → step s (.W p) .crash = some s' →
      ReachableLF cfg s'

theorem ReachableLF.reachable {cfg : Cfg} {s : St} (h : ReachableLF cfg s) : Reachable cfg s := by
  induction h with
  | init => exact .init
  | step _ _ hs ih => exact .step ih hs
  | crash _ _ hs ih => exact .step ih hs

theorem ReachableNC.reachableLF {cfg : Cfg} {s : St} (h : ReachableNC cfg s) : ReachableLF cfg s := by
  induction h with
  | init => exact .init
  | step _ hv hs ih => exact .step ih hv hs

/-- a step of a lock-free run: an ordinary step, or the crash of a worker that holds no lock -/
def StepLF (s : St) (a : Actor) (v : Variant) : Prop :=
  v ≠ .crash ∨ ∃ p, a = .W p ∧ lockFree (s.w p) = true

end LokyModel.Exec
