import LokyModel.Lemmas.ExecSpawn
import LokyModel.Lemmas.ExecLiveBase
/-!
# What one step does to the recorded owner of the process-management lock

`OFr s s' a sec`: a step of actor `a` leaves `oMgmt` alone, or acquires the lock (possible only while its value is
positive) and records `a`, or releases it from inside `a`'s own critical section.  One lemma per actor; used by
`ExecLiveDCOrphan.lean` (D5 is for ever).
-/
namespace LokyModel.Exec

/-- what a step of actor `a` does to the ghost owner of the management lock -/
def OFr (s s' : St) (a : Actor) (sec : Bool) : Prop :=
  s'.oMgmt = s.oMgmt ∨ (0 < s.mgmt ∧ s'.oMgmt = some a) ∨ (sec = true ∧ s'.oMgmt = none)

set_option maxHeartbeats 4000000 in
theorem ofr_stepW (s s' : St) (p : Pid) (v : Variant) (hs : stepW s p v = some s') :
    OFr s s' (.W p) (inMgmtW (s.w p)) := by
  unfold stepW at hs
  crack
  all_goals (first
    | (left; rfl)
    | (left; simp; done)
    | (right; left; exact ⟨by assumption, by simp⟩)
    | (right; right; exact ⟨by simp [inMgmtW, *], by simp⟩))

set_option maxHeartbeats 4000000 in
theorem ofr_stepF (s s' : St) (v : Variant) (hs : stepF s v = some s') : s'.oMgmt = s.oMgmt := by
  unfold stepF at hs
  crack
  all_goals (first
    | rfl
    | (simp; done))

set_option maxHeartbeats 8000000 in
theorem ofr_stepM (s s' : St) (v : Variant) (hs : stepM s v = some s') : OFr s s' .M (inMgmtM s.mpc) := by
  unfold stepM at hs
  crack
  all_goals (first
    | (left; rfl)
    | (left; simp; done)
    | (right; left; exact ⟨by assumption, by simp⟩)
    | (right; right; exact ⟨by simp [inMgmtM, *], by simp⟩))

set_option maxHeartbeats 8000000 in
theorem ofr_stepU (s s' : St) (k : Nat) (v : Variant) (hs : stepU s k v = some s') :
    OFr s s' (.U k) (inMgmtU (s.upc k)) := by
  unfold stepU at hs
  crack
  all_goals (first
    | (left; rfl)
    | (left; simp; done)
    | (right; left; exact ⟨by assumption, by simp⟩)
    | (right; right; exact ⟨by simp [inMgmtU, *], by simp⟩))

/-- inside the management-lock section, per actor (`inMgmtU/M/W` of `MgmtInv`) -/
def secMgmtOf (s : St) : Actor → Bool
  | .U k => inMgmtU (s.upc k)
  | .M => inMgmtM s.mpc
  | .F => false
  | .W p => inMgmtW (s.w p)

/-- one step of any actor -/
theorem ofr_step {s s' : St} {a : Actor} {v : Variant} (hs : step s a v = some s') :
    OFr s s' a (secMgmtOf s a) := by
  unfold step at hs
  cases a with
  | U k => simp only [] at hs; split at hs; exact ofr_stepU s s' k v hs; cases hs
  | M => exact ofr_stepM s s' v hs
  | F => exact .inl (ofr_stepF s s' v hs)
  | W p => simp only [] at hs; split at hs; exact ofr_stepW s s' p v hs; cases hs

end LokyModel.Exec
