import LokyModel.Lemmas.ExecLiveMeasureCM
/-!
# Every step of a static pool whose workers may die makes the termination measure `muC` strictly smaller

Assembly of `muC_stepW/F/U` (`ExecLiveMeasureCBase.lean`) and `muC_stepM` (`ExecLiveMeasureCM.lean`).  What they need
about the pre-state — and nothing about the post-state — comes from the invariants that hold in every state of a
lock-free crash run (`ReachableLF`) of a static pool: the crash-aware `staticSmallC'` (`StaticCP.CI`), `joinC'`,
`killedC`, and `PidsInv`, `SpawnInv`, `SlotX`, `ShutInv`, which hold in every reachable state.
-/
namespace LokyModel.Exec
open StaticP StaticCP

/-- while a `submit` is bringing the pool up the manager is not past the flagging of a shutdown -/
theorem acc_not_flagged {s : St} (hsh : ShutInv s) (k : Nat) (ha : accU (s.upc k) = true) : mFlagged s.mpc = false := by
  cases hf : mFlagged s.mpc with
  | false => rfl
  | true =>
    have h1 := hsh.acc k ha
    have h2 := hsh.flag hf
    rw [h1] at h2; cases h2

/-- the step lemma in terms of the invariants of the pre-state.  The variant is arbitrary: the death of a worker —
    wherever it is — makes `muC` smaller too (a dead worker has rank 0). -/
theorem muC_step {s s' : St} {a : Actor} {v : Variant} (hp : PidsInv s) (hci : CI s) (hj : joinC' s = true)
    (hk : killedC s = true) (hsp : SpawnInv s) (hx : SlotX s) (hsh : ShutInv s) (hs : step s a v = some s') :
    muC s' < muC s := by
  unfold step at hs
  cases a with
  | U k =>
    simp only [] at hs
    split at hs
    · rename_i hk'
      refine muC_stepU s s' k v hk' hp ?_ (hx.sub k hk') ?_ hs
      · intro hpc
        have hnf := acc_not_flagged hsh k (by simp [accU, hpc])
        have hnl : mLateK s.mpc = false := by
          cases hl : mLateK s.mpc with
          | false => rfl
          | true => rw [jc_mLateK_mFlagged _ hl] at hnf; cases hnf
        rw [← hci.pd hnl]
        exact hsp.u k (by simp [spawningU, hpc])
      · intro hpc
        exact acc_not_flagged hsh k (by simp [accU, hpc])
    · cases hs
  | M =>
    refine muC_stepM s s' v hci.mn hci.kf hci.rb hsp.le hj hx.tstart ?_ hs
    intro b hm
    exact (ki_of_bool s hk).nobroken hm rfl
  | F => exact muC_stepF s s' v hs
  | W p =>
    simp only [] at hs
    split at hs
    · rename_i hm
      exact muC_stepW s s' p v hp hm (hci.wn p hm) hs
    · cases hs

/-- **`muC` decreases**: every step — ordinary or crash — from a state of a lock-free crash run of a static pool -/
theorem muC_decreasesLF' {cfg : Cfg} {s s' : St} {a : Actor} {v : Variant} (hr : ReachableLF cfg s)
    (hc : cfg.staticPool = true) (hs : step s a v = some s') : muC s' < muC s := by
  have h := hr.reachable
  exact muC_step (pidsInv_reachable h) (ci_of_bool s (staticCInv_reachableLF hc hr).1)
    (joinC'_reachableLF hc (fun _ hr' => staticC_reachableLF hc hr') hr) (killedC_reachableLF hc hr)
    (spawnInv_reachable h) (slotX_reachable h) (shutInv_reachable h) hs

/-- … in the form asked for: every step of a lock-free crash run (an ordinary step, or the death of a worker that
    holds no kernel lock) strictly decreases the measure -/
theorem muC_decreasesLF {cfg : Cfg} {s s' : St} {a : Actor} {v : Variant} (hr : ReachableLF cfg s)
    (hc : cfg.staticPool = true) (hs : step s a v = some s') (_hlf : StepLF s a v) : muC s' < muC s :=
  muC_decreasesLF' hr hc hs

end LokyModel.Exec
