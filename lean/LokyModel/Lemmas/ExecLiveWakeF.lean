import LokyModel.Lemmas.ExecLiveWakeBase
/-! `WX` and `WakeP` across a feeder step. -/
namespace LokyModel.Exec
set_option linter.unusedSimpArgs false
set_option linter.unusedVariables false

theorem fNext_notShut (s : St) : inShutF' (fNext s).fpc = false := by
  unfold fNext; (repeat' split) <;> simp [inShutF']
theorem fNext_fNC (s : St) : (fNext s).fpc ≠ .acq .close ∧ (fNext s).fpc ≠ .send .close := by
  unfold fNext; (repeat' split) <;> simp
theorem fNext_buf (s : St) : ∀ m ∈ s.cqBuf, isCall m = true →
    m ∈ (fNext s).cqBuf ∨ fBusy (fNext s).fpc = true ∨ fOwes (fNext s).fpc = true := by
  intro m hm hc
  unfold fNext
  split
  · simp_all
  · rename_i h; rw [h] at hm; simp at hm; rcases hm with e | e
    · subst e; simp [isCall] at hc
    · exact .inl e
  · rename_i h; rw [h] at hm; simp at hm; rcases hm with e | e
    · subst e; simp [isCall] at hc
    · exact .inl e
  · rename_i h; rw [h] at hm; simp at hm
    split <;> (rcases hm with e | e
               · simp [fBusy, fOwes]
               · exact .inl e)

theorem static_wc (s : St) (hst : staticOk s = true) (hi : mIdle s.mpc = true) : s.wakeupClosed = false := by
  unfold staticOk at hst
  simp only [Bool.and_eq_true, Bool.or_eq_true, Bool.not_eq_true'] at hst
  rcases hst.1.2 with h | h
  · exact h
  · cases hm : s.mpc <;> simp_all [mIdle, mFinal]

set_option maxHeartbeats 4000000 in
theorem wx_stepF (s s' : St) (v : Variant) (h : WX s) (hh : holderOk s = true) (hs : stepF s v = some s') : WX s' := by
  have ho := holder_shut s hh
  obtain ⟨a1, a2, a3, a4, a5, a6, a7, a8, a9, a10⟩ := h
  unfold stepF at hs
  crack
  all_goals (refine ⟨?_, ?_, ?_, ?_, ?_, ?_, ?_, ?_, ?_, ?_⟩)
  all_goals (first
    | (simpa [mEnded] using ‹_›)
    | (simp_all [fNext_notShut, fNext_fNC, inShutF', mEnded]; done)
    | (intro hi; simp [fNext_notShut] at hi; done)
    | (intro m hm; simp at hm; rcases hm with hm | hm
       · exact a1 m hm
       · subst hm; cases m <;> simp_all [isClose]))

theorem WW_F (s s' : St)
    (hcfg : s'.cfg = s.cfg) (hrq : s'.rqPipe = s.rqPipe) (hupc : s'.upc = s.upc) (hatt : s'.attrsDropped = s.attrsDropped)
    (hall : s'.allPids = s.allPids) (hw : s'.w = s.w) (hwk : s.wakeup ≤ s'.wakeup)
    (hbuf : ∀ m ∈ s.cqBuf, isCall m = true → m ∈ s'.cqBuf ∨ fBusy s'.fpc = true ∨ fOwes s'.fpc = true)
    (hpipe : ∀ m ∈ s.cqPipe, m ∈ s'.cqPipe)
    (hf : fBusy s.fpc = true ∨ fOwes s.fpc = true →
      fBusy s'.fpc = true ∨ fOwes s'.fpc = true ∨ 0 < s'.wakeup ∨ ∃ m ∈ s'.cqPipe, isCall m = true) : WW s → WW s' := by
  intro h
  unfold WW at h ⊢
  rw [hcfg, hrq, hupc, hall, hw]
  have hu : ∀ pc, uOwes2 s' pc = uOwes2 s pc := by intro pc; unfold uOwes2; rw [hatt]
  simp only [hu]
  have hff : fBusy s.fpc = true ∨ fOwes s.fpc = true → 0 < s'.wakeup ∨ s.rqPipe ≠ [] ∨
      (∃ k, k < s.cfg.scripts.length ∧ uOwes2 s (s.upc k) = true) ∨ fOwes s'.fpc = true ∨
      (∃ m ∈ s'.cqBuf, isCall m = true) ∨ fBusy s'.fpc = true ∨ (∃ m ∈ s'.cqPipe, isCall m = true) ∨
      ∃ p ∈ s.allPids, wBusy (s.w p) = true := by
    intro hx
    rcases hf hx with h | h | h | h
    · exact .inr (.inr (.inr (.inr (.inr (.inl h)))))
    · exact .inr (.inr (.inr (.inl h)))
    · exact .inl h
    · exact .inr (.inr (.inr (.inr (.inr (.inr (.inl h))))))
  rcases h with h | h | h | h | h | h | h | h
  · exact .inl (by omega)
  · exact .inr (.inl h)
  · exact .inr (.inr (.inl h))
  · exact hff (.inr h)
  · obtain ⟨m, hm, hc⟩ := h
    rcases hbuf m hm hc with h | h | h
    · exact .inr (.inr (.inr (.inr (.inl ⟨m, h, hc⟩))))
    · exact .inr (.inr (.inr (.inr (.inr (.inl h)))))
    · exact .inr (.inr (.inr (.inl h)))
  · exact hff (.inl h)
  · obtain ⟨m, hm, hc⟩ := h
    exact .inr (.inr (.inr (.inr (.inr (.inr (.inl ⟨m, hpipe m hm, hc⟩))))))
  · exact .inr (.inr (.inr (.inr (.inr (.inr (.inr h))))))

theorem fBusy_call (m : CMsg) : fBusy (.acq m) = isCall m ∧ fBusy (.send m) = isCall m := by
  cases m <;> simp [fBusy, isCall]

set_option maxHeartbeats 4000000 in
theorem wakeP_stepF (s s' : St) (v : Variant) (hst : staticOk s = true) (h : WakeP s) (hs : stepF s v = some s') :
    WakeP s' := by
  have hwc := static_wc s hst
  unfold stepF at hs
  crack
  all_goals (first
    | (refine wakeP_of (need_congr s _ ?_ ?_ ?_ ?_ ?_ ?_) (WW_F s _ ?_ ?_ ?_ ?_ ?_ ?_ ?_ ?_ ?_ ?_) h
       all_goals (first
        | rfl
        | (simp; done)
        | (exact fNext_buf _)
        | (intro m hm hcall; refine fNext_buf _ m ?_ hcall; exact hm)
        | (intro hx; simp_all [fBusy, fOwes]; done)
        | (intro hx; simp_all [fBusy_call, fOwes]; done)
        | (intro m hm hcall; exact .inl (by simpa using hm))
        | (intro m hm; simp; exact .inl hm)))
    | (intro n; unfold WW; simp [fOwes]; done)
    | (intro n
       have hn1 := n.1
       simp only [] at hn1
       have hw0 := hwc hn1
       refine wakeP_of (need_congr s _ ?_ ?_ ?_ ?_ ?_ ?_) (WW_F s _ ?_ ?_ ?_ ?_ ?_ ?_ ?_ ?_ ?_ ?_) h n
       all_goals (first
        | rfl
        | (simp; done)
        | (intro hx; simp_all [fBusy, fOwes]; done)
        | (intro m hm hcall; exact .inl (by simpa using hm))
        | (intro m hm; simp; exact .inl hm)
        | skip))
    | skip)

end LokyModel.Exec
