import LokyModel.Lemmas.ExecOutcome
/-! `OutInv`: steps of a user thread (`submit` appends a future and a task; `cancel()` logs the cancellations that
    succeed; no operation is a forced shutdown, so the kill flag is never raised). -/
namespace LokyModel.Exec
open StaticP
set_option linter.unusedSimpArgs false

/-- what a step of a user thread may do to the futures, the task table and the log of successful cancellations -/
def FutCase (s s' : St) : Prop :=
  (s'.futs = s.futs ∧ s'.taskOf = s.taskOf ∧ (s'.cancelOk = s.cancelOk ∨ ∃ w, s'.cancelOk = s.cancelOk ++ [w]))
  ∨ (∃ w, s'.futs = s.futs.set w .cancelled ∧ s'.taskOf = s.taskOf ∧ s'.cancelOk = s.cancelOk ++ [w])
  ∨ (∃ t, s'.futs = s.futs ++ [.pending] ∧ s'.taskOf = s.taskOf ++ [t] ∧ s'.cancelOk = s.cancelOk)

theorem futCase_same (s X : St) (h1 : X.futs = s.futs) (h2 : X.taskOf = s.taskOf) (h3 : X.cancelOk = s.cancelOk) :
    FutCase s X := Or.inl ⟨h1, h2, Or.inl h3⟩
theorem futCase_log (s X : St) (w : Wid) (h1 : X.futs = s.futs) (h2 : X.taskOf = s.taskOf)
    (h3 : X.cancelOk = s.cancelOk ++ [w]) : FutCase s X := Or.inl ⟨h1, h2, Or.inr ⟨w, h3⟩⟩
theorem futCase_cancel (s X : St) (w : Wid) (h1 : X.futs = s.futs.set w .cancelled) (h2 : X.taskOf = s.taskOf)
    (h3 : X.cancelOk = s.cancelOk ++ [w]) : FutCase s X := Or.inr (Or.inl ⟨w, h1, h2, h3⟩)
theorem futCase_submit (s X : St) (t : Tid) (h1 : X.futs = s.futs ++ [.pending]) (h2 : X.taskOf = s.taskOf ++ [t])
    (h3 : X.cancelOk = s.cancelOk) : FutCase s X := Or.inr (Or.inr ⟨t, h1, h2, h3⟩)

/-- everything the invariant needs to know about a step of user thread `k` -/
structure USumO (s s' : St) (k : Nat) : Prop where
  cfg : s'.cfg = s.cfg
  cqPipe : s'.cqPipe = s.cqPipe
  fpc : s'.fpc = s.fpc
  execW : s'.execW = s.execW
  w : s'.w = s.w ∨ s'.w = upd s.w s.nextPid .start
  kf : s'.killFlag = false
  oth : ∀ j, j ≠ k → s'.upc j = s.upc j ∧ s'.ucur j = s.ucur j ∧ s'.uscript j = s.uscript j
  nks : ∀ op ∈ s'.uscript k, op.isKill = false
  nkc : ucurOk (s'.ucur k) = true
  nkp : isSdKill (s'.upc k) = false
  fut : FutCase s s'

-- closes the fields of `USumO` transition by transition; the hypotheses it names are set up by its two callers
set_option hygiene false in
macro "obattery" : tactic => `(tactic| (
  all_goals constructor
  all_goals (first
    | rfl
    | (simp; done)
    | (simpa using hkf)
    | (left; simp; done)
    | (right; simp [spawn]; done)
    | (intro j hj; simp [uNext_oth _ _ _ hj, uRelease_oth _ _ _ hj, uSpawnLoop_oth _ _ _ hj, setU, upd, hj]; done)
    | (refine (uNext_self _ _ ?_).2.2.1; simpa using hnks)
    | (refine (uNext_self _ _ ?_).2.2.2; simpa using hnks)
    | (refine (uRelease_self _ _ ?_ ?_).2.2.1 <;> first | (simpa using hnks) | (simpa using hnkc))
    | (refine (uRelease_self _ _ ?_ ?_).2.2.2 <;> first | (simpa using hnks) | (simpa using hnkc))
    | (simpa using hnks)
    | (simpa using hnkc)
    | (exact (uNext_sf _ _).2.2.2.2.1)
    | (exact (uRelease_sf _ _).2.2.2.2.1)
    | (exact (uSpawnLoop_sf _ _).2.1)
    | (simp [setU_upc_self, isSdKill]; done)
    | (simp only [setU_upc_self]; cases ‹Bool› <;> cases ‹Bool› <;> simp_all [isSdKill, UOp.isKill]; done)
    | (cases ‹Bool› <;> simp_all [isSdKill]; done)
    | (refine futCase_same _ _ ?_ ?_ ?_ <;> (simp; done))
    | (apply futCase_log <;>
         (first | (simp only [uNext_futs, uNext_taskOf, uNext_cancelOk, setFut_taskOf, setFut_cancelOk, setU_futs, setU_taskOf, setU_cancelOk]; done) | (simp only [uNext_futs, uNext_taskOf, uNext_cancelOk, setFut_taskOf, setFut_cancelOk, setU_futs, setU_taskOf, setU_cancelOk]; rfl)))
    | (apply futCase_cancel <;>
         (first | (simp only [uNext_futs, uNext_taskOf, uNext_cancelOk, setFut_taskOf, setFut_cancelOk, setU_futs, setU_taskOf, setU_cancelOk]; done) | (simp only [uNext_futs, uNext_taskOf, uNext_cancelOk, setFut_taskOf, setFut_cancelOk, setU_futs, setU_taskOf, setU_cancelOk]; rfl)))
    | (apply futCase_submit <;>
         (first | (simp only [uNext_futs, uNext_taskOf, uNext_cancelOk, setFut_taskOf, setFut_cancelOk, setU_futs, setU_taskOf, setU_cancelOk]; done) | (simp only [uNext_futs, uNext_taskOf, uNext_cancelOk, setFut_taskOf, setFut_cancelOk, setU_futs, setU_taskOf, setU_cancelOk]; rfl)))
    | skip)))

set_option maxHeartbeats 16000000 in
theorem uDispatch_sumO (s : St) (k : Nat) (op : UOp) (h : OutInv s) (hcur : s.ucur k = some op) :
    USumO s (uDispatch s k op) k := by
  have hkf := h.kf
  have hnks := h.nks k
  have hnkc := h.nkc k
  have hnkp := h.nkp k
  have hop : op.isKill = false := by rw [hcur] at hnkc; simpa [ucurOk] using hnkc
  unfold uDispatch
  repeat' split
  obattery

set_option maxHeartbeats 16000000 in
theorem uSumO_step (s s' : St) (k : Nat) (v : Variant) (h : OutInv s) (hs : stepU s k v = some s') : USumO s s' k := by
  have hkf := h.kf
  have hnks := h.nks k
  have hnkc := h.nkc k
  have hnkp := h.nkp k
  unfold stepU at hs
  crack_step
  all_goals (first
    | (exact uDispatch_sumO s k _ h ‹_›)
    | skip)
  obattery

theorem futArgOk_cancel_mono (cfg : Cfg) (T : List Tid) (c : List Wid) (w i : Wid) (f : Fut)
    (h : futArgOk cfg T c i f = true) : futArgOk cfg T (c ++ [w]) i f = true := by
  cases f <;> simp_all [futArgOk]

theorem futArgOk_T_mono (cfg : Cfg) (T : List Tid) (t : Tid) (c : List Wid) (i : Wid) (f : Fut) (hi : i < T.length)
    (h : futArgOk cfg T c i f = true) : futArgOk cfg (T ++ [t]) c i f = true := by
  cases f <;> simp_all [futArgOk, argOfW_append]

theorem outInv_stepU (s s' : St) (k : Nat) (v : Variant) (h : OutInv s) (hl : LenInv s)
    (hs : stepU s k v = some s') : OutInv s' := by
  have u := uSumO_step s s' k v h hs
  have hkill : (∀ j, ∀ op ∈ s'.uscript j, op.isKill = false) ∧ (∀ j, ucurOk (s'.ucur j) = true) ∧
      (∀ j, isSdKill (s'.upc j) = false) := by
    refine ⟨fun j => ?_, fun j => ?_, fun j => ?_⟩ <;> by_cases hj : j = k
    · subst hj; exact u.nks
    · rw [(u.oth j hj).2.2]; exact h.nks j
    · subst hj; exact u.nkc
    · rw [(u.oth j hj).2.1]; exact h.nkc j
    · subst hj; exact u.nkp
    · rw [(u.oth j hj).1]; exact h.nkp j
  have hw : ∀ p, wArgOk s.cfg (s'.w p) = true := by
    intro p
    rcases u.w with e | e <;> rw [e]
    · exact h.w p
    · rw [upd_apply]; split
      · rfl
      · exact h.w p
  rcases u.fut with ⟨f1, f2, f3⟩ | ⟨w, f1, f2, f3⟩ | ⟨t, f1, f2, f3⟩
  · refine ⟨?_, u.kf, hkill.1, hkill.2.1, hkill.2.2, ?_, ?_, ?_, ?_⟩
    · intro i
      have e : futOf s' i = futOf s i := by simp [futOf, f1]
      rw [u.cfg, f2, e]
      rcases f3 with f3 | ⟨w, f3⟩ <;> rw [f3]
      · exact h.fut i
      · exact futArgOk_cancel_mono _ _ _ _ _ _ (h.fut i)
    · rw [u.cfg, u.cqPipe]; exact h.pipe
    · rw [u.cfg]; exact hw
    · rw [u.cfg, f2, u.fpc]; exact h.f
    · rw [u.cfg, f2, u.execW]; exact h.ex
  · refine ⟨?_, u.kf, hkill.1, hkill.2.1, hkill.2.2, ?_, ?_, ?_, ?_⟩
    · intro i
      have e : futOf s' i = futOf (setFut s w .cancelled) i := by simp [futOf, f1, setFut]
      rw [u.cfg, f2, f3, e, futOf_setFut]
      split
      · rename_i hi; rw [hi.1]; simp [futArgOk]
      · exact futArgOk_cancel_mono _ _ _ _ _ _ (h.fut i)
    · rw [u.cfg, u.cqPipe]; exact h.pipe
    · rw [u.cfg]; exact hw
    · rw [u.cfg, f2, u.fpc]; exact h.f
    · rw [u.cfg, f2, u.execW]; exact h.ex
  · refine ⟨?_, u.kf, hkill.1, hkill.2.1, hkill.2.2, ?_, ?_, ?_, ?_⟩
    · intro i
      have e : futOf s' i = if i = s.futs.length then .pending else futOf s i := by
        simp only [futOf, f1]; exact futOf_append _ _ _
      rw [u.cfg, f2, f3, e]
      by_cases hi : i = s.futs.length
      · rw [if_pos hi]; rfl
      · rw [if_neg hi]
        by_cases hlt : i < s.taskOf.length
        · exact futArgOk_T_mono _ _ _ _ _ _ hlt (h.fut i)
        · have : futOf s i = .pending := futOf_ge s i (by unfold LenInv at hl; womega)
          rw [this]; rfl
    · rw [u.cfg, u.cqPipe]; exact h.pipe
    · rw [u.cfg]; exact hw
    · rw [u.cfg, f2, u.fpc]; exact fArgOk_mono _ _ _ _ h.f
    · rw [u.cfg, f2, u.execW]
      intro i hi
      obtain ⟨h1, h2⟩ := h.ex i hi
      refine ⟨by simp only [List.length_append, List.length_singleton]; exact Nat.lt_succ_of_lt h1, ?_⟩
      rw [argOfW_append _ _ _ _ h1]; exact h2

end LokyModel.Exec
