import LokyModel.Lemmas.ExecSticky
/-! The forced-shutdown request is never reset: `flag_as_shutting_down` ORs `kill_workers` into the flag, and nothing
    else writes it.  Same case analysis as the sticky flags of `ExecSticky.lean`. -/
namespace LokyModel.Exec

/-- the kill request survives the step -/
def StickyKill (s s' : St) : Prop := s.killFlag = true → s'.killFlag = true

set_option maxHeartbeats 4000000 in
theorem stickyKill_stepW (s s' : St) (p : Pid) (v : Variant) (hs : stepW s p v = some s') : StickyKill s s' := by
  unfold StickyKill
  unfold stepW at hs
  crack_step
  all_goals (first | (simp_all; done) | (simp [wAfterStart, wGet, wDispatch, wAfterResult]; done) | skip)

set_option maxHeartbeats 4000000 in
theorem stickyKill_stepF (s s' : St) (v : Variant) (hs : stepF s v = some s') : StickyKill s s' := by
  unfold StickyKill
  unfold stepF at hs
  crack_step
  all_goals (first | (simp_all; done) | skip)

set_option maxHeartbeats 4000000 in
theorem stickyKill_stepM (s s' : St) (v : Variant) (hs : stepM s v = some s') : StickyKill s s' := by
  unfold StickyKill
  unfold stepM at hs
  crack_step
  all_goals (first | (simp_all; done) | skip)

theorem stickyKill_uDispatch (s : St) (k : Nat) (op : UOp) : StickyKill s (uDispatch s k op) := by
  unfold StickyKill uDispatch
  cases op <;> simp only [] <;> (repeat' split) <;> simp_all

set_option maxHeartbeats 4000000 in
theorem stickyKill_stepU (s s' : St) (k : Nat) (v : Variant) (hs : stepU s k v = some s') : StickyKill s s' := by
  unfold StickyKill
  unfold stepU at hs
  crack_step
  all_goals (first | (simp_all; done) | exact stickyKill_uDispatch _ _ _ | skip)

/-- once `killFlag` is set it stays set along every step of every actor, every variant -/
theorem stickyKill_step {s s' : St} {a : Actor} {v : Variant} (hs : step s a v = some s') : StickyKill s s' := by
  unfold step at hs
  cases a with
  | U k => simp only [] at hs; split at hs; exact stickyKill_stepU s s' k v hs; cases hs
  | M => exact stickyKill_stepM s s' v hs
  | F => exact stickyKill_stepF s s' v hs
  | W p => simp only [] at hs; split at hs; exact stickyKill_stepW s s' p v hs; cases hs

theorem stickyKill_run (sched : List (Actor × Variant)) : ∀ (s s' : St), run s sched = some s' → StickyKill s s' := by
  induction sched with
  | nil => intro s s' h; simp [run] at h; subst h; exact id
  | cons x xs ih =>
    intro s s' h
    obtain ⟨a, v⟩ := x
    simp only [run] at h
    cases hs : step s a v with
    | none => simp [hs] at h
    | some s1 =>
      simp only [hs, Option.bind_some] at h
      exact fun x => ih s1 s' h (stickyKill_step hs x)

end LokyModel.Exec
