import LokyModel.Lemmas.ExecTokenW
namespace LokyModel.Exec

/-- closes the side conditions of `tok_move` for a step that touches no future and no worker -/
macro "tok_simple" s:term "," h:term : tactic => `(tactic| (
  refine tok_move $s _ $h ?_ (Or.inl ?_) ?_ ?_ ?_ ?_ ?_
  · simp
  · simp
  · intro i; simp
  · intro i; (try simp only [nw, pnw, tokpc]); (try simp_all [nw, pnw, mPreC, mPostC, fPreC, cmsgC, rmsgC]); (try omega)
  · intro i; (try simp only [nw, pnw, tokpc]); (try simp_all [nw, pnw, mPreC, mPostC, fPreC, cmsgC, rmsgC]); (try omega)
  · intro i; left; simp [futOf]
  · intro i _; (try simp only [nw, pnw, tokpc]); (try simp_all [nw, pnw, mPreC, mPostC, fPreC, cmsgC, rmsgC]); (try omega)))

theorem fNext_tok (X : St) (i : Wid) :
    sumC (cmsgC i) (fNext X).cqBuf + fPreC i (fNext X).fpc = sumC (cmsgC i) X.cqBuf := by
  unfold fNext
  split
  · simp_all [fPreC]
  · simp_all [fPreC, cmsgC]
  · simp_all [fPreC, cmsgC]
  · split <;> simp_all [fPreC, cmsgC] <;> omega

/-- the feeder fetches its next item: `TokInv` of the state with the feeder's hands empty carries over -/
theorem tok_fNext (X : St) (h : TokInv { X with fpc := .none }) : TokInv (fNext X) := by
  refine tok_move _ _ h (by simp) (Or.inl (by simp)) (fun i => by simp) (fun i => ?_) (fun i => ?_)
    (fun i => Or.inl (by simp [futOf])) (fun i _ => ?_)
  · have := fNext_tok X i; simp [nw, fPreC] at *; omega
  · simp [pnw]
  · have := fNext_tok X i; simp [nw, fPreC] at *; omega

/-- a token in the feeder's hands means the future was dispatched: it is neither pending nor cancelled -/
theorem fut_of_fpc (s : St) (h : TokInv s) (w : Wid) (hw : fPreC w s.fpc = 1) :
    futOf s w ≠ .pending ∧ futOf s w ≠ .cancelled := by
  have := h.undisp w
  constructor <;> intro hc <;> (have := this (by simp [hc])) <;> simp [preOut] at this <;> omega

theorem tok_errSem (s s' : St) (h : TokInv s) (w : Wid) (hpc : s.fpc = .errSem w)
    (hs : stepF s .ok = some s') : TokInv s' := by
  obtain ⟨n1, n2⟩ := fut_of_fpc s h w (by simp [hpc, fPreC, ind])
  unfold stepF at hs
  simp only [hpc] at hs
  cases hs
  refine tok_move s _ h ?_ (Or.inl ?_) ?_ ?_ ?_ ?_ ?_
  · split <;> simp
  · split <;> simp
  · intro i; split <;> simp
  · intro i; split <;> simp_all [nw, fPreC]
  · intro i; split <;> simp_all [pnw]
  · intro i
    split
    · have key : ∀ s1 : St, s1.futs = (setFut s w .excFeeder).futs →
          (futOf s1 i = futOf s i ∨ (futOf s1 i ≠ .pending ∧ futOf s1 i ≠ .cancelled ∧ futOf s i ≠ .cancelled)) := by
        intro s1 h1
        have e1 : futOf s1 i = futOf (setFut s w .excFeeder) i := by simp [futOf, h1]
        rw [e1, futOf_setFut]
        by_cases hi : i = w ∧ w < s.futs.length
        · right; rw [if_pos hi, hi.1]; exact ⟨by simp, by simp, n2⟩
        · left; rw [if_neg hi]
      exact key _ rfl
    · left; simp [futOf]
  · intro i _; split <;> simp_all [nw, fPreC]

set_option maxHeartbeats 4000000 in
theorem tokInv_stepF (s s' : St) (v : Variant) (h : TokInv s) (hs : stepF s v = some s') : TokInv s' := by
  by_cases hE : ∃ w, s.fpc = .errSem w
  · obtain ⟨w, hw⟩ := hE
    cases v with
    | ok => exact tok_errSem s s' h w hw hs
    | _ => unfold stepF at hs; simp [hw] at hs
  · unfold stepF at hs
    crack_step
    all_goals (first
      | (exact absurd ⟨_, ‹s.fpc = _›⟩ hE)
      | (refine tok_fNext _ ?_; tok_simple s, h; done)
      | (tok_simple s, h; done)
      | skip)

end LokyModel.Exec
