import LokyModel.Lemmas.ExecLiveDCPhase2Ann
/-!
# Clash-free copy of the `PoolInv` chain (`Lemmas/ExecPool.lean`, `ExecPoolM.lean`, `ExecPoolStep.lean`, `ExecPoolAll.lean`)

See `ExecLiveDCPhase2Ann.lean`: same statements and proofs, namespace `LokyModel.Exec.P2`, `announced` renamed `annPc`.
-/
namespace LokyModel.Exec.P2

/-! ## copy of `Lemmas/ExecPool.lean` -/
/-!
Every worker that could still run a task is registered in the pool (or is the one the manager has just un-registered
in order to kill / join it); together with `registered ≤ max_workers` this bounds the number of tasks executing at
any time.
-/

/-- the worker the manager has popped from the registry and is killing / joining -/
def mPop : MPc → Option Pid
  | .kill p | .killJoin p | .jJoin p => some p
  | _ => none

/-- the worker is inside a task body -/
def busy : WPc → Bool
  | .task _ _ | .taskEnd _ _ => true
  | _ => false

theorem busy_not_annPc (pc : WPc) (h : busy pc = true) : annPc pc = false := by
  cases pc <;> simp_all [busy, annPc]

structure PoolInv (s : St) : Prop where
  pre : ∀ p, p ∈ s.allPids → annPc (s.w p) = false → p ∈ s.procDict ∨ mPop s.mpc = some p
  nd : s.procDict.Nodup
  popnot : ∀ p, mPop s.mpc = some p → p ∉ s.procDict
  cnt : s.procDict.length + (if (mPop s.mpc).isSome then 1 else 0) ≤ s.cfg.maxWorkers
  fresh : ∀ p, p ∈ s.procDict → p < s.nextPid

theorem poolInv_init (cfg : Cfg) : PoolInv (init cfg) := by
  constructor <;> simp [init, mPop]

theorem mPop_flagged (pc : MPc) (p : Pid) (h : mPop pc = some p) : mFlagged pc = true := by
  cases pc <;> simp_all [mPop, mFlagged]

theorem nodup_subset_length : ∀ (L R : List Nat), L.Nodup → (∀ x, x ∈ L → x ∈ R) → L.length ≤ R.length := by
  intro L
  induction L with
  | nil => intro R _ _; simp
  | cons a L ih =>
    intro R hn hs
    simp only [List.nodup_cons] at hn
    have ha : a ∈ R := hs a (by simp)
    have := ih (R.erase a) hn.2 (by
      intro x hx
      have hxa : x ≠ a := fun e => hn.1 (e ▸ hx)
      exact (List.mem_erase_of_ne hxa).mpr (hs x (by simp [hx])))
    rw [List.length_erase_of_mem ha] at this
    have hpos : 0 < R.length := List.length_pos_of_mem ha
    simp only [List.length_cons]
    omega

/-- **at most `max_workers` task bodies at any time** (from the pool invariant) -/
theorem executing_le (s : St) (h : PoolInv s) (hn : s.allPids.Nodup) :
    (s.allPids.filter (fun p => busy (s.w p))).length ≤ s.cfg.maxWorkers := by
  have hc := h.cnt
  cases hm : mPop s.mpc with
  | none =>
    rw [hm] at hc; simp at hc
    have := nodup_subset_length (s.allPids.filter (fun p => busy (s.w p))) s.procDict (hn.filter _) (by
      intro x hx
      simp only [List.mem_filter] at hx
      rcases h.pre x hx.1 (busy_not_annPc _ hx.2) with e | e
      · exact e
      · rw [hm] at e; cases e)
    exact Nat.le_trans this hc
  | some q =>
    rw [hm] at hc; simp at hc
    have := nodup_subset_length (s.allPids.filter (fun p => busy (s.w p))) (q :: s.procDict) (hn.filter _) (by
      intro x hx
      simp only [List.mem_filter] at hx
      rcases h.pre x hx.1 (busy_not_annPc _ hx.2) with e | e
      · exact List.mem_cons_of_mem _ e
      · rw [hm] at e; cases e; simp)
    simp only [List.length_cons] at this
    exact Nat.le_trans this hc

/-! ## copy of `Lemmas/ExecPoolM.lean` -/
/-- a worker step -/
theorem pool_wmove (s s' : St) (h : PoolInv s) (p : Pid) (pc' : WPc) (hw : s'.w = upd s.w p pc')
    (hfr : s'.mpc = s.mpc ∧ s'.nextPid = s.nextPid ∧ s'.allPids = s.allPids ∧ s'.procDict = s.procDict ∧ s'.cfg = s.cfg)
    (hmono : annPc (s.w p) = true → annPc pc' = true) : PoolInv s' := by
  obtain ⟨f1, f2, f3, f4, f5⟩ := hfr
  constructor
  · intro q hq ha
    rw [f3] at hq; rw [f4, f1]
    rw [hw, annPc_upd] at ha
    split at ha
    · rename_i e; subst e
      apply h.pre q hq
      cases hb : annPc (s.w q) with
      | false => rfl
      | true => rw [hmono hb] at ha; cases ha
    · exact h.pre q hq ha
  · rw [f4]; exact h.nd
  · rw [f1, f4]; exact h.popnot
  · rw [f1, f4, f5]; exact h.cnt
  · rw [f4, f2]; exact h.fresh

/-- a step that leaves the registry, the worker table and the popped worker alone -/
theorem pool_congr (a b : St) (h : PoolInv a)
    (hfr : b.w = a.w ∧ b.nextPid = a.nextPid ∧ b.allPids = a.allPids ∧ b.procDict = a.procDict ∧ b.cfg = a.cfg)
    (hm : mPop b.mpc = mPop a.mpc) : PoolInv b := by
  obtain ⟨f1, f2, f3, f4, f5⟩ := hfr
  constructor
  · rw [f1, f3, f4, hm]; exact h.pre
  · rw [f4]; exact h.nd
  · rw [hm, f4]; exact h.popnot
  · rw [hm, f4, f5]; exact h.cnt
  · rw [f4, f2]; exact h.fresh

@[simp] theorem mPop_mAddFuel (n : Nat) (s : St) : mPop (mAddFuel n s).mpc = none := by
  induction n generalizing s with
  | zero => rfl
  | succ n ih => unfold mAddFuel; (repeat' split) <;> first | rfl | simp [*]
@[simp] theorem mPop_mAdd (s : St) : mPop (mAdd s).mpc = none := by unfold mAdd; simp
@[simp] theorem mPop_mAddF (s : St) : mPop (mAddF s).mpc = none := by
  rcases mAddF_mpc s with ⟨i, _, h⟩ | ⟨_, h, _⟩ | ⟨_, h, _⟩ <;> rw [h] <;> rfl
@[simp] theorem mPop_mJoinStart (s : St) : mPop (mJoinStart s).mpc = none := rfl
@[simp] theorem mPop_mAfterItem (s : St) : mPop (mAfterItem s).mpc = none := by
  unfold mAfterItem; split <;> first | rfl | simp
@[simp] theorem mPop_mDropRef (s : St) : mPop (mDropRef s).mpc = none := by
  unfold mDropRef; simp only []; split <;> first | rfl | simp
@[simp] theorem mPop_mRespawnCheck (s : St) : mPop (mRespawnCheck s).mpc = none := by
  unfold mRespawnCheck; simp only []; (repeat' split) <;> first | rfl | simp
@[simp] theorem mPop_mProcess (s : St) (r) : mPop (mProcess s r).mpc = none := by
  unfold mProcess; (repeat' split) <;> first | rfl | simp
@[simp] theorem mPop_mJoinClose (s : St) : mPop (mJoinClose s).mpc = none := rfl
@[simp] theorem mPop_mJoinLoop (s : St) (n a c) : mPop (mJoinLoop s n a c).mpc = none := by
  unfold mJoinLoop; split <;> first | rfl | simp
@[simp] theorem mPop_mAfterPut (s : St) (k n a c) : mPop (mAfterPut s k n a c).mpc = none := by
  unfold mAfterPut; split <;> first | rfl | simp
@[simp] theorem mPop_mSpawnLoop (s : St) : mPop (mSpawnLoop s).mpc = none := by unfold mSpawnLoop; split <;> rfl
@[simp] theorem mPop_mRelExitNext (s : St) (ps n) : mPop (mRelExitNext s ps n).mpc = none := by
  unfold mRelExitNext; split <;> rfl
@[simp] theorem mPop_mAliveNext (s : St) (ps c n a b) : mPop (mAliveNext s ps c n a b).mpc = none := by
  unfold mAliveNext; split <;> rfl

/-- popping the last registered worker (kill loop / join loop): `mk` is `.kill` or `.jJoin` -/
theorem pool_pop (X : St) (h : PoolInv X) (hm : mPop X.mpc = none) (mk : Pid → MPc) (hmk : ∀ p, mPop (mk p) = some p)
    (p : Pid) (hp : X.procDict.getLast? = some p) :
    PoolInv { X with procDict := X.procDict.dropLast, mpc := mk p } := by
  have hsplit : X.procDict = X.procDict.dropLast ++ [p] := by
    have hne : X.procDict ≠ [] := by intro e; rw [e] at hp; cases hp
    have := List.dropLast_concat_getLast hne
    rw [List.getLast?_eq_some_getLast hne] at hp
    cases hp
    exact this.symm
  have hnd := h.nd
  rw [hsplit] at hnd
  have hnot : p ∉ X.procDict.dropLast := by
    intro hm'
    have := List.nodup_append.mp hnd
    exact this.2.2 p hm' p (by simp) rfl
  constructor
  · intro q hq ha
    rcases h.pre q hq ha with e | e
    · rw [hsplit] at e
      simp only [List.mem_append, List.mem_singleton] at e
      rcases e with e | e
      · left; exact e
      · right; simp only; rw [e]; exact hmk p
    · rw [hm] at e; cases e
  · exact (List.nodup_append.mp hnd).1
  · intro q hq; simp only at hq ⊢; rw [hmk p] at hq; cases hq; exact hnot
  · have := h.cnt; rw [hm] at this
    simp only [hmk p]
    have hl : X.procDict.length = X.procDict.dropLast.length + 1 := by
      conv => lhs; rw [hsplit]
      simp
    simp at this ⊢; omega
  · intro q hq; exact h.fresh q (by rw [hsplit]; exact List.mem_append_left _ hq)

theorem pool_mKillNext (X : St) (h : PoolInv X) (hm : mPop X.mpc = none) : PoolInv (mKillNext X) := by
  unfold mKillNext
  split
  · rename_i p hp; exact pool_pop X h hm MPc.kill (fun _ => rfl) p hp
  · exact pool_congr X _ h (by simp [mJoinStart]) (by rw [hm]; rfl)

theorem pool_mJoinProcs (X : St) (h : PoolInv X) (hm : mPop X.mpc = none) : PoolInv (mJoinProcs X) := by
  unfold mJoinProcs
  split
  · rename_i p hp; exact pool_pop X h hm MPc.jJoin (fun _ => rfl) p hp
  · exact pool_congr X _ h (by simp) (by rw [hm]; rfl)

/-- the popped worker is dead: forget it -/
theorem pool_clear (s : St) (h : PoolInv s) (p : Pid) (hp : mPop s.mpc = some p) (hd : isDead s p = true) :
    PoolInv { s with mpc := .none } := by
  have hdead : s.w p = .dead := by simpa [isDead] using hd
  constructor
  · intro q hq ha
    rcases h.pre q hq ha with e | e
    · left; exact e
    · rw [hp] at e; cases e
      rw [hdead] at ha; simp [annPc] at ha
  · exact h.nd
  · intro q hq; simp [mPop] at hq
  · have := h.cnt; rw [hp] at this; simp [mPop] at this ⊢; omega
  · exact h.fresh

/-! ## copy of `Lemmas/ExecPoolStep.lean` -/
theorem mKillNext_irrel (s : St) (pc : MPc) : mKillNext s = mKillNext { s with mpc := pc } := by
  unfold mKillNext; simp only []; (try split) <;> (try rfl)
theorem mJoinProcs_irrel (s : St) (pc : MPc) : mJoinProcs s = mJoinProcs { s with mpc := pc } := by
  unfold mJoinProcs; simp only []

theorem pool_spawn (s X : St) (h : PoolInv s) (hroom : s.procDict.length < s.cfg.maxWorkers) (hlt : ∀ p, p ∈ s.allPids → p < s.nextPid)
    (hm0 : mPop s.mpc = none)
    (hfr : X.w = upd s.w s.nextPid .start ∧ X.nextPid = s.nextPid + 1 ∧ X.allPids = s.allPids ++ [s.nextPid] ∧
           X.procDict = s.procDict ++ [s.nextPid] ∧ X.cfg = s.cfg) (hm : mPop X.mpc = none) : PoolInv X := by
  obtain ⟨f1, f2, f3, f4, f5⟩ := hfr
  have hnp : s.nextPid ∉ s.procDict := fun e => Nat.lt_irrefl _ (h.fresh _ e)
  constructor
  · intro q hq ha
    rw [f3] at hq; rw [f4]
    simp only [List.mem_append, List.mem_singleton] at hq ⊢
    rcases hq with hq | hq
    · have hne : q ≠ s.nextPid := Nat.ne_of_lt (hlt q hq)
      rw [f1, annPc_upd, if_neg hne] at ha
      rcases h.pre q hq ha with e | e
      · left; left; exact e
      · rw [hm0] at e; cases e
    · left; right; exact hq
  · rw [f4]; exact List.nodup_append.mpr ⟨h.nd, by simp, by
      intro a ha b hb; simp at hb; subst hb; exact fun e => hnp (e ▸ ha)⟩
  · intro q hq; rw [hm] at hq; cases hq
  · rw [hm, f4, f5]; simp; exact hroom
  · intro q hq; rw [f4] at hq; rw [f2]
    simp only [List.mem_append, List.mem_singleton] at hq
    rcases hq with hq | hq
    · exact Nat.lt_succ_of_lt (h.fresh q hq)
    · rw [hq]; exact Nat.lt_succ_self _

theorem pool_erase (s X : St) (h : PoolInv s) (p : Pid) (hann : annPc (s.w p) = true) (hm0 : mPop s.mpc = none)
    (hfr : X.w = s.w ∧ X.nextPid = s.nextPid ∧ X.allPids = s.allPids ∧ X.procDict = s.procDict.erase p ∧ X.cfg = s.cfg)
    (hm : mPop X.mpc = none) : PoolInv X := by
  obtain ⟨f1, f2, f3, f4, f5⟩ := hfr
  constructor
  · intro q hq ha
    rw [f3] at hq; rw [f1] at ha; rw [f4]
    rcases h.pre q hq ha with e | e
    · left
      have hne : q ≠ p := by intro e'; rw [e'] at ha; rw [hann] at ha; cases ha
      exact (List.mem_erase_of_ne hne).mpr e
    · rw [hm0] at e; cases e
  · rw [f4]; exact List.Nodup.erase p h.nd
  · intro q hq; rw [hm] at hq; cases hq
  · have := h.cnt; rw [hm0] at this; rw [hm, f4, f5]
    have hl : (s.procDict.erase p).length ≤ s.procDict.length := List.length_erase_le
    simp at this ⊢; omega
  · intro q hq; rw [f4] at hq; rw [f2]; exact h.fresh q (List.mem_of_mem_erase hq)

theorem pool_die (s X : St) (h : PoolInv s) (p : Pid)
    (hfr : X.w = upd s.w p .dead ∧ X.nextPid = s.nextPid ∧ X.allPids = s.allPids ∧ X.procDict = s.procDict ∧ X.cfg = s.cfg)
    (hm : mPop X.mpc = mPop s.mpc) : PoolInv X := by
  obtain ⟨f1, f2, f3, f4, f5⟩ := hfr
  constructor
  · intro q hq ha
    rw [f3] at hq; rw [f4, hm]
    rw [f1, annPc_upd] at ha
    split at ha
    · simp [annPc] at ha
    · exact h.pre q hq ha
  · rw [f4]; exact h.nd
  · rw [hm, f4]; exact h.popnot
  · rw [hm, f4, f5]; exact h.cnt
  · rw [f4, f2]; exact h.fresh

theorem pool_mAfterFlag (X : St) (h : PoolInv X) (hm : mPop X.mpc = none) : PoolInv (mAfterFlag X) := by
  unfold mAfterFlag
  split
  · refine pool_mKillNext _ ?_ ?_
    · exact pool_congr X _ h (by simp) (by simp [hm])
    · simpa using hm
  · split
    · exact pool_congr X _ h (by simp [mJoinStart]) (by rw [hm]; rfl)
    · exact pool_congr X _ h (by simp) (by simp [hm])

theorem pool_kill (s : St) (h : PoolInv s) (p : Pid) (hpc : s.mpc = .kill p) :
    PoolInv (die { s with mpc := .killJoin p } p (-9)) := by
  refine pool_die s _ h p ?_ ?_
  · simp
  · rw [hpc]; simp; rfl

/-! ## copy of `Lemmas/ExecPoolAll.lean` -/
set_option maxHeartbeats 4000000 in
theorem poolInv_stepW (s s' : St) (p : Pid) (v : Variant) (h : PoolInv s) (hs : stepW s p v = some s') : PoolInv s' := by
  unfold stepW at hs
  crack_step
  all_goals (first
    | (refine pool_wmove s _ h p _ rfl ?_ ?_
       · simp
       · first | (intro _; rfl) | (intro ha; simp_all [annPc]))
    | (refine pool_wmove s _ h p _ (wGet_w' _ _) ?_ ?_
       · simp
       · intro ha; simp_all [annPc])
    | (refine pool_wmove s _ h p _ (wDispatch_w' _ _ _) ?_ ?_
       · simp
       · intro ha; simp_all [annPc])
    | (refine pool_wmove s _ h p _ (wAfterStart_w' _ _) ?_ ?_
       · simp
       · intro ha; simp_all [annPc])
    | (obtain ⟨pc, hw, hpc⟩ := wAfterResult_w' { s with rqWlock := s.rqWlock + 1, oRqWlock := none } p
       refine pool_wmove s _ h p pc hw ?_ ?_
       · simp
       · intro ha; simp_all [annPc])
    | skip)

set_option maxHeartbeats 4000000 in
theorem poolInv_stepF (s s' : St) (v : Variant) (h : PoolInv s) (hs : stepF s v = some s') : PoolInv s' := by
  unfold stepF at hs
  crack_step
  all_goals (first
    | (refine pool_congr s _ h ?_ ?_ <;> simp <;> done)
    | skip)

set_option maxHeartbeats 8000000 in
theorem poolInv_stepM (s s' : St) (v : Variant) (h : PoolInv s) (ha : AnnInv s) (hsp : SpawnInv s)
    (hs : stepM s v = some s') : PoolInv s' := by
  unfold stepM at hs
  crack_step
  all_goals (first
    | (refine pool_congr s _ h ?_ ?_
       · simp
       · first | (simp; done) | (rw [‹s.mpc = _›]; first | rfl | (simp; rfl)))
    -- a worker annPc its exit: un-register it
    | (refine pool_erase s _ h _ (ha.m _ (by rw [‹s.mpc = _›]; rfl)).1 (by rw [‹s.mpc = _›]; rfl) ?_ ?_
       · simp
       · rfl)
    | (refine pool_spawn s _ h (hsp.m (by simp [spawningM, *])) ha.lt (by rw [‹s.mpc = _›]; rfl) ?_ ?_
       · simp [spawn]
       · simp)
    | (exact pool_kill s h _ ‹_›)
    -- the manager pops the next worker to kill / join
    | (refine pool_mKillNext _ ?_ ?_
       · refine pool_congr s _ h ?_ ?_
         · simp
         · first | (simp; done) | (rw [‹s.mpc = _›]; first | rfl | (simp; rfl))
       · first | (simp; done) | (simp; rw [‹s.mpc = _›]; rfl))
    | (refine pool_mJoinProcs _ ?_ ?_
       · refine pool_congr s _ h ?_ ?_
         · simp
         · first | (simp; done) | (rw [‹s.mpc = _›]; first | rfl | (simp; rfl))
       · first | (simp; done) | (simp; rw [‹s.mpc = _›]; rfl))
    | (refine pool_mAfterFlag _ ?_ ?_
       · refine pool_congr s _ h ?_ ?_
         · simp
         · first | (simp; done) | (rw [‹s.mpc = _›]; first | rfl | (simp; rfl))
       · first | (simp; done) | (simp; rw [‹s.mpc = _›]; rfl))
    | (rw [mKillNext_irrel s .none]
       exact pool_mKillNext _ (pool_clear s h _ (by rw [‹s.mpc = _›]; rfl) ‹_›) rfl)
    | (rw [mJoinProcs_irrel s .none]
       exact pool_mJoinProcs _ (pool_clear s h _ (by rw [‹s.mpc = _›]; rfl) ‹_›) rfl)
    | skip)

theorem pool_uDispatch (s : St) (k : Nat) (op : UOp) (h : PoolInv s) : PoolInv (uDispatch s k op) := by
  unfold uDispatch
  cases op <;> simp only [] <;> (repeat' split) <;> (refine pool_congr s _ h ?_ ?_ <;> simp)

set_option maxHeartbeats 4000000 in
theorem poolInv_stepU (s s' : St) (k : Nat) (v : Variant) (h : PoolInv s) (ha : AnnInv s) (hsp : SpawnInv s)
    (hsh : ShutInv s) (hs : stepU s k v = some s') : PoolInv s' := by
  have hpop : accU (s.upc k) = true → mPop s.mpc = none := by
    intro hacc
    have hf := hsh.acc k hacc
    cases hm : mPop s.mpc with
    | none => rfl
    | some q => have := hsh.flag (mPop_flagged _ q hm); rw [hf] at this; cases this
  unfold stepU at hs
  crack_step
  all_goals (first
    | (refine pool_congr s _ h ?_ ?_ <;> simp <;> done)
    | (exact pool_uDispatch s k _ h)
    | (refine pool_spawn s _ h (hsp.u k (by simp [spawningU, *])) ha.lt (hpop (by simp [accU, *])) ?_ ?_
       · simp [spawn]
       · simpa using hpop (by simp [accU, *]))
    | (refine pool_congr s _ h ?_ ?_
       · simp
       · have := hpop (by simp [accU, *]); rw [this]; rfl)
    | skip)

theorem poolInv_step {s s' : St} {a : Actor} {v : Variant} (h : PoolInv s) (ha : AnnInv s) (hsp : SpawnInv s)
    (hsh : ShutInv s) (hs : step s a v = some s') : PoolInv s' := by
  unfold step at hs
  cases a with
  | U k => simp only [] at hs; split at hs; exact poolInv_stepU s s' k v h ha hsp hsh hs; cases hs
  | M => exact poolInv_stepM s s' v h ha hsp hs
  | F => exact poolInv_stepF s s' v h hs
  | W p => simp only [] at hs; split at hs; exact poolInv_stepW s s' p v h hs; cases hs

theorem poolInv_reachable {cfg : Cfg} {s : St} (h : Reachable cfg s) : PoolInv s := by
  induction h with
  | init => exact poolInv_init cfg
  | step hr hs ih =>
    exact poolInv_step ih (annInv_reachable hr) (spawnInv_reachable hr) (shutInv_reachable hr) hs

end LokyModel.Exec.P2
