import LokyModel.Lemmas.ExecLiveBase
import LokyModel.Lemmas.ExecLivePids
/-! `joinOk` (enough stop sentinels in the final phase of the manager), strengthened to an inductive invariant. -/
namespace LokyModel.Exec
set_option linter.unusedSimpArgs false
set_option linter.unusedVariables false

/-! ### the strengthening -/

/-- the part of `join_executor_internals` before the call queue is closed: the process table is still complete -/
def mPre : MPc → Bool
  | .jAcq1 | .jRelExit _ _ | .jRel1 _ | .jAliveAcq _ _ _ | .jAlive _ _ _ _ _ | .jAliveRel _ _ _ _
  | .jPut _ _ _ _ | .jPutTStart _ _ _ _ | .jSleep _ _ _ => true
  | _ => false

def joinExtra (s : St) : Bool :=
  (match s.mpc with
   | .flagRel | .addAcqF _ | .addTStartF _ => s.shutdownFlag
   | .jRelExit ps n => n + ps.length == s.procDict.length
   | .jRel1 n => n == s.procDict.length
   | .jAliveAcq n sent _ | .jAliveRel _ n sent _ => decide (sent < n)
   | .jAlive ps _ n sent _ => decide (sent < n) && s.procDict.drop (s.procDict.length - ps.length) == ps
   | .jPutTStart _ _ _ _ => s.fpc == .none
   | _ => true) &&
  (!mPre s.mpc || s.procDict == s.allPids)

def joinOk' (s : St) : Bool := joinOk s && joinExtra s

/-- the shutdown flag is known to be up: the manager raised it itself or is past the point where it checks it -/
def mFlagF : MPc → Bool
  | .flagRel | .addAcqF _ | .addTStartF _ => true
  | pc => mFinal pc

def mCounts : MPc → Bool
  | .raised _ => false
  | pc => mFinal pc

structure JoinInv (s : St) : Prop where
  flagF : mFlagF s.mpc = true → s.shutdownFlag = true
  pend : mFinal s.mpc = true → s.pending = []
  cnt : mCounts s.mpc = true → needStop s ≤ stopsInFlight s + mToSend s
  full : mPre s.mpc = true → s.procDict = s.allPids
  relExit : ∀ ps n, s.mpc = .jRelExit ps n → n + ps.length = s.procDict.length
  rel1 : ∀ n, s.mpc = .jRel1 n → n = s.procDict.length
  aliveAcq : ∀ n sent cool, s.mpc = .jAliveAcq n sent cool → sent < n
  alive : ∀ ps cnt n sent cool, s.mpc = .jAlive ps cnt n sent cool →
    sent < n ∧ s.procDict.drop (s.procDict.length - ps.length) = ps ∧
    (cnt = 0 → ∀ p ∈ s.procDict.take (s.procDict.length - ps.length), s.w p = .dead)
  aliveRel : ∀ cnt n sent cool, s.mpc = .jAliveRel cnt n sent cool →
    sent < n ∧ (cnt = 0 → ∀ p ∈ s.procDict, s.w p = .dead)
  put : ∀ k n sent cool, s.mpc = .jPut k n sent cool → k = n - sent ∧ 0 < k
  putT : ∀ k n sent cool, s.mpc = .jPutTStart k n sent cool → k = n - sent ∧ 0 < k ∧ s.fpc = .none

set_option maxHeartbeats 2000000 in
theorem joinOk'_iff (s : St) : joinOk' s = true ↔ JoinInv s := by
  constructor
  · intro h
    unfold joinOk' joinOk joinExtra at h
    cases hm : s.mpc <;> simp [hm, mFinal, mPre] at h <;>
      constructor <;> simp [hm, mFlagF, mFinal, mCounts, mPre] <;>
      first | done | (simp [h]; done) | (intros; subst_vars; simp [h]; done) | (intros; subst_vars; grind)
  · intro ⟨h1, h2, h3, h4, h5, h6, h7, h8, h9, h10, h11⟩
    unfold joinOk' joinOk joinExtra
    cases hm : s.mpc <;> simp [hm, mFlagF, mFinal, mCounts, mPre] at h1 h2 h3 h4 h5 h6 h7 h8 h9 h10 h11 ⊢ <;>
      first | done | (simp [*]; done) | grind

theorem joinOk_of_joinOk' (s : St) (h : joinOk' s = true) : joinOk s = true := by
  unfold joinOk' at h; simp at h; exact h.1

/-! ### sums -/

theorem sumL_le_sumL {α : Type} (f g : α → Nat) (l : List α) (h : ∀ x ∈ l, f x ≤ g x) : sumL f l ≤ sumL g l := by
  induction l with
  | nil => simp
  | cons a l ih =>
    simp only [sumL_cons]
    have h1 := h a (by simp)
    have h2 := ih (fun x hx => h x (by simp [hx]))
    omega

theorem sumL_le_length {α : Type} (f : α → Nat) (l : List α) (h : ∀ x ∈ l, f x ≤ 1) : sumL f l ≤ l.length := by
  induction l with
  | nil => simp
  | cons a l ih =>
    simp only [sumL_cons, List.length_cons]
    have h1 := h a (by simp)
    have h2 := ih (fun x hx => h x (by simp [hx]))
    omega

theorem sumL_eq_zero_join {α : Type} (f : α → Nat) (l : List α) (h : ∀ x ∈ l, f x = 0) : sumL f l = 0 := by
  induction l with
  | nil => simp
  | cons a l ih =>
    simp only [sumL_cons]
    have h1 := h a (by simp)
    have h2 := ih (fun x hx => h x (by simp [hx]))
    omega

def nstop (pc : WPc) : Nat := if wStopping pc then 0 else 1
def cstop (m : CMsg) : Nat := if isStop m then 1 else 0
def fstop : FPc → Nat
  | .acq .stop | .send .stop => 1
  | _ => 0

theorem needStop_eq (s : St) : needStop s = sumL (fun p => nstop (s.w p)) s.allPids := rfl
theorem stopsInFlight_eq (s : St) : stopsInFlight s = sumL cstop s.cqBuf + fstop s.fpc + sumL cstop s.cqPipe := by
  unfold stopsInFlight fstop cstop; rfl

theorem needStop_le_length (s : St) : needStop s ≤ s.allPids.length := by
  rw [needStop_eq]; apply sumL_le_length; intro x _; unfold nstop; split <;> omega

theorem needStop_mono (s s' : St) (hap : s'.allPids = s.allPids)
    (h : ∀ q ∈ s.allPids, wStopping (s.w q) = true → wStopping (s'.w q) = true) : needStop s' ≤ needStop s := by
  rw [needStop_eq, needStop_eq, hap]
  apply sumL_le_sumL
  intro q hq
  have := h q hq
  unfold nstop
  by_cases e : wStopping (s.w q) = true
  · simp [e, this e]
  · simp [e]; split <;> omega

theorem needStop_dead (s : St) (h : ∀ p ∈ s.allPids, s.w p = .dead) : needStop s = 0 := by
  rw [needStop_eq]; apply sumL_eq_zero_join; intro x hx; simp [nstop, h x hx, wStopping]

/-- one listed process changes its program counter -/
theorem needStop_upd (s s' : St) (p : Pid) (hn : s.allPids.Nodup) (hp : p ∈ s.allPids) (hap : s'.allPids = s.allPids)
    (ho : ∀ q, q ≠ p → s'.w q = s.w q) : needStop s' + nstop (s.w p) = needStop s + nstop (s'.w p) := by
  have e : s'.w = upd s.w p (s'.w p) := by
    funext q; by_cases h : q = p
    · subst h; simp [upd]
    · simp [upd, h, ho q h]
  rw [needStop_eq, needStop_eq, hap]
  have := sumL_upd nstop s.w p (s'.w p) s.allPids hn hp
  rw [← e] at this
  exact this

theorem mToSend_congr (s s' : St) (hm : s'.mpc = s.mpc) (hpd : s'.procDict = s.procDict) : mToSend s' = mToSend s := by
  unfold mToSend; rw [hm, hpd]

/-! ### states in which the invariant says nothing / the same -/

theorem mFinal_mFlagF (pc : MPc) (h : mFinal pc = true) : mFlagF pc = true := by
  cases pc <;> simp_all [mFlagF, mFinal]
theorem mCounts_mFinal (pc : MPc) (h : mCounts pc = true) : mFinal pc = true := by
  cases pc <;> simp_all [mCounts, mFinal]
theorem mPre_mFinal (pc : MPc) (h : mPre pc = true) : mFinal pc = true := by
  cases pc <;> simp_all [mPre, mFinal]

theorem joinInv_plain (s : St) (h : mFlagF s.mpc = false) : JoinInv s := by
  have h2 : mFinal s.mpc = false := by
    cases e : mFinal s.mpc
    · rfl
    · rw [mFinal_mFlagF _ e] at h; cases h
  constructor
  · intro e; rw [h] at e; cases e
  · intro e; rw [h2] at e; cases e
  · intro e; rw [mCounts_mFinal _ e] at h2; cases h2
  · intro e; rw [mPre_mFinal _ e] at h2; cases h2
  all_goals (intros; simp_all [mFlagF, mFinal])

/-- a step of another actor that leaves the manager where it is -/
theorem joinInv_same (s s' : St) (h : JoinInv s) (hm : s'.mpc = s.mpc)
    (hfl : s.shutdownFlag = true → s'.shutdownFlag = true)
    (hpe : s.shutdownFlag = true → s.pending = [] → s'.pending = [])
    (hpd : s'.procDict = s.procDict) (hap : s'.allPids = s.allPids)
    (hdead : ∀ p, s.w p = .dead → s'.w p = .dead)
    (hfpc : s.fpc = .none → s'.fpc = .none)
    (hcnt : needStop s' + stopsInFlight s ≤ needStop s + stopsInFlight s') : JoinInv s' := by
  obtain ⟨h1, h2, h3, h4, h5, h6, h7, h8, h9, h10, h11⟩ := h
  have hts := mToSend_congr s s' hm hpd
  constructor
  · intro e; rw [hm] at e; exact hfl (h1 e)
  · intro e; rw [hm] at e; exact hpe (h1 (mFinal_mFlagF _ e)) (h2 e)
  · intro e; rw [hm] at e; have := h3 e; omega
  · intro e; rw [hm] at e; rw [hpd, hap]; exact h4 e
  · intro ps n e; rw [hm] at e; rw [hpd]; exact h5 ps n e
  · intro n e; rw [hm] at e; rw [hpd]; exact h6 n e
  · intro n sent cool e; rw [hm] at e; exact h7 n sent cool e
  · intro ps cnt n sent cool e; rw [hm] at e; rw [hpd]
    obtain ⟨a, b, c⟩ := h8 ps cnt n sent cool e
    exact ⟨a, b, fun z p hp => hdead p (c z p hp)⟩
  · intro cnt n sent cool e; rw [hm] at e; rw [hpd]
    obtain ⟨a, c⟩ := h9 cnt n sent cool e
    exact ⟨a, fun z p hp => hdead p (c z p hp)⟩
  · intro k n sent cool e; rw [hm] at e; exact h10 k n sent cool e
  · intro k n sent cool e; rw [hm] at e
    obtain ⟨a, b, c⟩ := h11 k n sent cool e
    exact ⟨a, b, hfpc c⟩

/-! ### what the steps of the other actors do to the fields the invariant reads -/

set_option maxHeartbeats 4000000 in
theorem stepW_frame (s s' : St) (p : Pid) (v : Variant) (hs : stepW s p v = some s') :
    s'.mpc = s.mpc ∧ s'.shutdownFlag = s.shutdownFlag ∧ s'.pending = s.pending ∧ s'.procDict = s.procDict ∧
    s'.allPids = s.allPids ∧ s'.fpc = s.fpc ∧ s'.cqBuf = s.cqBuf ∧ (∀ q, q ≠ p → s'.w q = s.w q) := by
  unfold stepW at hs
  crack
  all_goals (refine ⟨?_, ?_, ?_, ?_, ?_, ?_, ?_, ?_⟩)
  all_goals (first
    | rfl
    | (simp; done)
    | (intro q hne
       simp [wAfterStart_w_other, wGet_w_other, wDispatch_w_other, wAfterResult_w_other, setW_w_other, die_w_other, hne]; done))

set_option maxHeartbeats 4000000 in
theorem stepW_pipe (s s' : St) (p : Pid) (v : Variant) (hs : stepW s p v = some s') :
    (s'.cqPipe = s.cqPipe ∧ (wStopping (s.w p) = true → wStopping (s'.w p) = true)) ∨
    (∃ m, s.cqPipe = m :: s'.cqPipe ∧ s.w p = .gRecv ∧ s'.w p = .gRel m) ∨ wNever (s.w p) = true := by
  unfold stepW at hs
  crack
  all_goals (first
    | (left; refine ⟨?_, ?_⟩ <;> simp [*, wStopping, setW, upd, die]; done)
    | (right; right; simp [*, wNever]; done)
    | (right; left; simp [*, setW, upd]; done)
    | (left; rename_i m _; refine ⟨?_, ?_⟩
       · simp
       · cases m <;> simp [*, wStopping, wDispatch, setW, upd])
    | skip)

theorem stopsInFlight_fNext (s : St) : stopsInFlight (fNext s) = sumL cstop s.cqBuf + sumL cstop s.cqPipe := by
  rw [stopsInFlight_eq]
  unfold fNext
  split
  · simp [fstop, *]
  · simp [fstop, cstop, isStop, *]
  · simp [fstop, cstop, isStop, *]; omega
  · split <;> simp [fstop, cstop, isStop, *]

set_option maxHeartbeats 4000000 in
theorem stepF_frame (s s' : St) (v : Variant) (hs : stepF s v = some s') :
    s'.mpc = s.mpc ∧ s'.shutdownFlag = s.shutdownFlag ∧ (s.pending = [] → s'.pending = []) ∧ s'.procDict = s.procDict ∧
    s'.allPids = s.allPids ∧ s'.w = s.w ∧ stopsInFlight s' = stopsInFlight s ∧ s.fpc ≠ .none := by
  unfold stepF at hs
  crack
  all_goals (refine ⟨?_, ?_, ?_, ?_, ?_, ?_, ?_, ?_⟩)
  all_goals (first
    | rfl
    | (simp [*]; done)
    | (intro h; simp_all; done)
    | (simp only [stopsInFlight_fNext]; simp [stopsInFlight_eq, fstop, cstop, isStop, *]; done)
    | (simp [stopsInFlight_eq, fstop, cstop, isStop, *]; done)
    | (rename_i m _; cases m <;> simp [stopsInFlight_eq, fstop, cstop, isStop, *] <;> omega)
    | (rename_i m _ _; cases m <;> simp [stopsInFlight_eq, fstop, cstop, isStop, *] <;> omega)
    | (split <;> simp [stopsInFlight_eq, fstop, cstop, isStop, *]; done)
    | skip)

set_option maxHeartbeats 8000000 in
theorem stepU_frame (s s' : St) (k : Nat) (v : Variant) (hs : stepU s k v = some s') :
    (s'.mpc = s.mpc ∨ s'.mpc = .start) ∧ (s.shutdownFlag = true → s'.shutdownFlag = true) ∧
    (s.shutdownFlag = true → s.pending = [] → s'.pending = []) ∧ s'.fpc = s.fpc ∧ s'.cqBuf = s.cqBuf ∧
    s'.cqPipe = s.cqPipe ∧
    ((s'.procDict = s.procDict ∧ s'.allPids = s.allPids ∧ s'.w = s.w) ∨ s.upc k = .subPStart) := by
  unfold stepU at hs
  crack
  all_goals (refine ⟨?_, ?_, ?_, ?_, ?_, ?_, ?_⟩)
  all_goals (first
    | rfl
    | (simp [*]; done)
    | (intro h; simp_all; done)
    | (intro h1 h2; simp_all; done)
    | (left; simp [*]; done)
    | (right; simp [*]; done)
    | skip)

/-! ### what is used of `staticOk` -/

theorem staticOk_facts (s : St) (h : staticOk s = true) :
    mNever s.mpc = false ∧ s.killFlag = false ∧ (∀ p ∈ s.allPids, wNever (s.w p) = false) ∧
    (mFinal s.mpc = false → s.procDict = s.allPids) := by
  unfold staticOk at h
  simp only [Bool.and_eq_true] at h
  obtain ⟨⟨⟨⟨⟨⟨⟨⟨⟨⟨⟨⟨h1, h2⟩, h3⟩, h4⟩, h5⟩, h6⟩, h7⟩, h8⟩, h9⟩, h10⟩, h11⟩, h12⟩, h13⟩ := h
  refine ⟨by simpa using h1, by simpa using h3, ?_, ?_⟩
  · intro p hp
    have := List.all_eq_true.1 h4 p hp
    simpa using this
  · intro hf
    simp [hf] at h5
    exact h5.1.1.1.1.1.1

end LokyModel.Exec
