import LokyModel.Lemmas.ExecMsg
namespace LokyModel.Exec

theorem msg_wmove (s s' : St) (h : MsgInv s) (p : Pid) (pc' : WPc) (hw : s'.w = upd s.w p pc')
    (hfr : s'.cfg = s.cfg ∧ s'.taskOf = s.taskOf ∧ s'.cqBuf = s.cqBuf ∧ s'.mpc = s.mpc ∧ s'.fpc = s.fpc ∧
           s'.workIds = s.workIds ∧ s'.futs = s.futs)
    (hpipe : ∀ m, m ∈ s'.cqPipe → goodC s.cfg s.taskOf m)
    (hrq : ∀ r, r ∈ s'.rqPipe → goodR s.cfg s.taskOf r)
    (hpc : goodW s.cfg s.taskOf pc') : MsgInv s' := by
  obtain ⟨f1, f2, f3, f4, f5, f6, f7⟩ := hfr
  constructor
  · rw [f1, f2, f3]; exact h.buf
  · rw [f1, f2]; exact hpipe
  · rw [f1, f2]; exact hrq
  · intro q; rw [f1, f2, hw, upd_apply]; split
    · exact hpc
    · exact h.w q
  · rw [f1, f2, f4]; exact h.m
  · rw [f1, f2, f5]; exact h.f
  · rw [f2, f6]; exact h.wk
  · intro i
    have := h.val i
    simp only [futOf, specOf, f1, f2, f7] at this ⊢
    exact this

theorem goodW_wGetPc (cfg : Cfg) (T : List Tid) (s : St) : goodW cfg T (wGetPc s) := by
  unfold wGetPc; split <;> trivial
theorem goodW_wDispatchPc (cfg : Cfg) (T : List Tid) (s : St) (m : CMsg) (h : goodC cfg T m) :
    goodW cfg T (wDispatchPc s m) := by
  unfold wDispatchPc
  split
  · split
    · trivial
    · exact h
  · trivial

macro "msgw_close" : tactic => `(tactic| (
  first
  | (intro x hx; simp_all [goodW, goodC, goodR]; done)
  | (intro x hx; refine MsgInv.pipe ‹MsgInv _› x ?_; simp_all; done)
  | (intro x hx; refine MsgInv.rq ‹MsgInv _› x ?_; simp_all; done)
  | (simp_all [goodW, goodC, goodR]; done)
  | skip))

theorem goodR_of_taskEnd (s : St) (w : Wid) (t : Tid) (e b : Bool) (hg : goodC s.cfg s.taskOf (.call w t))
    (hr : resOf (specOf s t) = some (e, b)) : goodR s.cfg s.taskOf (.res w e b) := by
  obtain ⟨h1, h2⟩ := hg
  refine ⟨h1, ?_⟩
  rw [← h2]; exact hr

theorem goodR_of_taskEnd' (s : St) (p : Pid) (w : Wid) (t : Tid) (e b : Bool) (hpc : s.w p = .taskEnd w t)
    (hwp : goodW s.cfg s.taskOf (s.w p)) (hr : resOf (specOf s t) = some (e, b)) : goodR s.cfg s.taskOf (.res w e b) := by
  rw [hpc] at hwp
  exact goodR_of_taskEnd s w t e b hwp hr

set_option maxHeartbeats 4000000 in
theorem msgInv_stepW (s s' : St) (p : Pid) (v : Variant) (h : MsgInv s) (hs : stepW s p v = some s') : MsgInv s' := by
  have hwp := h.w p
  unfold stepW at hs
  crack_step
  all_goals (first
    | (refine msg_wmove s _ h p _ rfl (by simp) ?_ ?_ ?_ <;> msgw_close <;> done)
    | (refine msg_wmove s _ h p _ (wGet_w' _ _) (by simp) ?_ ?_ (goodW_wGetPc _ _ _) <;> msgw_close <;> done)
    -- a message appended to the result pipe
    | (refine msg_wmove s _ h p _ rfl (by simp) ?_ ?_ ?_
       · intro x hx; refine h.pipe x ?_; simpa using hx
       · intro x hx
         simp at hx
         rcases hx with hx | rfl
         · exact h.rq x hx
         · simp_all [goodW, goodR]
       · simp [goodW])
    -- the head of the call pipe is taken
    | (refine msg_wmove s _ h p _ rfl (by simp) ?_ ?_ ?_
       · intro x hx; refine h.pipe x ?_; simp_all
       · intro x hx; refine h.rq x ?_; simpa using hx
       · show goodC s.cfg s.taskOf _; refine h.pipe _ ?_; simp_all)
    | (refine msg_wmove s _ h p _ (wDispatch_w' _ _ _) (by simp) ?_ ?_ (goodW_wDispatchPc _ _ _ _ ?_)
       · intro x hx; refine h.pipe x ?_; simpa using hx
       · intro x hx; refine h.rq x ?_; simpa using hx
       · simp_all [goodW])
    | (refine msg_wmove s _ h p _ (wAfterStart_w' _ _) (by simp) ?_ ?_ ?_
       · intro x hx; refine h.pipe x ?_; simpa using hx
       · intro x hx; refine h.rq x ?_; simpa using hx
       · split
         · trivial
         · exact goodW_wGetPc _ _ _)
    | (obtain ⟨pc, hw, hpc⟩ := wAfterResult_w' { s with rqWlock := s.rqWlock + 1, oRqWlock := none } p
       refine msg_wmove s _ h p pc hw (by simp) ?_ ?_ ?_
       · intro x hx; refine h.pipe x ?_; simpa using hx
       · intro x hx; refine h.rq x ?_; simpa using hx
       · rcases hpc with rfl | rfl | rfl <;> trivial)
    -- the body ends: the result kind is the one of the worker's own task
    | (refine msg_wmove s _ h p _ rfl (by simp) ?_ ?_ ?_
       · intro x hx; refine h.pipe x ?_; simpa using hx
       · intro x hx; refine h.rq x ?_; simpa using hx
       · refine goodR_of_taskEnd' s p _ _ _ _ ‹s.w p = _› hwp ?_
         simp_all [resOf, specOf])
    | (refine msg_wmove s _ h p _ rfl (by simp) ?_ ?_ ?_
       · intro x hx; refine h.pipe x ?_; simpa using hx
       · intro x hx; refine h.rq x ?_; simpa using hx
       · rw [‹s.w p = _›] at hwp; exact hwp)
    | (refine msg_wmove s _ h p _ rfl (by simp) ?_ ?_ ?_
       · intro x hx; refine h.pipe x ?_; simpa using hx
       · intro x hx
         simp at hx
         rcases hx with hx | rfl
         · exact h.rq x hx
         · rw [‹s.w p = _›] at hwp; exact hwp
       · simp [goodW])
    | skip)

end LokyModel.Exec
