import LokyModel.Lemmas.ExecTerm
/-!
Routing: every call item, wherever it is, carries the task of its own work id; every result message, wherever it is,
carries the outcome kind of the task of its own work id; a future is resolved with a value / a task exception only
by such a message.
-/
namespace LokyModel.Exec

/-- what a worker sends back for a task that does not take it down -/
def resOf (sp : TaskSpec) : Option (Bool × Bool) :=
  match sp.body with
  | .raises => some (true, false)
  | .ok => some (false, sp.res == .badunpickle)
  | .die => none

def goodC (cfg : Cfg) (T : List Tid) : CMsg → Prop
  | .call w t => w < T.length ∧ t = T.getD w 0
  | _ => True
def goodR (cfg : Cfg) (T : List Tid) : RMsg → Prop
  | .res w e b => w < T.length ∧ resOf (cfg.tasks.getD (T.getD w 0) {}) = some (e, b)
  | _ => True
def goodW (cfg : Cfg) (T : List Tid) : WPc → Prop
  | .gRel m | .gSem m | .tSem m | .tRel m => goodC cfg T m
  | .task w t | .taskEnd w t => goodC cfg T (.call w t)
  | .rAcq w e b | .rSend w e b => goodR cfg T (.res w e b)
  | _ => True
def goodM (cfg : Cfg) (T : List Tid) : MPc → Prop
  | .addAcq w | .addTStart w | .addAcqF w | .addTStartF w => w < T.length
  | .clrPoll (.item (some r)) | .clrRecv (.item (some r)) => goodR cfg T r ∧ ∀ w e, r ≠ .res w e true
  | _ => True
def goodF (cfg : Cfg) (T : List Tid) : FPc → Prop
  | .acq m | .send m => goodC cfg T m
  | _ => True

structure MsgInv (s : St) : Prop where
  buf : ∀ m, m ∈ s.cqBuf → goodC s.cfg s.taskOf m
  pipe : ∀ m, m ∈ s.cqPipe → goodC s.cfg s.taskOf m
  rq : ∀ r, r ∈ s.rqPipe → goodR s.cfg s.taskOf r
  w : ∀ p, goodW s.cfg s.taskOf (s.w p)
  m : goodM s.cfg s.taskOf s.mpc
  f : goodF s.cfg s.taskOf s.fpc
  wk : ∀ i, i ∈ s.workIds → i < s.taskOf.length
  val : ∀ i, (futOf s i = .value → (specOf s (s.taskOf.getD i 0)).body = .ok ∧ (specOf s (s.taskOf.getD i 0)).res ≠ .badunpickle) ∧
             (futOf s i = .excWorker → (specOf s (s.taskOf.getD i 0)).body = .raises)

theorem msgInv_init (cfg : Cfg) : MsgInv (init cfg) := by
  constructor <;> simp [init, goodW, goodM, goodF, futOf]

theorem goodC_mono (cfg : Cfg) (T : List Tid) (t : Tid) (m : CMsg) (h : goodC cfg T m) : goodC cfg (T ++ [t]) m := by
  cases m with
  | call w t' =>
    obtain ⟨h1, h2⟩ := h
    refine ⟨by simp only [List.length_append, List.length_singleton]; exact Nat.lt_succ_of_lt h1, ?_⟩
    rw [h2]; simp [List.getD_eq_getElem?_getD, List.getElem?_append_left h1]
  | _ => trivial
theorem goodR_mono (cfg : Cfg) (T : List Tid) (t : Tid) (r : RMsg) (h : goodR cfg T r) : goodR cfg (T ++ [t]) r := by
  cases r with
  | res w e b =>
    obtain ⟨h1, h2⟩ := h
    refine ⟨by simp only [List.length_append, List.length_singleton]; exact Nat.lt_succ_of_lt h1, ?_⟩
    rw [← h2]; simp [List.getD_eq_getElem?_getD, List.getElem?_append_left h1]
  | _ => trivial

end LokyModel.Exec
