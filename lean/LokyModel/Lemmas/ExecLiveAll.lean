import LokyModel.Lemmas.ExecLiveSlot
import LokyModel.Lemmas.ExecLiveHolderExit
import LokyModel.Lemmas.ExecLiveStatic
import LokyModel.Lemmas.ExecLiveCons
import LokyModel.Lemmas.ExecLiveWake
import LokyModel.Lemmas.ExecLiveJoin
import LokyModel.Lemmas.ExecLiveStuck2
import LokyModel.Lemmas.ExecNoBreak
import LokyModel.Lemmas.ExecTerm
/-! Assembly: the ingredients of `ExecLive.lean` (in their strengthened, inductive forms) hold in every state that a
    static pool reaches without crash steps; hence such a state is never stuck with something left undone. -/
namespace LokyModel.Exec

/-- the inductive bundle -/
structure LiveInv (s : St) : Prop where
  slot : slotOk' s = true
  holder : holderOk'' s = true
  static : StaticInv s
  wake : wakeOk' s = true
  cons : consOk' s = true
  join : joinOk' s = true

theorem slotOk_of_slotOk' (s : St) (h : slotOk' s = true) : slotOk s = true := by
  unfold slotOk' at h; simp only [Bool.and_eq_true] at h; exact h.1

theorem liveInv_init (cfg : Cfg) (hc : cfg.staticPool = true) : LiveInv (init cfg) :=
  ⟨slotOk'_init cfg, holderOk''_init cfg, staticInv_init cfg hc, wakeOk'_init cfg hc, consOk'_init cfg, joinOk'_init cfg⟩

theorem liveInv_step {cfg : Cfg} {s s' : St} {a : Actor} {v : Variant} (hr : Reachable cfg s) (hv : v ≠ .crash)
    (hs : step s a v = some s') (hc : s.cfg.staticPool = true) (h : LiveInv s) : LiveInv s' := by
  have hp := pidsInv_reachable hr
  have hst := staticOk_of_inv h.static
  have hho := holderOk_of_ok'' h.holder
  have hu : ∀ k, s.upc k = .subTStart → s.oMgmt = some (.U k) :=
    fun k hk => (mgmtInv_reachable hr).u k (by simp [inMgmtU, hk])
  have hacc : ∀ k, s.upc k = .subPStart → s.shutdownFlag = false :=
    fun k hk => (shutInv_reachable hr).acc k (by simp [accU, hk])
  exact ⟨slotOk'_step_static hv hs hp hst h.slot,
         holderOk''_step_static hv hs hp hst h.holder,
         staticInv_step hv hs hp hc hho h.static,
         wakeOk'_step hv hs hp hc hst (slotOk_of_slotOk' s h.slot) hho h.wake,
         consOk'_step hv hs hp hc hu h.cons,
         joinOk'_step hv hs hp hst hacc h.join⟩

theorem liveInv_reachableNC {cfg : Cfg} (hc : cfg.staticPool = true) {s : St} (h : ReachableNC cfg s) : LiveInv s := by
  induction h with
  | init => exact liveInv_init cfg hc
  | step hr hv hs ih =>
    have hcfg := cfg_reachable hr.reachable
    exact liveInv_step hr.reachable hv hs (by rw [hcfg]; exact hc) ih

end LokyModel.Exec
