import LokyModel.Lemmas.ExecLiveBase
import LokyModel.Lemmas.ExecLivePids
import LokyModel.Lemmas.ExecLiveFlag
import LokyModel.ExecLiveWatch
import LokyModel.Lemmas.ExecSpawn
/-! `watchOk`: the manager never waits on a stale list of sentinels — for EVERY reachable state (any configuration, any
    step, crashes included).  The invariant proved by induction is the stronger `watchOk'`: in addition, the wake-up pipe
    is closed only once the manager has begun `join_executor_internals` (so a `submit` that skips its wake-up because
    the pipe is closed cannot leave the manager at `wait`), and a `submit` about to start the manager thread finds none
    (so it cannot throw the manager back to `start`). -/
namespace LokyModel.Exec
set_option linter.unusedSimpArgs false
set_option linter.unusedVariables false

/-! ### the strengthening (executable) -/

def watchExtra (s : St) : Bool :=
  (!s.wakeupClosed || mFinal s.mpc) &&
  (List.range s.cfg.scripts.length).all (fun k => s.upc k != .subTStart || s.mpc == .none)

def watchOk' (s : St) : Bool := watchOk s && watchExtra s

/-- Prop form of `watchOk'` -/
structure WInv (s : St) : Prop where
  watch : ∀ sn, s.mpc = .wait sn →
    (∀ p ∈ s.procDict, p ∈ sn) ∨ 0 < s.wakeup ∨ ∃ k, k < s.cfg.scripts.length ∧ uSpawning (s.upc k) = true
  wc : s.wakeupClosed = true → mFinal s.mpc = true
  ts : ∀ k, k < s.cfg.scripts.length → s.upc k = .subTStart → s.mpc = .none

theorem watchOk_iff (s : St) : watchOk s = true ↔
    ∀ sn, s.mpc = .wait sn →
      (∀ p ∈ s.procDict, p ∈ sn) ∨ 0 < s.wakeup ∨ ∃ k, k < s.cfg.scripts.length ∧ uSpawning (s.upc k) = true := by
  unfold watchOk
  cases hm : s.mpc <;> simp [or_assoc]

theorem watchExtra_iff (s : St) : watchExtra s = true ↔
    (s.wakeupClosed = true → mFinal s.mpc = true) ∧
    (∀ k, k < s.cfg.scripts.length → s.upc k = .subTStart → s.mpc = .none) := by
  unfold watchExtra
  simp only [Bool.and_eq_true, Bool.or_eq_true, Bool.not_eq_true', List.all_eq_true, List.mem_range, bne_iff_ne, ne_eq,
    beq_iff_eq]
  constructor
  · rintro ⟨h1, h2⟩
    refine ⟨?_, ?_⟩
    · intro h; rcases h1 with h1 | h1
      · rw [h] at h1; cases h1
      · exact h1
    · intro k hk e; rcases h2 k hk with h2 | h2
      · exact absurd e h2
      · exact h2
  · rintro ⟨h1, h2⟩
    refine ⟨?_, ?_⟩
    · cases h : s.wakeupClosed
      · exact .inl rfl
      · exact .inr (h1 h)
    · intro k hk
      by_cases e : s.upc k = .subTStart
      · exact .inr (h2 k hk e)
      · exact .inl e

theorem watchOk'_iff (s : St) : watchOk' s = true ↔ WInv s := by
  unfold watchOk'
  rw [Bool.and_eq_true, watchOk_iff, watchExtra_iff]
  exact ⟨fun ⟨a, b, c⟩ => ⟨a, b, c⟩, fun ⟨a, b, c⟩ => ⟨a, b, c⟩⟩

theorem wInv_init (cfg : Cfg) : WInv (init cfg) := by
  constructor <;> simp [init]

/-! ### workers and the feeder: nothing the invariant reads changes, except that a wake-up may be added -/

theorem wInv_frame (s s' : St) (h : WInv s) (hcfg : s'.cfg = s.cfg) (hupc : s'.upc = s.upc) (hm : s'.mpc = s.mpc)
    (hpd : s'.procDict = s.procDict) (hwk : s.wakeup ≤ s'.wakeup) (hwc : s'.wakeupClosed = s.wakeupClosed) : WInv s' := by
  obtain ⟨h1, h2, h3⟩ := h
  refine ⟨?_, ?_, ?_⟩
  · intro sn e
    rw [hm] at e
    rcases h1 sn e with a | a | ⟨k, hk, a⟩
    · exact .inl (by rw [hpd]; exact a)
    · exact .inr (.inl (Nat.lt_of_lt_of_le a hwk))
    · exact .inr (.inr ⟨k, by rw [hcfg]; exact hk, by rw [hupc]; exact a⟩)
  · rw [hwc, hm]; exact h2
  · rw [hcfg, hupc, hm]; exact h3

set_option maxHeartbeats 4000000 in
theorem wInv_stepW (s s' : St) (p : Pid) (v : Variant) (h : WInv s) (hs : stepW s p v = some s') : WInv s' := by
  unfold stepW at hs
  crack
  all_goals (refine wInv_frame s _ h ?_ ?_ ?_ ?_ ?_ ?_ <;> first | rfl | (simp; done))

set_option maxHeartbeats 4000000 in
theorem wInv_stepF (s s' : St) (v : Variant) (h : WInv s) (hs : stepF s v = some s') : WInv s' := by
  unfold stepF at hs
  crack
  all_goals (refine wInv_frame s _ h ?_ ?_ ?_ ?_ ?_ ?_ <;> first | rfl | (simp; done))

/-! ### the manager -/

/-- if the manager is at `wait`, its snapshot is the current registry -/
def WaitCur (s : St) : Prop := ∀ sn, s.mpc = .wait sn → sn = s.procDict

theorem wt_mAddFuel (n : Nat) (s : St) : WaitCur (mAddFuel n s) := by
  induction n generalizing s with
  | zero => intro sn e; simp [mAddFuel] at e; simp [e]
  | succ n ih =>
    unfold mAddFuel
    (repeat' split) <;> first
      | (intro sn e; simp at e; simp [e]; done)
      | (have := ih { s with workIds := ‹List Wid›, pending := s.pending.erase ‹Wid› }; simpa using this)
      | (intro sn e; simp [setFut] at e; done)
theorem wt_mAdd (s : St) : WaitCur (mAdd s) := wt_mAddFuel _ s
theorem wt_mAfterAddF (s : St) (h : WaitCur s) : WaitCur (mAfterAddF s) := by
  unfold mAfterAddF
  (repeat' split) <;> first
    | exact h
    | (intro sn e; simp [mJoinStart] at e; done)
theorem wt_mAddF (s : St) : WaitCur (mAddF s) := wt_mAfterAddF _ (wt_mAdd s)
theorem wt_mAfterItem (s : St) : WaitCur (mAfterItem s) := by
  unfold mAfterItem; split
  · intro sn e; simp at e
  · exact wt_mAdd s
theorem wt_mDropRef (s : St) : WaitCur (mDropRef s) := by
  unfold mDropRef; simp only []; split
  · intro sn e; simp at e
  · exact wt_mAfterItem _
theorem wt_mRespawnCheck (s : St) : WaitCur (mRespawnCheck s) := by
  unfold mRespawnCheck; simp only []
  (repeat' split) <;> first
    | exact wt_mAfterItem _
    | (intro sn e; simp at e; done)
theorem wt_mProcess (s : St) (r : Option RMsg) : WaitCur (mProcess s r) := by
  unfold mProcess
  (repeat' split) <;> first
    | exact wt_mAfterItem _
    | (intro sn e; simp at e; done)
theorem wt_mKillNext (s : St) : WaitCur (mKillNext s) := by
  unfold mKillNext; split <;> (intro sn e; simp [mJoinStart] at e)
theorem wt_mAfterFlag (s : St) : WaitCur (mAfterFlag s) := by
  unfold mAfterFlag
  (repeat' split) <;> first
    | exact wt_mKillNext _
    | exact wt_mAddF _
    | (intro sn e; simp [mJoinStart] at e; done)
theorem wt_mSpawnLoop (s : St) : WaitCur (mSpawnLoop s) := by
  unfold mSpawnLoop; split <;> (intro sn e; simp at e)
theorem wt_mJoinClose (s : St) : WaitCur (mJoinClose s) := by
  unfold mJoinClose; intro sn e; simp at e
theorem wt_mJoinLoop (s : St) (n sent cool : Nat) : WaitCur (mJoinLoop s n sent cool) := by
  unfold mJoinLoop; split
  · intro sn e; simp at e
  · exact wt_mJoinClose s
theorem wt_mRelExitNext (s : St) (ps : List Pid) (n : Nat) : WaitCur (mRelExitNext s ps n) := by
  unfold mRelExitNext; split <;> (intro sn e; simp at e)
theorem wt_mAliveNext (s : St) (ps : List Pid) (cnt n sent cool : Nat) : WaitCur (mAliveNext s ps cnt n sent cool) := by
  unfold mAliveNext; split <;> (intro sn e; simp at e)
theorem wt_mAfterPut (s : St) (k n sent cool : Nat) : WaitCur (mAfterPut s k n sent cool) := by
  unfold mAfterPut; split
  · exact wt_mJoinLoop _ _ _ _
  · intro sn e; simp at e
theorem wt_mJoinProcs (s : St) : WaitCur (mJoinProcs s) := by
  unfold mJoinProcs; split <;> (intro sn e; simp at e)

/-! the final phase is not left -/
theorem fin_mJoinClose (s : St) : mFinal (mJoinClose s).mpc = true := by unfold mJoinClose; rfl
theorem fin_mJoinLoop (s : St) (n sent cool : Nat) : mFinal (mJoinLoop s n sent cool).mpc = true := by
  unfold mJoinLoop; split <;> first | rfl | exact fin_mJoinClose s
theorem fin_mRelExitNext (s : St) (ps : List Pid) (n : Nat) : mFinal (mRelExitNext s ps n).mpc = true := by
  unfold mRelExitNext; split <;> rfl
theorem fin_mAliveNext (s : St) (ps : List Pid) (cnt n sent cool : Nat) :
    mFinal (mAliveNext s ps cnt n sent cool).mpc = true := by
  unfold mAliveNext; split <;> rfl
theorem fin_mAfterPut (s : St) (k n sent cool : Nat) : mFinal (mAfterPut s k n sent cool).mpc = true := by
  unfold mAfterPut; split <;> first | rfl | exact fin_mJoinLoop _ _ _ _
theorem fin_mJoinProcs (s : St) : mFinal (mJoinProcs s).mpc = true := by
  unfold mJoinProcs; split <;> rfl

/-- a step of the manager: the users stay where they are; a `wait` is announced with the current registry; the
    wake-up pipe is closed in the final phase only -/
theorem wInv_M (s s' : St) (h : WInv s) (hne : s.mpc ≠ .none) (hcfg : s'.cfg = s.cfg) (hupc : s'.upc = s.upc)
    (hw : WaitCur s')
    (hwc : mFinal s'.mpc = true ∨ (s'.wakeupClosed = s.wakeupClosed ∧ mFinal s.mpc = false)) : WInv s' := by
  obtain ⟨h1, h2, h3⟩ := h
  refine ⟨?_, ?_, ?_⟩
  · intro sn e
    left
    rw [hw sn e]; exact fun p hp => hp
  · intro hc
    rcases hwc with a | ⟨a, b⟩
    · exact a
    · rw [a] at hc; rw [h2 hc] at b; cases b
  · intro k hk e
    rw [hcfg] at hk; rw [hupc] at e
    exact absurd (h3 k hk e) hne

set_option maxHeartbeats 8000000 in
theorem wInv_stepM (s s' : St) (v : Variant) (h : WInv s) (hs : stepM s v = some s') : WInv s' := by
  unfold stepM at hs
  crack
  all_goals (refine wInv_M s _ h ?_ ?_ ?_ ?_ ?_)
  all_goals (first
    | rfl
    | (simp [*]; done)
    | exact wt_mAdd _
    | exact wt_mAddF _
    | exact wt_mAfterItem _
    | exact wt_mDropRef _
    | exact wt_mRespawnCheck _
    | exact wt_mProcess _ _
    | exact wt_mKillNext _
    | exact wt_mAfterFlag _
    | exact wt_mSpawnLoop _
    | exact wt_mJoinLoop _ _ _ _
    | exact wt_mJoinClose _
    | exact wt_mRelExitNext _ _ _
    | exact wt_mAliveNext _ _ _ _ _ _
    | exact wt_mAfterPut _ _ _ _ _
    | exact wt_mJoinProcs _
    | (intro sn e; simp at e; done)
    | (intro sn e; simp [die] at e; done)
    | (split <;> first | exact wt_mRespawnCheck _ | exact wt_mJoinClose _ | (intro sn e; simp at e; done) | (intro sn e; simp [die] at e; done))
    | (left; first | rfl | exact fin_mJoinClose _ | exact fin_mJoinLoop _ _ _ _ | exact fin_mRelExitNext _ _ _
                   | exact fin_mAliveNext _ _ _ _ _ _ | exact fin_mAfterPut _ _ _ _ _ | exact fin_mJoinProcs _
                   | (split <;> first | rfl | exact fin_mJoinClose _))
    | (right; refine ⟨by simp, by simp only [*]; rfl⟩))

/-! ### user threads -/

theorem usp_uNext (s : St) (k : Nat) : uSpawning ((uNext s k).upc k) = false := by
  rcases uNext_upc_self s k with h | h <;> rw [h] <;> rfl
theorem usp_uRelease (s : St) (k : Nat) : uSpawning ((uRelease s k).upc k) = false := by
  rcases uRelease_upc_self s k with h | h | h <;> rw [h] <;> rfl
theorem usp_uSpawnLoop (s : St) (k : Nat) : uSpawning ((uSpawnLoop s k).upc k) = true := by
  rcases uSpawnLoop_upc_self s k with h | h | h <;> rw [h] <;> rfl
theorem usp_uDispatch (s : St) (k : Nat) (op : UOp) : uSpawning ((uDispatch s k op).upc k) = false := by
  unfold uDispatch
  (repeat' split) <;> first
    | exact usp_uNext _ _
    | exact usp_uRelease _ _
    | (simp [setU, upd, uSpawning]; done)
theorem nts_of_usp (pc : UPc) (h : uSpawning pc = false) : pc ≠ .subTStart := by
  intro e; rw [e] at h; cases h
theorem uSpawnLoop_ts (s : St) (k : Nat) (h : (uSpawnLoop s k).upc k = .subTStart) : s.mpc = .none := by
  unfold uSpawnLoop at h
  (repeat' split at h) <;> first
    | assumption
    | (simp [setU, upd] at h; done)

/-- user `k` moves -/
theorem wInv_U (s s' : St) (k : Nat) (hk : k < s.cfg.scripts.length) (h : WInv s)
    (hcfg : s'.cfg = s.cfg) (hoth : ∀ j, j ≠ k → s'.upc j = s.upc j) (hwk : s.wakeup ≤ s'.wakeup)
    (hwc : s'.wakeupClosed = s.wakeupClosed) (hm : s'.mpc = s.mpc)
    (hts : s'.upc k = .subTStart → s.mpc = .none)
    (hcase : uSpawning (s'.upc k) = true ∨ 0 < s'.wakeup ∨ s.wakeupClosed = true ∨
             (s'.procDict = s.procDict ∧ uSpawning (s.upc k) = false)) : WInv s' := by
  obtain ⟨h1, h2, h3⟩ := h
  refine ⟨?_, ?_, ?_⟩
  · intro sn e
    rw [hm] at e
    rcases hcase with a | a | a | ⟨a, b⟩
    · exact .inr (.inr ⟨k, by rw [hcfg]; exact hk, a⟩)
    · exact .inr (.inl a)
    · have := h2 a; rw [e] at this; cases this
    · rcases h1 sn e with c | c | ⟨j, hj, c⟩
      · exact .inl (by rw [a]; exact c)
      · exact .inr (.inl (Nat.lt_of_lt_of_le c hwk))
      · have hjk : j ≠ k := by
          intro e'; subst e'; rw [b] at c; cases c
        exact .inr (.inr ⟨j, by rw [hcfg]; exact hj, by rw [hoth j hjk]; exact c⟩)
  · rw [hwc, hm]; exact h2
  · intro j hj e
    rw [hm]
    rw [hcfg] at hj
    by_cases hjk : j = k
    · subst hjk; exact hts e
    · rw [hoth j hjk] at e; exact h3 j hj e

/-- user `k` starts the manager thread -/
theorem wInv_tstart (s s' : St) (k : Nat) (hk : k < s.cfg.scripts.length) (h : WInv s)
    (hu : ∀ j, s.upc j = .subTStart → s.oMgmt = some (.U j)) (hpc : s.upc k = .subTStart)
    (hcfg : s'.cfg = s.cfg) (hoth : ∀ j, j ≠ k → s'.upc j = s.upc j) (hself : s'.upc k = .subRelMgmt)
    (hwc : s'.wakeupClosed = s.wakeupClosed) (hm : s'.mpc = .start) : WInv s' := by
  obtain ⟨h1, h2, h3⟩ := h
  have hn := h3 k hk hpc
  refine ⟨?_, ?_, ?_⟩
  · intro sn e; rw [hm] at e; cases e
  · intro hc; rw [hwc] at hc; have := h2 hc; rw [hn] at this; cases this
  · intro j hj e
    exfalso
    by_cases hjk : j = k
    · subst hjk; rw [hself] at e; cases e
    · rw [hoth j hjk] at e
      have a := hu j e
      have b := hu k hpc
      rw [a] at b
      injection b with b
      injection b with b
      exact hjk b

set_option maxHeartbeats 8000000 in
theorem wInv_stepU (s s' : St) (k : Nat) (v : Variant) (hk : k < s.cfg.scripts.length)
    (hu : ∀ j, s.upc j = .subTStart → s.oMgmt = some (.U j)) (h : WInv s) (hs : stepU s k v = some s') : WInv s' := by
  unfold stepU at hs
  crack
  all_goals (first
    | (refine wInv_tstart s _ k hk h hu (by assumption) ?_ ?_ ?_ ?_ ?_ <;> first
        | rfl
        | (simp [setU, upd]; done)
        | (intro j hj; simp [setU, upd, hj]; done))
    | (refine wInv_U s _ k hk h ?_ ?_ ?_ ?_ ?_ ?_ ?_ <;> first
        | rfl
        | (simp; done)
        | (intro j hj; simp [uNext_upc_other, uRelease_upc_other, uSpawnLoop_upc_other, uDispatch_upc_other, setU, upd, hj]; done)
        | (intro e; exact absurd e (nts_of_usp _ (usp_uNext _ _)))
        | (intro e; exact absurd e (nts_of_usp _ (usp_uRelease _ _)))
        | (intro e; exact absurd e (nts_of_usp _ (usp_uDispatch _ _ _)))
        | (intro e; have := uSpawnLoop_ts _ _ e; simpa using this)
        | (intro e; simp [setU, upd] at e; done)
        | (intro e; simp [setU, upd] at e; assumption)
        | (left; exact usp_uSpawnLoop _ _)
        | (left; simp [setU, upd, uSpawning]; done)
        | (right; left; simp; done)
        | (right; right; left; assumption)
        | (right; right; right; refine ⟨by simp, by simp only [*]; rfl⟩)))

/-! ### assembly -/

/-- `WInv` is inductive: every actor, every variant (crash steps included).  The only fact used about the pre-state
    besides the invariant itself is mutual exclusion on the management lock for the threads about to start the manager
    thread (`MgmtInv.u`). -/
theorem wInv_step {s s' : St} {a : Actor} {v : Variant} (hs : step s a v = some s')
    (hu : ∀ k, s.upc k = .subTStart → s.oMgmt = some (.U k)) (h : WInv s) : WInv s' := by
  unfold step at hs
  cases a with
  | U k =>
    simp only [] at hs; split at hs
    · exact wInv_stepU s s' k v (by assumption) hu h hs
    · cases hs
  | M => exact wInv_stepM s s' v h hs
  | F => exact wInv_stepF s s' v h hs
  | W p =>
    simp only [] at hs; split at hs
    · exact wInv_stepW s s' p v h hs
    · cases hs

theorem watchOk_of_watchOk' (s : St) (h : watchOk' s = true) : watchOk s = true := by
  unfold watchOk' at h; rw [Bool.and_eq_true] at h; exact h.1

theorem watchOk'_init (cfg : Cfg) : watchOk' (init cfg) = true := (watchOk'_iff _).2 (wInv_init cfg)

theorem watchOk'_step {s s' : St} {a : Actor} {v : Variant} (hs : step s a v = some s')
    (hu : ∀ k, s.upc k = .subTStart → s.oMgmt = some (.U k)) (h : watchOk' s = true) : watchOk' s' = true :=
  (watchOk'_iff _).2 (wInv_step hs hu ((watchOk'_iff _).1 h))

theorem watchOk_init (cfg : Cfg) : watchOk (init cfg) = true := watchOk_of_watchOk' _ (watchOk'_init cfg)

theorem watchOk'_reachable {cfg : Cfg} {s : St} (h : Reachable cfg s) : watchOk' s = true := by
  induction h with
  | init => exact watchOk'_init cfg
  | step hr hs ih =>
    exact watchOk'_step hs (fun k hk => (mgmtInv_reachable hr).u k (by simp [inMgmtU, hk])) ih

/-- the manager never waits on a stale list of sentinels: every reachable state of every configuration -/
theorem watchOk_reachable {cfg : Cfg} {s : St} (h : Reachable cfg s) : watchOk s = true :=
  watchOk_of_watchOk' _ (watchOk'_reachable h)

/-- the step form with `watchOk` alone in the conclusion (its hypothesis must be the strengthened invariant: `watchOk`
    by itself is not inductive) -/
theorem watchOk_step {s s' : St} {a : Actor} {v : Variant} (hs : step s a v = some s')
    (hu : ∀ k, s.upc k = .subTStart → s.oMgmt = some (.U k)) (h : watchOk' s = true) : watchOk s' = true :=
  watchOk_of_watchOk' _ (watchOk'_step hs hu h)

/-- the death of a registered worker is seen: with the manager at `wait`, a dead worker in the registry and no thread
    inside `submit`'s spawn section, the manager can move (a message in the result pipe, a wake-up, or a dead process
    among the sentinels it waits on) -/
theorem watch_death_seen (s : St) (sn : List Pid) (p : Pid) (h : watchOk s = true) (hm : s.mpc = .wait sn)
    (hp : p ∈ s.procDict) (hd : isDead s p = true)
    (hno : ∀ k, k < s.cfg.scripts.length → uSpawning (s.upc k) = false) : (stepM s .ok).isSome = true := by
  have hw := (watchOk_iff s).1 h sn hm
  unfold stepM
  rw [hm]
  simp only []
  split
  · rfl
  · split
    · rfl
    · rename_i hwk
      rcases hw with a | a | ⟨k, hk, a⟩
      · have : sn.any (isDead s) = true := List.any_eq_true.2 ⟨p, a p hp, hd⟩
        rw [if_pos this]; rfl
      · exact absurd a hwk
      · rw [hno k hk] at a; cases a

theorem watch_death_seen_reachable {cfg : Cfg} {s : St} (hr : Reachable cfg s) (sn : List Pid) (p : Pid)
    (hm : s.mpc = .wait sn) (hp : p ∈ s.procDict) (hd : isDead s p = true)
    (hno : ∀ k, k < s.cfg.scripts.length → uSpawning (s.upc k) = false) : (stepM s .ok).isSome = true :=
  watch_death_seen s sn p (watchOk_reachable hr) hm hp hd hno

end LokyModel.Exec
