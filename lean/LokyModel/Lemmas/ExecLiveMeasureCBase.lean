import LokyModel.Lemmas.ExecLiveMeasure
import LokyModel.Lemmas.ExecLiveCrashAll
import LokyModel.ExecLiveMeasureCDef
/-! `muC` (`LokyModel/ExecLiveMeasureCDef.lean`) decreases: shared tools, and the steps of the worker processes, the
    feeder thread and the user threads.  `muC = mu + extraC` where `extraC` reads the configuration, the manager's
    program counter, the length of the process table and the broken flag only: a step of another actor leaves it alone
    (the one step that lengthens the process table, `subPStart`, is not taken while the manager is in the kill loop:
    `ShutInv`), so the step lemmas for `mu` (`Lemmas/ExecLiveMeasureW/F/U.lean`) carry over. -/
namespace LokyModel.Exec
set_option linter.unusedSimpArgs false
set_option linter.unusedVariables false

/-- what `muC` adds to `mu` -/
def extraC (s : St) : Nat := mRankBrk s.cfg.maxWorkers s.procDict.length s.mpc + brkTok s

theorem muC_eq (s : St) : muC s = mu s + extraC s := by unfold muC extraC; omega

theorem extraC_same (s s' : St) (hcfg : s'.cfg = s.cfg) (hpd : s'.procDict = s.procDict) (hm : s'.mpc = s.mpc)
    (hb : s'.broken = s.broken) : extraC s' = extraC s := by
  unfold extraC brkTok
  rw [hcfg, hpd, hm, hb]

/-- off the broken path the rank `mRankBrk` is zero, whatever the process table -/
theorem mRankBrk_off (B pd : Nat) (pc : MPc) (h : mBrk pc = false) : mRankBrk B pd pc = 0 := by
  cases pc <;> first | rfl | (simp [mBrk] at h; done) | skip
  all_goals (rename_i k; cases k <;> first | rfl | (simp [mBrk] at h; done))

/-- up to `brkAcq` it does not read the process table -/
theorem mRankBrk_pd (B pd pd' : Nat) (pc : MPc) (h : mFlagged pc = false) : mRankBrk B pd' pc = mRankBrk B pd pc := by
  cases pc <;> first | rfl | (simp [mFlagged] at h; done) | skip
  all_goals (rename_i k; cases k <;> rfl)

/-! ### `joinOk` from its crash-aware form -/

theorem joinOk_of_joinC' (s : St) (h : joinC' s = true) : joinOk s = true := by
  unfold joinC' joinC joinCExtra at h
  unfold joinOk
  cases hf : mFinal s.mpc with
  | false => simp
  | true =>
    simp only [hf, Bool.not_true, Bool.false_or, Bool.and_eq_true] at h ⊢
    obtain ⟨⟨⟨h1, h2⟩, h3⟩, h4, _⟩ := h
    refine ⟨⟨h1, h2⟩, ?_⟩
    cases hm : s.mpc <;> simp only [hm] at h3 h4 ⊢ <;> simp_all <;> omega

/-! ### frames -/

set_option maxHeartbeats 4000000 in
theorem stepW_frameC (s s' : St) (p : Pid) (v : Variant) (hs : stepW s p v = some s') :
    s'.cfg = s.cfg ∧ s'.procDict = s.procDict ∧ s'.mpc = s.mpc ∧ s'.broken = s.broken := by
  unfold stepW at hs
  crack
  all_goals (refine ⟨?_, ?_, ?_, ?_⟩)
  all_goals (first | rfl | (simp; done))

theorem stepF_frameC (s s' : St) (v : Variant) (hs : stepF s v = some s') :
    s'.cfg = s.cfg ∧ s'.procDict = s.procDict ∧ s'.mpc = s.mpc ∧ s'.broken = s.broken := by
  unfold stepF at hs
  crack
  all_goals (refine ⟨?_, ?_, ?_, ?_⟩)
  all_goals (first | rfl | (simp; done))

set_option maxHeartbeats 8000000 in
theorem stepU_frameC (s s' : St) (k : Nat) (v : Variant) (hs : stepU s k v = some s') :
    s'.cfg = s.cfg ∧ s'.broken = s.broken ∧ (s'.mpc = s.mpc ∨ (s.upc k = .subTStart ∧ s'.mpc = .start)) ∧
    (s'.procDict = s.procDict ∨ s.upc k = .subPStart) := by
  unfold stepU at hs
  crack
  all_goals (refine ⟨?_, ?_, ?_, ?_⟩)
  all_goals (first
    | rfl
    | (simp [*]; done)
    | (left; rfl)
    | (left; simp [*]; done)
    | (right; simp [*]; done)
    | skip)

/-! ### the steps -/

theorem muC_stepW (s s' : St) (p : Pid) (v : Variant) (hp : PidsInv s) (hm : p ∈ s.allPids)
    (hwn : wNever (s.w p) = false) (hs : stepW s p v = some s') : muC s' < muC s := by
  have h := mu_stepW s s' p v hp hm hwn hs
  obtain ⟨f1, f2, f3, f4⟩ := stepW_frameC s s' p v hs
  rw [muC_eq, muC_eq, extraC_same s s' f1 f2 f3 f4]
  omega

theorem muC_stepF (s s' : St) (v : Variant) (hs : stepF s v = some s') : muC s' < muC s := by
  have h := mu_stepF s s' v hs
  obtain ⟨f1, f2, f3, f4⟩ := stepF_frameC s s' v hs
  rw [muC_eq, muC_eq, extraC_same s s' f1 f2 f3 f4]
  omega

/-- a user thread.  `hfl`: a `submit` that is spawning workers holds `shutdown_lock` with the flag unset (`ShutInv.acc`),
    whereas in the kill loop the flag is set (`ShutInv.flag`) -/
theorem muC_stepU (s s' : St) (k : Nat) (v : Variant) (hk : k < s.cfg.scripts.length) (hp : PidsInv s)
    (hsp : s.upc k = .subPStart → s.allPids.length < s.cfg.maxWorkers)
    (htn : s.upc k = .subTStart → s.mpc = .none)
    (hfl : s.upc k = .subPStart → mFlagged s.mpc = false)
    (hs : stepU s k v = some s') : muC s' < muC s := by
  have h := mu_stepU s s' k v hk hp hsp htn hs
  obtain ⟨f1, f2, f3, f4⟩ := stepU_frameC s s' k v hs
  have he : extraC s' = extraC s := by
    unfold extraC brkTok
    rw [f1, f2]
    congr 1
    rcases f3 with e | ⟨e0, e1⟩
    · rw [e]
      rcases f4 with e' | e'
      · rw [e']
      · exact mRankBrk_pd _ _ _ _ (hfl e')
    · rw [htn e0, e1]; rfl
  rw [muC_eq, muC_eq, he]
  omega

end LokyModel.Exec
