import LokyModel.Lemmas.ExecLiveWakeM2
import LokyModel.Lemmas.ExecLiveWakeU2
import LokyModel.ExecLiveDeliverDef
/-! Prop form of `refillOk` (no lost refill of the call queue) and the transfer lemmas used by the per-actor step
    lemmas `ExecLiveDeliver{W,F,M,U}.lean`. -/
namespace LokyModel.Exec
set_option linter.unusedSimpArgs false
set_option linter.unusedVariables false

/-- a wake-up that does not depend on a task body returning is on its way, or the call queue is as full as it can be
    given the call items that workers have taken and not answered (Prop form of `wakeNB s || cqSem ≤ nPost s`) -/
def WR (s : St) : Prop :=
  0 < s.wakeup ∨ s.rqPipe ≠ [] ∨ (∃ k, k < s.cfg.scripts.length ∧ uOwes2 s (s.upc k) = true) ∨
  fOwes s.fpc = true ∨ s.cqSem ≤ nPost s

/-- the manager waits while work ids are queued -/
def NeedR (s : St) : Prop := (∃ sn, s.mpc = .wait sn) ∧ s.workIds ≠ []

def RefP (s : St) : Prop := NeedR s → WR s

theorem refillOk_iff (s : St) : refillOk s = true ↔ RefP s := by
  unfold refillOk RefP NeedR WR wakeNB
  split <;> rename_i hm
  · simp only [hm, Bool.or_eq_true, List.isEmpty_iff, decide_eq_true_eq, List.any_eq_true, List.mem_range,
      Bool.not_eq_true', List.isEmpty_eq_false_iff]
    constructor
    · intro h ⟨_, hw⟩
      rcases h with (h | h) | h
      · exact absurd h hw
      · rcases h with ((h | h) | h) | h
        · exact .inl h
        · exact .inr (.inl h)
        · exact .inr (.inr (.inl h))
        · exact .inr (.inr (.inr (.inl h)))
      · exact .inr (.inr (.inr (.inr h)))
    · intro h
      by_cases hw : s.workIds = []
      · exact .inl (.inl hw)
      · rcases h ⟨⟨_, rfl⟩, hw⟩ with h | h | h | h | h
        · exact .inl (.inr (.inl (.inl (.inl h))))
        · exact .inl (.inr (.inl (.inl (.inr h))))
        · exact .inl (.inr (.inl (.inr h)))
        · exact .inl (.inr (.inr h))
        · exact .inr h
  · constructor
    · intro _ ⟨⟨sn, h⟩, _⟩
      exact absurd h (hm sn)
    · intro _; rfl

theorem needR_idle {s : St} (n : NeedR s) : mIdle s.mpc = true := by
  obtain ⟨⟨sn, h⟩, _⟩ := n
  rw [h]; rfl

theorem needR_notFinal {s : St} (n : NeedR s) : mFinal s.mpc = false := by
  obtain ⟨⟨sn, h⟩, _⟩ := n
  rw [h]; rfl

theorem needR_congr (s s' : St) (h1 : s'.mpc = s.mpc) (h2 : s'.workIds = s.workIds) : NeedR s' → NeedR s := by
  unfold NeedR; rw [h1, h2]; exact id

theorem refP_busy {s' : St} (h : mIdle s'.mpc = false) : RefP s' := by
  intro n; rw [needR_idle n] at h; cases h

theorem refP_of {s s' : St} (hn : NeedR s' → NeedR s) (hw : WR s → WR s') (h : RefP s) : RefP s' :=
  fun n => hw (h (hn n))

/-! ### the count of workers holding an unanswered call item -/

/-- one worker moves -/
theorem nPost_W (s s' : St) (p : Pid) (hp : p ∈ s.allPids) (hn : s.allPids.Nodup) (hall : s'.allPids = s.allPids)
    (hoth : ∀ q, q ≠ p → s'.w q = s.w q) : nPost s' + wPost (s.w p) = nPost s + wPost (s'.w p) := by
  unfold nPost
  rw [hall]
  have e : sumL (fun q => wPost (s'.w q)) s.allPids = sumL (fun q => wPost (upd s.w p (s'.w p) q)) s.allPids := by
    apply sumL_congr
    intro q _
    by_cases e : q = p
    · simp [upd, e]
    · simp [upd, e, hoth q e]
  rw [e]
  exact sumL_upd wPost s.w p (s'.w p) s.allPids hn hp

theorem nPost_congr (s s' : St) (hall : s'.allPids = s.allPids) (hw : s'.w = s.w) : nPost s' = nPost s := by
  unfold nPost; rw [hall, hw]

/-- a worker step -/
theorem WR_W (s s' : St) (p : Pid) (hp : p ∈ s.allPids) (hn : s.allPids.Nodup)
    (hcfg : s'.cfg = s.cfg) (hwk : s'.wakeup = s.wakeup) (hupc : s'.upc = s.upc) (hatt : s'.attrsDropped = s.attrsDropped)
    (hfpc : s'.fpc = s.fpc) (hall : s'.allPids = s.allPids)
    (hoth : ∀ q, q ≠ p → s'.w q = s.w q)
    (hrq : s.rqPipe ≠ [] → s'.rqPipe ≠ [])
    (hself : s'.rqPipe ≠ [] ∨ s'.cqSem + wPost (s.w p) ≤ s.cqSem + wPost (s'.w p)) : WR s → WR s' := by
  intro h
  have hc := nPost_W s s' p hp hn hall hoth
  unfold WR at h ⊢
  rw [hcfg, hwk, hupc, hfpc]
  have hu : ∀ pc, uOwes2 s' pc = uOwes2 s pc := by intro pc; unfold uOwes2; rw [hatt]
  simp only [hu]
  rcases h with h | h | h | h | h
  · exact .inl h
  · exact .inr (.inl (hrq h))
  · exact .inr (.inr (.inl h))
  · exact .inr (.inr (.inr (.inl h)))
  · rcases hself with h' | h'
    · exact .inr (.inl h')
    · exact .inr (.inr (.inr (.inr (by omega))))

/-- a feeder step -/
theorem WR_F (s s' : St)
    (hcfg : s'.cfg = s.cfg) (hrq : s'.rqPipe = s.rqPipe) (hupc : s'.upc = s.upc) (hatt : s'.attrsDropped = s.attrsDropped)
    (hall : s'.allPids = s.allPids) (hw : s'.w = s.w) (hwk : s.wakeup ≤ s'.wakeup)
    (hf : fOwes s.fpc = true → fOwes s'.fpc = true ∨ 0 < s'.wakeup)
    (hsem : s'.cqSem = s.cqSem ∨ fOwes s'.fpc = true) : WR s → WR s' := by
  intro h
  have hc := nPost_congr s s' hall hw
  unfold WR at h ⊢
  rw [hcfg, hrq, hupc, hc]
  have hu : ∀ pc, uOwes2 s' pc = uOwes2 s pc := by intro pc; unfold uOwes2; rw [hatt]
  simp only [hu]
  rcases h with h | h | h | h | h
  · exact .inl (by omega)
  · exact .inr (.inl h)
  · exact .inr (.inr (.inl h))
  · rcases hf h with h' | h'
    · exact .inr (.inr (.inr (.inl h')))
    · exact .inl h'
  · rcases hsem with h' | h'
    · exact .inr (.inr (.inr (.inr (by omega))))
    · exact .inr (.inr (.inr (.inl h')))

/-- a user-thread step that changes nothing `WR` reads, except the program counter of a thread that owed nothing -/
theorem WR_keep (s s' : St) (k : Nat) (pc' : UPc) (hupc : s'.upc = upd s.upc k pc')
    (hcfg : s'.cfg = s.cfg) (hwk : s.wakeup ≤ s'.wakeup) (hrq : s'.rqPipe = s.rqPipe) (hfpc : s'.fpc = s.fpc)
    (hsem : s'.cqSem = s.cqSem) (hall : s'.allPids = s.allPids) (hw : s'.w = s.w)
    (hold : uOwes2 s (s.upc k) = false)
    (hattr : s'.attrsDropped = s.attrsDropped ∨ ∀ k', k' < s.cfg.scripts.length → k' ≠ k → ∀ w, s.upc k' ≠ .sdRel1 w) :
    WR s → WR s' := by
  intro h
  have hc := nPost_congr s s' hall hw
  unfold WR at h ⊢
  rw [hcfg, hrq, hfpc, hsem, hc]
  rcases h with h | h | h | h
  · exact .inl (by omega)
  · exact .inr (.inl h)
  · obtain ⟨k', hk', ho⟩ := h
    have e : k' ≠ k := by intro e; rw [e, hold] at ho; cases ho
    refine .inr (.inr (.inl ⟨k', hk', ?_⟩))
    rw [hupc, upd_other' _ _ _ _ e, uOwes2_attr s s' _ ?_]
    · exact ho
    · rcases hattr with a | a
      · exact .inl a
      · exact .inr (a k' hk' e)
  · exact .inr (.inr (.inr h))

theorem refP_keep (s s' : St) (k : Nat) (pc' : UPc) (h : RefP s) (hupc : s'.upc = upd s.upc k pc')
    (hcfg : s'.cfg = s.cfg) (hwk : s.wakeup ≤ s'.wakeup) (hrq : s'.rqPipe = s.rqPipe) (hfpc : s'.fpc = s.fpc)
    (hsem : s'.cqSem = s.cqSem) (hall : s'.allPids = s.allPids) (hw : s'.w = s.w)
    (hmpc : s'.mpc = s.mpc) (hwi : s'.workIds = s.workIds)
    (hn : NeedR s → uOwes2 s (s.upc k) = false ∧
      (s'.attrsDropped = s.attrsDropped ∨ ∀ k', k' < s.cfg.scripts.length → k' ≠ k → ∀ w, s.upc k' ≠ .sdRel1 w)) :
    RefP s' := by
  intro n
  have n1 := needR_congr s s' hmpc hwi n
  obtain ⟨n2, n3⟩ := hn n1
  exact WR_keep s s' k pc' hupc hcfg hwk hrq hfpc hsem hall hw n2 n3 (h n1)

theorem refP_owes (s' : St) (k : Nat) (hk : k < s'.cfg.scripts.length)
    (ho : NeedR s' → uOwes2 s' (s'.upc k) = true) : RefP s' :=
  fun n => .inr (.inr (.inl ⟨k, hk, ho n⟩))

theorem refP_wake (s' : St) (hw : NeedR s' → 0 < s'.wakeup) : RefP s' := fun n => .inl (hw n)

end LokyModel.Exec
