import LokyModel.Lemmas.ExecAddF
/-! Mutual exclusion on `processes_management_lock` (`mgmt`) with a ghost owner. -/
namespace LokyModel.Exec

theorem acq_map {α : Type} (v : Nat) (f : Nat → α) : (acq v).map f = if 0 < v then some (f (v - 1)) else none := by
  unfold acq; split <;> simp_all

theorem upd_apply {α : Type} (f : Nat → α) (p : Nat) (v : α) (q : Nat) :
    upd f p v q = if q = p then v else f q := rfl
@[simp] theorem upd_same {α : Type} (f : Nat → α) (p : Nat) (v : α) : upd f p v p = v := by simp [upd]
@[simp] theorem die_w (s : St) (p : Pid) (c : Int) : (die s p c).w = upd s.w p .dead := rfl
@[simp] theorem spawn_w (s : St) : (spawn s).w = upd s.w s.nextPid .start := rfl
@[simp] theorem setW_w (s : St) (p : Pid) (pc : WPc) : (setW s p pc).w = upd s.w p pc := rfl
@[simp] theorem setU_upc (s : St) (k : Nat) (pc : UPc) : (setU s k pc).upc = upd s.upc k pc := rfl

def inMgmtU : UPc → Bool
  | .subExit | .subPStart | .subTStart | .subRelMgmt => true
  | _ => false

def inMgmtM : MPc → Bool
  | .pidRel .. | .rspExit | .rspStart | .rspRel | .jRelExit .. | .jRel1 _ | .jAlive .. | .jAliveRel ..
  | .jJoin _ | .jRel2 => true
  | _ => false

def inMgmtW : WPc → Bool
  | .eRel => true
  | _ => false

structure MgmtInv (s : St) : Prop where
  val : s.mgmt = if s.oMgmt.isSome then 0 else 1
  u : ∀ k, inMgmtU (s.upc k) = true → s.oMgmt = some (.U k)
  m : inMgmtM s.mpc = true → s.oMgmt = some .M
  w : ∀ p, inMgmtW (s.w p) = true → s.oMgmt = some (.W p)

theorem mgmtInv_init (cfg : Cfg) : MgmtInv (init cfg) := by
  constructor <;> simp [init, inMgmtU, inMgmtM, inMgmtW]

/-! where the manager's continuations leave its program counter -/
@[simp] theorem inMgmtM_mAddFuel (n : Nat) (s : St) : inMgmtM (mAddFuel n s).mpc = false := by
  induction n generalizing s with
  | zero => rfl
  | succ n ih => unfold mAddFuel; (repeat' split) <;> first | rfl | simp [*]
@[simp] theorem inMgmtM_mAdd (s : St) : inMgmtM (mAdd s).mpc = false := by unfold mAdd; simp
@[simp] theorem inMgmtM_mAddF (s : St) : inMgmtM (mAddF s).mpc = false := by
  rcases mAddF_mpc s with ⟨i, _, h⟩ | ⟨_, h, _⟩ | ⟨_, h, _⟩ <;> rw [h] <;> rfl
@[simp] theorem inMgmtM_mJoinStart (s : St) : inMgmtM (mJoinStart s).mpc = false := rfl
@[simp] theorem inMgmtM_mKillNext (s : St) : inMgmtM (mKillNext s).mpc = false := by
  unfold mKillNext; split <;> rfl
@[simp] theorem inMgmtM_mAfterItem (s : St) : inMgmtM (mAfterItem s).mpc = false := by
  unfold mAfterItem; split <;> first | rfl | simp
@[simp] theorem inMgmtM_mDropRef (s : St) : inMgmtM (mDropRef s).mpc = false := by
  unfold mDropRef; simp only []; split <;> first | rfl | simp
@[simp] theorem inMgmtM_mRespawnCheck (s : St) : inMgmtM (mRespawnCheck s).mpc = false := by
  unfold mRespawnCheck; simp only []; (repeat' split) <;> first | rfl | simp
@[simp] theorem inMgmtM_mProcess (s : St) (r) : inMgmtM (mProcess s r).mpc = false := by
  unfold mProcess; (repeat' split) <;> first | rfl | simp
@[simp] theorem inMgmtM_mJoinClose (s : St) : inMgmtM (mJoinClose s).mpc = false := by
  unfold mJoinClose; rfl
@[simp] theorem inMgmtM_mJoinLoop (s : St) (n sent cool) : inMgmtM (mJoinLoop s n sent cool).mpc = false := by
  unfold mJoinLoop; split <;> first | rfl | simp
@[simp] theorem inMgmtM_mAfterPut (s : St) (k n sent cool) : inMgmtM (mAfterPut s k n sent cool).mpc = false := by
  unfold mAfterPut; split <;> first | rfl | simp
@[simp] theorem inMgmtM_mAfterFlag (s : St) : inMgmtM (mAfterFlag s).mpc = false := by
  unfold mAfterFlag; (repeat' split) <;> first | rfl | simp
@[simp] theorem inMgmtM_mSpawnLoop (s : St) : inMgmtM (mSpawnLoop s).mpc = true := by
  unfold mSpawnLoop; split <;> rfl
@[simp] theorem inMgmtM_mJoinProcs (s : St) : inMgmtM (mJoinProcs s).mpc = true := by
  unfold mJoinProcs; split <;> rfl
@[simp] theorem inMgmtM_mRelExitNext (s : St) (ps n) : inMgmtM (mRelExitNext s ps n).mpc = true := by
  unfold mRelExitNext; split <;> rfl
@[simp] theorem inMgmtM_mAliveNext (s : St) (ps cnt n sent cool) : inMgmtM (mAliveNext s ps cnt n sent cool).mpc = true := by
  unfold mAliveNext; split <;> rfl

-- `crack_step`: open up a hypothesis `hs : stepX s v = some s'` into one goal per enabled transition,
-- with `s'` replaced by the successor state
set_option hygiene false in
macro "crack_step" : tactic => `(tactic| (
  simp only [acq_map] at hs
  split at hs
  all_goals (repeat' (split at hs))
  all_goals (first | (cases hs; done) | skip)
  all_goals (cases hs)))

theorem inMgmtW_upd (f : Pid → WPc) (p q : Pid) (pc : WPc) :
    inMgmtW (upd f p pc q) = if q = p then inMgmtW pc else inMgmtW (f q) := by
  unfold upd; split <;> rfl
theorem inMgmtU_upd (f : Nat → UPc) (p q : Nat) (pc : UPc) :
    inMgmtU (upd f p pc q) = if q = p then inMgmtU pc else inMgmtU (f q) := by
  unfold upd; split <;> rfl

theorem inMgmtW_wGet (s : St) (p q : Pid) :
    inMgmtW ((wGet s p).w q) = if q = p then false else inMgmtW (s.w q) := by
  unfold wGet; simp only [setW_w, inMgmtW_upd]; split
  · split <;> rfl
  · rfl
theorem inMgmtW_wDispatch (s : St) (p q : Pid) (m : CMsg) :
    inMgmtW ((wDispatch s p m).w q) = if q = p then false else inMgmtW (s.w q) := by
  unfold wDispatch; (repeat' split) <;> simp only [setW_w, inMgmtW_upd, *] <;> simp [inMgmtW]
theorem inMgmtW_wAfterStart (s : St) (p q : Pid) :
    inMgmtW ((wAfterStart s p).w q) = if q = p then false else inMgmtW (s.w q) := by
  unfold wAfterStart; split
  · simp only [setW_w, inMgmtW_upd]; split <;> rfl
  · exact inMgmtW_wGet s p q
theorem inMgmtW_wAfterResult (s : St) (p q : Pid) :
    inMgmtW ((wAfterResult s p).w q) = if q = p then false else inMgmtW (s.w q) := by
  unfold wAfterResult; simp only []
  split
  · exact inMgmtW_wGet _ p q
  · split
    · simp only [setW_w, inMgmtW_upd]; split <;> rfl
    · exact inMgmtW_wGet _ p q

set_option maxHeartbeats 4000000 in
theorem mgmtInv_stepM (s s' : St) (v : Variant) (h : MgmtInv s) (hs : stepM s v = some s') : MgmtInv s' := by
  obtain ⟨hv, hu, hm, hw⟩ := h
  have hle : s.mgmt ≤ 1 := by rw [hv]; split <;> omega
  unfold stepM at hs
  crack_step
  all_goals (refine ⟨?_, ?_, ?_, ?_⟩)
  all_goals (first
    | (simp_all; done)
    | (intro k hk; have h1 := hu k; have h2 := hw k; simp_all; done)
    | (simp_all [inMgmtM, inMgmtU, inMgmtW]; done)
    | (intro k hk; have h1 := hu k; have h2 := hw k; simp_all [inMgmtM, inMgmtU, inMgmtW]; done)
    | (simp_all; omega)
    | (intro q hq; have h2 := hw q; simp only [die_w, spawn_w, upd_apply, mSpawnLoop_w, mSpawnLoop_oMgmt, spawn_oMgmt] at hq ⊢
       split at hq <;> simp_all [inMgmtW]; done))

set_option maxHeartbeats 4000000 in
theorem mgmtInv_stepF (s s' : St) (v : Variant) (h : MgmtInv s) (hs : stepF s v = some s') : MgmtInv s' := by
  obtain ⟨hv, hu, hm, hw⟩ := h
  unfold stepF at hs
  crack_step
  all_goals (refine ⟨?_, ?_, ?_, ?_⟩)
  all_goals (first
    | (simp_all; done)
    | (intro k hk; have h1 := hu k; have h2 := hw k; simp_all; done)
    | (simp_all [inMgmtM, inMgmtU, inMgmtW]; done)
    | (intro k hk; have h1 := hu k; have h2 := hw k; simp_all [inMgmtM, inMgmtU, inMgmtW]; done))

set_option maxHeartbeats 4000000 in
theorem mgmtInv_stepW (s s' : St) (p : Pid) (v : Variant) (h : MgmtInv s) (hs : stepW s p v = some s') : MgmtInv s' := by
  obtain ⟨hv, hu, hm, hw⟩ := h
  have hle : s.mgmt ≤ 1 := by rw [hv]; split <;> omega
  have hwp := hw p
  unfold stepW at hs
  crack_step
  all_goals (refine ⟨?_, ?_, ?_, ?_⟩)
  all_goals (first
    | (simp_all; done)
    | (intro k hk; have h1 := hu k; simp_all; done)
    | (simp_all [inMgmtM, inMgmtU, inMgmtW]; done)
    | (simp_all; omega)
    | (simp_all [inMgmtW]; done)
    | (simp_all [inMgmtW]; omega)
    | (intro hk; have h1 := hm hk; simp_all; done)
    | (intro k hk; have h1 := hu k hk; simp_all [inMgmtW]; done)
    | (intro q hq
       simp only [inMgmtW_wGet, inMgmtW_wDispatch, inMgmtW_wAfterStart, inMgmtW_wAfterResult, setW_w, die_w,
                  inMgmtW_upd] at hq
       have h2 := hw q
       split at hq <;> simp_all [inMgmtW]; done)
    | skip)

end LokyModel.Exec
