import LokyModel.Lemmas.ExecInv
/-! Futures: what `setFut` and `failAll` do to each future. -/
namespace LokyModel.Exec

/-- every listed future that is not cancelled ends in state `f`; cancelled ones are left alone
    (the `InvalidStateError` of `set_exception` is ignored) -/
theorem failList_spec (f : Fut) (hf : f ≠ .cancelled) (ws : List Wid) (fs : List Fut) (i : Wid) :
    (ws.foldl (fun fs w => if (fs.getD w .pending == .cancelled) = true then fs else fs.set w f) fs)[i]?.getD .pending =
      if i ∈ ws ∧ i < fs.length ∧ fs[i]?.getD .pending ≠ .cancelled then f else fs[i]?.getD .pending := by
  induction ws generalizing fs with
  | nil => simp
  | cons w ws ih =>
    simp only [List.foldl_cons]
    rw [ih]
    by_cases hc : fs[w]?.getD .pending = .cancelled
    · have h1 : (fs.getD w .pending == .cancelled) = true := by simp [List.getD_eq_getElem?_getD, hc]
      simp only [h1, if_true, List.mem_cons]
      by_cases hiw : i = w
      · subst hiw; simp [hc]
      · simp [hiw]
    · have h1 : (fs.getD w .pending == .cancelled) = false := by simpa [List.getD_eq_getElem?_getD] using hc
      simp only [h1, Bool.false_eq_true, if_false, List.mem_cons, List.length_set]
      by_cases hiw : i = w
      · subst hiw
        by_cases hlt : i < fs.length
        · have h2 : (fs.set i f)[i]?.getD .pending = f := by simp [hlt]
          have hc' : fs[i] ≠ .cancelled := by simpa [hlt] using hc
          rw [h2]; simp [hf, hlt, hc']
        · have h2 : (fs.set i f)[i]? = fs[i]? := by
            rw [List.getElem?_set]; simp [hlt]
          rw [h2]; simp [hlt]
      · have h2 : (fs.set w f)[i]? = fs[i]? := by
          rw [List.getElem?_set]; simp [Ne.symm hiw]
        rw [h2]; simp [hiw]
theorem failAll_spec (s : St) (ws : List Wid) (f : Fut) (hf : f ≠ .cancelled) (i : Wid) :
    (failAll s ws f).futs.getD i .pending =
      if i ∈ ws ∧ i < s.futs.length ∧ s.futs.getD i .pending ≠ .cancelled then f else s.futs.getD i .pending := by
  unfold failAll
  simp only [List.getD_eq_getElem?_getD]
  exact failList_spec f hf ws s.futs i


theorem failList_length (f : Fut) (ws : List Wid) (fs : List Fut) :
    (ws.foldl (fun fs w => if (fs.getD w .pending == .cancelled) = true then fs else fs.set w f) fs).length = fs.length := by
  induction ws generalizing fs with
  | nil => rfl
  | cons w ws ih => simp only [List.foldl_cons]; rw [ih]; split <;> simp

@[simp] theorem failAll_futs_length (s : St) (ws : List Wid) (f : Fut) : (failAll s ws f).futs.length = s.futs.length := by
  unfold failAll; exact failList_length f ws s.futs

@[simp] theorem setFut_futs_length (s : St) (w : Wid) (f : Fut) : (setFut s w f).futs.length = s.futs.length := by
  simp [setFut]

theorem futOf_setFut (s : St) (w : Wid) (f : Fut) (i : Wid) :
    futOf (setFut s w f) i = if i = w ∧ w < s.futs.length then f else futOf s i := by
  unfold futOf setFut
  simp only [List.getD_eq_getElem?_getD, List.getElem?_set]
  by_cases hiw : w = i
  · subst hiw
    by_cases hlt : w < s.futs.length <;> simp [hlt]
  · simp [hiw, Ne.symm hiw]

theorem futOf_failAll (s : St) (ws : List Wid) (f : Fut) (hf : f ≠ .cancelled) (i : Wid) :
    futOf (failAll s ws f) i = if i ∈ ws ∧ i < s.futs.length ∧ futOf s i ≠ .cancelled then f else futOf s i :=
  failAll_spec s ws f hf i

theorem futOf_ge (s : St) (i : Wid) (h : s.futs.length ≤ i) : futOf s i = .pending := by
  unfold futOf; simp [List.getD_eq_getElem?_getD, h]

end LokyModel.Exec
