import LokyModel.ExecOutcomeDef
import LokyModel.Lemmas.ExecMsgU
import LokyModel.Lemmas.ExecNoBreakAll
import LokyModel.Lemmas.ExecLiveStaticU
/-!
`OutInv`: which arguments the task of a work id has at each point of its way, and that nothing force-stops the pool when
no script asks for it.  Together with `FutInv` (a value / task exception implies an execution), `MsgInv` (result messages
carry the outcome kind of their own task) and `NBInv` (never broken in crash-free runs of benign configurations) it gives
"every resolved future holds the outcome of its own task" (`Props/C05Live.lean`).

This file: the invariant as a proposition, the initial state, the lemmas for moving it along a step.
-/
namespace LokyModel.Exec
open StaticP

structure OutInv (s : St) : Prop where
  fut : ∀ i, futArgOk s.cfg s.taskOf s.cancelOk i (futOf s i) = true
  kf : s.killFlag = false
  nks : ∀ k, ∀ op ∈ s.uscript k, op.isKill = false
  nkc : ∀ k, ucurOk (s.ucur k) = true
  nkp : ∀ k, isSdKill (s.upc k) = false
  pipe : ∀ m ∈ s.cqPipe, cArgOk s.cfg m = true
  w : ∀ p, wArgOk s.cfg (s.w p) = true
  f : fArgOk s.cfg s.taskOf s.fpc = true
  ex : ∀ i ∈ s.execW, i < s.taskOf.length ∧ argOfW s.cfg s.taskOf i = .ok

theorem noKill_script (c : Cfg) (hc : c.noKill = true) (k : Nat) : ∀ op ∈ c.scripts.getD k [], op.isKill = false := by
  intro op hop
  unfold Cfg.noKill at hc
  rw [List.all_eq_true] at hc
  rw [List.getD_eq_getElem?_getD] at hop
  cases hq : c.scripts[k]? with
  | none => simp [hq] at hop
  | some sc =>
    simp only [hq, Option.getD_some] at hop
    have := hc sc (List.mem_of_getElem? hq)
    rw [List.all_eq_true] at this
    simpa using this op hop

theorem outInv_init (cfg : Cfg) (hk : cfg.noKill = true) : OutInv (init cfg) := by
  constructor
  · intro i; simp [init, futOf, futArgOk]
  · rfl
  · intro k; exact noKill_script cfg hk k
  · intro k; rfl
  · intro k; rfl
  · intro m hm; simp [init] at hm
  · intro p; rfl
  · rfl
  · intro i hi; simp [init] at hi

/-! ### the executable form follows -/

theorem outOkB_of_inv (s : St) (h : OutInv s) : outOkB s = true := by
  unfold outOkB
  simp only [Bool.and_eq_true, List.all_eq_true, List.mem_range, Bool.not_eq_true', decide_eq_true_eq, beq_iff_eq]
  refine ⟨⟨⟨⟨⟨⟨fun i _ => h.fut i, h.kf⟩, fun k _ => ⟨⟨?_, h.nkc k⟩, h.nkp k⟩⟩, h.pipe⟩, fun p _ => h.w p⟩, h.f⟩, h.ex⟩
  intro op hop; exact h.nks k op hop

/-! ### monotonicity: a submission appends to `taskOf` -/

theorem argOfW_append (cfg : Cfg) (T : List Tid) (t : Tid) (i : Wid) (h : i < T.length) :
    argOfW cfg (T ++ [t]) i = argOfW cfg T i := by
  unfold argOfW
  simp [List.getD_eq_getElem?_getD, List.getElem?_append_left h]

theorem fArgOk_mono (cfg : Cfg) (T : List Tid) (t : Tid) (pc : FPc) (h : fArgOk cfg T pc = true) :
    fArgOk cfg (T ++ [t]) pc = true := by
  cases pc <;> simp only [fArgOk, Bool.and_eq_true, decide_eq_true_eq] at h ⊢ <;> first
    | exact h
    | (refine ⟨by simp only [List.length_append, List.length_singleton]; exact Nat.lt_succ_of_lt h.1, ?_⟩
       rw [argOfW_append _ _ _ _ h.1]; exact h.2)

/-! ### moving the invariant -/

/-- a step that keeps the configuration, the task table and the scripts -/
theorem out_move (s X : St) (h : OutInv s)
    (hfr : X.cfg = s.cfg ∧ X.taskOf = s.taskOf ∧ X.killFlag = s.killFlag ∧ X.uscript = s.uscript ∧ X.ucur = s.ucur ∧
           X.upc = s.upc)
    (hfut : ∀ i, futArgOk s.cfg s.taskOf X.cancelOk i (futOf X i) = true)
    (hpipe : ∀ m ∈ X.cqPipe, cArgOk s.cfg m = true)
    (hw : ∀ p, wArgOk s.cfg (X.w p) = true)
    (hf : fArgOk s.cfg s.taskOf X.fpc = true)
    (hex : ∀ i ∈ X.execW, i < s.taskOf.length ∧ argOfW s.cfg s.taskOf i = .ok) : OutInv X := by
  obtain ⟨f1, f2, f3, f4, f5, f6⟩ := hfr
  constructor
  · rw [f1, f2]; exact hfut
  · rw [f3]; exact h.kf
  · rw [f4]; exact h.nks
  · rw [f5]; exact h.nkc
  · rw [f6]; exact h.nkp
  · rw [f1]; exact hpipe
  · rw [f1]; exact hw
  · rw [f1, f2]; exact hf
  · rw [f1, f2]; exact hex

/-- what a step of the manager / the feeder may do to a future when nothing force-stops or breaks the pool -/
def FutM (fs gs : List Fut) : Prop :=
  ∀ i, gs.getD i .pending = fs.getD i .pending ∨ gs.getD i .pending = .running ∨ gs.getD i .pending = .value ∨
       gs.getD i .pending = .excWorker

@[simp] theorem futM_refl (fs : List Fut) : FutM fs fs := fun _ => Or.inl rfl
theorem futM_trans {a b c : List Fut} (h1 : FutM a b) (h2 : FutM b c) : FutM a c := by
  intro i
  rcases h2 i with e | e
  · rw [e]; exact h1 i
  · exact Or.inr e
theorem futM_set (fs : List Fut) (w : Wid) (f : Fut) (hf : f = .running ∨ f = .value ∨ f = .excWorker) :
    FutM fs (fs.set w f) := by
  intro i
  simp only [List.getD_eq_getElem?_getD, List.getElem?_set]
  by_cases hiw : w = i
  · subst hiw
    by_cases hlt : w < fs.length
    · simp only [hlt, if_true, Option.getD_some]; right; exact hf
    · simp [hlt]
  · simp [hiw]

theorem futArgOk_same (cfg : Cfg) (T : List Tid) (c : List Wid) (i : Wid) (f : Fut)
    (h : f = .running ∨ f = .value ∨ f = .excWorker) : futArgOk cfg T c i f = true := by
  rcases h with rfl | rfl | rfl <;> rfl

/-- a step that keeps the cancellation log and moves futures as `FutM` allows -/
theorem out_keep (s X : St) (h : OutInv s)
    (hfr : X.cfg = s.cfg ∧ X.taskOf = s.taskOf ∧ X.killFlag = s.killFlag ∧ X.uscript = s.uscript ∧ X.ucur = s.ucur ∧
           X.upc = s.upc)
    (hc : X.cancelOk = s.cancelOk)
    (hfut : FutM s.futs X.futs)
    (hpipe : ∀ m ∈ X.cqPipe, cArgOk s.cfg m = true)
    (hw : ∀ p, wArgOk s.cfg (X.w p) = true)
    (hf : fArgOk s.cfg s.taskOf X.fpc = true)
    (hex : ∀ i ∈ X.execW, i < s.taskOf.length ∧ argOfW s.cfg s.taskOf i = .ok) : OutInv X := by
  refine out_move s X h hfr ?_ hpipe hw hf hex
  intro i
  rw [hc]
  have := hfut i
  rcases this with e | e
  · show futArgOk _ _ _ _ (futOf X i) = true
    unfold futOf; rw [e]; exact h.fut i
  · show futArgOk _ _ _ _ (futOf X i) = true
    unfold futOf; exact futArgOk_same _ _ _ _ _ e

/-- a step of worker `p` -/
theorem out_wmove (s s' : St) (h : OutInv s) (p : Pid) (pc' : WPc) (hw : s'.w = upd s.w p pc')
    (hfr : s'.cfg = s.cfg ∧ s'.taskOf = s.taskOf ∧ s'.cancelOk = s.cancelOk ∧ s'.killFlag = s.killFlag ∧
           s'.uscript = s.uscript ∧ s'.ucur = s.ucur ∧ s'.upc = s.upc ∧ s'.futs = s.futs ∧ s'.fpc = s.fpc)
    (hpipe : ∀ m ∈ s'.cqPipe, m ∈ s.cqPipe)
    (hex : ∀ i ∈ s'.execW, i ∈ s.execW ∨ (i < s.taskOf.length ∧ argOfW s.cfg s.taskOf i = .ok))
    (hpc : wArgOk s.cfg pc' = true) : OutInv s' := by
  obtain ⟨f1, f2, f3, f4, f5, f6, f7, f8, f9⟩ := hfr
  refine out_keep s s' h ⟨f1, f2, f4, f5, f6, f7⟩ f3 (by rw [f8]; exact futM_refl _) ?_ ?_ ?_ ?_
  · intro m hm; exact h.pipe m (hpipe m hm)
  · intro q; rw [hw, upd_apply]; split
    · exact hpc
    · exact h.w q
  · rw [f9]; exact h.f
  · intro i hi
    rcases hex i hi with e | e
    · exact h.ex i e
    · exact e

theorem wArgOk_wGetPc (cfg : Cfg) (s : St) : wArgOk cfg (wGetPc s) = true := by
  unfold wGetPc; split <;> rfl
theorem wArgOk_wDispatchPc (s : St) (m : CMsg) (h : cArgOk s.cfg m = true) : wArgOk s.cfg (wDispatchPc s m) = true := by
  unfold wDispatchPc
  split
  · split
    · rfl
    · exact h
  · rfl

end LokyModel.Exec
