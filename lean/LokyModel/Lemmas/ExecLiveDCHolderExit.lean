import LokyModel.Lemmas.ExecLiveDCHolderBase
/-! The exit-lock invariant `ExitInv` (`ExecLiveHolderExit.lean`) over the steps of the manager and of a user thread of a
    dynamic pool, from the process-management-lock part of the lock-holder invariant only (`secMgmt`: threads of the
    parent and idle workers at `eRel`).  The manager of a dynamic pool does respawn (`rspStart`).  The feeder's and the
    workers' steps (crash included) need no lock-holder fact: `exitInv_stepF`, `exitInv_stepW` apply as they are. -/
namespace LokyModel.Exec

theorem exitInvD_spawnM {s s' : St} (h : ExitInv s) (hp : PidsInv s) (hh : LockOk s.mgmt s.oMgmt (secMgmt s))
    (heq : s.mpc = .rspStart)
    (hm : rPlain s'.mpc = true) (hupc : s'.upc = s.upc) (hcfg : s'.cfg = s.cfg)
    (hpd : s'.procDict = s.procDict ++ [s.nextPid]) (hall : s'.allPids = s.allPids ++ [s.nextPid])
    (hnp : s'.nextPid = s.nextPid + 1) (hw : s'.w = upd s.w s.nextPid .start) (hex : s'.exitL = s.exitL) :
    ExitInv s' := by
  have hown : s.oMgmt = some .M := hh.excl .M (by simp [secMgmt, heq, inMgmtM'])
  refine exitInv_spawn h hp hpd hall hnp hw hex (h.spM heq) ?_ (plain_ne hm) ?_ ?_
  · left; rw [relSet_plain hm, hpd]; simp [relSet, heq, rPost]
  · intro k hk e
    rw [hupc] at e; rw [hcfg] at hk
    have := hh.excl (.U k) (by simp [secMgmt, e, inMgmtU', hk])
    rw [hown] at this; cases this
  · intro k hk e
    rw [hupc] at e; rw [hcfg] at hk
    have := h.tsU k hk e
    rw [heq] at this; cases this

theorem exitInvD_rspStart {s : St} (h : ExitInv s) (hp : PidsInv s) (hh : LockOk s.mgmt s.oMgmt (secMgmt s))
    (heq : s.mpc = .rspStart) : ExitInv (mSpawnLoop (spawn s)) :=
  exitInvD_spawnM h hp hh heq (mSpawnLoop_plain_holder _) (by simp [spawn]) (by simp [spawn]) (by simp [spawn_procDict'])
    (by simp [spawn_allPids']) (by simp [spawn_nextPid']) (by simp [spawn_w']) (by simp [spawn])

theorem exitInvD_spawnU {s s' : St} (h : ExitInv s) (hp : PidsInv s) (hh : LockOk s.mgmt s.oMgmt (secMgmt s)) (k : Nat)
    (hk : k < s.cfg.scripts.length) (heq : s.upc k = .subPStart)
    (hupc : ∀ j, j ≠ k → s'.upc j = s.upc j) (hmpc : s'.mpc = s.mpc) (hcfg : s'.cfg = s.cfg)
    (hpd : s'.procDict = s.procDict ++ [s.nextPid]) (hall : s'.allPids = s.allPids ++ [s.nextPid])
    (hnp : s'.nextPid = s.nextPid + 1) (hw : s'.w = upd s.w s.nextPid .start) (hex : s'.exitL = s.exitL)
    (h1 : s'.upc k ≠ .subPStart) (h2 : s'.upc k = .subTStart → s.mpc = .none) : ExitInv s' := by
  have hown : s.oMgmt = some (.U k) := hh.excl (.U k) (by simp [secMgmt, heq, inMgmtU', hk])
  refine exitInv_spawn h hp hpd hall hnp hw hex (h.spU k hk heq) (relSet_spawn hmpc hpd) ?_ ?_ ?_
  · simp only [eq_iff_iff, iff_false]
    intro e; rw [hmpc] at e
    have := hh.excl .M (by simp [secMgmt, e, inMgmtM'])
    rw [hown] at this; cases this
  · intro j hj e
    rw [hcfg] at hj
    by_cases ej : j = k
    · subst ej; exact h1 e
    · rw [hupc j ej] at e
      have := hh.excl (.U j) (by simp [secMgmt, e, inMgmtU', hj])
      rw [hown] at this; exact ej (by cases this; rfl)
  · intro j hj e
    rw [hcfg] at hj; rw [hmpc]
    by_cases ej : j = k
    · subst ej; exact h2 e
    · rw [hupc j ej] at e; exact h.tsU j hj e

theorem exitInvD_tstartU {s s' : St} (h : ExitInv s) (hh : LockOk s.mgmt s.oMgmt (secMgmt s)) (k : Nat)
    (hk : k < s.cfg.scripts.length) (heq : s.upc k = .subTStart)
    (hupc : ∀ j, j ≠ k → s'.upc j = s.upc j) (hmpc : s'.mpc = .start) (hcfg : s'.cfg = s.cfg)
    (hpd : s'.procDict = s.procDict) (hall : s'.allPids = s.allPids)
    (hnp : s'.nextPid = s.nextPid) (hw : s'.w = s.w) (hex : s'.exitL = s.exitL)
    (h1 : s'.upc k ≠ .subPStart) (h2 : s'.upc k ≠ .subTStart) : ExitInv s' := by
  have hown : s.oMgmt = some (.U k) := hh.excl (.U k) (by simp [secMgmt, heq, inMgmtU', hk])
  have hnone := h.tsU k hk heq
  obtain ⟨a1, a2, a3, a4, a5, a6⟩ := h
  have hR : relSet s' = relSet s := by
    rw [relSet_plain (s := s') (by rw [hmpc]; rfl), relSet_plain (s := s) (by rw [hnone]; rfl), hpd]
  refine ⟨by rw [hpd]; exact a1, ?_, by rw [hR]; exact a3, ?_, ?_, ?_⟩
  · rw [hR, hex, hw, hall]; exact a2
  · intro e; rw [hmpc] at e; cases e
  · intro j hj e
    rw [hcfg] at hj; rw [hex, hnp]
    by_cases ej : j = k
    · subst ej; exact absurd e h1
    · rw [hupc j ej] at e; exact a5 j hj e
  · intro j hj e
    rw [hcfg] at hj
    by_cases ej : j = k
    · subst ej; exact absurd e h2
    · rw [hupc j ej] at e
      have := hh.excl (.U j) (by simp [secMgmt, e, inMgmtU', hj])
      rw [hown] at this; exact absurd (by cases this; rfl) ej

theorem exitInvD_subPStart {s : St} (h : ExitInv s) (hp : PidsInv s) (hh : LockOk s.mgmt s.oMgmt (secMgmt s)) (k : Nat)
    (hk : k < s.cfg.scripts.length) (heq : s.upc k = .subPStart) : ExitInv (uSpawnLoop (spawn s) k) :=
  exitInvD_spawnU h hp hh k hk heq (fun j hj => by simp [uSpawnLoop_upc_other_holder _ _ _ hj, spawn]) (by simp [spawn])
    (by simp [spawn]) (by simp [spawn_procDict']) (by simp [spawn_allPids']) (by simp [spawn_nextPid'])
    (by simp [spawn_w']) (by simp [spawn]) (uSpawnLoop_ne_pstart _ _)
    (fun e => by have := uSpawnLoop_tstart _ _ e; simpa [spawn] using this)

theorem exitInvD_subTStart {s : St} (h : ExitInv s) (hh : LockOk s.mgmt s.oMgmt (secMgmt s)) (k : Nat)
    (hk : k < s.cfg.scripts.length) (heq : s.upc k = .subTStart) :
    ExitInv (setU { s with mpc := .start, threadReg := true } k .subRelMgmt) :=
  exitInvD_tstartU h hh k hk heq (fun j hj => by simp [setU_upc_other _ _ _ _ hj]) (by simp) (by simp) (by simp)
    (by simp) (by simp) (by simp) (by simp) (by simp [setU_upc_self]) (by simp [setU_upc_self])

set_option maxHeartbeats 16000000 in
theorem exitInvD_stepU (s s' : St) (k : Nat) (v : Variant) (hk : k < s.cfg.scripts.length) (hp : PidsInv s)
    (hh : LockOk s.mgmt s.oMgmt (secMgmt s)) (h : ExitInv s) (hs : stepU s k v = some s') : ExitInv s' := by
  unfold stepU at hs
  crack
  all_goals (first
    | (refine exitInv_U h k ?_ ?_ ?_ ?_ ?_ ?_ ?_ ?_ ?_ ?_ <;> first
        | rfl
        | (simp; done)
        | (intro j hj; simp [setU_upc_other, uNext_upc_other_holder, uRelease_upc_other_holder, uSpawnLoop_upc_other_holder, uDispatch_upc_other_holder, hj]; done)
        | (simp only [free_ne_p, free_ne_t, uNext_free, uRelease_free, uDispatch_free, setU_upc_self]; simp [upd, *]; done)
        | (intro e; exact absurd e (uSpawnLoop_ne_pstart _ _))
        | (intro e; simpa using uSpawnLoop_tstart _ _ e))
    | (exact exitInvD_subPStart h hp hh k hk (by assumption))
    | (exact exitInvD_subTStart h hh k hk (by assumption)))

set_option maxHeartbeats 16000000 in
theorem exitInvD_stepM (s s' : St) (v : Variant) (hp : PidsInv s) (hh : LockOk s.mgmt s.oMgmt (secMgmt s))
    (h : ExitInv s) (hs : stepM s v = some s') : ExitInv s' := by
  unfold stepM at hs
  crack
  all_goals (first
    | (refine exitInv_M h ?_ ?_ ?_ ?_ ?_ ?_ ?_ ?_ ?_ ?_ <;> first
        | rfl
        | (simp [*]; done)
        | (refine List.Sublist.trans (mKillNext_sub _) ?_; simp; done)
        | (refine List.Sublist.trans (mJoinProcs_sub _) ?_; simp; done)
        | (refine List.Sublist.trans (mAfterFlag_sub _) ?_; simp; done)
        | (intro q; simp; done)
        | (intro q hq; simpa using die_w_lExit _ _ _ _ hq)
        | (rpc; simp [relSet, rPost, upd, *]; done)
        | (rpc; simp only [relSet, rPost, *]; refine List.Sublist.trans (mKillNext_sub _) ?_; simp; done)
        | (rpc; simp only [relSet, rPost, *]; refine List.Sublist.trans (mAfterFlag_sub _) ?_; simp; done))
    | (exact exitInv_pidAcq h _ (by assumption) rfl rfl rfl rfl rfl rfl rfl rfl)
    | (exact exitInv_pidRelExit h hp _ (by assumption))
    | (exact exitInv_jRelExit h hp _ _ _ (by assumption))
    | (exact exitInvD_rspStart h hp hh (by assumption))
    | (exfalso; have := relExitSafe_of_exitInv h _ _ _ (by assumption); omega))

end LokyModel.Exec
