import LokyModel.Lemmas.ExecLiveCrashHolderBase
/-! `HolderInvC` over the steps of the manager thread.  Its `kill` may hit a worker inside the section of a queue lock:
    by then the pool is flagged broken (`HolderInvC.kpc`) and nothing is claimed about the two worker-side locks. -/
namespace LokyModel.Exec

/-- first stage: the continuations leave the manager outside the kill loop -/
macro "nkpc" : tactic => `(tactic| (try simp only [mAdd_hcnk, mJoinStart_hcnk, mAfterItem_hcnk, mDropRef_hcnk,
  mRespawnCheck_hcnk, mProcess_hcnk, mSpawnLoop_hcnk, mJoinProcs_hcnk, mJoinClose_hcnk, mJoinLoop_hcnk, mRelExitNext_hcnk,
  mAliveNext_hcnk, mAfterPut_hcnk, mAddF_hcnk]))

set_option maxHeartbeats 8000000 in
theorem holderInvC_stepM (s s' : St) (v : Variant) (hp : PidsInv s) (hkf : s.killFlag = false) (hr : RelExitSafe s)
    (h : HolderInvC s) (hs : stepM s v = some s') : HolderInvC s' := by
  unfold stepM at hs
  crack
  all_goals (refine holderInvC_M h ?_ ?_ ?_ ?_ ?_ ?_ ?_ ?_ ?_ ?_ ?_ ?_ ?_ ?_ ?_ ?_ ?_)
  all_goals (first
    | rfl
    | (simp; done)
    | (intro _ q; simp; done)
    | (intro _ q; simpa using spawn_wSec hp q)
    | (intro hb; exact absurd hb (h.kpc (by simp [*, hcKillPc])))
    | (exfalso; have := hr _ _ _ (by assumption); omega)
    | (hpc; simp [Tri, inMgmtM', inShutM', mTStart, *]; done)
    | (nkpc; simp [hcKillPc]; done)
    | (intro hk; exact absurd hk (ne_true_of_eq_false (mAfterFlag_hcnk _ hkf)))
    | (intro _; simpa using h.kpc (by simp [*, hcKillPc])))

end LokyModel.Exec
