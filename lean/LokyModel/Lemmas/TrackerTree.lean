import LokyModel.TrackerTree
/-!
Invariants of M4 `TrackerTree`, proved by induction over histories.  Helper lemmas only; the property
theorems are in `Props/C12.lean` and `Props/C13.lean`.
-/
namespace LokyModel.TrackerTree

/-- owner phases of a SemLock object -/
def OPh.owner : OPh → Bool
  | .opened | .registered | .unlinked | .released => true
  | _ => false

/-! ## Inv1: process tree, tracker incarnations, writer sets -/

structure Inv1 (s : State) : Prop where
  /-- the writer set of a pipe is exactly the set of live processes believing in that tracker -/
  w1 : ∀ t p, p ∈ (s.trks t).writers → (s.procs p).st = .live ∧ (s.procs p).trk = some t
  w2 : ∀ p t, (s.procs p).st = .live → (s.procs p).trk = some t → p ∈ (s.trks t).writers
  w3 : ∀ t, (s.trks t).writers.Nodup
  t1 : ∀ t, s.nTrk ≤ t → (s.trks t).ph = .unborn ∧ (s.trks t).writers = [] ∧ ∀ n, (s.trks t).reg n = 0
  t1' : ∀ t, t < s.nTrk → (s.trks t).ph ≠ .unborn
  t2 : ∀ p t, (s.procs p).trk = some t → t < s.nTrk
  t3 : ∀ t, (s.trks t).ph = .done → (s.trks t).writers = [] ∧ ∀ n, (s.trks t).reg n = 0
  t4 : ∀ t, (s.trks t).ph = .killed → 0 < s.trkKills
  /-- every process but the root got a tracker from its parent -/
  p1 : ∀ p, (s.procs p).st ≠ .unborn → p ≠ 0 → (s.procs p).trk ≠ none
  p2 : (s.procs 0).st ≠ .unborn
  p3 : s.nTrk = 0 → ∀ p, (s.procs p).trk = none
  p4 : (s.procs 0).trk = none → s.nTrk = 0
  /-- while no tracker was killed there is a single incarnation -/
  s1 : s.trkKills = 0 → s.nTrk ≤ 1
  /-- parent links and depths -/
  d1 : ∀ p, (s.procs p).st ≠ .unborn → p ≠ 0 →
        (s.procs (s.procs p).parent).st ≠ .unborn ∧ (s.procs p).depth = (s.procs (s.procs p).parent).depth + 1

theorem alive_iff (tr : Tracker) :
    tr.alive = true ↔ (tr.ph = .starting0 ∨ tr.ph = .starting1 ∨ tr.ph = .running) := by
  unfold Tracker.alive; cases tr.ph <;> simp

theorem not_alive_iff (tr : Tracker) :
    ¬ tr.alive = true ↔ (tr.ph = .unborn ∨ tr.ph = .killed ∨ tr.ph = .done) := by
  unfold Tracker.alive; cases tr.ph <;> simp

theorem inv1_init : Inv1 init := by
  constructor <;> simp [init, upd] <;> grind

theorem ensure_inv1 (s : State) (p : Pid) (h : Inv1 s) (hp : (s.procs p).st = .live) :
    Inv1 (ensureRunning s p) := by
  unfold ensureRunning
  split
  · constructor <;> simp only [launch, upd] <;> grind [Inv1, alive_iff, not_alive_iff]
  · split
    · exact h
    · constructor <;> simp only [launch, closeFd, upd] <;> grind [Inv1, alive_iff, not_alive_iff]

/-- what `ensure_running` guarantees to its caller -/
theorem ensure_spec (s : State) (p : Pid) (h : Inv1 s) (hp : (s.procs p).st = .live) :
    ((ensureRunning s p).procs p).trk = some (curTrk (ensureRunning s p) p)
    ∧ ((ensureRunning s p).trks (curTrk (ensureRunning s p) p)).alive = true
    ∧ p ∈ ((ensureRunning s p).trks (curTrk (ensureRunning s p) p)).writers
    ∧ ((ensureRunning s p).procs p).st = .live := by
  unfold ensureRunning
  split
  · simp only [launch, curTrk, upd]; grind [Inv1, alive_iff, not_alive_iff]
  · split
    · simp only [curTrk]; grind [Inv1, alive_iff, not_alive_iff]
    · simp only [launch, closeFd, curTrk, upd]; grind [Inv1, alive_iff, not_alive_iff]

/-- frame of `ensure_running`: it touches only tracker bookkeeping -/
theorem ensure_frame (s : State) (p : Pid) :
    (ensureRunning s p).ns = s.ns ∧ (ensureRunning s p).isSem = s.isSem
    ∧ (ensureRunning s p).nName = s.nName ∧ (ensureRunning s p).objs = s.objs
    ∧ (ensureRunning s p).nObj = s.nObj ∧ (ensureRunning s p).trkKills = s.trkKills
    ∧ (ensureRunning s p).windowCrashes = s.windowCrashes
    ∧ (∀ q, ((ensureRunning s p).procs q).st = (s.procs q).st)
    ∧ (∀ t n, t < s.nTrk → ((ensureRunning s p).trks t).reg n = (s.trks t).reg n)
    ∧ (∀ t, t < s.nTrk → ((ensureRunning s p).trks t).ph = (s.trks t).ph)
    ∧ s.nTrk ≤ (ensureRunning s p).nTrk := by
  unfold ensureRunning
  split
  · simp only [launch, upd]; grind
  · split
    · grind
    · simp only [launch, closeFd, upd]; grind

theorem recv_ph (tr : Tracker) (o : Op) (n : Name) :
    (tr.recv o n).1.ph = tr.ph ∧ (tr.recv o n).1.writers = tr.writers := by
  unfold Tracker.recv; cases o <;> simp <;> grind

theorem recv_reg_ne (tr : Tracker) (o : Op) (n m : Name) (h : m ≠ n) :
    (tr.recv o n).1.reg m = tr.reg m := by
  unfold Tracker.recv
  cases o <;> simp only [] <;> (repeat' split) <;> simp [upd, h]

theorem send_inv1 (s : State) (p : Pid) (o : Op) (n : Name) (h : Inv1 s) (hp : (s.procs p).st = .live) :
    Inv1 (send s p o n) := by
  have h1 := ensure_inv1 s p h hp
  have h2 := ensure_spec s p h hp
  unfold send
  generalize ensureRunning s p = s1 at *
  have hr := recv_ph (s1.trks (curTrk s1 p)) o n
  have halive : (s1.trks (curTrk s1 p)).ph ≠ .done ∧ (s1.trks (curTrk s1 p)).ph ≠ .unborn := by
    have := h2.2.1; rw [alive_iff] at this; grind
  constructor <;> simp only [upd] <;> grind [Inv1]

/-- `Inv1` only reads the process table, the trackers and the kill counter -/
theorem inv1_congr {s s' : State} (h : Inv1 s) (h1 : s'.procs = s.procs) (h2 : s'.trks = s.trks)
    (h3 : s'.nTrk = s.nTrk) (h4 : s'.trkKills = s.trkKills) : Inv1 s' := by
  obtain ⟨a1, a2, a3, a4, a5, a6, a7, a8, a9, a10, a11, a12, a13, a14⟩ := h
  constructor <;> simp only [h1, h2, h3, h4] <;> assumption

theorem signal_spec (tr : Tracker) (sg : Sig) :
    (tr.signal sg).writers = tr.writers ∧ (∀ n, (tr.signal sg).reg n = tr.reg n)
    ∧ ((tr.signal sg).ph = tr.ph ∨ ((tr.signal sg).ph = .killed ∧ sg = .kill ∧ tr.alive = true)) := by
  unfold Tracker.signal
  cases ha : tr.alive <;> simp
  cases sg <;> simp <;> (split <;> simp)

theorem boot_spec (tr tr' : Tracker) (h : tr.boot = some tr') :
    tr'.writers = tr.writers ∧ (∀ n, tr'.reg n = tr.reg n) ∧ tr.alive = true ∧ tr'.alive = true := by
  unfold Tracker.boot at h
  split at h <;> simp at h <;> subst h <;> simp [Tracker.alive, *]

theorem step_inv1_spawn {s s' : State} {p c : Pid} {im : Bool} (h : Inv1 s)
    (hs : step s (.spawn p c im) = some s') : Inv1 s' := by
  simp only [step] at hs
  split at hs
  · rename_i hg
    simp [isLive] at hg
    injection hs with hs; subst hs
    unfold ensureRunning
    split
    · constructor <;> simp only [launch, curTrk, upd] <;> grind [Inv1, alive_iff, not_alive_iff]
    · split
      · constructor <;> simp only [curTrk, upd] <;> grind [Inv1, alive_iff, not_alive_iff]
      · constructor <;> simp only [launch, closeFd, curTrk, upd] <;> grind [Inv1, alive_iff, not_alive_iff]
  · simp at hs

theorem leave_inv1 {s : State} {p : Pid} (h : Inv1 s) (hp : (s.procs p).st = .live) : Inv1 (leave s p) := by
  unfold leave
  split
  · constructor <;> simp only [closeFd, upd] <;> grind [Inv1]
  · constructor <;> simp only [upd] <;> grind [Inv1]

theorem step_inv1_exit {s s' : State} {p : Pid} {k : ExitKind} (h : Inv1 s)
    (hs : step s (.exit p k) = some s') : Inv1 s' := by
  simp only [step] at hs
  split at hs
  · rename_i hg
    simp [isLive] at hg
    have hl := leave_inv1 h hg
    cases k with
    | crash => simp at hs; subst hs; exact inv1_congr hl rfl rfl rfl rfl
    | normal => simp at hs; obtain ⟨_, rfl⟩ := hs; exact hl
    | exc => simp at hs; obtain ⟨_, rfl⟩ := hs; exact hl
  · simp at hs

theorem step_inv1_sig {s s' : State} {t : Tid} {sg : Sig} (h : Inv1 s)
    (hs : step s (.sigTracker t sg) = some s') : Inv1 s' := by
  simp only [step] at hs
  split at hs
  · injection hs with hs; subst hs
    have hsp := signal_spec (s.trks t) sg
    generalize (s.trks t).signal sg = tr' at *
    constructor <;> simp only [upd] <;> grind [Inv1, alive_iff]
  · simp at hs

theorem step_inv1_boot {s s' : State} {t : Tid} (h : Inv1 s)
    (hs : step s (.boot t) = some s') : Inv1 s' := by
  simp only [step] at hs
  split at hs
  · rename_i tr hb
    injection hs with hs; subst hs
    have hsp := boot_spec _ _ hb
    constructor <;> simp only [upd] <;> grind [Inv1, alive_iff]
  · simp at hs

theorem sweep_spec (s : State) (t : Tid) :
    (sweep s t).procs = s.procs ∧ (sweep s t).nTrk = s.nTrk ∧ (sweep s t).trkKills = s.trkKills
    ∧ ((sweep s t).trks t).ph = .done ∧ ((sweep s t).trks t).writers = (s.trks t).writers
    ∧ (∀ n, ((sweep s t).trks t).reg n = 0) ∧ (∀ t', t' ≠ t → (sweep s t).trks t' = s.trks t') := by
  simp [sweep, upd]; grind

theorem step_inv1_eof {s s' : State} {t : Tid} (h : Inv1 s)
    (hs : step s (.eof t) = some s') : Inv1 s' := by
  simp only [step] at hs
  split at hs
  · rename_i hg
    simp at hg
    injection hs with hs; subst hs
    have hsp := sweep_spec s t
    generalize sweep s t = s2 at *
    obtain ⟨e1, e2, e3, e4, e5, e6, e7⟩ := hsp
    constructor <;> (try simp only [e1, e2, e3]) <;> grind [Inv1]
  · simp at hs

theorem step_inv1 {s s' : State} {e : Ev} (h : Inv1 s) (hs : step s e = some s') : Inv1 s' := by
  cases e with
  | spawn p c im => exact step_inv1_spawn h hs
  | exit p k => exact step_inv1_exit h hs
  | sigTracker t sg => exact step_inv1_sig h hs
  | boot t => exact step_inv1_boot h hs
  | eof t => exact step_inv1_eof h hs
  | op p o n =>
    simp only [step] at hs
    split at hs
    · rename_i hg
      simp [isLive] at hg
      injection hs with hs; subst hs
      exact send_inv1 s p o n h hg.1.1
    · simp at hs
  | mkfile p =>
    simp only [step] at hs
    split at hs
    · injection hs with hs; subst hs
      exact inv1_congr h rfl rfl rfl rfl
    · simp at hs
  | semOpen p o =>
    simp only [step] at hs
    split at hs
    · injection hs with hs; subst hs
      exact inv1_congr h rfl rfl rfl rfl
    · simp at hs
  | semRegister p o =>
    simp only [step] at hs
    split at hs
    · rename_i hg
      simp [isLive] at hg
      injection hs with hs; subst hs
      exact inv1_congr (send_inv1 s p .register (s.objs o).name h hg.1.1) rfl rfl rfl rfl
    · simp at hs
  | finUnlink p o =>
    simp only [step] at hs
    split at hs
    · injection hs with hs; subst hs
      exact inv1_congr h rfl rfl rfl rfl
    · simp at hs
  | finUnregister p o =>
    simp only [step] at hs
    split at hs
    · rename_i hg
      simp [isLive] at hg
      injection hs with hs; subst hs
      exact inv1_congr (send_inv1 s p .unregister (s.objs o).name h hg.1.1) rfl rfl rfl rfl
    · simp at hs
  | copy p o c o' =>
    simp only [step] at hs
    split at hs
    · injection hs with hs; subst hs
      exact inv1_congr h rfl rfl rfl rfl
    · simp at hs
  | dropCopy c o' =>
    simp only [step] at hs
    split at hs
    · injection hs with hs; subst hs
      exact inv1_congr h rfl rfl rfl rfl
    · simp at hs

theorem reach_inv1 {h : List Ev} {s : State} (hr : Reach h s) : Inv1 s := by
  induction hr with
  | init => exact inv1_init
  | step _ hs ih => exact step_inv1 ih hs

end LokyModel.TrackerTree
