import LokyModel.Lemmas.ExecLiveDeliverBase
/-! `RefP` across a manager step: every step of the manager that ends at `wait` ends a pass of
    `add_call_item_to_queue`, which stops only when the call queue is full or the id queue is empty. -/
namespace LokyModel.Exec
set_option linter.unusedSimpArgs false
set_option linter.unusedVariables false

theorem refP_mAdd (s : St) : RefP (mAdd s) := by
  intro n
  rcases mAdd_wait s (needR_idle n) with h | h
  · refine .inr (.inr (.inr (.inr ?_)))
    rw [mAdd_cqSem, h]; exact Nat.zero_le _
  · exact absurd h n.2

theorem refP_mAddF (s : St) : RefP (mAddF s) := by
  unfold mAddF mAfterAddF
  split
  · exact refP_busy (by simp [mIdle])
  · split
    · exact refP_busy (by simp)
    · exact refP_mAdd s
  · exact refP_mAdd s

theorem refP_mAfterItem (s : St) : RefP (mAfterItem s) := by
  unfold mAfterItem
  split
  · exact refP_busy (by simp [mIdle])
  · exact refP_mAdd s

theorem refP_mRespawnCheck (s : St) : RefP (mRespawnCheck s) := by
  unfold mRespawnCheck; simp only []
  (repeat' split) <;> first | exact refP_mAfterItem _ | exact refP_busy (by simp [mIdle])

theorem refP_mDropRef (s : St) : RefP (mDropRef s) := by
  unfold mDropRef; simp only []
  split
  · exact refP_busy (by simp [mIdle])
  · exact refP_mAfterItem _

theorem refP_mProcess (s : St) (r : Option RMsg) : RefP (mProcess s r) := by
  unfold mProcess
  (repeat' split) <;> first | exact refP_mAfterItem _ | exact refP_busy (by simp [mIdle])

theorem refP_mAfterFlag (s : St) : RefP (mAfterFlag s) := by
  unfold mAfterFlag
  split
  · exact refP_busy (by simp)
  · split
    · exact refP_busy (by simp)
    · exact refP_mAddF s

set_option maxHeartbeats 8000000 in
theorem refP_stepM (s s' : St) (v : Variant) (hs : stepM s v = some s') : RefP s' := by
  unfold stepM at hs
  crack
  all_goals (first
    | (refine refP_busy ?_; first | rfl | (simp; done))
    | exact refP_mAdd _
    | exact refP_mAddF _
    | exact refP_mAfterItem _
    | exact refP_mRespawnCheck _
    | exact refP_mDropRef _
    | exact refP_mProcess _ _
    | exact refP_mAfterFlag _
    | skip)

end LokyModel.Exec
