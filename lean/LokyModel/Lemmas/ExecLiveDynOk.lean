import LokyModel.Lemmas.ExecLiveDynOkW
import LokyModel.Lemmas.ExecLiveDynOkM
import LokyModel.Lemmas.ExecLiveDynOkU
import LokyModel.Lemmas.ExecLiveStatic
/-!
# `dynOk`, strengthened to `dynOk'`, is an inductive invariant of dynamic-pool configurations; so is `addSlotOk`

`dynOk' s = dynOk s && dynX s` (`LokyModel/ExecLiveDynOkDef.lean`).  Scope: `Cfg.dynPool` and `Cfg.oneCreate` (at most one
`.create` over all scripts — without it `dynOk` is false in a reachable state, see the definition file).  Steps other than
crashes preserve it, given — about the pre-state only — the scope `Cfg.dynPool`, `LeakFree` (no worker has the leak mark: an
inductive invariant by itself, `leakFreeD_step`, kept apart only because it speaks about all process ids, listed or not, so it
is not executable) and two facts of the older chain of lemmas:

* `hu` — a thread about to start the manager thread owns the management lock (`MgmtInv.u`, `Lemmas/ExecMgmt.lean`);
* `hsnap` — a process of the list the manager waits on is dead only while its exit announcement is in the result pipe
  (`NBInv.ann` / `NBInv.snap`, `Lemmas/ExecNoBreak.lean`).

Per actor: `ExecLiveDynOkW.lean` (workers, feeder), `ExecLiveDynOkM.lean`, `ExecLiveDynOkU.lean`.

`addSlotOk` needs no hypothesis at all (and holds across crash steps too).
-/
namespace LokyModel.Exec
open StaticP DynP
set_option linter.unusedSimpArgs false

/-! ### no worker is ever marked as leaking -/

set_option maxHeartbeats 8000000 in
theorem leakFreeD_step {s s' : St} {a : Actor} {v : Variant} (hs : step s a v = some s') (hc : s.cfg.dynPool = true)
    (h : LeakFree s) : LeakFree s' := by
  have hlk := dp_leak hc
  suffices e : s'.leaky = s.leaky by intro p; rw [e]; exact h p
  unfold step at hs
  cases a with
  | U k =>
    simp only [] at hs; split at hs
    · unfold stepU at hs; crack
      all_goals (first | rfl | (simp; done) | (unfold uDispatch; (repeat' split) <;> simp; done))
    · cases hs
  | M => unfold stepM at hs; crack; all_goals (first | rfl | (simp; done))
  | F => unfold stepF at hs; crack; all_goals (first | rfl | (simp; done))
  | W p =>
    simp only [] at hs; split at hs
    · unfold stepW at hs; crack; all_goals (first | rfl | (simp; done) | (simp_all; done))
    · cases hs

/-! ### `dynOk'` -/

theorem dynOk'_init (cfg : Cfg) (hc : cfg.dynPool = true) (ho : cfg.oneCreate = true) : dynOk' (init cfg) = true :=
  bool_of_di _ (di_init cfg hc ho)

theorem dynOk'_step {s s' : St} {a : Actor} {v : Variant} (hv : v ≠ .crash) (hs : step s a v = some s')
    (_hp : PidsInv s) (hc : s.cfg.dynPool = true) (hl : LeakFree s)
    (hu : ∀ k, s.upc k = .subTStart → s.oMgmt = some (.U k))
    (hsnap : ∀ sn, s.mpc = .wait sn → ∀ p ∈ sn, isDead s p = true → s.rqPipe ≠ [])
    (h : dynOk' s = true) : dynOk' s' = true := by
  have hi := di_of_bool s h
  apply bool_of_di
  unfold step at hs
  cases a with
  | U k =>
    simp only [] at hs; split at hs
    · exact (di_stepU s s' k v hi (by assumption) hu hl hs).1
    · cases hs
  | M => exact (di_stepM s s' v hi hl hsnap hs).1
  | F => exact (di_stepF s s' v hi hl hs).1
  | W p =>
    simp only [] at hs; split at hs
    · exact (di_stepW s s' p v hv hc (by assumption) hi hl hs).1
    · cases hs

theorem dynOk_of_dynOk' {s : St} (h : dynOk' s = true) : dynOk s = true := by
  unfold dynOk' at h
  exact (Bool.and_eq_true _ _ ▸ h).1

theorem dynX_of_dynOk' {s : St} (h : dynOk' s = true) : dynX s = true := by
  unfold dynOk' at h
  exact (Bool.and_eq_true _ _ ▸ h).2

/-- both parts together -/
def DynInv (s : St) : Prop := dynOk' s = true ∧ LeakFree s

theorem dynInv_init (cfg : Cfg) (hc : cfg.dynPool = true) (ho : cfg.oneCreate = true) : DynInv (init cfg) :=
  ⟨dynOk'_init cfg hc ho, leakFree_init cfg⟩

theorem dynInv_step {s s' : St} {a : Actor} {v : Variant} (hv : v ≠ .crash) (hs : step s a v = some s')
    (hp : PidsInv s) (hc : s.cfg.dynPool = true)
    (hu : ∀ k, s.upc k = .subTStart → s.oMgmt = some (.U k))
    (hsnap : ∀ sn, s.mpc = .wait sn → ∀ p ∈ sn, isDead s p = true → s.rqPipe ≠ [])
    (h : DynInv s) : DynInv s' :=
  ⟨dynOk'_step hv hs hp hc h.2 hu hsnap h.1, leakFreeD_step hs hc h.2⟩

theorem dynOk_of_inv {s : St} (h : DynInv s) : dynOk s = true := dynOk_of_dynOk' h.1

/-- the statement asked for, with the strengthened invariant hidden in the bundle: `dynOk` holds after the step -/
theorem dynOk_step_of_inv {s s' : St} {a : Actor} {v : Variant} (hv : v ≠ .crash) (hs : step s a v = some s')
    (hp : PidsInv s) (hc : s.cfg.dynPool = true)
    (hu : ∀ k, s.upc k = .subTStart → s.oMgmt = some (.U k))
    (hsnap : ∀ sn, s.mpc = .wait sn → ∀ p ∈ sn, isDead s p = true → s.rqPipe ≠ [])
    (h : DynInv s) : dynOk s' = true := dynOk_of_inv (dynInv_step hv hs hp hc hu hsnap h)

theorem dynOk_init (cfg : Cfg) (hc : cfg.dynPool = true) (ho : cfg.oneCreate = true) : dynOk (init cfg) = true :=
  dynOk_of_dynOk' (dynOk'_init cfg hc ho)

/-! ### `addSlotOk`: at `addAcq` / `addAcqF` the bounding semaphore of the call queue is positive -/

namespace DynP

theorem aslot_of (s : St) (h : ∀ i, (s.mpc = .addAcq i ∨ s.mpc = .addAcqF i) → 0 < s.cqSem) : addSlotOk s = true := by
  unfold addSlotOk
  cases hm : s.mpc <;> simp
  · exact h _ (.inl hm)
  · exact h _ (.inr hm)

theorem aslot_to (s : St) (h : addSlotOk s = true) : ∀ i, (s.mpc = .addAcq i ∨ s.mpc = .addAcqF i) → 0 < s.cqSem := by
  intro i hi
  unfold addSlotOk at h
  rcases hi with e | e <;> simpa [e] using h

/-- the manager's program counter and the semaphore after a step of another actor -/
theorem aslot_keep (s s' : St) (h : addSlotOk s = true) (h1 : s'.mpc = s.mpc ∨ s'.mpc = .start) (h2 : s.cqSem ≤ s'.cqSem) :
    addSlotOk s' = true := by
  apply aslot_of
  intro i hi
  rcases h1 with e | e
  · rw [e] at hi; have := aslot_to s h i hi; omega
  · rw [e] at hi; rcases hi with e' | e' <;> cases e'

theorem mAddFuel_slot (n : Nat) (s : St) : addSlotOk (mAddFuel n s) = true := by
  induction n generalizing s with
  | zero => simp [mAddFuel, addSlotOk]
  | succ n ih =>
    unfold mAddFuel
    split
    · simp [addSlotOk]
    · split
      · simp [addSlotOk]
      · split
        · exact ih _
        · simp [addSlotOk, setFut]
          apply decide_eq_true; omega

theorem mAdd_slot (s : St) : addSlotOk (mAdd s) = true := mAddFuel_slot _ s

theorem mAfterItem_slot (s : St) : addSlotOk (mAfterItem s) = true := by
  unfold mAfterItem; split
  · simp [addSlotOk]
  · exact mAdd_slot s

theorem mProcess_slot (s : St) (r : Option RMsg) : addSlotOk (mProcess s r) = true := by
  unfold mProcess; (repeat' split) <;> first | exact mAfterItem_slot _ | (simp [addSlotOk]; done)

theorem mRespawnCheck_slot (s : St) : addSlotOk (mRespawnCheck s) = true := by
  unfold mRespawnCheck; simp only []; (repeat' split) <;> first | exact mAfterItem_slot _ | (simp [addSlotOk]; done)

theorem mDropRef_slot (s : St) : addSlotOk (mDropRef s) = true := by
  unfold mDropRef; simp only []; split
  · simp [addSlotOk]
  · exact mAfterItem_slot _

theorem mAfterAddF_slot (s : St) (h : addSlotOk s = true) : addSlotOk (mAfterAddF s) = true := by
  unfold mAfterAddF
  split
  · rename_i i e
    have := aslot_to s h i (.inl e)
    simp [addSlotOk]; exact this
  · split
    · simp [addSlotOk, mJoinStart]
    · exact h
  · exact h

theorem mAddF_slot (s : St) : addSlotOk (mAddF s) = true := mAfterAddF_slot _ (mAdd_slot s)

theorem mKillNext_slot (s : St) : addSlotOk (mKillNext s) = true := by
  unfold mKillNext; split <;> simp [addSlotOk, mJoinStart]

theorem mAfterFlag_slot (s : St) : addSlotOk (mAfterFlag s) = true := by
  unfold mAfterFlag; (repeat' split) <;> first | exact mKillNext_slot _ | exact mAddF_slot _ | (simp [addSlotOk, mJoinStart]; done)

theorem mSpawnLoop_slot (s : St) : addSlotOk (mSpawnLoop s) = true := by
  unfold mSpawnLoop; split <;> simp [addSlotOk]
theorem mRelExitNext_slot (s : St) (ps : List Pid) (n : Nat) : addSlotOk (mRelExitNext s ps n) = true := by
  unfold mRelExitNext; split <;> simp [addSlotOk]
theorem mAliveNext_slot (s : St) (ps : List Pid) (c n sent cool : Nat) : addSlotOk (mAliveNext s ps c n sent cool) = true := by
  unfold mAliveNext; split <;> simp [addSlotOk]
theorem mJoinProcs_slot (s : St) : addSlotOk (mJoinProcs s) = true := by
  unfold mJoinProcs; split <;> simp [addSlotOk]
theorem mJoinClose_slot (s : St) : addSlotOk (mJoinClose s) = true := by
  unfold mJoinClose; simp [addSlotOk]
theorem mJoinLoop_slot (s : St) (n sent cool : Nat) : addSlotOk (mJoinLoop s n sent cool) = true := by
  unfold mJoinLoop; split
  · simp [addSlotOk]
  · exact mJoinClose_slot s
theorem mAfterPut_slot (s : St) (k n sent cool : Nat) : addSlotOk (mAfterPut s k n sent cool) = true := by
  unfold mAfterPut; split
  · exact mJoinLoop_slot _ _ _ _
  · simp [addSlotOk]

set_option maxHeartbeats 8000000 in
theorem addSlotOk_stepM (s s' : St) (v : Variant) (hs : stepM s v = some s') : addSlotOk s' = true := by
  unfold stepM at hs
  crack
  all_goals (first
    | exact mAdd_slot _ | exact mAddF_slot _ | exact mProcess_slot _ _ | exact mRespawnCheck_slot _ | exact mDropRef_slot _
    | exact mAfterItem_slot _ | exact mAfterFlag_slot _ | exact mKillNext_slot _ | exact mSpawnLoop_slot _
    | exact mRelExitNext_slot _ _ _ | exact mAliveNext_slot _ _ _ _ _ _ | exact mJoinProcs_slot _ | exact mJoinClose_slot _
    | exact mJoinLoop_slot _ _ _ _ | exact mAfterPut_slot _ _ _ _ _
    | (simp [addSlotOk, die]; done))

set_option maxHeartbeats 8000000 in
theorem addSlotOk_stepU (s s' : St) (k : Nat) (v : Variant) (h : addSlotOk s = true) (hs : stepU s k v = some s') :
    addSlotOk s' = true := by
  refine aslot_keep s s' h ?_ ?_
  all_goals (unfold stepU at hs; crack)
  all_goals (first | (left; rfl) | (right; rfl) | (simp; done) | (left; simp; done) | (right; simp; done) | skip)

set_option maxHeartbeats 8000000 in
theorem addSlotOk_stepF (s s' : St) (v : Variant) (h : addSlotOk s = true) (hs : stepF s v = some s') :
    addSlotOk s' = true := by
  refine aslot_keep s s' h ?_ ?_
  all_goals (unfold stepF at hs; crack)
  all_goals (first | (left; rfl) | (simp; done) | (left; simp; done) | skip)

set_option maxHeartbeats 8000000 in
theorem addSlotOk_stepW (s s' : St) (p : Pid) (v : Variant) (h : addSlotOk s = true) (hs : stepW s p v = some s') :
    addSlotOk s' = true := by
  refine aslot_keep s s' h ?_ ?_
  all_goals (unfold stepW at hs; crack)
  all_goals (first | (left; rfl) | (simp; done) | (left; simp; done) | skip)

end DynP

theorem addSlotOk_init (cfg : Cfg) : addSlotOk (init cfg) = true := rfl

/-- no hypothesis about the configuration or the pre-state other than the invariant itself is needed, and crash steps
    preserve it as well -/
theorem addSlotOk_step {s s' : St} {a : Actor} {v : Variant} (hs : step s a v = some s') (h : addSlotOk s = true) :
    addSlotOk s' = true := by
  unfold step at hs
  cases a with
  | U k =>
    simp only [] at hs; split at hs
    · exact addSlotOk_stepU s s' k v h hs
    · cases hs
  | M => exact addSlotOk_stepM s s' v hs
  | F => exact addSlotOk_stepF s s' v h hs
  | W p =>
    simp only [] at hs; split at hs
    · exact addSlotOk_stepW s s' p v h hs
    · cases hs

end LokyModel.Exec
