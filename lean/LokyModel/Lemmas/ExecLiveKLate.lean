import LokyModel.Lemmas.ExecLiveKHolder
import LokyModel.Lemmas.ExecLiveStatic
import LokyModel.Lemmas.ExecLiveCrashKillBase
/-!
# Phase 2 of a pool with forced shutdowns: the manager has seen the kill flag

`LateInv` (the Prop form of `lateK`, `LokyModel/ExecLiveKDef.lean`): the manager thread is in the kill loop or runs
`join_executor_internals` on an empty process table; every process ever spawned is still registered, or is the one being
killed / joined, or is dead; the four locks that threads of the parent take have a holder inside the section
(`HolderInv4`) — nothing is claimed about the call queue's read lock and the result queue's write lock, which a killed
worker may hold for ever.  The invariant is preserved by every step, crash steps of workers included (wherever they are:
in this phase even a death inside a queue-lock section is harmless).
-/
namespace LokyModel.Exec
open StaticP
set_option linter.unusedSimpArgs false

/-! ### what the scope gives -/

theorem spK_parts (c : Cfg) (hc : c.staticPoolK = true) :
    c.timeout = false ∧ c.leakAfter = [] ∧ c.initFail = [] ∧ 0 < c.maxWorkers ∧
    (∀ t ∈ c.tasks, t.body ≠ .die ∧ t.args ≠ .badunpickle ∧ t.res ≠ .badunpickle) := by
  unfold Cfg.staticPoolK at hc
  simp only [Bool.and_eq_true, Bool.not_eq_true', List.isEmpty_iff, decide_eq_true_eq, List.all_eq_true, bne_iff_ne, ne_eq] at hc
  obtain ⟨⟨⟨⟨a, b⟩, c'⟩, d⟩, e⟩ := hc
  exact ⟨a, b, c', d, fun t ht => ⟨(e t ht).1.1, (e t ht).1.2, (e t ht).2⟩⟩

theorem spK_spec {s : St} (hc : s.cfg.staticPoolK = true) (t : Tid) :
    (specOf s t).body ≠ .die ∧ (specOf s t).args ≠ .badunpickle ∧ (specOf s t).res ≠ .badunpickle := by
  unfold specOf
  by_cases h : t < s.cfg.tasks.length
  · have : s.cfg.tasks.getD t {} = s.cfg.tasks[t] := by simp [List.getD, h]
    rw [this]
    exact (spK_parts _ hc).2.2.2.2 _ (List.getElem_mem h)
  · have : s.cfg.tasks.getD t {} = {} := by simp [List.getD, List.getElem?_eq_none (Nat.le_of_not_lt h)]
    rw [this]; simp

/-- forgetting the forced shutdowns of a `staticPoolK` configuration gives a static pool -/
theorem staticPool_unkill (c : Cfg) (hc : c.staticPoolK = true) : c.unkill.staticPool = true := by
  unfold Cfg.staticPoolK at hc
  unfold Cfg.staticPool
  have : c.unkill.scripts.all (fun sc => sc.all (fun op => !op.isKill)) = true := by
    simp only [Cfg.unkill, List.all_map, List.all_eq_true, Function.comp]
    intro sc _ op _
    cases op <;> rfl
  rw [this, Bool.and_true]
  exact hc

theorem wDispatch_w_selfK (s : St) (p : Pid) (m : CMsg) (hc : s.cfg.staticPoolK = true) :
    (wDispatch s p m).w p = (match m with | .call w t => .task w t | _ => .xAcq) := by
  unfold wDispatch
  split
  · have := (spK_spec hc ‹Tid›).2.1
    simp [this, setW, upd]
  · simp [setW, upd]

/-! ### a step of a worker -/

structure WSumK (s s' : St) (p : Pid) : Prop where
  alive : s.w p ≠ .dead
  oth : ∀ q, q ≠ p → s'.w q = s.w q
  wn : wNever (s'.w p) = false
  mpc : s'.mpc = s.mpc
  upc : s'.upc = s.upc
  ucur : s'.ucur = s.ucur
  procDict : s'.procDict = s.procDict
  allPids : s'.allPids = s.allPids
  cfg : s'.cfg = s.cfg

set_option maxHeartbeats 8000000 in
theorem wSumK_step (s s' : St) (p : Pid) (v : Variant) (hc : s.cfg.staticPoolK = true)
    (hl : s.leaky p = false) (hwn : wNever (s.w p) = false) (hs : stepW s p v = some s') : WSumK s s' p := by
  have ht : s.cfg.timeout = false := (spK_parts _ hc).1
  unfold stepW at hs
  crack
  all_goals (first | (simp_all [wNever]; done) | skip)
  all_goals constructor
  all_goals (first
    | rfl
    | (simp [*]; done)
    | (intro q hq
       simp [wAfterStart_w_other, wGet_w_other, wDispatch_w_other, wAfterResult_w_other, setW_w_other, die_w_other, hq]; done)
    | (simp [setW_w_self, die_w_self, wGet_w_self, wAfterStart_w_self, wDispatch_w_selfK, wAfterResult_w_self, ht, hc, hl,
         wNever, *]; done)
    | (simp [wAfterStart_w_self, ht]; split <;> simp [wNever]; done)
    | (cases ‹CMsg› <;>
       simp_all [setW_w_self, die_w_self, wGet_w_self, wAfterStart_w_self, wDispatch_w_selfK, wAfterResult_w_self, wNever]; done)
    | (simp_all [setW_w_self, die_w_self, wGet_w_self, wAfterStart_w_self, wDispatch_w_selfK, wAfterResult_w_self, wNever]; done))

/-! ### a step of the feeder thread -/

structure FSumK (s s' : St) : Prop where
  w : s'.w = s.w
  mpc : s'.mpc = s.mpc
  upc : s'.upc = s.upc
  ucur : s'.ucur = s.ucur
  procDict : s'.procDict = s.procDict
  allPids : s'.allPids = s.allPids
  cfg : s'.cfg = s.cfg

set_option maxHeartbeats 4000000 in
theorem fSumK_step (s s' : St) (v : Variant) (hs : stepF s v = some s') : FSumK s s' := by
  unfold stepF at hs
  crack
  all_goals constructor
  all_goals (first
    | rfl
    | (simp; done)
    | (unfold fNext; (repeat' split) <;> simp; done)
    | (split <;> (unfold fNext; (repeat' split) <;> simp); done))

/-! ### a step of a user thread -/

structure USumK (s s' : St) (k : Nat) : Prop where
  cfg : s'.cfg = s.cfg
  oth : ∀ j, j ≠ k → s'.upc j = s.upc j ∧ s'.ucur j = s.ucur j
  api : s'.upc k = .api → (s'.ucur k).isSome = true
  mpc : s'.mpc = s.mpc ∨ accU (s.upc k) = true
  sp : (s'.allPids = s.allPids ∧ s'.procDict = s.procDict ∧ s'.w = s.w) ∨ accU (s.upc k) = true

theorem uNext_sumK (s0 s : St) (k : Nat) (h1 : s.cfg = s0.cfg) (h2 : s.upc = s0.upc) (h3 : s.ucur = s0.ucur)
    (h4 : s.mpc = s0.mpc) (h5 : s.allPids = s0.allPids) (h6 : s.procDict = s0.procDict) (h7 : s.w = s0.w) :
    USumK s0 (uNext s k) k := by
  refine ⟨by simp [h1], ?_, (uNext_pc s k).2, .inl (by simp [h4]), .inl ⟨by simp [h5], by simp [h6], by simp [h7]⟩⟩
  intro j hj
  have := uNext_oth s k j hj
  rw [h2, h3] at this
  exact ⟨this.1, this.2.1⟩

theorem uRelease_sumK (s0 s : St) (k : Nat) (h1 : s.cfg = s0.cfg) (h2 : s.upc = s0.upc) (h3 : s.ucur = s0.ucur)
    (h4 : s.mpc = s0.mpc) (h5 : s.allPids = s0.allPids) (h6 : s.procDict = s0.procDict) (h7 : s.w = s0.w) :
    USumK s0 (uRelease s k) k := by
  refine ⟨by simp [h1], ?_, (uRelease_pc s k).2, .inl (by simp [h4]), .inl ⟨by simp [h5], by simp [h6], by simp [h7]⟩⟩
  intro j hj
  have := uRelease_oth s k j hj
  rw [h2, h3] at this
  exact ⟨this.1, this.2.1⟩

theorem setU_sumK (s0 s : St) (k : Nat) (pc : UPc) (hpc : pc ≠ .api) (h1 : s.cfg = s0.cfg) (h2 : s.upc = s0.upc)
    (h3 : s.ucur = s0.ucur) (h4 : s.mpc = s0.mpc) (h5 : s.allPids = s0.allPids) (h6 : s.procDict = s0.procDict)
    (h7 : s.w = s0.w) : USumK s0 (setU s k pc) k := by
  refine ⟨by simp [setU, h1], ?_, ?_, .inl (by simp [setU, h4]), .inl ⟨by simp [setU, h5], by simp [setU, h6], by simp [setU, h7]⟩⟩
  · intro j hj
    simp [setU, upd, hj, h2, h3]
  · intro e; simp [setU, upd] at e; exact absurd e hpc

theorem uDispatch_sumK (s : St) (k : Nat) (op : UOp) : USumK s (uDispatch s k op) k := by
  unfold uDispatch
  (repeat' split) <;> first
    | exact uNext_sumK s _ k rfl rfl rfl rfl rfl rfl rfl
    | exact uRelease_sumK s _ k rfl rfl rfl rfl rfl rfl rfl
    | (refine setU_sumK s _ k _ (by simp) rfl rfl rfl rfl rfl rfl rfl; done)

set_option maxHeartbeats 16000000 in
theorem uSumK_step (s s' : St) (k : Nat) (v : Variant) (hs : stepU s k v = some s') : USumK s s' k := by
  unfold stepU at hs
  crack
  all_goals (first
    | exact uDispatch_sumK s k _
    | exact uNext_sumK s _ k rfl rfl rfl rfl rfl rfl rfl
    | exact uRelease_sumK s _ k rfl rfl rfl rfl rfl rfl rfl
    | (refine setU_sumK s _ k _ (by simp) rfl rfl rfl rfl rfl rfl rfl; done)
    | skip)
  -- the spawn section of `submit`
  · refine ⟨by simp, ?_, fun e => absurd e (uSpawnLoop_sf _ k).2.2.1, .inr (by simp [accU, *]), .inr (by simp [accU, *])⟩
    intro j hj
    have := uSpawnLoop_oth { s with mgmt := s.mgmt - 1, oMgmt := some (Actor.U k) } k j hj
    exact ⟨this.1, this.2.1⟩
  · refine ⟨by simp [spawn], ?_, fun e => absurd e (uSpawnLoop_sf _ k).2.2.1, .inr (by simp [accU, *]), .inr (by simp [accU, *])⟩
    intro j hj
    have := uSpawnLoop_oth (spawn s) k j hj
    exact ⟨this.1, this.2.1⟩
  · refine ⟨by simp [setU], ?_, fun e => by simp [setU, upd] at e, .inr (by simp [accU, *]), .inr (by simp [accU, *])⟩
    intro j hj
    simp [setU, upd, hj]

/-! ### the invariant of phase 2 -/

structure LateInv (s : St) : Prop where
  pc : mK2 s.mpc = true
  fin : mKillLoop s.mpc = false → s.procDict = []
  acct : ∀ q ∈ s.allPids, q ∈ s.procDict ∨ killOfK s.mpc = some q ∨ s.w q = .dead
  kj : ∀ p, s.mpc = .killJoin p → s.w p = .dead
  wnever : ∀ p ∈ s.allPids, wNever (s.w p) = false
  leak : LeakFree s
  h4 : HolderInv4 s
  api : ∀ k, k < s.cfg.scripts.length → s.upc k = .api → (s.ucur k).isSome = true

theorem mK2_flagged {pc : MPc} (h : mK2 pc = true) : mFlagged pc = true := by
  cases pc <;> simp_all [mK2, mFlagged]
theorem mK2_neverC {pc : MPc} (h : mK2 pc = true) : mNeverC pc = false := by
  cases pc <;> simp_all [mK2, mNeverC]
theorem mK2_relExitSafe {s : St} (h : mK2 s.mpc = true) : RelExitSafe s := by
  intro p rest n e; rw [e] at h; simp [mK2] at h

/-- in phase 2 the shutdown flag is up: nobody is inside the accepted part of `submit` -/
theorem LateInv.noAcc {s : St} (h : LateInv s) (hsh : ShutInv s) (k : Nat) : accU (s.upc k) = false := by
  cases ha : accU (s.upc k) with
  | false => rfl
  | true =>
    have h1 := hsh.acc k ha
    have h2 := hsh.flag (mK2_flagged h.pc)
    rw [h1] at h2; cases h2

/-- frame: the manager, the registry and the set of processes are untouched; more processes may be dead -/
theorem lateInv_same (s s' : St) (h : LateInv s) (hm : s'.mpc = s.mpc) (hpd : s'.procDict = s.procDict)
    (ha : s'.allPids = s.allPids) (hw : ∀ q, s.w q = .dead → s'.w q = .dead)
    (hwn : ∀ p ∈ s.allPids, wNever (s'.w p) = false) (hl : LeakFree s') (h4 : HolderInv4 s')
    (hapi : ∀ k, k < s'.cfg.scripts.length → s'.upc k = .api → (s'.ucur k).isSome = true) : LateInv s' := by
  refine ⟨by rw [hm]; exact h.pc, by rw [hm, hpd]; exact h.fin, ?_, ?_, by rw [ha]; exact hwn, hl, h4, hapi⟩
  · intro q hq
    rw [ha] at hq; rw [hm, hpd]
    rcases h.acct q hq with e | e | e
    · exact .inl e
    · exact .inr (.inl e)
    · exact .inr (.inr (hw q e))
  · intro p e
    rw [hm] at e
    exact hw p (h.kj p e)

/-- a step inside `join_executor_internals` -/
theorem lateInv_final (s s' : St) (h : LateInv s) (hk : mKillLoop s.mpc = false) (hpc : mK2 s'.mpc = true)
    (hk' : mKillLoop s'.mpc = false) (hpd : s'.procDict = s.procDict) (ha : s'.allPids = s.allPids) (hw : s'.w = s.w)
    (hl : s'.leaky = s.leaky) (hupc : s'.upc = s.upc) (hucur : s'.ucur = s.ucur) (hcfg : s'.cfg = s.cfg)
    (h4 : HolderInv4 s') : LateInv s' := by
  have hnil := h.fin hk
  have hko : killOfK s.mpc = none := by cases hm : s.mpc <;> simp_all [mKillLoop, killOfK]
  refine ⟨hpc, fun _ => by rw [hpd]; exact hnil, ?_, ?_, by rw [ha, hw]; exact h.wnever, ?_, h4, ?_⟩
  · intro q hq
    rw [ha] at hq; rw [hw]
    rcases h.acct q hq with e | e | e
    · rw [hnil] at e; cases e
    · rw [hko] at e; cases e
    · exact .inr (.inr e)
  · intro p e; rw [e] at hk'; cases hk'
  · intro p; rw [hl]; exact h.leak p
  · rw [hupc, hucur, hcfg]; exact h.api

theorem mJoinLoop0_mpc (s : St) : (mJoinLoop s 0 0 0).mpc = .jShutAcq := by
  simp [mJoinLoop, mJoinClose]

/-- `kill()`: the victim is dead from here on, whatever it was doing and whatever it holds -/
theorem lateInv_kill (s s' : St) (p : Pid) (h : LateInv s) (hm : s.mpc = .kill p) (hm' : s'.mpc = .killJoin p)
    (hpd : s'.procDict = s.procDict) (ha : s'.allPids = s.allPids) (hwp : s'.w p = .dead)
    (hoth : ∀ q, q ≠ p → s'.w q = s.w q) (hl : s'.leaky = s.leaky) (hupc : s'.upc = s.upc) (hucur : s'.ucur = s.ucur)
    (hcfg : s'.cfg = s.cfg) (h4 : HolderInv4 s') : LateInv s' := by
  have hw : ∀ q, s.w q = .dead → s'.w q = .dead := by
    intro q hq
    by_cases e : q = p
    · rw [e]; exact hwp
    · rw [hoth q e]; exact hq
  refine ⟨by rw [hm']; rfl, fun e => (by rw [hm'] at e; cases e), ?_, ?_, ?_, ?_, h4, ?_⟩
  · intro q hq
    rw [ha] at hq; rw [hm', hpd]
    rcases h.acct q hq with e | e | e
    · exact .inl e
    · rw [hm] at e; exact .inr (.inl e)
    · exact .inr (.inr (hw q e))
  · intro p' e
    rw [hm'] at e
    injection e with e; rw [← e]; exact hwp
  · intro q hq
    rw [ha] at hq
    by_cases e : q = p
    · rw [e, hwp]; rfl
    · rw [hoth q e]; exact h.wnever q hq
  · intro q; rw [hl]; exact h.leak q
  · rw [hupc, hucur, hcfg]; exact h.api

/-- `join()` of the victim returned: the next registered worker is popped, or `join_executor_internals` starts on an
    empty process table -/
theorem lateInv_killJoin (s : St) (p : Pid) (h : LateInv s) (hm : s.mpc = .killJoin p) (hd : s.w p = .dead)
    (h4 : HolderInv4 (mKillNext s)) : LateInv (mKillNext s) := by
  cases hl : s.procDict.getLast? with
  | some q =>
    have e : mKillNext s = { s with procDict := s.procDict.dropLast, mpc := .kill q } := by
      unfold mKillNext; rw [hl]
    rw [e] at h4 ⊢
    refine ⟨rfl, fun e => (by cases e), ?_, fun p' e => (by cases e), h.wnever, h.leak, h4, h.api⟩
    intro r hr
    rcases h.acct r hr with e | e | e
    · rcases mem_dropLast_or_last _ _ _ hl e with e' | e'
      · exact .inr (.inl (by rw [e']; rfl))
      · exact .inl e'
    · rw [hm] at e
      have : p = r := by simpa [killOfK] using e
      exact .inr (.inr (by rw [← this]; exact hd))
    · exact .inr (.inr e)
  | none =>
    have hnil : s.procDict = [] := by simpa using hl
    have e : mKillNext s = { s with mpc := .jAcq1 } := by
      unfold mKillNext; rw [hl]; rfl
    rw [e] at h4 ⊢
    refine ⟨rfl, fun _ => hnil, ?_, fun p' e => (by cases e), h.wnever, h.leak, h4, h.api⟩
    intro r hr
    rcases h.acct r hr with e | e | e
    · rw [hnil] at e; cases e
    · rw [hm] at e
      have : p = r := by simpa [killOfK] using e
      exact .inr (.inr (by rw [← this]; exact hd))
    · exact .inr (.inr e)

set_option maxHeartbeats 16000000 in
theorem lateInv_stepM (s s' : St) (v : Variant) (h : LateInv s) (h4 : HolderInv4 s') (hs : stepM s v = some s') :
    LateInv s' := by
  have hpc := h.pc
  unfold stepM at hs
  crack
  all_goals (first
    | (exfalso; rw [‹s.mpc = _›] at hpc; simp [mK2] at hpc; done)
    | skip)
  -- `kill`, victim alive
  · rename_i p _ _
    refine lateInv_kill s _ p h ‹_› rfl rfl rfl (by simp [die, upd]) ?_ rfl rfl rfl rfl h4
    intro q hq; simp [die_w_other, hq]
  -- `kill`, victim already dead
  · rename_i p _ ha
    refine lateInv_kill s _ p h ‹_› rfl rfl rfl ?_ (fun _ _ => rfl) rfl rfl rfl rfl h4
    simpa [alive] using ha
  -- `join` of the victim
  · exact lateInv_killJoin s _ h ‹_› (by simpa [isDead] using ‹isDead s _ = true›) h4
  -- `join_executor_internals` on an empty process table
  · have hnil := h.fin (by rw [‹s.mpc = _›]; rfl)
    simp only [hnil, mRelExitNext] at h4 ⊢
    exact lateInv_final s _ h (by rw [‹s.mpc = _›]; rfl) rfl rfl (by simp [hnil]) rfl rfl rfl rfl rfl rfl h4
  · rename_i n _
    have hn : n = 0 := by
      rw [‹s.mpc = _›] at hpc
      cases n with
      | zero => rfl
      | succ m => simp [mK2] at hpc
    subst hn
    refine lateInv_final s _ h (by rw [‹s.mpc = _›]; rfl) ?_ ?_ ?_ ?_ ?_ ?_ ?_ ?_ ?_ h4
    all_goals (first | (rw [mJoinLoop0_mpc]; rfl) | (simp; done))
  · exact lateInv_final s _ h (by rw [‹s.mpc = _›]; rfl) rfl rfl rfl rfl rfl rfl rfl rfl rfl h4
  · exact lateInv_final s _ h (by rw [‹s.mpc = _›]; rfl) rfl rfl rfl rfl rfl rfl rfl rfl rfl h4
  · have hnil := h.fin (by rw [‹s.mpc = _›]; rfl)
    have e : ∀ X : St, X.procDict = [] → mJoinProcs X = { X with mpc := .jRel2 } := by
      intro X hX; unfold mJoinProcs; rw [hX]; rfl
    rw [e _ (by simpa using hnil)] at h4 ⊢
    exact lateInv_final s _ h (by rw [‹s.mpc = _›]; rfl) rfl rfl rfl rfl rfl rfl rfl rfl rfl h4
  · exact lateInv_final s _ h (by rw [‹s.mpc = _›]; rfl) rfl rfl rfl rfl rfl rfl rfl rfl rfl h4

/-! ### every step of phase 2 -/

theorem seesKill_of_mK2 {s : St} (h : mK2 s.mpc = true) (a : Actor) : seesKill s a = false := by
  unfold seesKill
  cases hm : s.mpc <;> simp_all [mK2]

/-- a step of `s`, seen on the un-killed states -/
theorem step_unkill_some {s s' : St} {a : Actor} {v : Variant} (hs : step s a v = some s') (hk : seesKill s a = false) :
    step s.unkill a v = some s'.unkill := by
  rw [step_unkill s a v hk, hs]; rfl

/-- **the invariant of phase 2 is preserved by every step**: ordinary steps of any actor, the manager's `kill`, and the
    death of a worker wherever it is -/
theorem lateInv_step {s s' : St} {a : Actor} {v : Variant} (hs : step s a v = some s') (hc : s.cfg.staticPoolK = true)
    (hsh : ShutInv s) (h : LateInv s) : LateInv s' := by
  have h4 : HolderInv4 s' := holderInv4_step hs h.wnever (mK2_relExitSafe h.pc) h.h4
  have hl : LeakFree s' :=
    leakFree_step (step_unkill_some hs (seesKill_of_mK2 h.pc a)) (staticPool_unkill _ hc) (s := s.unkill) (s' := s'.unkill) h.leak
  unfold step at hs
  cases a with
  | U k =>
    simp only [] at hs; split at hs
    · have U := uSumK_step s s' k v hs
      have hna := h.noAcc hsh k
      have hm : s'.mpc = s.mpc := by
        rcases U.mpc with e | e
        · exact e
        · rw [hna] at e; cases e
      obtain ⟨ha, hpd, hw⟩ : s'.allPids = s.allPids ∧ s'.procDict = s.procDict ∧ s'.w = s.w := by
        rcases U.sp with e | e
        · exact e
        · rw [hna] at e; cases e
      refine lateInv_same s s' h hm hpd ha (fun q hq => by rw [hw]; exact hq) (by rw [hw]; exact h.wnever) hl h4 ?_
      intro j hj hp
      rw [U.cfg] at hj
      by_cases e : j = k
      · subst e; exact U.api hp
      · rw [(U.oth j e).1] at hp; rw [(U.oth j e).2]; exact h.api j hj hp
    · cases hs
  | M => exact lateInv_stepM s s' v h h4 hs
  | F =>
    have F := fSumK_step s s' v hs
    refine lateInv_same s s' h F.mpc F.procDict F.allPids (fun q hq => by rw [F.w]; exact hq)
      (by rw [F.w]; exact h.wnever) hl h4 ?_
    rw [F.cfg, F.upc, F.ucur]; exact h.api
  | W p =>
    simp only [] at hs; split at hs
    · rename_i hin
      have W := wSumK_step s s' p v hc (h.leak p) (h.wnever p hin) hs
      refine lateInv_same s s' h W.mpc W.procDict W.allPids ?_ ?_ hl h4 ?_
      · intro q hq
        by_cases e : q = p
        · rw [e] at hq; exact absurd hq W.alive
        · rw [W.oth q e]; exact hq
      · intro q hq
        by_cases e : q = p
        · rw [e]; exact W.wn
        · rw [W.oth q e]; exact h.wnever q hq
      · rw [W.cfg, W.upc, W.ucur]; exact h.api
    · cases hs

/-! ### entering phase 2 -/

/-- the kill loop starts on a complete registry -/
theorem lateInv_enter (X : St) (hreg : X.procDict = X.allPids) (hwn : ∀ p ∈ X.allPids, wNever (X.w p) = false)
    (hl : LeakFree X) (hapi : ∀ k, k < X.cfg.scripts.length → X.upc k = .api → (X.ucur k).isSome = true)
    (h4 : HolderInv4 (mKillNext X)) : LateInv (mKillNext X) := by
  cases hg : X.procDict.getLast? with
  | some q =>
    have e : mKillNext X = { X with procDict := X.procDict.dropLast, mpc := .kill q } := by
      unfold mKillNext; rw [hg]
    rw [e] at h4 ⊢
    refine ⟨rfl, fun e => (by cases e), ?_, fun p' e => (by cases e), hwn, hl, h4, hapi⟩
    intro r hr
    have hr' : r ∈ X.procDict := by rw [hreg]; exact hr
    rcases mem_dropLast_or_last _ _ _ hg hr' with e' | e'
    · exact .inr (.inl (by rw [e']; rfl))
    · exact .inl e'
  | none =>
    have hnil : X.procDict = [] := by simpa using hg
    have e : mKillNext X = { X with mpc := .jAcq1 } := by
      unfold mKillNext; rw [hg]; rfl
    rw [e] at h4 ⊢
    refine ⟨rfl, fun _ => hnil, ?_, fun p' e => (by cases e), hwn, hl, h4, hapi⟩
    intro r hr
    have hr' : r ∈ X.procDict := by rw [hreg]; exact hr
    rw [hnil] at hr'; cases hr'

/-- **the step that opens phase 2**: the manager leaves the lock section of `flag_executor_shutting_down` with the kill
    flag set -/
theorem lateInv_entry {s s' : St} {v : Variant} (hs : stepM s v = some s') (hm : s.mpc = .flagRel)
    (hk : s.killFlag = true) (hreg : s.procDict = s.allPids) (hwn : ∀ p ∈ s.allPids, wNever (s.w p) = false)
    (hl : LeakFree s) (h4 : HolderInv4 s)
    (hapi : ∀ k, k < s.cfg.scripts.length → s.upc k = .api → (s.ucur k).isSome = true) : LateInv s' := by
  have h4' : HolderInv4 s' :=
    holderInv4_stepM s s' v (relExitSafe_of_ne (fun ps n e => by rw [hm] at e; cases e)) h4 hs
  have e : s' = mKillNext (failAll { s with shut := s.shut + 1, oShut := none, pending := [] } s.pending .excShutdown) := by
    unfold stepM at hs
    rw [hm] at hs
    cases v <;> simp at hs
    rw [← hs]
    unfold mAfterFlag
    exact if_pos hk
  rw [e] at h4' ⊢
  exact lateInv_enter _ (by simpa [failAll] using hreg) (by simpa [failAll] using hwn) (by intro p; simpa [failAll] using hl p)
    (by simpa [failAll] using hapi) h4'

end LokyModel.Exec
