import LokyModel.Lemmas.ExecLiveDCPhase2M
import LokyModel.Lemmas.ExecLiveDCPhase2W
import LokyModel.Lemmas.ExecLiveDCPhase2U
import LokyModel.Lemmas.ExecLiveDCPhase2Pool
/-!
# Dynamic pools with worker deaths: `phase2` is absorbing, and a non-benign death enters it

* `phase2_step`: `phase2` (a registered worker is dead and un-announced, or the manager is on the broken path / in the
  kill loop / in its final phase, or the pool is flagged broken) is closed under EVERY step of M1: any actor, any
  variant, crashes of any worker at any program counter.
* `zombie_of_crash`: in phase 1, the crash of a worker at a lock-free point other than `xExit` (the benign death) leaves
  a zombie.

`P2.AnnInv` / `P2.PoolInv` are verbatim copies of `AnnInv` / `PoolInv` (`Lemmas/ExecAnn.lean`, `ExecPool.lean`) in the
namespace `P2` (see `ExecLiveDCPhase2Ann.lean` for why); they hold in every reachable state
(`P2.annInv_reachable`, `P2.poolInv_reachable`).
-/
namespace LokyModel.Exec

theorem p2_step {s s' : St} {a : Actor} {v : Variant} (hs : step s a v = some s')
    (hp : PidsInv s) (hts : TStartInv s) : P2Step s s' := by
  unfold step at hs
  cases a with
  | U k => simp only [] at hs; split at hs; exact p2_stepU s s' k v hp hts hs; cases hs
  | M => exact p2_stepM s s' v hp hs
  | F => exact p2_stepF s s' v hs
  | W p => simp only [] at hs; split at hs; exact p2_stepW s s' p v hs; cases hs

/-- **`phase2` is closed under every step** (any actor, any variant, crashes of any worker anywhere) -/
theorem phase2_step {s s' : St} {a : Actor} {v : Variant} (hs : step s a v = some s')
    (hp : PidsInv s) (hts : TStartInv s) (h : phase2 s = true) : phase2 s' = true :=
  phase2_of_p2step (p2_step hs hp hts) h

/-- the zombie itself is kept, up to the manager reaching the broken path / kill loop / final phase -/
theorem zombie_step {s s' : St} {a : Actor} {v : Variant} {z : Pid} (hs : step s a v = some s')
    (hp : PidsInv s) (hts : TStartInv s) (h : ZI s z) : ZI s' z ∨ late s'.mpc = true :=
  (p2_step hs hp hts).z z h

theorem dcHolds_mPid (pc : MPc) (z : Pid) (h : dcHolds pc z = true) : P2.mPid pc = some z := by
  unfold dcHolds at h
  split at h <;> first | (cases h; done) | (simp only [beq_iff_eq] at h; subst h; rfl)

theorem mPop_late (pc : MPc) (p : Pid) (h : P2.mPop pc = some p) : late pc = true := by
  cases pc <;> first | rfl | (simp [P2.mPop] at h; done)

/-- **a non-benign crash in phase 1 creates a zombie** -/
theorem zombie_of_crash {s s' : St} {p : Pid} (hs : step s (.W p) .crash = some s')
    (hlf : lockFree (s.w p) = true) (hx : s.w p ≠ .xExit) (hwn : wNeverD (s.w p) = false)
    (hpool : P2.PoolInv s) (hann : P2.AnnInv s) (h1 : phase2 s = false) : zombie s' = true := by
  unfold step at hs
  simp only [] at hs
  split at hs
  · rename_i hin
    -- the victim was alive and not exiting; the step is `die`
    have e : s' = die s p (-9) := by
      unfold stepW at hs
      split at hs <;> simp_all
    have hna : P2.annPc (s.w p) = false := by
      cases hw : s.w p <;> first
        | rfl
        | (exact absurd hw hx)
        | (rw [hw] at hlf; simp [lockFree, inRqW, inCqR] at hlf; done)
        | (rw [hw] at hwn; simp [wNeverD] at hwn; done)
        | (exfalso; unfold stepW at hs; simp [hw] at hs; done)
    subst e
    -- phase 1: the manager is not late, nobody is a zombie
    have hl : late s.mpc = false := by
      cases hb : late s.mpc with
      | false => rfl
      | true => rw [(phase2_iff s).2 (.inr (.inl hb))] at h1; cases h1
    have hreg : p ∈ s.procDict := by
      rcases hpool.pre p hin hna with e | e
      · exact e
      · rw [mPop_late _ _ e] at hl; cases hl
    rw [zombie_iff]
    refine ⟨p, hreg, by simp [die, upd], ?_, ?_⟩
    · intro r hr e
      subst e
      have := (hann.rq _ p hr rfl).1
      rw [hna] at this; cases this
    · cases hb : dcHolds (die s p (-9)).mpc p with
      | false => rfl
      | true =>
        have := (hann.m p (dcHolds_mPid _ _ hb)).1
        rw [hna] at this; cases this
  · cases hs

end LokyModel.Exec
