import LokyModel.Lemmas.ExecLiveMeasureBase
/-! `mu` decreases: steps of the executor manager thread. -/
namespace LokyModel.Exec
set_option linter.unusedSimpArgs false

/-! ### what the continuations do to `muM` -/

theorem joinR_lt (B : Nat) : joinR B < waitR B := by unfold waitR; omega

theorem mAddFuel_le (n : Nat) (X : St) : muM (mAddFuel n X) ≤ muM { X with mpc := .wait [] } := by
  induction n generalizing X with
  | zero => simp [mAddFuel, muM, mRank, mRankOf]
  | succ n ih =>
    unfold mAddFuel
    split
    · simp [muM, mRank, mRankOf]
    · split
      · simp [muM, mRank, mRankOf]
      · split
        · refine Nat.le_trans (ih _) ?_
          simp [muM, mRank, mRankOf, *]
          omega
        · simp [muM, mRank, mRankOf, setFut, *]
          omega

theorem mAdd_le (X : St) : muM (mAdd X) ≤ muM { X with mpc := .wait [] } := mAddFuel_le _ _

theorem mAfterAddF_le (Y : St) : muM (mAfterAddF Y) ≤ muM Y := by
  unfold mAfterAddF
  (repeat' split) <;> simp_all [muM, mRank, mRankOf, mJoinStart]
  have := joinR_lt Y.cfg.maxWorkers
  omega

theorem mAddF_le (X : St) : muM (mAddF X) ≤ muM { X with mpc := .wait [] } :=
  Nat.le_trans (mAfterAddF_le _) (mAdd_le X)

theorem mAfterItem_le (X : St) : muM (mAfterItem X) ≤ muM { X with mpc := .flagAcq } := by
  unfold mAfterItem
  split
  · exact Nat.le_refl _
  · refine Nat.le_trans (mAdd_le X) ?_
    simp [muM, mRank, mRankOf]

theorem mProcess_le (X : St) (r : Option RMsg) : muM (mProcess X r) ≤ muM { X with mpc := .flagAcq } := by
  cases r with
  | none => exact mAfterItem_le X
  | some r =>
    cases r with
    | rtb => exact mAfterItem_le X
    | pid p => simp [mProcess, muM, mRank, mRankOf]
    | res i e b =>
      simp only [mProcess]
      split
      · refine Nat.le_trans (mAfterItem_le _) ?_
        simp [muM, mRank, mRankOf, setFut]
      · exact mAfterItem_le X

theorem mAfterFlag_le (X : St) : muM (mAfterFlag X) ≤ muM { X with mpc := .wait [] } := by
  have := joinR_lt X.cfg.maxWorkers
  unfold mAfterFlag
  (repeat' split)
  · unfold mKillNext
    split <;> simp [muM, mRank, mRankOf, mJoinStart, failAll] <;> omega
  · simp [muM, mRank, mRankOf, mJoinStart]; omega
  · exact mAddF_le X

theorem mJoinClose_le (X : St) : muM (mJoinClose X) ≤ muM { X with mpc := .jShutAcq } + 20 := by
  unfold mJoinClose
  simp only []
  split <;> simp [muM, mRank, mRankOf] <;> omega

theorem mJoinLoop_le (X : St) (n sent cool : Nat) :
    muM (mJoinLoop X n sent cool) ≤ muM { X with mpc := .jAliveAcq n sent cool } := by
  unfold mJoinLoop
  split
  · exact Nat.le_refl _
  · refine Nat.le_trans (mJoinClose_le X) ?_
    simp [muM, mRank, mRankOf, tailR]
    omega

theorem mAfterPut_le (X : St) (k n sent cool : Nat) :
    muM (mAfterPut X k n sent cool) ≤ muM { X with mpc := .jAliveAcq n (sent + 1) cool } := by
  unfold mAfterPut
  split
  · exact mJoinLoop_le X n (sent + 1) cool
  · simp [muM, mRank, mRankOf]
    omega

theorem mRelExitNext_le (X : St) (ps : List Pid) (n : Nat) :
    muM (mRelExitNext X ps n) ≤ muM { X with mpc := .jRelExit ps n } := by
  unfold mRelExitNext
  split <;> simp [muM, mRank, mRankOf]

theorem mAliveNext_le (X : St) (ps : List Pid) (cnt n sent cool : Nat) :
    muM (mAliveNext X ps cnt n sent cool) ≤ muM { X with mpc := .jAlive ps cnt n sent cool } := by
  unfold mAliveNext
  split <;> simp [muM, mRank, mRankOf]

theorem mJoinProcs_le (X : St) : muM (mJoinProcs X) + 1 ≤ muM { X with mpc := .jJoin 0 } := by
  unfold mJoinProcs
  split
  · rename_i p hp
    have : X.procDict ≠ [] := by intro e; simp [e] at hp
    have : 0 < X.procDict.length := List.length_pos_iff.2 this
    simp [muM, mRank, mRankOf]
    omega
  · simp [muM, mRank, mRankOf]
    omega

end LokyModel.Exec
