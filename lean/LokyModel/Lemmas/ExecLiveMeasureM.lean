import LokyModel.Lemmas.ExecLiveMeasureBase
/-! `mu` decreases: steps of the executor manager thread. -/
namespace LokyModel.Exec
set_option linter.unusedSimpArgs false

/-! ### what the continuations do to `muM` -/

theorem joinR_lt (B : Nat) : joinR B < waitR B := by unfold waitR; omega

theorem mAddFuel_le (n : Nat) (X : St) : muM (mAddFuel n X) ≤ muM { X with mpc := .wait [] } := by
  induction n generalizing X with
  | zero => simp [mAddFuel, muM, mRank, mRankOf]
  | succ n ih =>
    unfold mAddFuel
    split
    · simp [muM, mRank, mRankOf]
    · split
      · simp [muM, mRank, mRankOf]
      · split
        · refine Nat.le_trans (ih _) ?_
          simp [muM, mRank, mRankOf, *]
          omega
        · simp [muM, mRank, mRankOf, setFut, *]
          omega

theorem mAdd_le (X : St) : muM (mAdd X) ≤ muM { X with mpc := .wait [] } := mAddFuel_le _ _

theorem mAfterAddF_le (Y : St) : muM (mAfterAddF Y) ≤ muM Y := by
  unfold mAfterAddF
  (repeat' split) <;> simp_all [muM, mRank, mRankOf, mJoinStart]
  have := joinR_lt Y.cfg.maxWorkers
  omega

theorem mAddF_le (X : St) : muM (mAddF X) ≤ muM { X with mpc := .wait [] } :=
  Nat.le_trans (mAfterAddF_le _) (mAdd_le X)

theorem mAfterItem_le (X : St) : muM (mAfterItem X) ≤ muM { X with mpc := .flagAcq } := by
  unfold mAfterItem
  split
  · exact Nat.le_refl _
  · refine Nat.le_trans (mAdd_le X) ?_
    simp [muM, mRank, mRankOf]

theorem mProcess_le (X : St) (r : Option RMsg) : muM (mProcess X r) ≤ muM { X with mpc := .flagAcq } := by
  cases r with
  | none => exact mAfterItem_le X
  | some r =>
    cases r with
    | rtb => exact mAfterItem_le X
    | pid p => simp [mProcess, muM, mRank, mRankOf]
    | res i e b =>
      simp only [mProcess]
      split
      · refine Nat.le_trans (mAfterItem_le _) ?_
        simp [muM, mRank, mRankOf, setFut]
      · exact mAfterItem_le X

theorem mAfterFlag_le (X : St) : muM (mAfterFlag X) ≤ muM { X with mpc := .wait [] } := by
  have := joinR_lt X.cfg.maxWorkers
  unfold mAfterFlag
  (repeat' split)
  · unfold mKillNext
    split <;> simp [muM, mRank, mRankOf, mJoinStart, failAll] <;> omega
  · simp [muM, mRank, mRankOf, mJoinStart]; omega
  · exact mAddF_le X

theorem mJoinClose_le (X : St) : muM (mJoinClose X) ≤ muM { X with mpc := .jShutAcq } + 20 := by
  unfold mJoinClose
  simp only []
  split <;> simp [muM, mRank, mRankOf] <;> omega

theorem mJoinLoop_le (X : St) (n sent cool : Nat) :
    muM (mJoinLoop X n sent cool) ≤ muM { X with mpc := .jAliveAcq n sent cool } := by
  unfold mJoinLoop
  split
  · exact Nat.le_refl _
  · refine Nat.le_trans (mJoinClose_le X) ?_
    simp [muM, mRank, mRankOf, tailR]
    omega

theorem mAfterPut_le (X : St) (k n sent cool : Nat) :
    muM (mAfterPut X k n sent cool) ≤ muM { X with mpc := .jAliveAcq n (sent + 1) cool } := by
  unfold mAfterPut
  split
  · exact mJoinLoop_le X n (sent + 1) cool
  · simp [muM, mRank, mRankOf]
    omega

theorem mRelExitNext_le (X : St) (ps : List Pid) (n : Nat) :
    muM (mRelExitNext X ps n) ≤ muM { X with mpc := .jRelExit ps n } := by
  unfold mRelExitNext
  split <;> simp [muM, mRank, mRankOf]

theorem mAliveNext_le (X : St) (ps : List Pid) (cnt n sent cool : Nat) :
    muM (mAliveNext X ps cnt n sent cool) ≤ muM { X with mpc := .jAlive ps cnt n sent cool } := by
  unfold mAliveNext
  split <;> simp [muM, mRank, mRankOf]

theorem mJoinProcs_le (X : St) : muM (mJoinProcs X) + 1 ≤ muM { X with mpc := .jJoin 0 } := by
  unfold mJoinProcs
  split
  · rename_i p hp
    have : X.procDict ≠ [] := by intro e; simp [e] at hp
    have : 0 < X.procDict.length := List.length_pos_iff.2 this
    simp [muM, mRank, mRankOf]
    omega
  · simp [muM, mRank, mRankOf]
    omega

/-! ### the step

Needed about the state: the manager is not at a program counter that a static pool never reaches (`mNever`); at most
`max_workers` processes are registered; `joinOk` (inside `shutdown_workers` the counter `k` of sentinels still to put is
`n - sent > 0`); a thread about to start the feeder thread has found that there is none.  The continuations are made
irreducible so that the search for the applicable bound fails fast. -/

attribute [local irreducible] mAdd mAddF mAfterItem mProcess mAfterFlag mJoinLoop mRelExitNext mAliveNext mJoinClose
  muM mu mJoinProcs mAfterPut mKillNext mSpawnLoop mRespawnCheck mDropRef mAfterAddF mJoinStart spawn die failAll setFut

local macro "mb" t:term : tactic =>
  `(tactic| (refine Nat.lt_of_le_of_lt $t ?_; simp [muM, mRank, mRankOf, *] <;> omega))

set_option maxHeartbeats 8000000 in
theorem mu_stepM (s s' : St) (v : Variant) (hmn : mNever s.mpc = false) (hle : s.procDict.length ≤ s.cfg.maxWorkers)
    (hj : joinOk s = true) (hts : mSlot s.mpc ≠ 0 → s.fpc = .none) (hs : stepM s v = some s') : mu s' < mu s := by
  have hR := joinR_lt s.cfg.maxWorkers
  have hW : 30 ≤ waitR s.cfg.maxWorkers := by unfold waitR joinR tailR; omega
  have hT : tailR s.cfg.maxWorkers = s.cfg.maxWorkers + 26 := rfl
  unfold stepM at hs
  crack
  all_goals (first
    | (exfalso; simp_all [mNever]; done)
    | (refine mu_M s _ ?_ ?_ ?_ ?_ ?_ ?_ ?_))
  all_goals (first
    | (simp; done)
    | (simp [muM, mRank, mRankOf, *]; done)
    | (simp [muM, mRank, mRankOf, *]; omega)
    | (mb (mAdd_le _); done)
    | (mb (mAddF_le _); done)
    | (mb (mAfterItem_le _); done)
    | (mb (mProcess_le _ _); done)
    | (mb (mAfterFlag_le _); done)
    | (mb (mJoinLoop_le _ _ _ _); done)
    | (mb (mRelExitNext_le _ _ _); done)
    | (mb (mAliveNext_le _ _ _ _ _ _); done)
    | (mb (mJoinClose_le _); done)
    | skip)
  all_goals (first
    -- the feeder thread is started: it did not exist
    | (have hf : s.fpc = .none := hts (by simp [mSlot, *])
       first
         | (refine Nat.lt_of_le_of_lt (mAdd_le _) ?_; simp [muM, mRank, mRankOf, fRank, *] <;> omega)
         | (refine Nat.lt_of_le_of_lt (mAddF_le _) ?_; simp [muM, mRank, mRankOf, fRank, *] <;> omega)
         | (refine Nat.lt_of_le_of_lt (mAfterPut_le _ _ _ _ _) ?_
            simp [muM, mRank, mRankOf, fRank, *]
            simp [joinOk, mFinal, *] at hj
            rename_i k n sent cool _
            have := psi_sent s.cfg.maxWorkers n sent cool (by omega)
            omega))
    -- `wait` left on a wake-up byte alone; `thread_wakeup.clear()`
    | (have hw : s.wakeup ≠ 0 := by omega
       simp [muM, mRank, mRankOf, *] <;> omega)
    | (have hw : s.wakeup ≠ 0 := by omega
       cases ‹AfterClear› with
       | broken b => exfalso; simp_all [mNever]
       | item r =>
         cases r <;> simp [muM, mRank, mRankOf, *] <;> (try split) <;> omega)
    | (cases ‹Option RMsg› <;> mb (mProcess_le _ _) <;> done)
    | (refine Nat.lt_of_lt_of_le (Nat.lt_of_succ_le (mJoinProcs_le _)) ?_
       simp [muM, mRank, mRankOf, *] <;> omega)
    | skip)
  case h_28.isTrue.refl.refine_7 =>
    refine Nat.lt_of_le_of_lt (mRelExitNext_le _ _ _) ?_
    simp [muM, mRank, mRankOf, *]
    have := psi_mono s.cfg.maxWorkers _ _ hle
    unfold joinR
    omega
  case h_29.isFalse.refl.refine_7 =>
    refine Nat.lt_of_le_of_lt (mRelExitNext_le _ _ _) ?_
    simp [muM, mRank, mRankOf, *]
    rename_i rest n _ _
    have e : n + 1 + rest.length = n + (rest.length + 1) := by omega
    rw [e]
    omega
  case h_34.isTrue.isFalse.refl.refine_7 =>
    refine Nat.lt_of_le_of_lt (mAfterPut_le _ _ _ _ _) ?_
    simp [muM, mRank, mRankOf, *]
    simp [joinOk, mFinal, *] at hj
    rename_i k n sent cool _ _ _
    have := psi_sent s.cfg.maxWorkers n sent cool (by omega)
    omega
  case h_35.isTrue.isFalse.refl.refine_7 =>
    simp [muM, mRank, mRankOf, *]
    rename_i k n sent cool _ _ _
    have := psi_cool s.cfg.maxWorkers n sent cool (by omega)
    omega

end LokyModel.Exec
