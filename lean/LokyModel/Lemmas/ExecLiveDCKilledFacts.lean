import LokyModel.ExecLiveDCDef
/-! What `dcKilled` (the broken path of a dynamic pool whose workers may die at lock-free points) says, in Prop form: the
    broken flag is raised together with the shutdown flag by a manager that never goes back to its main loop; the manager
    waits only for a worker it has killed; in the final phase of a pool flagged broken the registry is empty and the manager
    joins nobody.  Import-light (the definition file only) so that the quiescence proof can import it early. -/
namespace LokyModel.Exec

/-- Prop form of `dcKilled` -/
structure DK (s : St) : Prop where
  flag : s.broken.isSome = true → s.shutdownFlag = true
  late : s.broken.isSome = true → mBrkLate s.mpc = true
  kj : ∀ p, s.mpc = .killJoin p → s.w p = .dead
  mem : ∀ p, s.mpc = .kill p ∨ s.mpc = .killJoin p → p ∈ s.allPids
  fin : s.broken.isSome = true → mFinal s.mpc = true → s.procDict = [] ∧ ∀ p, s.mpc ≠ .jJoin p

theorem dk_of_bool (s : St) (h : dcKilled s = true) : DK s := by
  unfold dcKilled at h
  simp only [Bool.and_eq_true, Bool.or_eq_true] at h
  obtain ⟨⟨⟨h1, h2⟩, h3⟩, h4⟩ := h
  have hb : s.broken.isSome = true → s.shutdownFlag = true ∧ mBrkLate s.mpc = true := by
    intro hb
    rcases h1 with h1 | h1
    · cases hq : s.broken <;> simp [hq] at h1 hb
    · exact h1
  refine ⟨fun hb' => (hb hb').1, fun hb' => (hb hb').2, ?_, ?_, ?_⟩
  · intro p hm
    simpa [hm] using h2
  · intro p hm
    rcases hm with hm | hm <;> simpa [hm] using h3
  · intro hb' hf
    rcases h4 with (h4 | h4) | h4
    · cases hq : s.broken <;> simp [hq] at h4 hb'
    · simp [hf] at h4
    · refine ⟨by simpa using h4.1, ?_⟩
      intro p hm
      simp [hm] at h4

theorem bool_of_dk (s : St) (h : DK s) : dcKilled s = true := by
  obtain ⟨h1, h2, h3, h4, h5⟩ := h
  unfold dcKilled
  simp only [Bool.and_eq_true, Bool.or_eq_true]
  refine ⟨⟨⟨?_, ?_⟩, ?_⟩, ?_⟩
  · cases hq : s.broken with
    | none => left; rfl
    | some b => right; exact ⟨h1 (by simp [hq]), h2 (by simp [hq])⟩
  · split
    · rename_i p hm
      simpa using h3 p hm
    · rfl
  · split
    · rename_i p hm
      simpa using h4 p (.inl hm)
    · rename_i p hm
      simpa using h4 p (.inr hm)
    · rfl
  · cases hq : s.broken with
    | none => left; left; rfl
    | some b =>
      cases hm : mFinal s.mpc with
      | false => left; right; rfl
      | true =>
        right
        obtain ⟨e1, e2⟩ := h5 (by simp [hq]) hm
        refine ⟨by simp [e1], ?_⟩
        split
        · rename_i p hp; exact absurd hp (e2 p)
        · rfl

/-- the broken flag is raised together with the shutdown flag, by a manager that is from then on at `brkRel`, in the kill
    loop or in its final phase -/
theorem dcKilled_broken (s : St) (h : dcKilled s = true) (hb : s.broken.isSome = true) :
    s.shutdownFlag = true ∧ mBrkLate s.mpc = true :=
  ⟨(dk_of_bool s h).flag hb, (dk_of_bool s h).late hb⟩

/-- the manager waits for a worker it has killed -/
theorem dcKilled_kj (s : St) (h : dcKilled s = true) (p : Pid) (hm : s.mpc = .killJoin p) : s.w p = .dead :=
  (dk_of_bool s h).kj p hm

/-- the final phase of a pool flagged broken: the kill loop has emptied the registry, nobody is left to join -/
theorem dcKilled_final (s : St) (h : dcKilled s = true) (hb : s.broken.isSome = true) (hf : mFinal s.mpc = true) :
    s.procDict = [] ∧ ∀ p, s.mpc ≠ .jJoin p :=
  (dk_of_bool s h).fin hb hf

end LokyModel.Exec
