import LokyModel.Lemmas.ExecLiveDCKilledW
import LokyModel.Lemmas.ExecLiveDCKilledM
import LokyModel.Lemmas.ExecLiveDCKilledU
/-!
# `dcKilled` is an inductive invariant (dynamic pools included) along runs with worker deaths

"The broken flag is raised together with the shutdown flag by a manager that never goes back to its main loop; the manager
waits only for a worker it has killed, which was spawned; in the final phase of a pool flagged broken the registry is empty
and nobody is joined."  The only facts about the pre-state that the induction step uses are `ShutInv` (an accepted `submit`
holds `shutdown_lock` with the shutdown flag unset, so nobody spawns onto — or starts the manager thread of — a pool that
is flagged; the manager is in the kill loop only with the flag raised) and `PidsInv.reg` (a registered worker was spawned).
The step holds for every variant and every configuration: `StepLF` and `dcSmall` are in the statement for uniformity with the
other ingredients only (`kill_workers=True` would be harmless here: the kill loop pops registered workers whoever started it).
-/
namespace LokyModel.Exec

theorem dk_init (cfg : Cfg) : DK (init cfg) := by
  refine ⟨?_, ?_, ?_, ?_, ?_⟩ <;> simp [init]

theorem dcKilled_init (cfg : Cfg) : dcKilled (init cfg) = true := bool_of_dk _ (dk_init cfg)

/-- the induction step in Prop form, any actor, any variant -/
theorem dk_step {s s' : St} {a : Actor} {v : Variant} (hs : step s a v = some s') (hp : PidsInv s) (hsh : ShutInv s)
    (h : DK s) : DK s' := by
  unfold step at hs
  cases a with
  | U k => simp only [] at hs; split at hs; exact dk_stepU s s' k v h hsh hs; cases hs
  | M => exact dk_stepM s s' v h hp hs
  | F => exact dk_stepF s s' v h hs
  | W p => simp only [] at hs; split at hs; exact dk_stepW s s' p v h hs; cases hs

theorem dcKilled_stepLF {s s' : St} {a : Actor} {v : Variant} (hs : step s a v = some s') (_hlf : StepLF s a v)
    (hp : PidsInv s) (hsh : ShutInv s) (_hsm : dcSmall s = true) (h : dcKilled s = true) : dcKilled s' = true :=
  bool_of_dk s' (dk_step hs hp hsh (dk_of_bool s h))

end LokyModel.Exec
