import LokyModel.Lemmas.ExecLiveCrashHolderBase
import LokyModel.Lemmas.ExecLiveKSim
/-!
# Lock holders once the manager kills workers wherever they are: the four locks of the parent's threads

`HolderInv4` is `HolderInvC` (`ExecLiveCrashHolderBase.lean`) without its two guarded fields about the locks that only workers
take (the call queue's read lock, the result queue's write lock) and without the claim that the kill loop runs only on a
pool flagged broken.  It is inductive over EVERY step of a pool whose workers never touch the process-management lock
(`wNever`: no idle time-out) and whose manager never dies of `ValueError` inside `join_executor_internals`
(`RelExitSafe`) — the manager's `kill` included, whatever the victim holds, and crashes of workers anywhere.
-/
namespace LokyModel.Exec

structure HolderInv4 (s : St) : Prop where
  cqW : LockOk s.cqWlock s.oCqWlock (secCqW s)
  gshut : LockOk s.gshut s.oGshut (secGshut s)
  mgmt : LockOk s.mgmt s.oMgmt (secMgmtC s)
  shut : LockOk s.shut s.oShut (secShut s)
  tstart : mTStart s.mpc = true → s.fpc = .none

theorem holderInv4_of_C {s : St} (h : HolderInvC s) : HolderInv4 s := ⟨h.cqW, h.gshut, h.mgmt, h.shut, h.tstart⟩

/-! ### forgetting `kill_workers` does not move anybody into or out of a critical section -/

theorem inGshutU_unkill (pc : UPc) : inGshutU pc.unkill = inGshutU pc := by cases pc <;> rfl
theorem inMgmtU'_unkill (pc : UPc) : inMgmtU' pc.unkill = inMgmtU' pc := by cases pc <;> rfl
theorem inShutU'_unkill (pc : UPc) : inShutU' pc.unkill = inShutU' pc := by cases pc <;> rfl

theorem secGshut_unkill (s : St) : secGshut s.unkill = secGshut s := by
  funext a; cases a <;> simp only [secGshut]
  rw [unkill_scripts_length]; exact congrArg (· && _) (inGshutU_unkill _)
theorem secMgmtC_unkill (s : St) : secMgmtC s.unkill = secMgmtC s := by
  funext a; cases a <;> simp only [secMgmtC]
  · rw [unkill_scripts_length]; exact congrArg (· && _) (inMgmtU'_unkill _)
  · rfl
theorem secShut_unkill (s : St) : secShut s.unkill = secShut s := by
  funext a; cases a <;> simp only [secShut]
  · rw [unkill_scripts_length]; exact congrArg (· && _) (inShutU'_unkill _)
  · rfl
  · rfl

theorem holderInv4_of_unkill {s : St} (h : HolderInv4 s.unkill) : HolderInv4 s := by
  obtain ⟨h1, h2, h3, h4, h5⟩ := h
  rw [secGshut_unkill] at h2
  rw [secMgmtC_unkill] at h3
  rw [secShut_unkill] at h4
  exact ⟨h1, h2, h3, h4, h5⟩

/-! ### assembling the invariant after a step of one actor -/

theorem holderInv4_F {s s' : St} (h : HolderInv4 s) (hne : s.fpc ≠ .none)
    (hupc : s'.upc = s.upc) (hmpc : s'.mpc = s.mpc) (hcfg : s'.cfg = s.cfg)
    (g1 : s'.gshut = s.gshut) (g2 : s'.oGshut = s.oGshut)
    (m1 : s'.mgmt = s.mgmt) (m2 : s'.oMgmt = s.oMgmt)
    (t1 : Tri s.cqWlock s'.cqWlock s.oCqWlock s'.oCqWlock .F (inCqWF s.fpc) (inCqWF s'.fpc))
    (t2 : Tri s.shut s'.shut s.oShut s'.oShut .F (inShutF' s.fpc) (inShutF' s'.fpc)) : HolderInv4 s' := by
  obtain ⟨h3, h4, h5, h6, h7⟩ := h
  refine ⟨?_, ?_, ?_, ?_, ?_⟩
  · exact h3.tri .F (by intro b hb; cases b <;> simp_all [secCqW]) (by simpa [secCqW] using t1)
  · rw [g1, g2]; exact h4.same (by intro b; cases b <;> simp [secGshut, hupc, hcfg])
  · rw [m1, m2]; exact h5.same (by intro b; cases b <;> simp [secMgmtC, hupc, hcfg, hmpc])
  · exact h6.tri .F (by intro b hb; cases b <;> simp_all [secShut]) (by simpa [secShut] using t2)
  · intro ht; rw [hmpc] at ht; exact absurd (h7 ht) hne

theorem holderInv4_W {s s' : St} (h : HolderInv4 s)
    (hupc : s'.upc = s.upc) (hmpc : s'.mpc = s.mpc) (hfpc : s'.fpc = s.fpc) (hcfg : s'.cfg = s.cfg)
    (c1 : s'.cqWlock = s.cqWlock) (c2 : s'.oCqWlock = s.oCqWlock)
    (g1 : s'.gshut = s.gshut) (g2 : s'.oGshut = s.oGshut)
    (m1 : s'.shut = s.shut) (m2 : s'.oShut = s.oShut)
    (n1 : s'.mgmt = s.mgmt) (n2 : s'.oMgmt = s.oMgmt) : HolderInv4 s' := by
  obtain ⟨h3, h4, h5, h6, h7⟩ := h
  refine ⟨?_, ?_, ?_, ?_, ?_⟩
  · rw [c1, c2]; exact h3.same (by intro b; cases b <;> simp [secCqW, hfpc])
  · rw [g1, g2]; exact h4.same (by intro b; cases b <;> simp [secGshut, hupc, hcfg])
  · rw [n1, n2]; exact h5.same (by intro b; cases b <;> simp [secMgmtC, hupc, hcfg, hmpc])
  · rw [m1, m2]; exact h6.same (by intro b; cases b <;> simp [secShut, hupc, hcfg, hmpc, hfpc])
  · rw [hmpc, hfpc]; exact h7

theorem holderInv4_M {s s' : St} (h : HolderInv4 s) (hupc : s'.upc = s.upc) (hcfg : s'.cfg = s.cfg)
    (hfpc : s'.fpc = s.fpc ∨ (mTStart s.mpc = true ∧ s'.fpc = .start))
    (d1 : s'.cqWlock = s.cqWlock) (d2 : s'.oCqWlock = s.oCqWlock)
    (g1 : s'.gshut = s.gshut) (g2 : s'.oGshut = s.oGshut)
    (t1 : Tri s.mgmt s'.mgmt s.oMgmt s'.oMgmt .M (inMgmtM' s.mpc) (inMgmtM' s'.mpc))
    (t2 : Tri s.shut s'.shut s.oShut s'.oShut .M (inShutM' s.mpc) (inShutM' s'.mpc))
    (ht : mTStart s'.mpc = true → s'.fpc = .none) : HolderInv4 s' := by
  obtain ⟨h3, h4, h5, h6, h7⟩ := h
  have hf1 : inCqWF s'.fpc = inCqWF s.fpc := by
    rcases hfpc with e | ⟨e1, e2⟩
    · rw [e]
    · rw [e2, h7 e1]; rfl
  have hf2 : inShutF' s'.fpc = inShutF' s.fpc := by
    rcases hfpc with e | ⟨e1, e2⟩
    · rw [e]
    · rw [e2, h7 e1]; rfl
  refine ⟨?_, ?_, ?_, ?_, ht⟩
  · rw [d1, d2]; exact h3.same (by intro b; cases b <;> simp [secCqW, hf1])
  · rw [g1, g2]; exact h4.same (by intro b; cases b <;> simp [secGshut, hupc, hcfg])
  · refine h5.tri .M ?_ (by simpa [secMgmtC] using t1)
    intro b hb; cases b <;> simp_all [secMgmtC]
  · refine h6.tri .M ?_ (by simpa [secShut] using t2)
    intro b hb; cases b <;> simp_all [secShut]

theorem holderInv4_U {s s' : St} (h : HolderInv4 s) (k : Nat) (hk : k < s.cfg.scripts.length)
    (hupc : ∀ j, j ≠ k → s'.upc j = s.upc j) (hfpc : s'.fpc = s.fpc) (hcfg : s'.cfg = s.cfg)
    (hmpc : s'.mpc = s.mpc ∨ (inMgmtU' (s.upc k) = true ∧ inShutU' (s.upc k) = true ∧ s'.mpc = .start))
    (d1 : s'.cqWlock = s.cqWlock) (d2 : s'.oCqWlock = s.oCqWlock)
    (t1 : Tri s.gshut s'.gshut s.oGshut s'.oGshut (.U k) (inGshutU (s.upc k)) (inGshutU (s'.upc k)))
    (t2 : Tri s.mgmt s'.mgmt s.oMgmt s'.oMgmt (.U k) (inMgmtU' (s.upc k)) (inMgmtU' (s'.upc k)))
    (t3 : Tri s.shut s'.shut s.oShut s'.oShut (.U k) (inShutU' (s.upc k)) (inShutU' (s'.upc k))) : HolderInv4 s' := by
  obtain ⟨h3, h4, h5, h6, h7⟩ := h
  have hm1 : inMgmtM' s'.mpc = inMgmtM' s.mpc := by
    rcases hmpc with e | ⟨e1, e2, e3⟩
    · rw [e]
    · rw [e3]
      cases hb : inMgmtM' s.mpc with
      | false => rfl
      | true =>
        have x := h5.excl .M (by simpa [secMgmtC] using hb)
        have y := h5.excl (.U k) (by simp [secMgmtC, e1, hk])
        rw [x] at y; cases y
  have hm2 : inShutM' s'.mpc = inShutM' s.mpc := by
    rcases hmpc with e | ⟨e1, e2, e3⟩
    · rw [e]
    · rw [e3]
      cases hb : inShutM' s.mpc with
      | false => rfl
      | true =>
        have x := h6.excl .M (by simpa [secShut] using hb)
        have y := h6.excl (.U k) (by simp [secShut, e2, hk])
        rw [x] at y; cases y
  have hu : ∀ (f : UPc → Bool) (j : Nat), j ≠ k →
      (f (s'.upc j) && decide (j < s'.cfg.scripts.length)) = (f (s.upc j) && decide (j < s.cfg.scripts.length)) := by
    intro f j hj; rw [hupc j hj, hcfg]
  refine ⟨?_, ?_, ?_, ?_, ?_⟩
  · rw [d1, d2]; exact h3.same (by intro b; cases b <;> simp [secCqW, hfpc])
  · refine h4.tri (.U k) ?_ (by simpa [secGshut, hk, hcfg] using t1)
    intro b hb; cases b <;> simp only [secGshut]
    rename_i j; exact hu _ j (by simpa using hb)
  · refine h5.tri (.U k) ?_ (by simpa [secMgmtC, hk, hcfg] using t2)
    intro b hb; cases b <;> simp only [secMgmtC, hm1]
    rename_i j; exact hu _ j (by simpa using hb)
  · refine h6.tri (.U k) ?_ (by simpa [secShut, hk, hcfg] using t3)
    intro b hb; cases b <;> simp only [secShut, hm2, hfpc]
    rename_i j; exact hu _ j (by simpa using hb)
  · intro ht
    rcases hmpc with e | ⟨_, _, e3⟩
    · rw [e] at ht; rw [hfpc]; exact h7 ht
    · rw [e3] at ht; cases ht

/-! ### the steps -/

set_option maxHeartbeats 4000000 in
theorem holderInv4_stepF (s s' : St) (v : Variant) (h : HolderInv4 s) (hs : stepF s v = some s') : HolderInv4 s' := by
  unfold stepF at hs
  crack
  all_goals (refine holderInv4_F h ?_ ?_ ?_ ?_ ?_ ?_ ?_ ?_ ?_ ?_)
  all_goals (first
    | rfl
    | (simp [*]; done)
    | (hpc; simp [Tri, inCqWF, inShutF', *]; done))

set_option maxHeartbeats 4000000 in
/-- a worker's step — its death included, wherever it is: a worker of a pool without idle time-outs (`wNever`) is never at
    `eTry`/`eRel`, the only places at which a worker touches a lock of the parent's threads -/
theorem holderInv4_stepW (s s' : St) (p : Pid) (v : Variant) (hwn : wNever (s.w p) = false) (h : HolderInv4 s)
    (hs : stepW s p v = some s') : HolderInv4 s' := by
  unfold stepW at hs
  crack
  all_goals (first
    | (exfalso; simp_all [wNever]; done)
    | skip)
  all_goals (refine holderInv4_W h ?_ ?_ ?_ ?_ ?_ ?_ ?_ ?_ ?_ ?_ ?_ ?_)
  all_goals (first
    | rfl
    | (simp; done))

set_option maxHeartbeats 8000000 in
/-- the manager's step: its `kill` may hit a worker inside the section of a queue lock — nothing is claimed about those -/
theorem holderInv4_stepM (s s' : St) (v : Variant) (hr : RelExitSafe s) (h : HolderInv4 s)
    (hs : stepM s v = some s') : HolderInv4 s' := by
  unfold stepM at hs
  crack
  all_goals (refine holderInv4_M h ?_ ?_ ?_ ?_ ?_ ?_ ?_ ?_ ?_ ?_)
  all_goals (first
    | rfl
    | (simp; done)
    | (exfalso; have := hr _ _ _ (by assumption); omega)
    | (hpc; simp [Tri, inMgmtM', inShutM', mTStart, *]; done))

set_option maxHeartbeats 8000000 in
theorem holderInv4_stepU (s s' : St) (k : Nat) (v : Variant) (hk : k < s.cfg.scripts.length)
    (h : HolderInv4 s) (hs : stepU s k v = some s') : HolderInv4 s' := by
  unfold stepU at hs
  crack
  all_goals (refine holderInv4_U h k hk ?_ ?_ ?_ ?_ ?_ ?_ ?_ ?_ ?_)
  all_goals (first
    | rfl
    | (simp; done)
    | (intro j hj; simp [setU_upc_other, uNext_upc_other_holder, uRelease_upc_other_holder, uSpawnLoop_upc_other_holder, uDispatch_upc_other_holder, hj]; done)
    | (hpc; simp [Tri, inGshutU, inMgmtU', inShutU', *]; done))

/-- **the four locks of the parent's threads, over any step** of a pool whose workers never touch them -/
theorem holderInv4_step {s s' : St} {a : Actor} {v : Variant} (hs : step s a v = some s')
    (hwn : ∀ p ∈ s.allPids, wNever (s.w p) = false) (hr : RelExitSafe s) (h : HolderInv4 s) : HolderInv4 s' := by
  unfold step at hs
  cases a with
  | U k =>
    simp only [] at hs; split at hs
    · exact holderInv4_stepU s s' k v (by assumption) h hs
    · cases hs
  | M => exact holderInv4_stepM s s' v hr h hs
  | F => exact holderInv4_stepF s s' v h hs
  | W p =>
    simp only [] at hs; split at hs
    · exact holderInv4_stepW s s' p v (hwn p (by assumption)) h hs
    · cases hs

end LokyModel.Exec
