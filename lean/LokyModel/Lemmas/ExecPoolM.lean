import LokyModel.Lemmas.ExecPool
namespace LokyModel.Exec

/-- a worker step -/
theorem pool_wmove (s s' : St) (h : PoolInv s) (p : Pid) (pc' : WPc) (hw : s'.w = upd s.w p pc')
    (hfr : s'.mpc = s.mpc ∧ s'.nextPid = s.nextPid ∧ s'.allPids = s.allPids ∧ s'.procDict = s.procDict ∧ s'.cfg = s.cfg)
    (hmono : announced (s.w p) = true → announced pc' = true) : PoolInv s' := by
  obtain ⟨f1, f2, f3, f4, f5⟩ := hfr
  constructor
  · intro q hq ha
    rw [f3] at hq; rw [f4, f1]
    rw [hw, announced_upd] at ha
    split at ha
    · rename_i e; subst e
      apply h.pre q hq
      cases hb : announced (s.w q) with
      | false => rfl
      | true => rw [hmono hb] at ha; cases ha
    · exact h.pre q hq ha
  · rw [f4]; exact h.nd
  · rw [f1, f4]; exact h.popnot
  · rw [f1, f4, f5]; exact h.cnt
  · rw [f4, f2]; exact h.fresh

/-- a step that leaves the registry, the worker table and the popped worker alone -/
theorem pool_congr (a b : St) (h : PoolInv a)
    (hfr : b.w = a.w ∧ b.nextPid = a.nextPid ∧ b.allPids = a.allPids ∧ b.procDict = a.procDict ∧ b.cfg = a.cfg)
    (hm : mPop b.mpc = mPop a.mpc) : PoolInv b := by
  obtain ⟨f1, f2, f3, f4, f5⟩ := hfr
  constructor
  · rw [f1, f3, f4, hm]; exact h.pre
  · rw [f4]; exact h.nd
  · rw [hm, f4]; exact h.popnot
  · rw [hm, f4, f5]; exact h.cnt
  · rw [f4, f2]; exact h.fresh

@[simp] theorem mPop_mAddFuel (n : Nat) (s : St) : mPop (mAddFuel n s).mpc = none := by
  induction n generalizing s with
  | zero => rfl
  | succ n ih => unfold mAddFuel; (repeat' split) <;> first | rfl | simp [*]
@[simp] theorem mPop_mAdd (s : St) : mPop (mAdd s).mpc = none := by unfold mAdd; simp
@[simp] theorem mPop_mAddF (s : St) : mPop (mAddF s).mpc = none := by
  rcases mAddF_mpc s with ⟨i, _, h⟩ | ⟨_, h, _⟩ | ⟨_, h, _⟩ <;> rw [h] <;> rfl
@[simp] theorem mPop_mJoinStart (s : St) : mPop (mJoinStart s).mpc = none := rfl
@[simp] theorem mPop_mAfterItem (s : St) : mPop (mAfterItem s).mpc = none := by
  unfold mAfterItem; split <;> first | rfl | simp
@[simp] theorem mPop_mDropRef (s : St) : mPop (mDropRef s).mpc = none := by
  unfold mDropRef; simp only []; split <;> first | rfl | simp
@[simp] theorem mPop_mRespawnCheck (s : St) : mPop (mRespawnCheck s).mpc = none := by
  unfold mRespawnCheck; simp only []; (repeat' split) <;> first | rfl | simp
@[simp] theorem mPop_mProcess (s : St) (r) : mPop (mProcess s r).mpc = none := by
  unfold mProcess; (repeat' split) <;> first | rfl | simp
@[simp] theorem mPop_mJoinClose (s : St) : mPop (mJoinClose s).mpc = none := rfl
@[simp] theorem mPop_mJoinLoop (s : St) (n a c) : mPop (mJoinLoop s n a c).mpc = none := by
  unfold mJoinLoop; split <;> first | rfl | simp
@[simp] theorem mPop_mAfterPut (s : St) (k n a c) : mPop (mAfterPut s k n a c).mpc = none := by
  unfold mAfterPut; split <;> first | rfl | simp
@[simp] theorem mPop_mSpawnLoop (s : St) : mPop (mSpawnLoop s).mpc = none := by unfold mSpawnLoop; split <;> rfl
@[simp] theorem mPop_mRelExitNext (s : St) (ps n) : mPop (mRelExitNext s ps n).mpc = none := by
  unfold mRelExitNext; split <;> rfl
@[simp] theorem mPop_mAliveNext (s : St) (ps c n a b) : mPop (mAliveNext s ps c n a b).mpc = none := by
  unfold mAliveNext; split <;> rfl

/-- popping the last registered worker (kill loop / join loop): `mk` is `.kill` or `.jJoin` -/
theorem pool_pop (X : St) (h : PoolInv X) (hm : mPop X.mpc = none) (mk : Pid → MPc) (hmk : ∀ p, mPop (mk p) = some p)
    (p : Pid) (hp : X.procDict.getLast? = some p) :
    PoolInv { X with procDict := X.procDict.dropLast, mpc := mk p } := by
  have hsplit : X.procDict = X.procDict.dropLast ++ [p] := by
    have hne : X.procDict ≠ [] := by intro e; rw [e] at hp; cases hp
    have := List.dropLast_concat_getLast hne
    rw [List.getLast?_eq_some_getLast hne] at hp
    cases hp
    exact this.symm
  have hnd := h.nd
  rw [hsplit] at hnd
  have hnot : p ∉ X.procDict.dropLast := by
    intro hm'
    have := List.nodup_append.mp hnd
    exact this.2.2 p hm' p (by simp) rfl
  constructor
  · intro q hq ha
    rcases h.pre q hq ha with e | e
    · rw [hsplit] at e
      simp only [List.mem_append, List.mem_singleton] at e
      rcases e with e | e
      · left; exact e
      · right; simp only; rw [e]; exact hmk p
    · rw [hm] at e; cases e
  · exact (List.nodup_append.mp hnd).1
  · intro q hq; simp only at hq ⊢; rw [hmk p] at hq; cases hq; exact hnot
  · have := h.cnt; rw [hm] at this
    simp only [hmk p]
    have hl : X.procDict.length = X.procDict.dropLast.length + 1 := by
      conv => lhs; rw [hsplit]
      simp
    simp at this ⊢; omega
  · intro q hq; exact h.fresh q (by rw [hsplit]; exact List.mem_append_left _ hq)

theorem pool_mKillNext (X : St) (h : PoolInv X) (hm : mPop X.mpc = none) : PoolInv (mKillNext X) := by
  unfold mKillNext
  split
  · rename_i p hp; exact pool_pop X h hm MPc.kill (fun _ => rfl) p hp
  · exact pool_congr X _ h (by simp [mJoinStart]) (by rw [hm]; rfl)

theorem pool_mJoinProcs (X : St) (h : PoolInv X) (hm : mPop X.mpc = none) : PoolInv (mJoinProcs X) := by
  unfold mJoinProcs
  split
  · rename_i p hp; exact pool_pop X h hm MPc.jJoin (fun _ => rfl) p hp
  · exact pool_congr X _ h (by simp) (by rw [hm]; rfl)

/-- the popped worker is dead: forget it -/
theorem pool_clear (s : St) (h : PoolInv s) (p : Pid) (hp : mPop s.mpc = some p) (hd : isDead s p = true) :
    PoolInv { s with mpc := .none } := by
  have hdead : s.w p = .dead := by simpa [isDead] using hd
  constructor
  · intro q hq ha
    rcases h.pre q hq ha with e | e
    · left; exact e
    · rw [hp] at e; cases e
      rw [hdead] at ha; simp [announced] at ha
  · exact h.nd
  · intro q hq; simp [mPop] at hq
  · have := h.cnt; rw [hp] at this; simp [mPop] at this ⊢; omega
  · exact h.fresh

end LokyModel.Exec
