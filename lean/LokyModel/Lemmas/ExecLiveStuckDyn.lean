import LokyModel.Lemmas.ExecLiveStuck2
import LokyModel.ExecLiveDyn2
/-! Dynamic pools (idle time-out configured): a state in which no step other than a crash is enabled is a good one,
    given the ingredients of `ExecLiveDyn.lean`.  With a time-out every live worker can always move (its waits are
    timed), so a quiescent state has no live worker; the re-spawn invariant then says nothing is pending. -/
namespace LokyModel.Exec

/-- a worker of a dynamic pool that cannot move: it is dead, or waits for the result queue's write lock -/
theorem wBlockedD (s : St) (p : Pid) (h1 : stepW s p .ok = none) (h2 : stepW s p .timeout = none)
    (h3 : stepW s p .fail = none) (hn : wNeverD (s.w p) = false) :
    s.w p = .dead ∨ ((∃ w e b, s.w p = .rAcq w e b) ∧ s.rqWlock = 0) ∨ (s.w p = .xAcq ∧ s.rqWlock = 0) ∨
    (s.w p = .tRecv ∧ s.cqPipe = []) := by
  cases hw : s.w p <;> simp only [hw, wNeverD] at hn <;> unfold stepW at h1 h2 h3 <;>
    simp [hw, acq_map', wAfterStart, wGet, wDispatch, wAfterResult] at h1 h2 h3 ⊢
  all_goals (first
    | omega
    | (split at h1 <;> simp_all; done)
    | (cases hq : s.cqPipe <;> simp_all; done)
    | simp_all)

def mWaitJoin : MPc → Option Pid
  | .jJoin p | .pidJoin p => some p
  | _ => none
def mWaitMgmtD : MPc → Bool
  | .jAcq1 | .jAliveAcq _ _ _ | .jAcq2 | .pidAcq _ | .rspAcq => true
  | _ => false
def mWaitShutD : MPc → Bool
  | .flagAcq | .jShutAcq => true
  | _ => false

/-- the manager thread of a dynamic pool cannot move -/
theorem mBlockedD (s : St) (h1 : stepM s .ok = none) (h2 : stepM s .fail = none) (hn : mNeverD s.mpc = false)
    (hrecv : s.mpc = .recv → s.rqPipe ≠ []) (hclr : ∀ k, s.mpc = .clrRecv k → 0 < s.wakeup)
    (hl1 : ∀ n, s.mpc ≠ .jRelExit [] n) (hl2 : ∀ c n st co, s.mpc ≠ .jAlive [] c n st co) :
    s.mpc = .none ∨ mEnded s = true ∨
    (∃ snap, s.mpc = .wait snap ∧ s.rqPipe = [] ∧ s.wakeup = 0 ∧ snap.any (isDead s) = false) ∨
    (mWaitSlot s.mpc = true ∧ s.cqSem = 0) ∨ (mWaitShutD s.mpc = true ∧ s.shut = 0) ∨
    (mWaitMgmtD s.mpc = true ∧ s.mgmt = 0) ∨ (∃ p, mWaitJoin s.mpc = some p ∧ isDead s p = false) := by
  cases hm : s.mpc <;> simp only [hm, mNeverD] at hn <;> unfold stepM at h1 h2 <;>
    simp only [hm, acq_map', mEnded, mWaitSlot, mWaitShutD, mWaitMgmtD, mWaitJoin] at h1 h2 hrecv hclr hl1 hl2 ⊢
  case wait snap =>
    right; right; left
    refine ⟨snap, rfl, ?_⟩
    split at h1
    · cases h1
    · split at h1
      · cases h1
      · split at h1
        · cases h1
        · rename_i a b c
          refine ⟨by simpa using a, by omega, by simpa using c⟩
  case recv =>
    exfalso
    have := hrecv trivial
    cases hq : s.rqPipe with
    | nil => exact this hq
    | cons r rest =>
      rw [hq] at h1
      cases r with
      | res w e b => cases b <;> simp at h1
      | pid p => simp at h1
      | rtb => simp at h1
  case clrPoll k =>
    exfalso
    by_cases hw : 0 < s.wakeup
    · simp [hw] at h1
    · have : s.wakeup = 0 := by omega
      simp [this] at h2; cases k <;> simp at h2
  case clrRecv k =>
    exfalso
    have := hclr k rfl
    simp [this] at h1
  case jRelExit ps n =>
    exfalso
    cases ps with
    | nil => exact hl1 n rfl
    | cons p rest => simp at h1; split at h1 <;> cases h1
  case jAlive ps c n st co =>
    exfalso
    cases ps with
    | nil => exact hl2 c n st co rfl
    | cons p rest => simp at h1
  all_goals (first
    | (simp at hn; done)
    | (simp; done)
    | (exfalso; simp at h1; done)
    | (exfalso; revert h1; simp; done)
    | (exfalso; split at h1 <;> simp at h1; done)
    | (simp at h1 ⊢; omega)
    | (simp at h1 h2 ⊢; omega)
    | skip)


/-! ### what the dynamic-pool invariant says -/

structure DynFacts (s : St) : Prop where
  mnever : mNeverD s.mpc = false
  wnever : ∀ p ∈ s.allPids, wNeverD (s.w p) = false
  recv : s.mpc = .recv → s.rqPipe ≠ []
  clr : ∀ k, s.mpc = .clrRecv k → 0 < s.wakeup
  l1 : ∀ n, s.mpc ≠ .jRelExit [] n
  l2 : ∀ c n st co, s.mpc ≠ .jAlive [] c n st co
  api : ∀ k, k < s.cfg.scripts.length → s.upc k = .api → (s.ucur k).isSome = true
  fidle : (s.fpc = .none ∨ s.fpc = .done) → s.cqBuf = []
  mnone : s.mpc = .none → s.futs = [] ∨ ∃ k, k < s.cfg.scripts.length ∧ inShutU' (s.upc k) = true
  ujoin : ∀ k, k < s.cfg.scripts.length → (uWaitG (s.upc k) = true ∨ uJoin (s.upc k) = true) → s.mpc ≠ .none

theorem dyn_facts (s : St) (h : dynOk s = true) : DynFacts s := by
  unfold dynOk usersOf at h
  simp only [Bool.and_eq_true] at h
  obtain ⟨⟨⟨⟨⟨⟨⟨⟨⟨⟨⟨⟨⟨⟨h1, _h2⟩, _h3⟩, h4⟩, _h5⟩, _h6⟩, h7⟩, h8⟩, h9⟩, _h10⟩, h11⟩, h12⟩, h13⟩, _h14⟩, h15⟩ := h
  refine ⟨by simpa using h1, ?_, ?_, ?_, ?_, ?_, ?_, ?_, ?_, ?_⟩
  · intro p hp
    rw [List.all_eq_true] at h4
    simpa using h4 p hp
  · intro hm; simp [hm] at h7; simpa using h7
  · intro k hm; simp [hm] at h8; exact h8
  · intro n hm; simp [hm] at h9
  · intro c n st co hm; simp [hm] at h9
  · intro k hk hu
    rw [List.all_eq_true] at h11
    have := h11 k (List.mem_range.2 hk)
    simpa [hu] using this
  · intro hf
    rcases hf with hf | hf <;> simp [hf] at h12 <;> simpa using h12
  · intro hm
    simp only [hm, bne_self_eq_false, Bool.false_or, Bool.or_eq_true] at h13
    rcases h13 with g | g
    · left; simpa using g
    · right
      rw [List.any_eq_true] at g
      obtain ⟨k, hk, hk2⟩ := g
      exact ⟨k, List.mem_range.1 hk, hk2⟩
  · intro k hk hu
    rw [List.all_eq_true] at h15
    have := h15 k (List.mem_range.2 hk)
    intro hm
    rcases hu with hu | hu
    · cases hq : s.upc k <;> simp [hq, uWaitG] at hu <;> simp [hq, hm] at this
    · cases hq : s.upc k <;> simp [hq, uJoin] at hu <;> simp [hq, hm] at this


/-- **Dynamic pool: a quiescent state is a good one.** -/
theorem stuck_good_dyn (s : St) (hp : PidsInv s) (hfl : FlagInv s)
    (h2 : holderOk s = true) (hd : dynOk s = true) (ha : addSlotOk s = true) (hw : wakeOkD s = true)
    (hr : respawnOk s = true) (htr : tRecvOk s = true)
    (hfut : ∀ i, i < s.futs.length → (futOf s i).done = false → i ∈ s.pending)
    (hterm : mEnded s = true → s.pending = [])
    (hann : ∀ p ∈ s.procDict, s.w p = .dead → s.rqPipe ≠ [] ∨ mRsp s.mpc = true)
    (hq : enabledNC s = []) : good s = true := by
  have DF := dyn_facts s hd
  obtain ⟨Hrq, _, Hcqw, Hg, Hmg, Hsh⟩ := holder_facts s h2
  -- every worker is dead
  have Lrq : s.rqWlock ≠ 0 := by
    intro hz
    obtain ⟨p, hp2⟩ := Hrq hz
    have hpm : p ∈ s.allPids := by
      apply Decidable.byContradiction
      intro hn
      rw [hp.dead p hn] at hp2
      simp [inRqW] at hp2
    exact enabled_inRqW s p hp2 (quiet_W s hq p hpm).1
  have hdead : ∀ p, s.w p = .dead := by
    intro p
    by_cases hpm : p ∈ s.allPids
    · have qw := quiet_W s hq p hpm
      rcases wBlockedD s p qw.1 qw.2.1 qw.2.2 (DF.wnever p hpm) with h | h | h | h
      · exact h
      · exact absurd h.2 Lrq
      · exact absurd h.2 Lrq
      · exfalso
        unfold tRecvOk at htr
        rw [List.all_eq_true] at htr
        have := htr p hpm
        simp [h.1, h.2] at this
    · exact hp.dead p hpm
  have hnj : ∀ p, mWaitJoin s.mpc = some p → isDead s p = true := by
    intro p _; simp [isDead, hdead p]
  have MB := mBlockedD s (quiet_M s hq).1 (quiet_M s hq).2 DF.mnever DF.recv DF.clr DF.l1 DF.l2
  -- the feeder is idle or waits for the shutdown lock
  have FB : ((s.fpc = .none ∨ s.fpc = .done ∨ s.fpc = .wait) ∧ s.cqBuf = []) ∨ (s.fpc = .errAcq ∧ s.shut = 0) := by
    rcases fBlocked s (quiet_F s hq) with h | h | h | h | h
    · exact .inl ⟨.inl h, DF.fidle (.inl h)⟩
    · exact .inl ⟨.inr (.inl h), DF.fidle (.inr h)⟩
    · exact .inl ⟨.inr (.inr h.1), h.2⟩
    · exfalso
      have := Hcqw h.2
      rcases h.1 with ⟨m, hm⟩ | ⟨w, hw⟩
      · rw [hm] at this; simp [inCqWF] at this
      · rw [hw] at this; simp [inCqWF] at this
    · exact .inr h
  -- the management lock is free
  have hmg : s.mgmt ≠ 0 := by
    intro hz
    rcases Hmg hz with ⟨k, hk, hu⟩ | hm | ⟨p, hwp⟩
    · exact absurd (quiet_U s hq k hk) (enabled_inMgmtU' s k hu)
    · rcases MB with h | h | ⟨sn, h, _⟩ | h | h | h | ⟨p, h, hpd⟩
      · rw [h] at hm; simp [inMgmtM'] at hm
      · rcases mEnded_cases s h with h | ⟨w, h⟩ <;> rw [h] at hm <;> simp [inMgmtM'] at hm
      · rw [h] at hm; simp [inMgmtM'] at hm
      · cases hpc : s.mpc <;> simp [hpc, mWaitSlot, inMgmtM'] at h hm
      · cases hpc : s.mpc <;> simp [hpc, mWaitShutD, inMgmtM'] at h hm
      · cases hpc : s.mpc <;> simp [hpc, mWaitMgmtD, inMgmtM'] at h hm
      · rw [hnj p h] at hpd; cases hpd
    · rw [hdead p] at hwp; cases hwp
  -- the shutdown lock is free
  have hsh : s.shut ≠ 0 := by
    intro hz
    rcases Hsh hz with ⟨k, hk, hu⟩ | hm | hf
    · refine enabled_inShutU' s k hu ?_ (quiet_U s hq k hk)
      intro _; exact hmg
    · rcases MB with h | h | ⟨sn, h, _⟩ | h | h | h | ⟨p, h, hpd⟩
      · rw [h] at hm; simp [inShutM'] at hm
      · rcases mEnded_cases s h with h | ⟨w, h⟩ <;> rw [h] at hm <;> simp [inShutM'] at hm
      · rw [h] at hm; simp [inShutM'] at hm
      · cases hpc : s.mpc <;> simp [hpc, mWaitSlot, inShutM'] at h hm
      · cases hpc : s.mpc <;> simp [hpc, mWaitShutD, inShutM'] at h hm
      · cases hpc : s.mpc <;> simp [hpc, mWaitMgmtD, inShutM'] at h hm
      · rw [hnj p h] at hpd; cases hpd
    · rcases FB with ⟨h | h | h, _⟩ | ⟨h, _⟩ <;> rw [h] at hf <;> simp [inShutF'] at hf
  have hfi : (s.fpc = .none ∨ s.fpc = .done ∨ s.fpc = .wait) ∧ s.cqBuf = [] := by
    rcases FB with h | h
    · exact h
    · exact absurd h.2 hsh
  -- user threads
  have U : ∀ k, k < s.cfg.scripts.length → s.upc k = .done ∨
      ∃ k', k' < s.cfg.scripts.length ∧ uJoin (s.upc k') = true ∧ mEnded s = false := by
    intro k hk
    rcases uBlocked s k (quiet_U s hq k hk) (DF.api k hk) with h | h | h | h | h
    · exact .inl h
    · exact absurd h.2 hsh
    · exact absurd h.2 hmg
    · right
      obtain ⟨k', hk', hg⟩ := Hg h.2
      rcases inGshutU_cases _ hg with hj | hrel
      · rcases uBlocked s k' (quiet_U s hq k' hk') (DF.api k' hk') with h' | h' | h' | h' | h'
        · rw [h'] at hj; simp [uJoin] at hj
        · exact absurd h'.2 hsh
        · exact absurd h'.2 hmg
        · exfalso; cases hu : s.upc k' <;> simp [hu, uJoin, uWaitG] at hj h'
        · exact ⟨k', hk', hj, h'.2⟩
      · exact absurd (quiet_U s hq k' hk') (enabled_relG s k' hrel)
    · exact .inr ⟨k, hk, h⟩
  rcases MB with hm | hm | ⟨sn, hm, hrq, hwk, _⟩ | hm | hm | hm | ⟨p, hm, hpd⟩
  · -- the manager thread was never started
    have hu : ∀ k, k < s.cfg.scripts.length → s.upc k = .done := by
      intro k hk
      rcases U k hk with h | ⟨k', hk', hj, _⟩
      · exact h
      · exact absurd hm (DF.ujoin k' hk' (.inr hj))
    refine good_of s ?_ hu
    rcases DF.mnone hm with h | ⟨k, hk, h⟩
    · rw [h]; rfl
    · rw [hu k hk] at h; simp [inShutU'] at h
  · -- the manager thread has ended
    have hu : ∀ k, k < s.cfg.scripts.length → s.upc k = .done := by
      intro k hk
      rcases U k hk with h | ⟨k', _, _, he⟩
      · exact h
      · rw [hm] at he; cases he
    exact good_of s (futs_done_of_pending_nil s hfut (hterm hm)) hu
  · -- the manager waits: no worker is registered any more, so nothing is pending
    have hpd : s.procDict = [] := by
      cases hpe : s.procDict with
      | nil => rfl
      | cons p rest =>
        exfalso
        rcases hann p (by rw [hpe]; simp) (hdead p) with h | h
        · exact h hrq
        · rw [hm] at h; simp [mRsp] at h
    have howes : owesD s = false := by
      unfold owesD usersOf
      rw [Bool.or_eq_false_iff]
      constructor
      · rw [List.any_eq_false]
        intro k hk
        rcases uBlocked s k (quiet_U s hq k (List.mem_range.1 hk)) (DF.api k (List.mem_range.1 hk)) with h | h | h | h | h
        · simp [h, uOwes]
        · exact absurd h.2 hsh
        · exact absurd h.2 hmg
        · cases hu : s.upc k <;> simp [hu, uWaitG] at h <;> simp [uOwes]
        · cases hu : s.upc k <;> simp [hu, uJoin] at h <;> simp [uOwes]
      · rcases hfi.1 with h | h | h <;> simp [h, fOwes]
    have hpn : s.pending = [] := by
      unfold respawnOk at hr
      simp [hpd, hwk, hrq, howes, hm, mRsp] at hr
      exact hr
    have hme : mustExit s = false := by
      unfold wakeOkD at hw
      simp only [hm] at hw
      simp [hwk, hrq, howes] at hw
      exact hw
    have hflags : s.globalShutdown = false ∧ s.shutdownFlag = false := by
      unfold mustExit at hme
      rw [hpn] at hme
      simp at hme
      exact ⟨hme.1.1, hme.2⟩
    have hu : ∀ k, k < s.cfg.scripts.length → s.upc k = .done := by
      intro k hk
      rcases U k hk with h | ⟨k', _, hj, _⟩
      · exact h
      · exfalso
        cases hu : s.upc k' <;> simp [hu, uJoin] at hj
        · have := (hfl k').1 (by rw [hu]; rfl); rw [hflags.2] at this; cases this
        · have := (hfl k').2 (by rw [hu]; rfl); rw [hflags.1] at this; cases this
    exact good_of s (futs_done_of_pending_nil s hfut hpn) hu
  · -- the manager waits for a call-queue slot it has seen free
    exfalso
    unfold addSlotOk at ha
    cases hpc : s.mpc <;> simp [hpc, mWaitSlot] at hm <;> simp [hpc, hm] at ha
  · exact absurd hm.2 hsh
  · exact absurd hm.2 hmg
  · rw [hnj p hm] at hpd; cases hpd

end LokyModel.Exec
