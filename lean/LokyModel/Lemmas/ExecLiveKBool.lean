import LokyModel.Lemmas.ExecLiveKAll
/-!
# The executable predicates that `Drivers/LiveCheckK.lean` evaluates along random walks are theorems

`phase1K s` (the crash-aware ingredients of the un-killed state) holds in phase 1, `lateK s` and `endK s` hold in
phase 2 (`LokyModel/ExecLiveKDef.lean`).
-/
namespace LokyModel.Exec

theorem holder4_of_inv {s : St} (h : HolderInv4 s) : holder4 s = true := by
  obtain ⟨h3, h4, h5, h6, _⟩ := h
  unfold holder4
  simp only [Bool.and_eq_true]
  refine ⟨⟨⟨?_, ?_⟩, ?_⟩, ?_⟩
  · cases ho : s.oCqWlock with
    | none => have := h3.free ho; simp [this]
    | some a => obtain ⟨x, y⟩ := h3.held a ho; cases a <;> simp_all [secCqW]
  · cases ho : s.oGshut with
    | none => have := h4.free ho; simp [this]
    | some a => obtain ⟨x, y⟩ := h4.held a ho; cases a <;> simp_all [secGshut]
  · cases ho : s.oMgmt with
    | none => have := h5.free ho; simp [this]
    | some a => obtain ⟨x, y⟩ := h5.held a ho; cases a <;> simp_all [secMgmtC]
  · cases ho : s.oShut with
    | none => have := h6.free ho; simp [this]
    | some a => obtain ⟨x, y⟩ := h6.held a ho; cases a <;> simp_all [secShut]

theorem excl4_of_inv {s : St} (h : HolderInv4 s) : excl4 s = true := by
  obtain ⟨h3, h4, h5, h6, h7⟩ := h
  unfold excl4
  simp only [Bool.and_eq_true]
  refine ⟨⟨⟨⟨⟨⟨⟨?_, ?_⟩, ?_⟩, ?_⟩, ?_⟩, ?_⟩, ?_⟩, ?_⟩
  · cases hb : inCqWF s.fpc with
    | false => simp
    | true => have := h3.excl .F (by simpa [secCqW] using hb); simp [this]
  · simp only [List.all_eq_true, List.mem_range]; intro k hk
    cases hb : inGshutU (s.upc k) with
    | false => simp
    | true => have := h4.excl (.U k) (by simp [secGshut, hb, hk]); simp [this]
  · simp only [List.all_eq_true, List.mem_range]; intro k hk
    cases hb : inMgmtU' (s.upc k) with
    | false => simp
    | true => have := h5.excl (.U k) (by simp [secMgmtC, hb, hk]); simp [this]
  · cases hb : inMgmtM' s.mpc with
    | false => simp
    | true => have := h5.excl .M (by simpa [secMgmtC] using hb); simp [this]
  · simp only [List.all_eq_true, List.mem_range]; intro k hk
    cases hb : inShutU' (s.upc k) with
    | false => simp
    | true => have := h6.excl (.U k) (by simp [secShut, hb, hk]); simp [this]
  · cases hb : inShutM' s.mpc with
    | false => simp
    | true => have := h6.excl .M (by simpa [secShut] using hb); simp [this]
  · cases hb : inShutF' s.fpc with
    | false => simp
    | true => have := h6.excl .F (by simpa [secShut] using hb); simp [this]
  · rw [hcTStart_eq]
    cases hb : mTStart s.mpc with
    | false => simp
    | true => simp [h7 hb]

/-- `lateK` is what `LateInv` says (with the shutdown flag, which `ShutInv` gives) -/
theorem lateK_of_inv (s : St) (h : LateInv s) (hsh : ShutInv s) : lateK s = true := by
  unfold lateK
  simp only [Bool.and_eq_true]
  refine ⟨⟨⟨⟨⟨⟨⟨⟨⟨h.pc, hsh.flag (mK2_flagged h.pc)⟩, ?_⟩, ?_⟩, ?_⟩, ?_⟩, ?_⟩, holder4_of_inv h.h4⟩, excl4_of_inv h.h4⟩, ?_⟩
  · cases hk : mKillLoop s.mpc with
    | true => rfl
    | false => simp [h.fin hk]
  · rw [List.all_eq_true]
    intro q hq
    rcases h.acct q hq with e | e | e
    · simp [e]
    · simp [e]
    · simp [e]
  · split
    · rename_i p hm; simp [h.kj p hm]
    · rfl
  · rw [List.all_eq_true]
    intro p hp; simp [h.wnever p hp]
  · rw [List.all_eq_true]
    intro p _; simp [h.leak p]
  · rw [List.all_eq_true]
    intro k hk
    have hk' := List.mem_range.1 hk
    by_cases hp : s.upc k = .api
    · simp [h.api k hk' hp]
    · simp [hp]

/-- in phase 2, once the manager thread has ended, every process ever spawned is dead -/
theorem lateInv_all_dead (s : St) (h : LateInv s) (he : mEnded s = true) : ∀ q ∈ s.allPids, s.w q = .dead := by
  intro q hq
  have hpc := h.pc
  have hd : s.mpc = .done := by
    unfold mEnded at he
    cases hm : s.mpc <;> simp_all [mK2]
  rcases h.acct q hq with e | e | e
  · rw [h.fin (by rw [hd]; rfl)] at e; cases e
  · rw [hd] at e; cases e
  · exact e

theorem endK_of_inv (s : St) (h : LateInv s) (hterm : mEnded s = true → s.pending = []) : endK s = true := by
  unfold endK
  cases he : mEnded s with
  | false => rfl
  | true =>
    simp only [Bool.not_true, Bool.false_or, Bool.and_eq_true, List.all_eq_true, List.isEmpty_iff]
    exact ⟨fun q hq => by simp [lateInv_all_dead s h he q hq], hterm he⟩

/-- `phase1K`: the crash-aware ingredients of the un-killed state -/
theorem phase1K_of_reachable {cfg : Cfg} (hc : cfg.staticPoolK = true) {s : St} (h1 : ReachableLF cfg.unkill s.unkill) :
    phase1K s = true := by
  have hcu := staticPool_unkill cfg hc
  have h' := (staticCInv_reachableLF hcu h1).1
  unfold staticSmallC' at h'
  simp only [Bool.and_eq_true] at h'
  unfold phase1K staticK smallK holderK joinK killedK
  simp only [Bool.and_eq_true]
  exact ⟨⟨⟨⟨⟨h'.1.1, h'.2⟩, h'.1.2⟩, holderC'_reachableLF hcu h1⟩,
    joinC'_reachableLF hcu (fun _ hr => staticC_reachableLF hcu hr) h1⟩, killedC_reachableLF hcu h1⟩

end LokyModel.Exec
