import LokyModel.Lemmas.ExecInv
/-! Every worker that is past its start-up has run the initializer (when one is configured). -/
namespace LokyModel.Exec

def needsInit : WPc → Bool
  | .start | .init | .dead | .exit _ => false
  | _ => true

def InitInv (s : St) : Prop :=
  s.cfg.hasInit = true → ∀ p, needsInit (s.w p) = true → p ∈ s.initLog

theorem initInv_init (cfg : Cfg) : InitInv (init cfg) := by
  intro _ p hp; simp [init, needsInit] at hp

theorem needsInit_upd (f : Pid → WPc) (p q : Pid) (pc : WPc) :
    needsInit (upd f p pc q) = if q = p then needsInit pc else needsInit (f q) := by
  unfold upd; split <;> rfl

/-- a continuation that only moves worker `p` -/
theorem needsInit_wGet (s : St) (p q : Pid) (h : needsInit ((wGet s p).w q) = true) :
    q = p ∨ needsInit (s.w q) = true := by
  unfold wGet at h; simp only [setW_w, needsInit_upd] at h
  split at h
  · left; assumption
  · right; exact h
theorem needsInit_wDispatch (s : St) (p q : Pid) (m : CMsg) (h : needsInit ((wDispatch s p m).w q) = true) :
    q = p ∨ needsInit (s.w q) = true := by
  unfold wDispatch at h
  (repeat' split at h) <;> (simp only [setW_w, needsInit_upd] at h; split at h <;> first | (left; assumption) | (right; assumption))
theorem needsInit_wAfterResult (s : St) (p q : Pid) (h : needsInit ((wAfterResult s p).w q) = true) :
    q = p ∨ needsInit (s.w q) = true := by
  unfold wAfterResult at h; simp only [] at h
  split at h
  · exact needsInit_wGet _ p q h
  · split at h
    · simp only [setW_w, needsInit_upd] at h; split at h
      · left; assumption
      · right; exact h
    · exact needsInit_wGet _ p q h

set_option maxHeartbeats 4000000 in
theorem initInv_stepW (s s' : St) (p : Pid) (v : Variant) (h : InitInv s) (hs : stepW s p v = some s') :
    InitInv s' := by
  unfold InitInv at h ⊢
  unfold stepW at hs
  crack_step
  all_goals (intro hi q hq)
  all_goals (first
    | (have h1 := h (by simpa using hi) q
       simp only [die_w, setW_w, needsInit_upd] at hq
       split at hq
       · simp_all [needsInit]
       · simp_all)
    | (have h1 := h (by simpa using hi) q
       rcases needsInit_wGet _ p q hq with rfl | h2
       · simp_all [needsInit]
       · simp_all)
    | (have h1 := h (by simpa using hi) q
       rcases needsInit_wDispatch _ p q _ hq with rfl | h2
       · simp_all [needsInit]
       · simp_all)
    | (have h1 := h (by simpa using hi) q
       rcases needsInit_wAfterResult _ p q hq with rfl | h2
       · simp_all [needsInit]
       · simp_all)
    | (have hi' : s.cfg.hasInit = true := by simpa using hi
       have h1 := h hi' q
       unfold wAfterStart at hq; simp only [hi', if_true, setW_w, needsInit_upd] at hq
       split at hq
       · simp [needsInit] at hq
       · simp_all [wAfterStart])
    | skip)

set_option maxHeartbeats 4000000 in
theorem initInv_stepM (s s' : St) (v : Variant) (h : InitInv s) (hs : stepM s v = some s') : InitInv s' := by
  unfold InitInv at h ⊢
  unfold stepM at hs
  crack_step
  all_goals (intro hi q hq)
  all_goals (first
    | (have h1 := h (by simpa using hi) q; simp_all; done)
    | (have h1 := h (by simpa using hi) q
       simp only [mSpawnLoop_w, spawn_w, die_w, needsInit_upd, mKillNext_w, mSpawnLoop_initLog, spawn_initLog,
                  die_initLog] at hq ⊢
       split at hq
       · simp [needsInit] at hq
       · simp_all)
    | skip)

set_option maxHeartbeats 4000000 in
theorem initInv_stepF (s s' : St) (v : Variant) (h : InitInv s) (hs : stepF s v = some s') : InitInv s' := by
  unfold InitInv at h ⊢
  unfold stepF at hs
  crack_step
  all_goals (intro hi q hq)
  all_goals (have h1 := h (by simpa using hi) q; simp_all; done)

set_option maxHeartbeats 4000000 in
theorem initInv_stepU (s s' : St) (k : Nat) (v : Variant) (h : InitInv s) (hs : stepU s k v = some s') : InitInv s' := by
  unfold InitInv at h ⊢
  unfold stepU at hs
  crack_step
  all_goals (intro hi q hq)
  all_goals (first
    | (have h1 := h (by simpa using hi) q; simp_all; done)
    | (have h1 := h (by simpa using hi) q
       simp only [uSpawnLoop_w, spawn_w, needsInit_upd, uSpawnLoop_initLog, spawn_initLog] at hq ⊢
       split at hq
       · simp [needsInit] at hq
       · simp_all)
    | skip)

theorem initInv_step {s s' : St} {a : Actor} {v : Variant} (h : InitInv s) (hs : step s a v = some s') :
    InitInv s' := by
  unfold step at hs
  cases a with
  | U k => simp only [] at hs; split at hs; exact initInv_stepU s s' k v h hs; cases hs
  | M => exact initInv_stepM s s' v h hs
  | F => exact initInv_stepF s s' v h hs
  | W p => simp only [] at hs; split at hs; exact initInv_stepW s s' p v h hs; cases hs

theorem initInv_reachable {cfg : Cfg} {s : St} (h : Reachable cfg s) : InitInv s := by
  induction h with
  | init => exact initInv_init cfg
  | step _ hs ih => exact initInv_step ih hs

end LokyModel.Exec
