import LokyModel.Lemmas.ExecLiveDynOkBase
/-! `dynOk'`: steps of the manager thread. -/
namespace LokyModel.Exec.DynP
open StaticP
set_option linter.unusedSimpArgs false

/-! ### what the manager's continuations leave in the program counter -/

/-- the simple facts that hold of every program counter a continuation produces -/
def mOkD (m : MPc) : Bool := !mNeverD m && !mEmptyL m && m != .none && m != .recv && !isClrRecv m

theorem mOkD_parts (m : MPc) (h : mOkD m = true) :
    mNeverD m = false ∧ mEmptyL m = false ∧ m ≠ .none ∧ m ≠ .recv ∧ isClrRecv m = false := by
  simpa [mOkD, and_assoc] using h

theorem mAddFuel_okD (n : Nat) (s : St) :
    mOkD (mAddFuel n s).mpc = true ∧ mFinal (mAddFuel n s).mpc = false ∧ mLate (mAddFuel n s).mpc = false ∧
    mRef (mAddFuel n s).mpc = 0 := by
  induction n generalizing s with
  | zero => simp [mAddFuel, mOkD, mNeverD, mEmptyL, isClrRecv, mFinal, mLate, mRef]
  | succ n ih =>
    unfold mAddFuel
    split
    · simp [mOkD, mNeverD, mEmptyL, isClrRecv, mFinal, mLate, mRef]
    · split
      · simp [mOkD, mNeverD, mEmptyL, isClrRecv, mFinal, mLate, mRef]
      · split
        · exact ih _
        · simp [setFut, mOkD, mNeverD, mEmptyL, isClrRecv, mFinal, mLate, mRef]

theorem mAdd_okD (s : St) :
    mOkD (mAdd s).mpc = true ∧ mFinal (mAdd s).mpc = false ∧ mLate (mAdd s).mpc = false ∧ mRef (mAdd s).mpc = 0 :=
  mAddFuel_okD _ s

theorem mAfterItem_okD (s : St) :
    mOkD (mAfterItem s).mpc = true ∧ mFinal (mAfterItem s).mpc = false ∧ mLate (mAfterItem s).mpc = false ∧
    mRef (mAfterItem s).mpc = 0 := by
  unfold mAfterItem
  split
  · simp [mOkD, mNeverD, mEmptyL, isClrRecv, mFinal, mLate, mRef]
  · exact mAdd_okD s

theorem mProcess_okD (s : St) (r : Option RMsg) :
    mOkD (mProcess s r).mpc = true ∧ mFinal (mProcess s r).mpc = false ∧ mLate (mProcess s r).mpc = false ∧
    mRef (mProcess s r).mpc = 0 := by
  unfold mProcess
  split
  · exact mAfterItem_okD s
  · exact mAfterItem_okD s
  · split
    · exact mAfterItem_okD _
    · exact mAfterItem_okD s
  · simp [mOkD, mNeverD, mEmptyL, isClrRecv, mFinal, mLate, mRef]

theorem mRespawnCheck_okD (s : St) :
    mOkD (mRespawnCheck s).mpc = true ∧ mFinal (mRespawnCheck s).mpc = false ∧ mLate (mRespawnCheck s).mpc = false ∧
    (mRespawnCheck s).refs = s.refs + mRef (mRespawnCheck s).mpc := by
  unfold mRespawnCheck
  have h := mAfterItem_okD s
  simp only []
  split
  · split
    · simp [mOkD, mNeverD, mEmptyL, isClrRecv, mFinal, mLate, mRef]
    · exact ⟨h.1, h.2.1, h.2.2.1, by rw [h.2.2.2]; simp⟩
  · exact ⟨h.1, h.2.1, h.2.2.1, by rw [h.2.2.2]; simp⟩

theorem mDropRef_okD (s : St) (hr : 2 ≤ s.refs) :
    mOkD (mDropRef s).mpc = true ∧ mFinal (mDropRef s).mpc = false ∧ mLate (mDropRef s).mpc = false ∧
    mRef (mDropRef s).mpc = 0 ∧ (mDropRef s).refs = s.refs - 1 := by
  unfold mDropRef
  simp only []
  split
  · rename_i e
    have : s.refs - 1 = 0 := by simpa using e
    omega
  · have h := mAfterItem_okD { s with refs := s.refs - 1 }
    exact ⟨h.1, h.2.1, h.2.2.1, h.2.2.2, by simp⟩

theorem mSpawnLoop_okD (s : St) :
    mOkD (mSpawnLoop s).mpc = true ∧ mFinal (mSpawnLoop s).mpc = false ∧ mLate (mSpawnLoop s).mpc = false ∧
    mRef (mSpawnLoop s).mpc = 1 := by
  unfold mSpawnLoop; split <;> simp [mOkD, mNeverD, mEmptyL, isClrRecv, mFinal, mLate, mRef]

theorem mAfterAddF_okD (s : St) (h : mOkD s.mpc = true ∧ mLate s.mpc = false ∧ mRef s.mpc = 0) :
    mOkD (mAfterAddF s).mpc = true ∧ mLate (mAfterAddF s).mpc = false ∧ mRef (mAfterAddF s).mpc = 0 := by
  unfold mAfterAddF
  split
  · simp [mOkD, mNeverD, mEmptyL, isClrRecv, mLate, mRef]
  · split
    · simp [mJoinStart, mOkD, mNeverD, mEmptyL, isClrRecv, mLate, mRef]
    · exact h
  · exact h

theorem mAddF_okD (s : St) :
    mOkD (mAddF s).mpc = true ∧ mLate (mAddF s).mpc = false ∧ mRef (mAddF s).mpc = 0 := by
  have h := mAdd_okD s
  have := mAfterAddF_okD (mAdd s) ⟨h.1, h.2.2.1, h.2.2.2⟩
  simpa [mAddF] using this

theorem mAfterFlag_okD (s : St) (hk : s.killFlag = false) :
    mOkD (mAfterFlag s).mpc = true ∧ mLate (mAfterFlag s).mpc = false ∧ mRef (mAfterFlag s).mpc = 0 := by
  rw [mAfterFlag_eq s hk]
  split
  · simp [mJoinStart, mOkD, mNeverD, mEmptyL, isClrRecv, mLate, mRef]
  · exact mAddF_okD s

theorem mAfterFlag_w (s : St) (hk : s.killFlag = false) : (mAfterFlag s).w = s.w ∧ (mAfterFlag s).allPids = s.allPids := by
  rw [mAfterFlag_eq s hk]
  split <;> simp [mJoinStart]

theorem mRelExitNext_okD (s : St) (ps : List Pid) (n : Nat) :
    mOkD (mRelExitNext s ps n).mpc = true ∧ mFinal (mRelExitNext s ps n).mpc = true ∧
    mLate (mRelExitNext s ps n).mpc = false ∧ mRef (mRelExitNext s ps n).mpc = 0 := by
  unfold mRelExitNext; split <;> simp [mOkD, mNeverD, mEmptyL, isClrRecv, mFinal, mLate, mRef]

theorem mAliveNext_okD (s : St) (ps : List Pid) (c n sent cool : Nat) :
    mOkD (mAliveNext s ps c n sent cool).mpc = true ∧ mFinal (mAliveNext s ps c n sent cool).mpc = true ∧
    mLate (mAliveNext s ps c n sent cool).mpc = false ∧ mRef (mAliveNext s ps c n sent cool).mpc = 0 := by
  unfold mAliveNext; split <;> simp [mOkD, mNeverD, mEmptyL, isClrRecv, mFinal, mLate, mRef]

theorem mJoinProcs_okD (s : St) :
    mOkD (mJoinProcs s).mpc = true ∧ mFinal (mJoinProcs s).mpc = true ∧
    mLate (mJoinProcs s).mpc = true ∧ mRef (mJoinProcs s).mpc = 0 := by
  unfold mJoinProcs; split <;> simp [mOkD, mNeverD, mEmptyL, isClrRecv, mFinal, mLate, mRef]

theorem mJoinClose_okD (s : St) :
    mOkD (mJoinClose s).mpc = true ∧ mFinal (mJoinClose s).mpc = true ∧
    mLate (mJoinClose s).mpc = true ∧ mRef (mJoinClose s).mpc = 0 := by
  unfold mJoinClose; simp [mOkD, mNeverD, mEmptyL, isClrRecv, mFinal, mLate, mRef]

theorem mJoinLoop_okD (s : St) (n sent cool : Nat) :
    mOkD (mJoinLoop s n sent cool).mpc = true ∧ mFinal (mJoinLoop s n sent cool).mpc = true ∧
    mRef (mJoinLoop s n sent cool).mpc = 0 := by
  unfold mJoinLoop; split
  · simp [mOkD, mNeverD, mEmptyL, isClrRecv, mFinal, mLate, mRef]
  · have := mJoinClose_okD s; exact ⟨this.1, this.2.1, this.2.2.2⟩

theorem mAfterPut_okD (s : St) (k n sent cool : Nat) :
    mOkD (mAfterPut s k n sent cool).mpc = true ∧ mFinal (mAfterPut s k n sent cool).mpc = true ∧
    mRef (mAfterPut s k n sent cool).mpc = 0 := by
  unfold mAfterPut; split
  · exact mJoinLoop_okD _ _ _ _
  · simp [mOkD, mNeverD, mEmptyL, isClrRecv, mFinal, mLate, mRef]

/-! ### the same, in the form `simp` uses -/

theorem mAdd_sfD (s : St) :
    mNeverD (mAdd s).mpc = false ∧ mEmptyL (mAdd s).mpc = false ∧ (mAdd s).mpc ≠ .none ∧ (mAdd s).mpc ≠ .recv ∧
    isClrRecv (mAdd s).mpc = false ∧ mFinal (mAdd s).mpc = false ∧ mLate (mAdd s).mpc = false ∧ mRef (mAdd s).mpc = 0 := by
  have R := mAdd_okD s
  have P := mOkD_parts _ R.1
  exact ⟨P.1, P.2.1, P.2.2.1, P.2.2.2.1, P.2.2.2.2, R.2.1, R.2.2.1, R.2.2.2⟩

theorem mAfterItem_sfD (s : St) :
    mNeverD (mAfterItem s).mpc = false ∧ mEmptyL (mAfterItem s).mpc = false ∧ (mAfterItem s).mpc ≠ .none ∧
    (mAfterItem s).mpc ≠ .recv ∧ isClrRecv (mAfterItem s).mpc = false ∧ mFinal (mAfterItem s).mpc = false ∧
    mLate (mAfterItem s).mpc = false ∧ mRef (mAfterItem s).mpc = 0 := by
  have R := mAfterItem_okD s
  have P := mOkD_parts _ R.1
  exact ⟨P.1, P.2.1, P.2.2.1, P.2.2.2.1, P.2.2.2.2, R.2.1, R.2.2.1, R.2.2.2⟩

theorem mProcess_sfD (s : St) (r : Option RMsg) :
    mNeverD (mProcess s r).mpc = false ∧ mEmptyL (mProcess s r).mpc = false ∧ (mProcess s r).mpc ≠ .none ∧
    (mProcess s r).mpc ≠ .recv ∧ isClrRecv (mProcess s r).mpc = false ∧ mFinal (mProcess s r).mpc = false ∧
    mLate (mProcess s r).mpc = false ∧ mRef (mProcess s r).mpc = 0 := by
  have R := mProcess_okD s r
  have P := mOkD_parts _ R.1
  exact ⟨P.1, P.2.1, P.2.2.1, P.2.2.2.1, P.2.2.2.2, R.2.1, R.2.2.1, R.2.2.2⟩

theorem mRespawnCheck_sfD (s : St) :
    mNeverD (mRespawnCheck s).mpc = false ∧ mEmptyL (mRespawnCheck s).mpc = false ∧ (mRespawnCheck s).mpc ≠ .none ∧
    (mRespawnCheck s).mpc ≠ .recv ∧ isClrRecv (mRespawnCheck s).mpc = false ∧ mFinal (mRespawnCheck s).mpc = false ∧
    mLate (mRespawnCheck s).mpc = false := by
  have R := mRespawnCheck_okD s
  have P := mOkD_parts _ R.1
  exact ⟨P.1, P.2.1, P.2.2.1, P.2.2.2.1, P.2.2.2.2, R.2.1, R.2.2.1⟩

theorem mDropRef_sfD (s : St) (hr : 2 ≤ s.refs) :
    mNeverD (mDropRef s).mpc = false ∧ mEmptyL (mDropRef s).mpc = false ∧ (mDropRef s).mpc ≠ .none ∧
    (mDropRef s).mpc ≠ .recv ∧ isClrRecv (mDropRef s).mpc = false ∧ mFinal (mDropRef s).mpc = false ∧
    mLate (mDropRef s).mpc = false ∧ mRef (mDropRef s).mpc = 0 := by
  have R := mDropRef_okD s hr
  have P := mOkD_parts _ R.1
  exact ⟨P.1, P.2.1, P.2.2.1, P.2.2.2.1, P.2.2.2.2, R.2.1, R.2.2.1, R.2.2.2.1⟩

theorem mSpawnLoop_sfD (s : St) :
    mNeverD (mSpawnLoop s).mpc = false ∧ mEmptyL (mSpawnLoop s).mpc = false ∧ (mSpawnLoop s).mpc ≠ .none ∧
    (mSpawnLoop s).mpc ≠ .recv ∧ isClrRecv (mSpawnLoop s).mpc = false ∧ mFinal (mSpawnLoop s).mpc = false ∧
    mLate (mSpawnLoop s).mpc = false ∧ mRef (mSpawnLoop s).mpc = 1 := by
  have R := mSpawnLoop_okD s
  have P := mOkD_parts _ R.1
  exact ⟨P.1, P.2.1, P.2.2.1, P.2.2.2.1, P.2.2.2.2, R.2.1, R.2.2.1, R.2.2.2⟩

theorem mAddF_sfD (s : St) :
    mNeverD (mAddF s).mpc = false ∧ mEmptyL (mAddF s).mpc = false ∧ (mAddF s).mpc ≠ .none ∧ (mAddF s).mpc ≠ .recv ∧
    isClrRecv (mAddF s).mpc = false ∧ mLate (mAddF s).mpc = false ∧ mRef (mAddF s).mpc = 0 := by
  have R := mAddF_okD s
  have P := mOkD_parts _ R.1
  exact ⟨P.1, P.2.1, P.2.2.1, P.2.2.2.1, P.2.2.2.2, R.2.1, R.2.2⟩

theorem mAfterFlag_sfD (s : St) (hk : s.killFlag = false) :
    mNeverD (mAfterFlag s).mpc = false ∧ mEmptyL (mAfterFlag s).mpc = false ∧ (mAfterFlag s).mpc ≠ .none ∧
    (mAfterFlag s).mpc ≠ .recv ∧ isClrRecv (mAfterFlag s).mpc = false ∧ mLate (mAfterFlag s).mpc = false ∧
    mRef (mAfterFlag s).mpc = 0 := by
  have R := mAfterFlag_okD s hk
  have P := mOkD_parts _ R.1
  exact ⟨P.1, P.2.1, P.2.2.1, P.2.2.2.1, P.2.2.2.2, R.2.1, R.2.2⟩

theorem mRelExitNext_sfD (s : St) (ps : List Pid) (n : Nat) :
    mNeverD (mRelExitNext s ps n).mpc = false ∧ mEmptyL (mRelExitNext s ps n).mpc = false ∧
    (mRelExitNext s ps n).mpc ≠ .none ∧ (mRelExitNext s ps n).mpc ≠ .recv ∧ isClrRecv (mRelExitNext s ps n).mpc = false ∧
    mFinal (mRelExitNext s ps n).mpc = true ∧ mLate (mRelExitNext s ps n).mpc = false ∧
    mRef (mRelExitNext s ps n).mpc = 0 := by
  have R := mRelExitNext_okD s ps n
  have P := mOkD_parts _ R.1
  exact ⟨P.1, P.2.1, P.2.2.1, P.2.2.2.1, P.2.2.2.2, R.2.1, R.2.2.1, R.2.2.2⟩

theorem mAliveNext_sfD (s : St) (ps : List Pid) (c n sent cool : Nat) :
    mNeverD (mAliveNext s ps c n sent cool).mpc = false ∧ mEmptyL (mAliveNext s ps c n sent cool).mpc = false ∧
    (mAliveNext s ps c n sent cool).mpc ≠ .none ∧ (mAliveNext s ps c n sent cool).mpc ≠ .recv ∧
    isClrRecv (mAliveNext s ps c n sent cool).mpc = false ∧ mFinal (mAliveNext s ps c n sent cool).mpc = true ∧
    mLate (mAliveNext s ps c n sent cool).mpc = false ∧ mRef (mAliveNext s ps c n sent cool).mpc = 0 := by
  have R := mAliveNext_okD s ps c n sent cool
  have P := mOkD_parts _ R.1
  exact ⟨P.1, P.2.1, P.2.2.1, P.2.2.2.1, P.2.2.2.2, R.2.1, R.2.2.1, R.2.2.2⟩

theorem mJoinProcs_sfD (s : St) :
    mNeverD (mJoinProcs s).mpc = false ∧ mEmptyL (mJoinProcs s).mpc = false ∧ (mJoinProcs s).mpc ≠ .none ∧
    (mJoinProcs s).mpc ≠ .recv ∧ isClrRecv (mJoinProcs s).mpc = false ∧ mFinal (mJoinProcs s).mpc = true ∧
    mLate (mJoinProcs s).mpc = true ∧ mRef (mJoinProcs s).mpc = 0 := by
  have R := mJoinProcs_okD s
  have P := mOkD_parts _ R.1
  exact ⟨P.1, P.2.1, P.2.2.1, P.2.2.2.1, P.2.2.2.2, R.2.1, R.2.2.1, R.2.2.2⟩

theorem mJoinClose_sfD (s : St) :
    mNeverD (mJoinClose s).mpc = false ∧ mEmptyL (mJoinClose s).mpc = false ∧ (mJoinClose s).mpc ≠ .none ∧
    (mJoinClose s).mpc ≠ .recv ∧ isClrRecv (mJoinClose s).mpc = false ∧ mFinal (mJoinClose s).mpc = true ∧
    mLate (mJoinClose s).mpc = true ∧ mRef (mJoinClose s).mpc = 0 := by
  have R := mJoinClose_okD s
  have P := mOkD_parts _ R.1
  exact ⟨P.1, P.2.1, P.2.2.1, P.2.2.2.1, P.2.2.2.2, R.2.1, R.2.2.1, R.2.2.2⟩

theorem mJoinLoop_sfD (s : St) (n sent cool : Nat) :
    mNeverD (mJoinLoop s n sent cool).mpc = false ∧ mEmptyL (mJoinLoop s n sent cool).mpc = false ∧
    (mJoinLoop s n sent cool).mpc ≠ .none ∧ (mJoinLoop s n sent cool).mpc ≠ .recv ∧
    isClrRecv (mJoinLoop s n sent cool).mpc = false ∧ mFinal (mJoinLoop s n sent cool).mpc = true ∧
    mRef (mJoinLoop s n sent cool).mpc = 0 := by
  have R := mJoinLoop_okD s n sent cool
  have P := mOkD_parts _ R.1
  exact ⟨P.1, P.2.1, P.2.2.1, P.2.2.2.1, P.2.2.2.2, R.2.1, R.2.2⟩

theorem mAfterPut_sfD (s : St) (k n sent cool : Nat) :
    mNeverD (mAfterPut s k n sent cool).mpc = false ∧ mEmptyL (mAfterPut s k n sent cool).mpc = false ∧
    (mAfterPut s k n sent cool).mpc ≠ .none ∧ (mAfterPut s k n sent cool).mpc ≠ .recv ∧
    isClrRecv (mAfterPut s k n sent cool).mpc = false ∧ mFinal (mAfterPut s k n sent cool).mpc = true ∧
    mRef (mAfterPut s k n sent cool).mpc = 0 := by
  have R := mAfterPut_okD s k n sent cool
  have P := mOkD_parts _ R.1
  exact ⟨P.1, P.2.1, P.2.2.1, P.2.2.2.1, P.2.2.2.2, R.2.1, R.2.2⟩

theorem mNeverD_clr (k : AfterClear) : mNeverD (.clrRecv k) = mNeverD (.clrPoll k) := by
  cases k with
  | broken b => rfl
  | item r =>
    cases r with
    | none => rfl
    | some r => cases r <;> rfl

theorem mRef_clr (k : AfterClear) : mRef (.clrRecv k) = 0 ∧ mRef (.clrPoll k) = 0 := ⟨rfl, rfl⟩

/-! ### summary of a manager step -/

structure MSumD (s s' : St) : Prop where
  nv : mNeverD s'.mpc = false
  em : mEmptyL s'.mpc = false
  nn : s'.mpc ≠ .none
  nn0 : s.mpc ≠ .none
  rc : s'.mpc = .recv → s'.rqPipe ≠ []
  cr : isClrRecv s'.mpc = true → 0 < s'.wakeup
  fin : mFinal s.mpc = true → mFinal s'.mpc = true
  q : QOk s'.cqBuf s'.cqPipe s'.fpc (mLate s'.mpc) true
  wc : s'.wakeupClosed = true → s.wakeupClosed = true ∨ mFinal s'.mpc = true
  rq : ∀ r ∈ s'.rqPipe, r ∈ s.rqPipe
  sp : (s'.allPids = s.allPids ∧ s'.w = s.w) ∨ (s'.allPids = s.allPids ++ [s.nextPid] ∧ s'.w = upd s.w s.nextPid .start)
  refs : s'.refs + mRef s.mpc = s.refs + mRef s'.mpc
  upc : s'.upc = s.upc
  ucur : s'.ucur = s.ucur
  uscript : s'.uscript = s.uscript
  cfg : s'.cfg = s.cfg
  broken : s'.broken = s.broken
  killFlag : s'.killFlag = s.killFlag
  threadReg : s'.threadReg = s.threadReg
  leaky : s'.leaky = s.leaky
  created : s'.created = s.created
  held : s'.held = s.held


theorem refs_of_di (s : St) (h : DI s) (hm : s.mpc ≠ .none) : 1 + mRef s.mpc ≤ s.refs := by
  have hc := h.mc hm
  have hh := h.hd
  rw [hc] at hh
  have := h.cnt
  simp only [heldN, hh, if_true] at this
  omega

set_option maxHeartbeats 16000000 in
theorem mSumD_step (s s' : St) (v : Variant) (h : DI s)
    (hsnap : ∀ sn, s.mpc = .wait sn → ∀ p ∈ sn, isDead s p = true → s.rqPipe ≠ [])
    (hs : stepM s v = some s') : MSumD s s' := by
  have hq := h.q
  have hmn := h.mn
  have hk := h.kf
  have hrefs := refs_of_di s h
  have hrecv : ∀ r ∈ s.rqPipe, rBad r = false := h.rb
  have hwait : ∀ snap, s.mpc = .wait snap → s.rqPipe = [] → snap.any (isDead s) = false := by
    intro snap e hr
    rw [List.any_eq_false]
    intro p hp' hd
    exact hsnap snap e p hp' hd hr
  unfold stepM at hs
  crack
  all_goals (first | (simp_all [mNeverD]; done) | skip)
  all_goals (first
    | (exfalso; have := hwait _ ‹_› (by simpa using ‹¬ s.rqPipe ≠ []›); simp_all; done)
    | (exfalso; have := hrecv _ (by rw [‹s.rqPipe = _›]; exact List.Mem.head _); simp [rBad] at this; done)
    | skip)
  all_goals (first | (have hr2 : 2 ≤ s.refs := by (have := hrefs (by simp [*]); simp [*, mRef] at this; omega)) | skip)
  all_goals (first | (have R := mDropRef_sfD { s with mgmt := s.mgmt + 1, oMgmt := none } hr2) | skip)
  all_goals constructor
  all_goals (first
    | rfl
    | (simp [mAdd_sfD, mAfterItem_sfD, mAddF_sfD, mAfterFlag_sfD, mRelExitNext_sfD, mProcess_sfD, mRespawnCheck_sfD,
         mSpawnLoop_sfD, mAliveNext_sfD, mJoinProcs_sfD, mJoinClose_sfD, mJoinLoop_sfD, mAfterPut_sfD, mJoinStart_mpc',
         mAfterFlag_w, hk, *]; done)
    | (simp [mNeverD, mEmptyL, isClrRecv, mFinal, mLate, mRef, *]; done)
    | (simp [mAdd_sfD, mAfterItem_sfD, mAddF_sfD, mAfterFlag_sfD, mRelExitNext_sfD, mProcess_sfD, mRespawnCheck_sfD,
         mSpawnLoop_sfD, mAliveNext_sfD, mJoinProcs_sfD, mJoinClose_sfD, mJoinLoop_sfD, mAfterPut_sfD, mJoinStart_mpc',
         mAfterFlag_w, hk, *] <;> simp [mRef]; done)
    | (rw [(mRespawnCheck_okD _).2.2.2]; generalize mRef (mRespawnCheck _).mpc = z; simp [*, mRef]; done)
    | (have R' := mDropRef_okD { s with mgmt := s.mgmt + 1, oMgmt := none } hr2
       rw [R'.2.2.2.2, R'.2.2.2.1]; simp [*, mRef]; omega)
    | (have e := ‹s.mpc = _›; rw [e] at hmn; show mNeverD (MPc.clrRecv _) = false; rw [mNeverD_clr]; exact hmn)
    | (have e := ‹s.mpc = _›; rw [e] at hmn; show mNeverD (MPc.clrPoll _) = false; rw [← mNeverD_clr]; exact hmn)
    | (have := hrecv _ (by rw [‹s.rqPipe = _›]; exact List.Mem.head _)
       show mNeverD (MPc.clrPoll (.item (some _))) = false
       cases ‹RMsg› <;> simp_all [mNeverD, rBad]; done)
    | (intro r hr'; rw [‹s.rqPipe = _›]; exact List.mem_cons_of_mem _ hr')
    | (right; simp [mSpawnLoop_sfD, spawn]; done)
    | (intro hw; left; simpa using hw)
    | (exact R.1) | (exact R.2.1) | (exact R.2.2.1) | (intro e; exact absurd e R.2.2.2.1)
    | (intro e; rw [R.2.2.2.2.1] at e; cases e)
    | skip)
  -- the call queue
  all_goals (first
    | (refine qOk_same hq ?e1 ?e2 ?e3 ?hl (fun _ => rfl)
       case e1 => simp
       case e2 => simp
       case e3 => simp
       case hl =>
         intro hl
         first
          | (simp [*, mLate] at hl; done)
          | (simp [mJoinProcs_sfD]; done)
          | (simp [mLate]; done))
    | (simp only [mAdd_cqBuf, mAdd_cqPipe, mAdd_fpc, mAddF_cqBuf, mAddF_cqPipe, mAddF_fpc]
       refine qOk_push hq ?h0 _ rfl rfl ?e3 ?hm (fun _ => rfl) (fun _ => rfl)
       case h0 => simp [*, mLate]
       case e3 => simp [*]
       case hm => simp [isClose])
    | (have hq' := hq; rw [‹s.mpc = _›] at hq'
       first
        | (refine mJoinLoop_q _ _ _ _ true ?_; exact hq')
        | (refine mJoinClose_q' _ true ?_; exact hq')
        | (refine mAfterPut_q _ _ _ _ _ true ?_
           refine qOk_push hq' rfl _ rfl rfl ?e3 ?hm (fun _ => rfl) (fun _ => rfl)
           case e3 => simp [*]
           case hm => simp [isClose]))
    | skip)



theorem usersOf_cfg (s s' : St) (h : s'.cfg = s.cfg) : usersOf s' = usersOf s := by simp [usersOf, h]

theorem di_stepM (s s' : St) (v : Variant) (h : DI s) (hl : ∀ q, s.leaky q = false)
    (hsnap : ∀ sn, s.mpc = .wait sn → ∀ p ∈ sn, isDead s p = true → s.rqPipe ≠ [])
    (hs : stepM s v = some s') : DI s' ∧ ∀ q, s'.leaky q = false := by
  have M := mSumD_step s s' v h hsnap hs
  refine ⟨?_, by rw [M.leaky]; exact hl⟩
  have hall : ∀ (P : WPc → Bool), P .start = false → (∀ q ∈ s.allPids, P (s.w q) = false) →
      ∀ q ∈ s'.allPids, P (s'.w q) = false := by
    intro P h0 h1 q hq
    rcases M.sp with ⟨e1, e3⟩ | ⟨e1, e3⟩
    · rw [e3]; rw [e1] at hq; exact h1 q hq
    · rw [e3, upd_apply']
      split
      · exact h0
      · rename_i hne
        rw [e1] at hq
        rcases List.mem_append.1 hq with hq | hq
        · exact h1 q hq
        · exact absurd (by simpa using hq) hne
  have hu := usersOf_cfg s s' M.cfg
  refine { mn := M.nv, br := ?br, kf := ?kf, wn := hall _ rfl h.wn, mc := ?mc, rc := M.rc, cr := M.cr, je := M.em, api := ?api,
           wc := ?wc, pe := ?pe, wb := hall _ rfl h.wb, rb := ?rb, q := M.q, tr := fun _ => M.nn,
           nks := ?nks, nkc := ?nkc, nkp := ?nkp, fu := fun e => absurd e M.nn, tsn := ?tsn, hd := ?hd, cnt := ?cnt,
           nc := ?nc, one := ?one }
  all_goals try simp only [heldN, createdN, hu, M.upc, M.ucur, M.uscript, M.cfg, M.broken, M.killFlag, M.created, M.held]
  case br => exact h.br
  case kf => exact h.kf
  case mc => intro _; exact h.mc M.nn0
  case api => exact h.api
  case wc =>
    intro hw
    rcases M.wc hw with e | e
    · exact M.fin (h.wc e)
    · exact e
  case pe => intro k hk _; exact M.nn
  case rb => intro r hr; exact h.rb r (M.rq r hr)
  case nks => exact h.nks
  case nkc => exact h.nkc
  case nkp => exact h.nkp
  case tsn => intro k hk hm; exact absurd (h.tsn k hk hm) M.nn0
  case hd => exact h.hd
  case cnt =>
    have h1 := h.cnt
    have h2 := M.refs
    simp only [heldN] at h1
    omega
  case nc => exact h.nc
  case one => have := h.one; simpa only [createdN] using this

end LokyModel.Exec.DynP
