import LokyModel.Lemmas.ExecLiveSlot
import LokyModel.ExecLiveMeasureDef
/-! Shared tools for the proof that `mu` (`LokyModel/ExecLiveMeasureDef.lean`) decreases: arithmetic of `psi`, sums with one
    changed summand, one assembly lemma per actor (what a step of that actor has to show), and what the local
    continuations do to the summands they touch. -/
namespace LokyModel.Exec
set_option linter.unusedSimpArgs false
set_option linter.unusedVariables false

/-! ### `psi` -/

theorem psi_sent (B n sent cool : Nat) (h : sent < n) : psi B n (sent + 1) cool + (B + 30) = psi B n sent cool := by
  unfold psi
  have e : n - sent = (n - (sent + 1)) + 1 := by omega
  rw [e, Nat.add_mul]
  omega

theorem psi_sent_le (B n sent cool : Nat) : psi B n (sent + 1) cool ≤ psi B n sent cool := by
  unfold psi
  have : (n - (sent + 1)) * (B + 30) ≤ (n - sent) * (B + 30) := Nat.mul_le_mul_right _ (by omega)
  omega

theorem psi_cool (B n sent cool : Nat) (h : cool < 47) : psi B n sent (cool + 1) + (B + 10) = psi B n sent cool := by
  unfold psi
  have e : 47 - cool = (47 - (cool + 1)) + 1 := by omega
  rw [e, Nat.add_mul]
  omega

theorem psi_cool_le (B n sent cool : Nat) : psi B n sent (cool + 1) ≤ psi B n sent cool := by
  unfold psi
  have : (47 - (cool + 1)) * (B + 10) ≤ (47 - cool) * (B + 10) := Nat.mul_le_mul_right _ (by omega)
  omega

theorem psi_mono (B n n' : Nat) (h : n ≤ n') : psi B n 0 0 ≤ psi B n' 0 0 := by
  unfold psi
  have : (n - 0) * (B + 30) ≤ (n' - 0) * (B + 30) := Nat.mul_le_mul_right _ (by omega)
  omega

theorem psi_zero (B n cool : Nat) : psi B n 0 cool ≤ psi B n 0 0 := by
  unfold psi
  have : (47 - cool) * (B + 10) ≤ (47 - 0) * (B + 10) := Nat.mul_le_mul_right _ (by omega)
  omega

/-- while a sentinel is still to be put, `psi` is worth at least one of them -/
theorem psi_pos (B n sent cool : Nat) (h : sent < n) : B + 30 ≤ psi B n sent cool := by
  have := psi_sent B n sent cool h
  omega

/-! ### the manager's rank does not grow when a byte is written to the wake-up pipe -/

theorem mRankOf_wk (B wk wk' pd : Nat) (pc : MPc) (h : wk ≤ wk') : mRankOf B wk' pd pc ≤ mRankOf B wk pd pc := by
  cases pc <;> try exact Nat.le_refl _
  all_goals (rename_i k; cases k with
    | broken b => exact Nat.le_refl _
    | item r =>
      cases r with
      | some r => exact Nat.le_refl _
      | none =>
        simp only [mRankOf]
        first | exact Nat.le_refl _ | (split <;> split <;> omega))

/-- … and grows by at most one per process registered -/
theorem mRankOf_pd (B wk pd : Nat) (pc : MPc) : mRankOf B wk (pd + 1) pc ≤ mRankOf B wk pd pc + 1 := by
  cases pc <;> simp only [mRankOf] <;> try omega
  all_goals (rename_i k; cases k with
    | broken b => simp [mRankOf]
    | item r => cases r <;> simp [mRankOf])

/-! ### sums with one changed summand -/

theorem sumL_point (g g' : Nat → Nat) (k : Nat) (l : List Nat) (hn : l.Nodup) (hk : k ∈ l)
    (ho : ∀ j, j ≠ k → g' j = g j) : sumL g' l + g k = sumL g l + g' k := by
  induction l with
  | nil => simp at hk
  | cons a l ih =>
    simp only [List.nodup_cons] at hn
    simp only [sumL_cons]
    by_cases ha : a = k
    · subst ha
      have : sumL g' l = sumL g l := sumL_congr _ _ _ (fun x hx => ho x (fun e => hn.1 (e ▸ hx)))
      omega
    · have hk' : k ∈ l := by
        rcases List.mem_cons.1 hk with e | e
        · exact absurd e.symm ha
        · exact e
      have := ih hn.2 hk'
      rw [ho a ha]
      omega

theorem uSum_point (s s' : St) (k : Nat) (hk : k < s.cfg.scripts.length) (hcfg : s'.cfg = s.cfg)
    (ho : ∀ j, j ≠ k → s'.upc j = s.upc j ∧ s'.uscript j = s.uscript j) :
    uSum s' + uPot s k = uSum s + uPot s' k := by
  unfold uSum
  rw [hcfg]
  apply sumL_point _ _ k _ List.nodup_range (List.mem_range.2 hk)
  intro j hj
  unfold uPot
  rw [(ho j hj).1, (ho j hj).2]

theorem uSum_same (s s' : St) (hcfg : s'.cfg = s.cfg) (hupc : s'.upc = s.upc) (hus : s'.uscript = s.uscript) :
    uSum s' = uSum s := by
  unfold uSum uPot
  rw [hcfg, hupc, hus]

theorem wSum_same (s s' : St) (hall : s'.allPids = s.allPids) (hw : s'.w = s.w) : wSum s' = wSum s := by
  unfold wSum
  rw [hall, hw]

theorem wSum_point (s s' : St) (p : Pid) (hn : s.allPids.Nodup) (hm : p ∈ s.allPids) (hall : s'.allPids = s.allPids)
    (hw : ∀ q, q ≠ p → s'.w q = s.w q) : wSum s' + wRank (s.w p) = wSum s + wRank (s'.w p) := by
  unfold wSum
  rw [hall]
  exact sumL_w_step wRank s.w s'.w p s.allPids hn hm hw

theorem wSum_spawn (s : St) (hp : PidsInv s) : wSum (spawn s) = wSum s + 18 := by
  have hni : s.nextPid ∉ s.allPids := fun h => Nat.lt_irrefl _ (hp.lt _ h)
  unfold wSum
  rw [spawn_allPids', spawn_w', sumL_append, sumL_upd_notin wRank s.w s.nextPid .start s.allPids hni]
  simp [upd, wRank]

/-! ### assembly: what a step of each actor has to show -/

/-- a worker step: only its own program counter, the two pipes (and fields `mu` does not read) change -/
theorem mu_W (s s' : St) (p : Pid) (hn : s.allPids.Nodup) (hm : p ∈ s.allPids)
    (hall : s'.allPids = s.allPids) (hw : ∀ q, q ≠ p → s'.w q = s.w q)
    (hcfg : s'.cfg = s.cfg) (hupc : s'.upc = s.upc) (hus : s'.uscript = s.uscript) (hmpc : s'.mpc = s.mpc)
    (hwk : s'.wakeup = s.wakeup) (hpd : s'.procDict = s.procDict) (hfpc : s'.fpc = s.fpc)
    (hwi : s'.workIds = s.workIds) (hbuf : s'.cqBuf = s.cqBuf)
    (hmain : wRank (s'.w p) + 15 * s'.cqPipe.length + 6 * s'.rqPipe.length <
             wRank (s.w p) + 15 * s.cqPipe.length + 6 * s.rqPipe.length) : mu s' < mu s := by
  have h1 := wSum_point s s' p hn hm hall hw
  have h2 := uSum_same s s' hcfg hupc hus
  unfold mu mRank qPot
  rw [h2, hcfg, hmpc, hwk, hpd, hfpc, hwi, hbuf, hall]
  omega

/-- a feeder step -/
theorem mu_F (s s' : St) (hall : s'.allPids = s.allPids) (hw : s'.w = s.w)
    (hcfg : s'.cfg = s.cfg) (hupc : s'.upc = s.upc) (hus : s'.uscript = s.uscript) (hmpc : s'.mpc = s.mpc)
    (hpd : s'.procDict = s.procDict) (hwi : s'.workIds = s.workIds) (hrq : s'.rqPipe = s.rqPipe)
    (hwk : s.wakeup ≤ s'.wakeup)
    (hmain : fRank s'.fpc + 20 * s'.cqBuf.length + 15 * s'.cqPipe.length + 7 * s'.wakeup <
             fRank s.fpc + 20 * s.cqBuf.length + 15 * s.cqPipe.length + 7 * s.wakeup) : mu s' < mu s := by
  have h1 := wSum_same s s' hall hw
  have h2 := uSum_same s s' hcfg hupc hus
  have h3 := mRankOf_wk s.cfg.maxWorkers s.wakeup s'.wakeup s.procDict.length s.mpc hwk
  unfold mu mRank qPot
  rw [h1, h2, hcfg, hmpc, hpd, hwi, hrq, hall]
  omega

/-- the part of `mu` that a step of the manager (other than the never-taken ones) can change -/
def muM (s : St) : Nat :=
  mRank s + fRank s.fpc + 24 * s.workIds.length + 20 * s.cqBuf.length + 6 * s.rqPipe.length + 7 * s.wakeup

theorem mu_M (s s' : St) (hall : s'.allPids = s.allPids) (hw : s'.w = s.w)
    (hcfg : s'.cfg = s.cfg) (hupc : s'.upc = s.upc) (hus : s'.uscript = s.uscript) (hpipe : s'.cqPipe = s.cqPipe)
    (hmain : muM s' < muM s) : mu s' < mu s := by
  have h1 := wSum_same s s' hall hw
  have h2 := uSum_same s s' hcfg hupc hus
  unfold muM at hmain
  unfold mu qPot
  rw [h1, h2, hcfg, hpipe, hall]
  omega

/-- the part of `mu` that a step of user thread `k` can change -/
def muU (s : St) (k : Nat) : Nat :=
  uPot s k + mRank s + wSum s + 24 * s.workIds.length + 7 * s.wakeup + 22 * (s.cfg.maxWorkers - s.allPids.length)

theorem mu_U (s s' : St) (k : Nat) (hk : k < s.cfg.scripts.length) (hcfg : s'.cfg = s.cfg)
    (ho : ∀ j, j ≠ k → s'.upc j = s.upc j ∧ s'.uscript j = s.uscript j)
    (hfpc : s'.fpc = s.fpc) (hbuf : s'.cqBuf = s.cqBuf) (hpipe : s'.cqPipe = s.cqPipe) (hrq : s'.rqPipe = s.rqPipe)
    (hmain : muU s' k < muU s k) : mu s' < mu s := by
  have h1 := uSum_point s s' k hk hcfg ho
  unfold muU at hmain
  unfold mu qPot
  rw [hfpc, hbuf, hpipe, hrq]
  omega

end LokyModel.Exec
