import LokyModel.Lemmas.ExecLiveDCHolderWF
import LokyModel.Lemmas.ExecLiveDCHolderM
import LokyModel.Lemmas.ExecLiveDCHolderU
import LokyModel.Lemmas.ExecLiveDCHolderExit
/-! `dcHolder` — lock holders of a dynamic pool (idle time-out configured) whose workers may die at any point at which they
    hold no kernel lock — is an inductive invariant of lock-free runs (`ReachableLF`) once strengthened to `dcHolder'`
    (`LokyModel/ExecLiveDCDef.lean`), on steps in which the manager's own SIGKILL does not hit a worker inside the window
    of the process-management lock (`killsERel s = false`; the listed finding D5).  Pre-state facts used: `PidsInv s` and,
    of `dcSmall s`, only that `kill_workers` is never requested. -/
namespace LokyModel.Exec

theorem dcHolder'_init (cfg : Cfg) : dcHolder' (init cfg) = true :=
  bool_of_holderInvD (holderInvD_init cfg) (exitInv_init cfg)

/-- the Prop form of the invariant over one step of a lock-free run -/
theorem holderInvD_stepLF {s s' : St} {a : Actor} {v : Variant} (hs : step s a v = some s') (hlf : StepLF s a v)
    (hks : a = .M → killsERel s = false) (hp : PidsInv s) (hkf : s.killFlag = false)
    (h : HolderInvD s) (hx : ExitInv s) : HolderInvD s' ∧ ExitInv s' := by
  unfold step at hs
  cases a with
  | U k =>
    simp only [] at hs; split at hs
    · exact ⟨holderInvD_stepU s s' k v (by assumption) hp h hs,
        exitInvD_stepU s s' k v (by assumption) hp h.mgmt hx hs⟩
    · cases hs
  | M =>
    exact ⟨holderInvD_stepM s s' v hp hkf (relExitSafe_of_exitInv hx) (hks rfl) h hs,
      exitInvD_stepM s s' v hp h.mgmt hx hs⟩
  | F => exact ⟨holderInvD_stepF s s' v h hs, exitInv_stepF s s' v hx hs⟩
  | W p =>
    simp only [] at hs; split at hs
    · rename_i hin
      refine ⟨holderInvD_stepW s s' p v ?_ h hs, exitInv_stepW s s' p v hp hin hx hs⟩
      intro hv
      rcases hlf with hne | ⟨q, hq, hl⟩
      · exact absurd hv hne
      · cases hq; exact hl
    · cases hs

theorem dcHolder'_stepLF {s s' : St} {a : Actor} {v : Variant} (hs : step s a v = some s') (hlf : StepLF s a v)
    (hks : a = .M → killsERel s = false)
    (hp : PidsInv s) (hsm : dcSmall s = true) (h : dcHolder' s = true) : dcHolder' s' = true := by
  obtain ⟨hh, hx⟩ := holderInvD_of_bool hp h
  obtain ⟨hh', hx'⟩ := holderInvD_stepLF hs hlf hks hp (dcSmall_killFlag s hsm) hh hx
  exact bool_of_holderInvD hh' hx'

theorem dcHolder_of' (s : St) (h : dcHolder' s = true) : dcHolder s = true := dcHolder_of_bool h

end LokyModel.Exec
