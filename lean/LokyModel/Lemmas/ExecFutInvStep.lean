import LokyModel.Lemmas.ExecFutInvM
namespace LokyModel.Exec

macro "fs_frame" s:term "," h:term : tactic => `(tactic| (
  refine fs_same $s _ $h ?_ ?_ ?_ ?_ ?_
  · simp
  · simp
  · simp
  · intro i; simp
  · simp))

set_option maxHeartbeats 4000000 in
theorem fs_stepW (s s' : St) (p : Pid) (v : Variant) (h : FutInv s) (hs : stepW s p v = some s') : FS s s' := by
  unfold stepW at hs
  crack_step
  all_goals (first | (fs_frame s, h; done) | skip)

theorem fs_errSem (s s' : St) (h : FutInv s) (ht : TokInv s) (w : Wid) (hpc : s.fpc = .errSem w)
    (hs : stepF s .ok = some s') : FS s s' := by
  obtain ⟨n1, n2⟩ := fut_of_fpc s ht w (by simp [hpc, fPreC, ind])
  have hnw : w ∉ s.workIds := by
    intro hm
    have : 0 < s.workIds.count w := List.count_pos_iff.mpr hm
    have := ht.once w
    have : 1 ≤ preOut s w := by simp [preOut, hpc, fPreC, ind]; omega
    omega
  unfold stepF at hs
  simp only [hpc] at hs
  cases hs
  by_cases hip : w ∈ s.pending
  · simp only [hip, if_true]
    have hrun : futOf s w = .running := by
      rcases h.pfut w hip with e | e | e
      · exact absurd e n1
      · exact e
      · exact absurd e n2
    have hlt := h.plt w hip
    have key : ∀ s1 : St, s1.futs = (setFut s w .excFeeder).futs → s1.pending = s.pending.erase w →
        s1.workIds = s.workIds → s1.execW = s.execW → s1.mpc = s.mpc → FS s s1 := by
      intro s1 h1 h2 h3 h4 h5
      have hfo : ∀ j, futOf s1 j = if j = w then .excFeeder else futOf s j := by
        intro j
        have e1 : futOf s1 j = futOf (setFut s w .excFeeder) j := by simp [futOf, h1]
        rw [e1, futOf_setFut]
        by_cases hj : j = w
        · simp [hj, hlt]
        · simp [hj]
      refine fut_move _ _ h (by rw [h1]; simp) (fun _ => by rw [h4]; exact Nat.le_refl _) ?_ ?_
      · intro j
        unfold FRel
        rw [hfo j]
        by_cases hj : j = w
        · subst hj
          refine ⟨by rw [h2, count_erase_self' _ _ (h.pnodup j)]; exact Nat.zero_le _, ?_⟩
          right; left
          refine ⟨hip, ?_, Or.inr hrun, by simp [Fut.done], fun hv => by simp at hv⟩
          rw [h2]; intro hm
          have : 0 < (s.pending.erase j).count j := List.count_pos_iff.mpr hm
          rw [count_erase_self' _ _ (h.pnodup j)] at this; omega
        · refine ⟨by rw [h2, count_erase_ne' _ _ _ (Ne.symm hj)]; exact Nat.le_refl _, ?_⟩
          left; rw [if_neg hj]
          refine ⟨rfl, fun hm hn => ?_⟩
          exfalso; apply hn; rw [h2]
          exact (List.mem_erase_of_ne hj).mpr hm
      · intro hl j hj
        rw [h5] at hl
        rw [h3] at hj
        have := h.wk hl j hj
        have hne : j ≠ w := fun e => hnw (e ▸ hj)
        rw [hfo j, h2, if_neg hne]
        exact ⟨(List.mem_erase_of_ne hne).mpr this.1, this.2⟩
    exact key _ rfl rfl rfl rfl rfl
  · simp only [hip, if_false]
    fs_frame s, h

set_option maxHeartbeats 4000000 in
theorem fs_stepF (s s' : St) (v : Variant) (h : FutInv s) (ht : TokInv s) (hs : stepF s v = some s') : FS s s' := by
  by_cases hE : ∃ w, s.fpc = .errSem w
  · obtain ⟨w, hw⟩ := hE
    cases v with
    | ok => exact fs_errSem s s' h ht w hw hs
    | _ => unfold stepF at hs; simp [hw] at hs
  · unfold stepF at hs
    crack_step
    all_goals (first
      | (exact absurd ⟨_, ‹s.fpc = _›⟩ hE)
      | (fs_frame s, h; done)
      | skip)


theorem fs_via (s X0 s' : St) (f0 : FS s X0) (t0 : TokInv X0) (k : FutInv X0 → TokInv X0 → FS X0 s') : FS s s' :=
  f0.trans (k f0.1 t0)

macro "fs_frameM" s:term "," h:term : tactic => `(tactic| (
  refine fs_same $s _ $h ?_ ?_ ?_ ?_ ?_
  · simp
  · simp
  · simp
  · intro i; simp
  · intro hl; first | (simp at hl; done) | simp_all [mTerm]))

set_option maxHeartbeats 4000000 in
theorem fs_stepM (s s' : St) (v : Variant) (h : FutInv s) (ht : TokInv s) (hs : stepM s v = some s') : FS s s' := by
  unfold stepM at hs
  crack_step
  all_goals (first
    | (fs_frameM s, h; done)
    | (refine fs_via s _ _ ?_ ?_ (fs_mAdd _)
       · fs_frameM s, h
       · tok_simple s, ht)
    | (refine fs_via s _ _ ?_ ?_ (fs_mAddF _)
       · fs_frameM s, h
       · tok_simple s, ht)
    | (refine fs_via s _ _ ?_ ?_ (fs_mAfterItem _)
       · fs_frameM s, h
       · tok_simple s, ht)
    | (refine fs_via s _ _ ?_ ?_ (fs_mRespawnCheck _)
       · fs_frameM s, h
       · tok_simple s, ht)
    | (refine fs_via s _ _ ?_ ?_ (fs_mDropRef _)
       · fs_frameM s, h
       · tok_simple s, ht)
    | (refine fs_via s _ _ ?_ ?_ (fs_mAfterFlag _)
       · fs_frameM s, h
       · tok_simple s, ht)
    | (exact fs_mProcess s _ h ht ‹_›)
    | (refine fs_failAll s _ .excTerminated h ?_ ?_ ?_ ?_ ?_
       · simp
       · simp [failAll]
       · simp
       · simp
       · simp)
    | (refine fs_failAll s _ .excBroken h ?_ ?_ ?_ ?_ ?_
       · simp
       · simp [failAll]
       · simp
       · simp
       · simp)
    | skip)

end LokyModel.Exec
