import LokyModel.Lemmas.ExecLiveDCSmallW
import LokyModel.Lemmas.ExecLiveDCSmallM
import LokyModel.Lemmas.ExecLiveDCSmallU
import LokyModel.Lemmas.ExecLiveDynOk
import LokyModel.Lemmas.ExecSpawn
/-!
# `dcSmall` is invariant along lock-free crash runs of a dynamic pool

`dcSmall` (`LokyModel/ExecLiveDCDef.lean`) = `smallOk` && D1 (no worker at a `wNeverD` program counter) && D2 (close
sentinel) && D3 (a registered manager thread exists) && D4 (`kill_workers` is never requested) && D5 (futures before the
manager thread) && D6 (a thread about to start the manager thread has found that there is none).  No strengthening is
needed: it is inductive as it stands.  Every step preserves it — ordinary steps of any actor (variants ok / timeout /
fail), the manager's `kill` (wherever the victim is), and the death of a worker at ANY program counter (the hypothesis
`StepLF` is not used) — given, about the pre-state only: the scope `Cfg.dynPool`, `LeakFree` (no worker has the leak mark;
inductive by itself in the scope, `leakFreeD_step`, crashes included), `TStartInv` and `MgmtInv` (the two give D6 of the
post-state through `tstartInv_step`; both hold in every `Reachable` state).  `PidsInv` is accepted for uniformity with the
other ingredients and not used.  Per actor: `ExecLiveDCSmallW.lean` (workers, feeder), `ExecLiveDCSmallM.lean`,
`ExecLiveDCSmallU.lean`; the proposition form is `DCSmallP.SmI` (`ExecLiveDCSmallBase.lean`).
-/
namespace LokyModel.Exec
open StaticP StaticCP DynP DCSmallP

theorem dcSmall_init (cfg : Cfg) (hc : cfg.dynPool = true) : dcSmall (init cfg) = true :=
  bool_of_smI _ (smI_init cfg hc) (tsnU_init cfg)

/-- the proposition form is preserved by every step (crash steps of any worker included) -/
theorem smI_step {s s' : St} {a : Actor} {v : Variant} (hs : step s a v = some s')
    (hc : s.cfg.dynPool = true) (hp : PidsInv s) (hts : TStartInv s) (hl : LeakFree s) (hi : SmI s) : SmI s' := by
  unfold step at hs
  cases a with
  | U k =>
    simp only [] at hs; split at hs
    · exact smI_stepU s s' k v hi hp hts (by assumption) hs
    · cases hs
  | M => exact smI_stepM s s' v hi hs
  | F => exact smI_stepF s s' v hi hs
  | W p =>
    simp only [] at hs; split at hs
    · exact smI_stepW s s' p v hc (by assumption) hi hl hs
    · cases hs

/-- `dcSmall` is preserved by every step; `_hlf` (ordinary step, or crash at a lock-free point) is not needed: the death of
    a worker anywhere preserves it -/
theorem dcSmall_stepLF {s s' : St} {a : Actor} {v : Variant} (hs : step s a v = some s') (_hlf : StepLF s a v)
    (hc : s.cfg.dynPool = true) (hp : PidsInv s) (hts : TStartInv s) (hm : MgmtInv s) (hl : LeakFree s)
    (h : dcSmall s = true) : dcSmall s' = true := by
  have hi := (smI_of_bool s h).1
  have hts' : TStartInv s' := tstartInv_step hm hts hs
  exact bool_of_smI s' (smI_step hs hc hp hts hl hi) (fun k _ => hts' k)

/-- the same without the lock-free side condition -/
theorem dcSmall_step {s s' : St} {a : Actor} {v : Variant} (hs : step s a v = some s')
    (hc : s.cfg.dynPool = true) (hp : PidsInv s) (hts : TStartInv s) (hm : MgmtInv s) (hl : LeakFree s)
    (h : dcSmall s = true) : dcSmall s' = true := by
  have hi := (smI_of_bool s h).1
  have hts' : TStartInv s' := tstartInv_step hm hts hs
  exact bool_of_smI s' (smI_step hs hc hp hts hl hi) (fun k _ => hts' k)

/-! ### with `LeakFree`: a self-contained invariant of `ReachableLF` (and of `Reachable`) -/

/-- both parts together -/
def DCSmallInv (s : St) : Prop := dcSmall s = true ∧ LeakFree s

theorem dcSmallInv_init (cfg : Cfg) (hc : cfg.dynPool = true) : DCSmallInv (init cfg) :=
  ⟨dcSmall_init cfg hc, leakFree_init cfg⟩

theorem dcSmallInv_step {s s' : St} {a : Actor} {v : Variant} (hs : step s a v = some s')
    (hc : s.cfg.dynPool = true) (hp : PidsInv s) (hts : TStartInv s) (hm : MgmtInv s)
    (h : DCSmallInv s) : DCSmallInv s' :=
  ⟨dcSmall_step hs hc hp hts hm h.2 h.1, leakFreeD_step hs hc h.2⟩

theorem dcSmallInv_stepLF {s s' : St} {a : Actor} {v : Variant} (hs : step s a v = some s')
    (_hlf : StepLF s a v) (hc : s.cfg.dynPool = true) (hp : PidsInv s) (hts : TStartInv s) (hm : MgmtInv s)
    (h : DCSmallInv s) : DCSmallInv s' := dcSmallInv_step hs hc hp hts hm h

/-- in fact along every run of a dynamic pool, whatever the crash points -/
theorem dcSmallInv_reachable {cfg : Cfg} (hc : cfg.dynPool = true) {s : St} (h : Reachable cfg s) : DCSmallInv s := by
  induction h with
  | init => exact dcSmallInv_init cfg hc
  | step hr hs ih =>
    have hcfg := cfg_reachable hr
    exact dcSmallInv_step hs (by rw [hcfg]; exact hc) (pidsInv_reachable hr) (tstartInv_reachable hr)
      (mgmtInv_reachable hr) ih

theorem dcSmallInv_reachableLF {cfg : Cfg} (hc : cfg.dynPool = true) {s : St} (h : ReachableLF cfg s) : DCSmallInv s :=
  dcSmallInv_reachable hc h.reachable

/-- the ingredient holds in every state of a lock-free crash run of a dynamic pool -/
theorem dcSmall_reachableLF {cfg : Cfg} (hc : cfg.dynPool = true) {s : St} (h : ReachableLF cfg s) : dcSmall s = true :=
  (dcSmallInv_reachableLF hc h).1

theorem leakFree_reachableLF_dyn {cfg : Cfg} (hc : cfg.dynPool = true) {s : St} (h : ReachableLF cfg s) : LeakFree s :=
  (dcSmallInv_reachableLF hc h).2

/-! ### the conjuncts, as propositions -/

theorem smallOk_of_dcSmall {s : St} (h : dcSmall s = true) : smallOk s = true := by
  unfold dcSmall at h
  simp only [Bool.and_eq_true] at h
  exact h.1.1.1.1.1.1.1.1.1.1

theorem dcSmall_wNeverD {s : St} (h : dcSmall s = true) : ∀ p ∈ s.allPids, wNeverD (s.w p) = false :=
  (smI_of_bool s h).1.wn

theorem dcSmall_killFlag {s : St} (h : dcSmall s = true) : s.killFlag = false := (smI_of_bool s h).1.kf

theorem dcSmall_tstart {s : St} (h : dcSmall s = true) :
    ∀ k, k < s.cfg.scripts.length → s.upc k = .subTStart → s.mpc = .none := (smI_of_bool s h).2

/-- the close sentinel: the facts about the call queue in the form the feeder / manager lemmas use -/
theorem dcSmall_qOk {s : St} (h : dcSmall s = true) : QOk s.cqBuf s.cqPipe s.fpc (mLate s.mpc) true :=
  (smI_of_bool s h).1.q

theorem dcSmall_threadReg {s : St} (h : dcSmall s = true) : s.threadReg = true → s.mpc ≠ .none := (smI_of_bool s h).1.tr

theorem dcSmall_noKillOps {s : St} (h : dcSmall s = true) :
    ∀ k, k < s.cfg.scripts.length →
      (∀ op ∈ s.uscript k, op.isKill = false) ∧ ucurOk (s.ucur k) = true ∧ isSdKill (s.upc k) = false :=
  fun k hk => ⟨(smI_of_bool s h).1.nks k hk, (smI_of_bool s h).1.nkc k hk, (smI_of_bool s h).1.nkp k hk⟩

theorem dcSmall_futs {s : St} (h : dcSmall s = true) :
    s.mpc = .none → s.futs = [] ∨ ∃ k, k < s.cfg.scripts.length ∧ subEarly (s.upc k) = true := (smI_of_bool s h).1.fu

end LokyModel.Exec
