import LokyModel.Lemmas.ExecOutcomeCWF
import LokyModel.Lemmas.ExecOutcomeCM
import LokyModel.Lemmas.ExecOutcomeCU
import LokyModel.Lemmas.ExecLiveCrashDefs
import LokyModel.Props.C05Live
/-! `OutInvC` holds in EVERY reachable state — crash steps of any worker at any point included — of a benign configuration
    without forced shutdown; in particular along the lock-free crash runs of static pools (`ReachableLF`). -/
namespace LokyModel.Exec

/-- one step, any actor, any variant (a crash included), on or off the manager's broken path.  Hypotheses on the
    pre-state only: `MsgInv` (a call item carries the task of its own work id) and `LenInv`. -/
theorem outInvC_step {s s' : St} {a : Actor} {v : Variant} (hb : s.cfg.benign) (hm : MsgInv s) (hl : LenInv s)
    (h : OutInvC s) (hs : step s a v = some s') : OutInvC s' := by
  unfold step at hs
  cases a with
  | U k => simp only [] at hs; split at hs; exact outInvC_stepU s s' k v h hl hs; cases hs
  | M => exact outInvC_stepM s s' v h hs
  | F => exact outInvC_stepF s s' v h hm hb hs
  | W p => simp only [] at hs; split at hs; exact outInvC_stepW s s' p v h hm hs; cases hs

theorem outInvC_reachable {cfg : Cfg} (hb : cfg.benign) (hk : cfg.noKill = true) {s : St} (h : Reachable cfg s) :
    OutInvC s := by
  induction h with
  | init => exact outInvC_init cfg hk
  | step hr hs ih =>
    exact outInvC_step (by rw [cfg_reachable hr]; exact hb) (msgInv_reachable hr) (lenInv_reachable hr) ih hs

/-- static pools, worker deaths at lock-free points -/
theorem outInvC_reachableLF {cfg : Cfg} (hc : cfg.staticPool = true) {s : St} (h : ReachableLF cfg s) : OutInvC s :=
  outInvC_reachable (benign_of_staticPool cfg hc) (noKill_of_staticPool cfg hc) h.reachable

/-- the executable form, as evaluated by `Drivers/LiveCheckOutcomeC.lean`, is a theorem -/
theorem outOkCB_reachable {cfg : Cfg} (hb : cfg.benign) (hk : cfg.noKill = true) {s : St} (h : Reachable cfg s) :
    outOkCB s = true := outOkCB_of_inv s (outInvC_reachable hb hk h)

/-- as long as the pool is not flagged broken the crash-free invariant `OutInv` holds — crash steps or not -/
theorem outInv_reachable_unbroken {cfg : Cfg} (hb : cfg.benign) (hk : cfg.noKill = true) {s : St} (h : Reachable cfg s)
    (hn : s.broken = none) : OutInv s := outInv_of_outInvC s (outInvC_reachable hb hk h) hn

end LokyModel.Exec
