import LokyModel.ExecLiveDCDef
/-! What `dcHolder` (lock holders of a dynamic pool whose workers may die at lock-free points) says about a lock that is
    taken: its holder is inside the section.  The dynamic-pool analogue of `holderC_facts`
    (`Lemmas/ExecLiveStuckCrash.lean`); the process-management lock may also be held by an idle worker at `eRel`.
    Import-light (the definition file only) so that the quiescence proof can import it early. -/
namespace LokyModel.Exec

theorem dcHolder_facts (s : St) (h : dcHolder s = true) :
    (s.cqWlock = 0 → inCqWF s.fpc = true) ∧
    (s.gshut = 0 → ∃ k, k < s.cfg.scripts.length ∧ inGshutU (s.upc k) = true) ∧
    (s.mgmt = 0 → (∃ k, k < s.cfg.scripts.length ∧ inMgmtU' (s.upc k) = true) ∨ inMgmtM' s.mpc = true ∨
      ∃ p, s.oMgmt = some (.W p) ∧ s.w p = .eRel) ∧
    (s.shut = 0 → (∃ k, k < s.cfg.scripts.length ∧ inShutU' (s.upc k) = true) ∨ inShutM' s.mpc = true ∨ inShutF' s.fpc = true) ∧
    (s.broken = none → (s.rqWlock = 0 → ∃ p, inRqW (s.w p) = true) ∧ (s.cqRlock = 0 → ∃ p, inCqR (s.w p) = true)) := by
  unfold dcHolder at h
  simp only [Bool.and_eq_true] at h
  obtain ⟨⟨⟨⟨h3, h4⟩, h5⟩, h6⟩, h7⟩ := h
  refine ⟨?_, ?_, ?_, ?_, ?_⟩
  · intro hz
    cases ho : s.oCqWlock with
    | none => simp [ho, hz] at h3
    | some a => cases a <;> simp [ho] at h3; exact h3.2
  · intro hz
    cases ho : s.oGshut with
    | none => simp [ho, hz] at h4
    | some a => cases a <;> simp [ho] at h4; rename_i k; exact ⟨k, h4.2, h4.1.2⟩
  · intro hz
    cases ho : s.oMgmt with
    | none => simp [ho, hz] at h5
    | some a =>
      cases a with
      | U k => simp [ho] at h5; exact .inl ⟨k, h5.2, h5.1.2⟩
      | M => simp [ho] at h5; exact .inr (.inl h5.2)
      | F => simp [ho] at h5
      | W p => simp [ho] at h5; exact .inr (.inr ⟨p, rfl, h5.2⟩)
  · intro hz
    cases ho : s.oShut with
    | none => simp [ho, hz] at h6
    | some a =>
      cases a with
      | U k => simp [ho] at h6; exact .inl ⟨k, h6.2, h6.1.2⟩
      | M => simp [ho] at h6; exact .inr (.inl h6.2)
      | F => simp [ho] at h6; exact .inr (.inr h6.2)
      | W p => simp [ho] at h6
  · intro hb
    simp only [hb, Option.isSome_none, Bool.false_or, Bool.and_eq_true] at h7
    obtain ⟨h1, h2⟩ := h7
    constructor
    · intro hz
      cases ho : s.oRqWlock with
      | none => simp [ho, hz] at h1
      | some a => cases a <;> simp [ho] at h1; rename_i p; exact ⟨p, h1.2⟩
    · intro hz
      cases ho : s.oCqRlock with
      | none => simp [ho, hz] at h2
      | some a => cases a <;> simp [ho] at h2; rename_i p; exact ⟨p, h2.2⟩

end LokyModel.Exec
