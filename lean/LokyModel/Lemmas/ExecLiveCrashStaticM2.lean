import LokyModel.Lemmas.ExecLiveCrashStaticM
/-! `staticSmallC'`: steps of the manager thread, from the summary `MSumC` of `ExecLiveCrashStaticM.lean`. -/
namespace LokyModel.Exec.StaticCP
open StaticP
set_option linter.unusedSimpArgs false

theorem ci_stepM (s s' : St) (v : Variant) (h : CI s) (hp : PidsInv s) (hs : stepM s v = some s') : CI s' := by
  have M := mSumC_step s s' v h hp hs
  have Q := M.q
  have hdd : ∀ q, s.w q = .dead → s'.w q = .dead := by
    intro q hq
    rcases M.w with e | ⟨p, e⟩
    · rw [e]; exact hq
    · rw [e, upd_apply']; split
      · rfl
      · exact hq
  have hall : ∀ (P : WPc → Bool), P .dead = false → (∀ q ∈ s.allPids, P (s.w q) = false) →
      ∀ q ∈ s'.allPids, P (s'.w q) = false := by
    intro P h0 h1 q hq
    rw [M.allPids] at hq
    rcases M.w with e | ⟨p, e⟩
    · rw [e]; exact h1 q hq
    · rw [e, upd_apply']; split
      · exact h0
      · exact h1 q hq
  have had : anyDead s = true → anyDead s' = true :=
    anyDead_mono s s' (by rw [M.allPids]; exact fun _ h => h) (fun q _ => hdd q)
  have hf0 : mFinal s'.mpc = false → mFinal s.mpc = false := by
    intro hf
    cases e : mFinal s.mpc
    · rfl
    · rw [M.fin e] at hf; cases hf
  refine { mn := M.nv, kf := ?kf, wn := hall _ rfl h.wn, bu := M.bu, bd := ?bd, md := fun hb => had (M.md hb), pd := ?pd, kj := M.kj,
           rc := M.rc, cr := M.cr, je := M.em, api := ?api, fb := Q.fb, wc := ?wc, pe := ?pe, snap := ?snap,
           wb := hall _ rfl h.wb, rb := ?rb, cp := Q.cp, fc := Q.fc, cl := Q.cl, late := Q.late, tr := fun _ => M.nn,
           nks := ?nks, nkc := ?nkc, nkp := ?nkp, fu := fun e => absurd e M.nn, ko := ?ko, pre := ?pre }
  all_goals try simp only [M.upc, M.ucur, M.uscript, M.allPids, M.cfg, M.killFlag]
  case kf => exact h.kf
  case bd =>
    intro hb
    rcases M.bd hb with e | e
    · exact had (h.bd e)
    · exact had (h.md e)
  case pd =>
    intro hl
    obtain ⟨a, b⟩ := M.pd hl
    rw [b]; exact h.pd a
  case api => exact h.api
  case wc =>
    intro hw
    rcases M.wc hw with e | e
    · exact M.fin (h.wc e)
    · exact e
  case pe => intro k hk _; exact M.nn
  case snap => exact M.snap
  case rb => intro r hr; exact h.rb r (M.rq r hr)
  case nks => exact h.nks
  case nkc => exact h.nkc
  case nkp => exact h.nkp
  case ko => exact M.ko
  case pre =>
    intro hf
    have P := h.pre (hf0 hf)
    refine { ns := ?_, nb := Q.nb hf, np := Q.np hf, nr := ?_, nf := Q.nf hf }
    · exact hall wStopL rfl P.ns
    · intro r hr; exact P.nr r (M.rq r hr)

end LokyModel.Exec.StaticCP
