import LokyModel.Cond
/-!
# Helper lemmas and the inductive invariant for M5b (`Cond`)

The invariant `Inv cfg s` is a conjunction of small facts:

* `LInv`  — the lock object is consistent (`value = 1 ↔ count = 0`, `value ≤ 1`, …);
* `TInv`  — per thread: what its program counter implies about its hold on the lock
            (`pcOK`), which scripted operation is in progress (`ctxOK`), and that no finished
            operation reported an internal failure (`retsOK`);
* `cnt`   — the counting invariant relating `_sleeping_count`, `_woken_count` to program counters;
* `post`  — `_wait_semaphore > 0` only while the lock holder is in the posting part of a notifier;
* `hf`    — facts about the lock holder's program counter (`holderFacts`);
* `flag ≤ 1`.
-/
set_option linter.unusedSimpArgs false
namespace LokyModel.Cond
open LokyModel.SemLock

/-! ### thread-map update -/

@[simp] theorem upd_same (f : Nat → TS) (t : Nat) (x : TS) : upd f t x t = x := by simp [upd]
theorem upd_other (f : Nat → TS) (t u : Nat) (x : TS) (h : u ≠ t) : upd f t x u = f u := by
  simp [upd, h]

@[simp] theorem goto_pc (x : TS) (p : PC) : (x.goto p).pc = p := rfl
@[simp] theorem goto_script (x : TS) (p : PC) : (x.goto p).script = x.script := rfl
@[simp] theorem goto_rets (x : TS) (p : PC) : (x.goto p).rets = x.rets := rfl
@[simp] theorem goto_cur (x : TS) (p : PC) : (x.goto p).cur = x.cur := rfl
@[simp] theorem finish_pc (x : TS) (r : Ret) : (x.finish r).pc = .idle := by
  unfold TS.finish; split <;> rfl

/-! ### sums over the threads `0 … N-1` -/

def sumTo (f : Nat → Nat) : Nat → Nat
  | 0 => 0
  | n + 1 => sumTo f n + f n

theorem sumTo_congr (f g : Nat → Nat) (N : Nat) (h : ∀ u, u < N → f u = g u) :
    sumTo f N = sumTo g N := by
  induction N with
  | zero => rfl
  | succ n ih =>
    simp only [sumTo]
    rw [ih (fun u hu => h u (Nat.lt_succ_of_lt hu)), h n (Nat.lt_succ_self n)]

theorem sumTo_upd (g : PC → Nat) (th : Nat → TS) (t : Nat) (y : TS) (N : Nat) (ht : t < N) :
    sumTo (fun u => g (upd th t y u).pc) N + g (th t).pc
      = sumTo (fun u => g (th u).pc) N + g y.pc := by
  induction N with
  | zero => omega
  | succ n ih =>
    simp only [sumTo]
    by_cases h : t = n
    · subst h
      have : sumTo (fun u => g (upd th t y u).pc) t = sumTo (fun u => g (th u).pc) t :=
        sumTo_congr _ _ _ (fun u hu => by simp [upd, Nat.ne_of_lt hu])
      rw [this]; simp; omega
    · have h1 : t < n := by omega
      have := ih h1
      have h2 : (upd th t y n) = th n := upd_other _ _ _ _ (Ne.symm h)
      rw [h2]; omega

theorem sumTo_zero_of (f : Nat → Nat) (N : Nat) (h : ∀ u, u < N → f u = 0) : sumTo f N = 0 := by
  induction N with
  | zero => rfl
  | succ n ih =>
    simp only [sumTo]
    rw [ih (fun u hu => h u (Nat.lt_succ_of_lt hu)), h n (Nat.lt_succ_self n)]

theorem zero_of_sumTo_zero (f : Nat → Nat) (N : Nat) (h : sumTo f N = 0) :
    ∀ u, u < N → f u = 0 := by
  induction N with
  | zero => intro u hu; omega
  | succ n ih =>
    simp only [sumTo] at h
    intro u hu
    by_cases hun : u = n
    · subst hun; omega
    · exact ih (by omega) u (by omega)

/-- a sum whose only non-zero term is at `h` -/
theorem sumTo_single (f : Nat → Nat) (N h : Nat) (hz : ∀ u, u < N → u ≠ h → f u = 0) :
    sumTo f N = if h < N then f h else 0 := by
  induction N with
  | zero => simp [sumTo]
  | succ n ih =>
    simp only [sumTo]
    rw [ih (fun u hu hne => hz u (Nat.lt_succ_of_lt hu) hne)]
    by_cases hn : h = n
    · subst hn; simp
    · rw [hz n (Nat.lt_succ_self n) (Ne.symm hn)]
      by_cases hl : h < n
      · simp [hl, Nat.lt_succ_of_lt hl]
      · have : ¬ h < n + 1 := by omega
        simp [hl, this]

/-! ### weights of program counters -/

/-- registered as a sleeper, `_woken_count.release()` not yet done -/
def wA : PC → Nat
  | .w2 .. | .w3 _ | .w4 .. => 1
  | _ => 0

/-- a notifier that has taken one `_woken_count` token and not yet the matching `_sleeping_count` one -/
def wB : PC → Nat
  | .n3 | .a3 => 1
  | _ => 0

/-- `_sleeping_count` tokens a notifier has taken for which it has not yet consumed `_woken_count` -/
def wD : PC → Nat
  | .n5 | .n6 => 1
  | .a4 k => k
  | .a5 k => k + 1
  | .a6 k => k
  | _ => 0

def sumA (s : State) (N : Nat) : Nat := sumTo (fun u => wA (s.th u).pc) N
def sumB (s : State) (N : Nat) : Nat := sumTo (fun u => wB (s.th u).pc) N
def sumD (s : State) (N : Nat) : Nat := sumTo (fun u => wD (s.th u).pc) N

/-- the part of a notifier in which `_wait_semaphore` may be positive -/
def inPost : PC → Bool
  | .n6 | .n7 | .a4 _ | .a5 _ | .a6 _ | .a7 => true
  | _ => false

/-! ### the lock -/

structure LInv (k : Kind) (l : SL) : Prop where
  kind : l.kind = k
  maxv : l.maxvalue = 1
  vle : l.value ≤ 1
  cnn : 0 ≤ l.count
  free : l.value = 1 ↔ l.count = 0
  one : k = .semaphore → l.count ≤ 1

theorem isMine_iff (l : SL) (t : Nat) : isMine l t = true ↔ 0 < l.count ∧ l.lastTid = t := by
  simp [isMine]

theorem isMine_false_iff (l : SL) (t : Nat) : isMine l t = false ↔ ¬ (0 < l.count ∧ l.lastTid = t) := by
  rw [← isMine_iff]; simp

theorem linv_init (k : Kind) : LInv k (mkLockOf k) := by
  cases k <;> constructor <;> simp [mkLockOf, mkRLock, mkLock]

theorem canAcquire_iff (k : Kind) (l : SL) (t : Nat) (h : LInv k l) :
    canAcquire l t = true ↔ (k = .recursiveMutex ∧ isMine l t = true) ∨ l.count = 0 := by
  have h1 := h.free; have h2 := h.vle; have h3 := h.kind
  unfold canAcquire
  cases k with
  | recursiveMutex =>
    simp only [h3, beq_self_eq_true, Bool.true_and, Bool.or_eq_true, decide_eq_true_eq, true_and]
    constructor
    · rintro (hm | hv)
      · exact Or.inl hm
      · right; apply h1.1; omega
    · rintro (hm | hc)
      · exact Or.inl hm
      · right; have := h1.2 hc; omega
  | semaphore =>
    simp only [h3, Bool.or_eq_true, decide_eq_true_eq]
    constructor
    · rintro (hm | hv)
      · simp at hm
      · right; apply h1.1; omega
    · rintro (hm | hc)
      · simp at hm
      · right; have := h1.2 hc; omega

theorem linv_acquired (k : Kind) (l : SL) (t : Nat) (h : LInv k l) (hc : canAcquire l t = true) :
    LInv k (acquired l t) := by
  have h1 := h.free; have h2 := h.vle; have h3 := h.kind; have h4 := h.cnn; have h5 := h.maxv
  have h6 := h.one
  rw [canAcquire_iff k l t h] at hc
  unfold acquired
  split
  · rename_i hm
    simp only [Bool.and_eq_true, beq_iff_eq, isMine_iff] at hm
    obtain ⟨hk, hcp, _⟩ := hm
    refine ⟨h3, h5, h2, ?_, ?_, ?_⟩
    · show 0 ≤ l.count + 1; omega
    · show l.value = 1 ↔ l.count + 1 = 0; omega
    · intro hks; rw [← h3, hk] at hks; cases hks
  · rename_i hm
    have hc0 : l.count = 0 := by
      rcases hc with ⟨hk, hmm⟩ | hc
      · exfalso; apply hm; subst hk; simp [h3, hmm]
      · exact hc
    have hv : l.value = 1 := h1.2 hc0
    refine ⟨h3, h5, ?_, ?_, ?_, ?_⟩
    · show l.value - 1 ≤ 1; omega
    · show 0 ≤ l.count + 1; omega
    · show l.value - 1 = 1 ↔ l.count + 1 = 0; omega
    · intro _; show l.count + 1 ≤ 1; omega

theorem acquired_mine (k : Kind) (l : SL) (t : Nat) (h : LInv k l) (hc : canAcquire l t = true) :
    isMine (acquired l t) t = true ∧
    (acquired l t).count = (if isMine l t = true then l.count + 1 else 1) := by
  have h4 := h.cnn; have h3 := h.kind
  rw [canAcquire_iff k l t h] at hc
  unfold acquired
  split
  · rename_i hm
    simp only [Bool.and_eq_true, beq_iff_eq] at hm
    obtain ⟨hk, hmm⟩ := hm
    have hmm' := (isMine_iff l t).1 hmm
    refine ⟨?_, ?_⟩
    · rw [isMine_iff]; exact ⟨by show 0 < l.count + 1; omega, hmm'.2⟩
    · simp [hmm]
  · rename_i hm
    have hnm : isMine l t = false := by
      rcases hc with ⟨hk, hmm⟩ | hc
      · exfalso; apply hm; subst hk; simp [h3, hmm]
      · rw [isMine_false_iff]; omega
    have hc0 : l.count = 0 := by
      rcases hc with ⟨hk, hmm⟩ | hc
      · rw [hnm] at hmm; cases hmm
      · exact hc
    refine ⟨?_, ?_⟩
    · rw [isMine_iff]; exact ⟨by show 0 < l.count + 1; omega, rfl⟩
    · simp [hnm]; show l.count + 1 = 1; omega

/-- when `t` can acquire, no other thread owns the lock before or after -/
theorem acquired_other (k : Kind) (l : SL) (t u : Nat) (h : LInv k l) (hc : canAcquire l t = true)
    (hu : u ≠ t) : isMine l u = false ∧ isMine (acquired l t) u = false := by
  have h3 := h.kind
  rw [canAcquire_iff k l t h] at hc
  have hb : isMine l u = false := by
    rw [isMine_false_iff]
    rcases hc with ⟨_, hmm⟩ | hc
    · have := (isMine_iff l t).1 hmm; omega
    · omega
  refine ⟨hb, ?_⟩
  unfold acquired
  split
  · rename_i hm
    simp only [Bool.and_eq_true, beq_iff_eq, isMine_iff] at hm
    rw [isMine_false_iff]; show ¬ (0 < l.count + 1 ∧ l.lastTid = u); omega
  · rw [isMine_false_iff]; show ¬ (0 < l.count + 1 ∧ t = u); omega

theorem release_of_mine (k : Kind) (l : SL) (t : Nat) (h : LInv k l) (hm : isMine l t = true) :
    (release l t).2 = .ok ∧ LInv k (release l t).1 ∧
    (release l t).1.count = l.count - 1 ∧ (release l t).1.lastTid = l.lastTid := by
  have h1 := h.free; have h2 := h.vle; have h3 := h.kind; have h4 := h.cnn; have h5 := h.maxv
  have h6 := h.one
  have hm' := (isMine_iff l t).1 hm
  unfold release
  cases k with
  | recursiveMutex =>
    simp only [h3, hm]
    by_cases hc : 1 < l.count
    · simp only [Bool.not_true, Bool.false_eq_true, if_false, hc, if_true]
      refine ⟨by simp, ⟨by simp, by simpa using h5, by simpa using h2, ?_, ?_, ?_⟩, by simp, by simp⟩
      · show 0 ≤ l.count - 1; omega
      · show l.value = 1 ↔ l.count - 1 = 0; omega
      · intro hk; cases hk
    · simp only [Bool.not_true, Bool.false_eq_true, if_false, hc]
      have hv : l.value = 0 := by omega
      refine ⟨by simp, ⟨by simp, by simpa using h5, ?_, ?_, ?_, ?_⟩, by simp, by simp⟩
      · show l.value + 1 ≤ 1; omega
      · show 0 ≤ l.count - 1; omega
      · show l.value + 1 = 1 ↔ l.count - 1 = 0; omega
      · intro hk; cases hk
  | semaphore =>
    simp only [h3]
    have hc1 : l.count = 1 := by have := h6 rfl; omega
    have hv : l.value = 0 := by omega
    have : ¬ l.maxvalue ≤ l.value := by omega
    simp only [this, if_false]
    refine ⟨by simp, ⟨by simp, by simpa using h5, ?_, ?_, ?_, ?_⟩, by simp, by simp⟩
    · show l.value + 1 ≤ 1; omega
    · show 0 ≤ l.count - 1; omega
    · show l.value + 1 = 1 ↔ l.count - 1 = 0; omega
    · intro _; show l.count - 1 ≤ 1; omega

theorem release_rlock_not_mine (l : SL) (t : Nat) (hk : l.kind = .recursiveMutex)
    (hm : isMine l t = false) : release l t = (l, .notOwner) := by
  simp [release, hk, hm]

/-- what a program counter implies about the thread's hold on the lock (`mine`, `cnt` = the lock's
    `_is_mine()` for this thread and `_count()`) and about its own saved counters -/
def pcOK (p : PC) (mine : Bool) (cnt : Int) : Prop :=
  match p with
  | .idle | .lockAcq | .lockTry | .lockRel | .eAcq => True
  | .w2 c k => mine = true ∧ cnt = k ∧ 1 ≤ k ∧ k ≤ c
  | .w3 c => mine = false ∧ 1 ≤ c
  | .w4 c _ => mine = false ∧ 1 ≤ c
  | .w5 c k _ => 1 ≤ k ∧ k ≤ c ∧ (if k = c then mine = false else mine = true ∧ cnt = (c - k : Nat))
  | .a6 k => mine = true ∧ 1 ≤ k
  | .eRel r => mine = true ∧ r ≠ .tripped ∧ r ≠ .notOwner ∧ r ≠ .tooMany ∧ r ≠ .mustAcquire
  | _ => mine = true

theorem pcOK_not_mine (p : PC) (c1 c2 : Int) (h : pcOK p false c1) : pcOK p false c2 := by
  cases p <;> simp_all [pcOK]
  omega

/-- which scripted operation is in progress -/
def ctxOK (x : TS) : Prop :=
  x.pc = .lockRel → x.cur = some .rel

/-- no finished operation reported an internal assertion failure; release errors are reported by
    a scripted `release()` only -/
def retsOK (x : TS) : Prop :=
  ∀ o r, (o, r) ∈ x.rets → r ≠ .tripped ∧ ((r = .notOwner ∨ r = .tooMany) → o = .rel) ∧
    (r = .mustAcquire → o.isEvent = false)

structure TInv (cfg : Cfg) (s : State) (t : Nat) : Prop where
  pc : pcOK (s.th t).pc (isMine s.lock t) s.lock.count
  ctx : ctxOK (s.th t)
  ev : cfg.kind = .semaphore → ∀ o ∈ (s.th t).script, o.isEvent = true
  rets : retsOK (s.th t)

/-- facts about the program counter of the thread that holds the lock -/
def holderFacts (p : PC) (s : State) : Prop :=
  match p with
  | .n2 | .n3 | .n4 | .n5 | .a2 | .a3 => s.wakes = 0
  | .n6 => s.waitsem + s.wakes = 1
  | .n7 => s.waitsem + s.wakes ≤ 1
  | .a4 k => s.waitsem + s.wakes = k
  | .a5 k => s.waitsem + s.wakes = k
  | .a6 _ => s.sleeping = 0
  | .a7 => s.sleeping = 0
  | .eFlagRel1 | .eFlagRel2 => s.flag = 0
  | .eRel (.bool b) => s.flag = if b then 1 else 0
  | _ => True

structure Inv (cfg : Cfg) (s : State) : Prop where
  lock : LInv cfg.kind s.lock
  thr : ∀ t, t < cfg.n → TInv cfg s t
  cnt : s.sleeping + sumD s cfg.n = s.woken + sumA s cfg.n + sumB s cfg.n
  post : 0 < s.waitsem → 0 < s.lock.count ∧ inPost (s.th s.lock.lastTid).pc = true
  hf : 0 < s.lock.count → holderFacts (s.th s.lock.lastTid).pc s
  flag : s.flag ≤ 1

theorem inv_init (cfg : Cfg) (hwf : cfg.wf) : Inv cfg (init cfg) := by
  constructor
  · exact linv_init cfg.kind
  · intro t _
    constructor
    · simp [init, pcOK]
    · simp [init, ctxOK]
    · intro hk o ho; exact hwf hk t o ho
    · intro o r h; simp [init] at h
  · have hA : sumA (init cfg) cfg.n = 0 := sumTo_zero_of _ _ (fun u _ => by simp [init, wA])
    have hB : sumB (init cfg) cfg.n = 0 := sumTo_zero_of _ _ (fun u _ => by simp [init, wB])
    have hD : sumD (init cfg) cfg.n = 0 := sumTo_zero_of _ _ (fun u _ => by simp [init, wD])
    rw [hA, hB, hD]; simp [init]
  · simp [init]
  · intro h; exfalso; cases hk : cfg.kind <;> simp [init, mkLockOf, mkRLock, mkLock, hk] at h
  · simp [init]

/-! ### how the little state transformers act on `pc`, `script`, `rets` -/

theorem finish_script_sub (x : TS) (r : Ret) (o : Op) (h : o ∈ (x.finish r).script) : o ∈ x.script := by
  unfold TS.finish at h
  split at h
  · exact h
  · rename_i hs; rw [hs]; exact List.mem_cons_of_mem _ h

theorem retsOK_finish (x : TS) (r : Ret) (h : retsOK x) (h1 : r ≠ .tripped)
    (h2 : (r = .notOwner ∨ r = .tooMany) → x.cur = some .rel)
    (h3 : r = .mustAcquire → ∀ o, x.cur = some o → o.isEvent = false) : retsOK (x.finish r) := by
  unfold TS.finish
  split
  · exact h
  · rename_i o rest hs
    intro o' r' hm
    simp only [List.mem_cons, Prod.mk.injEq] at hm
    rcases hm with ⟨ho, hr⟩ | hm
    · subst ho hr
      refine ⟨h1, fun hh => ?_, fun hh => h3 hh o' (by simp [TS.cur, hs])⟩
      have := h2 hh
      simp [TS.cur, hs] at this
      exact this
    · exact h o' r' hm

theorem raise_cases (x : TS) (r : Ret) :
    ((x.cur = some .eSet ∨ ∃ b, x.cur = some (.eWait b)) ∧ x.raise r = x.goto (.eRel r)) ∨
    ((x.cur ≠ some .eSet ∧ ∀ b, x.cur ≠ some (.eWait b)) ∧ x.raise r = x.finish r) := by
  unfold TS.raise
  split
  · left; exact ⟨Or.inl (by assumption), rfl⟩
  · left; exact ⟨Or.inr ⟨_, by assumption⟩, rfl⟩
  · right
    rename_i h1 h2
    exact ⟨⟨h1, fun b => h2 b⟩, rfl⟩

theorem waitReturn_cases (x : TS) (r : Bool) :
    x.waitReturn r = x.goto .eFlag2 ∨ x.waitReturn r = x.finish (.bool r) := by
  unfold TS.waitReturn; split <;> simp

theorem notifyAllReturn_cases (x : TS) :
    x.notifyAllReturn = x.goto (.eRel .none) ∨ x.notifyAllReturn = x.finish .none := by
  unfold TS.notifyAllReturn; split <;> simp

/-! ### the per-thread part of the invariant across a step of thread `t` -/

/-- what the new state `y` of the stepping thread and the new lock `l'` must satisfy -/
structure YOK (s : State) (t : Nat) (y : TS) (l' : SL) : Prop where
  pc : pcOK y.pc (isMine l' t) l'.count
  ctx : ctxOK y
  sub : ∀ o ∈ y.script, o ∈ (s.th t).script
  rets : retsOK y

theorem thr_frame (cfg : Cfg) (s s' : State) (t : Nat) (y : TS) (hinv : Inv cfg s)
    (hth : s'.th = upd s.th t y)
    (hlk : s'.lock = s.lock ∨ ∀ u, u ≠ t → isMine s.lock u = false ∧ isMine s'.lock u = false)
    (hy : YOK s t y s'.lock) (ht : t < cfg.n) :
    ∀ u, u < cfg.n → TInv cfg s' u := by
  intro u hu
  by_cases hut : u = t
  · subst hut
    have hT := hinv.thr u hu
    have hthu : s'.th u = y := by rw [hth]; simp
    refine ⟨by rw [hthu]; exact hy.pc, by rw [hthu]; exact hy.ctx, ?_, by rw [hthu]; exact hy.rets⟩
    intro hk o ho
    rw [hthu] at ho
    exact hT.ev hk o (hy.sub o ho)
  · have hT := hinv.thr u hu
    have hthu : s'.th u = s.th u := by rw [hth]; exact upd_other _ _ _ _ hut
    refine ⟨?_, by rw [hthu]; exact hT.ctx, by rw [hthu]; exact hT.ev, by rw [hthu]; exact hT.rets⟩
    rw [hthu]
    rcases hlk with h | h
    · rw [h]; exact hT.pc
    · have := h u hut
      have h0 := hT.pc
      rw [this.1] at h0
      rw [this.2]
      exact pcOK_not_mine _ _ _ h0

theorem yok_goto (s : State) (t : Nat) (l' : SL) (p : PC) (hinv : retsOK (s.th t))
    (hp : pcOK p (isMine l' t) l'.count) (hne : p = .lockRel → (s.th t).cur = some .rel) :
    YOK s t ((s.th t).goto p) l' :=
  ⟨by simpa using hp, by intro h; simp at h; simpa using hne h, by intro o ho; simpa using ho, by
    intro o r h; exact hinv o r h⟩

theorem yok_finish (s : State) (t : Nat) (l' : SL) (r : Ret) (hinv : retsOK (s.th t))
    (h1 : r ≠ .tripped) (h2 : (r = .notOwner ∨ r = .tooMany) → (s.th t).cur = some .rel)
    (h3 : r = .mustAcquire → ∀ o, (s.th t).cur = some o → o.isEvent = false) :
    YOK s t ((s.th t).finish r) l' :=
  ⟨by simp [pcOK], by intro h; simp at h, fun o ho => finish_script_sub _ _ _ ho,
   retsOK_finish _ _ hinv h1 h2 h3⟩

theorem yok_waitReturn (s : State) (t : Nat) (l' : SL) (r : Bool) (hinv : retsOK (s.th t))
    (hm : isMine l' t = true) : YOK s t ((s.th t).waitReturn r) l' := by
  rcases waitReturn_cases (s.th t) r with h | h <;> rw [h]
  · exact yok_goto s t l' _ hinv (by simp [pcOK, hm]) (by intro h; cases h)
  · exact yok_finish s t l' _ hinv (by simp) (by simp) (by simp)

theorem yok_notifyAllReturn (s : State) (t : Nat) (l' : SL) (hinv : retsOK (s.th t))
    (hm : isMine l' t = true) : YOK s t ((s.th t).notifyAllReturn) l' := by
  rcases notifyAllReturn_cases (s.th t) with h | h <;> rw [h]
  · exact yok_goto s t l' _ hinv (by simp [pcOK, hm]) (by intro h; cases h)
  · exact yok_finish s t l' _ hinv (by simp) (by simp) (by simp)

/-- entering `wait` / `notify` / `notify_all`: the ownership assertion passes, or it fails in a
    scripted (non-`Event`) call and is reported -/
theorem yok_enter (s : State) (t : Nat) (l' : SL) (first : PC) (hinv : retsOK (s.th t))
    (hl : l' = s.lock) (hp : pcOK first true l'.count) (hne : first ≠ .lockRel)
    (hm : isMine s.lock t = true ∨ (∀ o, (s.th t).cur = some o → o.isEvent = false)) :
    YOK s t (enter s t (s.th t) first) l' := by
  unfold enter
  split
  · rename_i hmine
    exact yok_goto s t l' _ hinv (by rw [hl, hmine, ← hl]; exact hp) (by intro h; exact absurd h hne)
  · rename_i hmine
    have hne' : ∀ o, (s.th t).cur = some o → o.isEvent = false := by
      rcases hm with hm | hm
      · exact absurd hm hmine
      · exact hm
    rcases raise_cases (s.th t) .mustAcquire with ⟨hc, _⟩ | ⟨_, h⟩
    · exfalso
      rcases hc with hc | ⟨b, hc⟩
      · have := hne' _ hc; simp [Op.isEvent] at this
      · have := hne' _ hc; simp [Op.isEvent] at this
    · rw [h]
      exact yok_finish s t l' _ hinv (by simp) (by simp) (fun _ => hne')

/-! ### the counting part across a step -/

theorem cnt_frame (cfg : Cfg) (s s' : State) (t : Nat) (y : TS) (hinv : Inv cfg s) (ht : t < cfg.n)
    (hth : s'.th = upd s.th t y)
    (hloc : s'.sleeping + s.woken + wD y.pc + wA (s.th t).pc + wB (s.th t).pc
          = s'.woken + s.sleeping + wA y.pc + wB y.pc + wD (s.th t).pc) :
    s'.sleeping + sumD s' cfg.n = s'.woken + sumA s' cfg.n + sumB s' cfg.n := by
  have hA := sumTo_upd wA s.th t y cfg.n ht
  have hB := sumTo_upd wB s.th t y cfg.n ht
  have hD := sumTo_upd wD s.th t y cfg.n ht
  have hc := hinv.cnt
  unfold sumA sumB sumD at *
  rw [hth]
  omega

/-- `holderFacts` only looks at four fields -/
theorem holderFacts_congr (p : PC) (s s' : State) (h1 : s'.sleeping = s.sleeping)
    (h2 : s'.waitsem = s.waitsem) (h3 : s'.wakes = s.wakes) (h4 : s'.flag = s.flag)
    (h : holderFacts p s) : holderFacts p s' := by
  unfold holderFacts at *
  rw [h1, h2, h3, h4]; exact h

/-- a waiter takes a token while the holder is in the posting part of a notifier -/
theorem holderFacts_take (p : PC) (s s' : State) (hp : inPost p = true) (hq : 0 < s.waitsem)
    (h1 : s'.sleeping = s.sleeping) (h2 : s'.waitsem = s.waitsem - 1) (h3 : s'.wakes = s.wakes + 1)
    (h : holderFacts p s) : holderFacts p s' := by
  cases p <;> simp [inPost] at hp <;> simp only [holderFacts] at * <;> omega

/-- a scripted `release()` only occurs on a `Condition()` over an `RLock` -/
theorem lockRel_rlock (cfg : Cfg) (s : State) (t : Nat) (hT : TInv cfg s t)
    (hpc : (s.th t).pc = .lockRel) : cfg.kind = .recursiveMutex := by
  have hc := hT.ctx hpc
  cases hk : cfg.kind with
  | recursiveMutex => rfl
  | semaphore =>
    exfalso
    have hev := hT.ev hk
    unfold TS.cur at hc
    cases hs : (s.th t).script with
    | nil => simp [hs] at hc
    | cons o rest =>
      simp [hs] at hc
      have := hev o (by simp [hs])
      subst hc; simp [Op.isEvent] at this

theorem linv_release_rlock (l : SL) (t : Nat) (h : LInv .recursiveMutex l) :
    LInv .recursiveMutex (release l t).1 := by
  by_cases hm : isMine l t = true
  · exact (release_of_mine _ _ _ h hm).2.1
  · have : isMine l t = false := by simpa using hm
    rw [release_rlock_not_mine l t h.kind this]; exact h

/-! ### weights of the composite transformers -/

theorem raise_pc (x : TS) (r : Ret) : (x.raise r).pc = .idle ∨ (x.raise r).pc = .eRel r := by
  rcases raise_cases x r with ⟨_, h⟩ | ⟨_, h⟩ <;> rw [h] <;> simp

theorem waitReturn_pc (x : TS) (r : Bool) : (x.waitReturn r).pc = .idle ∨ (x.waitReturn r).pc = .eFlag2 := by
  rcases waitReturn_cases x r with h | h <;> rw [h] <;> simp

theorem notifyAllReturn_pc (x : TS) :
    (x.notifyAllReturn).pc = .idle ∨ (x.notifyAllReturn).pc = .eRel .none := by
  rcases notifyAllReturn_cases x with h | h <;> rw [h] <;> simp

theorem enter_pc (s : State) (t : Nat) (x : TS) (first : PC) :
    (enter s t x first).pc = first ∨ (enter s t x first).pc = .idle ∨
    (enter s t x first).pc = .eRel .mustAcquire := by
  unfold enter; split
  · left; simp
  · right; exact raise_pc x _

@[simp] theorem wA_raise (x : TS) (r : Ret) : wA (x.raise r).pc = 0 := by
  rcases raise_pc x r with h | h <;> rw [h] <;> rfl
@[simp] theorem wB_raise (x : TS) (r : Ret) : wB (x.raise r).pc = 0 := by
  rcases raise_pc x r with h | h <;> rw [h] <;> rfl
@[simp] theorem wD_raise (x : TS) (r : Ret) : wD (x.raise r).pc = 0 := by
  rcases raise_pc x r with h | h <;> rw [h] <;> rfl
@[simp] theorem wA_waitReturn (x : TS) (r : Bool) : wA (x.waitReturn r).pc = 0 := by
  rcases waitReturn_pc x r with h | h <;> rw [h] <;> rfl
@[simp] theorem wB_waitReturn (x : TS) (r : Bool) : wB (x.waitReturn r).pc = 0 := by
  rcases waitReturn_pc x r with h | h <;> rw [h] <;> rfl
@[simp] theorem wD_waitReturn (x : TS) (r : Bool) : wD (x.waitReturn r).pc = 0 := by
  rcases waitReturn_pc x r with h | h <;> rw [h] <;> rfl
@[simp] theorem wA_notifyAllReturn (x : TS) : wA (x.notifyAllReturn).pc = 0 := by
  rcases notifyAllReturn_pc x with h | h <;> rw [h] <;> rfl
@[simp] theorem wB_notifyAllReturn (x : TS) : wB (x.notifyAllReturn).pc = 0 := by
  rcases notifyAllReturn_pc x with h | h <;> rw [h] <;> rfl
@[simp] theorem wD_notifyAllReturn (x : TS) : wD (x.notifyAllReturn).pc = 0 := by
  rcases notifyAllReturn_pc x with h | h <;> rw [h] <;> rfl
theorem wA_enter (s : State) (t : Nat) (x : TS) (first : PC) (h : wA first = 0) :
    wA (enter s t x first).pc = 0 := by
  rcases enter_pc s t x first with h1 | h1 | h1 <;> rw [h1] <;> first | exact h | rfl
theorem wB_enter (s : State) (t : Nat) (x : TS) (first : PC) (h : wB first = 0) :
    wB (enter s t x first).pc = 0 := by
  rcases enter_pc s t x first with h1 | h1 | h1 <;> rw [h1] <;> first | exact h | rfl
theorem wD_enter (s : State) (t : Nat) (x : TS) (first : PC) (h : wD first = 0) :
    wD (enter s t x first).pc = 0 := by
  rcases enter_pc s t x first with h1 | h1 | h1 <;> rw [h1] <;> first | exact h | rfl

/-! ### only the lock holder can be inside a notifier -/

theorem sumTo_ge (f : Nat → Nat) (N t : Nat) (ht : t < N) : f t ≤ sumTo f N := by
  induction N with
  | zero => omega
  | succ n ih =>
    simp only [sumTo]
    by_cases h : t = n
    · subst h; omega
    · have := ih (by omega); omega

theorem mine_of_wD (p : PC) (mine : Bool) (cnt : Int) (h : pcOK p mine cnt) (hw : wD p ≠ 0) :
    mine = true := by
  cases p <;> simp_all [pcOK, wD]

theorem mine_of_wB (p : PC) (mine : Bool) (cnt : Int) (h : pcOK p mine cnt) (hw : wB p ≠ 0) :
    mine = true := by
  cases p <;> simp_all [pcOK, wB]

theorem mine_unique (l : SL) (t u : Nat) (h1 : isMine l t = true) (h2 : isMine l u = true) : u = t := by
  rw [isMine_iff] at h1 h2; omega

theorem sumD_eq_holder (cfg : Cfg) (s : State) (t : Nat) (hinv : Inv cfg s) (ht : t < cfg.n)
    (hm : isMine s.lock t = true) : sumD s cfg.n = wD (s.th t).pc := by
  unfold sumD
  rw [sumTo_single _ cfg.n t]
  · simp [ht]
  · intro u hu hne
    apply Classical.byContradiction
    intro hw
    have := mine_of_wD _ _ _ (hinv.thr u hu).pc hw
    exact hne (mine_unique _ _ _ hm this)

theorem sumB_eq_holder (cfg : Cfg) (s : State) (t : Nat) (hinv : Inv cfg s) (ht : t < cfg.n)
    (hm : isMine s.lock t = true) : sumB s cfg.n = wB (s.th t).pc := by
  unfold sumB
  rw [sumTo_single _ cfg.n t]
  · simp [ht]
  · intro u hu hne
    apply Classical.byContradiction
    intro hw
    have := mine_of_wB _ _ _ (hinv.thr u hu).pc hw
    exact hne (mine_unique _ _ _ hm this)

/-- `assert res` in the re-zeroing loop cannot fail -/
theorem sleeping_pos_of_wB (cfg : Cfg) (s : State) (t : Nat) (hinv : Inv cfg s) (ht : t < cfg.n)
    (hm : isMine s.lock t = true) (hb : wB (s.th t).pc = 1) (hd : wD (s.th t).pc = 0) :
    0 < s.sleeping := by
  have h1 := sumD_eq_holder cfg s t hinv ht hm
  have h2 := sumB_eq_holder cfg s t hinv ht hm
  have := hinv.cnt
  omega

theorem release_other (k : Kind) (l : SL) (t u : Nat) (h : LInv k l) (hm : isMine l t = true)
    (hu : u ≠ t) : isMine l u = false ∧ isMine (release l t).1 u = false := by
  have hr := release_of_mine k l t h hm
  have hm' := (isMine_iff l t).1 hm
  refine ⟨?_, ?_⟩
  · rw [isMine_false_iff]; omega
  · rw [isMine_false_iff, hr.2.2.2]; omega

theorem release_mine_after (k : Kind) (l : SL) (t : Nat) (h : LInv k l) (hm : isMine l t = true) :
    isMine (release l t).1 t = decide (1 < l.count) := by
  have hr := release_of_mine k l t h hm
  have hm' := (isMine_iff l t).1 hm
  by_cases hc : 1 < l.count
  · simp only [hc, decide_true]; rw [isMine_iff, hr.2.2.1, hr.2.2.2]; omega
  · simp only [hc, decide_false]; rw [isMine_false_iff, hr.2.2.1, hr.2.2.2]; omega

/-! ### `post` and `hf` across a step -/

theorem post_same (cfg : Cfg) (s s' : State) (t : Nat) (y : TS) (hinv : Inv cfg s)
    (hth : s'.th = upd s.th t y) (hl : s'.lock = s.lock)
    (h1 : 0 < s'.waitsem → isMine s.lock t = true → inPost y.pc = true)
    (h2 : 0 < s'.waitsem → isMine s.lock t = false → 0 < s.waitsem ∧ inPost (s.th t).pc = false) :
    0 < s'.waitsem → 0 < s'.lock.count ∧ inPost (s'.th s'.lock.lastTid).pc = true := by
  intro hq
  rw [hl, hth]
  cases hm : isMine s.lock t with
  | true =>
    have hm' := (isMine_iff s.lock t).1 hm
    rw [hm'.2]; simp only [upd_same]
    exact ⟨hm'.1, h1 hq hm⟩
  | false =>
    have ⟨hq0, hnp⟩ := h2 hq hm
    have hp := hinv.post hq0
    refine ⟨hp.1, ?_⟩
    have hne : s.lock.lastTid ≠ t := by
      intro he; rw [he] at hp; rw [hnp] at hp; cases hp.2
    rw [upd_other _ _ _ _ hne]; exact hp.2

theorem post_zero (cfg : Cfg) (s s' : State) (t : Nat) (hinv : Inv cfg s) (X : Prop)
    (hq : s'.waitsem = s.waitsem) (hc : s.lock.count = 0 ∨ isMine s.lock t = true)
    (hnp : inPost (s.th t).pc = false) : 0 < s'.waitsem → X := by
  intro h
  exfalso
  rw [hq] at h
  have hp := hinv.post h
  rcases hc with hc | hc
  · omega
  · have hm' := (isMine_iff s.lock t).1 hc
    rw [hm'.2, hnp] at hp; cases hp.2

theorem hf_mine (s' : State) (th : Nat → TS) (t : Nat) (y : TS) (hth : s'.th = upd th t y)
    (hl : 0 < s'.lock.count → s'.lock.lastTid = t) (hy : holderFacts y.pc s') :
    0 < s'.lock.count → holderFacts (s'.th s'.lock.lastTid).pc s' := by
  intro hc
  rw [hl hc, hth]; simp only [upd_same]; exact hy

theorem hf_other (cfg : Cfg) (s s' : State) (t : Nat) (y : TS) (hinv : Inv cfg s)
    (hth : s'.th = upd s.th t y) (hl : s'.lock = s.lock) (hnm : isMine s.lock t = false)
    (hcompat : ∀ p, (0 < s.waitsem → inPost p = true) → holderFacts p s → holderFacts p s') :
    0 < s'.lock.count → holderFacts (s'.th s'.lock.lastTid).pc s' := by
  intro hc
  rw [hl] at hc ⊢
  have hne : s.lock.lastTid ≠ t := by
    intro he; rw [isMine_false_iff] at hnm; exact hnm ⟨hc, he⟩
  rw [hth, upd_other _ _ _ _ hne]
  exact hcompat _ (fun hq => (hinv.post hq).2) (hinv.hf hc)

/-- program counters about which `holderFacts` says nothing -/
def plainPC : PC → Bool
  | .n2 | .n3 | .n4 | .n5 | .n6 | .n7 | .a2 | .a3 | .a4 _ | .a5 _ | .a6 _ | .a7
  | .eFlagRel1 | .eFlagRel2 | .eRel (.bool _) => false
  | _ => true

theorem holderFacts_plain (p : PC) (s : State) (h : plainPC p = true) : holderFacts p s := by
  cases p <;> simp [plainPC] at h <;> simp [holderFacts]
  rename_i r; cases r <;> simp_all [plainPC]

theorem plain_raise (x : TS) (r : Ret) (h : ∀ b, r ≠ .bool b) : plainPC (x.raise r).pc = true := by
  rcases raise_pc x r with h1 | h1 <;> rw [h1]
  · rfl
  · cases r <;> simp_all [plainPC]

theorem plain_waitReturn (x : TS) (r : Bool) : plainPC (x.waitReturn r).pc = true := by
  rcases waitReturn_pc x r with h1 | h1 <;> rw [h1] <;> rfl

theorem plain_notifyAllReturn (x : TS) : plainPC (x.notifyAllReturn).pc = true := by
  rcases notifyAllReturn_pc x with h1 | h1 <;> rw [h1] <;> rfl

theorem plain_enter (s : State) (t : Nat) (x : TS) (first : PC) (h : plainPC first = true) :
    plainPC (enter s t x first).pc = true := by
  rcases enter_pc s t x first with h1 | h1 | h1 <;> rw [h1] <;> first | exact h | rfl

theorem inPost_plain (p : PC) (h : plainPC p = true) : inPost p = false := by
  cases p <;> simp_all [plainPC, inPost]

/-! ### the invariant is inductive

Every proof below splits `step` into its 66 transitions (`step_split`), discards the unreachable ones
(a release error inside `wait`/`__exit__`, a failing internal assertion) and closes the rest with the
frame lemmas above. -/

set_option hygiene false in
macro "mine_facts" : tactic => `(tactic| (
  have hmine : isMine s.lock t = true := by first | exact hpcT | exact hpcT.1
  have hm := (isMine_iff s.lock t).1 hmine
  have hhf := hinv.hf hm.1
  rw [hm.2] at hhf
  simp only [*, holderFacts] at hhf
  have hpost := hinv.post
  rw [hm.2] at hpost
  simp only [*, inPost] at hpost))

set_option hygiene false in
macro "step_split" : tactic => `(tactic| (
  have hlt : t < cfg.n := by
    rcases Nat.lt_or_ge t cfg.n with h1 | h1
    · exact h1
    · exfalso; unfold step at h; rw [if_pos h1] at h; cases h
  have hnle : ¬ cfg.n ≤ t := by omega
  unfold step at h
  rw [if_neg hnle] at h
  have hT := hinv.thr t hlt
  have hL := hinv.lock
  have hpcT := hT.pc
  have hR := hT.rets
  simp only [] at h
  split at h
  all_goals (repeat' split at h)
  all_goals (try (simp at h; done))
  all_goals (simp only [Option.some.injEq] at h; subst h)
  all_goals (simp only [*, pcOK] at hpcT)
  all_goals try (exfalso; have hrel := (release_of_mine _ _ _ hL (by first | exact hpcT | exact hpcT.1)).1; simp_all; done)
  all_goals try (exfalso; have := sleeping_pos_of_wB cfg s t hinv hlt hpcT (by simp only [*]; rfl) (by simp only [*]; rfl); omega)
  all_goals try (exfalso; mine_facts; simp at hpost; first | done | omega)))


theorem step_lock (cfg : Cfg) (s s' : State) (t : Nat) (v : Variant) (hinv : Inv cfg s)
    (h : step cfg s t v = some s') : LInv cfg.kind s'.lock := by
  step_split
  all_goals try (
    have hk := lockRel_rlock cfg s t hT ‹_›
    have := linv_release_rlock s.lock t (hk ▸ hL)
    exact hk ▸ this)
  all_goals first
    | exact hL
    | exact linv_acquired _ _ _ hL ‹_›
    | (have hr := release_of_mine _ _ _ hL hpcT; simp_all; done)
    | (have hr := release_of_mine _ _ _ hL hpcT.1; simp_all; done)

theorem step_flag (cfg : Cfg) (s s' : State) (t : Nat) (v : Variant) (hinv : Inv cfg s)
    (h : step cfg s t v = some s') : s'.flag ≤ 1 := by
  have hF := hinv.flag
  step_split
  all_goals first
    | exact hF
    | (simp only []; omega)
    | (mine_facts; simp only []; omega)

theorem step_cnt (cfg : Cfg) (s s' : State) (t : Nat) (v : Variant) (hinv : Inv cfg s)
    (h : step cfg s t v = some s') :
    s'.sleeping + sumD s' cfg.n = s'.woken + sumA s' cfg.n + sumB s' cfg.n := by
  step_split
  all_goals (refine cnt_frame cfg s _ t _ hinv hlt rfl ?_)
  all_goals (simp only [*, goto_pc, finish_pc, wA_raise, wB_raise, wD_raise, wA_waitReturn,
    wB_waitReturn, wD_waitReturn, wA_notifyAllReturn, wB_notifyAllReturn, wD_notifyAllReturn,
    wA_enter _ _ _ PC.w1 rfl, wB_enter _ _ _ PC.w1 rfl, wD_enter _ _ _ PC.w1 rfl,
    wA_enter _ _ _ PC.n1 rfl, wB_enter _ _ _ PC.n1 rfl, wD_enter _ _ _ PC.n1 rfl,
    wA_enter _ _ _ PC.a1 rfl, wB_enter _ _ _ PC.a1 rfl, wD_enter _ _ _ PC.a1 rfl])
  all_goals (simp only [wA, wB, wD])
  all_goals omega

theorem step_thr (cfg : Cfg) (s s' : State) (t : Nat) (v : Variant) (hinv : Inv cfg s)
    (h : step cfg s t v = some s') : ∀ u, u < cfg.n → TInv cfg s' u := by
  step_split
  all_goals (refine thr_frame cfg s _ t _ hinv rfl ?_ ?_ hlt)
  -- the scripted `release()` (RLock only): owner or not
  all_goals try (
    have hk := lockRel_rlock cfg s t hT ‹_›
    have hctx := hT.ctx ‹_›
    by_cases hm : isMine s.lock t = true
    · have hr := release_of_mine _ _ _ hL hm
      first
        | exact Or.inr (fun u hu => release_other _ _ _ u hL hm hu)
        | (refine yok_finish s t _ _ hR ?_ ?_ ?_ <;> simp [hr.1, relRet])
    · have hm' : isMine s.lock t = false := by simpa using hm
      have hr := release_rlock_not_mine s.lock t (hL.kind.trans hk) hm'
      first
        | (left; simp only [hr])
        | (refine yok_finish s t _ _ hR ?_ ?_ ?_ <;> simp [hr, relRet, hctx]))
  all_goals first
    | exact Or.inl rfl
    | exact Or.inr (fun u hu => acquired_other _ _ _ _ hL ‹_› hu)
    | (refine Or.inr (fun u hu => ?_)
       have hro := release_other _ _ _ u hL (by first | exact hpcT | exact hpcT.1) hu
       simp_all; done)
    | skip
  all_goals first
    | (refine yok_goto s t _ _ hR ?_ (by intro hh; first | (simp [TS.cur, *]; done) | cases hh))
    | (refine yok_finish s t _ _ hR ?_ ?_ ?_)
    | (refine yok_waitReturn s t _ _ hR ?_)
    | (refine yok_notifyAllReturn s t _ hR ?_)
    | (refine yok_enter s t _ _ hR rfl ?_ (by intro hh; cases hh) ?_)
    | skip
  all_goals (try simp only [])
  all_goals try (simp [pcOK, TS.cur, Op.isEvent, *]; done)
  all_goals try (have ham := acquired_mine _ _ _ hL ‹_›; simp [pcOK, ham, *]; done)
  all_goals try (simp only [pcOK, hpcT]; omega)
  all_goals try (simp [pcOK, hpcT]; omega)
  all_goals try (simp [pcOK, hpcT.1]; omega)
  all_goals try (have := hL.cnn; have hm := (isMine_iff s.lock t).1 hpcT; simp [pcOK, hpcT]; omega)
  all_goals try (
    have hr := release_of_mine _ _ _ hL hpcT.1
    have hra := release_mine_after _ _ _ hL hpcT.1
    have hm := (isMine_iff s.lock t).1 hpcT.1
    simp only [*] at hr hra
    simp only [pcOK, hra, hr.2.2.1]
    simp
    omega)
  all_goals try (
    have ham := acquired_mine _ _ _ hL ‹_›
    simp only [pcOK, ham.1, ham.2]
    rcases hpcT with ⟨h1, h2, h3⟩
    split at h3
    · simp [h3]; omega
    · simp [h3.1]; omega)

theorem step_post (cfg : Cfg) (s s' : State) (t : Nat) (v : Variant) (hinv : Inv cfg s)
    (h : step cfg s t v = some s') :
    0 < s'.waitsem → 0 < s'.lock.count ∧ inPost (s'.th s'.lock.lastTid).pc = true := by
  step_split
  all_goals try (
    have hk := lockRel_rlock cfg s t hT ‹_›
    by_cases hm : isMine s.lock t = true
    · exact post_zero cfg s _ t hinv _ rfl (Or.inr hm) (by simp only [*, inPost])
    · have hm' : isMine s.lock t = false := by simpa using hm
      have hr := release_rlock_not_mine s.lock t (hL.kind.trans hk) hm'
      refine post_same cfg s _ t _ hinv rfl (by simp only [hr]) ?_ ?_
      · intro _ hh; rw [hm'] at hh; cases hh
      · intro hq _; exact ⟨hq, by simp only [*, inPost]⟩)
  all_goals first
    | (refine post_same cfg s _ t _ hinv rfl rfl ?_ ?_)
    | (refine post_zero cfg s _ t hinv _ rfl ?_ (by simp only [*, inPost]))
  all_goals (try simp only [])
  -- lock-changing steps
  all_goals try (exact Or.inr (by first | exact hpcT | exact hpcT.1))
  all_goals try (
    have hca := (canAcquire_iff _ _ t hL).1 ‹_›
    rcases hca with ⟨_, hca⟩ | hca
    · exact Or.inr hca
    · exact Or.inl hca)
  -- the thread owns the lock: second obligation is vacuous
  all_goals try (intro _ hn; rw [show isMine s.lock t = true from by first | exact hpcT | exact hpcT.1] at hn; cases hn; done)
  all_goals try (intro hq hn; exact ⟨by omega, by simp only [*, inPost]⟩)
  all_goals try (
    intro hq hmine
    have hm := (isMine_iff s.lock t).1 hmine
    have hpost := hinv.post
    rw [hm.2] at hpost
    simp only [*, inPost] at hpost
    have hhf := hinv.hf hm.1
    rw [hm.2] at hhf
    simp only [*, holderFacts] at hhf
    first
      | (simp [inPost] at hpost ⊢; done)
      | (simp [inPost] at hpost ⊢; omega)
      | (exfalso; simp at hpost; omega))

theorem step_hf (cfg : Cfg) (s s' : State) (t : Nat) (v : Variant) (hinv : Inv cfg s)
    (h : step cfg s t v = some s') :
    0 < s'.lock.count → holderFacts (s'.th s'.lock.lastTid).pc s' := by
  have hF := hinv.flag
  step_split
  -- scripted release()
  all_goals try (
    have hk := lockRel_rlock cfg s t hT ‹_›
    by_cases hm : isMine s.lock t = true
    · have hr := release_of_mine _ _ _ hL hm
      have hm2 := (isMine_iff s.lock t).1 hm
      exact hf_mine _ s.th t _ rfl (fun _ => hr.2.2.2.trans hm2.2) (holderFacts_plain _ _ (by simp [plainPC]))
    · have hm' : isMine s.lock t = false := by simpa using hm
      have hr := release_rlock_not_mine s.lock t (hL.kind.trans hk) hm'
      exact hf_other cfg s _ t _ hinv rfl (by simp only [hr]) hm'
        (fun p _ hp => holderFacts_congr p s _ rfl rfl rfl rfl hp))
  -- acquire
  all_goals try (
    have ham := acquired_mine _ _ _ hL ‹_›
    refine hf_mine _ s.th t _ rfl (fun _ => ((isMine_iff _ _).1 ham.1).2) (holderFacts_plain _ _ ?_)
    first | rfl | exact plain_waitReturn _ _ | (simp [plainPC]; done))
  -- release by the owner
  all_goals try (
    have hmine : isMine s.lock t = true := by first | exact hpcT | exact hpcT.1
    have hr := release_of_mine _ _ _ hL hmine
    have hm2 := (isMine_iff s.lock t).1 hmine
    simp only [*] at hr
    refine hf_mine _ s.th t _ rfl (fun _ => by first | exact hr.2.2.2.trans hm2.2 | exact hr.2.2.2) (holderFacts_plain _ _ ?_)
    first | rfl | (simp [plainPC]; done))
  -- lock unchanged, thread does not own it
  all_goals try (
    have hnm : isMine s.lock t = false := hpcT.1
    refine hf_other cfg s _ t _ hinv rfl rfl hnm (fun p hp hf => ?_)
    first
      | exact holderFacts_congr p s _ rfl rfl rfl rfl hf
      | exact holderFacts_take p s _ (hp ‹_›) ‹_› rfl rfl rfl hf)
  -- lock unchanged, thread owns it
  all_goals try (
    mine_facts
    refine hf_mine _ s.th t _ rfl (fun _ => hm.2) ?_
    first
      | (refine holderFacts_plain _ _ ?_
         first | rfl | exact plain_notifyAllReturn _ | exact plain_enter _ _ _ _ rfl | (simp [plainPC]; done))
      | (simp [inPost] at hpost; simp only [goto_pc, holderFacts]; omega)
      | (simp [inPost] at hpost; simp [holderFacts]; omega)
      | (simp only [goto_pc, holderFacts]))
  -- lock unchanged, ownership unknown (begin of an operation, failed try-lock)
  all_goals try (
    by_cases hmine : isMine s.lock t = true
    · have hm := (isMine_iff s.lock t).1 hmine
      refine hf_mine _ s.th t _ rfl (fun _ => hm.2) (holderFacts_plain _ _ ?_)
      first | rfl | exact plain_enter _ _ _ _ rfl | (simp [plainPC]; done)
    · have hnm : isMine s.lock t = false := by simpa using hmine
      exact hf_other cfg s _ t _ hinv rfl rfl hnm (fun p _ hf => holderFacts_congr p s _ rfl rfl rfl rfl hf))

theorem inv_step (cfg : Cfg) (s s' : State) (t : Nat) (v : Variant) (hinv : Inv cfg s)
    (h : step cfg s t v = some s') : Inv cfg s' :=
  ⟨step_lock cfg s s' t v hinv h, step_thr cfg s s' t v hinv h, step_cnt cfg s s' t v hinv h,
   step_post cfg s s' t v hinv h, step_hf cfg s s' t v hinv h, step_flag cfg s s' t v hinv h⟩

theorem inv_reachable (cfg : Cfg) (hwf : cfg.wf) (s : State) (h : Reachable cfg s) : Inv cfg s := by
  induction h with
  | init => exact inv_init cfg hwf
  | step _ hs ih => exact inv_step cfg _ _ _ _ ih hs

end LokyModel.Cond
