import LokyModel.Lemmas.ExecLiveCrashStaticBase
/-! `staticSmallC'`: steps of the queue-feeder thread. -/
namespace LokyModel.Exec.StaticCP
open StaticP
set_option linter.unusedSimpArgs false

set_option maxHeartbeats 4000000 in
theorem fSumC_step (s s' : St) (v : Variant) (hq : QOk s.cqBuf s.cqPipe s.fpc (mLate s.mpc) (mFinal s.mpc))
    (hs : stepF s v = some s') : FSum s s' := by
  have hfc := hq.fc
  unfold stepF at hs
  crack
  all_goals constructor
  all_goals (first
    | rfl
    | (simp; done)
    | (exact fNext_q _ _ _ _ hq)
    | (have e := ‹s.fpc = FPc.send _›; rw [e] at hq; exact qOk_send _ _ _ _ _ hq)
    | (refine qOk_fpc _ _ _ _ _ _ hq ?_ ?_ ?_ ?_ <;> simp_all [fClose, fStop]; done)
    | (refine qOk_fpc _ _ _ _ _ _ hq ?_ ?_ ?_ ?_ <;> cases ‹CMsg› <;> simp_all [fClose, fStop]; done)
    | (simp [setFut]; done)
    | skip)

theorem ci_stepF (s s' : St) (v : Variant) (h : CI s) (hs : stepF s v = some s') : CI s' := by
  have F := fSumC_step s s' v (qOk_of_ci s h) hs
  have Q := F.q
  have had : anyDead s' = anyDead s := by simp only [anyDead, F.allPids, F.w]
  refine { mn := ?mn, kf := ?kf, wn := ?wn, bu := ?bu, bd := ?bd, md := ?md, pd := ?pd, kj := ?kj, rc := ?rc, cr := ?cr,
           je := ?je, api := ?api, fb := Q.fb, wc := ?wc, pe := ?pe, snap := ?snap, wb := ?wb, rb := ?rb, cp := Q.cp,
           fc := Q.fc, cl := Q.cl, late := ?late, tr := ?tr, nks := ?nks, nkc := ?nkc, nkp := ?nkp, fu := ?fu, ko := ?ko, pre := ?pre }
  all_goals try simp only [had, F.mpc, F.upc, F.ucur, F.uscript, F.procDict, F.allPids, F.cfg, F.w, F.rqPipe,
    F.wakeupClosed, F.broken, F.killFlag, F.threadReg, F.futs]
  case mn => exact h.mn
  case kf => exact h.kf
  case wn => exact h.wn
  case bu => exact h.bu
  case bd => exact h.bd
  case md => exact h.md
  case pd => exact h.pd
  case kj => exact h.kj
  case rc => exact h.rc
  case cr => intro hm; have := h.cr hm; have := F.wk; omega
  case je => exact h.je
  case api => exact h.api
  case wc => exact h.wc
  case pe => exact h.pe
  case snap => exact h.snap
  case wb => exact h.wb
  case rb => exact h.rb
  case late => exact Q.late
  case tr => exact h.tr
  case nks => exact h.nks
  case nkc => exact h.nkc
  case nkp => exact h.nkp
  case fu => exact h.fu
  case ko => exact h.ko
  case pre =>
    intro hf
    have P := h.pre hf
    refine { ns := ?ns, nb := Q.nb hf, np := Q.np hf, nr := ?nr, nf := Q.nf hf }
    all_goals try simp only [F.mpc, F.upc, F.procDict, F.allPids, F.cfg, F.w, F.rqPipe]
    case ns => exact P.ns
    case nr => exact P.nr

end LokyModel.Exec.StaticCP
