import LokyModel.Lemmas.ExecLiveMeasureBase
/-! `mu` decreases: steps of a worker process.  The only fact needed about the state is that the worker is not inside
    the get-with-time-out / `queue.Empty` code (`wNever`), whose retry after a failed try-lock is a genuine poll loop
    (not present in static pools: no idle time-out). -/
namespace LokyModel.Exec
set_option linter.unusedSimpArgs false

@[simp] theorem wGet_wRank (s : St) (p : Pid) : wRank ((wGet s p).w p) = 16 := by
  unfold wGet; split <;> simp [setW, upd, wRank]
theorem wDispatch_wRank (s : St) (p : Pid) (m : CMsg) : wRank ((wDispatch s p m).w p) ≤ 27 := by
  unfold wDispatch; (repeat' split) <;> simp [setW, upd, wRank]
theorem wAfterStart_wRank (s : St) (p : Pid) : wRank ((wAfterStart s p).w p) ≤ 17 := by
  unfold wAfterStart; split <;> first | (simp; done) | simp [setW, upd, wRank]
theorem wAfterResult_wRank (s : St) (p : Pid) : wRank ((wAfterResult s p).w p) ≤ 16 := by
  unfold wAfterResult; simp only []; (repeat' split) <;> first | (simp; done) | simp [setW, upd, wRank]

theorem die_wRank (s : St) (p : Pid) (c : Int) : wRank ((die s p c).w p) = 0 := by simp [die, upd, wRank]

/-- every program counter of a live worker of a static pool has a positive rank -/
theorem wRank_pos (pc : WPc) (hd : pc = .dead → False) (hn : wNever pc = false) : 0 < wRank pc := by
  cases pc <;> simp_all [wRank, wNever]

local macro "wbound" t:term : tactic =>
  `(tactic| refine Nat.lt_of_le_of_lt (Nat.add_le_add_right (Nat.add_le_add_right $t _) _) ?_)

set_option maxHeartbeats 4000000 in
theorem mu_stepW (s s' : St) (p : Pid) (v : Variant) (hp : PidsInv s) (hm : p ∈ s.allPids)
    (hwn : wNever (s.w p) = false) (hs : stepW s p v = some s') : mu s' < mu s := by
  unfold stepW at hs
  crack
  all_goals (first
    | (exfalso; simp_all [wNever]; done)
    | (refine mu_W s _ p hp.nodup hm ?_ ?_ ?_ ?_ ?_ ?_ ?_ ?_ ?_ ?_ ?_ ?_
       all_goals (first
         | rfl
         | (simp; done)
         | (intro q hne
            simp [wAfterStart_w_other, wGet_w_other, wDispatch_w_other, wAfterResult_w_other, setW_w_other, die_w_other, hne]; done)
         | (simp [setW_w', die_w', upd_same', wRank, *]; done)
         | (simp [setW_w', die_w', upd_same', wRank, *]; omega)
         | (have h0 := wRank_pos (s.w p) ‹_› hwn
            wbound (Nat.le_of_eq (die_wRank _ _ _))
            simp; omega)
         | (wbound (Nat.le_of_eq (wGet_wRank _ _)); simp [wRank, *]; done)
         | (wbound (wDispatch_wRank _ _ _); simp [wRank, *]; done)
         | (wbound (wAfterStart_wRank _ _); simp [wRank, *]; done)
         | (wbound (wAfterResult_wRank _ _); simp [wRank, *]; done))))

end LokyModel.Exec
