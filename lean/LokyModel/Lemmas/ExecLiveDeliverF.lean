import LokyModel.Lemmas.ExecLiveDeliverBase
/-! `RefP` across a feeder step: the feeder gives a slot back only in `_on_queue_feeder_error`, which then wakes the
    manager. -/
namespace LokyModel.Exec
set_option linter.unusedSimpArgs false
set_option linter.unusedVariables false

set_option maxHeartbeats 4000000 in
theorem refP_stepF (s s' : St) (v : Variant) (hst : staticOk s = true) (h : RefP s) (hs : stepF s v = some s') :
    RefP s' := by
  have hwc := static_wc s hst
  unfold stepF at hs
  crack
  all_goals (
    intro n
    have n0 : NeedR s := needR_congr s _ (by first | rfl | (simp; done)) (by first | rfl | (simp; done)) n
    have hw0 := hwc (needR_idle n0)
    refine WR_F s _ ?_ ?_ ?_ ?_ ?_ ?_ ?_ ?_ ?_ (h n0))
  all_goals (first
    | rfl
    | (simp; done)
    | (intro hx; simp_all [fOwes]; done)
    | (left; simp; done)
    | (right; simp_all [fOwes]; done)
    | skip)

end LokyModel.Exec
