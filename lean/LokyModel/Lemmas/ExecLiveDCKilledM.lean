import LokyModel.Lemmas.ExecLiveDCKilledBase
/-! `dcKilled` along the steps of the manager thread. -/
namespace LokyModel.Exec

theorem mAddF_not_kill' (X : St) (p : Pid) : ¬ atKill (mAddF X).mpc p := by
  intro hk
  rcases mAddF_mpc X with ⟨i, _, e⟩ | ⟨_, e, _⟩ | ⟨_, e, _⟩ <;> rw [e] at hk <;> rcases hk with e | e <;> cases e

/-- `flag_executor_shutting_down` is left: with `kill_workers` the kill loop pops a registered worker -/
theorem dk_flagRel (s X : St) (h : DK s) (hpi : PidsInv s) (hm : s.mpc = .flagRel)
    (hb : X.broken = s.broken) (hp : X.procDict = s.procDict) : (∀ q ∈ s.allPids, q ∈ (mAfterFlag X).allPids) →
    DK (mAfterFlag X) := by
  intro ha
  have hnb := h.nobroken hm rfl
  refine dk_of_nobroken _ (by simp [hb, hnb]) (fun p e => absurd e (mAfterFlag_not_kj X p)) ?_
  intro p hk
  have := mAfterFlag_mem X p hk
  rw [hp] at this
  exact ha p (hpi.reg p this)

/-- `terminate_broken` takes `shutdown_lock`: both flags are raised -/
theorem dk_brkAcq (s : St) (b : Broken) (x : Nat) :
    DK { s with shut := x, oShut := some .M, shutdownFlag := true, broken := some b, mpc := .brkRel b } := by
  refine ⟨fun _ => rfl, fun _ => rfl, ?_, ?_, ?_⟩
  · intro p hk; cases hk
  · intro p hk; rcases hk with e | e <;> cases e
  · intro _ hm; simp [mFinal] at hm

/-- `terminate_broken` releases the lock and starts the kill loop; `join()` of a victim returned: the next registered
    worker is popped, or the final phase starts on an empty registry -/
theorem dk_killNext (s X : St) (h : DK s) (hpi : PidsInv s)
    (hb : X.broken = s.broken) (hf : X.shutdownFlag = s.shutdownFlag) (hp : X.procDict = s.procDict)
    (ha : X.allPids = s.allPids) : DK (mKillNext X) := by
  refine ⟨?_, fun _ => mKillNext_late X, ?_, ?_, ?_⟩
  · intro hb'; rw [mKillNext_broken, hb] at hb'; rw [mKillNext_shutdownFlag, hf]; exact h.flag hb'
  · intro p e; exact absurd e (mKillNext_not_kj X p)
  · intro p hk
    have := mKillNext_mem X p hk
    rw [hp] at this
    rw [mKillNext_allPids, ha]
    exact hpi.reg p this
  · intro _ hfin
    have hnil := mKillNext_fin X hfin
    refine ⟨?_, fun p => mKillNext_not_jJoin X p⟩
    unfold mKillNext
    rw [hnil]
    simp [mJoinStart, hnil]

/-- `kill()`: the victim is dead from here on, whatever it was doing -/
theorem dk_kill (s s' : St) (p : Pid) (h : DK s) (hm : s.mpc = .kill p) (hm' : s'.mpc = .killJoin p)
    (hb : s'.broken = s.broken) (hf : s'.shutdownFlag = s.shutdownFlag)
    (ha : s'.allPids = s.allPids) (hw : s'.w p = .dead) : DK s' := by
  refine ⟨by rw [hb, hf]; exact h.flag, fun _ => by rw [hm']; rfl, ?_, ?_, ?_⟩
  · intro p' hk
    rw [hm'] at hk
    injection hk with e; subst e; exact hw
  · intro p' hk
    have hpp : p' = p := by
      rw [hm'] at hk
      rcases hk with e | e
      · cases e
      · injection e with e; exact e.symm
    subst hpp
    rw [ha]
    exact h.mem p' (.inl hm)
  · intro _ hfin; rw [hm'] at hfin; simp [mFinal] at hfin

set_option linter.unusedSimpArgs false in
set_option maxHeartbeats 8000000 in
theorem dk_stepM (s s' : St) (v : Variant) (h : DK s) (hpi : PidsInv s)
    (hs : stepM s v = some s') : DK s' := by
  unfold stepM at hs
  crack
  all_goals (first
    -- the steps that matter
    | (refine dk_flagRel s _ h hpi ‹s.mpc = _› rfl rfl ?_; intro q hq; simpa using hq; done)
    | (exact dk_brkAcq s _ _)
    | (refine dk_killNext s _ h hpi ?_ ?_ ?_ ?_ <;> first | rfl | (simp; done))
    | (refine dk_kill s _ _ h ‹s.mpc = _› ?_ ?_ ?_ ?_ ?_
       all_goals (first
         | rfl
         | (simp; done)
         | (simp [die, upd]; done)
         | (simpa [alive] using ‹¬ (alive s _ = true)›)
         | (simp_all [alive]; done)))
    -- inside the final phase
    | (refine dk_final s _ h (by rw [‹s.mpc = _›]; rfl) ?_ ?_ ?_ ?_
       all_goals (first
         | rfl
         | (simp; done)
         | (simp [fin_mJoinLoop, fin_mRelExitNext, fin_mAliveNext, fin_mAfterPut, fin_mJoinProcs]; done)
         | (simp [mFinal]; done)
         | (split <;> simp [fin_mJoinClose, fin_mJoinLoop, fin_mRelExitNext, fin_mAliveNext, fin_mAfterPut, fin_mJoinProcs, mFinal]; done)
         | (intro hpd hnj
            first
            | (exact absurd ‹s.mpc = _› (hnj _))
            | (exact mJoinProcs_nil _ (by simpa using hpd))
            | (refine ⟨by simpa using hpd, ?_⟩
               intro p
               first
               | (simp [nj_mJoinClose, nj_mJoinLoop, nj_mRelExitNext, nj_mAliveNext, nj_mAfterPut]; done)
               | (split <;> simp [nj_mJoinClose, nj_mJoinLoop, nj_mRelExitNext, nj_mAliveNext, nj_mAfterPut]; done)))))
    -- the main loop: the pool is not flagged broken
    | (have hb := h.nobroken ‹s.mpc = _› rfl
       refine dk_nb _ (by simpa using hb) ?_
       intro p hk
       first
       | (exact mAddF_not_kill' _ _ hk)
       | (have := atKill_flagged hk; simp at this; done)
       | (rcases hk with e | e <;> simp at e; done)
       | (have := atKill_flagged hk; simp [mFlagged] at this; done)))

end LokyModel.Exec
