import LokyModel.Lemmas.ExecLiveDeliverBase
import LokyModel.Lemmas.ExecLiveStuck2
/-! Static pool: a state in which no step other than a crash or the completion of a task body is enabled *delivers* —
    `max_workers` bodies are running, or every unresolved future is being run — provided the ingredients of
    `ExecLive.lean` and `refillOk` hold in it.  The case analysis is that of `stuck_good` (`ExecLiveStuck2.lean`), with
    workers that may also sit inside a body. -/
namespace LokyModel.Exec
set_option linter.unusedVariables false

/-! ### what `enabledNB s = []` says, actor by actor -/

theorem mem_enabledNC (s : St) (a : Actor) (ha : a ∈ actorsOf s) (v : Variant)
    (hv : v = .ok ∨ v = .timeout ∨ v = .fail) (hs : (step s a v).isSome = true) : (a, v) ∈ enabledNC s := by
  unfold enabledNC
  rw [List.mem_flatMap]
  refine ⟨a, ha, ?_⟩
  rw [List.mem_map]
  refine ⟨v, ?_, rfl⟩
  rw [List.mem_filter]
  refine ⟨?_, hs⟩
  rcases hv with h | h | h <;> simp [h]

theorem step_none_of_quietNB (s : St) (hq : enabledNB s = []) (a : Actor) (ha : a ∈ actorsOf s) (v : Variant)
    (hv : v = .ok ∨ v = .timeout ∨ v = .fail) (hb : isBodyDone s (a, v) = false) : step s a v = none := by
  cases hst : step s a v with
  | none => rfl
  | some x =>
    exfalso
    have hm := mem_enabledNC s a ha v hv (by simp [hst])
    have : (a, v) ∈ enabledNB s := by
      unfold enabledNB
      rw [List.mem_filter]
      exact ⟨hm, by simp [hb]⟩
    rw [hq] at this
    cases this

/-- nobody but workers inside a task body can move -/
structure QNB (s : St) : Prop where
  u : ∀ k, k < s.cfg.scripts.length → stepU s k .ok = none
  m : stepM s .ok = none ∧ stepM s .fail = none
  f : stepF s .ok = none
  w : ∀ p ∈ s.allPids, inBody (s.w p) = false →
        stepW s p .ok = none ∧ stepW s p .timeout = none ∧ stepW s p .fail = none

theorem qnb_of (s : St) (hq : enabledNB s = []) : QNB s := by
  refine ⟨?_, ⟨?_, ?_⟩, ?_, ?_⟩
  · intro k hk
    have := step_none_of_quietNB s hq (.U k) (by simp [actorsOf]; exact hk) .ok (.inl rfl) rfl
    simpa [step, hk] using this
  · simpa [step] using step_none_of_quietNB s hq .M (by simp [actorsOf]) .ok (.inl rfl) rfl
  · simpa [step] using step_none_of_quietNB s hq .M (by simp [actorsOf]) .fail (.inr (.inr rfl)) rfl
  · simpa [step] using step_none_of_quietNB s hq .F (by simp [actorsOf]) .ok (.inl rfl) rfl
  · intro p hp hb
    have ha : Actor.W p ∈ actorsOf s := by simp [actorsOf]; exact hp
    refine ⟨?_, ?_, ?_⟩
    · simpa [step, hp] using step_none_of_quietNB s hq (.W p) ha .ok (.inl rfl) (by simp [isBodyDone, hb])
    · simpa [step, hp] using step_none_of_quietNB s hq (.W p) ha .timeout (.inr (.inl rfl)) rfl
    · simpa [step, hp] using step_none_of_quietNB s hq (.W p) ha .fail (.inr (.inr rfl)) rfl

theorem inBody_cases (pc : WPc) (h : inBody pc = true) : ∃ w t, pc = .taskEnd w t := by
  cases pc <;> simp [inBody] at h
  exact ⟨_, _, rfl⟩

/-- what is known of workers and feeder when only task bodies can move -/
structure QuietB (s : St) : Prop where
  w : ∀ p ∈ s.allPids, s.w p = .dead ∨ (s.w p = .gAcq ∧ s.cqRlock = 0) ∨ (s.w p = .gRecv ∧ s.cqPipe = []) ∨
        inBody (s.w p) = true
  rlock : s.cqRlock = 0 → ∃ p ∈ s.allPids, s.w p = .gRecv ∧ s.cqPipe = []
  f : (s.fpc = .none ∨ s.fpc = .done ∨ s.fpc = .wait) ∧ s.cqBuf = [] ∨ (s.fpc = .errAcq ∧ s.shut = 0)

theorem quietB_of (s : St) (hp : PidsInv s) (h2 : holderOk s = true) (SF : StaticFacts s) (Q : QNB s) : QuietB s := by
  obtain ⟨Hrq, Hcqr, Hcqw, _, _, _⟩ := holder_facts s h2
  have Lrq : s.rqWlock ≠ 0 := by
    intro hz
    obtain ⟨p, hp2⟩ := Hrq hz
    have hpm : p ∈ s.allPids := by
      apply Decidable.byContradiction
      intro hn
      rw [hp.dead p hn] at hp2
      simp [inRqW] at hp2
    have hb : inBody (s.w p) = false := by
      cases hw : s.w p <;> simp [hw, inRqW] at hp2 <;> rfl
    exact enabled_inRqW s p hp2 (Q.w p hpm hb).1
  have W' : ∀ p ∈ s.allPids, s.w p = .dead ∨ (s.w p = .gAcq ∧ s.cqRlock = 0) ∨ (s.w p = .gRecv ∧ s.cqPipe = []) ∨
      inBody (s.w p) = true := by
    intro p hpm
    cases hb : inBody (s.w p) with
    | true => exact .inr (.inr (.inr rfl))
    | false =>
      have qw := Q.w p hpm hb
      rcases wBlocked s p qw.1 qw.2.1 (SF.wnever p hpm) with h | h | h | h | h
      · exact .inl h
      · exact .inr (.inl h)
      · exact .inr (.inr (.inl h))
      · exact absurd h.2 Lrq
      · exact absurd h.2 Lrq
  refine ⟨W', ?_, ?_⟩
  · intro hz
    obtain ⟨p, hp2⟩ := Hcqr hz
    have hpm : p ∈ s.allPids := by
      apply Decidable.byContradiction
      intro hn
      rw [hp.dead p hn] at hp2
      simp [inCqR] at hp2
    rcases W' p hpm with h | h | h | h
    · rw [h] at hp2; simp [inCqR] at hp2
    · rw [h.1] at hp2; simp [inCqR] at hp2
    · exact ⟨p, hpm, h⟩
    · obtain ⟨w, t, e⟩ := inBody_cases _ h
      rw [e] at hp2; simp [inCqR] at hp2
  · rcases fBlocked s Q.f with h | h | h | h | h
    · exact .inl ⟨.inl h, SF.fidle (.inl h)⟩
    · exact .inl ⟨.inr (.inl h), SF.fidle (.inr h)⟩
    · exact .inl ⟨.inr (.inr h.1), h.2⟩
    · exfalso
      have := Hcqw h.2
      rcases h.1 with ⟨m, hm⟩ | ⟨w, hw⟩
      · rw [hm] at this; simp [inCqWF] at this
      · rw [hw] at this; simp [inCqWF] at this
    · exact .inr h

theorem mBlockedB (s : St) (SF : StaticFacts s) (Q : QNB s) :
    s.mpc = .none ∨ mEnded s = true ∨
    (∃ snap, s.mpc = .wait snap ∧ s.rqPipe = [] ∧ s.wakeup = 0 ∧ snap.any (isDead s) = false) ∨
    (mWaitSlot s.mpc = true ∧ s.cqSem = 0) ∨ (mWaitShut s.mpc = true ∧ s.shut = 0) ∨
    (mWaitMgmt s.mpc = true ∧ s.mgmt = 0) ∨ JoinStuck s :=
  mBlocked s Q.m.1 Q.m.2 SF.mnever SF.recv SF.clr SF.l1 SF.l2

theorem mgmt_zeroB (s : St) (hp : PidsInv s) (h2 : holderOk s = true) (SF : StaticFacts s) (Q : QNB s)
    (hz : s.mgmt = 0) : JoinStuck s := by
  obtain ⟨_, _, _, _, Hmg, _⟩ := holder_facts s h2
  rcases Hmg hz with ⟨k, hk, hu⟩ | hm | ⟨p, hw⟩
  · exact absurd (Q.u k hk) (enabled_inMgmtU' s k hu)
  · rcases mBlockedB s SF Q with h | h | ⟨sn, h, _⟩ | h | h | h | h
    · rw [h] at hm; simp [inMgmtM'] at hm
    · rcases mEnded_cases s h with h | ⟨w, h⟩ <;> rw [h] at hm <;> simp [inMgmtM'] at hm
    · rw [h] at hm; simp [inMgmtM'] at hm
    · cases hpc : s.mpc <;> simp [hpc, mWaitSlot, inMgmtM'] at h hm
    · cases hpc : s.mpc <;> simp [hpc, mWaitShut, inMgmtM'] at h hm
    · cases hpc : s.mpc <;> simp [hpc, mWaitMgmt, inMgmtM'] at h hm
    · exact h
  · exfalso
    have hpm : p ∈ s.allPids := by
      apply Decidable.byContradiction
      intro hn
      rw [hp.dead p hn] at hw
      cases hw
    have := SF.wnever p hpm
    rw [hw] at this; simp [wNever] at this

theorem shut_zeroB (s : St) (h2 : holderOk s = true) (SF : StaticFacts s) (QB : QuietB s) (Q : QNB s)
    (hz : s.shut = 0) : ∃ k, k < s.cfg.scripts.length ∧ s.upc k = .subAcqMgmt ∧ s.mgmt = 0 := by
  obtain ⟨_, _, _, _, _, Hsh⟩ := holder_facts s h2
  rcases Hsh hz with ⟨k, hk, hu⟩ | hm | hf
  · by_cases hc : s.upc k = .subAcqMgmt ∧ s.mgmt = 0
    · exact ⟨k, hk, hc.1, hc.2⟩
    · exfalso
      refine enabled_inShutU' s k hu ?_ (Q.u k hk)
      intro h1 h0; exact hc ⟨h1, h0⟩
  · exfalso
    rcases mBlockedB s SF Q with h | h | ⟨sn, h, _⟩ | h | h | h | ⟨p, h, _⟩
    · rw [h] at hm; simp [inShutM'] at hm
    · rcases mEnded_cases s h with h | ⟨w, h⟩ <;> rw [h] at hm <;> simp [inShutM'] at hm
    · rw [h] at hm; simp [inShutM'] at hm
    · cases hpc : s.mpc <;> simp [hpc, mWaitSlot, inShutM'] at h hm
    · cases hpc : s.mpc <;> simp [hpc, mWaitShut, inShutM'] at h hm
    · cases hpc : s.mpc <;> simp [hpc, mWaitMgmt, inShutM'] at h hm
    · rw [h] at hm; simp [inShutM'] at hm
  · exfalso
    rcases QB.f with ⟨h | h | h, _⟩ | ⟨h, _⟩ <;> rw [h] at hf <;> simp [inShutF'] at hf

theorem feeder_idleB (s : St) (QB : QuietB s) (hsh : s.shut ≠ 0) :
    (s.fpc = .none ∨ s.fpc = .done ∨ s.fpc = .wait) ∧ s.cqBuf = [] := by
  rcases QB.f with h | h
  · exact h
  · exact absurd h.2 hsh

theorem uParked_of (pc : UPc) (h : pc = .done ∨ uWaitG pc = true ∨ uJoin pc = true) : uParked pc = true := by
  rcases h with h | h | h
  · rw [h]; rfl
  · cases pc <;> simp [uWaitG] at h <;> rfl
  · cases pc <;> simp [uJoin] at h <;> rfl

theorem uParked_facts (pc : UPc) (h : uParked pc = true) : uOwes pc = false ∧ inShutU' pc = false := by
  cases pc <;> simp [uParked] at h <;> exact ⟨rfl, rfl⟩

theorem uOwes2_of_uOwes_false (s : St) (pc : UPc) (h : uOwes pc = false) : uOwes2 s pc = false := by
  cases ho : uOwes2 s pc with
  | false => rfl
  | true => rw [uOwes_of_uOwes2 s pc ho] at h; cases h

theorem sumL_le_length {α : Type} (f : α → Nat) (l : List α) (h : ∀ x ∈ l, f x ≤ 1) : sumL f l ≤ l.length := by
  induction l with
  | nil => simp
  | cons a l ih =>
    have h1 := h a (by simp)
    have h2 := ih (fun x hx => h x (by simp [hx]))
    simp only [sumL_cons, List.length_cons]
    omega

theorem wPost_le_one (pc : WPc) : wPost pc ≤ 1 := by
  cases pc <;> simp [wPost]

theorem nBodies_all (s : St) (h : ∀ p ∈ s.allPids, inBody (s.w p) = true) : nBodies s = s.allPids.length := by
  unfold nBodies
  rw [List.filter_eq_self.2 h]

/-- the promise, in Prop form -/
def Delivered (s : St) : Prop :=
  (nBodies s = s.cfg.maxWorkers ∨
    ∀ i, i < s.futs.length → (futOf s i).done = false → ∃ p ∈ s.allPids, ∃ t, s.w p = .taskEnd i t) ∧
  ∀ k, k < s.cfg.scripts.length → uParked (s.upc k) = true

/-- the call queue is empty as soon as one worker of the pool is not inside a body -/
theorem pipe_empty_of (s : St) (QB : QuietB s) (hns : ∀ p ∈ s.allPids, wStopping (s.w p) = false)
    (p : Pid) (hpm : p ∈ s.allPids) (hb : inBody (s.w p) = false) : s.cqPipe = [] := by
  rcases QB.w p hpm with h | h | h | h
  · have := hns p hpm; rw [h] at this; simp [wStopping] at this
  · obtain ⟨_, _, _, h'⟩ := QB.rlock h.2; exact h'
  · exact h.2
  · rw [h] at hb; cases hb

theorem wSlot_zero_of (s : St) (QB : QuietB s) : sumL (fun p => wSlot (s.w p)) s.allPids = 0 := by
  apply sumL_eq_zero
  intro p hpm
  rcases QB.w p hpm with h | h | h | h
  · simp [h, wSlot]
  · simp [h.1, wSlot]
  · simp [h.1, wSlot]
  · obtain ⟨w, t, e⟩ := inBody_cases _ h
    simp [e, wSlot]

/-- **Static pool: a state in which only task bodies can move delivers.** -/
theorem stuckNB_delivered (s : St) (hp : PidsInv s)
    (h1 : slotOk s = true) (h2 : holderOk s = true) (h3 : staticOk s = true)
    (h5 : consOk s = true) (h6 : joinOk s = true) (h7 : refillOk s = true)
    (hfut : ∀ i, i < s.futs.length → (futOf s i).done = false → i ∈ s.pending)
    (hacc : ∀ k, s.upc k = .subAcqMgmt → s.shutdownFlag = false)
    (hmw : 0 < s.cfg.maxWorkers)
    (hq : enabledNB s = []) : Delivered s := by
  have SF := static_facts s h3
  have Q := qnb_of s hq
  have QB := quietB_of s hp h2 SF Q
  -- nothing pending: every future is resolved
  have vac : s.pending = [] → ∀ i, i < s.futs.length → (futOf s i).done = false →
      ∃ p ∈ s.allPids, ∃ t, s.w p = .taskEnd i t := by
    intro hpn i hi hd
    have := hfut i hi hd
    rw [hpn] at this; cases this
  by_cases hj : JoinStuck s
  · -- the manager joins a worker that is still inside a body: the final phase, nothing is pending
    obtain ⟨p, hm, hd⟩ := hj
    have hjo : s.pending = [] ∧ s.shutdownFlag = true := by
      unfold joinOk at h6
      simp [hm, mFinal] at h6
      exact ⟨h6.1.1, h6.1.2⟩
    have hsh : s.shut ≠ 0 := by
      intro hz
      obtain ⟨k, _, hu, _⟩ := shut_zeroB s h2 SF QB Q hz
      have := hacc k hu
      rw [hjo.2] at this; cases this
    refine ⟨.inr (vac hjo.1), ?_⟩
    intro k hk
    rcases uBlocked s k (Q.u k hk) (SF.api k hk) with h | h | h | h | h
    · exact uParked_of _ (.inl h)
    · exact absurd h.2 hsh
    · have := hacc k h.1
      rw [hjo.2] at this; cases this
    · exact uParked_of _ (.inr (.inl h.1))
    · exact uParked_of _ (.inr (.inr h.1))
  · have hmg : s.mgmt ≠ 0 := fun hz => hj (mgmt_zeroB s hp h2 SF Q hz)
    have hsh : s.shut ≠ 0 := by
      intro hz
      obtain ⟨_, _, _, h0⟩ := shut_zeroB s h2 SF QB Q hz
      exact hmg h0
    obtain ⟨hfi, hbuf⟩ := feeder_idleB s QB hsh
    have U : ∀ k, k < s.cfg.scripts.length → uParked (s.upc k) = true := by
      intro k hk
      rcases uBlocked s k (Q.u k hk) (SF.api k hk) with h | h | h | h | h
      · exact uParked_of _ (.inl h)
      · exact absurd h.2 hsh
      · exact absurd h.2 hmg
      · exact uParked_of _ (.inr (.inl h.1))
      · exact uParked_of _ (.inr (.inr h.1))
    refine ⟨?_, U⟩
    have e2 : fSlot s.fpc = 0 := by rcases hfi with h | h | h <;> simp [h, fSlot]
    rcases mBlockedB s SF Q with hm | hm | ⟨sn, hm, hrq, hwk, _⟩ | hm | hm | hm | hm
    · -- the manager thread was never started
      right
      rcases SF.mnone hm with h | ⟨k, hk, h⟩
      · intro i hi; rw [h] at hi; simp at hi
      · rw [(uParked_facts _ (U k hk)).2] at h; cases h
    · -- the manager thread has ended
      right
      apply vac
      unfold joinOk at h6
      rcases mEnded_cases s hm with h | ⟨w, h⟩ <;> simp [h, mFinal] at h6 <;> first | exact h6.1.1 | exact h6.1
    · -- the manager waits
      have hnf : mFinal s.mpc = false := by rw [hm]; rfl
      obtain ⟨hreg, hns, hlen⟩ := SF.pre hnf
      have hlen' := hlen (by rw [hm]; simp)
      by_cases hall : ∀ p ∈ s.allPids, inBody (s.w p) = true
      · left
        rw [nBodies_all s hall, ← hreg, hlen']
      · right
        have hex : ∃ p, p ∈ s.allPids ∧ inBody (s.w p) = false := by
          apply Decidable.byContradiction
          intro hne
          apply hall
          intro p hpm
          cases hb : inBody (s.w p) with
          | true => rfl
          | false => exact absurd ⟨p, hpm, hb⟩ hne
        obtain ⟨p0, hp0, hb0⟩ := hex
        have hpipe := pipe_empty_of s QB hns p0 hp0 hb0
        intro i hi hd
        have hpend := hfut i hi hd
        unfold consOk at h5
        rw [List.all_eq_true] at h5
        have htok : 0 < tokens s i := by simpa using h5 i hpend
        have e3 : fTok i s.fpc = 0 := by rcases hfi with h | h | h <;> simp [h, fTok]
        unfold tokens at htok
        rw [hbuf, hpipe, hrq, hm] at htok
        simp only [mTok, sumL_nil, e3, Nat.add_zero] at htok
        by_cases hwt : 0 < sumL (fun p => wTok i (s.w p)) s.allPids
        · obtain ⟨p, hpm, hpos⟩ := exists_of_sumL_pos _ _ hwt
          rcases QB.w p hpm with h | h | h | h
          · simp [h, wTok] at hpos
          · simp [h.1, wTok] at hpos
          · simp [h.1, wTok] at hpos
          · obtain ⟨w, t, e⟩ := inBody_cases _ h
            rw [e] at hpos
            simp only [wTok, ind'] at hpos
            split at hpos
            · rename_i ew; subst ew; exact ⟨p, hpm, t, e⟩
            · cases hpos
        · -- the id is still queued: the manager would have been woken, or the call queue is full
          exfalso
          have hcnt : 0 < s.workIds.count i := by omega
          have hwi : s.workIds ≠ [] := by
            intro he; rw [he] at hcnt; simp at hcnt
          have hr := (refillOk_iff s).1 h7 ⟨⟨sn, hm⟩, hwi⟩
          have hsl : slots s = 0 := by
            unfold slots
            rw [hbuf, hpipe, wSlot_zero_of s QB, e2, hm]
            simp [mSlot]
          unfold slotOk cap at h1
          rw [hsl] at h1
          have hsem : s.cqSem = 2 * s.cfg.maxWorkers + 1 := by simpa using h1
          have hnp : nPost s ≤ s.allPids.length :=
            sumL_le_length _ _ (fun p _ => wPost_le_one _)
          rw [← hreg, hlen'] at hnp
          rcases hr with h | h | ⟨k, hk, h⟩ | h | h
          · omega
          · exact h hrq
          · rw [uOwes2_of_uOwes_false s _ (uParked_facts _ (U k hk)).1] at h; cases h
          · rcases hfi with h' | h' | h' <;> rw [h'] at h <;> simp [fOwes] at h
          · omega
    · -- the manager waits for a slot of the call queue: the queue is full, every worker is inside a body
      left
      have hnf : mFinal s.mpc = false := by cases hpc : s.mpc <;> simp [hpc, mWaitSlot] at hm <;> rfl
      have hne0 : s.mpc ≠ .none := by intro h; rw [h] at hm; simp [mWaitSlot] at hm
      obtain ⟨hreg, hns, hlen⟩ := SF.pre hnf
      have hlen' := hlen hne0
      have hall : ∀ p ∈ s.allPids, inBody (s.w p) = true := by
        intro p hpm
        cases hb : inBody (s.w p) with
        | true => rfl
        | false =>
          exfalso
          have hpipe := pipe_empty_of s QB hns p hpm hb
          have hsl : slots s = 0 := by
            unfold slots
            rw [hbuf, hpipe, wSlot_zero_of s QB, e2]
            have e3 : mSlot s.mpc = 0 := by cases hpc : s.mpc <;> simp [hpc, mWaitSlot] at hm <;> rfl
            simp [e3]
          unfold slotOk cap at h1
          rw [hsl, hm.2] at h1
          simp at h1
      rw [nBodies_all s hall, ← hreg, hlen']
    · exact absurd hm.2 hsh
    · exact absurd hm.2 hmg
    · exact absurd hm hj

end LokyModel.Exec
