import LokyModel.Lemmas.ExecOutcome
/-! `OutInv`: steps of the manager thread.  The manager touches none of the places the invariant speaks about except the
    futures, and — outside `kill_workers` and the broken path — it only marks them RUNNING or resolves them with a result
    message (`FutM`). -/
namespace LokyModel.Exec
open StaticP

theorem futM_setFut (fs : List Fut) (X : St) (w : Wid) (f : Fut) (hf : f = .running ∨ f = .value ∨ f = .excWorker)
    (h : FutM fs X.futs) : FutM fs (setFut X w f).futs :=
  futM_trans h (futM_set _ w f hf)

theorem futM_mAddFuel (n : Nat) : ∀ X : St, FutM X.futs (mAddFuel n X).futs := by
  induction n with
  | zero => intro X; unfold mAddFuel; exact futM_refl _
  | succ n ih =>
    intro X
    unfold mAddFuel
    split
    · exact futM_refl _
    · split
      · exact futM_refl _
      · split
        · exact ih _
        · exact futM_set _ _ _ (Or.inl rfl)

theorem futM_mAdd (X : St) : FutM X.futs (mAdd X).futs := futM_mAddFuel _ X

theorem futM_mAfterItem (X : St) : FutM X.futs (mAfterItem X).futs := by
  unfold mAfterItem
  split
  · exact futM_refl _
  · exact futM_mAdd X

theorem futM_mDropRef (X : St) : FutM X.futs (mDropRef X).futs := by
  unfold mDropRef
  simp only []
  split
  · exact futM_refl _
  · exact futM_mAfterItem _

theorem futM_mRespawnCheck (X : St) : FutM X.futs (mRespawnCheck X).futs := by
  unfold mRespawnCheck
  simp only []
  split
  · split
    · exact futM_refl _
    · exact futM_mAfterItem X
  · exact futM_mAfterItem X

theorem futM_mAfterAddF (Y : St) : FutM Y.futs (mAfterAddF Y).futs := by
  unfold mAfterAddF
  split
  · exact futM_refl _
  · split
    · exact futM_refl _
    · exact futM_refl _
  · exact futM_refl _

theorem futM_mAddF (X : St) : FutM X.futs (mAddF X).futs :=
  futM_trans (futM_mAdd X) (futM_mAfterAddF _)

theorem futM_mAfterFlag (X : St) (hk : X.killFlag = false) : FutM X.futs (mAfterFlag X).futs := by
  unfold mAfterFlag
  simp only [hk, Bool.false_eq_true, if_false]
  split
  · exact futM_refl _
  · exact futM_mAddF X

theorem futM_mProcess (X : St) (r : Option RMsg) : FutM X.futs (mProcess X r).futs := by
  unfold mProcess
  split
  · exact futM_mAfterItem X
  · exact futM_mAfterItem X
  · split
    · refine futM_trans ?_ (futM_mAfterItem _)
      refine futM_set _ _ _ ?_
      split <;> simp
    · exact futM_mAfterItem X
  · exact futM_refl _

/-- everything the invariant needs to know about a step of the manager -/
structure MSum (s s' : St) : Prop where
  cfg : s'.cfg = s.cfg
  taskOf : s'.taskOf = s.taskOf
  cancelOk : s'.cancelOk = s.cancelOk
  killFlag : s'.killFlag = s.killFlag
  uscript : s'.uscript = s.uscript
  ucur : s'.ucur = s.ucur
  upc : s'.upc = s.upc
  cqPipe : s'.cqPipe = s.cqPipe
  execW : s'.execW = s.execW
  fpc : s'.fpc = s.fpc ∨ s'.fpc = .start
  w : ∀ q, s'.w q = s.w q ∨ s'.w q = .start ∨ s'.w q = .dead
  fut : FutM s.futs s'.futs

set_option maxHeartbeats 16000000 in
theorem mSum_step (s s' : St) (v : Variant) (hk : s.killFlag = false) (hb : brokenPath s.mpc = false)
    (hs : stepM s v = some s') : MSum s s' := by
  unfold stepM at hs
  crack_step
  all_goals (first
    | (exfalso; simp [‹s.mpc = _›, brokenPath] at hb; done)
    | skip)
  all_goals constructor
  all_goals (first
    | rfl
    | (simp; done)
    | (simp [spawn]; done)
    | (simp [die]; done)
    | exact futM_refl _
    | exact futM_mAdd _
    | exact futM_mAddF _
    | exact futM_mAfterItem _
    | exact futM_mRespawnCheck _
    | exact futM_mDropRef _
    | exact futM_mProcess _ _
    | exact futM_mAfterFlag _ hk
    | (intro q; by_cases hq : q = s.nextPid <;> simp [spawn, upd, hq]; done)
    | (rename_i p0 _ _; intro q; by_cases hq : q = p0 <;> simp [die, upd, hq]; done)
    | skip)

theorem outInv_stepM (s s' : St) (v : Variant) (h : OutInv s) (hb : brokenPath s.mpc = false)
    (hs : stepM s v = some s') : OutInv s' := by
  have m := mSum_step s s' v h.kf hb hs
  refine out_keep s s' h ⟨m.cfg, m.taskOf, m.killFlag, m.uscript, m.ucur, m.upc⟩ m.cancelOk m.fut ?_ ?_ ?_ ?_
  · rw [m.cqPipe]; exact h.pipe
  · intro q
    rcases m.w q with e | e | e <;> rw [e]
    · exact h.w q
    · rfl
    · rfl
  · rcases m.fpc with e | e <;> rw [e]
    · exact h.f
    · rfl
  · rw [m.execW]; exact h.ex

end LokyModel.Exec
