import LokyModel.Lemmas.ExecLiveStuck
/-! The quiescence theorem for static pools, from the ingredients. -/
namespace LokyModel.Exec

/-- what is known in a quiescent state of a static pool, before looking at the manager -/
structure Quiet (s : St) : Prop where
  w : ∀ p ∈ s.allPids, s.w p = .dead ∨ (s.w p = .gAcq ∧ s.cqRlock = 0) ∨ (s.w p = .gRecv ∧ s.cqPipe = [])
  rlock : s.cqRlock = 0 → ∃ p ∈ s.allPids, s.w p = .gRecv ∧ s.cqPipe = []
  f : (s.fpc = .none ∨ s.fpc = .done ∨ s.fpc = .wait) ∧ s.cqBuf = [] ∨ (s.fpc = .errAcq ∧ s.shut = 0)

theorem quiet_of (s : St) (hp : PidsInv s) (h2 : holderOk s = true) (SF : StaticFacts s) (hq : enabledNC s = []) :
    Quiet s := by
  obtain ⟨Hrq, Hcqr, Hcqw, _, _, _⟩ := holder_facts s h2
  have Lrq : s.rqWlock ≠ 0 := by
    intro hz
    obtain ⟨p, hp2⟩ := Hrq hz
    have hpm : p ∈ s.allPids := by
      apply Decidable.byContradiction
      intro hn
      rw [hp.dead p hn] at hp2
      simp [inRqW] at hp2
    exact enabled_inRqW s p hp2 (quiet_W s hq p hpm).1
  have W' : ∀ p ∈ s.allPids, s.w p = .dead ∨ (s.w p = .gAcq ∧ s.cqRlock = 0) ∨ (s.w p = .gRecv ∧ s.cqPipe = []) := by
    intro p hpm
    have qw := quiet_W s hq p hpm
    rcases wBlocked s p qw.1 qw.2.1 (SF.wnever p hpm) with h | h | h | h | h
    · exact .inl h
    · exact .inr (.inl h)
    · exact .inr (.inr h)
    · exact absurd h.2 Lrq
    · exact absurd h.2 Lrq
  refine ⟨W', ?_, ?_⟩
  · intro hz
    obtain ⟨p, hp2⟩ := Hcqr hz
    have hpm : p ∈ s.allPids := by
      apply Decidable.byContradiction
      intro hn
      rw [hp.dead p hn] at hp2
      simp [inCqR] at hp2
    rcases W' p hpm with h | h | h
    · rw [h] at hp2; simp [inCqR] at hp2
    · rw [h.1] at hp2; simp [inCqR] at hp2
    · exact ⟨p, hpm, h⟩
  · rcases fBlocked s (quiet_F s hq) with h | h | h | h | h
    · exact .inl ⟨.inl h, SF.fidle (.inl h)⟩
    · exact .inl ⟨.inr (.inl h), SF.fidle (.inr h)⟩
    · exact .inl ⟨.inr (.inr h.1), h.2⟩
    · exfalso
      have := Hcqw h.2
      rcases h.1 with ⟨m, hm⟩ | ⟨w, hw⟩
      · rw [hm] at this; simp [inCqWF] at this
      · rw [hw] at this; simp [inCqWF] at this
    · exact .inr h


/-- the manager is joining a worker that is still alive -/
def JoinStuck (s : St) : Prop := ∃ p, s.mpc = .jJoin p ∧ isDead s p = false

theorem mEnded_cases (s : St) (h : mEnded s = true) : s.mpc = .done ∨ ∃ w, s.mpc = .raised w := by
  unfold mEnded at h; split at h <;> simp_all

theorem mBlocked' (s : St) (SF : StaticFacts s) (hq : enabledNC s = []) :
    s.mpc = .none ∨ mEnded s = true ∨
    (∃ snap, s.mpc = .wait snap ∧ s.rqPipe = [] ∧ s.wakeup = 0 ∧ snap.any (isDead s) = false) ∨
    (mWaitSlot s.mpc = true ∧ s.cqSem = 0) ∨ (mWaitShut s.mpc = true ∧ s.shut = 0) ∨
    (mWaitMgmt s.mpc = true ∧ s.mgmt = 0) ∨ JoinStuck s :=
  mBlocked s (quiet_M s hq).1 (quiet_M s hq).2 SF.mnever SF.recv SF.clr SF.l1 SF.l2

theorem mgmt_zero (s : St) (hp : PidsInv s) (h2 : holderOk s = true) (SF : StaticFacts s) (hq : enabledNC s = [])
    (hz : s.mgmt = 0) : JoinStuck s := by
  obtain ⟨_, _, _, _, Hmg, _⟩ := holder_facts s h2
  rcases Hmg hz with ⟨k, hk, hu⟩ | hm | ⟨p, hw⟩
  · exact absurd (quiet_U s hq k hk) (enabled_inMgmtU' s k hu)
  · rcases mBlocked' s SF hq with h | h | ⟨sn, h, _⟩ | h | h | h | h
    · rw [h] at hm; simp [inMgmtM'] at hm
    · rcases mEnded_cases s h with h | ⟨w, h⟩ <;> rw [h] at hm <;> simp [inMgmtM'] at hm
    · rw [h] at hm; simp [inMgmtM'] at hm
    · cases hpc : s.mpc <;> simp [hpc, mWaitSlot, inMgmtM'] at h hm
    · cases hpc : s.mpc <;> simp [hpc, mWaitShut, inMgmtM'] at h hm
    · cases hpc : s.mpc <;> simp [hpc, mWaitMgmt, inMgmtM'] at h hm
    · exact h
  · exfalso
    have hpm : p ∈ s.allPids := by
      apply Decidable.byContradiction
      intro hn
      rw [hp.dead p hn] at hw
      cases hw
    have := SF.wnever p hpm
    rw [hw] at this; simp [wNever] at this

theorem shut_zero (s : St) (h2 : holderOk s = true) (SF : StaticFacts s) (Q : Quiet s) (hq : enabledNC s = [])
    (hz : s.shut = 0) : ∃ k, k < s.cfg.scripts.length ∧ s.upc k = .subAcqMgmt ∧ s.mgmt = 0 := by
  obtain ⟨_, _, _, _, _, Hsh⟩ := holder_facts s h2
  rcases Hsh hz with ⟨k, hk, hu⟩ | hm | hf
  · by_cases hc : s.upc k = .subAcqMgmt ∧ s.mgmt = 0
    · exact ⟨k, hk, hc.1, hc.2⟩
    · exfalso
      refine enabled_inShutU' s k hu ?_ (quiet_U s hq k hk)
      intro h1 h0; exact hc ⟨h1, h0⟩
  · exfalso
    rcases mBlocked' s SF hq with h | h | ⟨sn, h, _⟩ | h | h | h | ⟨p, h, _⟩
    · rw [h] at hm; simp [inShutM'] at hm
    · rcases mEnded_cases s h with h | ⟨w, h⟩ <;> rw [h] at hm <;> simp [inShutM'] at hm
    · rw [h] at hm; simp [inShutM'] at hm
    · cases hpc : s.mpc <;> simp [hpc, mWaitSlot, inShutM'] at h hm
    · cases hpc : s.mpc <;> simp [hpc, mWaitShut, inShutM'] at h hm
    · cases hpc : s.mpc <;> simp [hpc, mWaitMgmt, inShutM'] at h hm
    · rw [h] at hm; simp [inShutM'] at hm
  · exfalso
    rcases Q.f with ⟨h | h | h, _⟩ | ⟨h, _⟩ <;> rw [h] at hf <;> simp [inShutF'] at hf


theorem feeder_idle (s : St) (Q : Quiet s) (hsh : s.shut ≠ 0) :
    (s.fpc = .none ∨ s.fpc = .done ∨ s.fpc = .wait) ∧ s.cqBuf = [] := by
  rcases Q.f with h | h
  · exact h
  · exact absurd h.2 hsh

theorem not_joinStuck (s : St) (hp : PidsInv s) (h2 : holderOk s = true) (h6 : joinOk s = true) (SF : StaticFacts s)
    (Q : Quiet s) (hq : enabledNC s = []) (hacc : ∀ k, s.upc k = .subAcqMgmt → s.shutdownFlag = false) :
    ¬ JoinStuck s := by
  rintro ⟨p, hm, hd⟩
  have hj : s.shutdownFlag = true ∧ needStop s ≤ stopsInFlight s + mToSend s := by
    unfold joinOk at h6
    simp [hm, mFinal] at h6
    exact ⟨h6.1.2, h6.2⟩
  have hsh : s.shut ≠ 0 := by
    intro hz
    obtain ⟨k, _, hu, _⟩ := shut_zero s h2 SF Q hq hz
    have := hacc k hu
    rw [hj.1] at this; cases this
  obtain ⟨hfi, hbuf⟩ := feeder_idle s Q hsh
  have hpa : s.w p ≠ .dead := by
    intro h; simp [isDead, h] at hd
  have hpm : p ∈ s.allPids := by
    apply Decidable.byContradiction
    intro hn; exact hpa (hp.dead p hn)
  have hrecv : ∃ q ∈ s.allPids, s.w q = .gRecv ∧ s.cqPipe = [] := by
    rcases Q.w p hpm with h | h | h
    · exact absurd h hpa
    · exact Q.rlock h.2
    · exact ⟨p, hpm, h⟩
  obtain ⟨q, hqm, hqw, hpipe⟩ := hrecv
  have hsf : stopsInFlight s = 0 := by
    unfold stopsInFlight
    rw [hbuf, hpipe]
    rcases hfi with h | h | h <;> simp [h]
  have hts : mToSend s = 0 := by unfold mToSend; simp [hm]
  have hns : 0 < needStop s := by
    unfold needStop
    refine sumL_pos_of_mem _ _ q hqm ?_
    simp [hqw, wStopping]
  omega


theorem sumL_eq_zero {α : Type} (f : α → Nat) (l : List α) (h : ∀ x ∈ l, f x = 0) : sumL f l = 0 := by
  induction l with
  | nil => rfl
  | cons a l ih => simp [h a (by simp), ih (fun x hx => h x (by simp [hx]))]

/-- user threads of a quiescent state in which the manager is not stuck joining -/
theorem users_of (s : St) (h2 : holderOk s = true) (SF : StaticFacts s) (hq : enabledNC s = [])
    (hsh : s.shut ≠ 0) (hmg : s.mgmt ≠ 0) :
    ∀ k, k < s.cfg.scripts.length → s.upc k = .done ∨
      ∃ k', k' < s.cfg.scripts.length ∧ uJoin (s.upc k') = true ∧ mEnded s = false := by
  obtain ⟨_, _, _, Hg, _, _⟩ := holder_facts s h2
  intro k hk
  rcases uBlocked s k (quiet_U s hq k hk) (SF.api k hk) with h | h | h | h | h
  · exact .inl h
  · exact absurd h.2 hsh
  · exact absurd h.2 hmg
  · right
    obtain ⟨k', hk', hg⟩ := Hg h.2
    rcases inGshutU_cases _ hg with hj | hr
    · rcases uBlocked s k' (quiet_U s hq k' hk') (SF.api k' hk') with h' | h' | h' | h' | h'
      · rw [h'] at hj; simp [uJoin] at hj
      · exact absurd h'.2 hsh
      · exact absurd h'.2 hmg
      · exfalso; cases hu : s.upc k' <;> simp [hu, uJoin, uWaitG] at hj h'
      · exact ⟨k', hk', hj, h'.2⟩
    · exact absurd (quiet_U s hq k' hk') (enabled_relG s k' hr)
  · exact .inr ⟨k, hk, h⟩

theorem futs_done_of_pending_nil (s : St)
    (hfut : ∀ i, i < s.futs.length → (futOf s i).done = false → i ∈ s.pending) (hpn : s.pending = []) :
    s.futs.all Fut.done = true := by
  rw [List.all_eq_true]
  intro f hf
  obtain ⟨i, hi, rfl⟩ := List.getElem_of_mem hf
  cases hd : (s.futs[i]).done with
  | true => rfl
  | false =>
    have : (futOf s i).done = false := by
      unfold futOf
      rw [List.getD_eq_getElem?_getD, List.getElem?_eq_getElem hi]
      simpa using hd
    have := hfut i hi this
    rw [hpn] at this; cases this

theorem good_of (s : St) (hf : s.futs.all Fut.done = true) (hu : ∀ k, k < s.cfg.scripts.length → s.upc k = .done) :
    good s = true := by
  unfold good
  rw [hf, Bool.true_and, List.all_eq_true]
  intro k hk
  simp [hu k (List.mem_range.1 hk)]


/-- **Static pool: a quiescent state is a good one.**  If nothing but a crash can happen any more, every future is
    resolved and every user script has run to its end. -/
theorem stuck_good (s : St) (hp : PidsInv s) (hfl : FlagInv s)
    (h1 : slotOk s = true) (h2 : holderOk s = true) (h3 : staticOk s = true) (h4 : wakeOk s = true)
    (h5 : consOk s = true) (h6 : joinOk s = true)
    (hfut : ∀ i, i < s.futs.length → (futOf s i).done = false → i ∈ s.pending)
    (hacc : ∀ k, s.upc k = .subAcqMgmt → s.shutdownFlag = false)
    (hmw : 0 < s.cfg.maxWorkers)
    (hq : enabledNC s = []) : good s = true := by
  have SF := static_facts s h3
  have Q := quiet_of s hp h2 SF hq
  have hnj := not_joinStuck s hp h2 h6 SF Q hq hacc
  have hmg : s.mgmt ≠ 0 := fun hz => hnj (mgmt_zero s hp h2 SF hq hz)
  have hsh : s.shut ≠ 0 := by
    intro hz
    obtain ⟨_, _, _, h0⟩ := shut_zero s h2 SF Q hq hz
    exact hmg h0
  obtain ⟨hfi, hbuf⟩ := feeder_idle s Q hsh
  have U := users_of s h2 SF hq hsh hmg
  rcases mBlocked' s SF hq with hm | hm | ⟨sn, hm, hrq, hwk, _⟩ | hm | hm | hm | hm
  · -- the manager thread was never started
    have hu : ∀ k, k < s.cfg.scripts.length → s.upc k = .done := by
      intro k hk
      rcases U k hk with h | ⟨k', hk', hj, _⟩
      · exact h
      · exact absurd hm (SF.ujoin k' hk' (.inr hj))
    refine good_of s ?_ hu
    rcases SF.mnone hm with h | ⟨k, hk, h⟩
    · rw [h]; rfl
    · rw [hu k hk] at h; simp [inShutU'] at h
  · -- the manager thread has ended
    have hu : ∀ k, k < s.cfg.scripts.length → s.upc k = .done := by
      intro k hk
      rcases U k hk with h | ⟨k', _, _, he⟩
      · exact h
      · rw [hm] at he; cases he
    refine good_of s (futs_done_of_pending_nil s hfut ?_) hu
    unfold joinOk at h6
    rcases mEnded_cases s hm with h | ⟨w, h⟩ <;> simp [h, mFinal] at h6 <;> first | exact h6.1.1 | exact h6.1
  · -- the manager waits
    have hnf : mFinal s.mpc = false := by rw [hm]; rfl
    obtain ⟨hreg, hns, hlen⟩ := SF.pre hnf
    have hlen' := hlen (by rw [hm]; simp)
    -- there is a worker, every worker is alive and blocked in `get`, the call pipe is empty
    have hw : ∀ p ∈ s.allPids, s.w p = .gAcq ∨ s.w p = .gRecv := by
      intro p hpm
      rcases Q.w p hpm with h | h | h
      · have := hns p hpm; rw [h] at this; simp [wStopping] at this
      · exact .inl h.1
      · exact .inr h.1
    have hpipe : s.cqPipe = [] := by
      have hne : s.allPids ≠ [] := by
        intro he; rw [hreg, he] at hlen'; simp at hlen'; omega
      obtain ⟨p, hpm⟩ := List.exists_mem_of_ne_nil _ hne
      rcases Q.w p hpm with h | h | h
      · have := hns p hpm; rw [h] at this; simp [wStopping] at this
      · obtain ⟨_, _, _, h'⟩ := Q.rlock h.2; exact h'
      · exact h.2
    -- nobody owes the manager a wake-up, nothing is on its way
    have hdone_or : ∀ k, k < s.cfg.scripts.length → uOwes (s.upc k) = false := by
      intro k hk
      rcases uBlocked s k (quiet_U s hq k hk) (SF.api k hk) with h | h | h | h | h
      · rw [h]; rfl
      · exact absurd h.2 hsh
      · exact absurd h.2 hmg
      · cases hu : s.upc k <;> simp [hu, uWaitG] at h <;> rfl
      · cases hu : s.upc k <;> simp [hu, uJoin] at h <;> rfl
    have hww : willWake s = false := by
      unfold willWake
      simp only [hwk, hrq, hbuf, hpipe, Bool.or_eq_false_iff]
      refine ⟨⟨⟨⟨⟨⟨⟨by simp, by simp⟩, ?_⟩, ?_⟩, by simp⟩, ?_⟩, by simp⟩, ?_⟩
      · rw [List.any_eq_false]; intro k hk; simp [hdone_or k (List.mem_range.1 hk)]
      · rcases hfi with h | h | h <;> simp [h, fOwes]
      · rcases hfi with h | h | h <;> simp [h, fBusy]
      · rw [List.any_eq_false]; intro p hpm
        rcases hw p hpm with h | h <;> simp [h, wBusy]
    have hwo : (mustExit s || !s.workIds.isEmpty) = false := by
      unfold wakeOk at h4
      simp only [hm] at h4
      rw [hww] at h4
      simpa using h4
    have hwi : s.workIds = [] := by
      have := (Bool.or_eq_false_iff.1 hwo).2
      simpa using this
    -- hence nothing is pending
    have hpn : s.pending = [] := by
      cases hpe : s.pending with
      | nil => rfl
      | cons i rest =>
        exfalso
        unfold consOk at h5
        rw [List.all_eq_true] at h5
        have hi := h5 i (by rw [hpe]; simp)
        have : tokens s i = 0 := by
          unfold tokens
          rw [hwi, hbuf, hpipe, hrq, hm]
          have e1 : sumL (fun p => wTok i (s.w p)) s.allPids = 0 := by
            apply sumL_eq_zero; intro p hpm
            rcases hw p hpm with h | h <;> simp [h, wTok]
          have e2 : fTok i s.fpc = 0 := by rcases hfi with h | h | h <;> simp [h, fTok]
          simp [e1, e2, mTok]
        simp [this] at hi
    have hme : mustExit s = false := (Bool.or_eq_false_iff.1 hwo).1
    have hflags : s.globalShutdown = false ∧ s.shutdownFlag = false := by
      unfold mustExit at hme
      rw [hpn] at hme
      simp at hme
      exact ⟨hme.1.1, hme.2⟩
    have hu : ∀ k, k < s.cfg.scripts.length → s.upc k = .done := by
      intro k hk
      rcases U k hk with h | ⟨k', _, hj, _⟩
      · exact h
      · exfalso
        cases hu : s.upc k' <;> simp [hu, uJoin] at hj
        · have := (hfl k').1 (by rw [hu]; rfl); rw [hflags.2] at this; cases this
        · have := (hfl k').2 (by rw [hu]; rfl); rw [hflags.1] at this; cases this
    exact good_of s (futs_done_of_pending_nil s hfut hpn) hu
  · -- the manager waits for a slot of the call queue
    exfalso
    have hnf : mFinal s.mpc = false := by cases hpc : s.mpc <;> simp [hpc, mWaitSlot] at hm <;> rfl
    have hne0 : s.mpc ≠ .none := by intro h; rw [h] at hm; simp [mWaitSlot] at hm
    obtain ⟨hreg, hns, hlen⟩ := SF.pre hnf
    have hlen' := hlen hne0
    have hw : ∀ p ∈ s.allPids, (s.w p = .gAcq ∧ s.cqRlock = 0) ∨ (s.w p = .gRecv ∧ s.cqPipe = []) := by
      intro p hpm
      rcases Q.w p hpm with h | h | h
      · have := hns p hpm; rw [h] at this; simp [wStopping] at this
      · exact .inl h
      · exact .inr h
    have hpipe : s.cqPipe = [] := by
      have hne : s.allPids ≠ [] := by
        intro he; rw [hreg, he] at hlen'; simp at hlen'; omega
      obtain ⟨p, hpm⟩ := List.exists_mem_of_ne_nil _ hne
      rcases hw p hpm with h | h
      · obtain ⟨_, _, _, h'⟩ := Q.rlock h.2; exact h'
      · exact h.2
    have hsl : slots s = 0 := by
      unfold slots
      rw [hbuf, hpipe]
      have e1 : sumL (fun p => wSlot (s.w p)) s.allPids = 0 := by
        apply sumL_eq_zero; intro p hpm
        rcases hw p hpm with h | h <;> simp [h.1, wSlot]
      have e2 : fSlot s.fpc = 0 := by rcases hfi with h | h | h <;> simp [h, fSlot]
      have e3 : mSlot s.mpc = 0 := by cases hpc : s.mpc <;> simp [hpc, mWaitSlot] at hm <;> rfl
      simp [e1, e2, e3]
    unfold slotOk cap at h1
    rw [hsl, hm.2] at h1
    simp at h1
  · exact absurd hm.2 hsh
  · exact absurd hm.2 hmg
  · exact (hnj hm).elim

end LokyModel.Exec
