import LokyModel.Lemmas.ExecLiveAll
import LokyModel.Lemmas.ExecLiveMeasureW
import LokyModel.Lemmas.ExecLiveMeasureF
import LokyModel.Lemmas.ExecLiveMeasureM
import LokyModel.Lemmas.ExecLiveMeasureU
/-!
# Every step of a static pool makes the termination measure `mu` strictly smaller

Assembly of the per-actor lemmas (`ExecLiveMeasureW/F/M/U.lean`).  What they need about the pre-state — and nothing
about the post-state — comes from the invariants that hold in every state a static pool reaches without crash steps:
`staticOk'` (no actor is at a program counter of the idle-time-out / respawn / broken-pool code), `joinOk`,
`SpawnInv`, `SlotX`, `ShutInv`, `PidsInv`.
-/
namespace LokyModel.Exec
open StaticP

/-- the step lemma in terms of the invariants of the pre-state.  Note that the variant is arbitrary: a crash of a
    worker makes `mu` smaller too (a dead worker has rank 0); it is the *successor* of a crash that leaves the scope of
    the invariants. -/
theorem mu_step {s s' : St} {a : Actor} {v : Variant} (hp : PidsInv s) (hsi : SI s) (hj : joinOk s = true)
    (hsp : SpawnInv s) (hx : SlotX s) (hsh : ShutInv s) (hs : step s a v = some s') : mu s' < mu s := by
  unfold step at hs
  cases a with
  | U k =>
    simp only [] at hs
    split at hs
    · rename_i hk
      refine mu_stepU s s' k v hk hp ?_ (hsi.tsn k hk) hs
      intro hpc
      have hnf : mFinal s.mpc = false := by
        cases hf : mFinal s.mpc with
        | false => rfl
        | true =>
          exfalso
          have h1 := hsh.acc k (by simp [accU, hpc])
          unfold joinOk at hj
          simp [hf, h1] at hj
      have hpre := hsi.pre hnf
      rw [← hpre.pd]
      exact hpre.lt k hk (by simp [spawning, hpc])
    · cases hs
  | M => exact mu_stepM s s' v hsi.mn hsp.le hj hx.tstart hs
  | F => exact mu_stepF s s' v hs
  | W p =>
    simp only [] at hs
    split at hs
    · rename_i hm
      exact mu_stepW s s' p v hp hm (hsi.wn p hm) hs
    · cases hs

/-- **`mu` decreases**: every step from a state that a static pool reaches without crash steps -/
theorem mu_decreases' {cfg : Cfg} {s s' : St} {a : Actor} {v : Variant} (hr : ReachableNC cfg s)
    (hc : cfg.staticPool = true) (hs : step s a v = some s') : mu s' < mu s := by
  have L := liveInv_reachableNC hc hr
  have h := hr.reachable
  exact mu_step (pidsInv_reachable h) (si_of_bool s L.static.1) (joinOk_of_joinOk' s L.join) (spawnInv_reachable h)
    (slotX_reachable h) (shutInv_reachable h) hs

/-- … in the form asked for: every enabled non-crash step strictly decreases the measure -/
theorem mu_decreases {cfg : Cfg} {s s' : St} {a : Actor} {v : Variant} (hr : ReachableNC cfg s)
    (hc : cfg.staticPool = true) (_hv : v ≠ .crash) (hs : step s a v = some s') : mu s' < mu s :=
  mu_decreases' hr hc hs

end LokyModel.Exec
