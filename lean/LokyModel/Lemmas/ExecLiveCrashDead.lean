import LokyModel.Lemmas.ExecLivePids
import LokyModel.Lemmas.ExecLiveJoinBase
import LokyModel.Lemmas.ExecLiveCrashDefs
/-!
# A death is never undone — for every configuration

`anyDead` (some worker ever spawned is dead) is monotone along every step of M1, whatever the configuration, the actor
and the variant: the list `allPids` only grows, a spawn takes a fresh process id (`PidsInv`), and no step gives a dead
process a program counter again.  A crash step leaves its victim dead.  Hence a lock-free crash run in whose end state
nobody is dead contains no crash step.
-/
namespace LokyModel.Exec

/-- listed workers stay listed, dead ones stay dead -/
def DeadMono (s s' : St) : Prop :=
  (∀ p ∈ s.allPids, p ∈ s'.allPids) ∧ ∀ q ∈ s.allPids, s.w q = .dead → s'.w q = .dead

theorem dm_same (s s' : St) (h1 : s'.allPids = s.allPids) (h2 : ∀ q, s.w q = .dead → s'.w q = .dead) :
    DeadMono s s' :=
  ⟨fun p hp => by rw [h1]; exact hp, fun q _ hq => h2 q hq⟩

theorem dm_spawn (s s' : St) (hp : PidsInv s) (h1 : s'.allPids = (spawn s).allPids)
    (h2 : ∀ q, (spawn s).w q = .dead → s'.w q = .dead) : DeadMono s s' := by
  refine ⟨fun p hp' => ?_, fun q hq hd => ?_⟩
  · rw [h1, spawn_allPids']; exact List.mem_append.2 (.inl hp')
  · apply h2
    have : q ≠ s.nextPid := Nat.ne_of_lt (hp.lt q hq)
    rw [spawn_w', upd_other' _ _ _ _ this]; exact hd

theorem dm_stepW (s s' : St) (p : Pid) (v : Variant) (hs : stepW s p v = some s') : DeadMono s s' := by
  obtain ⟨_, _, _, _, ha, _, _, hw⟩ := stepW_frame s s' p v hs
  refine dm_same s s' ha ?_
  intro q hq
  have hne : q ≠ p := by
    intro e; subst e
    unfold stepW at hs
    simp [hq] at hs
  rw [hw q hne]; exact hq

theorem dm_stepF (s s' : St) (v : Variant) (hs : stepF s v = some s') : DeadMono s s' := by
  obtain ⟨_, _, _, _, ha, hw, _, _⟩ := stepF_frame s s' v hs
  exact dm_same s s' ha (fun q hq => by rw [hw]; exact hq)

set_option maxHeartbeats 8000000 in
theorem dm_stepM (s s' : St) (v : Variant) (hp : PidsInv s) (hs : stepM s v = some s') : DeadMono s s' := by
  unfold stepM at hs
  crack
  all_goals (first
    | (refine dm_same s _ ?_ ?_
       all_goals (first
        | rfl
        | (simp; done)
        | (intro q hq; simpa using hq)
        | (intro q hq; simp [die, upd, hq]; done)))
    | (refine dm_spawn s _ hp ?_ ?_ <;> first | rfl | (simp; done) | (intro q hq; simpa using hq)))

set_option maxHeartbeats 8000000 in
theorem dm_stepU (s s' : St) (k : Nat) (v : Variant) (hp : PidsInv s) (hs : stepU s k v = some s') :
    DeadMono s s' := by
  unfold stepU at hs
  crack
  all_goals (first
    | (refine dm_same s _ ?_ ?_
       all_goals (first
        | rfl
        | (simp; done)
        | (intro q hq; simpa using hq)
        | (unfold uDispatch; (repeat' split) <;> simp; done)
        | (intro q hq; unfold uDispatch; (repeat' split) <;> simpa using hq)))
    | (refine dm_spawn s _ hp ?_ ?_ <;> first | rfl | (simp; done) | (intro q hq; simpa using hq)))

theorem dm_step {s s' : St} {a : Actor} {v : Variant} (hp : PidsInv s) (hs : step s a v = some s') :
    DeadMono s s' := by
  unfold step at hs
  cases a with
  | U k => simp only [] at hs; split at hs; exact dm_stepU s s' k v hp hs; cases hs
  | M => exact dm_stepM s s' v hp hs
  | F => exact dm_stepF s s' v hs
  | W p => simp only [] at hs; split at hs; exact dm_stepW s s' p v hs; cases hs

/-- **a death is never undone** (any configuration, any actor, any variant) -/
theorem anyDead_step {s s' : St} {a : Actor} {v : Variant} (hp : PidsInv s) (hs : step s a v = some s')
    (hd : anyDead s = true) : anyDead s' = true := by
  obtain ⟨h1, h2⟩ := dm_step hp hs
  simp only [anyDead, List.any_eq_true, beq_iff_eq] at hd ⊢
  obtain ⟨p, hp', hdp⟩ := hd
  exact ⟨p, h1 p hp', h2 p hp' hdp⟩

/-- after a crash step there is a dead worker -/
theorem anyDead_crash {s s' : St} {p : Pid} (hs : step s (.W p) .crash = some s') : anyDead s' = true := by
  unfold step at hs
  simp only [] at hs; split at hs
  · rename_i hin
    have e : s' = die s p (-9) := by
      unfold stepW at hs
      split at hs <;> simp_all
    subst e
    simp only [anyDead, List.any_eq_true, beq_iff_eq]
    exact ⟨p, hin, by simp [die, upd]⟩
  · cases hs

/-- **a lock-free crash run in whose end state nobody is dead is a crash-free run** (any configuration) -/
theorem reachableNC_of_noDead {cfg : Cfg} {s : St} (h : ReachableLF cfg s) (hd : anyDead s = false) :
    ReachableNC cfg s := by
  induction h with
  | init => exact .init
  | step hr hv hs ih =>
    cases hd0 : anyDead _ with
    | false => exact .step (ih hd0) hv hs
    | true => rw [anyDead_step (pidsInv_reachable hr.reachable) hs hd0] at hd; cases hd
  | crash hr _ hs _ => rw [anyDead_crash hs] at hd; cases hd

end LokyModel.Exec
