import LokyModel.Lemmas.ExecLiveDCTRecvW
import LokyModel.Lemmas.ExecLiveCrashDefs
/-!
# `dcTRecv` is an inductive invariant along runs with worker deaths

Until the pool is flagged broken, a worker that has polled the call pipe successfully under the read lock finds the message
still there: only the holder of the read lock takes messages out of the pipe, and while `broken = none` the workers inside
the read-lock section exclude each other (`hcExcl` conjunct of `dcHolder'`, a hypothesis about the pre-state).  Deaths (crash
steps anywhere, the manager's `kill`) only make workers dead.  Once `terminate_broken` has raised the flag, nothing is
claimed, and the flag is never lowered.  `StepLF` is in the statement for uniformity only: the step holds for every variant.
-/
namespace LokyModel.Exec

/-- Prop form of `dcTRecv` -/
def DT (s : St) : Prop := s.broken = none → TRecvInv s

theorem dcTRecv_iff (s : St) : dcTRecv s = true ↔ DT s := by
  unfold dcTRecv DT
  rw [Bool.or_eq_true, tRecvOk_iff]
  cases hb : s.broken with
  | none => simp
  | some b => simp

/-- mutual exclusion on the call queue's read lock among the listed workers, as long as the pool is not flagged broken -/
theorem dcHolder'_cqR (s : St) (h : dcHolder' s = true) (hb : s.broken = none) :
    ∀ q ∈ s.allPids, inCqR (s.w q) = true → s.oCqRlock = some (.W q) := by
  unfold dcHolder' hcExcl at h
  simp only [Bool.and_eq_true, Bool.or_eq_true] at h
  obtain ⟨⟨⟨⟨_, ⟨⟨⟨⟨⟨⟨⟨⟨h1, _⟩, _⟩, _⟩, _⟩, _⟩, _⟩, _⟩, _⟩⟩, _⟩, _⟩, _⟩ := h
  rcases h1 with h1 | h1
  · simp [hb] at h1
  · intro q hq hin
    have := (List.all_eq_true.1 h1.2) q hq
    simpa [hin] using this

theorem dt_init (cfg : Cfg) : DT (init cfg) := fun _ => tRecvInv_init cfg

/-- the induction step in Prop form, any actor, any variant -/
theorem dt_step {s s' : St} {a : Actor} {v : Variant} (hs : step s a v = some s') (hp : PidsInv s)
    (hex : s.broken = none → ∀ q ∈ s.allPids, inCqR (s.w q) = true → s.oCqRlock = some (.W q))
    (h : DT s) : DT s' := by
  intro hb'
  unfold step at hs
  cases a with
  | U k =>
    simp only [] at hs; split at hs
    · have hb : s.broken = none := by rw [← brk_stepU s s' k v hs]; exact hb'
      exact tRecvInv_stepU s s' k v (h hb) hp hs
    · cases hs
  | M =>
    have hb : s.broken = none := by
      rcases brk_stepM s s' v hs with e | e
      · rw [← e]; exact hb'
      · rw [hb'] at e; cases e
    exact tRecvInv_stepM s s' v (h hb) hp hs
  | F =>
    have hb : s.broken = none := by rw [← brk_stepF s s' v hs]; exact hb'
    exact tRecvInv_stepF s s' v (h hb) hs
  | W p =>
    simp only [] at hs; split at hs
    · have hb : s.broken = none := by rw [← brk_stepW s s' p v hs]; exact hb'
      exact tRecvInv_stepW' s s' p v (h hb) (hex hb) (by assumption) hs
    · cases hs

theorem dcTRecv_init (cfg : Cfg) : dcTRecv (init cfg) = true := (dcTRecv_iff _).2 (dt_init cfg)

theorem dcTRecv_stepLF {s s' : St} {a : Actor} {v : Variant} (hs : step s a v = some s') (_hlf : StepLF s a v)
    (hp : PidsInv s) (hh : dcHolder' s = true) (h : dcTRecv s = true) : dcTRecv s' = true :=
  (dcTRecv_iff _).2 (dt_step hs hp (dcHolder'_cqR s hh) ((dcTRecv_iff _).1 h))

end LokyModel.Exec
