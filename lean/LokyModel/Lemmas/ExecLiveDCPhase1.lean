import LokyModel.Lemmas.ExecLiveDynAll
import LokyModel.Lemmas.ExecLiveCrashDefs
import LokyModel.ExecLiveDCDef
/-!
# Dynamic pools with worker deaths, phase 1: the crash-free bundle survives *benign* deaths

A worker that has announced its exit and waits for its exit lock (`xExit`) may die (it holds no lock).  For the parent
that death is the clean exit that was about to happen: the state reached is the one reached by the worker's own two
steps `xExit → exit 0 → dead` (with the time-out variant when the exit lock is still taken, the `ok` variant otherwise),
up to the ghost exit code and up to the value of the exit lock of a process that nobody looks at any more.  So the
crash-free bundle `DynLiveInv` (`Lemmas/ExecLiveDynAll.lean`) and `NBInv` (`Lemmas/ExecNoBreak.lean`), which are
inductive over non-crash steps, hold after the death as well: two applications of the existing step lemmas, then
insensitivity to `exitCode` / `exitL p`.
-/
namespace LokyModel.Exec

/-- the crash-free bundle of dynamic pools -/
structure P1 (s : St) : Prop where
  live : DynLiveInv s
  nb : NBInv s

theorem p1_init (cfg : Cfg) (hc : cfg.dynPool = true) (ho : cfg.oneCreate = true) : P1 (init cfg) :=
  ⟨dynLiveInv_init cfg hc ho, nbInv_init cfg⟩

/-- ordinary steps -/
theorem p1_step {cfg : Cfg} {s s' : St} {a : Actor} {v : Variant} (hr : Reachable cfg s) (hv : v ≠ .crash)
    (hs : step s a v = some s') (hc : s.cfg.dynPool = true) (h : P1 s) : P1 s' :=
  ⟨dynLiveInv_step hr h.nb hv hs hc h.live,
   nbInv_step (benign_of_dynPool _ hc) hv (tstartInv_reachable hr) h.nb hs⟩

/-! ### insensitivity to the exit code and to the exit lock of a process that is gone -/

/-- replace the ghost exit codes and the exit locks -/
def St.reX (t : St) (e : Pid → Option Int) (l : Pid → Nat) : St := { t with exitCode := e, exitL := l }

theorem exitInv_reX {t : St} (e : Pid → Option Int) (l : Pid → Nat) (h : ExitInv t)
    (hl : ∀ q, q ∈ relSet t ∨ q = t.nextPid → l q = t.exitL q) : ExitInv (t.reX e l) := by
  obtain ⟨h1, h2, h3, h4, h5, h6⟩ := h
  have hR : relSet (t.reX e l) = relSet t := rfl
  refine ⟨h1, ?_, by rw [hR]; exact h3, ?_, ?_, h6⟩
  · intro q hq
    rw [hR] at hq
    have := h2 q hq
    refine ⟨?_, this.2.1, this.2.2⟩
    show l q = 0
    rw [hl q (.inl hq)]; exact this.1
  · intro hm
    show l t.nextPid = 0
    rw [hl _ (.inr rfl)]; exact h4 hm
  · intro k hk hu
    show l t.nextPid = 0
    rw [hl _ (.inr rfl)]; exact h5 k hk hu

theorem dynLiveInv_reX {t : St} (e : Pid → Option Int) (l : Pid → Nat) (hp : PidsInv t) (h : DynLiveInv t)
    (hl : ∀ q, q ∈ relSet t ∨ q = t.nextPid → l q = t.exitL q) : DynLiveInv (t.reX e l) := by
  obtain ⟨h1, h2, h3, h4, h5, h6, h7, h8⟩ := h
  refine ⟨h1, ?_, ⟨h3.1, h3.2⟩, h4, h5, h6, h7, h8⟩
  unfold holderOk'' at h2 ⊢
  simp only [Bool.and_eq_true] at h2 ⊢
  refine ⟨h2.1, ?_⟩
  have hpx : PidsInv (t.reX e l) := ⟨hp.1, hp.2, hp.3, hp.4⟩
  exact ok_of_exitInv (exitInv_reX e l (exitInv_of_ok h2.2) hl)

theorem nbInv_reX {t : St} (e : Pid → Option Int) (l : Pid → Nat) (h : NBInv t) : NBInv (t.reX e l) :=
  ⟨h.nb, h.mp, h.ann, h.good, h.pipe, h.snap, h.fresh, h.nd, h.kp⟩

/-! ### the two steps that a benign death stands for -/

theorem upd_upd {α : Type} (f : Nat → α) (p : Nat) (a b : α) : upd (upd f p a) p b = upd f p b := by
  funext q; unfold upd; split <;> rfl

/-- a worker that dies while it waits for its exit lock: the crash-free bundle still holds -/
theorem p1_benign {cfg : Cfg} {s : St} {p : Pid} (hr : Reachable cfg s) (hc : s.cfg.dynPool = true)
    (hin : p ∈ s.allPids) (hw : s.w p = .xExit) (h : P1 s) : P1 (die s p (-9)) := by
  have hpi := pidsInv_reachable hr
  -- first step: the wait for the exit lock ends
  obtain ⟨t1, hs1, hw1, hall1, hex1⟩ : ∃ t1, step s (.W p) (if s.exitL p = 0 then .timeout else .ok) = some t1 ∧
      t1.w = upd s.w p (.exit 0) ∧ t1.allPids = s.allPids ∧
      (t1 = setW s p (.exit 0) ∨ t1 = setW { s with exitL := upd s.exitL p (s.exitL p - 1) } p (.exit 0)) := by
    by_cases hz : s.exitL p = 0
    · refine ⟨setW s p (.exit 0), ?_, rfl, rfl, .inl rfl⟩
      simp only [hz, if_true]
      unfold step; simp only [hin, if_true]
      unfold stepW; simp [hw, hz]
    · refine ⟨setW { s with exitL := upd s.exitL p (s.exitL p - 1) } p (.exit 0), ?_, rfl, rfl, .inr rfl⟩
      simp only [hz, if_false]
      unfold step; simp only [hin, if_true]
      unfold stepW; simp only [hw]
      have : acq (s.exitL p) = some (s.exitL p - 1) := by unfold acq; simp; omega
      simp [this]
  have hv1 : (if s.exitL p = 0 then Variant.timeout else Variant.ok) ≠ .crash := by split <;> simp
  have hr1 : Reachable cfg t1 := .step hr hs1
  have hc1 : t1.cfg.dynPool = true := by rw [cfg_reachable hr1, ← cfg_reachable hr]; exact hc
  have P1t1 := p1_step hr hv1 hs1 hc h
  -- second step: the process exits
  have hs2 : step t1 (.W p) .ok = some (die t1 p 0) := by
    unfold step; simp only [hall1, hin, if_true]
    unfold stepW
    have : t1.w p = .exit 0 := by rw [hw1]; simp
    simp [this]
  have hr2 : Reachable cfg (die t1 p 0) := .step hr1 hs2
  have P1t2 := p1_step hr1 (by simp) hs2 hc1 P1t1
  -- the death is that state up to the exit code and the exit lock of `p`
  have heq : die s p (-9) = (die t1 p 0).reX (upd s.exitCode p (some (-9))) s.exitL := by
    rcases hex1 with e | e <;> subst e <;> simp [die, St.reX, setW, upd_upd]
  rw [heq]
  have hpi2 := pidsInv_reachable hr2
  -- `p` is not among the workers whose exit lock the manager may still release, unless its lock value is untouched
  have hl : ∀ q, q ∈ relSet (die t1 p 0) ∨ q = (die t1 p 0).nextPid → s.exitL q = (die t1 p 0).exitL q := by
    intro q hq
    rcases hex1 with e | e
    · subst e; rfl
    · subst e
      show s.exitL q = upd s.exitL p (s.exitL p - 1) q
      by_cases hqp : q = p
      · subst hqp
        rcases hq with hq | hq
        · -- a worker in the release set has its exit lock free in `s`: the value is the same
          have hx := exitInv_of_ok (by
            have := h.live.holder; unfold holderOk'' at this; simp only [Bool.and_eq_true] at this; exact this.2)
          have hR : relSet (die (setW { s with exitL := upd s.exitL q (s.exitL q - 1) } q (.exit 0)) q 0) = relSet s := rfl
          rw [hR] at hq
          have h0 := (hx.rel q hq).1
          simp [upd, h0]
        · exfalso
          have hlt : q < s.nextPid := hpi.lt q hin
          have hn : (die (setW { s with exitL := upd s.exitL q (s.exitL q - 1) } q (.exit 0)) q 0).nextPid = s.nextPid := rfl
          rw [hn] at hq
          exact absurd hq (Nat.ne_of_lt hlt)
      · simp [upd, hqp]
  exact ⟨dynLiveInv_reX _ _ hpi2 P1t2.live hl, nbInv_reX _ _ P1t2.nb⟩

end LokyModel.Exec
