import LokyModel.Lemmas.ExecLiveWakeBase
/-! `WX` across a user-thread step. -/
namespace LokyModel.Exec
set_option linter.unusedSimpArgs false
set_option linter.unusedVariables false

/-! ### the user continuations change the program counter of their own thread only -/

theorem setU_eq (s : St) (k : Nat) (pc : UPc) : (setU s k pc).upc = upd s.upc k ((setU s k pc).upc k) := by
  simp [setU, upd]
theorem uNext_eq (s : St) (k : Nat) : (uNext s k).upc = upd s.upc k ((uNext s k).upc k) := by
  unfold uNext; split <;> simp [setU, upd]
theorem uRelease_eq (s : St) (k : Nat) : (uRelease s k).upc = upd s.upc k ((uRelease s k).upc k) := by
  unfold uRelease; simp only []; split
  · simp [setU, upd]
  · exact uNext_eq _ k
theorem uSpawnLoop_eq (s : St) (k : Nat) : (uSpawnLoop s k).upc = upd s.upc k ((uSpawnLoop s k).upc k) := by
  unfold uSpawnLoop; (repeat' split) <;> simp [setU, upd]
theorem uDispatch_eq (s : St) (k : Nat) (op : UOp) : (uDispatch s k op).upc = upd s.upc k ((uDispatch s k op).upc k) := by
  unfold uDispatch
  (repeat' split) <;> first | exact uNext_eq _ k | exact uRelease_eq _ k | (simp [setU, upd]; done)

/-- program counters outside every section this invariant looks at -/
def uOut : UPc → Bool
  | .api | .done | .cbAcq | .subAcqShut _ | .sdAcq1 _ _ | .peAcq => true
  | _ => false

theorem uNext_out (s : St) (k : Nat) : uOut ((uNext s k).upc k) = true := by
  unfold uNext; split <;> simp [setU, upd, uOut]
theorem uRelease_out (s : St) (k : Nat) : uOut ((uRelease s k).upc k) = true := by
  unfold uRelease; simp only []; split
  · simp [setU, upd, uOut]
  · exact uNext_out _ k
theorem uDispatch_out (s : St) (k : Nat) (op : UOp) : uOut ((uDispatch s k op).upc k) = true := by
  unfold uDispatch
  (repeat' split) <;> first | exact uNext_out _ k | exact uRelease_out _ k | (simp [setU, upd, uOut]; done)

theorem uOut_facts (pc : UPc) (h : uOut pc = true) :
    inShutU' pc = false ∧ pc ≠ .subTStart ∧ pc ≠ .sdRelG ∧ inSd pc = false := by
  cases pc <;> simp_all [uOut, inShutU', inSd]

theorem uSpawnLoop_pc (s : St) (k : Nat) :
    inShutU' ((uSpawnLoop s k).upc k) = true ∧ ((uSpawnLoop s k).upc k = .subTStart → s.mpc = .none) ∧
    (uSpawnLoop s k).upc k ≠ .sdRelG ∧ inSd ((uSpawnLoop s k).upc k) = false ∧ uOwes ((uSpawnLoop s k).upc k) = true := by
  unfold uSpawnLoop; (repeat' split) <;> simp_all [setU, upd, inShutU', inSd, uOwes]

@[simp] theorem uNext_f1 (s : St) (k : Nat) : inShutU' ((uNext s k).upc k) = false := (uOut_facts _ (uNext_out s k)).1
@[simp] theorem uNext_f2 (s : St) (k : Nat) : ((uNext s k).upc k = .subTStart) = False := eq_false (uOut_facts _ (uNext_out s k)).2.1
@[simp] theorem uNext_f3 (s : St) (k : Nat) : ((uNext s k).upc k = .sdRelG) = False := eq_false (uOut_facts _ (uNext_out s k)).2.2.1
@[simp] theorem uNext_f4 (s : St) (k : Nat) : inSd ((uNext s k).upc k) = false := (uOut_facts _ (uNext_out s k)).2.2.2
@[simp] theorem uRelease_f1 (s : St) (k : Nat) : inShutU' ((uRelease s k).upc k) = false := (uOut_facts _ (uRelease_out s k)).1
@[simp] theorem uRelease_f2 (s : St) (k : Nat) : ((uRelease s k).upc k = .subTStart) = False := eq_false (uOut_facts _ (uRelease_out s k)).2.1
@[simp] theorem uRelease_f3 (s : St) (k : Nat) : ((uRelease s k).upc k = .sdRelG) = False := eq_false (uOut_facts _ (uRelease_out s k)).2.2.1
@[simp] theorem uRelease_f4 (s : St) (k : Nat) : inSd ((uRelease s k).upc k) = false := (uOut_facts _ (uRelease_out s k)).2.2.2
@[simp] theorem uDispatch_f1 (s : St) (k : Nat) (op : UOp) : inShutU' ((uDispatch s k op).upc k) = false := (uOut_facts _ (uDispatch_out s k op)).1
@[simp] theorem uDispatch_f2 (s : St) (k : Nat) (op : UOp) : ((uDispatch s k op).upc k = .subTStart) = False := eq_false (uOut_facts _ (uDispatch_out s k op)).2.1
@[simp] theorem uDispatch_f3 (s : St) (k : Nat) (op : UOp) : ((uDispatch s k op).upc k = .sdRelG) = False := eq_false (uOut_facts _ (uDispatch_out s k op)).2.2.1
@[simp] theorem uDispatch_f4 (s : St) (k : Nat) (op : UOp) : inSd ((uDispatch s k op).upc k) = false := (uOut_facts _ (uDispatch_out s k op)).2.2.2
@[simp] theorem uSpawnLoop_f1 (s : St) (k : Nat) : inShutU' ((uSpawnLoop s k).upc k) = true := (uSpawnLoop_pc s k).1
@[simp] theorem uSpawnLoop_f3 (s : St) (k : Nat) : ((uSpawnLoop s k).upc k = .sdRelG) = False := eq_false (uSpawnLoop_pc s k).2.2.1
@[simp] theorem uSpawnLoop_f4 (s : St) (k : Nat) : inSd ((uSpawnLoop s k).upc k) = false := (uSpawnLoop_pc s k).2.2.2.1
theorem uSpawnLoop_f2 (s : St) (k : Nat) : (uSpawnLoop s k).upc k = .subTStart → s.mpc = .none := (uSpawnLoop_pc s k).2.1

theorem mEnded_congr (s s' : St) (h : s'.mpc = s.mpc) : mEnded s' = mEnded s := by unfold mEnded; rw [h]

/-- one user thread moves: what has to be checked for `WX` -/
theorem WX_U (s s' : St) (k : Nat) (pc' : UPc) (h : WX s) (hk : k < s.cfg.scripts.length)
    (hupc : s'.upc = upd s.upc k pc')
    (hcfg : s'.cfg = s.cfg) (hpipe : s'.cqPipe = s.cqPipe) (hfpc : s'.fpc = s.fpc)
    (hsf : s.shutdownFlag = true → s'.shutdownFlag = true)
    (hlock : (s'.oShut = s.oShut ∧ (inShutU' pc' = true → inShutU' (s.upc k) = true)) ∨
             (s.oShut = none ∧ s'.oShut = some (.U k)) ∨
             (inShutU' (s.upc k) = true ∧ s'.oShut = none ∧ inShutU' pc' = false))
    (hm : (s'.mpc = s.mpc ∧ (pc' = .subTStart → s.mpc = .none) ∧ (pc' = .sdRelG → mEnded s = true) ∧
            (s'.threadReg = s.threadReg ∨ s'.threadReg = true ∨ mEnded s = true)) ∨
          (s.upc k = .subTStart ∧ s'.mpc = .start ∧ s'.threadReg = true ∧ pc' ≠ .subTStart ∧ pc' ≠ .sdRelG))
    (hdrop : s'.attrsDropped = s.attrsDropped ∨ s'.shutdownFlag = true)
    (hsd : inSd pc' = true → s'.shutdownFlag = true) : WX s' := by
  obtain ⟨a1, a2, a3, a4, a5, a6, a7, a8, a9, a10⟩ := h
  have hself : ∀ k', k' = k → s'.upc k' = pc' := by intro k' e; rw [hupc, e, upd_same']
  have hoth : ∀ k', k' ≠ k → s'.upc k' = s.upc k' := by intro k' e; rw [hupc, upd_other' _ _ _ _ e]
  have hUM : ∀ k', s.oShut = some (Actor.U k') → s.oShut = some Actor.M → False := by
    intro k' e1 e2; rw [e1] at e2; cases e2
  have hUF : ∀ k', s.oShut = some (Actor.U k') → s.oShut = some Actor.F → False := by
    intro k' e1 e2; rw [e1] at e2; cases e2
  have hUU : ∀ k' k'', s.oShut = some (Actor.U k') → s.oShut = some (Actor.U k'') → k' = k'' := by
    intro k' k'' e1 e2; rw [e1] at e2; cases e2; rfl
  refine ⟨by rw [hpipe]; exact a1, by rw [hfpc]; exact a2, ?_, ?_, ?_, ?_, ?_, ?_, ?_, ?_⟩
  · intro k' hk' hin
    rw [hcfg] at hk'
    by_cases e : k' = k
    · rw [hself k' e] at hin
      subst e
      rcases hlock with ⟨l1, l2⟩ | ⟨l1, l2⟩ | ⟨l1, l2, l3⟩
      · rw [l1]; exact a3 k' hk (l2 hin)
      · exact l2
      · rw [l3] at hin; cases hin
    · rw [hoth k' e] at hin
      have := a3 k' hk' hin
      rcases hlock with ⟨l1, l2⟩ | ⟨l1, l2⟩ | ⟨l1, l2, l3⟩
      · rw [l1]; exact this
      · rw [l1] at this; cases this
      · exact absurd (hUU _ _ this (a3 k hk l1)) e
  · intro hin
    rcases hm with ⟨m1, _⟩ | ⟨_, m2, _⟩
    · rw [m1] at hin
      have := a4 hin
      rcases hlock with ⟨l1, l2⟩ | ⟨l1, l2⟩ | ⟨l1, l2, l3⟩
      · rw [l1]; exact this
      · rw [l1] at this; cases this
      · exact (hUM _ (a3 k hk l1) this).elim
    · rw [m2] at hin; simp [inShutM'] at hin
  · intro hin
    rw [hfpc] at hin
    have := a5 hin
    rcases hlock with ⟨l1, l2⟩ | ⟨l1, l2⟩ | ⟨l1, l2, l3⟩
    · rw [l1]; exact this
    · rw [l1] at this; cases this
    · exact (hUF _ (a3 k hk l1) this).elim
  · intro hd
    rcases hdrop with e | e
    · rw [e] at hd; exact hsf (a6 hd)
    · exact e
  · intro k' hk' hin
    rw [hcfg] at hk'
    by_cases e : k' = k
    · rw [hself k' e] at hin
      rcases hm with ⟨m1, m2, _⟩ | ⟨_, _, _, m4, _⟩
      · rw [m1]; exact m2 hin
      · exact absurd hin m4
    · rw [hoth k' e] at hin
      rcases hm with ⟨m1, m2, _⟩ | ⟨m0, _, _, m4, _⟩
      · rw [m1]; exact a7 k' hk' hin
      · have e1 := a3 k' hk' (by rw [hin]; rfl)
        have e2 := a3 k hk (by rw [m0]; rfl)
        exact absurd (hUU _ _ e1 e2) e
  · intro k' hk' hin
    rw [hcfg] at hk'
    by_cases e : k' = k
    · rw [hself k' e] at hin
      rcases hm with ⟨m1, _, m3, _⟩ | ⟨_, _, _, _, m5⟩
      · rw [mEnded_congr s s' m1]; exact m3 hin
      · exact absurd hin m5
    · rw [hoth k' e] at hin
      have := a8 k' hk' hin
      rcases hm with ⟨m1, _⟩ | ⟨m0, _⟩
      · rw [mEnded_congr s s' m1]; exact this
      · have := a7 k hk m0
        simp_all [mEnded]
  · intro hn he
    rcases hm with ⟨m1, _, _, m4⟩ | ⟨_, _, m3, _⟩
    · rw [mEnded_congr s s' m1] at he
      rw [m1] at hn
      have := a9 hn he
      rcases m4 with e | e | e
      · rw [e]; exact this
      · exact e
      · rw [e] at he; cases he
    · exact m3
  · intro k' hk' hin
    rw [hcfg] at hk'
    by_cases e : k' = k
    · rw [hself k' e] at hin; exact hsd hin
    · rw [hoth k' e] at hin; exact hsf (a10 k' hk' hin)

set_option maxHeartbeats 8000000 in
theorem wx_stepU (s s' : St) (k : Nat) (v : Variant) (hk : k < s.cfg.scripts.length) (h : WX s)
    (hh : holderOk s = true) (hs : stepU s k v = some s') : WX s' := by
  have ho := holder_shut s hh
  have a3k := h.ownU k hk
  have a7k := h.tstart k hk
  have a8k := h.relG k hk
  have a10k := h.sdFlag k hk
  unfold stepU at hs
  crack
  all_goals (refine WX_U s _ k ?_ h hk ?_ ?_ ?_ ?_ ?_ ?_ ?_ ?_ ?_)
  all_goals (first
    | rfl | exact uNext_eq _ _ | exact uRelease_eq _ _ | exact uSpawnLoop_eq _ _ | exact uDispatch_eq _ _ _
    | (simp; done)
    | (intro hh; exact hh) | (intro hh; rfl) | (intro hh; simpa using hh)
    -- lock
    | (refine .inr (.inl ⟨ho ‹_›, ?_⟩); first | rfl | (simp; done))
    | (refine .inl ⟨?_, ?_⟩ <;> first | rfl | (simp [*, inShutU', setU, upd]; done))
    | (refine .inr (.inr ⟨?_, ?_, ?_⟩) <;> first | rfl | (simp; done) | (simp [*, inShutU', setU, upd]; done))
    -- manager
    | (refine .inl ⟨?_, ?_, ?_, ?_⟩ <;> first | rfl | (simp [*, setU, upd]; done) | (exact uSpawnLoop_f2 _ _) | (exact .inl rfl) | (exact .inl (by simp)) | (simp_all [setU, upd]; done))
    | (refine .inr ⟨‹_›, ?_, ?_, ?_, ?_⟩ <;> first | rfl | (simp [*, setU, upd]; done))
    -- attrsDropped
    | exact .inl rfl | (refine .inl ?_; simp; done) | (refine .inr ?_; have := a10k (by simp [*, inSd]); simpa using this)
    -- inSd
    | (simp [*, inSd, setU, upd]; done) | (intro _; rfl) | (intro _; have := a10k (by simp [*, inSd]); simpa using this)
    | skip)

end LokyModel.Exec
