import LokyModel.Lemmas.ExecLiveBase
import LokyModel.Lemmas.ExecLivePids
import LokyModel.ExecLiveStaticDef
/-! `staticOk` strengthened to an inductive invariant of static-pool configurations: the invariant as a proposition, its
    equivalence with the executable form, what the scope gives, the initial state. -/
namespace LokyModel.Exec.StaticP

/-! ### the invariant as a proposition -/

/-- what holds before the manager's final phase -/
structure PreF (s : St) : Prop where
  pd : s.procDict = s.allPids
  ns : ∀ p ∈ s.allPids, wStopping (s.w p) = false
  nb : ∀ m ∈ s.cqBuf, isStop m = false
  np : ∀ m ∈ s.cqPipe, isStop m = false
  nr : ∀ r ∈ s.rqPipe, isPidMsg r = false
  nf : fStop s.fpc = false
  full : s.mpc = .none ∨ s.procDict.length = s.cfg.maxWorkers
  le : s.procDict.length ≤ s.cfg.maxWorkers
  mx : ∀ k, k < s.cfg.scripts.length → inMgmtU' (s.upc k) = true → s.oMgmt = some (.U k)
  lt : ∀ k, k < s.cfg.scripts.length → spawning (s.upc k) = true → s.procDict.length < s.cfg.maxWorkers
  ts : ∀ k, k < s.cfg.scripts.length → s.upc k = .subTStart → s.procDict.length = s.cfg.maxWorkers

/-- the facts about the call queue, as a function of the components they read -/
structure QOk (buf pipe : List CMsg) (f : FPc) (late fin : Bool) : Prop where
  fb : (f = .none ∨ f = .done) → buf = []
  cp : ∀ m ∈ pipe, isClose m = false
  fc : fClose f = false
  cl : ∀ m ∈ buf.dropLast, isClose m = false
  late : late = false → (∀ m ∈ buf, isClose m = false) ∧ f ≠ .done
  nb : fin = false → ∀ m ∈ buf, isStop m = false
  np : fin = false → ∀ m ∈ pipe, isStop m = false
  nf : fin = false → fStop f = false

structure SI (s : St) : Prop where
  mn : mNever s.mpc = false
  br : s.broken = none
  kf : s.killFlag = false
  wn : ∀ p ∈ s.allPids, wNever (s.w p) = false
  pre : mFinal s.mpc = false → PreF s
  rc : s.mpc = .recv → s.rqPipe ≠ []
  cr : isClrRecv s.mpc = true → 0 < s.wakeup
  je : mEmptyL s.mpc = false
  api : ∀ k, k < s.cfg.scripts.length → s.upc k = .api → (s.ucur k).isSome = true
  fb : (s.fpc = .none ∨ s.fpc = .done) → s.cqBuf = []
  wc : s.wakeupClosed = true → mFinal s.mpc = true
  pe : ∀ k, k < s.cfg.scripts.length → peLike (s.upc k) = true → s.mpc ≠ .none
  snap : ∀ p ∈ snapOf s.mpc, p ∈ s.allPids
  wb : ∀ p ∈ s.allPids, wBadRes (s.w p) = false
  rb : ∀ r ∈ s.rqPipe, rBad r = false
  cp : ∀ m ∈ s.cqPipe, isClose m = false
  fc : fClose s.fpc = false
  cl : ∀ m ∈ s.cqBuf.dropLast, isClose m = false
  late : mLate s.mpc = false → (∀ m ∈ s.cqBuf, isClose m = false) ∧ s.fpc ≠ .done
  tr : s.threadReg = true → s.mpc ≠ .none
  nks : ∀ k, k < s.cfg.scripts.length → ∀ op ∈ s.uscript k, op.isKill = false
  nkc : ∀ k, k < s.cfg.scripts.length → ucurOk (s.ucur k) = true
  nkp : ∀ k, k < s.cfg.scripts.length → isSdKill (s.upc k) = false
  fu : s.mpc = .none → s.futs = [] ∨ ∃ k, k < s.cfg.scripts.length ∧ subEarly (s.upc k) = true
  tsn : ∀ k, k < s.cfg.scripts.length → s.upc k = .subTStart → s.mpc = .none

/-! ### Bool ↔ Prop -/

theorem sOk_m1 (f : FPc) : staticOk.match_1 (fun _ => Bool) f (fun _ => false) (fun _ => false) (fun _ => true) = !fStop f := by
  cases f <;> try rfl
  all_goals (rename_i m; cases m <;> rfl)
theorem sOk_m4 (m : MPc) (b : Bool) : staticOk.match_4 (fun _ => Bool) m (fun _ => b) (fun _ => true) = (!isClrRecv m || b) := by
  cases m <;> simp [isClrRecv]
theorem sOk_m7 (m : MPc) :
    staticOk.match_7 (fun _ => Bool) m (fun _ => false) (fun _ _ _ _ => false) (fun _ => true) = !mEmptyL m := by
  cases m with
  | jRelExit l n => cases l <;> rfl
  | jAlive l a b c d => cases l <;> rfl
  | _ => rfl
theorem match_peLike (u : UPc) :
    (u == .sdAcqG || u == .sdJoin || u == .peAcqG || u == .peJoin || u == .peAcq || u == .peWake || u == .peRel) = peLike u := by
  cases u <;> simp [peLike]
theorem subEarly_inShut (u : UPc) (h : subEarly u = true) : inShutU' u = true := by
  cases u <;> simp_all [subEarly, inShutU']

theorem si_of_bool (s : St) (h : staticOk' s = true) : SI s := by
  unfold staticOk' staticOk staticX at h
  simp only [sOk_m1, sOk_m4, sOk_m7, match_peLike, Bool.and_eq_true, Bool.or_eq_true,
    Bool.not_eq_true', List.all_eq_true, List.any_eq_true, List.mem_range, bne_iff_ne, ne_eq, beq_iff_eq, decide_eq_true_eq,
    List.isEmpty_iff, Bool.not_eq_true, List.any_eq_false, Option.isNone_iff_eq_none, List.contains_iff_mem] at h
  obtain ⟨⟨⟨⟨⟨⟨⟨⟨⟨⟨⟨⟨⟨a1, a2⟩, a3⟩, a4⟩, a5⟩, a6⟩, a7⟩, a8⟩, a9⟩, a10⟩, a11⟩, a12⟩, a13⟩,
    ⟨⟨⟨⟨⟨⟨⟨⟨⟨⟨⟨b1, b2⟩, b3⟩, b4⟩, b5⟩, b6⟩, b7⟩, b8⟩, b9⟩, b10⟩, b12⟩, b11⟩⟩ := h
  refine { mn := a1, br := a2, kf := a3, wn := a4, pre := ?_, rc := ?_, cr := ?_, je := a8, api := ?_, fb := ?_, wc := ?_,
           pe := ?_, snap := b1, wb := b2, rb := b3, cp := b4, fc := b5, cl := b6, late := ?_, tr := ?_,
           nks := fun k hk => (b9 k hk).1.1, nkc := fun k hk => (b9 k hk).1.2, nkp := fun k hk => (b9 k hk).2, fu := ?_,
           tsn := fun k hk hm => (b12 k hk).resolve_left (by simp [hm]) }
  · intro hf
    obtain ⟨⟨⟨⟨⟨⟨p1, p2⟩, p3⟩, p4⟩, p5⟩, p6⟩, p7⟩ := a5.resolve_left (by simp [hf])
    obtain ⟨q1, q2⟩ := b11.resolve_left (by simp [hf])
    exact { pd := p1, ns := p2, nb := p3, np := p4, nr := p5, nf := p6, full := p7, le := q1,
            mx := fun k hk hm => ((q2 k hk).1.1).resolve_left (by simp [hm]),
            lt := fun k hk hm => ((q2 k hk).1.2).resolve_left (by simp [hm]),
            ts := fun k hk hm => ((q2 k hk).2).resolve_left (by simp [hm]) }
  · intro hm; have := a6.resolve_left (by simp [hm]); intro e; simp [e] at this
  · intro hm; exact a7.resolve_left (by simp [hm])
  · intro k hk hm; exact (a9 k hk).resolve_left (by simp [hm])
  · intro hf; refine a10.resolve_left ?_; rcases hf with e | e <;> simp [e]
  · intro hw; exact a12.resolve_left (by simp [hw])
  · intro k hk hm; exact (a13 k hk).resolve_left (by simp [hm])
  · intro hm; exact b7.resolve_left (by simp [hm])
  · intro ht; exact b8.resolve_left (by simp [ht])
  · intro hm; exact b10.resolve_left (by simp [hm])

theorem bool_of_si (s : St) (h : SI s) : staticOk' s = true := by
  unfold staticOk' staticOk staticX
  simp only [sOk_m1, sOk_m4, sOk_m7, match_peLike, Bool.and_eq_true, Bool.or_eq_true,
    Bool.not_eq_true', List.all_eq_true, List.any_eq_true, List.mem_range, bne_iff_ne, ne_eq, beq_iff_eq, decide_eq_true_eq,
    List.isEmpty_iff, Bool.not_eq_true, List.any_eq_false, Option.isNone_iff_eq_none, List.contains_iff_mem]
  refine ⟨⟨⟨⟨⟨⟨⟨⟨⟨⟨⟨⟨⟨h.mn, h.br⟩, h.kf⟩, h.wn⟩, ?a5⟩, ?a6⟩, ?a7⟩, h.je⟩, ?a9⟩, ?a10⟩, ?a11⟩, ?a12⟩, ?a13⟩,
    ⟨⟨⟨⟨⟨⟨⟨⟨⟨⟨⟨h.snap, h.wb⟩, h.rb⟩, h.cp⟩, h.fc⟩, h.cl⟩, ?b7⟩, ?b8⟩, ?b9⟩, ?b10⟩, ?b12⟩, ?b11⟩⟩
  case a5 =>
    cases hf : mFinal s.mpc
    · right; have p := h.pre hf; exact ⟨⟨⟨⟨⟨⟨p.pd, p.ns⟩, p.nb⟩, p.np⟩, p.nr⟩, p.nf⟩, p.full⟩
    · left; rfl
  case a6 =>
    by_cases hm : s.mpc = .recv
    · right; have := h.rc hm; cases hq : s.rqPipe <;> simp_all
    · left; exact hm
  case a7 =>
    cases hm : isClrRecv s.mpc
    · left; rfl
    · right; exact h.cr hm
  case a9 =>
    intro k hk
    by_cases hm : s.upc k = .api
    · right; exact h.api k hk hm
    · left; exact hm
  case a10 =>
    by_cases hf : (s.fpc = .none ∨ s.fpc = .done)
    · right; exact h.fb hf
    · left; simp_all
  case a11 =>
    by_cases hm : s.mpc = .none
    · right
      rcases h.fu hm with e | ⟨k, hk, he⟩
      · left; exact e
      · right; exact ⟨k, hk, subEarly_inShut _ he⟩
    · left; exact hm
  case a12 =>
    cases hw : s.wakeupClosed
    · left; rfl
    · right; exact h.wc hw
  case a13 =>
    intro k hk
    cases hm : peLike (s.upc k)
    · left; rfl
    · right; exact h.pe k hk hm
  case b7 =>
    cases hm : mLate s.mpc
    · right; exact h.late hm
    · left; rfl
  case b8 =>
    cases ht : s.threadReg
    · left; rfl
    · right; exact h.tr ht
  case b9 => intro k hk; exact ⟨⟨h.nks k hk, h.nkc k hk⟩, h.nkp k hk⟩
  case b10 =>
    by_cases hm : s.mpc = .none
    · right; exact h.fu hm
    · left; exact hm
  case b12 =>
    intro k hk
    by_cases hm : s.upc k = .subTStart
    · right; exact h.tsn k hk hm
    · left; exact hm
  case b11 =>
    cases hf : mFinal s.mpc
    · right
      have p := h.pre hf
      refine ⟨p.le, fun k hk => ⟨⟨?_, ?_⟩, ?_⟩⟩
      · cases hm : inMgmtU' (s.upc k)
        · left; rfl
        · right; exact p.mx k hk hm
      · cases hm : spawning (s.upc k)
        · left; rfl
        · right; exact p.lt k hk hm
      · by_cases hm : s.upc k = .subTStart
        · right; exact p.ts k hk hm
        · left; exact hm
    · left; rfl

/-! ### what the scope gives -/

theorem sp_parts (c : Cfg) (hc : c.staticPool = true) :
    c.timeout = false ∧ c.leakAfter = [] ∧ c.initFail = [] ∧ 0 < c.maxWorkers ∧
    (∀ t ∈ c.tasks, t.body ≠ .die ∧ t.args ≠ .badunpickle ∧ t.res ≠ .badunpickle) ∧
    (∀ sc ∈ c.scripts, ∀ op ∈ sc, op.isKill = false) := by
  unfold Cfg.staticPool at hc
  simp only [Bool.and_eq_true, Bool.not_eq_true', List.isEmpty_iff, decide_eq_true_eq, List.all_eq_true, bne_iff_ne, ne_eq] at hc
  obtain ⟨⟨⟨⟨⟨a, b⟩, c'⟩, d⟩, e⟩, f⟩ := hc
  exact ⟨a, b, c', d, fun t ht => ⟨(e t ht).1.1, (e t ht).1.2, (e t ht).2⟩, f⟩

theorem sp_timeout {s : St} (hc : s.cfg.staticPool = true) : s.cfg.timeout = false := (sp_parts _ hc).1
theorem sp_leak {s : St} (hc : s.cfg.staticPool = true) : s.cfg.leakAfter = [] := (sp_parts _ hc).2.1
theorem sp_initFail {s : St} (hc : s.cfg.staticPool = true) : s.cfg.initFail = [] := (sp_parts _ hc).2.2.1
theorem sp_max {s : St} (hc : s.cfg.staticPool = true) : 0 < s.cfg.maxWorkers := (sp_parts _ hc).2.2.2.1
theorem sp_spec {s : St} (hc : s.cfg.staticPool = true) (t : Tid) :
    (specOf s t).body ≠ .die ∧ (specOf s t).args ≠ .badunpickle ∧ (specOf s t).res ≠ .badunpickle := by
  unfold specOf
  by_cases h : t < s.cfg.tasks.length
  · have : s.cfg.tasks.getD t {} = s.cfg.tasks[t] := by simp [List.getD, h]
    rw [this]
    exact (sp_parts _ hc).2.2.2.2.1 _ (List.getElem_mem h)
  · have : s.cfg.tasks.getD t {} = {} := by simp [List.getD, List.getElem?_eq_none (Nat.le_of_not_lt h)]
    rw [this]; simp
theorem sp_script (c : Cfg) (hc : c.staticPool = true) (k : Nat) : ∀ op ∈ c.scripts.getD k [], op.isKill = false := by
  by_cases h : k < c.scripts.length
  · have : c.scripts.getD k [] = c.scripts[k] := by simp [List.getD, h]
    rw [this]
    exact (sp_parts _ hc).2.2.2.2.2 _ (List.getElem_mem h)
  · have : c.scripts.getD k [] = [] := by simp [List.getD, List.getElem?_eq_none (Nat.le_of_not_lt h)]
    rw [this]; simp

/-! ### initial state -/

theorem si_init (cfg : Cfg) (hc : cfg.staticPool = true) : SI (init cfg) := by
  refine { mn := rfl, br := rfl, kf := rfl, wn := ?_, pre := ?_, rc := ?_, cr := ?_, je := rfl, api := ?_, fb := ?_, wc := ?_,
           pe := ?_, snap := ?_, wb := ?_, rb := ?_, cp := ?_, fc := rfl, cl := ?_, late := ?_, tr := ?_,
           nks := ?_, nkc := ?_, nkp := ?_, fu := ?_, tsn := ?_ }
  all_goals try (simp [init, isClrRecv, peLike, snapOf, ucurOk, isSdKill]; done)
  · intro _
    constructor <;> simp [init, fStop, inMgmtU', spawning]
  · intro k _; exact sp_script cfg hc k

end LokyModel.Exec.StaticP
