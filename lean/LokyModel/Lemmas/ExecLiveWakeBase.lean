import LokyModel.Lemmas.ExecLiveBase
import LokyModel.Lemmas.ExecLivePids
import LokyModel.Lemmas.ExecLiveWakeDefs
/-! Prop forms of `wakeOk2` / `wakeX` and the transfer lemmas used by the per-actor step lemmas. -/
namespace LokyModel.Exec
set_option linter.unusedSimpArgs false

/-- the manager thread is at (or about to reach) its `wait` -/
def mIdle : MPc → Bool
  | .start | .wait _ => true
  | _ => false

/-- something will wake the manager (Prop form of `willWake2`) -/
def WW (s : St) : Prop :=
  0 < s.wakeup ∨ s.rqPipe ≠ [] ∨ (∃ k, k < s.cfg.scripts.length ∧ uOwes2 s (s.upc k) = true) ∨
  fOwes s.fpc = true ∨ (∃ m ∈ s.cqBuf, isCall m = true) ∨ fBusy s.fpc = true ∨ (∃ m ∈ s.cqPipe, isCall m = true) ∨
  ∃ p ∈ s.allPids, wBusy (s.w p) = true

theorem willWake2_iff (s : St) : willWake2 s = true ↔ WW s := by
  simp [willWake2, WW, List.any_eq_true, List.isEmpty_iff, or_assoc]

/-- the manager is idle and has a reason to act -/
def Need (s : St) : Prop :=
  mIdle s.mpc = true ∧ (s.mpc = .start ∨ mustExit s = true ∨ s.workIds ≠ [])

def WakeP (s : St) : Prop := Need s → WW s

theorem wakeOk2_iff (s : St) : wakeOk2 s = true ↔ WakeP s := by
  unfold wakeOk2 WakeP Need
  split <;> rename_i hm
  · simp [hm, mIdle, willWake2_iff]
  · simp [hm, mIdle, willWake2_iff, List.isEmpty_iff]
    cases mustExit s <;> by_cases hw : s.workIds = [] <;> simp [hw]
  · have h1 : mIdle s.mpc = false := by
      cases hmm : s.mpc <;> simp_all [mIdle]
    simp [h1]

theorem uOwes_of_uOwes2 (s : St) (pc : UPc) (h : uOwes2 s pc = true) : uOwes pc = true := by
  cases pc <;> simp_all [uOwes2, uOwes]

theorem willWake_of_WW (s : St) (h : WW s) : willWake s = true := by
  simp only [willWake, Bool.or_eq_true, List.any_eq_true, decide_eq_true_eq, Bool.not_eq_true', List.isEmpty_eq_false_iff]
  rcases h with h | h | ⟨k, hk, h⟩ | h | h | h | h | h
  · simp [h]
  · simp [h]
  · have := uOwes_of_uOwes2 _ _ h
    refine .inl (.inl (.inl (.inl (.inl (.inr ⟨k, by simpa using hk, this⟩)))))
  · simp [h]
  · obtain ⟨m, hm, h⟩ := h
    exact .inl (.inl (.inl (.inr ⟨m, hm, h⟩)))
  · simp [h]
  · obtain ⟨m, hm, h⟩ := h
    exact .inl (.inr ⟨m, hm, h⟩)
  · obtain ⟨p, hp, h⟩ := h
    exact .inr ⟨p, hp, h⟩

theorem wakeOk_of_wakeOk2 (s : St) (h : wakeOk2 s = true) : wakeOk s = true := by
  unfold wakeOk2 at h
  unfold wakeOk
  split <;> rename_i hm
  · simp only [hm] at h
    exact willWake_of_WW _ ((willWake2_iff s).1 h)
  · simp only [hm] at h
    by_cases hc : (mustExit s || !s.workIds.isEmpty) = true
    · simp only [hc, Bool.not_true, Bool.false_or] at h ⊢
      exact willWake_of_WW _ ((willWake2_iff s).1 h)
    · simp at hc
      simp [hc]
  · rfl

/-- Prop form of `wakeX` -/
structure WX (s : St) : Prop where
  pipeNC : ∀ m ∈ s.cqPipe, isClose m = false
  fNC : s.fpc ≠ .acq .close ∧ s.fpc ≠ .send .close
  ownU : ∀ k, k < s.cfg.scripts.length → inShutU' (s.upc k) = true → s.oShut = some (.U k)
  ownM : inShutM' s.mpc = true → s.oShut = some .M
  ownF : inShutF' s.fpc = true → s.oShut = some .F
  drop : s.attrsDropped = true → s.shutdownFlag = true
  tstart : ∀ k, k < s.cfg.scripts.length → s.upc k = .subTStart → s.mpc = .none
  relG : ∀ k, k < s.cfg.scripts.length → s.upc k = .sdRelG → mEnded s = true
  reg : s.mpc ≠ .none → mEnded s = false → s.threadReg = true
  sdFlag : ∀ k, k < s.cfg.scripts.length → inSd (s.upc k) = true → s.shutdownFlag = true

theorem wakeX_iff (s : St) : wakeX s = true ↔ WX s := by
  constructor
  · intro h
    simp only [wakeX, noClose, shutOwner, Bool.and_eq_true, Bool.or_eq_true, List.all_eq_true, List.mem_range,
      Bool.not_eq_true', List.any_eq_false, bne_iff_ne, ne_eq, beq_iff_eq, Bool.not_eq_eq_eq_not, Bool.not_true,
      decide_eq_true_eq] at h
    obtain ⟨⟨⟨⟨⟨⟨h1, h2⟩, ⟨h3, h4⟩, h5⟩, h6⟩, h7⟩, h8⟩, h10⟩ := h
    refine ⟨?_, ?_, ?_, ?_, ?_, ?_, ?_, ?_, ?_, ?_⟩
    · intro m hm; simpa using h1 m hm
    · constructor <;> intro e <;> simp [e] at h2
    · intro k hk hi; rcases h3 k hk with e | e
      · simp [hi] at e
      · exact e
    · intro hi; rcases h4 with e | e
      · simp [hi] at e
      · exact e
    · intro hi; rcases h5 with e | e
      · simp [hi] at e
      · exact e
    · intro hd; rcases h6 with e | e
      · simp [hd] at e
      · exact e
    · intro k hk e; rcases (h7 k hk).1 with e' | e'
      · exact absurd e e'
      · exact e'
    · intro k hk e; rcases (h7 k hk).2 with e' | e'
      · exact absurd e e'
      · exact e'
    · intro hn he; rcases h8 with (e | e) | e
      · exact absurd e hn
      · simp [he] at e
      · exact e
    · intro k hk hi; rcases h10 k hk with e | e
      · simp [hi] at e
      · exact e
  · intro ⟨h1, h2, h3, h4, h5, h6, h7, h8, h9, h10⟩
    simp only [wakeX, noClose, shutOwner, Bool.and_eq_true, Bool.or_eq_true, List.all_eq_true, List.mem_range,
      Bool.not_eq_true', List.any_eq_false, bne_iff_ne, ne_eq, beq_iff_eq, Bool.not_eq_eq_eq_not, Bool.not_true,
      decide_eq_true_eq]
    refine ⟨⟨⟨⟨⟨⟨?_, ?_⟩, ⟨?_, ?_⟩, ?_⟩, ?_⟩, ?_⟩, ?_⟩, ?_⟩
    · intro m hm; simpa using h1 m hm
    · split <;> simp_all
    · intro k hk
      by_cases hi : inShutU' (s.upc k) = true
      · exact .inr (h3 k hk hi)
      · exact .inl (by simpa using hi)
    · by_cases hi : inShutM' s.mpc = true
      · exact .inr (h4 hi)
      · exact .inl (by simpa using hi)
    · by_cases hi : inShutF' s.fpc = true
      · exact .inr (h5 hi)
      · exact .inl (by simpa using hi)
    · by_cases hd : s.attrsDropped = true
      · exact .inr (h6 hd)
      · exact .inl (by simpa using hd)
    · intro k hk
      refine ⟨?_, ?_⟩
      · by_cases e : s.upc k = .subTStart
        · exact .inr (h7 k hk e)
        · exact .inl e
      · by_cases e : s.upc k = .sdRelG
        · exact .inr (h8 k hk e)
        · exact .inl e
    · by_cases hn : s.mpc = .none
      · exact .inl (.inl hn)
      · by_cases he : mEnded s = true
        · exact .inl (.inr he)
        · exact .inr (h9 hn (by simpa using he))
    · intro k hk
      by_cases hi : inSd (s.upc k) = true
      · exact .inr (h10 k hk hi)
      · exact .inl (by simpa using hi)

/-! ### transfer lemmas -/

theorem need_congr (s s' : St) (h1 : s'.mpc = s.mpc) (h2 : s'.globalShutdown = s.globalShutdown) (h3 : s'.refs = s.refs)
    (h4 : s'.shutdownFlag = s.shutdownFlag) (h5 : s'.pending = s.pending) (h6 : s'.workIds = s.workIds) :
    Need s' → Need s := by
  unfold Need mustExit; rw [h1, h2, h3, h4, h5, h6]; exact id

theorem wakeP_of {s s' : St} (hn : Need s' → Need s) (hw : WW s → WW s') (h : WakeP s) : WakeP s' :=
  fun n => hw (h (hn n))

theorem wakeP_busy {s' : St} (h : mIdle s'.mpc = false) : WakeP s' := by
  intro n; rw [n.1] at h; cases h

/-- `WX` reads these fields only -/
theorem WX_same (s s' : St) (h : WX s) (h1 : ∀ m ∈ s'.cqPipe, m ∈ s.cqPipe) (h2 : s'.fpc = s.fpc) (h3 : s'.cfg = s.cfg)
    (h4 : s'.upc = s.upc) (h5 : s'.oShut = s.oShut) (h6 : s'.mpc = s.mpc) (h7 : s'.attrsDropped = s.attrsDropped)
    (h8 : s'.shutdownFlag = s.shutdownFlag) (h9 : s'.threadReg = s.threadReg) : WX s' := by
  obtain ⟨a1, a2, a3, a4, a5, a6, a7, a8, a9, a10⟩ := h
  have hm : mEnded s' = mEnded s := by unfold mEnded; rw [h6]
  refine ⟨fun m hm => a1 m (h1 m hm), by rw [h2]; exact a2, by rw [h3, h4, h5]; exact a3, by rw [h6, h5]; exact a4,
    by rw [h2, h5]; exact a5, by rw [h7, h8]; exact a6, by rw [h3, h4, h6]; exact a7, by rw [h3, h4, hm]; exact a8,
    by rw [h6, hm, h9]; exact a9, by rw [h3, h4, h8]; exact a10⟩

/-- a worker step: everything `WW` reads is unchanged except the worker's own program counter, the head of the call
    pipe and the tail of the result pipe -/
theorem WW_W (s s' : St) (p : Pid) (hp : p ∈ s.allPids)
    (hcfg : s'.cfg = s.cfg) (hwk : s'.wakeup = s.wakeup) (hupc : s'.upc = s.upc) (hatt : s'.attrsDropped = s.attrsDropped)
    (hfpc : s'.fpc = s.fpc) (hbuf : s'.cqBuf = s.cqBuf) (hall : s'.allPids = s.allPids)
    (hoth : ∀ q, q ≠ p → s'.w q = s.w q)
    (hrq : s.rqPipe ≠ [] → s'.rqPipe ≠ [])
    (hself : wBusy (s.w p) = true → wBusy (s'.w p) = true ∨ s'.rqPipe ≠ [])
    (hpipe : ∀ m ∈ s.cqPipe, isCall m = true → m ∈ s'.cqPipe ∨ wBusy (s'.w p) = true) : WW s → WW s' := by
  intro h
  unfold WW at h ⊢
  rw [hcfg, hwk, hupc, hfpc, hbuf, hall]
  have hu : ∀ pc, uOwes2 s' pc = uOwes2 s pc := by intro pc; unfold uOwes2; rw [hatt]
  simp only [hu]
  rcases h with h | h | h | h | h | h | h | h
  · exact .inl h
  · exact .inr (.inl (hrq h))
  · exact .inr (.inr (.inl h))
  · exact .inr (.inr (.inr (.inl h)))
  · exact .inr (.inr (.inr (.inr (.inl h))))
  · exact .inr (.inr (.inr (.inr (.inr (.inl h)))))
  · obtain ⟨m, hm, hc⟩ := h
    rcases hpipe m hm hc with h | h
    · exact .inr (.inr (.inr (.inr (.inr (.inr (.inl ⟨m, h, hc⟩))))))
    · exact .inr (.inr (.inr (.inr (.inr (.inr (.inr ⟨p, hp, h⟩))))))
  · obtain ⟨q, hq, hb⟩ := h
    by_cases e : q = p
    · subst e
      rcases hself hb with h | h
      · exact .inr (.inr (.inr (.inr (.inr (.inr (.inr ⟨q, hq, h⟩))))))
      · exact .inr (.inl h)
    · exact .inr (.inr (.inr (.inr (.inr (.inr (.inr ⟨q, hq, by rw [hoth q e]; exact hb⟩))))))

/-! ### what the scope gives -/

theorem holder_shut (s : St) (h : holderOk s = true) (hp : 0 < s.shut) : s.oShut = none := by
  unfold holderOk at h
  simp only [Bool.and_eq_true] at h
  have h6 := h.2
  split at h6
  · assumption
  all_goals (simp at h6; try omega)

theorem spec_static (s : St) (hc : s.cfg.staticPool = true) (t : Tid) :
    (specOf s t).body ≠ .die ∧ (specOf s t).args ≠ .badunpickle ∧ (specOf s t).res ≠ .badunpickle := by
  unfold Cfg.staticPool at hc
  simp only [Bool.and_eq_true, List.all_eq_true] at hc
  have h := hc.1.2
  unfold specOf
  by_cases ht : t < s.cfg.tasks.length
  · have := h (s.cfg.tasks[t]) (List.getElem_mem ht)
    simp only [List.getD_eq_getElem?_getD, List.getElem?_eq_getElem ht, Option.getD_some]
    simpa [and_assoc] using this
  · simp only [List.getD_eq_getElem?_getD, List.getElem?_eq_none (Nat.le_of_not_lt ht), Option.getD_none]
    simp

end LokyModel.Exec
