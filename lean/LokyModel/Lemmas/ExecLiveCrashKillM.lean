import LokyModel.Lemmas.ExecLiveCrashKillBase
/-! `killedC` along the steps of the manager thread. -/
namespace LokyModel.Exec

theorem ki_nb (s' : St) (hb : s'.broken = none) (hnk : ∀ p, ¬ atKill s'.mpc p) : KI s' :=
  ki_of_nobroken s' hb (fun p hk => (hnk p hk).elim)

theorem mAddF_not_kill (X : St) (p : Pid) : ¬ atKill (mAddF X).mpc p := by
  intro hk
  rcases mAddF_mpc X with ⟨i, _, e⟩ | ⟨_, e, _⟩ | ⟨_, e, _⟩ <;> rw [e] at hk <;> rcases hk with e | e <;> cases e

/-- `flag_executor_shutting_down` is left: with `kill_workers` the kill loop starts on a complete registry -/
theorem ki_flagRel (s X : St) (h : KI s) (hm : s.mpc = .flagRel) (hreg : s.procDict = s.allPids)
    (hb : X.broken = s.broken) (hp : X.procDict = s.procDict) (ha : X.allPids = s.allPids) : KI (mAfterFlag X) := by
  have hnb := h.nobroken hm rfl
  refine ki_of_nobroken _ (by simp [hb, hnb]) ?_
  intro p hk q hq
  have hq' : q ∈ X.procDict := by rw [hp, hreg]; simpa [ha] using hq
  rcases mAfterFlag_loop X p hk q hq' with e | e
  · exact .inl e
  · exact .inr (.inl e)

/-- `terminate_broken` takes `shutdown_lock`: both flags are raised -/
theorem ki_brkAcq (s : St) (b : Broken) (x : Nat) :
    KI { s with shut := x, oShut := some .M, shutdownFlag := true, broken := some b, mpc := .brkRel b } := by
  refine ⟨fun _ => rfl, fun _ => rfl, ?_, ?_⟩
  · intro p hk; rcases hk with e | e <;> cases e
  · intro hm; simp [mFinal] at hm

/-- `terminate_broken` releases the lock and starts the kill loop on a complete registry -/
theorem ki_brkRel (s X : St) (b : Broken) (h : KI s) (_hm : s.mpc = .brkRel b) (hreg : s.procDict = s.allPids)
    (hb : X.broken = s.broken) (hf : X.shutdownFlag = s.shutdownFlag) (hp : X.procDict = s.procDict)
    (ha : X.allPids = s.allPids) : KI (mKillNext X) := by
  refine ⟨?_, fun _ => mKillNext_late X, ?_, ?_⟩
  · intro hb'; rw [mKillNext_broken, hb] at hb'; rw [mKillNext_shutdownFlag, hf]; exact h.flag hb'
  · intro p hk q hq
    have hq' : q ∈ X.procDict := by rw [hp, hreg]; simpa [ha] using hq
    rcases mKillNext_loop X p hk q hq' with e | e
    · exact .inl e
    · exact .inr (.inl e)
  · intro hfin _ q hq
    have := mKillNext_fin X hfin
    rw [mKillNext_allPids, ha, ← hreg, ← hp, this] at hq
    cases hq

/-- `kill()`: the victim is dead from here on, whatever it was doing -/
theorem ki_kill (s s' : St) (p : Pid) (h : KI s) (hm : s.mpc = .kill p) (hm' : s'.mpc = .killJoin p)
    (hb : s'.broken = s.broken) (hf : s'.shutdownFlag = s.shutdownFlag) (hp : s'.procDict = s.procDict)
    (ha : s'.allPids = s.allPids) (hw : ∀ q, s.w q = .dead → s'.w q = .dead) : KI s' := by
  refine ⟨by rw [hb, hf]; exact h.flag, fun _ => by rw [hm']; rfl, ?_, ?_⟩
  · intro p' hk q hq
    have hpp : p' = p := by
      rw [hm'] at hk
      rcases hk with e | e
      · cases e
      · injection e with e; exact e.symm
    subst hpp
    rw [ha] at hq
    rcases h.loop p' (.inl hm) q hq with e | e | e
    · exact .inl e
    · exact .inr (.inl (by rw [hp]; exact e))
    · exact .inr (.inr (hw q e))
  · intro hfin; rw [hm'] at hfin; simp [mFinal] at hfin

/-- `join()` of the victim returned: the next registered worker is popped, or the final phase starts -/
theorem ki_killJoin (s : St) (p : Pid) (h : KI s) (hm : s.mpc = .killJoin p) (hd : s.w p = .dead) : KI (mKillNext s) := by
  refine ⟨?_, fun _ => mKillNext_late s, ?_, ?_⟩
  · intro hb'; rw [mKillNext_broken] at hb'; rw [mKillNext_shutdownFlag]; exact h.flag hb'
  · intro p' hk q hq
    rw [mKillNext_allPids] at hq
    rw [mKillNext_w]
    rcases h.loop p (.inr hm) q hq with e | e | e
    · exact .inr (.inr (by rw [e]; exact hd))
    · rcases mKillNext_loop s p' hk q e with e' | e'
      · exact .inl e'
      · exact .inr (.inl e')
    · exact .inr (.inr e)
  · intro hfin _ q hq
    have hnil := mKillNext_fin s hfin
    rw [mKillNext_allPids] at hq
    rw [mKillNext_w]
    rcases h.loop p (.inr hm) q hq with e | e | e
    · rw [e]; exact hd
    · rw [hnil] at e; cases e
    · exact e

set_option maxHeartbeats 8000000 in
theorem ki_stepM (s s' : St) (v : Variant) (h : KI s) (hreg : mLateK s.mpc = false → s.procDict = s.allPids)
    (hs : stepM s v = some s') : KI s' := by
  unfold stepM at hs
  crack
  all_goals (first
    -- the five steps that matter
    | (exact ki_flagRel s _ h ‹s.mpc = _› (hreg (by rw [‹s.mpc = _›]; rfl)) rfl rfl rfl)
    | (exact ki_brkAcq s _ _)
    | (refine ki_brkRel s _ _ h ‹s.mpc = _› (hreg (by rw [‹s.mpc = _›]; rfl)) ?_ ?_ ?_ ?_ <;> simp; done)
    | (refine ki_kill s _ _ h ‹s.mpc = _› ?_ ?_ ?_ ?_ ?_ ?_
       all_goals (first
         | rfl
         | (simp; done)
         | (intro q hq; rename_i p _ _
            by_cases e : q = p
            · subst e; simp [die, upd]
            · simp [die_w_other, e, hq])
         | (intro q hq; exact hq)))
    | (refine ki_killJoin s _ h ‹s.mpc = _› ?_; simpa [isDead] using ‹isDead s _ = true›; done)
    -- inside the final phase
    | (refine ki_final s _ h (by rw [‹s.mpc = _›]; rfl) ?_ ?_ ?_ ?_ ?_
       all_goals (first
         | rfl
         | (simp; done)
         | (simp [fin_mJoinLoop, fin_mRelExitNext, fin_mAliveNext, fin_mAfterPut, fin_mJoinProcs]; done)
         | (simp [mFinal]; done)
         | (split <;> simp [fin_mJoinClose, fin_mJoinLoop, fin_mRelExitNext, fin_mAliveNext, fin_mAfterPut, fin_mJoinProcs, mFinal]; done)))
    -- the main loop: the pool is not flagged broken
    | (have hb := h.nobroken ‹s.mpc = _› rfl
       refine ki_nb _ (by simpa using hb) ?_
       intro p hk
       first
       | (exact mAddF_not_kill _ _ hk)
       | (have := atKill_flagged hk; simp at this; done)
       | (rcases hk with e | e <;> simp at e; done)
       | (have := atKill_flagged hk; simp [mFlagged] at this; done)))

end LokyModel.Exec
