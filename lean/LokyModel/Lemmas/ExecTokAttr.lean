import Lean.Meta.Tactic.Simp.RegisterCommand
/-! simp set: what the program counter chosen by a continuation holds (used before the counting functions are unfolded) -/
register_simp_attr tokpc
