import LokyModel.Chunks
/-!
# Helper lemmas about M2 (`LokyModel.Chunks`) used by `Props/C03Map.lean`
-/
namespace LokyModel.Chunks

/-! ### the reference: Python's builtin `map`, consumed until exhaustion or the first exception -/

/-- `list(map(fn, rows))` as an observer sees it: the values produced before the first raising
    element (all of them if none raises), and that element's exception -/
def builtinMap (fn : ρ → Except ε β) : List ρ → List β × Option ε
  | [] => ([], none)
  | r :: rs =>
    match fn r with
    | .error e => ([], some e)
    | .ok v => (v :: (builtinMap fn rs).1, (builtinMap fn rs).2)

/-- the builtin `map(f, l₁, l₂, l₃)` for a function that does not raise -/
def builtinMap3 (f : α → β → γ → δ) : List α → List β → List γ → List δ
  | x :: xs, y :: ys, z :: zs => f x y z :: builtinMap3 f xs ys zs
  | _, _, _ => []

/-! ### `getChunks` unfolding -/

theorem getChunks_nil (c : Nat) : getChunks c ([] : List ρ) = [] := by
  rw [getChunks]; simp

theorem getChunks_zero (rows : List ρ) : getChunks 0 rows = [] := by
  rw [getChunks]; simp

theorem getChunks_step (c : Nat) (rows : List ρ) (hc : 1 ≤ c) (hr : rows ≠ []) :
    getChunks c rows = rows.take c :: getChunks c (rows.drop c) := by
  rw [getChunks]
  have : (rows.take c).isEmpty = false := by
    cases rows with
    | nil => exact absurd rfl hr
    | cons r rs =>
      cases c with
      | zero => omega
      | succ c => simp
  simp [this]

theorem getChunks_eq_nil_iff (c : Nat) (rows : List ρ) (hc : 1 ≤ c) :
    getChunks c rows = [] ↔ rows = [] := by
  constructor
  · intro h
    by_cases hr : rows = []
    · exact hr
    · rw [getChunks_step c rows hc hr] at h; simp at h
  · intro h; subst h; exact getChunks_nil c

/-- strong induction principle following the loop of `_get_chunks` -/
theorem chunks_induction {motive : List ρ → Prop} (c : Nat) (hc : 1 ≤ c)
    (nil : motive [])
    (step : ∀ rows, rows ≠ [] → motive (rows.drop c) → motive rows) :
    ∀ rows, motive rows := by
  intro rows
  generalize hn : rows.length = n
  induction n using Nat.strongRecOn generalizing rows with
  | _ n ih =>
    by_cases hr : rows = []
    · subst hr; exact nil
    · apply step rows hr
      apply ih (rows.drop c).length _ _ rfl
      have : 0 < rows.length := List.length_pos_iff.mpr hr
      simp only [List.length_drop]; omega

/-! ### `popAll`, `drainElement`, `chain` -/

theorem popAll_eq_reverse (l : List β) : popAll l = l.reverse := by
  generalize hn : l.length = n
  induction n generalizing l with
  | zero =>
    have : l = [] := List.length_eq_zero_iff.mp hn
    subst this; rw [popAll]; simp
  | succ n ih =>
    have hne : l ≠ [] := by intro h; subst h; simp at hn
    rw [popAll]
    simp only [hne, dite_false]
    rw [ih l.dropLast (by simp [List.length_dropLast, hn])]
    conv => rhs; rw [← List.dropLast_concat_getLast hne]
    simp

theorem drainElement_eq (l : List β) : drainElement l = l := by
  simp [drainElement, popAll_eq_reverse]

/-! ### `processChunk` and `builtinMap` -/

theorem processChunk_eq (fn : ρ → Except ε β) (rows : List ρ) :
    processChunk fn rows =
      match (builtinMap fn rows).2 with
      | none => .ok (builtinMap fn rows).1
      | some e => .error e := by
  induction rows with
  | nil => rfl
  | cons r rs ih =>
    simp only [processChunk, builtinMap]
    cases hf : fn r with
    | error e => rfl
    | ok v =>
      simp only [ih]
      cases h2 : (builtinMap fn rs).2 <;> simp

theorem builtinMap_append (fn : ρ → Except ε β) (a b : List ρ) :
    builtinMap fn (a ++ b) =
      match (builtinMap fn a).2 with
      | some e => ((builtinMap fn a).1, some e)
      | none => ((builtinMap fn a).1 ++ (builtinMap fn b).1, (builtinMap fn b).2) := by
  induction a with
  | nil => simp [builtinMap]
  | cons r rs ih =>
    simp only [List.cons_append, builtinMap]
    cases hf : fn r with
    | error e => rfl
    | ok v =>
      simp only [ih]
      cases h2 : (builtinMap fn rs).2 <;> simp

theorem builtinMap_length_le (fn : ρ → Except ε β) (rows : List ρ) :
    (builtinMap fn rows).1.length ≤ rows.length := by
  induction rows with
  | nil => simp [builtinMap]
  | cons r rs ih =>
    simp only [builtinMap]
    cases fn r <;> simp <;> omega

theorem builtinMap_length_of_none (fn : ρ → Except ε β) (rows : List ρ)
    (h : (builtinMap fn rows).2 = none) : (builtinMap fn rows).1.length = rows.length := by
  induction rows with
  | nil => simp [builtinMap]
  | cons r rs ih =>
    simp only [builtinMap] at h ⊢
    cases hf : fn r with
    | error e => simp [hf] at h
    | ok v => simp [hf] at h ⊢; exact ih h

theorem builtinMap_length_of_some (fn : ρ → Except ε β) (rows : List ρ) (e : ε)
    (h : (builtinMap fn rows).2 = some e) : (builtinMap fn rows).1.length < rows.length := by
  induction rows with
  | nil => simp [builtinMap] at h
  | cons r rs ih =>
    simp only [builtinMap] at h ⊢
    cases hf : fn r with
    | error e => simp
    | ok v => simp [hf] at h ⊢; exact ih h

theorem builtinMap_total (g : ρ → β) (rows : List ρ) :
    builtinMap (fun r => (.ok (g r) : Except ε β)) rows = (rows.map g, none) := by
  induction rows with
  | nil => rfl
  | cons r rs ih => simp [builtinMap, ih]

/-! ### one turn of the pipeline: the first chunk `a`, then the rest `b` -/

/-- what `executor.map` shows of a run of the builtin `map` that yields `vs` and then raises /
    is exhausted: with chunk size `c`, the values of the complete chunks before the failing one -/
def expected (c : Nat) (r : List β × Option ε) : List β × Option ε :=
  match r.2 with
  | none => (r.1, none)
  | some e => (r.1.take (r.1.length / c * c), some e)

theorem chain_step (c : Nat) (hc : 1 ≤ c) (fn : ρ → Except ε β) (a b : List ρ)
    (ha : a.length ≤ c) (hb : b ≠ [] → a.length = c) (restChunks : List (List ρ))
    (ih : chain (restChunks.map (processChunk fn)) = expected c (builtinMap fn b)) :
    chain ((a :: restChunks).map (processChunk fn)) = expected c (builtinMap fn (a ++ b)) := by
  rw [List.map_cons, processChunk_eq, builtinMap_append]
  cases h2 : (builtinMap fn a).2 with
  | some e =>
    have hlt := builtinMap_length_of_some fn a e h2
    have : (builtinMap fn a).1.length / c = 0 := Nat.div_eq_of_lt (by omega)
    simp [chain, expected, this]
  | none =>
    have hlen := builtinMap_length_of_none fn a h2
    simp only [chain, drainElement_eq, ih]
    cases h3 : (builtinMap fn b).2 with
    | none => simp [expected, h3]
    | some e =>
      have hbne : b ≠ [] := by
        intro h; subst h; simp [builtinMap] at h3
      have hac : (builtinMap fn a).1.length = c := by rw [hlen]; exact hb hbne
      simp only [expected, h3, List.length_append, hac]
      rw [Nat.add_div_left _ (by omega), Nat.add_mul, Nat.one_mul, Nat.add_comm _ c]
      congr 1
      have := List.take_length_add_append (l₁ := (builtinMap fn a).1) (l₂ := (builtinMap fn b).1)
        ((builtinMap fn b).1.length / c * c)
      rw [hac] at this
      exact this.symm

end LokyModel.Chunks
