import LokyModel.Lemmas.ExecNoBreakW
namespace LokyModel.Exec

/-- a manager program counter that neither is on the broken path nor holds a pid message, and whose
    sentinel list (if it is a `wait`) is the current registry -/
def quietPc (pd : List Pid) (pc : MPc) (old : List Pid := pd) : Prop :=
  brokenPath pc = false ∧ (∀ q, mHolds pc q = false) ∧ (∀ sn, pc = .wait sn → sn = pd) ∧
  (∀ q, poppedPc pc q = true → q ∉ pd ∧ q ∈ old)

theorem quiet_of_simple {pd : List Pid} {pc : MPc} (h1 : brokenPath pc = false) (h2 : ∀ q, mHolds pc q = false)
    (h3 : ∀ sn, pc ≠ .wait sn) (h4 : ∀ q, poppedPc pc q = false := by intro q; rfl) {old : List Pid} :
    quietPc pd pc old :=
  ⟨h1, h2, fun sn h => absurd h (h3 sn), fun q hq => by rw [h4 q] at hq; cases hq⟩

theorem quiet_mAddFuel (n : Nat) (s : St) : quietPc s.procDict (mAddFuel n s).mpc := by
  induction n generalizing s with
  | zero => exact ⟨rfl, fun _ => rfl, fun sn h => by simp [mAddFuel] at h; exact h.symm, fun q hq => by simp [mAddFuel, poppedPc] at hq⟩
  | succ n ih =>
    unfold mAddFuel
    split
    · exact ⟨rfl, fun _ => rfl, fun sn h => by simp at h; exact h.symm, fun q hq => by simp [poppedPc] at hq⟩
    · split
      · exact ⟨rfl, fun _ => rfl, fun sn h => by simp at h; exact h.symm, fun q hq => by simp [poppedPc] at hq⟩
      · split
        · have := ih { s with workIds := ‹List Wid›, pending := s.pending.erase ‹Wid› }
          simpa using this
        · exact quiet_of_simple (by simp [setFut, brokenPath]) (by simp [setFut, mHolds]) (by simp [setFut])
theorem quiet_mAdd (s : St) : quietPc s.procDict (mAdd s).mpc := quiet_mAddFuel _ s
theorem quiet_mAddF (s : St) : quietPc s.procDict (mAddF s).mpc := by
  rcases mAddF_mpc s with ⟨i, _, e⟩ | ⟨_, e, _⟩ | ⟨_, e, _⟩ <;> rw [e]
  · exact quiet_of_simple rfl (fun _ => rfl) (by simp)
  · exact ⟨rfl, fun _ => rfl, fun sn h => by simp at h; exact h.symm, fun q hq => by simp [poppedPc] at hq⟩
  · exact quiet_of_simple rfl (fun _ => rfl) (by simp)
theorem quiet_mAfterItem (s : St) : quietPc s.procDict (mAfterItem s).mpc := by
  unfold mAfterItem; split
  · exact quiet_of_simple rfl (fun _ => rfl) (by simp)
  · exact quiet_mAdd s
theorem quiet_mDropRef (s : St) : quietPc s.procDict (mDropRef s).mpc := by
  unfold mDropRef; simp only []; split
  · exact quiet_of_simple rfl (fun _ => rfl) (by simp)
  · exact quiet_mAfterItem _
theorem quiet_mRespawnCheck (s : St) : quietPc s.procDict (mRespawnCheck s).mpc := by
  unfold mRespawnCheck; simp only []
  (repeat' split) <;> first | exact quiet_mAfterItem _ | exact quiet_of_simple rfl (fun _ => rfl) (by simp)
theorem quiet_mJoinStart (s : St) : quietPc s.procDict (mJoinStart s).mpc :=
  quiet_of_simple rfl (fun _ => rfl) (by simp [mJoinStart])
theorem last_not_in_dropLast {l : List Pid} {p : Pid} (h : l.getLast? = some p) (hn : l.Nodup) :
    p ∉ l.dropLast := by
  have hne : l ≠ [] := by intro h0; simp [h0] at h
  have hgl : l.getLast hne = p := by
    have := List.getLast?_eq_some_getLast hne; rw [h] at this; injection this with this; exact this.symm
  have hsplit : l.dropLast ++ [p] = l := by rw [← hgl]; exact List.dropLast_concat_getLast hne
  rw [← hsplit] at hn
  intro hin
  have := (List.nodup_append.1 hn).2.2 p hin p (by simp)
  exact this rfl

theorem quiet_mKillNext (s : St) (hn : s.procDict.Nodup) :
    quietPc (mKillNext s).procDict (mKillNext s).mpc s.procDict := by
  unfold mKillNext; split
  · rename_i p hp
    refine ⟨rfl, fun _ => rfl, fun sn h => by simp at h, ?_⟩
    intro q hq
    simp [poppedPc] at hq; subst hq
    exact ⟨last_not_in_dropLast hp hn, List.mem_of_getLast? hp⟩
  · exact quiet_of_simple rfl (fun _ => rfl) (by simp [mJoinStart])
theorem quiet_mAfterFlag (s : St) (hn : s.procDict.Nodup) :
    quietPc (mAfterFlag s).procDict (mAfterFlag s).mpc s.procDict := by
  by_cases hk : s.killFlag = true
  · have h0 : mAfterFlag s = mKillNext (failAll { s with pending := [] } s.pending .excShutdown) := by
      unfold mAfterFlag; simp [hk]
    rw [h0]
    have := quiet_mKillNext (failAll { s with pending := [] } s.pending .excShutdown) (by simpa using hn)
    simpa using this
  · by_cases hp : s.pending = []
    · have h0 : mAfterFlag s = mJoinStart s := by unfold mAfterFlag; simp [hk, hp]
      rw [h0]; exact quiet_of_simple rfl (fun _ => rfl) (by simp [mJoinStart])
    · have h0 : mAfterFlag s = mAddF s := by unfold mAfterFlag; simp [hk, hp]
      rw [h0]
      obtain ⟨h1, h2, h3, h4⟩ := quiet_mAddF s
      exact ⟨h1, h2, by simpa using h3, fun q hq => ⟨by simpa using (h4 q hq).1, (h4 q hq).2⟩⟩
theorem quiet_mSpawnLoop (s : St) : quietPc s.procDict (mSpawnLoop s).mpc := by
  unfold mSpawnLoop; split <;> exact quiet_of_simple rfl (fun _ => rfl) (by simp)
theorem quiet_mJoinProcs (s : St) (hn : s.procDict.Nodup) :
    quietPc (mJoinProcs s).procDict (mJoinProcs s).mpc s.procDict := by
  unfold mJoinProcs; split
  · rename_i p hp
    refine ⟨rfl, fun _ => rfl, fun sn h => by simp at h, ?_⟩
    intro q hq
    simp [poppedPc] at hq; subst hq
    exact ⟨last_not_in_dropLast hp hn, List.mem_of_getLast? hp⟩
  · exact quiet_of_simple rfl (fun _ => rfl) (by simp)
theorem quiet_mJoinClose (s : St) : quietPc s.procDict (mJoinClose s).mpc :=
  quiet_of_simple rfl (fun _ => rfl) (by simp [mJoinClose])
theorem quiet_mJoinLoop (s : St) (n sent cool) : quietPc s.procDict (mJoinLoop s n sent cool).mpc := by
  unfold mJoinLoop; split
  · exact quiet_of_simple rfl (fun _ => rfl) (by simp)
  · exact quiet_mJoinClose s
theorem quiet_mRelExitNext (s : St) (ps n) : quietPc s.procDict (mRelExitNext s ps n).mpc := by
  unfold mRelExitNext; split <;> exact quiet_of_simple rfl (fun _ => rfl) (by simp)
theorem quiet_mAliveNext (s : St) (ps cnt n sent cool) : quietPc s.procDict (mAliveNext s ps cnt n sent cool).mpc := by
  unfold mAliveNext; split <;> exact quiet_of_simple rfl (fun _ => rfl) (by simp)
theorem quiet_mAfterPut (s : St) (k n sent cool) : quietPc s.procDict (mAfterPut s k n sent cool).mpc := by
  unfold mAfterPut; split
  · exact quiet_mJoinLoop _ _ _ _
  · exact quiet_of_simple rfl (fun _ => rfl) (by simp)

/-- a manager step that moves its program counter to a quiet one and possibly un-registers workers -/
theorem nb_shrink_quiet (s s' : St) (h : NBInv s) (hw : s'.w = s.w) (hrq : s'.rqPipe = s.rqPipe)
    (hsub : ∀ q ∈ s'.procDict, q ∈ s.procDict) (hnd' : s'.procDict.Nodup) (hnp : s'.nextPid = s.nextPid)
    (hbr : s'.broken = s.broken) (hq : quietPc s'.procDict s'.mpc s.procDict)
    (hold : ∀ q, mHolds s.mpc q = false ∨ q ∉ s'.procDict) : NBInv s' := by
  obtain ⟨hnb, hmp, hann, hgood, hpipe, hsnap, hfresh, hnd, hkp⟩ := h
  refine ⟨by rw [hbr]; exact hnb, hq.1, ?_, by rw [hw]; exact hgood, by rw [hrq]; exact hpipe, ?_, ?_, hnd', ?_⟩
  · intro q hqd hl
    rw [hw] at hl
    rcases hann q (hsub q hqd) hl with h1 | h1
    · exact Or.inl (by rw [hrq]; exact h1)
    · rcases hold q with h2 | h2
      · rw [h2] at h1; cases h1
      · exact absurd hqd h2
  · intro sn hsn q hq'
    rw [hq.2.2.1 sn hsn] at hq'; exact hq'
  · intro q hq'; rw [hnp]; exact hfresh q (hsub q hq')
  · intro q hq'
    have := hq.2.2.2 q hq'
    exact ⟨this.1, by rw [hnp]; exact hfresh q this.2⟩

theorem nb_mpc_quiet (s s' : St) (h : NBInv s) (hw : s'.w = s.w) (hrq : s'.rqPipe = s.rqPipe)
    (hpd : s'.procDict = s.procDict) (hnp : s'.nextPid = s.nextPid) (hbr : s'.broken = s.broken)
    (hq : quietPc s.procDict s'.mpc) (hold : ∀ q, mHolds s.mpc q = false ∨ q ∉ s.procDict) : NBInv s' := by
  apply nb_shrink_quiet s s' h hw hrq (by rw [hpd]; exact fun q hq => hq) (by rw [hpd]; exact h.nd) hnp hbr
  · rw [hpd]; exact hq
  · rw [hpd]; exact hold

end LokyModel.Exec
