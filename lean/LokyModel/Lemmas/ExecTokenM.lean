import LokyModel.Lemmas.ExecTokenF
namespace LokyModel.Exec

/-! continuations of the manager that only choose its next program counter: none of them holds a work id -/

@[simp, tokpc] theorem mPreC_mJoinStart (s : St) (i : Wid) : mPreC i (mJoinStart s).mpc = 0 := rfl
@[simp, tokpc] theorem mPostC_mJoinStart (s : St) (i : Wid) : mPostC i (mJoinStart s).mpc = 0 := rfl
@[simp, tokpc] theorem mPreC_mKillNext (s : St) (i : Wid) : mPreC i (mKillNext s).mpc = 0 := by
  unfold mKillNext; split <;> rfl
@[simp, tokpc] theorem mPostC_mKillNext (s : St) (i : Wid) : mPostC i (mKillNext s).mpc = 0 := by
  unfold mKillNext; split <;> rfl
@[simp, tokpc] theorem mPreC_mSpawnLoop (s : St) (i : Wid) : mPreC i (mSpawnLoop s).mpc = 0 := by
  unfold mSpawnLoop; split <;> rfl
@[simp, tokpc] theorem mPostC_mSpawnLoop (s : St) (i : Wid) : mPostC i (mSpawnLoop s).mpc = 0 := by
  unfold mSpawnLoop; split <;> rfl
@[simp, tokpc] theorem mPreC_mJoinProcs (s : St) (i : Wid) : mPreC i (mJoinProcs s).mpc = 0 := by
  unfold mJoinProcs; split <;> rfl
@[simp, tokpc] theorem mPostC_mJoinProcs (s : St) (i : Wid) : mPostC i (mJoinProcs s).mpc = 0 := by
  unfold mJoinProcs; split <;> rfl
@[simp, tokpc] theorem mPreC_mJoinClose (s : St) (i : Wid) : mPreC i (mJoinClose s).mpc = 0 := rfl
@[simp, tokpc] theorem mPostC_mJoinClose (s : St) (i : Wid) : mPostC i (mJoinClose s).mpc = 0 := rfl
@[simp, tokpc] theorem cqBuf_mJoinClose (s : St) (i : Wid) : sumC (cmsgC i) (mJoinClose s).cqBuf = sumC (cmsgC i) s.cqBuf := by
  unfold mJoinClose; simp only []; split <;> simp [cmsgC]
@[simp, tokpc] theorem mPreC_mJoinLoop (s : St) (n sent cool : Nat) (i : Wid) : mPreC i (mJoinLoop s n sent cool).mpc = 0 := by
  unfold mJoinLoop; split <;> first | rfl | exact mPreC_mJoinClose _ _
@[simp, tokpc] theorem mPostC_mJoinLoop (s : St) (n sent cool : Nat) (i : Wid) : mPostC i (mJoinLoop s n sent cool).mpc = 0 := by
  unfold mJoinLoop; split <;> first | rfl | exact mPostC_mJoinClose _ _
@[simp, tokpc] theorem cqBuf_mJoinLoop (s : St) (n sent cool : Nat) (i : Wid) :
    sumC (cmsgC i) (mJoinLoop s n sent cool).cqBuf = sumC (cmsgC i) s.cqBuf := by
  unfold mJoinLoop; split <;> simp
@[simp, tokpc] theorem mPreC_mRelExitNext (s : St) (ps : List Pid) (n : Nat) (i : Wid) : mPreC i (mRelExitNext s ps n).mpc = 0 := by
  unfold mRelExitNext; split <;> rfl
@[simp, tokpc] theorem mPostC_mRelExitNext (s : St) (ps : List Pid) (n : Nat) (i : Wid) : mPostC i (mRelExitNext s ps n).mpc = 0 := by
  unfold mRelExitNext; split <;> rfl
@[simp, tokpc] theorem mPreC_mAliveNext (s : St) (ps : List Pid) (c n sent cool : Nat) (i : Wid) :
    mPreC i (mAliveNext s ps c n sent cool).mpc = 0 := by
  unfold mAliveNext; split <;> rfl
@[simp, tokpc] theorem mPostC_mAliveNext (s : St) (ps : List Pid) (c n sent cool : Nat) (i : Wid) :
    mPostC i (mAliveNext s ps c n sent cool).mpc = 0 := by
  unfold mAliveNext; split <;> rfl
@[simp, tokpc] theorem mPreC_mAfterPut (s : St) (k n sent cool : Nat) (i : Wid) : mPreC i (mAfterPut s k n sent cool).mpc = 0 := by
  unfold mAfterPut; split <;> first | rfl | exact mPreC_mJoinLoop _ _ _ _ _
@[simp, tokpc] theorem mPostC_mAfterPut (s : St) (k n sent cool : Nat) (i : Wid) : mPostC i (mAfterPut s k n sent cool).mpc = 0 := by
  unfold mAfterPut; split <;> first | rfl | exact mPostC_mJoinLoop _ _ _ _ _
@[simp, tokpc] theorem cqBuf_mAfterPut (s : St) (k n sent cool : Nat) (i : Wid) :
    sumC (cmsgC i) (mAfterPut s k n sent cool).cqBuf = sumC (cmsgC i) s.cqBuf := by
  unfold mAfterPut; split <;> simp

@[simp, tokpc] theorem mPostC_clrRecv (k : AfterClear) (i : Wid) : mPostC i (.clrRecv k) = mPostC i (.clrPoll k) := by
  cases k with
  | item r => cases r <;> rfl
  | broken b => rfl
@[simp, tokpc] theorem mPreC_clrRecv (k : AfterClear) (i : Wid) : mPreC i (.clrRecv k) = 0 := rfl
@[simp, tokpc] theorem mPreC_clrPoll (k : AfterClear) (i : Wid) : mPreC i (.clrPoll k) = 0 := rfl

theorem count_cons' (i j : Wid) (l : List Wid) : (i :: l).count j = l.count j + ind i j := by
  simp [List.count_cons, ind]

/-- a work id in the work-id queue is a submitted one -/
theorem lt_of_mem_workIds (s : St) (h : TokInv s) (i : Wid) (hi : 0 < s.workIds.count i) : i < s.futs.length := by
  apply Decidable.byContradiction
  intro hn
  have := h.fresh i (Nat.le_of_not_lt hn)
  omega

/-- `add_call_item_to_queue`: cancelled ids are dropped, the first live one goes into the manager's hands -/
theorem tok_mAddFuel (n : Nat) : ∀ X : St, TokInv { X with mpc := .none } → TokInv (mAddFuel n X) := by
  induction n with
  | zero => intro X h; unfold mAddFuel; tok_simple _, h
  | succ n ih =>
    intro X h
    unfold mAddFuel
    split
    · tok_simple _, h
    · split
      · tok_simple _, h
      · rename_i i rest hwk
        split
        · refine ih _ ?_
          refine tok_move _ _ h ?_ (Or.inl ?_) ?_ ?_ ?_ ?_ ?_
          · simp
          · simp
          · intro j; simp [hwk, count_cons']
          · intro j; simp [hwk, count_cons', nw, mPreC]
          · intro j; simp [pnw, mPostC]
          · intro j; left; simp [futOf]
          · intro j _; simp [nw, mPreC]
        · rename_i hc
          have hlt : i < X.futs.length := by
            have := lt_of_mem_workIds _ h i (by simp [hwk, count_cons', ind])
            simpa using this
          have hnc : futOf X i ≠ .cancelled := by simpa using hc
          have key : ∀ s1 : St, s1.futs = (setFut X i .running).futs → ∀ j,
              (futOf s1 j = futOf X j ∨ (futOf s1 j ≠ .pending ∧ futOf s1 j ≠ .cancelled ∧ futOf X j ≠ .cancelled)) ∧
              ((futOf s1 j = .pending ∨ futOf s1 j = .cancelled) → j ≠ i) := by
            intro s1 h1 j
            have e1 : futOf s1 j = futOf (setFut X i .running) j := by simp [futOf, h1]
            rw [e1, futOf_setFut]
            by_cases hj : j = i ∧ i < X.futs.length
            · rw [if_pos hj, hj.1]; exact ⟨Or.inr ⟨by simp, by simp, hnc⟩, by simp⟩
            · rw [if_neg hj]; exact ⟨Or.inl rfl, fun _ hji => hj ⟨hji, hlt⟩⟩
          refine tok_move _ _ h ?_ (Or.inl ?_) ?_ ?_ ?_ ?_ ?_
          · simp
          · simp
          · intro j; simp [hwk, count_cons']
          · intro j; simp [hwk, count_cons', nw, mPreC]; omega
          · intro j; simp [pnw, mPostC]
          · intro j; exact (key _ rfl j).1
          · intro j hj
            have hji := (key _ rfl j).2 hj
            have : ind i j = 0 := by simp [ind, Ne.symm hji]
            simp [nw, mPreC, this]

theorem tok_mAdd (X : St) (h : TokInv { X with mpc := .none }) : TokInv (mAdd X) := tok_mAddFuel _ X h

theorem tok_mAfterItem (X : St) (h : TokInv { X with mpc := .none }) : TokInv (mAfterItem X) := by
  unfold mAfterItem
  split
  · tok_simple _, h
  · exact tok_mAdd X h

theorem tok_mDropRef (X : St) (h : TokInv { X with mpc := .none }) : TokInv (mDropRef X) := by
  unfold mDropRef
  simp only []
  split
  · tok_simple _, h
  · refine tok_mAfterItem _ ?_; tok_simple _, h

theorem tok_mRespawnCheck (X : St) (h : TokInv { X with mpc := .none }) : TokInv (mRespawnCheck X) := by
  unfold mRespawnCheck
  simp only []
  split
  · split
    · tok_simple _, h
    · exact tok_mAfterItem X h
  · exact tok_mAfterItem X h

/-- failing a list of futures (cancelled ones are skipped) moves no token -/
theorem tok_failAll (s X : St) (ws : List Wid) (f : Fut) (hf1 : f ≠ .pending) (hf2 : f ≠ .cancelled)
    (h : TokInv s)
    (hfr : X.allPids = s.allPids ∧ X.nextPid = s.nextPid ∧ X.queueCount = s.queueCount ∧
           X.futs = s.futs ∧ X.cancelOk = s.cancelOk ∧ X.execW = s.execW ∧ X.w = s.w ∧ X.workIds = s.workIds ∧
           X.cqBuf = s.cqBuf ∧ X.fpc = s.fpc ∧ X.cqPipe = s.cqPipe ∧ X.rqPipe = s.rqPipe)
    (hpc : ∀ i, mPreC i X.mpc ≤ mPreC i s.mpc ∧ mPostC i X.mpc ≤ mPostC i s.mpc) :
    TokInv (failAll X ws f) := by
  obtain ⟨f1, f2, f3, f4, f5, f6, f7, f8, f9, f10, f11, f12⟩ := hfr
  have hfo : ∀ i, futOf X i = futOf s i := by intro i; simp [futOf, f4]
  refine tok_move s _ h ?_ (Or.inl ?_) ?_ ?_ ?_ ?_ ?_
  · simp [*]
  · simp [*]
  · intro i; simp [*]
  · intro i; have := (hpc i).1; simp [nw, *]
  · intro i; have := (hpc i).2; simp [pnw, *]
  · intro i
    rw [futOf_failAll _ _ _ hf2]
    split
    · rename_i hi; right; exact ⟨hf1, hf2, by rw [← hfo]; exact hi.2.2⟩
    · left; exact hfo i
  · intro i _; have := (hpc i).1; simp [nw, *]

/-- `TokInv` only reads the token-carrying fields; the manager's program counter may drop what it holds -/
theorem tok_congr (a b : St) (h : TokInv a)
    (hfr : b.allPids = a.allPids ∧ b.nextPid = a.nextPid ∧ b.queueCount = a.queueCount ∧
           b.futs = a.futs ∧ b.cancelOk = a.cancelOk ∧ b.execW = a.execW ∧ b.w = a.w ∧ b.workIds = a.workIds ∧
           b.cqBuf = a.cqBuf ∧ b.fpc = a.fpc ∧ b.cqPipe = a.cqPipe ∧ b.rqPipe = a.rqPipe)
    (hpc : ∀ i, mPreC i b.mpc ≤ mPreC i a.mpc ∧ mPostC i b.mpc ≤ mPostC i a.mpc) : TokInv b := by
  obtain ⟨f1, f2, f3, f4, f5, f6, f7, f8, f9, f10, f11, f12⟩ := hfr
  refine tok_move a _ h ?_ (Or.inl ?_) ?_ ?_ ?_ ?_ ?_
  · simp [*]
  · simp [*]
  · intro i; simp [*]
  · intro i; have := (hpc i).1; simp [nw, *]
  · intro i; have := (hpc i).2; simp [pnw, *]
  · intro i; left; simp [futOf, *]
  · intro i _; have := (hpc i).1; simp [nw, *]

/-- the end of the pass made after flagging only relabels the program counter: the work id in the manager's
    hands at `addAcq i` is the one in its hands at `addAcqF i`; `wait` and `jAcq1` hold none -/
theorem tok_mAfterAddF (Y : St) (h : TokInv Y) : TokInv (mAfterAddF Y) := by
  unfold mAfterAddF
  split
  · rename_i i hpc
    refine tok_congr Y _ h (by simp) ?_
    intro j; rw [hpc]; simp [mPreC, mPostC]
  · split
    · refine tok_congr Y _ h (by simp) ?_
      intro j; simp
    · exact h
  · exact h

theorem tok_mAddF (X : St) (h : TokInv { X with mpc := .none }) : TokInv (mAddF X) :=
  tok_mAfterAddF _ (tok_mAdd X h)

theorem tok_mAfterFlag (X : St) (h : TokInv { X with mpc := .none }) : TokInv (mAfterFlag X) := by
  unfold mAfterFlag
  split
  · have h1 : TokInv (failAll { X with pending := [], mpc := .none } X.pending .excShutdown) :=
      tok_failAll _ _ _ _ (by simp) (by simp) h (by simp) (by intro i; simp)
    refine tok_congr _ _ h1 ?_ ?_
    · simp [failAll]
    · intro i; simp
  · split
    · tok_simple _, h
    · exact tok_mAddF X h

/-- a result message in the manager's hands means the future was dispatched -/
theorem fut_of_mpc (s : St) (h : TokInv s) (w : Wid) (hw : mPostC w s.mpc = 1) :
    futOf s w ≠ .pending ∧ futOf s w ≠ .cancelled := by
  have := h.undisp w
  constructor <;> intro hc <;> (have := this (by simp [hc])) <;> simp [post] at this <;> omega

theorem tok_mProcess (s : St) (r : Option RMsg) (h : TokInv s) (hpc : s.mpc = .clrPoll (.item r)) :
    TokInv (mProcess s r) := by
  have h0 : TokInv { s with mpc := .none } := by tok_simple s, h
  unfold mProcess
  split
  · exact tok_mAfterItem s h0
  · exact tok_mAfterItem s h0
  · rename_i i isExc bad
    split
    · obtain ⟨n1, n2⟩ := fut_of_mpc s h i (by simp [hpc, mPostC, rmsgC, ind])
      refine tok_mAfterItem _ ?_
      have key : ∀ (f : Fut), f ≠ .pending → f ≠ .cancelled → ∀ s1 : St, s1.futs = (setFut s i f).futs → ∀ j,
          (futOf s1 j = futOf s j ∨ (futOf s1 j ≠ .pending ∧ futOf s1 j ≠ .cancelled ∧ futOf s j ≠ .cancelled)) := by
        intro f hf1 hf2 s1 h1 j
        have e1 : futOf s1 j = futOf (setFut s i f) j := by simp [futOf, h1]
        rw [e1, futOf_setFut]
        by_cases hj : j = i ∧ i < s.futs.length
        · rw [if_pos hj, hj.1]; exact Or.inr ⟨hf1, hf2, n2⟩
        · rw [if_neg hj]; exact Or.inl rfl
      refine tok_move s _ h ?_ (Or.inl ?_) ?_ ?_ ?_ ?_ ?_
      · simp
      · simp
      · intro j; simp
      · intro j; simp [nw, mPreC]
      · intro j; simp [pnw, mPostC]
      · intro j; exact key _ (by split <;> simp) (by split <;> simp) _ rfl j
      · intro j _; simp [nw, mPreC]
    · exact tok_mAfterItem s h0
  · tok_simple s, h

theorem tok_spawn (s : St) (h : TokInv s) : TokInv (spawn s) := by
  have hnp : s.nextPid ∉ s.allPids := fun hm => Nat.lt_irrefl _ (h.pids_lt _ hm)
  have e : ∀ (g : WPc → Nat), g .start = 0 →
      sumC (fun q => g ((spawn s).w q)) (spawn s).allPids = sumC (fun q => g (s.w q)) s.allPids := by
    intro g hg
    simp only [spawn, sumC_append, sumC_cons, sumC_nil]
    rw [sumC_upd_notin g s.w s.nextPid .start s.allPids hnp]
    simp [upd, hg]
  have e1 : ∀ i, preOut (spawn s) i = preOut s i := by
    intro i; simp only [preOut, e (wPreC i) rfl]; simp [spawn]
  have e2 : ∀ i, post (spawn s) i = post s i := by
    intro i; simp only [post, e (wPostC i) rfl]; simp [spawn]
  have e3 : ∀ i, futOf (spawn s) i = futOf s i := by intro i; simp [futOf, spawn]
  constructor
  · simp only [spawn]; exact List.nodup_append.mpr ⟨h.pids_nodup, by simp, by
      intro a ha b hb; simp at hb; subst hb; exact fun e => hnp (e ▸ ha)⟩
  · intro p hp
    simp only [spawn, List.mem_append, List.mem_singleton] at hp ⊢
    rcases hp with hp | rfl
    · exact Nat.lt_succ_of_lt (h.pids_lt p hp)
    · exact Nat.lt_succ_self _
  · simpa [spawn] using h.len
  · simpa [spawn] using h.fresh
  · intro i; rw [e1]; simpa [spawn] using h.once i
  · intro i; rw [e2]; simpa [spawn] using h.postle i
  · intro i hi; rw [e3] at hi; rw [e1, e2]; simpa [spawn] using h.undisp i hi
  · intro i hi; rw [e3]; exact h.cancelled i (by simpa [spawn] using hi)

theorem tok_brkRel (s : St) (h : TokInv s) (f : Fut) (hf1 : f ≠ .pending) (hf2 : f ≠ .cancelled) (x : Nat) (o : Option Actor) :
    TokInv (mKillNext (failAll { s with shut := x, oShut := o, pending := [] } s.pending f)) := by
  have h1 : TokInv (failAll { s with shut := x, oShut := o, pending := [] } s.pending f) :=
    tok_failAll s _ _ _ hf1 hf2 h (by simp) (by intro i; simp)
  refine tok_congr _ _ h1 ?_ ?_
  · simp
  · intro i; simp

theorem tok_die (s X : St) (h : TokInv s) (p : Pid) (c : Int)
    (hfr : X.allPids = s.allPids ∧ X.nextPid = s.nextPid ∧ X.queueCount = s.queueCount ∧
           X.futs = s.futs ∧ X.cancelOk = s.cancelOk ∧ X.execW = s.execW ∧ X.w = s.w ∧ X.workIds = s.workIds ∧
           X.cqBuf = s.cqBuf ∧ X.fpc = s.fpc ∧ X.cqPipe = s.cqPipe ∧ X.rqPipe = s.rqPipe)
    (hpc : ∀ i, mPreC i X.mpc ≤ mPreC i s.mpc ∧ mPostC i X.mpc ≤ mPostC i s.mpc) : TokInv (die X p c) := by
  obtain ⟨f1, f2, f3, f4, f5, f6, f7, f8, f9, f10, f11, f12⟩ := hfr
  refine tok_move s _ h ?_ (Or.inr ⟨p, ?_⟩) ?_ ?_ ?_ ?_ ?_
  · simp [*]
  · simp [die, *]
  · intro i; simp [*]
  · intro i; have := (hpc i).1; simp [nw, *]
  · intro i; have := (hpc i).2; simp [pnw, *]
  · intro i; left; simp [futOf, *]
  · intro i _; have := (hpc i).1; simp [nw, *]

end LokyModel.Exec
