import LokyModel.Lemmas.ExecLiveCrashStatic
import LokyModel.Lemmas.ExecLiveCrashHolder
import LokyModel.Lemmas.ExecLiveCrashJoin
import LokyModel.Lemmas.ExecLiveCrashKill
import LokyModel.Lemmas.ExecLiveStuckCrash
import LokyModel.Lemmas.ExecLiveAll
import LokyModel.Lemmas.ExecLiveWatchOk
import LokyModel.Lemmas.ExecLiveDynOk
import LokyModel.Lemmas.ExecLiveCrashDead
/-!
# Assembly: static pools whose workers may die at any point at which they hold no kernel lock are never stuck

The crash-aware ingredients (`staticC`, `smallOk`: `ExecLiveCrashStatic.lean`; `holderC`: `ExecLiveCrashHolder.lean`;
`joinC`: `ExecLiveCrashJoin.lean`; `killedC`: `ExecLiveCrashKill.lean`) hold in every state of a lock-free crash run
(`ReachableLF`) of a static pool.  A quiescent state of such a run is a good one:

* nobody has died: the run is a crash-free run (`reachableNC_of_noDead`, `ExecLiveCrashDead.lean`: a death is never
  undone), and `stuck_good` applies with the ingredients of `ExecLiveAll.lean`;
* somebody has died: `stuck_good_crash`.
-/
namespace LokyModel.Exec
open StaticP StaticCP

/-! ### the ingredients along `ReachableLF` -/

theorem holderC'_reachableLF {cfg : Cfg} (hc : cfg.staticPool = true) {s : St} (h : ReachableLF cfg s) :
    holderC' s = true := by
  induction h with
  | init => exact holderC'_init cfg hc
  | step hr hv hs ih =>
    have r := hr.reachable
    exact holderC'_stepLF hs (.inl hv) (by rw [cfg_reachable r]; exact hc) (pidsInv_reachable r)
      (staticC_reachableLF hc hr) ih
  | crash hr hl hs ih =>
    have r := hr.reachable
    exact holderC'_stepLF hs (.inr ⟨_, rfl, hl⟩) (by rw [cfg_reachable r]; exact hc) (pidsInv_reachable r)
      (staticC_reachableLF hc hr) ih

theorem holderC_reachableLF {cfg : Cfg} (hc : cfg.staticPool = true) {s : St} (h : ReachableLF cfg s) :
    holderC s = true := holderC_of' s (holderC'_reachableLF hc h)

theorem killedC_reachableLF {cfg : Cfg} (hc : cfg.staticPool = true) {s : St} (h : ReachableLF cfg s) :
    killedC s = true := by
  induction h with
  | init => exact killedC_init cfg hc
  | step hr hv hs ih =>
    have r := hr.reachable
    exact killedC_stepLF hs (.inl hv) (by rw [cfg_reachable r]; exact hc) (shutInv_reachable r)
      (staticC_reachableLF hc hr) ih
  | crash hr hl hs ih =>
    have r := hr.reachable
    exact killedC_stepLF hs (.inr ⟨_, rfl, hl⟩) (by rw [cfg_reachable r]; exact hc) (shutInv_reachable r)
      (staticC_reachableLF hc hr) ih

theorem joinC_reachableLF {cfg : Cfg} (hc : cfg.staticPool = true) {s : St} (h : ReachableLF cfg s) :
    joinC s = true :=
  joinC_of' s (joinC'_reachableLF hc (fun _ hr => staticC_reachableLF hc hr) h)

theorem addSlotOk_reachable {cfg : Cfg} {s : St} (h : Reachable cfg s) : addSlotOk s = true := by
  induction h with
  | init => exact addSlotOk_init cfg
  | step _ hs ih => exact addSlotOk_step hs ih

/-! ### quiescent ⇒ good -/

/-- the crash-free theorem from its ingredients (as `C01_static_pool_no_deadlock` in `Props/C01Live.lean`) -/
theorem stuck_good_NC (cfg : Cfg) (hc : cfg.staticPool = true) (s : St) (h : ReachableNC cfg s)
    (hq : enabledNC s = []) : good s = true := by
  have hr := h.reachable
  have L := liveInv_reachableNC hc h
  have hcfg := cfg_reachable hr
  have hmw : 0 < s.cfg.maxWorkers := by
    rw [hcfg]
    unfold Cfg.staticPool at hc
    simp only [Bool.and_eq_true, decide_eq_true_eq] at hc
    exact hc.1.1.2
  refine stuck_good s (pidsInv_reachable hr) (flagInv_reachable hr) (slotOk_of_slotOk' s L.slot)
    (holderOk_of_ok'' L.holder) (staticOk_of_inv L.static) (wakeOk_of_wakeOk' s L.wake) (consOk_of_consOk' s L.cons)
    (joinOk_of_joinOk' s L.join) ?_ ?_ hmw hq
  · intro i hi hd
    apply Decidable.byContradiction
    intro hm
    have := (futInv_reachable hr).resolved i hi hm
    rw [hd] at this; cases this
  · intro k hk
    exact (shutInv_reachable hr).acc k (by simp [accU, hk])

/-- **static pools, worker deaths at lock-free points included: a quiescent state is a good one** -/
theorem stuck_good_LF (cfg : Cfg) (hc : cfg.staticPool = true) (s : St) (h : ReachableLF cfg s)
    (hq : enabledNC s = []) : good s = true := by
  cases hd : anyDead s with
  | false => exact stuck_good_NC cfg hc s (reachableNC_of_noDead h hd) hq
  | true =>
    have hr := h.reachable
    refine stuck_good_crash s (pidsInv_reachable hr) hd (staticC_reachableLF hc h) (smallOk_reachableLF hc h)
      (holderC_reachableLF hc h) (joinC_reachableLF hc h) (watchOk_reachable hr) (addSlotOk_reachable hr) ?_ ?_ ?_
      (killedC_hkd s (killedC_reachableLF hc h)) hq
    · intro i hi hdn
      apply Decidable.byContradiction
      intro hm
      have := (futInv_reachable hr).resolved i hi hm
      rw [hdn] at this; cases this
    · intro k hk
      exact (shutInv_reachable hr).acc k (by simp [accU, hk])
    · intro he
      refine termInv_reachable hr ?_
      unfold mEnded at he
      cases hm : s.mpc <;> simp only [hm] at he <;> first | rfl | cases he

end LokyModel.Exec
