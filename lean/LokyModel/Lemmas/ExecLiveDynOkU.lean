import LokyModel.Lemmas.ExecLiveDynOkBase
import LokyModel.Lemmas.ExecLiveStaticU
/-! `dynOk'`: steps of a user thread. -/
namespace LokyModel.Exec.DynP
open StaticP
set_option linter.unusedSimpArgs false

/-- program counters at which the invariant says nothing special about the thread -/
def uNeutralD (u : UPc) : Bool :=
  uRef u == 0 && u != .subTStart && !peLike u && !isSdKill u && !subEarly u

theorem uNeutralD_parts (u : UPc) (h : uNeutralD u = true) :
    uRef u = 0 ∧ u ≠ .subTStart ∧ peLike u = false ∧ isSdKill u = false ∧ subEarly u = false := by
  simpa [uNeutralD, and_assoc] using h

/-- the `create` operations thread `k` still has in front of it -/
def crU (s : St) (k : Nat) : Nat := crS (s.uscript k) + crO (s.ucur k)

theorem uNext_selfD (s : St) (k : Nat) (hs : ∀ op ∈ s.uscript k, opOkD op = true) :
    (∀ op ∈ (uNext s k).uscript k, opOkD op = true) ∧ ucurOkD ((uNext s k).ucur k) = true := by
  unfold uNext; split
  · rename_i op rest e
    rw [e] at hs
    simp [setU, upd, ucurOkD]
    exact ⟨fun x hx => hs x (List.mem_cons_of_mem _ hx), hs op (by simp)⟩
  · rename_i e
    simp [setU, upd, ucurOkD, e]

theorem uRelease_selfD (s : St) (k : Nat) (hs : ∀ op ∈ s.uscript k, opOkD op = true) (hc : ucurOkD (s.ucur k) = true) :
    (∀ op ∈ (uRelease s k).uscript k, opOkD op = true) ∧ ucurOkD ((uRelease s k).ucur k) = true := by
  unfold uRelease; simp only []; split
  · simp [setU, upd]
    exact ⟨hs, hc⟩
  · exact uNext_selfD _ k hs

theorem uNext_pcD (s : St) (k : Nat) :
    uNeutralD ((uNext s k).upc k) = true ∧ ((uNext s k).upc k = .api → ((uNext s k).ucur k).isSome = true) := by
  unfold uNext; split <;> simp [setU, upd, uNeutralD, uRef, peLike, isSdKill, subEarly]

theorem uRelease_pcD (s : St) (k : Nat) :
    uNeutralD ((uRelease s k).upc k) = true ∧ ((uRelease s k).upc k = .api → ((uRelease s k).ucur k).isSome = true) := by
  unfold uRelease; simp only []; split
  · simp [setU, upd, uNeutralD, uRef, peLike, isSdKill, subEarly]
  · exact uNext_pcD _ k

theorem uNext_sfD (s : St) (k : Nat) :
    uRef ((uNext s k).upc k) = 0 ∧ (uNext s k).upc k ≠ .subTStart ∧
    peLike ((uNext s k).upc k) = false ∧ isSdKill ((uNext s k).upc k) = false ∧ subEarly ((uNext s k).upc k) = false :=
  uNeutralD_parts _ (uNext_pcD s k).1

theorem uRelease_sfD (s : St) (k : Nat) :
    uRef ((uRelease s k).upc k) = 0 ∧ (uRelease s k).upc k ≠ .subTStart ∧
    peLike ((uRelease s k).upc k) = false ∧ isSdKill ((uRelease s k).upc k) = false ∧
    subEarly ((uRelease s k).upc k) = false :=
  uNeutralD_parts _ (uRelease_pcD s k).1

theorem uRelease_refs (s : St) (k : Nat) : (uRelease s k).refs = s.refs - 1 := by
  unfold uRelease; simp only []; split <;> simp

theorem uNext_crU (s : St) (k : Nat) : crU (uNext s k) k ≤ crU s k := by
  unfold uNext crU; split
  · rename_i op rest e
    simp [setU, upd, e, crS, crO]
    omega
  · rename_i e
    simp [setU, upd, e, crS, crO]

theorem uRelease_crU (s : St) (k : Nat) : crU (uRelease s k) k ≤ crU s k := by
  unfold uRelease; simp only []; split
  · simp [crU, setU]
  · exact Nat.le_trans (uNext_crU _ k) (by simp [crU])

/-- after `create`: the operation just dispatched is no longer counted -/
theorem uNext_crU_lt (s : St) (k : Nat) (op : UOp) (h : s.ucur k = some op) (hc : isCreate op = true) :
    crU (uNext s k) k + 1 ≤ crU s k := by
  unfold uNext crU; split
  · rename_i op' rest e
    simp [setU, upd, e, h, crS, crO, hc]
    omega
  · rename_i e
    simp [setU, upd, e, h, crS, crO, hc]

theorem uSpawnLoop_sfD (s : St) (k : Nat) :
    peLike ((uSpawnLoop s k).upc k) = false ∧ isSdKill ((uSpawnLoop s k).upc k) = false ∧
    (uSpawnLoop s k).upc k ≠ .api ∧ uRef ((uSpawnLoop s k).upc k) = 1 := by
  rcases uSpawnLoop_self s k with ⟨e, _⟩ | ⟨e, _⟩ | ⟨e, _⟩ <;> simp [e, peLike, isSdKill, uRef]

theorem uNext_one (X s : St) (k : Nat) (e1 : X.uscript = s.uscript) (e2 : X.ucur = s.ucur) (e3 : X.created = s.created) :
    createdN (uNext X k) + crU (uNext X k) k ≤ createdN s + crU s k := by
  have := uNext_crU X k
  simp only [createdN, uNext_created, e3]
  simp only [crU, e1, e2] at this ⊢
  omega
theorem uRelease_one (X s : St) (k : Nat) (e1 : X.uscript = s.uscript) (e2 : X.ucur = s.ucur) (e3 : X.created = s.created) :
    createdN (uRelease X k) + crU (uRelease X k) k ≤ createdN s + crU s k := by
  have := uRelease_crU X k
  simp only [createdN, uRelease_created, e3]
  simp only [crU, e1, e2] at this ⊢
  omega
theorem setU_one (X s : St) (k : Nat) (pc : UPc) (e1 : X.uscript = s.uscript) (e2 : X.ucur = s.ucur) (e3 : X.created = s.created) :
    createdN (setU X k pc) + crU (setU X k pc) k ≤ createdN s + crU s k := by
  simp [createdN, crU, setU, e1, e2, e3]
theorem uSpawnLoop_one (X s : St) (k : Nat) (e1 : X.uscript = s.uscript) (e2 : X.ucur = s.ucur) (e3 : X.created = s.created) :
    createdN (uSpawnLoop X k) + crU (uSpawnLoop X k) k ≤ createdN s + crU s k := by
  simp [createdN, crU, e1, e2, e3]
theorem create_one (X s : St) (k : Nat) (op : UOp) (e1 : X.uscript = s.uscript) (e2 : X.ucur = s.ucur)
    (hcur : s.ucur k = some op) (hop : isCreate op = true) (hc0 : s.created = false) :
    createdN (uNext X k) + crU (uNext X k) k ≤ createdN s + crU s k := by
  have := uNext_crU_lt X k op (by rw [e2]; exact hcur) hop
  have h1 : createdN (uNext X k) ≤ 1 := by unfold createdN; split <;> omega
  have h2 : createdN s = 0 := by simp [createdN, hc0]
  rw [h2]
  simp only [crU, e1, e2] at this ⊢
  omega

/-- everything the invariant needs to know about a step of user thread `k` in a dynamic pool -/
structure USumD (s s' : St) (k : Nat) : Prop where
  broken : s'.broken = s.broken
  cqBuf : s'.cqBuf = s.cqBuf
  cqPipe : s'.cqPipe = s.cqPipe
  rqPipe : s'.rqPipe = s.rqPipe
  fpc : s'.fpc = s.fpc
  wakeupClosed : s'.wakeupClosed = s.wakeupClosed
  cfg : s'.cfg = s.cfg
  leaky : s'.leaky = s.leaky
  wk : s.wakeup ≤ s'.wakeup
  oth : ∀ j, j ≠ k → s'.upc j = s.upc j ∧ s'.ucur j = s.ucur j ∧ s'.uscript j = s.uscript j
  kf : s'.killFlag = false
  mpc : s'.mpc = s.mpc ∨ (s.mpc = .none ∧ s'.mpc = .start ∧ s.upc k = .subTStart)
  tsn : s'.upc k = .subTStart → s'.mpc = .none
  tr : s'.threadReg = true → s'.mpc ≠ .none
  sp : (s'.allPids = s.allPids ∧ s'.w = s.w) ∨ (s'.allPids = s.allPids ++ [s.nextPid] ∧ s'.w = upd s.w s.nextPid .start)
  api : s'.upc k = .api → (s'.ucur k).isSome = true
  pe : peLike (s'.upc k) = true → s'.mpc ≠ .none
  nks : ∀ op ∈ s'.uscript k, opOkD op = true
  nkc : ucurOkD (s'.ucur k) = true
  nkp : isSdKill (s'.upc k) = false
  fu : s'.mpc = .none → (s'.futs = [] ∨ subEarly (s'.upc k) = true) ∨ (s.futs ≠ [] ∧ subEarly (s.upc k) = false)
  hd : s'.held = s'.created
  cre : s.created = true → s'.created = true
  nck : s'.created = false → uRef (s'.upc k) = 0
  cnt : (heldN s' + uRef (s'.upc k) + s.refs ≤ heldN s + uRef (s.upc k) + s'.refs) ∨
        (s.created = false ∧ s'.refs = 1 ∧ uRef (s'.upc k) = 0 ∧ heldN s' = 1)
  one : createdN s' + crU s' k ≤ createdN s + crU s k


-- closes the fields of `USumD` transition by transition; the hypotheses it names are set up by its two callers
set_option hygiene false in
macro "ubatteryD" : tactic => `(tactic| (
  all_goals constructor
  all_goals (first
    | rfl
    | (simp; done)
    | (intro j hj; simp [uNext_oth _ _ _ hj, uRelease_oth _ _ _ hj, uSpawnLoop_oth _ _ _ hj, setU, upd, hj]; done)
    | (exact (uNext_pcD _ _).2)
    | (exact (uRelease_pcD _ _).2)
    | (refine (uNext_selfD _ _ ?_).1; exact hnks)
    | (refine (uNext_selfD _ _ ?_).2; exact hnks)
    | (refine (uRelease_selfD _ _ ?_ ?_).1 <;> first | exact hnks | exact hnkc)
    | (refine (uRelease_selfD _ _ ?_ ?_).2 <;> first | exact hnks | exact hnkc)
    | (simp only [uNext_sfD, uRelease_sfD] <;> simp; done)
    | (simp [setU_upc_self, uRef, peLike, isSdKill, subEarly, *]; done)
    | (simpa using htr)
    | (simpa using hnks)
    | (simpa using hnkc)
    | (simpa using hhd)
    | (intro _; by_cases e : s.futs = [] <;> simp [e, subEarly, uNext_sfD, uRelease_sfD, setU_upc_self, *]; done)
    | (simp only [uSpawnLoop_sfD] <;> simp; done)
    | (intro hm; left; right; exact uSpawnLoop_early _ _ hm)
    | (intro hsp; have := uSpawnLoop_tsk _ _ hsp; simp_all; done)
    | (right; simp [*, spawn]; done)
    | (cases ‹Bool› <;> simp_all [isSdKill]; done)
    | (intro _; by_cases e : s.futs = [] <;> simp [e, subEarly, uNext_sfD, setFut, *]; done)
    | (simp only [setU_upc_self]; cases ‹Bool› <;> cases ‹Bool› <;> simp_all [isSdKill, UOp.isKill, opOkD, ucurOkD]; done)
    -- `one`
    | (exact uNext_one _ s k rfl rfl rfl)
    | (exact uRelease_one _ s k rfl rfl rfl)
    | (exact setU_one _ s k _ rfl rfl rfl)
    | (exact uSpawnLoop_one _ s k rfl rfl rfl)
    | (exact create_one _ s k _ rfl rfl ‹s.ucur k = some _› rfl (hone _ ‹s.ucur k = some _› rfl))
    -- `nck`
    | (intro _; exact (uNext_sfD _ _).1)
    | (intro _; exact (uRelease_sfD _ _).1)
    | (intro hc'
       have hc0 : s.created = false := by simpa using hc'
       first
        | (have := hnc hc0; simp [*, uRef] at this; done)
        | (rw [hc0] at hhd; simp_all; done)
        | (simp [setU_upc_self, uRef]; done))
    -- `cnt`
    | (right; exact ⟨hone _ ‹s.ucur k = some _› rfl, by simp, (uNext_sfD _ _).1, by simp [heldN]⟩)
    | (left
       have href' := href
       rw [‹s.upc k = _›] at href'
       simp [heldN, uNext_sfD, uRelease_sfD, uSpawnLoop_sfD, setU_upc_self, uRelease_refs, *]
       try simp [uRef] at href'
       try simp [uRef]
       try omega)
    | skip)))

set_option maxHeartbeats 16000000 in
theorem uSumD_step (s s' : St) (k : Nat) (v : Variant)
    (hkf : s.killFlag = false) (hnks : ∀ op ∈ s.uscript k, opOkD op = true) (hnkc : ucurOkD (s.ucur k) = true)
    (hnkp : isSdKill (s.upc k) = false) (hpe : peLike (s.upc k) = true → s.mpc ≠ .none)
    (htr : s.threadReg = true → s.mpc ≠ .none) (htsn : s.upc k = .subTStart → s.mpc = .none)
    (hhd : s.held = s.created) (hnc : s.created = false → uRef (s.upc k) = 0) (href : uRef (s.upc k) ≤ s.refs)
    (hone : ∀ op, s.ucur k = some op → isCreate op = true → s.created = false)
    (hs : stepU s k v = some s') : USumD s s' k := by
  unfold stepU at hs
  crack
  all_goals (first | (unfold uDispatch; repeat' split) | skip)
  all_goals (first | (exfalso; simp [*, ucurOkD, opOkD, UOp.isDrop, UOp.isKill] at hnkc; done) | skip)
  ubatteryD



theorem sumL_ge_mem {α : Type} (f : α → Nat) (l : List α) (x : α) (hx : x ∈ l) : f x ≤ sumL f l := by
  induction l with
  | nil => simp at hx
  | cons a l ih =>
    simp only [sumL_cons]
    rcases List.mem_cons.1 hx with e | e
    · subst e; omega
    · have := ih e; omega

theorem mRef_none_start : mRef .none = 0 ∧ mRef .start = 0 := ⟨rfl, rfl⟩

theorem di_stepU (s s' : St) (k : Nat) (v : Variant) (h : DI s) (hk : k < s.cfg.scripts.length)
    (hu : ∀ j, s.upc j = .subTStart → s.oMgmt = some (.U j))
    (hl : ∀ q, s.leaky q = false) (hs : stepU s k v = some s') : DI s' ∧ ∀ q, s'.leaky q = false := by
  have hkm : k ∈ usersOf s := by simp [usersOf, hk]
  have href : uRef (s.upc k) ≤ s.refs := by
    have h1 := h.cnt
    have h2 : uRef (s.upc k) ≤ sumL (fun j => uRef (s.upc j)) (usersOf s) :=
      sumL_ge_mem (fun j => uRef (s.upc j)) (usersOf s) k hkm
    omega
  have hone : ∀ op, s.ucur k = some op → isCreate op = true → s.created = false := by
    intro op hcur hop
    have h1 := h.one
    have h2 : crS (s.uscript k) + crO (s.ucur k) ≤ sumL (fun j => crS (s.uscript j) + crO (s.ucur j)) (usersOf s) :=
      sumL_ge_mem (fun j => crS (s.uscript j) + crO (s.ucur j)) (usersOf s) k hkm
    have h3 : crO (s.ucur k) = 1 := by rw [hcur]; simp [crO, hop]
    cases hc : s.created
    · rfl
    · simp only [createdN, hc, if_true] at h1; omega
  have U := uSumD_step s s' k v h.kf (h.nks k hk) (h.nkc k hk) (h.nkp k hk) (h.pe k hk) h.tr (h.tsn k hk) h.hd
    (fun hc => h.nc hc k hk) href hone hs
  refine ⟨?_, by rw [U.leaky]; exact hl⟩
  -- the two possible effects on the manager's program counter
  have hmpc : s'.mpc = s.mpc ∨ (s.mpc = .none ∧ s'.mpc = .start ∧ s.upc k = .subTStart) := U.mpc
  have hnone : s'.mpc = .none → s.mpc = .none := by
    intro hm
    rcases hmpc with e | ⟨_, e, _⟩
    · rw [← e]; exact hm
    · rw [e] at hm; cases hm
  have hmref : mRef s'.mpc = mRef s.mpc := by
    rcases hmpc with e | ⟨e1, e2, _⟩
    · rw [e]
    · rw [e1, e2]; rfl
  have hall : ∀ (P : WPc → Bool), P .start = false → (∀ q ∈ s.allPids, P (s.w q) = false) →
      ∀ q ∈ s'.allPids, P (s'.w q) = false := by
    intro P h0 h1 q hq
    rcases U.sp with ⟨e1, e3⟩ | ⟨e1, e3⟩
    · rw [e3]; rw [e1] at hq; exact h1 q hq
    · rw [e3, upd_apply']
      split
      · exact h0
      · rename_i hne
        rw [e1] at hq
        rcases List.mem_append.1 hq with hq | hq
        · exact h1 q hq
        · exact absurd (by simpa using hq) hne
  have hus : usersOf s' = usersOf s := by simp [usersOf, U.cfg]
  have hcr0 : s'.created = false → s.created = false := by
    intro hc
    cases e : s.created
    · rfl
    · rw [U.cre e] at hc; cases hc
  have hsumU : sumL (fun j => uRef (s'.upc j)) (usersOf s) + uRef (s.upc k) =
      sumL (fun j => uRef (s.upc j)) (usersOf s) + uRef (s'.upc k) :=
    users_upd1 s (fun j => uRef (s.upc j)) (fun j => uRef (s'.upc j)) k hk (fun j hj => by simp only [(U.oth j hj).1])
  have hsumC : sumL (fun j => crS (s'.uscript j) + crO (s'.ucur j)) (usersOf s) + (crS (s.uscript k) + crO (s.ucur k)) =
      sumL (fun j => crS (s.uscript j) + crO (s.ucur j)) (usersOf s) + (crS (s'.uscript k) + crO (s'.ucur k)) :=
    users_upd1 s (fun j => crS (s.uscript j) + crO (s.ucur j)) (fun j => crS (s'.uscript j) + crO (s'.ucur j)) k hk
      (fun j hj => by simp only [(U.oth j hj).2.1, (U.oth j hj).2.2])
  refine { mn := ?mn, br := ?br, kf := U.kf, wn := hall _ rfl h.wn, mc := ?mc, rc := ?rc, cr := ?cr, je := ?je, api := ?api,
           wc := ?wc, pe := ?pe, wb := hall _ rfl h.wb, rb := ?rb, q := ?qq, tr := U.tr,
           nks := ?nks, nkc := ?nkc, nkp := ?nkp, fu := ?fu, tsn := ?tsn, hd := U.hd, cnt := ?cnt, nc := ?nc, one := ?one }
  all_goals try simp only [hus, U.broken, U.cqBuf, U.cqPipe, U.rqPipe, U.fpc, U.wakeupClosed, U.cfg]
  case mn =>
    rcases hmpc with e | ⟨_, e, _⟩
    · rw [e]; exact h.mn
    · rw [e]; rfl
  case br => exact h.br
  case mc =>
    intro hm
    rcases hmpc with e | ⟨_, _, e⟩
    · rw [e] at hm; exact U.cre (h.mc hm)
    · cases hc : s.created
      · have := h.nc hc k hk; rw [e] at this; simp [uRef] at this
      · exact U.cre hc
  case rc =>
    intro hm
    rcases hmpc with e | ⟨_, e, _⟩
    · rw [e] at hm; exact h.rc hm
    · rw [e] at hm; cases hm
  case cr =>
    intro hm
    rcases hmpc with e | ⟨_, e, _⟩
    · rw [e] at hm; have := h.cr hm; have := U.wk; omega
    · rw [e] at hm; cases hm
  case je =>
    rcases hmpc with e | ⟨_, e, _⟩
    · rw [e]; exact h.je
    · rw [e]; rfl
  case api =>
    intro j hj hm
    by_cases e : j = k
    · subst e; exact U.api hm
    · rw [(U.oth j e).1] at hm; rw [(U.oth j e).2.1]; exact h.api j hj hm
  case wc =>
    intro hw
    have := h.wc hw
    rcases hmpc with e | ⟨e, _, _⟩
    · rw [e]; exact this
    · rw [e] at this; cases this
  case pe =>
    intro j hj hm
    by_cases e : j = k
    · subst e; exact U.pe hm
    · rw [(U.oth j e).1] at hm
      have := h.pe j hj hm
      intro hm'
      exact this (hnone hm')
  case rb => exact h.rb
  case qq =>
    refine qOk_same h.q rfl rfl rfl ?_ (fun _ => rfl)
    rcases hmpc with e | ⟨e, _, _⟩
    · rw [e]; exact id
    · rw [e]; intro hl; cases hl
  case nks =>
    intro j hj
    by_cases e : j = k
    · subst e; exact U.nks
    · rw [(U.oth j e).2.2]; exact h.nks j hj
  case nkc =>
    intro j hj
    by_cases e : j = k
    · subst e; exact U.nkc
    · rw [(U.oth j e).2.1]; exact h.nkc j hj
  case nkp =>
    intro j hj
    by_cases e : j = k
    · subst e; exact U.nkp
    · rw [(U.oth j e).1]; exact h.nkp j hj
  case fu =>
    intro hm
    have hm0 := hnone hm
    rcases U.fu hm with (e | e) | ⟨e1, e2⟩
    · left; exact e
    · right; exact ⟨k, hk, e⟩
    · rcases h.fu hm0 with e | ⟨j, hj, e⟩
      · exact absurd e e1
      · right
        have hjk : j ≠ k := by intro e'; subst e'; rw [e2] at e; cases e
        exact ⟨j, hj, by rw [(U.oth j hjk).1]; exact e⟩
  case tsn =>
    intro j hj hm
    by_cases e : j = k
    · subst e; exact U.tsn hm
    · rw [(U.oth j e).1] at hm
      have h0 := h.tsn j hj hm
      rcases hmpc with e' | ⟨_, _, e3⟩
      · rw [e']; exact h0
      · exfalso
        have e1 := hu j hm
        have e2 := hu k e3
        rw [e1] at e2
        injection e2 with e2
        injection e2 with e2
        exact e e2
  case cnt =>
    have h1 := h.cnt
    rcases U.cnt with c | ⟨c1, c2, c3, c4⟩
    · omega
    · have hz : sumL (fun j => uRef (s.upc j)) (usersOf s) = 0 :=
        sumL_zero _ _ (fun j hj => h.nc c1 j ((mem_usersOf s j).1 hj))
      have hm0 : s.mpc = .none := by
        cases hm : s.mpc <;> first | rfl | (have := h.mc (by rw [hm]; simp); rw [c1] at this; cases this)
      have : mRef s.mpc = 0 := by rw [hm0]; rfl
      have := h.nc c1 k hk
      omega
  case nc =>
    intro hc j hj
    by_cases e : j = k
    · subst e; exact U.nck hc
    · rw [(U.oth j e).1]; exact h.nc (hcr0 hc) j hj
  case one =>
    have h1 := h.one
    have h2 := U.one
    simp only [crU] at h2
    omega

end LokyModel.Exec.DynP
