import LokyModel.Lemmas.ExecSpawn
namespace LokyModel.Exec

theorem spawningU_upd (f : Nat → UPc) (p q : Nat) (pc : UPc) :
    spawningU (upd f p pc q) = if q = p then spawningU pc else spawningU (f q) := by
  unfold upd; split <;> rfl

theorem spawningU_uNext (s : St) (k j : Nat) :
    spawningU ((uNext s k).upc j) = if j = k then false else spawningU (s.upc j) := by
  unfold uNext
  by_cases hj : j = k
  · subst hj; rw [if_pos rfl]; split <;> simp [spawningU]
  · rw [if_neg hj]; split <;> simp [upd_apply, hj]
theorem spawningU_uRelease (s : St) (k j : Nat) :
    spawningU ((uRelease s k).upc j) = if j = k then false else spawningU (s.upc j) := by
  unfold uRelease; simp only []; split
  · by_cases hj : j = k
    · subst hj; simp [spawningU]
    · simp [upd_apply, hj]
  · exact spawningU_uNext _ k j
theorem spawningU_uSpawnLoop (s : St) (k j : Nat) (h : spawningU ((uSpawnLoop s k).upc j) = true) :
    (j = k ∧ s.procDict.length < s.cfg.maxWorkers) ∨ (j ≠ k ∧ spawningU (s.upc j) = true) := by
  unfold uSpawnLoop at h
  by_cases hj : j = k
  · subst hj; left; refine ⟨rfl, ?_⟩
    (repeat' split at h) <;> simp_all [spawningU]
  · right; refine ⟨hj, ?_⟩
    (repeat' split at h) <;> simpa [upd_apply, hj] using h
theorem spawningU_uDispatch (s : St) (k j : Nat) (op : UOp) :
    spawningU ((uDispatch s k op).upc j) = if j = k then false else spawningU (s.upc j) := by
  unfold uDispatch
  by_cases hj : j = k
  · subst hj; rw [if_pos rfl]
    (repeat' split) <;> (first | (rw [spawningU_uNext]; simp; done) | (rw [spawningU_uRelease]; simp; done) | (simp [spawningU]; done))
  · rw [if_neg hj]; (repeat' split) <;> (first | (rw [spawningU_uNext]; simp [hj]; done) | (rw [spawningU_uRelease]; simp [hj]; done) | (simp [upd_apply, hj]; done))

set_option maxHeartbeats 4000000 in
theorem spawnInv_stepU (s s' : St) (k : Nat) (v : Variant) (hi : MgmtInv s) (h : SpawnInv s)
    (hs : stepU s k v = some s') : SpawnInv s' := by
  obtain ⟨hl, hu, hm⟩ := h
  obtain ⟨hv, iu, im, iw⟩ := hi
  have huk := hu k
  unfold stepU at hs
  crack_step
  all_goals (refine ⟨?_, ?_, ?_⟩)
  all_goals (first
    | (simp_all; done)
    | (simp_all [spawningU]; done)
    | (simp_all [spawningU]; omega)
    | (intro j hj
       simp only [spawningU_uNext, spawningU_uRelease, spawningU_uDispatch, setU_upc, spawningU_upd] at hj
       have h2 := hu j
       split at hj <;> simp_all [spawningU]; done)
    | (simp_all [spawningM]; done)
    | (intro j hj
       rcases spawningU_uSpawnLoop _ k j hj with ⟨rfl, h1⟩ | ⟨h1, h2⟩
       · simpa using h1
       · have h3 := iu j (spawningU_inMgmtU _ (by simpa using h2))
         have h4 := iu k (by simp_all [inMgmtU])
         simp_all)
    | (intro hk; simp at hk; have h1 := im (spawningM_inMgmtM _ hk); have h4 := iu k (by simp_all [inMgmtU]); simp_all; done)
    | skip)

end LokyModel.Exec
