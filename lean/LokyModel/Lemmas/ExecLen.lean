import LokyModel.Lemmas.ExecFut
/-! `taskOf` and `futs` are both indexed by work id: same length in every reachable state. -/
namespace LokyModel.Exec

def LenInv (s : St) : Prop := s.taskOf.length = s.futs.length

@[simp] theorem mAddFuel_futs_length (n : Nat) (s : St) : (mAddFuel n s).futs.length = s.futs.length := by
  induction n generalizing s with
  | zero => rfl
  | succ n ih => unfold mAddFuel; (repeat' split) <;> simp [*]
@[simp] theorem mAdd_futs_length (s : St) : (mAdd s).futs.length = s.futs.length := by unfold mAdd; simp
@[simp] theorem mAfterItem_futs_length (s : St) : (mAfterItem s).futs.length = s.futs.length := by
  unfold mAfterItem; split <;> simp
@[simp] theorem mDropRef_futs_length (s : St) : (mDropRef s).futs.length = s.futs.length := by
  unfold mDropRef; simp only []; split <;> simp
@[simp] theorem mRespawnCheck_futs_length (s : St) : (mRespawnCheck s).futs.length = s.futs.length := by
  unfold mRespawnCheck; simp only []; (repeat' split) <;> simp
@[simp] theorem mProcess_futs_length (s : St) (r : Option RMsg) : (mProcess s r).futs.length = s.futs.length := by
  unfold mProcess; (repeat' split) <;> simp
@[simp] theorem mAfterFlag_futs_length (s : St) : (mAfterFlag s).futs.length = s.futs.length := by
  unfold mAfterFlag; (repeat' split) <;> simp
@[simp] theorem uDispatch_futs_length (s : St) (k : Nat) (op : UOp) : (uDispatch s k op).futs.length = s.futs.length := by
  unfold uDispatch; cases op <;> simp only [] <;> (repeat' split) <;> simp

theorem lenInv_init (cfg : Cfg) : LenInv (init cfg) := by simp [LenInv, init]

set_option maxHeartbeats 4000000 in
theorem lenInv_step {s s' : St} {a : Actor} {v : Variant} (h : LenInv s) (hs : step s a v = some s') : LenInv s' := by
  unfold LenInv at *
  unfold step at hs
  cases a with
  | U k =>
    simp only [] at hs; split at hs
    · unfold stepU at hs; crack_step; all_goals (first | (simp_all; done) | (simp; omega))
    · cases hs
  | M => simp only [] at hs; unfold stepM at hs; crack_step; all_goals (first | (simp_all; done) | (simp; omega))
  | F => simp only [] at hs; unfold stepF at hs; crack_step; all_goals (first | (simp_all; done) | (simp; omega))
  | W p =>
    simp only [] at hs; split at hs
    · unfold stepW at hs; crack_step; all_goals (first | (simp_all; done) | (simp; omega))
    · cases hs

theorem lenInv_reachable {cfg : Cfg} {s : St} (h : Reachable cfg s) : LenInv s := by
  induction h with
  | init => exact lenInv_init cfg
  | step _ hs ih => exact lenInv_step ih hs

end LokyModel.Exec
