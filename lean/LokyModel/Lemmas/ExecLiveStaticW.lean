import LokyModel.Lemmas.ExecLiveStaticBase
/-! `staticOk'`: steps of a worker process. -/
namespace LokyModel.Exec.StaticP
set_option linter.unusedSimpArgs false

/-! ### worker steps -/

theorem setW_w_self (s : St) (p : Pid) (pc : WPc) : (setW s p pc).w p = pc := by simp [setW, upd]
theorem die_w_self (s : St) (p : Pid) (c : Int) : (die s p c).w p = .dead := by simp [die, upd]
theorem wGet_w_self (s : St) (p : Pid) (ht : s.cfg.timeout = false) : (wGet s p).w p = .gAcq := by
  simp [wGet, ht, setW, upd]
theorem wAfterStart_w_self (s : St) (p : Pid) (ht : s.cfg.timeout = false) :
    (wAfterStart s p).w p = if s.cfg.hasInit then .init else .gAcq := by
  unfold wAfterStart; split
  · simp [setW, upd]
  · exact wGet_w_self s p ht
theorem wDispatch_w_self (s : St) (p : Pid) (m : CMsg) (hc : s.cfg.staticPool = true) :
    (wDispatch s p m).w p = (match m with | .call w t => .task w t | _ => .xAcq) := by
  unfold wDispatch
  split
  · have := (sp_spec hc ‹Tid›).2.1
    simp [this, setW, upd]
  · simp [setW, upd]
theorem wAfterResult_w_self (s : St) (p : Pid) (ht : s.cfg.timeout = false) (hl : s.leaky p = false) :
    (wAfterResult s p).w p = .gAcq := by
  unfold wAfterResult; simp only []
  split
  · exact wGet_w_self _ p ht
  · simp [hl]; exact wGet_w_self _ p ht

/-- everything the invariant needs to know about a step of worker `p` in a static pool -/
structure WSum (s s' : St) (p : Pid) : Prop where
  oth : ∀ q, q ≠ p → s'.w q = s.w q
  wn : wNever (s'.w p) = false
  wb : wBadRes (s'.w p) = false
  st : wStopping (s'.w p) = true → wStopping (s.w p) = true ∨ ∃ m ∈ s.cqPipe, isStop m = true ∨ isClose m = true
  cq : ∀ m ∈ s'.cqPipe, m ∈ s.cqPipe
  rq : ∀ r ∈ s'.rqPipe, r ∈ s.rqPipe ∨ (rBad r = false ∧ (isPidMsg r = true → wStopping (s.w p) = true))
  rne : s.rqPipe ≠ [] → s'.rqPipe ≠ []
  lk : s'.leaky = s.leaky
  mpc : s'.mpc = s.mpc
  fpc : s'.fpc = s.fpc
  upc : s'.upc = s.upc
  ucur : s'.ucur = s.ucur
  uscript : s'.uscript = s.uscript
  cqBuf : s'.cqBuf = s.cqBuf
  procDict : s'.procDict = s.procDict
  allPids : s'.allPids = s.allPids
  cfg : s'.cfg = s.cfg
  futs : s'.futs = s.futs
  wakeup : s'.wakeup = s.wakeup
  wakeupClosed : s'.wakeupClosed = s.wakeupClosed
  broken : s'.broken = s.broken
  killFlag : s'.killFlag = s.killFlag
  threadReg : s'.threadReg = s.threadReg
  oMgmt : s'.oMgmt = s.oMgmt

set_option maxHeartbeats 8000000 in
theorem wSum_step (s s' : St) (p : Pid) (v : Variant) (hv : v ≠ .crash) (hc : s.cfg.staticPool = true)
    (hl : s.leaky p = false) (hwn : wNever (s.w p) = false) (hwb : wBadRes (s.w p) = false)
    (hs : stepW s p v = some s') : WSum s s' p := by
  have ht := sp_timeout hc
  have hlk := sp_leak hc
  have hif := sp_initFail hc
  have hsp := sp_spec hc
  have hb1 : ∀ w e b, s.w p = .rAcq w e b → b = false := by
    intro w e b h; rw [h] at hwb; cases b <;> simp [wBadRes] at hwb ⊢
  have hb2 : ∀ w e b, s.w p = .rSend w e b → b = false := by
    intro w e b h; rw [h] at hwb; cases b <;> simp [wBadRes] at hwb ⊢
  unfold stepW at hs
  crack
  all_goals (first | (exact absurd rfl hv) | skip)
  all_goals (first | (simp_all [wNever]; done) | skip)
  all_goals constructor
  all_goals (first
    | rfl
    | (simp; done)
    | (intro q hq
       simp [wAfterStart_w_other, wGet_w_other, wDispatch_w_other, wAfterResult_w_other, setW_w_other, die_w_other, hq]; done)
    | (simp [setW_w_self, die_w_self, wGet_w_self, wAfterStart_w_self, wDispatch_w_self, wAfterResult_w_self, ht, hc, hl,
         wNever, wBadRes, wStopping, *]; done)
    | (intro r hr; left; simpa using hr)
    | (intro r hr; simp at hr; rcases hr with hr | hr
       · left; exact hr
       · right; subst hr; simp [rBad, isPidMsg, wStopping, *]; done)
    | (simp [wAfterStart_w_self, ht]; split <;> simp [wNever, wBadRes, wStopping]; done)
    | (simp_all [setW_w_self, die_w_self, wGet_w_self, wAfterStart_w_self, wDispatch_w_self, wAfterResult_w_self,
         wNever, wBadRes, wStopping, rBad, isPidMsg, isStop, isClose]; done)
    | (cases ‹CMsg› <;>
       simp_all [setW_w_self, die_w_self, wGet_w_self, wAfterStart_w_self, wDispatch_w_self, wAfterResult_w_self,
         wNever, wBadRes, wStopping, rBad, isPidMsg, isStop, isClose]; done)
    | (have hb := hb1 _ _ _ (by assumption); subst hb; simp [setW_w_self, wBadRes]; done)
    | (have hb := hb2 _ _ _ (by assumption); subst hb
       intro r hr; simp at hr; rcases hr with hr | hr
       · left; exact hr
       · right; subst hr; simp [rBad, isPidMsg]; done))

theorem si_stepW (s s' : St) (p : Pid) (v : Variant) (hv : v ≠ .crash) (hc : s.cfg.staticPool = true)
    (hp : p ∈ s.allPids) (h : SI s) (hl : ∀ q, s.leaky q = false) (hs : stepW s p v = some s') :
    SI s' ∧ ∀ q, s'.leaky q = false := by
  have W := wSum_step s s' p v hv hc (hl p) (h.wn p hp) (h.wb p hp) hs
  refine ⟨?_, by rw [W.lk]; exact hl⟩
  have hall : ∀ (P : WPc → Bool), (∀ q ∈ s.allPids, P (s.w q) = false) → P (s'.w p) = false →
      ∀ q ∈ s'.allPids, P (s'.w q) = false := by
    intro P h1 h2 q hq
    rw [W.allPids] at hq
    by_cases e : q = p
    · subst e; exact h2
    · rw [W.oth q e]; exact h1 q hq
  refine { mn := ?mn, br := ?br, kf := ?kf, wn := hall _ h.wn W.wn, pre := ?pre, rc := ?rc, cr := ?cr, je := ?je, api := ?api, fb := ?fb,
           wc := ?wc, pe := ?pe, snap := ?snap, wb := hall _ h.wb W.wb, rb := ?rb, cp := ?cp, fc := ?fc, cl := ?cl, late := ?late, tr := ?tr,
           nks := ?nks, nkc := ?nkc, nkp := ?nkp, fu := ?fu, tsn := ?tsn }
  all_goals try simp only [W.mpc, W.fpc, W.upc, W.ucur, W.uscript, W.cqBuf, W.procDict, W.allPids, W.cfg, W.futs, W.wakeup,
    W.wakeupClosed, W.broken, W.killFlag, W.threadReg]
  case mn => exact h.mn
  case br => exact h.br
  case kf => exact h.kf
  case rc => intro hm; exact W.rne (h.rc hm)
  case cr => exact h.cr
  case je => exact h.je
  case api => exact h.api
  case fb => exact h.fb
  case wc => exact h.wc
  case pe => exact h.pe
  case snap => exact h.snap
  case rb =>
    intro r hr
    rcases W.rq r hr with e | e
    · exact h.rb r e
    · exact e.1
  case cp => intro m hm; exact h.cp m (W.cq m hm)
  case fc => exact h.fc
  case cl => exact h.cl
  case late => exact h.late
  case tr => exact h.tr
  case nks => exact h.nks
  case nkc => exact h.nkc
  case nkp => exact h.nkp
  case fu => exact h.fu
  case tsn => exact h.tsn
  case pre =>
    intro hf
    have P := h.pre hf
    have hns : wStopping (s'.w p) = false := by
      cases hst : wStopping (s'.w p)
      · rfl
      · rcases W.st hst with e | ⟨m, hm, e | e⟩
        · rw [P.ns p hp] at e; cases e
        · rw [P.np m hm] at e; cases e
        · rw [h.cp m hm] at e; cases e
    refine { pd := ?pd, ns := hall _ P.ns hns, nb := ?nb, np := ?np, nr := ?nr, nf := ?nf, full := ?full, le := ?le, mx := ?mx, lt := ?lt, ts := ?ts }
    all_goals try simp only [W.mpc, W.fpc, W.upc, W.cqBuf, W.procDict, W.allPids, W.cfg, W.oMgmt]
    case pd => exact P.pd
    case nb => exact P.nb
    case np => intro m hm; exact P.np m (W.cq m hm)
    case nr =>
      intro r hr
      rcases W.rq r hr with e | e
      · exact P.nr r e
      · cases hr' : isPidMsg r
        · rfl
        · have := e.2 hr'; rw [P.ns p hp] at this; cases this
    case nf => exact P.nf
    case full => exact P.full
    case le => exact P.le
    case mx => exact P.mx
    case lt => exact P.lt
    case ts => exact P.ts

end LokyModel.Exec.StaticP
