import LokyModel.Lemmas.ExecSpawnU
/-! Assembly: the invariants hold in every reachable state. -/
namespace LokyModel.Exec

set_option maxHeartbeats 4000000 in
theorem cfg_step {s s' : St} {a : Actor} {v : Variant} (hs : step s a v = some s') : s'.cfg = s.cfg := by
  unfold step at hs
  cases a with
  | U k =>
    simp only [] at hs; split at hs
    · unfold stepU at hs; crack_step; all_goals (first | rfl | (simp; done))
    · cases hs
  | M => simp only [] at hs; unfold stepM at hs; crack_step; all_goals (first | rfl | (simp; done))
  | F => simp only [] at hs; unfold stepF at hs; crack_step; all_goals (first | rfl | (simp; done))
  | W p =>
    simp only [] at hs; split at hs
    · unfold stepW at hs; crack_step; all_goals (first | rfl | (simp; done))
    · cases hs

theorem cfg_reachable {cfg : Cfg} {s : St} (h : Reachable cfg s) : s.cfg = cfg := by
  induction h with
  | init => rfl
  | step _ hs ih => rw [cfg_step hs, ih]

theorem spawnInv_step {s s' : St} {a : Actor} {v : Variant} (hi : MgmtInv s) (h : SpawnInv s)
    (hs : step s a v = some s') : SpawnInv s' := by
  unfold step at hs
  cases a with
  | U k => simp only [] at hs; split at hs; exact spawnInv_stepU s s' k v hi h hs; cases hs
  | M => exact spawnInv_stepM s s' v hi h hs
  | F => exact spawnInv_stepF s s' v h hs
  | W p => simp only [] at hs; split at hs; exact spawnInv_stepW s s' p v h hs; cases hs

theorem spawnInv_reachable {cfg : Cfg} {s : St} (h : Reachable cfg s) : SpawnInv s := by
  induction h with
  | init => exact spawnInv_init cfg
  | step hr hs ih => exact spawnInv_step (mgmtInv_reachable hr) ih hs

/-- n-fold iteration of the manager's `ok` step -/
def mRun : Nat → St → Option St
  | 0, s => some s
  | n + 1, s => (stepM s .ok).bind (mRun n)

end LokyModel.Exec
