import LokyModel.Lemmas.ExecTokenM
namespace LokyModel.Exec

set_option maxHeartbeats 4000000 in
theorem tokInv_stepM (s s' : St) (v : Variant) (h : TokInv s) (hs : stepM s v = some s') : TokInv s' := by
  unfold stepM at hs
  crack_step
  all_goals (first
    | (tok_simple s, h; done)
    | (refine tok_mAdd _ ?_; tok_simple s, h; done)
    | (refine tok_mAddF _ ?_; tok_simple s, h; done)
    | (refine tok_mAfterItem _ ?_; tok_simple s, h; done)
    | (refine tok_mRespawnCheck _ ?_; tok_simple s, h; done)
    | (refine tok_mDropRef _ ?_; tok_simple s, h; done)
    | (refine tok_mAfterFlag _ ?_; tok_simple s, h; done)
    | (exact tok_mProcess s _ h ‹_›)
    | (tok_simple (spawn s), (tok_spawn s h); done)
    | (refine tok_brkRel s h _ ?_ ?_ _ _ <;> simp <;> done)
    | (refine tok_congr s _ h ?_ ?_
       · simp
       · intro i; rw [‹s.mpc = _›]; simp)
    | (refine tok_die s _ h _ _ (by simp) ?_; intro i; simp_all [mPreC, mPostC]; done)
    | skip)

end LokyModel.Exec
