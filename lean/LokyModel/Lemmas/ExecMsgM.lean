import LokyModel.Lemmas.ExecMsgF
namespace LokyModel.Exec

theorem msg_val_failAll (a : St) (h : MsgInv a) (ws : List Wid) (f : Fut) (hf0 : f ≠ .cancelled) (hf1 : f ≠ .value)
    (hf2 : f ≠ .excWorker) (b : St) (hb : b.futs = (failAll a ws f).futs) (i : Wid) :
    (futOf b i = .value → (specOf a (a.taskOf.getD i 0)).body = .ok ∧ (specOf a (a.taskOf.getD i 0)).res ≠ .badunpickle) ∧
    (futOf b i = .excWorker → (specOf a (a.taskOf.getD i 0)).body = .raises) := by
  have e1 : futOf b i = futOf (failAll a ws f) i := by simp [futOf, hb]
  rw [e1, futOf_failAll _ _ _ hf0]
  split
  · exact ⟨fun e => absurd e hf1, fun e => absurd e hf2⟩
  · exact h.val i

theorem msg_mAddFuel (n : Nat) : ∀ X : St, MsgInv { X with mpc := .none } → MsgInv (mAddFuel n X) := by
  induction n with
  | zero => intro X h; unfold mAddFuel; msg_simple _, h
  | succ n ih =>
    intro X h
    unfold mAddFuel
    split
    · msg_simple _, h
    · split
      · msg_simple _, h
      · rename_i i rest hwk
        have hi : i < X.taskOf.length := h.wk i (by simp [hwk])
        split
        · refine ih _ ?_
          have hk := h.wk
          msg_simple _, h
        · have hb := MsgInv.buf h; have hp := MsgInv.pipe h; have hr := MsgInv.rq h; have hw := MsgInv.w h
          have hf := MsgInv.f h; have hk := MsgInv.wk h
          refine msg_move _ _ h ?_ ?_ ?_ ?_ ?_ ?_ ?_ ?_ ?_
          · simp
          · intro x hx; simp at hx; simp_all
          · intro x hx; simp at hx; simp_all
          · intro x hx; simp at hx; simp_all
          · intro q; simp_all
          · simpa [goodM] using hi
          · simp_all
          · intro j hj; simp at hj; simp_all
          · intro j; exact msg_val_setFut _ h i .running (by simp) (by simp) _ rfl j

theorem msg_mAdd (X : St) (h : MsgInv { X with mpc := .none }) : MsgInv (mAdd X) := msg_mAddFuel _ X h

theorem msg_mAfterItem (X : St) (h : MsgInv { X with mpc := .none }) : MsgInv (mAfterItem X) := by
  unfold mAfterItem
  split
  · msg_simple _, h
  · exact msg_mAdd X h

theorem msg_mDropRef (X : St) (h : MsgInv { X with mpc := .none }) : MsgInv (mDropRef X) := by
  unfold mDropRef
  simp only []
  split
  · msg_simple _, h
  · refine msg_mAfterItem _ ?_; msg_simple _, h

theorem msg_mRespawnCheck (X : St) (h : MsgInv { X with mpc := .none }) : MsgInv (mRespawnCheck X) := by
  unfold mRespawnCheck
  simp only []
  split
  · split
    · msg_simple _, h
    · exact msg_mAfterItem X h
  · exact msg_mAfterItem X h

theorem goodM_of_tokfree (cfg : Cfg) (T : List Tid) (pc : MPc) (h : ∀ i, mPreC i pc = 0 ∧ mPostC i pc = 0) :
    goodM cfg T pc := by
  cases pc with
  | addAcq w => have := (h w).1; simp [mPreC, ind] at this
  | addTStart w => have := (h w).1; simp [mPreC, ind] at this
  | addAcqF w => have := (h w).1; simp [mPreC, ind] at this
  | addTStartF w => have := (h w).1; simp [mPreC, ind] at this
  | clrPoll k =>
    cases k with
    | item r =>
      cases r with
      | none => trivial
      | some r =>
        cases r with
        | res w e b => have := (h w).2; simp [mPostC, rmsgC, ind] at this
        | pid p => exact ⟨trivial, by intro w e; simp⟩
        | rtb => exact ⟨trivial, by intro w e; simp⟩
    | broken b => trivial
  | clrRecv k =>
    cases k with
    | item r =>
      cases r with
      | none => trivial
      | some r =>
        cases r with
        | res w e b => have := (h w).2; simp [mPostC, rmsgC, ind] at this
        | pid p => exact ⟨trivial, by intro w e; simp⟩
        | rtb => exact ⟨trivial, by intro w e; simp⟩
    | broken b => trivial
  | _ => trivial

@[simp] theorem goodM_mJoinStart (cfg T) (s : St) : goodM cfg T (mJoinStart s).mpc := goodM_of_tokfree _ _ _ (by simp)
@[simp] theorem goodM_mKillNext (cfg T) (s : St) : goodM cfg T (mKillNext s).mpc := goodM_of_tokfree _ _ _ (by simp)
@[simp] theorem goodM_mSpawnLoop (cfg T) (s : St) : goodM cfg T (mSpawnLoop s).mpc := goodM_of_tokfree _ _ _ (by simp)
@[simp] theorem goodM_mJoinProcs (cfg T) (s : St) : goodM cfg T (mJoinProcs s).mpc := goodM_of_tokfree _ _ _ (by simp)
@[simp] theorem goodM_mJoinClose (cfg T) (s : St) : goodM cfg T (mJoinClose s).mpc := goodM_of_tokfree _ _ _ (by simp)
@[simp] theorem goodM_mJoinLoop (cfg T) (s : St) (n a c) : goodM cfg T (mJoinLoop s n a c).mpc := goodM_of_tokfree _ _ _ (by simp)
@[simp] theorem goodM_mRelExitNext (cfg T) (s : St) (ps n) : goodM cfg T (mRelExitNext s ps n).mpc := goodM_of_tokfree _ _ _ (by simp)
@[simp] theorem goodM_mAliveNext (cfg T) (s : St) (ps c n a b) : goodM cfg T (mAliveNext s ps c n a b).mpc := goodM_of_tokfree _ _ _ (by simp)
@[simp] theorem goodM_mAfterPut (cfg T) (s : St) (k n a c) : goodM cfg T (mAfterPut s k n a c).mpc := goodM_of_tokfree _ _ _ (by simp)

theorem mem_mJoinClose (s : St) (m : CMsg) (h : m ∈ (mJoinClose s).cqBuf) : m ∈ s.cqBuf ∨ m = .close := by
  unfold mJoinClose at h; simp only [] at h; split at h <;> simp_all
theorem mem_mJoinLoop (s : St) (n a c : Nat) (m : CMsg) (h : m ∈ (mJoinLoop s n a c).cqBuf) : m ∈ s.cqBuf ∨ m = .close := by
  unfold mJoinLoop at h; split at h
  · left; simpa using h
  · exact mem_mJoinClose s m h
theorem mem_mAfterPut (s : St) (k n a c : Nat) (m : CMsg) (h : m ∈ (mAfterPut s k n a c).cqBuf) : m ∈ s.cqBuf ∨ m = .close := by
  unfold mAfterPut at h; split at h
  · exact mem_mJoinLoop s _ _ _ m h
  · left; simpa using h

/-- the end of the pass made after flagging: the work id in the manager's hands stays the same -/
theorem msg_mAfterAddF (Y : St) (h : MsgInv Y) : MsgInv (mAfterAddF Y) := by
  unfold mAfterAddF
  split
  · msg_simple Y, h
  · split
    · msg_simple Y, h
    · exact h
  · exact h

theorem msg_mAddF (X : St) (h : MsgInv { X with mpc := .none }) : MsgInv (mAddF X) :=
  msg_mAfterAddF _ (msg_mAdd X h)

theorem msg_mAfterFlag (X : St) (h : MsgInv { X with mpc := .none }) : MsgInv (mAfterFlag X) := by
  unfold mAfterFlag
  split
  · have hb := MsgInv.buf h; have hp := MsgInv.pipe h; have hr := MsgInv.rq h; have hw := MsgInv.w h
    have hf := MsgInv.f h; have hk := MsgInv.wk h
    refine msg_move _ _ h ?_ ?_ ?_ ?_ ?_ ?_ ?_ ?_ ?_
    · simp
    · intro x hx; simp at hx; simp_all
    · intro x hx; simp at hx; simp_all
    · intro x hx; simp at hx; simp_all
    · intro q; simp_all
    · simp
    · simp_all
    · intro j hj; simp at hj; simp_all
    · intro j; exact msg_val_failAll _ h X.pending .excShutdown (by simp) (by simp) (by simp) _ (by simp [failAll]) j
  · split
    · msg_simple _, h
    · exact msg_mAddF X h

theorem msg_mProcess (s : St) (r : Option RMsg) (h : MsgInv s) (hpc : s.mpc = .clrPoll (.item r)) :
    MsgInv (mProcess s r) := by
  have h0 : MsgInv { s with mpc := .none } := by msg_simple s, h
  have hm := h.m
  rw [hpc] at hm
  unfold mProcess
  split
  · exact msg_mAfterItem s h0
  · exact msg_mAfterItem s h0
  · rename_i i isExc bad
    split
    · refine msg_mAfterItem _ ?_
      obtain ⟨⟨hlt, hres⟩, hnb⟩ := hm
      have hbad : bad = false := by
        cases bad with
        | false => rfl
        | true => exact absurd rfl (hnb i isExc)
      subst hbad
      have hb := MsgInv.buf h; have hp := MsgInv.pipe h; have hr := MsgInv.rq h; have hw := MsgInv.w h
      have hf := MsgInv.f h; have hk := MsgInv.wk h
      refine msg_move s _ h ?_ ?_ ?_ ?_ ?_ ?_ ?_ ?_ ?_
      · simp
      · intro x hx; simp at hx; simp_all
      · intro x hx; simp at hx; simp_all
      · intro x hx; simp at hx; simp_all
      · intro q; simp_all
      · simp [goodM]
      · simp_all
      · intro j hj; simp at hj; simp_all
      · intro j
        have key : ∀ b : St, b.futs = (setFut s i (if isExc then .excWorker else .value)).futs →
            (futOf b j = .value → (specOf s (s.taskOf.getD j 0)).body = .ok ∧ (specOf s (s.taskOf.getD j 0)).res ≠ .badunpickle) ∧
            (futOf b j = .excWorker → (specOf s (s.taskOf.getD j 0)).body = .raises) := by
          intro b hbf
          have e1 : futOf b j = futOf (setFut s i (if isExc then .excWorker else .value)) j := by simp [futOf, hbf]
          rw [e1, futOf_setFut]
          split
          · rename_i hj
            rw [hj.1]
            unfold resOf at hres
            unfold specOf
            cases isExc <;> (split at hres <;> simp_all)
          · exact h.val j
        exact key _ rfl
    · exact msg_mAfterItem s h0
  · msg_simple s, h

/-- a step that may add good (or content-free) messages to the call buffer, move one worker, and change the
    manager's and feeder's program counters -/
theorem msg_plus (s X : St) (h : MsgInv s)
    (hfr : X.cfg = s.cfg ∧ X.taskOf = s.taskOf ∧ X.cqPipe = s.cqPipe ∧ X.rqPipe = s.rqPipe ∧ X.workIds = s.workIds ∧
           X.futs = s.futs)
    (hw : X.w = s.w ∨ ∃ p pc, X.w = upd s.w p pc ∧ goodW s.cfg s.taskOf pc)
    (hbuf : ∀ m, m ∈ X.cqBuf → m ∈ s.cqBuf ∨ goodC s.cfg s.taskOf m)
    (hm : goodM s.cfg s.taskOf X.mpc) (hf : goodF s.cfg s.taskOf X.fpc) : MsgInv X := by
  obtain ⟨f1, f2, f3, f4, f5, f6⟩ := hfr
  refine msg_move s X h ⟨f1, f2⟩ ?_ ?_ ?_ ?_ hm hf ?_ ?_
  · intro m hm'
    rcases hbuf m hm' with e | e
    · exact h.buf m e
    · exact e
  · rw [f3]; exact h.pipe
  · rw [f4]; exact h.rq
  · intro q
    rcases hw with e | ⟨p, pc, e, g⟩
    · rw [e]; exact h.w q
    · rw [e, upd_apply]; split
      · exact g
      · exact h.w q
  · rw [f5]; exact h.wk
  · intro i; have := h.val i; simp only [futOf, f6] at this ⊢; exact this

theorem goodM_clrRecv (cfg : Cfg) (T : List Tid) (k : AfterClear) : goodM cfg T (.clrRecv k) = goodM cfg T (.clrPoll k) := by
  cases k with
  | item r => cases r <;> rfl
  | broken b => rfl

theorem goodC_stop_close (cfg : Cfg) (T : List Tid) : goodC cfg T .stop ∧ goodC cfg T .close := ⟨trivial, trivial⟩

theorem msg_brkRel (s : St) (h : MsgInv s) (f : Fut) (hf0 : f ≠ .cancelled) (hf1 : f ≠ .value) (hf2 : f ≠ .excWorker)
    (x : Nat) (o : Option Actor) :
    MsgInv (mKillNext (failAll { s with shut := x, oShut := o, pending := [] } s.pending f)) := by
  have hb := MsgInv.buf h; have hp := MsgInv.pipe h; have hr := MsgInv.rq h; have hw := MsgInv.w h
  have hf := MsgInv.f h; have hk := MsgInv.wk h
  refine msg_move s _ h ?_ ?_ ?_ ?_ ?_ ?_ ?_ ?_ ?_
  · simp
  · intro x hx; simp at hx; simp_all
  · intro x hx; simp at hx; simp_all
  · intro x hx; simp at hx; simp_all
  · intro q; simp_all
  · simp
  · simp_all
  · intro j hj; simp at hj; simp_all
  · intro j; exact msg_val_failAll s h s.pending f hf0 hf1 hf2 _ (by simp [failAll]) j

theorem msg_spawn (s : St) (h : MsgInv s) : MsgInv (mSpawnLoop (spawn s)) := by
  refine msg_plus s _ h ?_ (Or.inr ⟨s.nextPid, .start, ?_, ?_⟩) ?_ ?_ ?_
  · simp [spawn]
  · simp [spawn]
  · trivial
  · intro m hm'; left; simpa [spawn] using hm'
  · simp
  · simpa [spawn] using MsgInv.f h

theorem msg_kill (s : St) (h : MsgInv s) (p : Pid) : MsgInv (die { s with mpc := .killJoin p } p (-9)) := by
  refine msg_plus s _ h ?_ (Or.inr ⟨p, .dead, ?_, ?_⟩) ?_ ?_ ?_
  · simp
  · simp
  · trivial
  · intro m hm'; left; simpa using hm'
  · simp [goodM]
  · simpa using MsgInv.f h

theorem msg_joinLoop (s : St) (h : MsgInv s) (n a c : Nat) : MsgInv (mJoinLoop s n a c) := by
  refine msg_plus s _ h ?_ ?_ ?_ ?_ ?_
  · simp
  · left; simp
  · intro m hm'
    rcases mem_mJoinLoop _ _ _ _ m hm' with e | rfl
    · left; simpa using e
    · right; trivial
  · simp
  · simpa using MsgInv.f h

theorem msg_afterPutStart (s : St) (h : MsgInv s) (k n a c : Nat) :
    MsgInv (mAfterPut { s with fpc := .start, cqBuf := s.cqBuf ++ [.stop] } k n a c) := by
  refine msg_plus s _ h ?_ ?_ ?_ ?_ ?_
  · simp
  · left; simp
  · intro m hm'
    rcases mem_mAfterPut _ _ _ _ _ m hm' with e | rfl
    · simp at e; rcases e with e | rfl
      · left; exact e
      · right; trivial
    · right; trivial
  · simp
  · have : (mAfterPut { s with fpc := .start, cqBuf := s.cqBuf ++ [.stop] } k n a c).fpc = .start := by simp
    rw [this]; trivial

end LokyModel.Exec
