import LokyModel.Lemmas.ExecInv
/-!
Never broken without a death: in runs without crash steps, on configurations without fatal tasks
(`die` bodies), without payloads that fail to un-pickle and without failing initializers, the pool is
never flagged broken.  The core is *announce-before-exit*: a registered worker that is leaving (or has
left) has its pid message in the result pipe, or the manager is processing it.
-/
namespace LokyModel.Exec

def TaskSpec.benign (t : TaskSpec) : Bool := t.body != .die && t.args != .badunpickle && t.res != .badunpickle

def Cfg.benign (c : Cfg) : Prop := (∀ t ∈ c.tasks, t.benign = true) ∧ c.initFail = []

theorem specOf_benign (s : St) (h : s.cfg.benign) (t : Tid) : (specOf s t).benign = true := by
  unfold specOf
  rw [List.getD_eq_getElem?_getD]
  cases hq : s.cfg.tasks[t]? with
  | none => rfl
  | some x => exact h.1 x (List.mem_of_getElem? hq)

/-- reachability without crash steps -/
inductive ReachableNC (cfg : Cfg) : St → Prop
  | init : ReachableNC cfg (init cfg)
  | step {s s' : St} {a : Actor} {v : Variant} : ReachableNC cfg s → v ≠ .crash → step s a v = some s' → ReachableNC cfg s'

theorem ReachableNC.reachable {cfg : Cfg} {s : St} (h : ReachableNC cfg s) : Reachable cfg s := by
  induction h with
  | init => exact .init
  | step _ _ hs ih => exact .step ih hs

def mHolds : MPc → Pid → Bool
  | .clrPoll (.item (some (.pid q))), p => q == p
  | .clrRecv (.item (some (.pid q))), p => q == p
  | .pidAcq q, p => q == p
  | _, _ => false

def brokenPath : MPc → Bool
  | .clrPoll (.broken _) | .clrRecv (.broken _) | .brkAcq _ | .brkRel _ => true
  | _ => false

/-- the worker has sent its pid message -/
def leaving : WPc → Bool
  | .xRel | .xExit | .lRel | .lExitAcq | .lExitRel | .exit _ | .dead => true
  | _ => false

def badPc : WPc → Bool
  | .bAcq | .bSend | .bRel => true
  | .exit c => c != 0
  | .rAcq _ _ b | .rSend _ _ b => b
  | _ => false

/-- the manager has popped this worker from the registry and is killing / joining it -/
def poppedPc : MPc → Pid → Bool
  | .kill q, p | .killJoin q, p | .jJoin q, p => q == p
  | _, _ => false

def announced (s : St) (p : Pid) : Prop := RMsg.pid p ∈ s.rqPipe ∨ mHolds s.mpc p = true

structure NBInv (s : St) : Prop where
  nb : s.broken = none
  mp : brokenPath s.mpc = false
  ann : ∀ p, p ∈ s.procDict → leaving (s.w p) = true → announced s p
  good : ∀ p, badPc (s.w p) = false
  pipe : ∀ m ∈ s.rqPipe, m ≠ .rtb ∧ ∀ w e, m ≠ .res w e true
  snap : ∀ sn, s.mpc = .wait sn → ∀ p ∈ sn, p ∈ s.procDict
  fresh : ∀ p ∈ s.procDict, p < s.nextPid
  nd : s.procDict.Nodup
  kp : ∀ p, poppedPc s.mpc p = true → p ∉ s.procDict ∧ p < s.nextPid

theorem nbInv_init (cfg : Cfg) : NBInv (init cfg) := by
  constructor <;> simp [init, brokenPath, badPc, mHolds, poppedPc]

theorem leaving_upd (f : Pid → WPc) (p q : Pid) (pc : WPc) :
    leaving (upd f p pc q) = if q = p then leaving pc else leaving (f q) := by
  unfold upd; split <;> rfl
theorem badPc_upd (f : Pid → WPc) (p q : Pid) (pc : WPc) :
    badPc (upd f p pc q) = if q = p then badPc pc else badPc (f q) := by
  unfold upd; split <;> rfl

/-- worker continuations never put the worker in a leaving or bad program counter (on benign configurations) -/
theorem wGet_pc (s : St) (p : Pid) : leaving ((wGet s p).w p) = false ∧ badPc ((wGet s p).w p) = false := by
  unfold wGet; simp only [setW_w, upd_same]; split <;> simp [leaving, badPc]
theorem wGet_other (s : St) (p q : Pid) (h : q ≠ p) : (wGet s p).w q = s.w q := by
  unfold wGet; simp [setW_w, upd_apply, h]
theorem wDispatch_pc (s : St) (hb : s.cfg.benign) (p : Pid) (m : CMsg) :
    badPc ((wDispatch s p m).w p) = false ∧ (leaving ((wDispatch s p m).w p) = false) := by
  unfold wDispatch
  split
  · rename_i w t
    have h1 := specOf_benign s hb t
    have : ((specOf s t).args == ArgKind.badunpickle) = false := by
      simp [TaskSpec.benign] at h1; simpa using h1.1.2
    simp [this, setW_w, badPc, leaving]
  · simp [setW_w, badPc, leaving]
theorem wDispatch_other (s : St) (p q : Pid) (m : CMsg) (h : q ≠ p) : (wDispatch s p m).w q = s.w q := by
  unfold wDispatch; (repeat' split) <;> simp [setW_w, upd_apply, h]
theorem wAfterResult_pc (s : St) (p : Pid) :
    badPc ((wAfterResult s p).w p) = false ∧ leaving ((wAfterResult s p).w p) = false := by
  unfold wAfterResult; simp only []
  (repeat' split) <;> first | exact ⟨(wGet_pc _ p).2, (wGet_pc _ p).1⟩ | simp [setW_w, badPc, leaving]
theorem wAfterResult_other (s : St) (p q : Pid) (h : q ≠ p) : (wAfterResult s p).w q = s.w q := by
  unfold wAfterResult; simp only []
  (repeat' split) <;> first | exact wGet_other _ p q h | simp [setW_w, upd_apply, h]
theorem wAfterStart_pc (s : St) (p : Pid) :
    badPc ((wAfterStart s p).w p) = false ∧ leaving ((wAfterStart s p).w p) = false := by
  unfold wAfterStart; split
  · simp [setW_w, badPc, leaving]
  · exact ⟨(wGet_pc _ p).2, (wGet_pc _ p).1⟩
theorem wAfterStart_other (s : St) (p q : Pid) (h : q ≠ p) : (wAfterStart s p).w q = s.w q := by
  unfold wAfterStart; split
  · simp [setW_w, upd_apply, h]
  · exact wGet_other _ p q h

end LokyModel.Exec
