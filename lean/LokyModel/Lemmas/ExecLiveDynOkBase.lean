import LokyModel.Lemmas.ExecLiveStaticM
import LokyModel.Lemmas.ExecLiveStaticF
import LokyModel.ExecLiveDynOkDef
/-! `dynOk` strengthened to an inductive invariant of dynamic-pool configurations with at most one `create`: the invariant
    as a proposition, its equivalence with the executable form, what the scope gives, the initial state. -/
namespace LokyModel.Exec.DynP
open StaticP
set_option linter.unusedSimpArgs false

/-! ### the invariant as a proposition -/

structure DI (s : St) : Prop where
  mn : mNeverD s.mpc = false
  br : s.broken = none
  kf : s.killFlag = false
  wn : ∀ p ∈ s.allPids, wNeverD (s.w p) = false
  mc : s.mpc ≠ .none → s.created = true
  rc : s.mpc = .recv → s.rqPipe ≠ []
  cr : isClrRecv s.mpc = true → 0 < s.wakeup
  je : mEmptyL s.mpc = false
  api : ∀ k, k < s.cfg.scripts.length → s.upc k = .api → (s.ucur k).isSome = true
  wc : s.wakeupClosed = true → mFinal s.mpc = true
  pe : ∀ k, k < s.cfg.scripts.length → peLike (s.upc k) = true → s.mpc ≠ .none
  wb : ∀ p ∈ s.allPids, wBadRes (s.w p) = false
  rb : ∀ r ∈ s.rqPipe, rBad r = false
  q : QOk s.cqBuf s.cqPipe s.fpc (mLate s.mpc) true
  tr : s.threadReg = true → s.mpc ≠ .none
  nks : ∀ k, k < s.cfg.scripts.length → ∀ op ∈ s.uscript k, opOkD op = true
  nkc : ∀ k, k < s.cfg.scripts.length → ucurOkD (s.ucur k) = true
  nkp : ∀ k, k < s.cfg.scripts.length → isSdKill (s.upc k) = false
  fu : s.mpc = .none → s.futs = [] ∨ ∃ k, k < s.cfg.scripts.length ∧ subEarly (s.upc k) = true
  tsn : ∀ k, k < s.cfg.scripts.length → s.upc k = .subTStart → s.mpc = .none
  hd : s.held = s.created
  cnt : heldN s + sumL (fun k => uRef (s.upc k)) (usersOf s) + mRef s.mpc ≤ s.refs
  nc : s.created = false → ∀ k, k < s.cfg.scripts.length → uRef (s.upc k) = 0
  one : createdN s + sumL (fun k => crS (s.uscript k) + crO (s.ucur k)) (usersOf s) ≤ 1

/-! ### Bool ↔ Prop -/

theorem dOk_m1 (m : MPc) (b : Bool) : dynOk.match_1 (fun _ => Bool) m (fun _ => b) (fun _ => true) = (!isClrRecv m || b) := by
  cases m <;> simp [isClrRecv]
theorem dOk_m4 (m : MPc) :
    dynOk.match_4 (fun _ => Bool) m (fun _ => false) (fun _ _ _ _ => false) (fun _ => true) = !mEmptyL m := by
  cases m with
  | jRelExit l n => cases l <;> rfl
  | jAlive l a b c d => cases l <;> rfl
  | _ => rfl
theorem dOk_m8 (m : MPc) :
    dynOk.match_8 (fun _ => Bool) m (fun _ => true) (fun _ => true) (fun _ _ _ _ => true) (fun _ => true) = true := by
  cases m <;> rfl

theorem qOk_iff (b p : List CMsg) (f : FPc) (l : Bool) :
    QOk b p f l true ↔
      (((f = .none ∨ f = .done) → b = []) ∧ (∀ m ∈ p, isClose m = false) ∧ fClose f = false ∧
       (∀ m ∈ b.dropLast, isClose m = false) ∧ (l = false → (∀ m ∈ b, isClose m = false) ∧ f ≠ .done)) := by
  constructor
  · intro h; exact ⟨h.fb, h.cp, h.fc, h.cl, h.late⟩
  · rintro ⟨a, b', c, d, e⟩
    exact { fb := a, cp := b', fc := c, cl := d, late := e, nb := fun h => absurd h (by simp), np := fun h => absurd h (by simp),
            nf := fun h => absurd h (by simp) }

theorem mem_usersOf (s : St) (k : Nat) : k ∈ usersOf s ↔ k < s.cfg.scripts.length := by simp [usersOf]

theorem di_of_bool (s : St) (h : dynOk' s = true) : DI s := by
  unfold dynOk' dynOk dynX at h
  simp only [dOk_m1, dOk_m4, dOk_m8, match_peLike, mem_usersOf, Bool.and_eq_true, Bool.or_eq_true,
    Bool.not_eq_true', List.all_eq_true, List.any_eq_true, bne_iff_ne, ne_eq, beq_iff_eq, decide_eq_true_eq,
    List.isEmpty_iff, Bool.not_eq_true, List.any_eq_false, Option.isNone_iff_eq_none, Bool.and_true] at h
  obtain ⟨⟨⟨⟨⟨⟨⟨⟨⟨⟨⟨⟨⟨⟨a1, a2⟩, a3⟩, a4⟩, a5⟩, a6⟩, a7⟩, a8⟩, a9⟩, a10⟩, a11⟩, a12⟩, a13⟩, a14⟩,
    ⟨⟨⟨⟨⟨⟨⟨⟨⟨⟨⟨⟨⟨b1, b2⟩, b3⟩, b4⟩, b5⟩, b6⟩, b7⟩, b8⟩, b9⟩, b10⟩, b11⟩, b12⟩, b13⟩, b14⟩⟩ := h
  refine { mn := a1, br := a2, kf := a3, wn := a4, mc := ?_, rc := ?_, cr := ?_, je := a9, api := ?_, wc := ?_, pe := ?_,
           wb := b1, rb := b2, q := ?_, tr := ?_,
           nks := fun k hk => (b8 k hk).1.1, nkc := fun k hk => (b8 k hk).1.2, nkp := fun k hk => (b8 k hk).2, fu := ?_,
           tsn := fun k hk hm => (b10 k hk).resolve_left (by simp [hm]), hd := b11, cnt := b12, nc := ?_, one := b14 }
  · intro hm; exact a6.resolve_left hm
  · intro hm; have := a7.resolve_left (by simp [hm]); intro e; simp [e] at this
  · intro hm; exact a8.resolve_left (by simp [hm])
  · intro k hk hm; exact (a10 k hk).resolve_left (by simp [hm])
  · intro hw; exact a13.resolve_left (by simp [hw])
  · intro k hk hm; exact (a14 k hk).resolve_left (by simp [hm])
  · rw [qOk_iff]
    refine ⟨?_, b3, b4, b5, ?_⟩
    · intro hf; refine a11.resolve_left ?_; rcases hf with e | e <;> simp [e]
    · intro hm; exact b6.resolve_left (by simp [hm])
  · intro ht; exact b7.resolve_left (by simp [ht])
  · intro hm; exact b9.resolve_left (by simp [hm])
  · intro hcr k hk; exact b13.resolve_left (by simp [hcr]) k hk

theorem bool_of_di (s : St) (h : DI s) : dynOk' s = true := by
  unfold dynOk' dynOk dynX
  simp only [dOk_m1, dOk_m4, dOk_m8, match_peLike, mem_usersOf, Bool.and_eq_true, Bool.or_eq_true,
    Bool.not_eq_true', List.all_eq_true, List.any_eq_true, bne_iff_ne, ne_eq, beq_iff_eq, decide_eq_true_eq,
    List.isEmpty_iff, Bool.not_eq_true, List.any_eq_false, Option.isNone_iff_eq_none, Bool.and_true]
  have Q := (qOk_iff _ _ _ _).1 h.q
  refine ⟨⟨⟨⟨⟨⟨⟨⟨⟨⟨⟨⟨⟨⟨h.mn, h.br⟩, h.kf⟩, h.wn⟩, ?a5⟩, ?a6⟩, ?a7⟩, ?a8⟩, h.je⟩, ?a10⟩, ?a11⟩, ?a12⟩, ?a13⟩, ?a14⟩,
    ⟨⟨⟨⟨⟨⟨⟨⟨⟨⟨⟨⟨⟨h.wb, h.rb⟩, Q.2.1⟩, Q.2.2.1⟩, Q.2.2.2.1⟩, ?b6⟩, ?b7⟩, ?b8⟩, ?b9⟩, ?b10⟩, h.hd⟩, h.cnt⟩, ?b13⟩, h.one⟩⟩
  case a5 =>
    cases hcr : s.created
    · left; rfl
    · right
      have e := h.hd
      rw [hcr] at e
      have := h.cnt
      simp only [heldN, e, if_true] at this
      exact ⟨e, by omega⟩
  case a6 =>
    by_cases hm : s.mpc = .none
    · left; exact hm
    · right; exact h.mc hm
  case a7 =>
    by_cases hm : s.mpc = .recv
    · right; have := h.rc hm; cases hq : s.rqPipe <;> simp_all
    · left; exact hm
  case a8 =>
    cases hm : isClrRecv s.mpc
    · left; rfl
    · right; exact h.cr hm
  case a10 =>
    intro k hk
    by_cases hm : s.upc k = .api
    · right; exact h.api k hk hm
    · left; exact hm
  case a11 =>
    by_cases hf : (s.fpc = .none ∨ s.fpc = .done)
    · right; exact Q.1 hf
    · left; simp_all
  case a12 =>
    by_cases hm : s.mpc = .none
    · right
      rcases h.fu hm with e | ⟨k, hk, he⟩
      · left; exact e
      · right; exact ⟨k, hk, subEarly_inShut _ he⟩
    · left; exact hm
  case a13 =>
    cases hw : s.wakeupClosed
    · left; rfl
    · right; exact h.wc hw
  case a14 =>
    intro k hk
    cases hm : peLike (s.upc k)
    · left; rfl
    · right; exact h.pe k hk hm
  case b6 =>
    cases hm : mLate s.mpc
    · right; exact Q.2.2.2.2 hm
    · left; rfl
  case b7 =>
    cases ht : s.threadReg
    · left; rfl
    · right; exact h.tr ht
  case b8 => intro k hk; exact ⟨⟨h.nks k hk, h.nkc k hk⟩, h.nkp k hk⟩
  case b9 =>
    by_cases hm : s.mpc = .none
    · right; exact h.fu hm
    · left; exact hm
  case b10 =>
    intro k hk
    by_cases hm : s.upc k = .subTStart
    · right; exact h.tsn k hk hm
    · left; exact hm
  case b13 =>
    cases hcr : s.created
    · right; exact h.nc hcr
    · left; rfl

/-! ### what the scope gives -/

theorem dp_parts (c : Cfg) (hc : c.dynPool = true) :
    c.timeout = true ∧ c.leakAfter = [] ∧ c.initFail = [] ∧ 0 < c.maxWorkers ∧
    (∀ t ∈ c.tasks, t.body ≠ .die ∧ t.args ≠ .badunpickle ∧ t.res ≠ .badunpickle) ∧
    (∀ sc ∈ c.scripts, ∀ op ∈ sc, opOkD op = true) := by
  unfold Cfg.dynPool at hc
  simp only [Bool.and_eq_true, Bool.not_eq_true', List.isEmpty_iff, decide_eq_true_eq, List.all_eq_true, bne_iff_ne, ne_eq] at hc
  obtain ⟨⟨⟨⟨⟨a, b⟩, c'⟩, d⟩, e⟩, f⟩ := hc
  refine ⟨a, b, c', d, fun t ht => ⟨(e t ht).1.1, (e t ht).1.2, (e t ht).2⟩, ?_⟩
  intro sc hsc op hop
  have := f sc hsc op hop
  simp [opOkD, this.1, this.2]

theorem dp_timeout {s : St} (hc : s.cfg.dynPool = true) : s.cfg.timeout = true := (dp_parts _ hc).1
theorem dp_leak {s : St} (hc : s.cfg.dynPool = true) : s.cfg.leakAfter = [] := (dp_parts _ hc).2.1
theorem dp_initFail {s : St} (hc : s.cfg.dynPool = true) : s.cfg.initFail = [] := (dp_parts _ hc).2.2.1
theorem dp_max {s : St} (hc : s.cfg.dynPool = true) : 0 < s.cfg.maxWorkers := (dp_parts _ hc).2.2.2.1
theorem dp_spec {s : St} (hc : s.cfg.dynPool = true) (t : Tid) :
    (specOf s t).body ≠ .die ∧ (specOf s t).args ≠ .badunpickle ∧ (specOf s t).res ≠ .badunpickle := by
  unfold specOf
  by_cases h : t < s.cfg.tasks.length
  · have : s.cfg.tasks.getD t {} = s.cfg.tasks[t] := by simp [List.getD, h]
    rw [this]
    exact (dp_parts _ hc).2.2.2.2.1 _ (List.getElem_mem h)
  · have : s.cfg.tasks.getD t {} = {} := by simp [List.getD, List.getElem?_eq_none (Nat.le_of_not_lt h)]
    rw [this]; simp
theorem dp_script (c : Cfg) (hc : c.dynPool = true) (k : Nat) : ∀ op ∈ c.scripts.getD k [], opOkD op = true := by
  by_cases h : k < c.scripts.length
  · have : c.scripts.getD k [] = c.scripts[k] := by simp [List.getD, h]
    rw [this]
    exact (dp_parts _ hc).2.2.2.2.2 _ (List.getElem_mem h)
  · have : c.scripts.getD k [] = [] := by simp [List.getD, List.getElem?_eq_none (Nat.le_of_not_lt h)]
    rw [this]; simp

/-! ### sums over the user threads -/

theorem sumL_map {α β : Type} (g : β → Nat) (f : α → β) (l : List α) : sumL g (l.map f) = sumL (fun x => g (f x)) l := by
  induction l with
  | nil => rfl
  | cons a l ih => simp [ih]

theorem sumL_range_getD {α : Type} (f : α → Nat) (d : α) (l : List α) :
    sumL (fun k => f (l.getD k d)) (List.range l.length) = sumL f l := by
  induction l with
  | nil => rfl
  | cons a l ih =>
    rw [List.length_cons, List.range_succ_eq_map, sumL_cons, sumL_map]
    simp only [sumL_cons, List.getD_cons_zero, List.getD_cons_succ]
    rw [ih]

theorem sumL_zero {α : Type} (f : α → Nat) (l : List α) (h : ∀ x ∈ l, f x = 0) : sumL f l = 0 := by
  induction l with
  | nil => rfl
  | cons a l ih =>
    simp only [sumL_cons]
    rw [h a (by simp), ih (fun x hx => h x (by simp [hx]))]

/-- one summand changes -/
theorem sumL_upd1 (F F' : Nat → Nat) (k : Nat) (l : List Nat) (hn : l.Nodup) (hk : k ∈ l) (h : ∀ j, j ≠ k → F' j = F j) :
    sumL F' l + F k = sumL F l + F' k := by
  induction l with
  | nil => simp at hk
  | cons a l ih =>
    simp only [List.nodup_cons] at hn
    simp only [sumL_cons]
    by_cases ha : a = k
    · subst ha
      have : sumL F' l = sumL F l := sumL_congr _ _ _ (fun x hx => h x (fun e => hn.1 (e ▸ hx)))
      omega
    · have hk' : k ∈ l := by simpa [Ne.symm ha] using hk
      have := ih hn.2 hk'
      have := h a ha
      omega

theorem users_upd1 (s : St) (F F' : Nat → Nat) (k : Nat) (hk : k < s.cfg.scripts.length) (h : ∀ j, j ≠ k → F' j = F j) :
    sumL F' (usersOf s) + F k = sumL F (usersOf s) + F' k :=
  sumL_upd1 F F' k _ List.nodup_range (by simp [usersOf, hk]) h

/-! ### initial state -/

theorem di_init (cfg : Cfg) (hc : cfg.dynPool = true) (ho : cfg.oneCreate = true) : DI (init cfg) := by
  refine { mn := rfl, br := rfl, kf := rfl, wn := ?_, mc := ?_, rc := ?_, cr := ?_, je := rfl, api := ?_, wc := ?_, pe := ?_,
           wb := ?_, rb := ?_, q := ?_, tr := ?_, nks := ?_, nkc := ?_, nkp := ?_, fu := ?_, tsn := ?_, hd := rfl,
           cnt := ?_, nc := ?_, one := ?_ }
  all_goals try (simp [init, isClrRecv, peLike, ucurOkD, isSdKill, uRef]; done)
  · rw [qOk_iff]; simp [init, fClose, mLate]
  · intro k _; exact dp_script cfg hc k
  · have : sumL (fun k => uRef ((init cfg).upc k)) (usersOf (init cfg)) = 0 := sumL_zero _ _ (fun _ _ => rfl)
    rw [this]; simp [init, heldN, mRef]
  · unfold Cfg.oneCreate at ho
    have ho' : sumL crS cfg.scripts ≤ 1 := by simpa using ho
    have : sumL (fun k => crS ((init cfg).uscript k) + crO ((init cfg).ucur k)) (usersOf (init cfg)) = sumL crS cfg.scripts := by
      rw [← sumL_range_getD crS [] cfg.scripts]
      apply sumL_congr
      intro k _
      simp [init, crO]
    rw [this]; simp [createdN, init]; exact ho'

end LokyModel.Exec.DynP
