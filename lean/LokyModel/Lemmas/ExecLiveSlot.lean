import LokyModel.Lemmas.ExecLiveBase
import LokyModel.Lemmas.ExecLivePids
/-! `slotOk`: the bounding semaphore of the call queue is conserved. -/
namespace LokyModel.Exec
set_option linter.unusedSimpArgs false

/-- the conserved quantity: free slots plus slots taken -/
def slotT (s : St) : Nat := s.cqSem + slots s

theorem slotOk_iff (s : St) : slotOk s = true ↔ slotT s = cap s := by
  simp [slotOk, slotT]

/-! ### what the continuations do to the summands -/

local macro "ms" : tactic => `(tactic| first | (simp; done) | (simp [mSlot]; done) | (simp_all; done) | (simp_all [mSlot]; done))

theorem mAddFuel_mSlot (n : Nat) (s : St) : mSlot (mAddFuel n s).mpc = 0 := by
  induction n generalizing s with
  | zero => simp [mAddFuel, mSlot]
  | succ n ih =>
    unfold mAddFuel
    (repeat' split) <;> first | (simp [mSlot, setFut]; done) | exact ih _
@[simp] theorem mAdd_mSlot (s : St) : mSlot (mAdd s).mpc = 0 := mAddFuel_mSlot _ _
@[simp] theorem mJoinStart_mSlot (s : St) : mSlot (mJoinStart s).mpc = 0 := rfl
@[simp] theorem mAddF_mSlot (s : St) : mSlot (mAddF s).mpc = 0 := by
  have := mAdd_mSlot s
  unfold mAddF mAfterAddF
  (repeat' split) <;> ms
@[simp] theorem mKillNext_mSlot (s : St) : mSlot (mKillNext s).mpc = 0 := by
  unfold mKillNext; split <;> ms
@[simp] theorem mAfterItem_mSlot (s : St) : mSlot (mAfterItem s).mpc = 0 := by
  unfold mAfterItem; split <;> ms
@[simp] theorem mDropRef_mSlot (s : St) : mSlot (mDropRef s).mpc = 0 := by
  unfold mDropRef; simp only []; split <;> ms
@[simp] theorem mRespawnCheck_mSlot (s : St) : mSlot (mRespawnCheck s).mpc = 0 := by
  unfold mRespawnCheck; simp only []; (repeat' split) <;> ms
@[simp] theorem mProcess_mSlot (s : St) (r : Option RMsg) : mSlot (mProcess s r).mpc = 0 := by
  unfold mProcess; (repeat' split) <;> ms
@[simp] theorem mSpawnLoop_mSlot (s : St) : mSlot (mSpawnLoop s).mpc = 0 := by
  unfold mSpawnLoop; split <;> ms
@[simp] theorem mJoinProcs_mSlot (s : St) : mSlot (mJoinProcs s).mpc = 0 := by
  unfold mJoinProcs; split <;> ms
@[simp] theorem mJoinClose_mSlot (s : St) : mSlot (mJoinClose s).mpc = 0 := by
  unfold mJoinClose; ms
@[simp] theorem mJoinLoop_mSlot (s : St) (a b c : Nat) : mSlot (mJoinLoop s a b c).mpc = 0 := by
  unfold mJoinLoop; split <;> ms
@[simp] theorem mRelExitNext_mSlot (s : St) (ps : List Pid) (n : Nat) : mSlot (mRelExitNext s ps n).mpc = 0 := by
  unfold mRelExitNext; split <;> ms
@[simp] theorem mAliveNext_mSlot (s : St) (ps : List Pid) (a b c d : Nat) : mSlot (mAliveNext s ps a b c d).mpc = 0 := by
  unfold mAliveNext; split <;> ms
@[simp] theorem mAfterPut_mSlot (s : St) (a b c d : Nat) : mSlot (mAfterPut s a b c d).mpc = 0 := by
  unfold mAfterPut; split <;> ms
@[simp] theorem mAfterFlag_mSlot (s : St) : mSlot (mAfterFlag s).mpc = 0 := by
  unfold mAfterFlag; (repeat' split) <;> ms

@[simp] theorem mJoinClose_cslot (s : St) : sumL cslot (mJoinClose s).cqBuf = sumL cslot s.cqBuf := by
  unfold mJoinClose; simp only []; split <;> simp [cslot]
@[simp] theorem mJoinLoop_cslot (s : St) (a b c : Nat) : sumL cslot (mJoinLoop s a b c).cqBuf = sumL cslot s.cqBuf := by
  unfold mJoinLoop; split <;> simp
@[simp] theorem mAfterPut_cslot (s : St) (a b c d : Nat) : sumL cslot (mAfterPut s a b c d).cqBuf = sumL cslot s.cqBuf := by
  unfold mAfterPut; split <;> simp

theorem fNext_slot (s : St) : sumL cslot (fNext s).cqBuf + fSlot (fNext s).fpc = sumL cslot s.cqBuf := by
  unfold fNext; (repeat' split) <;> simp_all [cslot, fSlot] <;> omega

theorem slotT_fNext (s : St) : slotT (fNext s) = slotT s - fSlot s.fpc := by
  have := fNext_slot s
  unfold slotT slots
  simp only [fNext_cqSem, fNext_cqPipe, fNext_mpc, fNext_w, fNext_allPids]
  omega

/-! ### the feeder -/

theorem slotT_stepF (s s' : St) (v : Variant) (hc : s.fpc ≠ .send .close) (hs : stepF s v = some s') :
    slotT s' = slotT s := by
  unfold stepF at hs
  crack
  all_goals (first | (simp only [slotT_fNext]) | skip)
  all_goals (unfold slotT slots)
  all_goals (simp_all [fSlot, cslot])
  all_goals (try omega)

/-! ### the workers -/

theorem sumL_w_step (g : WPc → Nat) (f f' : Pid → WPc) (p : Pid) (l : List Pid) (hn : l.Nodup) (h : p ∈ l)
    (hw : ∀ q, q ≠ p → f' q = f q) :
    sumL (fun q => g (f' q)) l + g (f p) = sumL (fun q => g (f q)) l + g (f' p) := by
  have := sumL_upd g f p (f' p) l hn h
  rw [← this]
  congr 1
  apply sumL_congr
  intro q _
  by_cases e : q = p
  · subst e; simp [upd]
  · simp [upd, e, hw q e]

theorem slotT_W (s s' : St) (p : Pid) (hn : s.allPids.Nodup) (hm : p ∈ s.allPids)
    (hall : s'.allPids = s.allPids) (hw : ∀ q, q ≠ p → s'.w q = s.w q)
    (hmpc : s'.mpc = s.mpc) (hfpc : s'.fpc = s.fpc) (hbuf : s'.cqBuf = s.cqBuf)
    (lost : Nat)
    (hmain : s'.cqSem + s'.cqPipe.length + wSlot (s'.w p) + lost = s.cqSem + s.cqPipe.length + wSlot (s.w p)) :
    slotT s' + lost = slotT s := by
  have := sumL_w_step wSlot s.w s'.w p s.allPids hn hm hw
  unfold slotT slots
  rw [hall, hmpc, hfpc, hbuf]
  omega

@[simp] theorem wGet_wSlot (s : St) (p : Pid) : wSlot ((wGet s p).w p) = 0 := by
  unfold wGet; split <;> simp [setW, upd, wSlot]
@[simp] theorem wDispatch_wSlot (s : St) (p : Pid) (m : CMsg) : wSlot ((wDispatch s p m).w p) = 0 := by
  unfold wDispatch; (repeat' split) <;> simp [setW, upd, wSlot]
@[simp] theorem wAfterStart_wSlot (s : St) (p : Pid) : wSlot ((wAfterStart s p).w p) = 0 := by
  unfold wAfterStart; split <;> first | (simp; done) | simp [setW, upd, wSlot]
@[simp] theorem wAfterResult_wSlot (s : St) (p : Pid) : wSlot ((wAfterResult s p).w p) = 0 := by
  unfold wAfterResult; simp only []; (repeat' split) <;> first | (simp; done) | simp [setW, upd, wSlot]

set_option maxHeartbeats 4000000 in
theorem slotT_stepW (s s' : St) (p : Pid) (v : Variant) (hp : PidsInv s) (hm : p ∈ s.allPids)
    (hs : stepW s p v = some s') : slotT s' + (if v = .crash then wSlot (s.w p) else 0) = slotT s := by
  unfold stepW at hs
  crack
  all_goals (refine slotT_W s _ p hp.nodup hm ?_ ?_ ?_ ?_ ?_ _ ?_)
  all_goals (first
    | rfl
    | (simp; done)
    | (intro q hne
       simp [wAfterStart_w_other, wGet_w_other, wDispatch_w_other, wAfterResult_w_other, setW_w_other, die_w_other, hne]; done)
    | (try simp only [wGet_wSlot, wDispatch_wSlot, wAfterStart_wSlot, wAfterResult_wSlot]
       simp [setW_w', die_w', upd_same', wSlot, *]; done)
    | (try simp only [wGet_wSlot, wDispatch_wSlot, wAfterStart_wSlot, wAfterResult_wSlot]
       simp [setW_w', die_w', upd_same', wSlot, *]; omega))

/-! ### the manager -/

theorem slotT_same (s s' : St) (hall : s'.allPids = s.allPids) (hw : s'.w = s.w)
    (hmain : s'.cqSem + sumL cslot s'.cqBuf + fSlot s'.fpc + s'.cqPipe.length + mSlot s'.mpc =
             s.cqSem + sumL cslot s.cqBuf + fSlot s.fpc + s.cqPipe.length + mSlot s.mpc) :
    slotT s' = slotT s := by
  unfold slotT slots
  rw [hall, hw]
  omega

theorem slotT_spawn (s : St) (hp : PidsInv s) : slotT (spawn s) = slotT s := by
  have hni : s.nextPid ∉ s.allPids := fun h => Nat.lt_irrefl _ (hp.lt _ h)
  unfold slotT slots
  rw [spawn_allPids', spawn_w', sumL_append, sumL_upd_notin wSlot s.w s.nextPid .start s.allPids hni]
  simp [upd, wSlot]

theorem slotT_kill (s : St) (p : Pid) (pc : MPc) (hp : PidsInv s) (h0 : mSlot pc = mSlot s.mpc) :
    slotT (die { s with mpc := pc } p (-9)) + wSlot (s.w p) = slotT s := by
  by_cases hm : p ∈ s.allPids
  · have := sumL_upd wSlot s.w p .dead s.allPids hp.nodup hm
    unfold slotT slots
    simp only [die_w', die_cqSem, die_cqBuf, die_fpc, die_cqPipe, die_mpc, die_allPids]
    have h1 : wSlot WPc.dead = 0 := rfl
    have e : sumL (fun q => wSlot (upd s.w p .dead q)) s.allPids + wSlot (s.w p) = sumL (fun q => wSlot (s.w q)) s.allPids := by
      omega
    rw [h0]
    generalize sumL (fun q => wSlot (upd s.w p .dead q)) s.allPids = A at e ⊢
    omega
  · unfold slotT slots
    simp only [die_w', die_cqSem, die_cqBuf, die_fpc, die_cqPipe, die_mpc, die_allPids]
    rw [sumL_upd_notin wSlot s.w p .dead s.allPids hm, h0, hp.dead p hm]
    rfl

/-- the slot that the manager's `kill` is about to destroy -/
def lostM (s : St) : Nat :=
  match s.mpc with
  | .kill p => wSlot (s.w p)
  | _ => 0

theorem slotT_lost0 (s s' : St) (h : slotT s' = slotT s) (h0 : lostM s = 0) : slotT s' + lostM s = slotT s := by
  rw [h0, h]; rfl

set_option maxHeartbeats 8000000 in
theorem slotT_stepM (s s' : St) (v : Variant) (hp : PidsInv s) (hts : mSlot s.mpc ≠ 0 → s.fpc = .none)
    (hs : stepM s v = some s') : slotT s' + lostM s = slotT s := by
  unfold stepM at hs
  crack
  all_goals (first
    | (refine slotT_lost0 s _ (slotT_same s _ ?_ ?_ ?_) ?_
       · first | rfl | (simp; done)
       · first | rfl | (simp; done)
       · simp
         simp_all [mSlot, fSlot, cslot] <;> omega
       · first | (simp [lostM, *]; done) | (simp_all [lostM, alive, wSlot]; done))
    | (refine slotT_lost0 s _ ((slotT_same (spawn s) _ ?_ ?_ ?_).trans (slotT_spawn s hp)) ?_
       · first | rfl | (simp; done)
       · first | rfl | (simp; done)
       · simp
         simp_all [mSlot, fSlot, cslot] <;> omega
       · simp [lostM, *]; done)
    | (rename_i p _ _
       have hl : lostM s = wSlot (s.w p) := by simp [lostM, *]
       rw [hl]
       refine slotT_kill s p _ hp ?_
       simp_all [mSlot]))

/-! ### the user threads -/

set_option maxHeartbeats 8000000 in
theorem slotT_stepU (s s' : St) (k : Nat) (v : Variant) (hp : PidsInv s)
    (hsub : s.upc k = .subTStart → mSlot s.mpc = 0) (hs : stepU s k v = some s') : slotT s' = slotT s := by
  unfold stepU at hs
  crack
  all_goals (first
    | (refine slotT_same s _ ?_ ?_ ?_
       · first | rfl | (simp; done)
       · first | rfl | (simp; done)
       · first | rfl | (simp; done) | (simp_all [mSlot]; done))
    | (refine (slotT_same (spawn s) _ ?_ ?_ ?_).trans (slotT_spawn s hp)
       · first | rfl | (simp; done)
       · first | rfl | (simp; done)
       · first | rfl | (simp; done)))

/-! ### the strengthening

`slotOk` alone is not inductive: a `send` of the close sentinel by the feeder, a thread start that overwrites a feeder or
a manager which is already running, would change the count.  None of these happens, because
* the feeder never carries the close sentinel in its hands (`fNext` consumes it),
* the manager is about to start the feeder thread only while that thread does not exist,
* a user thread is about to start the manager thread only while that thread does not exist, and there is at most one
  such user thread because it holds the `mgmt` lock (processes-management lock) — which needs the mutual-exclusion
  invariant of that lock. -/

/-- executable form of the strengthening -/
def slotExtra (s : St) : Bool :=
  (match s.fpc with | .acq .close | .send .close => false | _ => true) &&
  (mSlot s.mpc == 0 || s.fpc == FPc.none) &&
  (List.range s.cfg.scripts.length).all (fun k => s.upc k != .subTStart || s.mpc == MPc.none) &&
  (match s.oMgmt with | none => s.mgmt == 1 | some _ => s.mgmt == 0) &&
  (List.range s.cfg.scripts.length).all (fun k => !inMgmtU' (s.upc k) || s.oMgmt == some (.U k)) &&
  (!inMgmtM' s.mpc || s.oMgmt == some .M) &&
  s.allPids.all (fun p => s.w p != .eRel || s.oMgmt == some (.W p))

def slotOk' (s : St) : Bool := slotOk s && slotExtra s

structure SlotX (s : St) : Prop where
  noClose : s.fpc ≠ .acq .close ∧ s.fpc ≠ .send .close
  tstart : mSlot s.mpc ≠ 0 → s.fpc = .none
  sub : ∀ k, k < s.cfg.scripts.length → s.upc k = .subTStart → s.mpc = .none
  mg0 : s.oMgmt = none → s.mgmt = 1
  mg1 : s.oMgmt ≠ none → s.mgmt = 0
  mgU : ∀ k, k < s.cfg.scripts.length → inMgmtU' (s.upc k) = true → s.oMgmt = some (.U k)
  mgM : inMgmtM' s.mpc = true → s.oMgmt = some .M
  mgW : ∀ p, p ∈ s.allPids → s.w p = .eRel → s.oMgmt = some (.W p)

theorem slotExtra_iff (s : St) : slotExtra s = true ↔ SlotX s := by
  constructor
  · intro h
    simp only [slotExtra, Bool.and_eq_true, List.all_eq_true, List.mem_range, Bool.or_eq_true, bne_iff_ne,
      beq_iff_eq, Bool.not_eq_true', ne_eq] at h
    obtain ⟨⟨⟨⟨⟨⟨h1, h2⟩, h3⟩, h4⟩, h5⟩, h6⟩, h7⟩ := h
    refine ⟨?_, ?_, ?_, ?_, ?_, ?_, ?_, ?_⟩
    · constructor <;> (intro e; rw [e] at h1; simp at h1)
    · intro hm; rcases h2 with h2 | h2
      · exact absurd h2 hm
      · exact h2
    · intro k hk e; rcases h3 k hk with h | h
      · exact absurd e h
      · exact h
    · intro e; rw [e] at h4; simpa using h4
    · intro e; cases ho : s.oMgmt with
      | none => exact absurd ho e
      | some a => rw [ho] at h4; simpa using h4
    · intro k hk e; rcases h5 k hk with h | h
      · rw [e] at h; cases h
      · exact h
    · intro e; rcases h6 with h | h
      · rw [e] at h; cases h
      · exact h
    · intro p hp e; rcases h7 p hp with h | h
      · exact absurd e h
      · exact h
  · intro hx
    obtain ⟨⟨a1, a2⟩, b, c, d, e, f, g, w⟩ := hx
    simp only [slotExtra, Bool.and_eq_true, List.all_eq_true, List.mem_range, Bool.or_eq_true, bne_iff_ne,
      beq_iff_eq, Bool.not_eq_true', ne_eq]
    refine ⟨⟨⟨⟨⟨⟨?_, ?_⟩, ?_⟩, ?_⟩, ?_⟩, ?_⟩, ?_⟩
    · trivial
    · by_cases h : mSlot s.mpc = 0
      · exact .inl h
      · exact .inr (b h)
    · intro k hk; by_cases h : s.upc k = .subTStart
      · exact .inr (c k hk h)
      · exact .inl h
    · cases ho : s.oMgmt with
      | none => simpa using d ho
      | some a => simpa using e (by simp [ho])
    · intro k hk; cases h : inMgmtU' (s.upc k) with
      | false => exact .inl rfl
      | true => exact .inr (f k hk h)
    · cases h : inMgmtM' s.mpc with
      | false => exact .inl rfl
      | true => exact .inr (g h)
    · intro p hp; by_cases h : s.w p = .eRel
      · exact .inr (w p hp h)
      · exact .inl h

/-! ### the strengthening is inductive: feeder -/

theorem slotX_fpc_only (s s' : St) (h : SlotX s)
    (hmpc : s'.mpc = s.mpc) (hupc : s'.upc = s.upc) (hcfg : s'.cfg = s.cfg) (hmg : s'.mgmt = s.mgmt)
    (ho : s'.oMgmt = s.oMgmt) (hw : s'.w = s.w) (hall : s'.allPids = s.allPids)
    (h1 : s'.fpc ≠ .acq .close ∧ s'.fpc ≠ .send .close) (h2 : mSlot s.mpc ≠ 0 → s'.fpc = .none) : SlotX s' := by
  obtain ⟨_, b, c, d, e, f, g, w⟩ := h
  refine ⟨h1, ?_, ?_, ?_, ?_, ?_, ?_, ?_⟩
  · rw [hmpc]; exact h2
  · rw [hmpc, hupc, hcfg]; exact c
  · rw [hmg, ho]; exact d
  · rw [hmg, ho]; exact e
  · rw [hupc, hcfg, ho]; exact f
  · rw [hmpc, ho]; exact g
  · rw [hw, hall, ho]; exact w

theorem fNext_noClose (s : St) : (fNext s).fpc ≠ .acq .close ∧ (fNext s).fpc ≠ .send .close := by
  unfold fNext; (repeat' split) <;> simp

set_option maxHeartbeats 4000000 in
theorem slotX_stepF (s s' : St) (v : Variant) (h : SlotX s) (hs : stepF s v = some s') : SlotX s' := by
  have h1 := h.noClose
  have h2 := h.tstart
  unfold stepF at hs
  crack
  all_goals (refine slotX_fpc_only s _ h ?_ ?_ ?_ ?_ ?_ ?_ ?_ ?_ ?_)
  all_goals (first
    | rfl
    | (simp; done)
    | exact fNext_noClose _
    | (simp_all; done)
    | (intro hm; have := h2 hm; simp_all; done))

/-! ### workers -/

theorem slotX_W (s s' : St) (p : Pid) (h : SlotX s)
    (hfpc : s'.fpc = s.fpc) (hmpc : s'.mpc = s.mpc) (hupc : s'.upc = s.upc) (hcfg : s'.cfg = s.cfg)
    (hall : s'.allPids = s.allPids) (hw : ∀ q, q ≠ p → s'.w q = s.w q)
    (hmg : (s'.mgmt = s.mgmt ∧ s'.oMgmt = s.oMgmt ∧ (s'.w p = .eRel → s.w p = .eRel)) ∨
           (0 < s.mgmt ∧ s'.mgmt = s.mgmt - 1 ∧ s'.oMgmt = some (.W p)) ∨
           (p ∈ s.allPids ∧ s.w p = .eRel ∧ s'.mgmt = s.mgmt + 1 ∧ s'.oMgmt = none ∧ s'.w p ≠ .eRel)) : SlotX s' := by
  obtain ⟨a, b, c, d, e, f, g, w⟩ := h
  refine ⟨by rw [hfpc]; exact a, by rw [hfpc, hmpc]; exact b, by rw [hmpc, hupc, hcfg]; exact c, ?_, ?_, ?_, ?_, ?_⟩
  all_goals (try rw [hupc]); all_goals (try rw [hcfg]); all_goals (try rw [hmpc]); all_goals (try rw [hall])
  · rcases hmg with ⟨h1, h2, _⟩ | ⟨h1, h2, h3⟩ | ⟨hm, h0, h1, h2, _⟩
    · rw [h1, h2]; exact d
    · rw [h3]; intro x; cases x
    · intro _; have := e (by rw [w p hm h0]; simp); omega
  · rcases hmg with ⟨h1, h2, _⟩ | ⟨h1, h2, h3⟩ | ⟨hm, h0, h1, h2, _⟩
    · rw [h1, h2]; exact e
    · intro _
      have : s.oMgmt = none := by
        cases ho : s.oMgmt with
        | none => rfl
        | some x => have := e (by simp [ho]); omega
      have := d this; omega
    · intro x; exact absurd h2 x
  · intro k hk hin
    have hf := f k hk hin
    rcases hmg with ⟨h1, h2, _⟩ | ⟨h1, h2, h3⟩ | ⟨hm, h0, h1, h2, _⟩
    · rw [h2]; exact hf
    · have := e (by simp [hf]); omega
    · rw [w p hm h0] at hf; cases hf
  · intro hin
    have hg := g hin
    rcases hmg with ⟨h1, h2, _⟩ | ⟨h1, h2, h3⟩ | ⟨hm, h0, h1, h2, _⟩
    · rw [h2]; exact hg
    · have := e (by simp [hg]); omega
    · rw [w p hm h0] at hg; cases hg
  · intro q hq hin
    by_cases hqp : q = p
    · subst hqp
      rcases hmg with ⟨h1, h2, h3⟩ | ⟨h1, h2, h3⟩ | ⟨hm, h0, h1, h2, h3⟩
      · rw [h2]; exact w q hq (h3 hin)
      · exact h3
      · exact absurd hin h3
    · rw [hw q hqp] at hin
      have hx := w q hq hin
      rcases hmg with ⟨h1, h2, _⟩ | ⟨h1, h2, h3⟩ | ⟨hm, h0, h1, h2, _⟩
      · rw [h2]; exact hx
      · have := e (by simp [hx]); omega
      · rw [w p hm h0] at hx; injection hx with hx; injection hx with hx; exact absurd hx.symm hqp

@[simp] theorem wGet_ne_eRel (s : St) (p : Pid) : (wGet s p).w p ≠ .eRel := by
  unfold wGet; split <;> simp [setW, upd]
@[simp] theorem wDispatch_ne_eRel (s : St) (p : Pid) (m : CMsg) : (wDispatch s p m).w p ≠ .eRel := by
  unfold wDispatch; (repeat' split) <;> simp [setW, upd]
@[simp] theorem wAfterStart_ne_eRel (s : St) (p : Pid) : (wAfterStart s p).w p ≠ .eRel := by
  unfold wAfterStart; split <;> first | (simp; done) | simp [setW, upd]
@[simp] theorem wAfterResult_ne_eRel (s : St) (p : Pid) : (wAfterResult s p).w p ≠ .eRel := by
  unfold wAfterResult; simp only []; (repeat' split) <;> first | (simp; done) | simp [setW, upd]

set_option maxHeartbeats 8000000 in
theorem slotX_stepW (s s' : St) (p : Pid) (v : Variant) (h : SlotX s) (hm : p ∈ s.allPids)
    (hs : stepW s p v = some s') : SlotX s' := by
  unfold stepW at hs
  crack
  all_goals (refine slotX_W s _ p h ?_ ?_ ?_ ?_ ?_ ?_ ?_)
  all_goals (first
    | rfl
    | (simp; done)
    | (intro q hne
       simp [wAfterStart_w_other, wGet_w_other, wDispatch_w_other, wAfterResult_w_other, setW_w_other, die_w_other, hne]; done)
    | (refine .inl ⟨?_, ?_, ?_⟩
       · first | rfl | (simp; done)
       · first | rfl | (simp; done)
       · simp [setW_w', die_w', upd_same', *]; done)
    | (refine .inr (.inl ⟨?_, ?_, ?_⟩)
       · assumption
       · first | rfl | (simp; done)
       · first | rfl | (simp; done))
    | (refine .inr (.inr ⟨hm, ?_, ?_, ?_, ?_⟩)
       · assumption
       · first | rfl | (simp; done)
       · first | rfl | (simp; done)
       · simp [setW_w', die_w', upd_same', *]; done))

/-! ### manager -/

local macro "mm" : tactic => `(tactic| first | (simp; done) | (simp [inMgmtM']; done) | (simp_all; done) | (simp_all [inMgmtM']; done))

theorem mAddFuel_inMgmt (n : Nat) (s : St) : inMgmtM' (mAddFuel n s).mpc = false := by
  induction n generalizing s with
  | zero => simp [mAddFuel, inMgmtM']
  | succ n ih =>
    unfold mAddFuel
    (repeat' split) <;> first | (simp [inMgmtM', setFut]; done) | exact ih _
@[simp] theorem mAdd_inMgmt (s : St) : inMgmtM' (mAdd s).mpc = false := mAddFuel_inMgmt _ _
@[simp] theorem mJoinStart_inMgmt (s : St) : inMgmtM' (mJoinStart s).mpc = false := rfl
@[simp] theorem mAddF_inMgmt (s : St) : inMgmtM' (mAddF s).mpc = false := by
  have := mAdd_inMgmt s
  unfold mAddF mAfterAddF
  (repeat' split) <;> mm
@[simp] theorem mKillNext_inMgmt (s : St) : inMgmtM' (mKillNext s).mpc = false := by
  unfold mKillNext; split <;> mm
@[simp] theorem mAfterItem_inMgmt (s : St) : inMgmtM' (mAfterItem s).mpc = false := by
  unfold mAfterItem; split <;> mm
@[simp] theorem mDropRef_inMgmt (s : St) : inMgmtM' (mDropRef s).mpc = false := by
  unfold mDropRef; simp only []; split <;> mm
@[simp] theorem mRespawnCheck_inMgmt (s : St) : inMgmtM' (mRespawnCheck s).mpc = false := by
  unfold mRespawnCheck; simp only []; (repeat' split) <;> mm
@[simp] theorem mProcess_inMgmt (s : St) (r : Option RMsg) : inMgmtM' (mProcess s r).mpc = false := by
  unfold mProcess; (repeat' split) <;> mm
@[simp] theorem mJoinClose_inMgmt (s : St) : inMgmtM' (mJoinClose s).mpc = false := by
  unfold mJoinClose; mm
@[simp] theorem mJoinLoop_inMgmt (s : St) (a b c : Nat) : inMgmtM' (mJoinLoop s a b c).mpc = false := by
  unfold mJoinLoop; split <;> mm
@[simp] theorem mAfterPut_inMgmt (s : St) (a b c d : Nat) : inMgmtM' (mAfterPut s a b c d).mpc = false := by
  unfold mAfterPut; split <;> mm
@[simp] theorem mAfterFlag_inMgmt (s : St) : inMgmtM' (mAfterFlag s).mpc = false := by
  unfold mAfterFlag; (repeat' split) <;> mm

theorem slotX_M (s s' : St) (h : SlotX s) (hne : s.mpc ≠ .none)
    (hupc : s'.upc = s.upc) (hcfg : s'.cfg = s.cfg)
    (hw : ∀ q, q ∈ s'.allPids → s'.w q = .eRel → q ∈ s.allPids ∧ s.w q = .eRel)
    (h1 : s'.fpc ≠ .acq .close ∧ s'.fpc ≠ .send .close)
    (h2 : mSlot s'.mpc ≠ 0 → s'.fpc = .none)
    (hmg : (s'.mgmt = s.mgmt ∧ s'.oMgmt = s.oMgmt ∧ (inMgmtM' s'.mpc = true → inMgmtM' s.mpc = true)) ∨
           (0 < s.mgmt ∧ s'.mgmt = s.mgmt - 1 ∧ s'.oMgmt = some .M) ∨
           (inMgmtM' s.mpc = true ∧ s'.mgmt = s.mgmt + 1 ∧ s'.oMgmt = none ∧ inMgmtM' s'.mpc = false)) :
    SlotX s' := by
  obtain ⟨a, b, c, d, e, f, g, w⟩ := h
  refine ⟨h1, h2, ?_, ?_, ?_, ?_, ?_, ?_⟩
  all_goals (try rw [hupc]); all_goals (try rw [hcfg])
  · intro k hk hk'; exact absurd (c k hk hk') hne
  · rcases hmg with ⟨h1, h2, _⟩ | ⟨h1, h2, h3⟩ | ⟨h0, h1, h2, _⟩
    · rw [h1, h2]; exact d
    · rw [h3]; intro x; cases x
    · intro _; have := e (by rw [g h0]; simp); omega
  · rcases hmg with ⟨h1, h2, _⟩ | ⟨h1, h2, h3⟩ | ⟨h0, h1, h2, _⟩
    · rw [h1, h2]; exact e
    · intro _
      have : s.oMgmt = none := by
        cases ho : s.oMgmt with
        | none => rfl
        | some x => have := e (by simp [ho]); omega
      have := d this; omega
    · intro x; exact absurd h2 x
  · intro k hk hin
    have hf := f k hk hin
    rcases hmg with ⟨h1, h2, _⟩ | ⟨h1, h2, h3⟩ | ⟨h0, h1, h2, _⟩
    · rw [h2]; exact hf
    · have := e (by simp [hf]); omega
    · rw [g h0] at hf; cases hf
  · intro hin
    rcases hmg with ⟨h1, h2, h3⟩ | ⟨h1, h2, h3⟩ | ⟨h0, h1, h2, h3⟩
    · rw [h2]; exact g (h3 hin)
    · exact h3
    · rw [h3] at hin; cases hin
  · intro q hq hin
    obtain ⟨hq', hin'⟩ := hw q hq hin
    have hx := w q hq' hin'
    rcases hmg with ⟨h1, h2, _⟩ | ⟨h1, h2, h3⟩ | ⟨h0, h1, h2, _⟩
    · rw [h2]; exact hx
    · have := e (by simp [hx]); omega
    · rw [g h0] at hx; cases hx

theorem hw_same (s s' : St) (h1 : s'.allPids = s.allPids) (h2 : s'.w = s.w) :
    ∀ q, q ∈ s'.allPids → s'.w q = .eRel → q ∈ s.allPids ∧ s.w q = .eRel := by
  intro q hq e; rw [h1] at hq; rw [h2] at e; exact ⟨hq, e⟩
theorem hw_spawn (s s' : St) (h1 : s'.allPids = (spawn s).allPids) (h2 : s'.w = (spawn s).w) :
    ∀ q, q ∈ s'.allPids → s'.w q = .eRel → q ∈ s.allPids ∧ s.w q = .eRel := by
  intro q hq e; rw [h1, spawn_allPids'] at hq; rw [h2, spawn_w'] at e
  by_cases hqp : q = s.nextPid
  · subst hqp; simp [upd] at e
  · rw [upd_other' _ _ _ _ hqp] at e
    exact ⟨by simpa [hqp] using hq, e⟩
theorem hw_die (s s' : St) (p : Pid) (h1 : s'.allPids = s.allPids) (h2 : s'.w = upd s.w p .dead) :
    ∀ q, q ∈ s'.allPids → s'.w q = .eRel → q ∈ s.allPids ∧ s.w q = .eRel := by
  intro q hq e; rw [h1] at hq; rw [h2] at e
  by_cases hqp : q = p
  · subst hqp; simp [upd] at e
  · rw [upd_other' _ _ _ _ hqp] at e
    exact ⟨hq, e⟩

set_option maxHeartbeats 8000000 in
theorem slotX_stepM (s s' : St) (v : Variant) (h : SlotX s) (hs : stepM s v = some s') : SlotX s' := by
  have hc := h.noClose
  have ht := h.tstart
  unfold stepM at hs
  crack
  all_goals (refine slotX_M s _ h ?_ ?_ ?_ ?_ ?_ ?_ ?_)
  all_goals (first
    | rfl
    | (simp [*]; done)
    | (refine hw_same s _ ?_ ?_ <;> first | rfl | (simp; done))
    | (refine hw_spawn s _ ?_ ?_ <;> first | rfl | (simp; done))
    | exact hw_die s _ _ rfl rfl
    | (simp [mSlot]; done)
    | (simp_all [mSlot]; done)
    | (refine .inl ⟨?_, ?_, ?_⟩
       · first | rfl | (simp; done)
       · first | rfl | (simp; done)
       · first | (simp; done) | (simp [inMgmtM', *]; done))
    | (refine .inr (.inl ⟨?_, ?_, ?_⟩)
       · assumption
       · first | rfl | (simp; done)
       · first | rfl | (simp; done))
    | (refine .inr (.inr ⟨?_, ?_, ?_, ?_⟩)
       · simp [inMgmtM', *]; done
       · first | rfl | (simp; done)
       · first | rfl | (simp; done)
       · first | (simp; done) | (simp [inMgmtM', *]; done)))

/-! ### user threads -/

theorem setU_upc_other_slot (s : St) (k j : Nat) (pc : UPc) (h : j ≠ k) : (setU s k pc).upc j = s.upc j := by
  simp [setU, upd, h]
theorem uNext_upc_other_slot (s : St) (k j : Nat) (h : j ≠ k) : (uNext s k).upc j = s.upc j := by
  unfold uNext; split <;> simp [setU, upd, h]
theorem uRelease_upc_other_slot (s : St) (k j : Nat) (h : j ≠ k) : (uRelease s k).upc j = s.upc j := by
  unfold uRelease; simp only []; split
  · simp [setU, upd, h]
  · rw [uNext_upc_other_slot _ _ _ h]
theorem uSpawnLoop_upc_other_slot (s : St) (k j : Nat) (h : j ≠ k) : (uSpawnLoop s k).upc j = s.upc j := by
  unfold uSpawnLoop; (repeat' split) <;> simp [setU, upd, h]
theorem uDispatch_upc_other_slot (s : St) (k j : Nat) (op : UOp) (h : j ≠ k) : (uDispatch s k op).upc j = s.upc j := by
  unfold uDispatch
  (repeat' split) <;> simp [uNext_upc_other_slot, uRelease_upc_other_slot, setU_upc_other_slot, h]

@[simp] theorem uNext_inMgmt (s : St) (k : Nat) : inMgmtU' ((uNext s k).upc k) = false := by
  unfold uNext; split <;> simp [setU, upd, inMgmtU']
@[simp] theorem uRelease_inMgmt (s : St) (k : Nat) : inMgmtU' ((uRelease s k).upc k) = false := by
  unfold uRelease; simp only []; split
  · simp [setU, upd, inMgmtU']
  · simp
@[simp] theorem uDispatch_inMgmt (s : St) (k : Nat) (op : UOp) : inMgmtU' ((uDispatch s k op).upc k) = false := by
  unfold uDispatch
  (repeat' split) <;> first | (simp; done) | (simp [setU, upd, inMgmtU']; done)
theorem ne_subTStart_of (pc : UPc) (h : inMgmtU' pc = false) : pc ≠ .subTStart := by
  intro e; rw [e] at h; cases h
@[simp] theorem uNext_ne_sub (s : St) (k : Nat) : (uNext s k).upc k ≠ .subTStart := ne_subTStart_of _ (by simp)
@[simp] theorem uRelease_ne_sub (s : St) (k : Nat) : (uRelease s k).upc k ≠ .subTStart := ne_subTStart_of _ (by simp)
@[simp] theorem uDispatch_ne_sub (s : St) (k : Nat) (op : UOp) : (uDispatch s k op).upc k ≠ .subTStart :=
  ne_subTStart_of _ (by simp)
theorem uSpawnLoop_sub (s : St) (k : Nat) (h : (uSpawnLoop s k).upc k = .subTStart) : s.mpc = .none := by
  unfold uSpawnLoop at h
  (repeat' split at h) <;> first | assumption | (simp [setU, upd] at h)

theorem slotX_U (s s' : St) (k : Nat) (h : SlotX s) (hk : k < s.cfg.scripts.length)
    (hfpc : s'.fpc = s.fpc) (hcfg : s'.cfg = s.cfg)
    (hupc : ∀ j, j ≠ k → s'.upc j = s.upc j)
    (hw : ∀ q, q ∈ s'.allPids → s'.w q = .eRel → q ∈ s.allPids ∧ s.w q = .eRel)
    (hmpc : (s'.mpc = s.mpc ∧ (s'.upc k = .subTStart → s.mpc = .none)) ∨
            (s.upc k = .subTStart ∧ s'.mpc = .start ∧ s'.upc k ≠ .subTStart))
    (hmg : (s'.mgmt = s.mgmt ∧ s'.oMgmt = s.oMgmt ∧ (inMgmtU' (s'.upc k) = true → inMgmtU' (s.upc k) = true)) ∨
           (0 < s.mgmt ∧ s'.mgmt = s.mgmt - 1 ∧ s'.oMgmt = some (.U k)) ∨
           (inMgmtU' (s.upc k) = true ∧ s'.mgmt = s.mgmt + 1 ∧ s'.oMgmt = none ∧ inMgmtU' (s'.upc k) = false)) :
    SlotX s' := by
  obtain ⟨a, b, c, d, e, f, g, w⟩ := h
  have uniq : ∀ j, j < s.cfg.scripts.length → inMgmtU' (s.upc j) = true → inMgmtU' (s.upc k) = true → j = k := by
    intro j hj h1 h2
    have := f j hj h1
    rw [f k hk h2] at this
    injection this with this; injection this with this; exact this.symm
  refine ⟨by rw [hfpc]; exact a, ?_, ?_, ?_, ?_, ?_, ?_, ?_⟩
  all_goals (try rw [hcfg])
  · rw [hfpc]
    rcases hmpc with ⟨h1, _⟩ | ⟨_, h1, _⟩
    · rw [h1]; exact b
    · rw [h1]; intro x; exact absurd rfl x
  · intro j hj hj'
    by_cases hjk : j = k
    · subst hjk
      rcases hmpc with ⟨h1, h2⟩ | ⟨_, _, h2⟩
      · rw [h1]; exact h2 hj'
      · exact absurd hj' h2
    · rw [hupc j hjk] at hj'
      rcases hmpc with ⟨h1, _⟩ | ⟨h0, _, _⟩
      · rw [h1]; exact c j hj hj'
      · exact absurd (uniq j hj (by rw [hj']; rfl) (by rw [h0]; rfl)) hjk
  · rcases hmg with ⟨h1, h2, _⟩ | ⟨h1, h2, h3⟩ | ⟨h0, h1, h2, _⟩
    · rw [h1, h2]; exact d
    · rw [h3]; intro x; cases x
    · intro _; have := e (by rw [f k hk h0]; simp); omega
  · rcases hmg with ⟨h1, h2, _⟩ | ⟨h1, h2, h3⟩ | ⟨h0, h1, h2, _⟩
    · rw [h1, h2]; exact e
    · intro _
      have : s.oMgmt = none := by
        cases ho : s.oMgmt with
        | none => rfl
        | some x => have := e (by simp [ho]); omega
      have := d this; omega
    · intro x; exact absurd h2 x
  · intro j hj hin
    by_cases hjk : j = k
    · subst hjk
      rcases hmg with ⟨h1, h2, h3⟩ | ⟨h1, h2, h3⟩ | ⟨h0, h1, h2, h3⟩
      · rw [h2]; exact f j hj (h3 hin)
      · exact h3
      · rw [h3] at hin; cases hin
    · rw [hupc j hjk] at hin
      have hf := f j hj hin
      rcases hmg with ⟨h1, h2, _⟩ | ⟨h1, h2, h3⟩ | ⟨h0, h1, h2, _⟩
      · rw [h2]; exact hf
      · have := e (by simp [hf]); omega
      · exact absurd (uniq j hj hin h0) hjk
  · intro hin
    rcases hmpc with ⟨hm, _⟩ | ⟨_, hm, _⟩
    · rw [hm] at hin
      have hg := g hin
      rcases hmg with ⟨h1, h2, _⟩ | ⟨h1, h2, h3⟩ | ⟨h0, h1, h2, _⟩
      · rw [h2]; exact hg
      · have := e (by simp [hg]); omega
      · rw [f k hk h0] at hg; cases hg
    · rw [hm] at hin; cases hin
  · intro q hq hin
    obtain ⟨hq', hin'⟩ := hw q hq hin
    have hx := w q hq' hin'
    rcases hmg with ⟨h1, h2, _⟩ | ⟨h1, h2, h3⟩ | ⟨h0, h1, h2, _⟩
    · rw [h2]; exact hx
    · have := e (by simp [hx]); omega
    · rw [f k hk h0] at hx; cases hx

set_option maxHeartbeats 16000000 in
theorem slotX_stepU (s s' : St) (k : Nat) (v : Variant) (h : SlotX s) (hk : k < s.cfg.scripts.length)
    (hs : stepU s k v = some s') : SlotX s' := by
  unfold stepU at hs
  crack
  all_goals (refine slotX_U s _ k h hk ?_ ?_ ?_ ?_ ?_ ?_)
  all_goals (first
    | rfl
    | (simp; done)
    | (intro j hj
       simp [uNext_upc_other_slot, uRelease_upc_other_slot, setU_upc_other_slot, uSpawnLoop_upc_other_slot, uDispatch_upc_other_slot, hj]; done)
    | (refine hw_same s _ ?_ ?_ <;> first | rfl | (simp; done))
    | (refine hw_spawn s _ ?_ ?_ <;> first | rfl | (simp; done))
    | (refine .inl ⟨?_, ?_⟩
       · first | rfl | (simp; done)
       · first
         | (simp [setU_upc', upd_same']; done)
         | (intro e; have := uSpawnLoop_sub _ _ e; simpa using this)
         | (intro e; simp [setU_upc', upd_same'] at e; simp_all; done))
    | (refine .inr ⟨?_, ?_, ?_⟩
       · assumption
       · first | rfl | (simp; done)
       · simp [setU_upc', upd_same']; done)
    | (refine .inl ⟨?_, ?_, ?_⟩
       · first | rfl | (simp; done)
       · first | rfl | (simp; done)
       · first | (simp [setU_upc', upd_same', inMgmtU']; done) | (simp [setU_upc', upd_same', inMgmtU', *]; done))
    | (refine .inr (.inl ⟨?_, ?_, ?_⟩)
       · assumption
       · first | rfl | (simp; done)
       · first | rfl | (simp; done))
    | (refine .inr (.inr ⟨?_, ?_, ?_, ?_⟩)
       · simp [inMgmtU', *]; done
       · first | rfl | (simp; done)
       · first | rfl | (simp; done)
       · first | (simp [setU_upc', upd_same', inMgmtU']; done) | (simp [setU_upc', upd_same', inMgmtU', *]; done)))

/-! ### the configuration never changes -/

set_option maxHeartbeats 4000000 in
theorem cfg_stepW (s s' : St) (p : Pid) (v : Variant) (hs : stepW s p v = some s') : s'.cfg = s.cfg := by
  unfold stepW at hs
  crack
  all_goals (first | rfl | (simp; done))
set_option maxHeartbeats 4000000 in
theorem cfg_stepF (s s' : St) (v : Variant) (hs : stepF s v = some s') : s'.cfg = s.cfg := by
  unfold stepF at hs
  crack
  all_goals (first | rfl | (simp; done))
set_option maxHeartbeats 4000000 in
theorem cfg_stepM (s s' : St) (v : Variant) (hs : stepM s v = some s') : s'.cfg = s.cfg := by
  unfold stepM at hs
  crack
  all_goals (first | rfl | (simp; done))
set_option maxHeartbeats 4000000 in
theorem cfg_stepU (s s' : St) (k : Nat) (v : Variant) (hs : stepU s k v = some s') : s'.cfg = s.cfg := by
  unfold stepU at hs
  crack
  all_goals (first | rfl | (simp; done))

theorem cfg_step_slot {s s' : St} {a : Actor} {v : Variant} (hs : step s a v = some s') : s'.cfg = s.cfg := by
  unfold step at hs
  cases a with
  | U k => simp only [] at hs; split at hs; exact cfg_stepU s s' k v hs; cases hs
  | M => exact cfg_stepM s s' v hs
  | F => exact cfg_stepF s s' v hs
  | W p => simp only [] at hs; split at hs; exact cfg_stepW s s' p v hs; cases hs

/-! ### assembly -/

/-- `SlotX` is inductive by itself, for every step of every actor (crashes included) -/
theorem slotX_step {s s' : St} {a : Actor} {v : Variant} (h : SlotX s) (hs : step s a v = some s') : SlotX s' := by
  unfold step at hs
  cases a with
  | U k => simp only [] at hs; split at hs; exact slotX_stepU s s' k v h (by assumption) hs; cases hs
  | M => exact slotX_stepM s s' v h hs
  | F => exact slotX_stepF s s' v h hs
  | W p => simp only [] at hs; split at hs; exact slotX_stepW s s' p v h (by assumption) hs; cases hs

theorem slotX_init (cfg : Cfg) : SlotX (init cfg) := by
  constructor <;> simp [init, mSlot, inMgmtM', inMgmtU']

theorem slotX_reachable {cfg : Cfg} {s : St} (h : Reachable cfg s) : SlotX s := by
  induction h with
  | init => exact slotX_init cfg
  | step _ hs ih => exact slotX_step ih hs

/-- the slots that a step destroys: the manager's `kill` of a worker that holds one, a crash of such a worker -/
def lost (s : St) : Actor → Variant → Nat
  | .M, _ => lostM s
  | .W p, .crash => wSlot (s.w p)
  | _, _ => 0

/-- exact accounting of the bounding semaphore, for every step of every actor -/
theorem slotT_step {s s' : St} {a : Actor} {v : Variant} (hs : step s a v = some s') (hp : PidsInv s) (hx : SlotX s) :
    slotT s' + lost s a v = slotT s := by
  unfold step at hs
  cases a with
  | U k =>
    simp only [] at hs; split at hs
    · rename_i hk
      exact slotT_stepU s s' k v hp (fun e => by rw [hx.sub k hk e]; rfl) hs
    · cases hs
  | M => exact slotT_stepM s s' v hp hx.tstart hs
  | F => exact slotT_stepF s s' v hx.noClose.2 hs
  | W p =>
    simp only [] at hs; split at hs
    · rename_i hm
      have := slotT_stepW s s' p v hp hm hs
      cases v <;> simpa [lost] using this
    · cases hs

theorem cap_step {s s' : St} {a : Actor} {v : Variant} (hs : step s a v = some s') : cap s' = cap s := by
  unfold cap; rw [cfg_step_slot hs]

/-! ### the strengthening, executable form -/

theorem slotExtra_init (cfg : Cfg) : slotExtra (init cfg) = true := (slotExtra_iff _).2 (slotX_init cfg)

/-- `slotExtra` is inductive by itself, no hypothesis, crash steps included -/
theorem slotExtra_step {s s' : St} {a : Actor} {v : Variant} (hs : step s a v = some s') (h : slotExtra s = true) :
    slotExtra s' = true := (slotExtra_iff _).2 (slotX_step ((slotExtra_iff _).1 h) hs)

theorem slotExtra_reachable {cfg : Cfg} {s : St} (h : Reachable cfg s) : slotExtra s = true :=
  (slotExtra_iff _).2 (slotX_reachable h)

/-! ### `slotOk` -/

theorem slotOk_init (cfg : Cfg) : slotOk (init cfg) = true := by
  simp [slotOk, slots, cap, init, fSlot, mSlot]

theorem slotOk'_init (cfg : Cfg) : slotOk' (init cfg) = true := by
  simp only [slotOk', Bool.and_eq_true]; exact ⟨slotOk_init cfg, slotExtra_init cfg⟩

/-- a step keeps `slotOk` if and only if it destroys no slot -/
theorem slotOk_step_iff {s s' : St} {a : Actor} {v : Variant} (hs : step s a v = some s') (hp : PidsInv s)
    (hx : slotExtra s = true) (h : slotOk s = true) : slotOk s' = true ↔ lost s a v = 0 := by
  have h1 := slotT_step hs hp ((slotExtra_iff _).1 hx)
  have h2 := cap_step hs
  rw [slotOk_iff] at h ⊢
  omega

theorem lost_eq_zero {s : St} {a : Actor} {v : Variant} (hv : v ≠ .crash)
    (hk : ∀ p, s.mpc = .kill p → wSlot (s.w p) = 0) : lost s a v = 0 := by
  cases a with
  | M =>
    simp only [lost, lostM]
    split
    · exact hk _ (by assumption)
    · rfl
  | W p => cases v <;> first | rfl | exact absurd rfl hv
  | U k => rfl
  | F => rfl

/-- `slotOk` is preserved by every step other than a crash, provided the manager is not about to kill a worker that
    holds a slot (`hk`: by `slotOk_step_iff` this is exactly what is needed); `slotExtra` holds in every reachable
    state (`slotExtra_reachable`) -/
theorem slotOk_step {s s' : St} {a : Actor} {v : Variant} (hv : v ≠ .crash) (hs : step s a v = some s')
    (hp : PidsInv s) (hx : slotExtra s = true) (hk : ∀ p, s.mpc = .kill p → wSlot (s.w p) = 0)
    (h : slotOk s = true) : slotOk s' = true :=
  (slotOk_step_iff hs hp hx h).2 (lost_eq_zero hv hk)

theorem slotOk'_step {s s' : St} {a : Actor} {v : Variant} (hv : v ≠ .crash) (hs : step s a v = some s')
    (hp : PidsInv s) (hk : ∀ p, s.mpc = .kill p → wSlot (s.w p) = 0)
    (h : slotOk' s = true) : slotOk' s' = true := by
  simp only [slotOk', Bool.and_eq_true] at h ⊢
  exact ⟨slotOk_step hv hs hp h.2 hk h.1, slotExtra_step hs h.2⟩

/-- in a static pool the manager never reaches `kill` -/
theorem noKill_of_staticOk {s : St} (h : staticOk s = true) : ∀ p, s.mpc = .kill p → wSlot (s.w p) = 0 := by
  intro p e
  simp [staticOk, e, mNever] at h

theorem slotOk'_step_static {s s' : St} {a : Actor} {v : Variant} (hv : v ≠ .crash) (hs : step s a v = some s')
    (hp : PidsInv s) (hst : staticOk s = true) (h : slotOk' s = true) : slotOk' s' = true :=
  slotOk'_step hv hs hp (noKill_of_staticOk hst) h

/-- whatever happens (kills, crashes), slots are only ever lost, never created -/
theorem slotLe_reachable {cfg : Cfg} {s : St} (h : Reachable cfg s) : s.cqSem + slots s ≤ cap s := by
  induction h with
  | init => have := slotOk_init cfg; rw [slotOk_iff] at this; unfold slotT at this; omega
  | step hr hs ih =>
    have h1 := slotT_step hs (pidsInv_reachable hr) (slotX_reachable hr)
    have h2 := cap_step hs
    unfold slotT at h1
    omega

end LokyModel.Exec
