import LokyModel.Lemmas.ExecMgmt
namespace LokyModel.Exec

theorem inMgmtU_uNext (s : St) (k j : Nat) :
    inMgmtU ((uNext s k).upc j) = if j = k then false else inMgmtU (s.upc j) := by
  unfold uNext
  by_cases hj : j = k
  · subst hj; rw [if_pos rfl]; split <;> simp [inMgmtU]
  · rw [if_neg hj]; split <;> simp [upd_apply, hj]
theorem inMgmtU_uRelease (s : St) (k j : Nat) :
    inMgmtU ((uRelease s k).upc j) = if j = k then false else inMgmtU (s.upc j) := by
  unfold uRelease; simp only []; split
  · by_cases hj : j = k
    · subst hj; simp [inMgmtU]
    · simp [upd_apply, hj]
  · exact inMgmtU_uNext _ k j
theorem inMgmtU_uSpawnLoop (s : St) (k j : Nat) :
    inMgmtU ((uSpawnLoop s k).upc j) = if j = k then true else inMgmtU (s.upc j) := by
  unfold uSpawnLoop
  by_cases hj : j = k
  · subst hj; rw [if_pos rfl]; (repeat' split) <;> simp [inMgmtU]
  · rw [if_neg hj]; (repeat' split) <;> simp [upd_apply, hj]
theorem inMgmtU_uDispatch (s : St) (k j : Nat) (op : UOp) :
    inMgmtU ((uDispatch s k op).upc j) = if j = k then false else inMgmtU (s.upc j) := by
  unfold uDispatch
  by_cases hj : j = k
  · subst hj; rw [if_pos rfl]
    (repeat' split) <;> (first | (rw [inMgmtU_uNext]; simp; done) | (rw [inMgmtU_uRelease]; simp; done) | (simp [inMgmtU]; done))
  · rw [if_neg hj]; (repeat' split) <;> (first | (rw [inMgmtU_uNext]; simp [hj]; done) | (rw [inMgmtU_uRelease]; simp [hj]; done) | (simp [upd_apply, hj]; done))
set_option maxHeartbeats 4000000 in
theorem mgmtInv_stepU (s s' : St) (k : Nat) (v : Variant) (h : MgmtInv s) (hs : stepU s k v = some s') : MgmtInv s' := by
  obtain ⟨hv, hu, hm, hw⟩ := h
  have hle : s.mgmt ≤ 1 := by rw [hv]; split <;> omega
  have huk := hu k
  unfold stepU at hs
  crack_step
  all_goals (refine ⟨?_, ?_, ?_, ?_⟩)
  all_goals (first
    | (simp_all; done)
    | (simp_all [inMgmtM, inMgmtU, inMgmtW]; done)
    | (simp_all [inMgmtU]; omega)
    | (intro hk; have h1 := hm hk; simp_all [inMgmtU]; done)
    | (intro q hq; have h1 := hw q hq; simp_all [inMgmtU]; done)
    | (intro j hj
       simp only [inMgmtU_uNext, inMgmtU_uRelease, inMgmtU_uSpawnLoop, inMgmtU_uDispatch, setU_upc, inMgmtU_upd] at hj
       have h2 := hu j
       split at hj <;> simp_all [inMgmtU]; done)
    | (intro hk; simp at hk; have h1 := hm hk; simp_all; done)
    | (intro q hq; simp at hq; have h1 := hw q hq; simp_all; done)
    | (intro q hq; simp only [uSpawnLoop_w, uSpawnLoop_oMgmt, spawn_w, spawn_oMgmt, inMgmtW_upd] at hq ⊢
       have h1 := hw q
       split at hq <;> simp_all [inMgmtW, inMgmtU]; done))

end LokyModel.Exec
