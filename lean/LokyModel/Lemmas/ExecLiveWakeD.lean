import LokyModel.Lemmas.ExecLiveWakeW
import LokyModel.Lemmas.ExecLiveWakeM2
import LokyModel.Lemmas.ExecLiveWakeU2
import LokyModel.Lemmas.ExecLiveWakeDDefs
/-! # No lost wake-up for the manager's decision to leave (`wakeOkD`), as an inductive invariant of M1 (dynamic pools)

`wakeOkD` alone is not inductive.  The strengthening `wakeOkD' s = wakeOkD s && (addWakeD s && tstartFD s && wakeX s)`
(`ExecLiveWakeDDefs.lean`, executable) is, given `holderOk s` and `dynOk s` of the pre-state:
* `addWakeD`: inside `add_call_item_to_queue` (`addAcq`, `addTStart`), which ends at `wait` without another look at the
  flags, a shutdown that has begun is matched by a wake-up that has not been consumed;
* `tstartFD`: at `addTStart` the feeder thread has not been started;
* `wakeX`: the extras of the static-pool proof (`ExecLiveWakeDefs.lean`; its step lemmas `wx_step*` are reused as they
  are — they depend on `holderOk` only). -/
namespace LokyModel.Exec
set_option linter.unusedSimpArgs false
set_option linter.unusedVariables false

/-! ### Prop forms -/

def OwesD (s : St) : Prop :=
  (∃ k, k < s.cfg.scripts.length ∧ uOwes2 s (s.upc k) = true) ∨ fOwes s.fpc = true

theorem owesD_iff (s : St) : owesD s = true ↔ OwesD s := by
  unfold owesD OwesD usersOf
  simp only [Bool.or_eq_true, List.any_eq_true, List.mem_range]
  refine or_congr (exists_congr fun k => and_congr Iff.rfl ?_) Iff.rfl
  generalize s.upc k = pc
  cases pc <;> exact Iff.rfl

/-- a wake-up is there or owed (a result message counts once the manager has reached its loop) -/
def WkD (s : St) : Prop := 0 < s.wakeup ∨ (s.rqPipe ≠ [] ∧ s.mpc ≠ .start) ∨ OwesD s

def mAdding : MPc → Bool
  | .addAcq _ | .addTStart _ => true
  | _ => false
def mWaiting : MPc → Bool
  | .wait _ => true
  | _ => false
/-- the manager is at its `wait`, or will get there without another look at the flags -/
def mQuiet : MPc → Bool
  | .start | .wait _ | .addAcq _ | .addTStart _ => true
  | _ => false

def NeedD (s : St) : Prop :=
  s.mpc = .start ∨ (mWaiting s.mpc = true ∧ mustExit s = true) ∨ (mAdding s.mpc = true ∧ shuttingDown s = true)

def WakePD (s : St) : Prop := NeedD s → WkD s

theorem needD_quiet {s : St} (n : NeedD s) : mQuiet s.mpc = true := by
  rcases n with n | ⟨n, _⟩ | ⟨n, _⟩ <;> cases hm : s.mpc <;> simp_all [mQuiet, mWaiting, mAdding]

theorem mustExit_eq (s : St) : mustExit s = (shuttingDown s && s.pending.isEmpty) := rfl

theorem wakePD_iff (s : St) : (wakeOkD s && addWakeD s) = true ↔ WakePD s := by
  unfold wakeOkD addWakeD wakeD WakePD NeedD WkD
  cases hm : s.mpc <;>
    simp [mWaiting, mAdding, owesD_iff, List.isEmpty_iff] <;>
    (try (cases mustExit s <;> simp [or_assoc])) <;> (try (cases shuttingDown s <;> simp [or_assoc]))

/-- at `addTStart` the feeder thread has not been started -/
def TStartF (s : St) : Prop := ∀ i, s.mpc = .addTStart i → s.fpc = .none

theorem tstartFD_iff (s : St) : tstartFD s = true ↔ TStartF s := by
  unfold tstartFD TStartF
  cases hm : s.mpc <;> simp

theorem wakeOkD'_iff (s : St) : wakeOkD' s = true ↔ WakePD s ∧ TStartF s ∧ WX s := by
  unfold wakeOkD'
  rw [← wakePD_iff, ← tstartFD_iff, ← wakeX_iff]
  simp only [Bool.and_eq_true]
  constructor
  · intro ⟨a, ⟨b, c⟩, d⟩; exact ⟨⟨a, b⟩, c, d⟩
  · intro ⟨⟨a, b⟩, c, d⟩; exact ⟨a, ⟨b, c⟩, d⟩

theorem wakeOkD_of_wakeOkD' (s : St) (h : wakeOkD' s = true) : wakeOkD s = true := by
  unfold wakeOkD' at h
  simp only [Bool.and_eq_true] at h
  exact h.1

/-! ### transfer lemmas -/

theorem wakePD_busy {s' : St} (h : mQuiet s'.mpc = false) : WakePD s' := by
  intro n; rw [needD_quiet n] at h; cases h

theorem wakePD_of {s s' : St} (hn : NeedD s' → NeedD s) (hw : WkD s → WkD s') (h : WakePD s) : WakePD s' :=
  fun n => hw (h (hn n))

theorem needD_mono (s s' : St) (h1 : s'.mpc = s.mpc) (hp : s'.pending = [] → s.pending = [])
    (hx : shuttingDown s' = true → shuttingDown s = true) : NeedD s' → NeedD s := by
  unfold NeedD
  rw [h1, mustExit_eq, mustExit_eq]
  simp only [Bool.and_eq_true, List.isEmpty_iff]
  rintro (n | ⟨n1, n2, n3⟩ | ⟨n1, n2⟩)
  · exact .inl n
  · exact .inr (.inl ⟨n1, hx n2, hp n3⟩)
  · exact .inr (.inr ⟨n1, hx n2⟩)

theorem needD_congr (s s' : St) (h1 : s'.mpc = s.mpc) (h2 : s'.globalShutdown = s.globalShutdown) (h3 : s'.refs = s.refs)
    (h4 : s'.shutdownFlag = s.shutdownFlag) (h5 : s'.pending = s.pending) : NeedD s' → NeedD s := by
  refine needD_mono s s' h1 (by rw [h5]; exact id) ?_
  unfold shuttingDown; rw [h2, h3, h4]; exact id

theorem OwesD_keep (s s' : St) (hcfg : s'.cfg = s.cfg) (hupc : s'.upc = s.upc) (hatt : s'.attrsDropped = s.attrsDropped)
    (hf : fOwes s.fpc = true → fOwes s'.fpc = true) : OwesD s → OwesD s' := by
  have hu : ∀ pc, uOwes2 s' pc = uOwes2 s pc := by intro pc; unfold uOwes2; rw [hatt]
  unfold OwesD
  rw [hcfg, hupc]
  simp only [hu]
  rintro (h | h)
  · exact .inl h
  · exact .inr (hf h)

theorem WkD_mono (s s' : St) (hwk : s.wakeup ≤ s'.wakeup) (hrq : s.rqPipe ≠ [] → s'.rqPipe ≠ [])
    (hm : s'.mpc = .start → s.mpc = .start) (ho : OwesD s → OwesD s' ∨ 0 < s'.wakeup) : WkD s → WkD s' := by
  unfold WkD
  rintro (h | ⟨h1, h2⟩ | h)
  · exact .inl (by omega)
  · exact .inr (.inl ⟨hrq h1, fun e => h2 (hm e)⟩)
  · rcases ho h with h | h
    · exact .inr (.inr h)
    · exact .inl h

/-- nothing that `WkD` reads gets worse -/
theorem WkD_keep (s s' : St) (hcfg : s'.cfg = s.cfg) (hupc : s'.upc = s.upc) (hatt : s'.attrsDropped = s.attrsDropped)
    (hf : fOwes s.fpc = true → fOwes s'.fpc = true)
    (hwk : s.wakeup ≤ s'.wakeup) (hrq : s.rqPipe ≠ [] → s'.rqPipe ≠ [])
    (hm : s'.mpc = .start → s.mpc = .start) : WkD s → WkD s' :=
  WkD_mono s s' hwk hrq hm (fun h => .inl (OwesD_keep s s' hcfg hupc hatt hf h))

/-! ### what the hypotheses about the pre-state give -/

theorem dyn_facts_waked (s : St) (hd : dynOk s = true) :
    s.broken = none ∧ (s.wakeupClosed = true → mFinal s.mpc = true) := by
  unfold dynOk at hd
  simp only [Bool.and_eq_true, Bool.or_eq_true, Bool.not_eq_true', Option.isNone_iff_eq_none] at hd
  refine ⟨hd.1.1.1.1.1.1.1.1.1.1.1.1.1.2, ?_⟩
  intro hw
  rcases hd.1.2 with h | h
  · rw [hw] at h; cases h
  · exact h

theorem dyn_wc (s : St) (hd : dynOk s = true) (hq : mQuiet s.mpc = true) : s.wakeupClosed = false := by
  cases hw : s.wakeupClosed
  · rfl
  · have := (dyn_facts_waked s hd).2 hw
    cases hm : s.mpc <;> simp_all [mQuiet, mFinal]

/-! ### worker steps -/

set_option maxHeartbeats 4000000 in
theorem wakePD_stepW (s s' : St) (p : Pid) (v : Variant) (h : WakePD s) (hs : stepW s p v = some s') : WakePD s' := by
  unfold stepW at hs
  crack
  all_goals (refine wakePD_of (needD_congr s _ ?_ ?_ ?_ ?_ ?_) (WkD_keep s _ ?_ ?_ ?_ ?_ ?_ ?_ ?_) h)
  all_goals (first
    | rfl
    | (simp; done)
    | exact Nat.le_refl _
    | (intro hh; exact hh)
    | (intro hh; simpa using hh))

theorem tstartF_same (s s' : St) (h : TStartF s) (h1 : s'.mpc = s.mpc) (h2 : s'.fpc = s.fpc) : TStartF s' := by
  unfold TStartF; rw [h1, h2]; exact h

set_option maxHeartbeats 4000000 in
theorem tstartF_stepW (s s' : St) (p : Pid) (v : Variant) (h : TStartF s) (hs : stepW s p v = some s') : TStartF s' := by
  unfold stepW at hs
  crack
  all_goals (refine tstartF_same s _ h ?_ ?_)
  all_goals (first | rfl | (simp; done))

/-! ### feeder steps -/

theorem stepF_mpc (s s' : St) (v : Variant) (hs : stepF s v = some s') : s'.mpc = s.mpc := by
  unfold stepF at hs
  crack
  all_goals (first | rfl | (simp; done))

theorem stepF_started (s s' : St) (v : Variant) (hs : stepF s v = some s') : s.fpc ≠ .none := by
  intro e
  unfold stepF at hs
  rw [e] at hs
  cases v <;> simp at hs

theorem tstartF_stepF (s s' : St) (v : Variant) (h : TStartF s) (hs : stepF s v = some s') : TStartF s' := by
  intro i hi
  rw [stepF_mpc s s' v hs] at hi
  exact absurd (h i hi) (stepF_started s s' v hs)

set_option maxHeartbeats 4000000 in
theorem wakePD_stepF (s s' : St) (v : Variant) (hd : dynOk s = true) (h : WakePD s) (hs : stepF s v = some s') :
    WakePD s' := by
  have hwc := dyn_wc s hd
  unfold stepF at hs
  crack
  all_goals (first
    | (refine wakePD_of (needD_congr s _ ?_ ?_ ?_ ?_ ?_) (WkD_keep s _ ?_ ?_ ?_ ?_ ?_ ?_ ?_) h
       all_goals (first
        | rfl
        | (simp; done)
        | exact Nat.le_refl _
        | (intro hh; exact hh)
        | (intro hh; simp_all [fOwes]; done)
        | (intro hh; simpa using hh)))
    | (intro n; refine .inr (.inr (.inr ?_)); simp [fOwes]; done)
    | (intro n; refine .inl ?_; simp; done)
    | (intro n
       have hq := needD_quiet n
       simp only [] at hq
       have hw0 := hwc hq
       first
        | (refine .inr (.inr (.inr ?_)); simp [hw0, fOwes]; done)
        | (exfalso; simp_all; done))
    | skip)

/-! ### manager steps -/

/-- the manager is about to start the feeder thread from `add_call_item_to_queue` -/
def mTS : MPc → Bool
  | .addTStart _ => true
  | _ => false

theorem mTS_of_quiet {pc : MPc} (h : mQuiet pc = false) : mTS pc = false := by
  cases pc <;> simp_all [mQuiet, mTS]

@[simp] theorem mJoinStart_nq (s : St) : mQuiet (mJoinStart s).mpc = false := by simp [mJoinStart, mQuiet]
@[simp] theorem mKillNext_nq (s : St) : mQuiet (mKillNext s).mpc = false := by
  unfold mKillNext; split <;> simp [mQuiet, mJoinStart]
@[simp] theorem mSpawnLoop_nq (s : St) : mQuiet (mSpawnLoop s).mpc = false := by
  unfold mSpawnLoop; split <;> simp [mQuiet]
@[simp] theorem mJoinProcs_nq (s : St) : mQuiet (mJoinProcs s).mpc = false := by
  unfold mJoinProcs; split <;> simp [mQuiet]
@[simp] theorem mJoinClose_nq (s : St) : mQuiet (mJoinClose s).mpc = false := by
  unfold mJoinClose; simp [mQuiet]
@[simp] theorem mJoinLoop_nq (s : St) (a b c : Nat) : mQuiet (mJoinLoop s a b c).mpc = false := by
  unfold mJoinLoop; split
  · simp [mQuiet]
  · exact mJoinClose_nq s
@[simp] theorem mRelExitNext_nq (s : St) (ps : List Pid) (n : Nat) : mQuiet (mRelExitNext s ps n).mpc = false := by
  unfold mRelExitNext; split <;> simp [mQuiet]
@[simp] theorem mAliveNext_nq (s : St) (ps : List Pid) (a b c d : Nat) : mQuiet (mAliveNext s ps a b c d).mpc = false := by
  unfold mAliveNext; split <;> simp [mQuiet]
@[simp] theorem mAfterPut_nq (s : St) (a b c d : Nat) : mQuiet (mAfterPut s a b c d).mpc = false := by
  unfold mAfterPut; split
  · exact mJoinLoop_nq _ _ _ _
  · simp [mQuiet]

@[simp] theorem mAdd_nts (s : St) : mTS (mAdd s).mpc = false := by
  rcases mAdd_mpc_wake s with ⟨x, h⟩ | ⟨x, h⟩ <;> simp [h, mTS]
@[simp] theorem mAfterItem_nts (s : St) : mTS (mAfterItem s).mpc = false := by
  unfold mAfterItem; split
  · simp [mTS]
  · exact mAdd_nts s
@[simp] theorem mRespawnCheck_nts (s : St) : mTS (mRespawnCheck s).mpc = false := by
  unfold mRespawnCheck; simp only []; (repeat' split) <;> first | (simp [mTS]; done) | exact mAfterItem_nts _
@[simp] theorem mDropRef_nts (s : St) : mTS (mDropRef s).mpc = false := by
  unfold mDropRef; simp only []; split
  · simp [mTS]
  · exact mAfterItem_nts _
@[simp] theorem mProcess_nts (s : St) (r : Option RMsg) : mTS (mProcess s r).mpc = false := by
  unfold mProcess; (repeat' split) <;> first | (simp [mTS]; done) | exact mAfterItem_nts _
@[simp] theorem mAddF_nts (s : St) : mTS (mAddF s).mpc = false := by
  unfold mAddF mAfterAddF
  split
  · simp [mTS]
  · split
    · simp [mJoinStart, mTS]
    · exact mAdd_nts s
  · exact mAdd_nts s
@[simp] theorem mAfterFlag_nts (s : St) : mTS (mAfterFlag s).mpc = false := by
  unfold mAfterFlag; split
  · exact mTS_of_quiet (mKillNext_nq _)
  · split
    · simp [mJoinStart, mTS]
    · exact mAddF_nts s

theorem tstartF_of_nts {s' : St} (h : mTS s'.mpc = false) : TStartF s' := by
  intro i hi; rw [hi] at h; cases h

set_option maxHeartbeats 8000000 in
theorem tstartF_stepM (s s' : St) (v : Variant) (hs : stepM s v = some s') : TStartF s' := by
  unfold stepM at hs
  crack
  all_goals (first
    | (refine tstartF_of_nts ?_; first | rfl | (simp; done) | (refine mTS_of_quiet ?_; simp; done))
    | (intro i hi; simpa using ‹_›)
    | skip)

theorem shuttingDown_mAdd (s : St) : shuttingDown (mAdd s) = shuttingDown s := by simp [shuttingDown]

theorem needD_adding {s' : St} (hq : mAdding s'.mpc = true) (n : NeedD s') : shuttingDown s' = true := by
  rcases n with n | ⟨n, _⟩ | ⟨_, n⟩
  · rw [n] at hq; cases hq
  · cases hm : s'.mpc <;> simp_all [mAdding, mWaiting]
  · exact n

theorem needD_mAdd (s : St) (n : NeedD (mAdd s)) : shuttingDown s = true := by
  rw [← shuttingDown_mAdd]
  rcases mAdd_mpc_wake s with ⟨x, hx⟩ | ⟨x, hx⟩
  · rcases n with n | ⟨_, n⟩ | ⟨n, _⟩
    · rw [hx] at n; cases n
    · rw [mustExit_eq] at n; simp only [Bool.and_eq_true] at n; exact n.1
    · rw [hx] at n; cases n
  · exact needD_adding (by rw [hx]; rfl) n

theorem WkD_mAdd (s : St) : WkD s → WkD (mAdd s) :=
  WkD_keep s _ (by simp) (by simp) (by simp) (by simp) (by simp) (by simp) (fun e => absurd e (mAdd_ne_start s))

/-- `add_call_item_to_queue`: if the executor is shutting down a wake-up is there or owed -/
theorem wakePD_mAdd (s : St) (h : shuttingDown s = true → WkD s) : WakePD (mAdd s) :=
  fun n => WkD_mAdd s (h (needD_mAdd s n))

theorem wakePD_mAfterItem (s : St) (hb : s.broken = none) : WakePD (mAfterItem s) := by
  unfold mAfterItem
  split
  · exact wakePD_busy rfl
  · rename_i h
    refine wakePD_mAdd s ?_
    intro hsd
    exfalso; apply h
    unfold shuttingDown at hsd
    simp only [hb, Option.isNone_none, Bool.and_true]
    rw [← Bool.or_assoc]; exact hsd

theorem wakePD_mProcess (s : St) (r : Option RMsg) (hb : s.broken = none) : WakePD (mProcess s r) := by
  unfold mProcess
  (repeat' split)
  all_goals (first
    | exact wakePD_mAfterItem _ hb
    | exact wakePD_mAfterItem _ (by simpa using hb)
    | exact wakePD_busy rfl)

theorem wakePD_mRespawnCheck (s : St) (hb : s.broken = none) : WakePD (mRespawnCheck s) := by
  unfold mRespawnCheck; simp only []
  (repeat' split)
  all_goals (first
    | exact wakePD_mAfterItem _ hb
    | exact wakePD_busy rfl)

theorem wakePD_mDropRef (s : St) (hb : s.broken = none) : WakePD (mDropRef s) := by
  unfold mDropRef; simp only []
  split
  · exact wakePD_busy rfl
  · exact wakePD_mAfterItem _ hb

theorem wakePD_mAddF (s : St) : WakePD (mAddF s) := by
  unfold mAddF mAfterAddF
  split
  · exact wakePD_busy rfl
  · rename_i snap hm
    split
    · exact wakePD_busy (by simp)
    · rename_i hp
      intro n
      exfalso
      rcases n with n | ⟨_, n⟩ | ⟨n, _⟩
      · rw [hm] at n; cases n
      · rw [mustExit_eq] at n; simp only [Bool.and_eq_true, List.isEmpty_iff] at n; exact hp n.2
      · rw [hm] at n; cases n
  · rename_i h1 h2
    rcases mAdd_mpc_wake s with ⟨x, h⟩ | ⟨x, h⟩
    · exact absurd h (h2 x)
    · exact absurd h (h1 x)

theorem wakePD_mAfterFlag (s : St) : WakePD (mAfterFlag s) := by
  unfold mAfterFlag
  split
  · exact wakePD_busy (by simp)
  · split
    · exact wakePD_busy (by simp)
    · exact wakePD_mAddF s

theorem wakePD_from_adding (s s' : St) (hq : mAdding s.mpc = true) (hn : NeedD s' → shuttingDown s = true)
    (hw : WkD s → WkD s') (h : WakePD s) : WakePD s' :=
  fun n => hw (h (.inr (.inr ⟨hq, hn n⟩)))

set_option maxHeartbeats 8000000 in
theorem wakePD_stepM (s s' : St) (v : Variant) (hd : dynOk s = true) (ht : TStartF s) (h : WakePD s)
    (hs : stepM s v = some s') : WakePD s' := by
  obtain ⟨hb, _⟩ := dyn_facts_waked s hd
  unfold stepM at hs
  crack
  all_goals (first
    | (refine wakePD_busy ?_; first | rfl | (simp; done))
    | (exact wakePD_mAdd s (fun _ => h (.inl ‹_›)))
    | (exact wakePD_mAddF _)
    | (exact wakePD_mAfterFlag _)
    | (exact wakePD_mProcess s _ hb)
    | (exact wakePD_mAfterItem _ (by simpa using hb))
    | (exact wakePD_mRespawnCheck _ (by simpa using hb))
    | (exact wakePD_mDropRef _ (by simpa using hb))
    | (refine wakePD_from_adding s _ ?_ (fun n => ?_) (WkD_keep s _ ?_ ?_ ?_ ?_ ?_ ?_ ?_) h
       · simp [*, mAdding]; done
       · have := needD_adding rfl n
         simpa [shuttingDown] using this
       all_goals (first | rfl | (simp; done) | exact Nat.le_refl _ | (intro hh; exact hh) | (intro hh; simp at hh; done)))
    | (refine wakePD_from_adding s _ ?_ (fun n => ?_)
         (fun w => WkD_mAdd _ (WkD_keep s _ ?_ ?_ ?_ ?_ ?_ ?_ ?_ w)) h
       · simp [*, mAdding]; done
       · have := needD_mAdd _ n
         simpa [shuttingDown] using this
       all_goals (first
        | rfl | (simp; done) | exact Nat.le_refl _ | (intro hh; exact hh)
        | (intro hh; rw [ht _ ‹_›] at hh; cases hh)
        | (intro hh; simp_all; done)))
    | skip)

/-! ### user-thread steps -/

theorem wakePD_owes (s' : St) (k : Nat) (hk : k < s'.cfg.scripts.length)
    (ho : NeedD s' → uOwes2 s' (s'.upc k) = true) : WakePD s' :=
  fun n => .inr (.inr (.inl ⟨k, hk, ho n⟩))

theorem wakePD_wake (s' : St) (hw : NeedD s' → 0 < s'.wakeup) : WakePD s' := fun n => .inl (hw n)

/-- nothing that `WkD` reads changes, except the program counter of a thread that owed nothing -/
theorem WkD_U (s s' : St) (k : Nat) (pc' : UPc) (hupc : s'.upc = upd s.upc k pc')
    (hcfg : s'.cfg = s.cfg) (hwk : s.wakeup ≤ s'.wakeup) (hrq : s'.rqPipe = s.rqPipe) (hfpc : s'.fpc = s.fpc)
    (hmpc : s'.mpc = s.mpc)
    (hold : uOwes2 s (s.upc k) = false)
    (hattr : s'.attrsDropped = s.attrsDropped ∨ ∀ k', k' < s.cfg.scripts.length → k' ≠ k → ∀ w, s.upc k' ≠ .sdRel1 w) :
    WkD s → WkD s' := by
  refine WkD_mono s s' hwk (by rw [hrq]; exact id) (by rw [hmpc]; exact id) ?_
  intro h
  left
  unfold OwesD at h ⊢
  rw [hcfg, hfpc]
  rcases h with ⟨k', hk', ho⟩ | h
  · have e : k' ≠ k := by intro e; rw [e, hold] at ho; cases ho
    refine .inl ⟨k', hk', ?_⟩
    rw [hupc, upd_other' _ _ _ _ e, uOwes2_attr s s' _ ?_]
    · exact ho
    · rcases hattr with a | a
      · exact .inl a
      · exact .inr (a k' hk' e)
  · exact .inr h

theorem wakePD_keepU (s s' : St) (k : Nat) (pc' : UPc) (h : WakePD s) (hupc : s'.upc = upd s.upc k pc')
    (hcfg : s'.cfg = s.cfg) (hwk : s.wakeup ≤ s'.wakeup) (hrq : s'.rqPipe = s.rqPipe) (hfpc : s'.fpc = s.fpc)
    (hmpc : s'.mpc = s.mpc)
    (hn : NeedD s' → NeedD s ∧ uOwes2 s (s.upc k) = false ∧
      (s'.attrsDropped = s.attrsDropped ∨ ∀ k', k' < s.cfg.scripts.length → k' ≠ k → ∀ w, s.upc k' ≠ .sdRel1 w)) :
    WakePD s' := by
  intro n
  obtain ⟨n1, n2, n3⟩ := hn n
  exact WkD_U s s' k pc' hupc hcfg hwk hrq hfpc hmpc n2 n3 (h n1)

theorem mQuiet_not_ended (s : St) (h : mQuiet s.mpc = true) : mEnded s = false ∧ s.mpc ≠ .none := by
  cases hm : s.mpc <;> simp_all [mQuiet, mEnded]

theorem mQuiet_of_ended (s : St) (h : mEnded s = true) : mQuiet s.mpc = false := by
  cases hm : s.mpc <;> simp_all [mQuiet, mEnded]

theorem uRelease_casesD (s : St) (k : Nat) (hi : mQuiet s.mpc = true) :
    (uRelease s k).upc k = .cbAcq ∨ s.refs - 1 ≠ 0 := by
  obtain ⟨h1, h2⟩ := mQuiet_not_ended s hi
  unfold uRelease; simp only []
  split
  · simp [setU, upd]
  · rename_i hc
    right
    intro e
    apply hc
    refine ⟨by simp [e], by simpa using h2, ?_⟩
    have : mEnded { s with refs := s.refs - 1 } = mEnded s := rfl
    rw [this, h1]; rfl

/-- a thread lets go of its reference: either the weak-reference callback runs, or the executor is still referenced -/
theorem wakePD_uRelease (s s1 : St) (k : Nat) (hk : k < s.cfg.scripts.length) (h : WakePD s)
    (hupc : s1.upc = s.upc) (hcfg : s1.cfg = s.cfg) (hwk : s.wakeup ≤ s1.wakeup) (hrq : s1.rqPipe = s.rqPipe)
    (hfpc : s1.fpc = s.fpc) (hmpc : s1.mpc = s.mpc) (hgs : s1.globalShutdown = s.globalShutdown)
    (hsf : s1.shutdownFlag = s.shutdownFlag) (hpe : s1.pending = s.pending)
    (hrefs : s1.refs = s.refs)
    (hold : uOwes2 s (s.upc k) = false)
    (hattr : s1.attrsDropped = s.attrsDropped ∨ ∀ k', k' < s.cfg.scripts.length → k' ≠ k → ∀ w, s.upc k' ≠ .sdRel1 w) :
    WakePD (uRelease s1 k) := by
  intro n
  have hi : mQuiet s1.mpc = true := by simpa using needD_quiet n
  rcases uRelease_casesD s1 k hi with hc | hc
  · refine .inr (.inr (.inl ⟨k, by simpa [hcfg] using hk, ?_⟩))
    rw [hc]; rfl
  · refine WkD_U s _ k _ (by rw [uRelease_eq, hupc]) (by simpa using hcfg) (by simpa using hwk) (by simpa using hrq)
      (by simpa using hfpc) (by simpa using hmpc) hold (by simpa using hattr) (h ?_)
    refine needD_mono s _ (by simpa using hmpc) (by simp [hpe]) ?_ n
    unfold shuttingDown
    rw [uRelease_refs]
    simp only [uRelease_globalShutdown, uRelease_shutdownFlag, hgs, hsf, hrefs] at hc ⊢
    intro hx
    simp only [Bool.or_eq_true, beq_iff_eq] at hx ⊢
    rcases hx with (hx | hx) | hx
    · exact .inl (.inl hx)
    · exact absurd hx hc
    · exact .inr hx

theorem wakePD_uDispatch (s : St) (k : Nat) (op : UOp) (hk : k < s.cfg.scripts.length) (h : WakePD s) (hx : WX s)
    (hold : uOwes2 s (s.upc k) = false) : WakePD (uDispatch s k op) := by
  unfold uDispatch
  (repeat' split)
  all_goals (first
    | (refine wakePD_uRelease s _ k hk h rfl rfl (Nat.le_refl _) rfl rfl rfl rfl rfl rfl rfl hold (.inl rfl))
    | (refine wakePD_owes _ k hk ?_; intro _; simp [setU, upd, uOwes2, uOwes]; done)
    | (refine wakePD_keepU s _ k ?_ h ?_ ?_ ?_ ?_ ?_ ?_ ?_
       all_goals (first
        | exact uNext_eq _ _
        | rfl
        | (simp; done)
        | (intro n
           refine ⟨needD_mono s _ ?_ ?_ ?_ n, hold, .inl ?_⟩
           all_goals (first
            | rfl
            | (simp; done)
            | (simp only [shuttingDown, uNext_globalShutdown, uNext_refs, uNext_shutdownFlag, setU_globalShutdown,
                 setU_refs, setU_shutdownFlag]
               apply flags_mono <;> simp)
            | skip))
        | skip)
       done)
    | (intro n
       exfalso
       have hi : mQuiet s.mpc = true := by simpa using needD_quiet n
       obtain ⟨e1, e2⟩ := mQuiet_not_ended s hi
       have := hx.reg e2 e1
       rename_i hc
       apply hc
       simp [*]))

set_option maxHeartbeats 8000000 in
theorem wakePD_stepU (s s' : St) (k : Nat) (v : Variant) (hk : k < s.cfg.scripts.length) (hd : dynOk s = true)
    (hx : WX s) (h : WakePD s) (hs : stepU s k v = some s') : WakePD s' := by
  have hwc := dyn_wc s hd
  have hmx := mutex_sdRel1 s hx k hk
  have hrg := hx.relG k hk
  have hdr := hx.drop
  unfold stepU at hs
  crack
  all_goals (first
    | (refine wakePD_uDispatch s k _ hk h hx ?_; simp [*, uOwes2, uOwes]; done)
    | (refine wakePD_busy ?_; simp; first | exact mQuiet_of_ended s ‹_› | exact mQuiet_of_ended s (hrg ‹_›))
    | (refine wakePD_owes _ k ?_ ?_
       · simpa using hk
       · intro _
         first | (simp [setU, upd, uOwes2, uOwes]; done) | exact uSpawnLoop_owes _ _ _)
    | (refine wakePD_wake _ ?_; intro _; simp; done)
    | (intro n; exfalso; have := hwc (by simpa using needD_quiet n); simp_all; done)
    | (refine wakePD_uRelease s _ k hk h rfl rfl (Nat.le_refl _) rfl rfl rfl rfl rfl rfl rfl ?_ ?_
       · simp [*, uOwes2, uOwes]; done
       · first | exact .inl rfl | (refine .inr (hmx ?_); simp [*, inShutU']; done))
    | (refine wakePD_keepU s _ k ?_ h ?_ ?_ ?_ ?_ ?_ ?_ ?_
       all_goals (first
        | exact uNext_eq _ _
        | rfl
        | (simp; done)
        | (intro n
           refine ⟨needD_mono s _ ?_ ?_ ?_ n, ?_, .inl ?_⟩
           all_goals (first
            | rfl
            | (simp; done)
            | (simp [*, uOwes2, uOwes]; done)
            | (simp only [shuttingDown, uNext_globalShutdown, uNext_refs, uNext_shutdownFlag, setU_globalShutdown,
                 setU_refs, setU_shutdownFlag]
               apply flags_mono <;> simp)
            | skip))
        | skip)
       done)
    | (by_cases hda : s.attrsDropped = true
       · have hsf := hdr hda
         refine wakePD_keepU s _ k ?_ h ?_ ?_ ?_ ?_ ?_ ?_ ?_
         all_goals (first
          | rfl
          | exact Nat.le_refl _
          | (intro n
             refine ⟨needD_mono s _ ?_ ?_ ?_ n, ?_, .inl rfl⟩
             all_goals (first | rfl | (simp [*, uOwes2, uOwes]; done) | (simp [shuttingDown, hsf]; done)))
          | skip)
       · refine wakePD_owes _ k ?_ ?_
         · simpa using hk
         · intro _
           simp [setU, upd, uOwes2, hda])
    | skip)

theorem stepU_fpc (s s' : St) (k : Nat) (v : Variant) (hs : stepU s k v = some s') : s'.fpc = s.fpc := by
  unfold stepU at hs
  crack
  all_goals (first | rfl | (simp; done))

theorem stepU_mpc (s s' : St) (k : Nat) (v : Variant) (hs : stepU s k v = some s') :
    s'.mpc = s.mpc ∨ s'.mpc = .start := by
  unfold stepU at hs
  crack
  all_goals (first | (left; rfl) | (left; simp; done) | (right; rfl) | (right; simp; done))

theorem tstartF_stepU (s s' : St) (k : Nat) (v : Variant) (h : TStartF s) (hs : stepU s k v = some s') : TStartF s' := by
  intro i hi
  rw [stepU_fpc s s' k v hs]
  rcases stepU_mpc s s' k v hs with e | e
  · rw [e] at hi; exact h i hi
  · rw [e] at hi; cases hi

/-! ### assembly -/

theorem wakeOkD'_init (cfg : Cfg) (hc : cfg.dynPool = true) : wakeOkD' (init cfg) = true := by
  rw [wakeOkD'_iff]
  refine ⟨wakePD_busy rfl, tstartF_of_nts rfl, ?_⟩
  constructor <;> simp [init, inShutU', inShutM', inShutF', inSd]

theorem wakeOkD_init (cfg : Cfg) (hc : cfg.dynPool = true) : wakeOkD (init cfg) = true :=
  wakeOkD_of_wakeOkD' _ (wakeOkD'_init cfg hc)

/-- the strengthened invariant is inductive, given the lock-holder invariant (`holderOk`, for `wakeX`) and the
    program-counter invariant (`dynOk`: not broken, wake-up pipe open before the final phase) of the pre-state.
    `hv`, `hp`, `hc` are not used: the statement also holds for crash steps and outside the dynamic-pool scope as long as
    `dynOk s` holds. -/
theorem wakeOkD'_step {s s' : St} {a : Actor} {v : Variant} (hv : v ≠ .crash) (hs : step s a v = some s')
    (hp : PidsInv s) (hc : s.cfg.dynPool = true) (hd : dynOk s = true) (hh : holderOk s = true)
    (h : wakeOkD' s = true) : wakeOkD' s' = true := by
  rw [wakeOkD'_iff] at h ⊢
  obtain ⟨h1, h2, h3⟩ := h
  unfold step at hs
  cases a with
  | U k =>
    simp only [] at hs
    split at hs
    · rename_i hk
      exact ⟨wakePD_stepU s s' k v hk hd h3 h1 hs, tstartF_stepU s s' k v h2 hs, wx_stepU s s' k v hk h3 hh hs⟩
    · cases hs
  | M => exact ⟨wakePD_stepM s s' v hd h2 h1 hs, tstartF_stepM s s' v hs, wx_stepM s s' v h3 hh hs⟩
  | F => exact ⟨wakePD_stepF s s' v hd h1 hs, tstartF_stepF s s' v h2 hs, wx_stepF s s' v h3 hh hs⟩
  | W p =>
    simp only [] at hs
    split at hs
    · exact ⟨wakePD_stepW s s' p v h1 hs, tstartF_stepW s s' p v h2 hs, wx_stepW s s' p v h3 hs⟩
    · cases hs

/-- in particular `wakeOkD` holds after the step -/
theorem wakeOkD_step' {s s' : St} {a : Actor} {v : Variant} (hv : v ≠ .crash) (hs : step s a v = some s')
    (hp : PidsInv s) (hc : s.cfg.dynPool = true) (hd : dynOk s = true) (hh : holderOk s = true)
    (h : wakeOkD' s = true) : wakeOkD s' = true :=
  wakeOkD_of_wakeOkD' _ (wakeOkD'_step hv hs hp hc hd hh h)

end LokyModel.Exec
