import LokyModel.Lemmas.ExecLiveDeliverBase
/-! `RefP` across a worker step: a worker that gives a slot of the call queue back has taken a call item (before the
    final phase there is nothing else in the queue) and will answer it; the answer is a result message. -/
namespace LokyModel.Exec
set_option linter.unusedSimpArgs false
set_option linter.unusedVariables false

theorem wDispatch_post (s : St) (p : Pid) (m : CMsg) (hc : s.cfg.staticPool = true) (hm : isCall m = true) :
    wPost ((wDispatch s p m).w p) = 1 := by
  cases m with
  | call w t =>
    have := (spec_static s hc t).2.1
    simp [wDispatch, this, setW_w', upd_same', wPost]
  | stop => simp [isCall] at hm
  | close => simp [isCall] at hm

theorem call_of_notStopping (m : CMsg) (h : wStopping (.gSem m) = false) : isCall m = true := by
  cases m <;> simp_all [wStopping, isCall]

set_option maxHeartbeats 8000000 in
theorem refP_stepW (s s' : St) (p : Pid) (v : Variant) (hv : v ≠ .crash) (hc : s.cfg.staticPool = true)
    (hpi : PidsInv s) (hst : staticOk s = true) (hp : p ∈ s.allPids) (h : RefP s) (hs : stepW s p v = some s') :
    RefP s' := by
  have key : NeedR s → wNever (s.w p) = false ∧ wStopping (s.w p) = false := by
    intro n
    obtain ⟨n1, n2, _⟩ := static_pre s hst (needR_notFinal n)
    exact ⟨n1 p hp, n2 p hp⟩
  unfold stepW at hs
  crack
  all_goals (first
    | (exact absurd rfl hv)
    | (intro n
       have n0 : NeedR s := needR_congr s _ (by first | rfl | (simp; done)) (by first | rfl | (simp; done)) n
       obtain ⟨k1, k2⟩ := key n0
       refine WR_W s _ p hp hpi.nodup ?_ ?_ ?_ ?_ ?_ ?_ ?_ ?_ ?_ (h n0)))
  all_goals (first
    | rfl
    | (simp; done)
    | (intro q hq
       simp [wAfterStart_w_other, wGet_w_other, wDispatch_w_other, wAfterResult_w_other, setW_w_other, die_w_other, hq]; done)
    | (exfalso; exact (spec_static s hc _).1 ‹_›)
    | (exfalso; simp_all [wNever]; done)
    | (right; simp_all [wPost, setW_w', upd_same', wGet, wAfterStart, wAfterResult, die_w']; done)
    | (right
       rename_i heq
       rw [heq] at k2 ⊢
       simp [wPost]; done)
    | (right
       rename_i m heq
       rw [heq] at k2 ⊢
       have hcall := call_of_notStopping _ k2
       have hpost := wDispatch_post { s with cqSem := s.cqSem + 1 } p m hc hcall
       rw [hpost]
       simp [wPost]; done)
    | skip)

end LokyModel.Exec
