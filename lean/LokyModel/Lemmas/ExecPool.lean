import LokyModel.Lemmas.ExecAnnStep
/-!
Every worker that could still run a task is registered in the pool (or is the one the manager has just un-registered
in order to kill / join it); together with `registered ≤ max_workers` this bounds the number of tasks executing at
any time.
-/
namespace LokyModel.Exec

/-- the worker the manager has popped from the registry and is killing / joining -/
def mPop : MPc → Option Pid
  | .kill p | .killJoin p | .jJoin p => some p
  | _ => none

/-- the worker is inside a task body -/
def busy : WPc → Bool
  | .task _ _ | .taskEnd _ _ => true
  | _ => false

theorem busy_not_announced (pc : WPc) (h : busy pc = true) : announced pc = false := by
  cases pc <;> simp_all [busy, announced]

structure PoolInv (s : St) : Prop where
  pre : ∀ p, p ∈ s.allPids → announced (s.w p) = false → p ∈ s.procDict ∨ mPop s.mpc = some p
  nd : s.procDict.Nodup
  popnot : ∀ p, mPop s.mpc = some p → p ∉ s.procDict
  cnt : s.procDict.length + (if (mPop s.mpc).isSome then 1 else 0) ≤ s.cfg.maxWorkers
  fresh : ∀ p, p ∈ s.procDict → p < s.nextPid

theorem poolInv_init (cfg : Cfg) : PoolInv (init cfg) := by
  constructor <;> simp [init, mPop]

theorem mPop_flagged (pc : MPc) (p : Pid) (h : mPop pc = some p) : mFlagged pc = true := by
  cases pc <;> simp_all [mPop, mFlagged]

theorem nodup_subset_length : ∀ (L R : List Nat), L.Nodup → (∀ x, x ∈ L → x ∈ R) → L.length ≤ R.length := by
  intro L
  induction L with
  | nil => intro R _ _; simp
  | cons a L ih =>
    intro R hn hs
    simp only [List.nodup_cons] at hn
    have ha : a ∈ R := hs a (by simp)
    have := ih (R.erase a) hn.2 (by
      intro x hx
      have hxa : x ≠ a := fun e => hn.1 (e ▸ hx)
      exact (List.mem_erase_of_ne hxa).mpr (hs x (by simp [hx])))
    rw [List.length_erase_of_mem ha] at this
    have hpos : 0 < R.length := List.length_pos_of_mem ha
    simp only [List.length_cons]
    omega

/-- **at most `max_workers` task bodies at any time** (from the pool invariant) -/
theorem executing_le (s : St) (h : PoolInv s) (hn : s.allPids.Nodup) :
    (s.allPids.filter (fun p => busy (s.w p))).length ≤ s.cfg.maxWorkers := by
  have hc := h.cnt
  cases hm : mPop s.mpc with
  | none =>
    rw [hm] at hc; simp at hc
    have := nodup_subset_length (s.allPids.filter (fun p => busy (s.w p))) s.procDict (hn.filter _) (by
      intro x hx
      simp only [List.mem_filter] at hx
      rcases h.pre x hx.1 (busy_not_announced _ hx.2) with e | e
      · exact e
      · rw [hm] at e; cases e)
    exact Nat.le_trans this hc
  | some q =>
    rw [hm] at hc; simp at hc
    have := nodup_subset_length (s.allPids.filter (fun p => busy (s.w p))) (q :: s.procDict) (hn.filter _) (by
      intro x hx
      simp only [List.mem_filter] at hx
      rcases h.pre x hx.1 (busy_not_announced _ hx.2) with e | e
      · exact List.mem_cons_of_mem _ e
      · rw [hm] at e; cases e; simp)
    simp only [List.length_cons] at this
    exact Nat.le_trans this hc

end LokyModel.Exec
