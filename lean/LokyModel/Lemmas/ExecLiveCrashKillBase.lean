import LokyModel.ExecLiveCrashKillDef
import LokyModel.Lemmas.ExecLiveCrashDefs
import LokyModel.Lemmas.ExecLiveBase
import LokyModel.Lemmas.ExecLiveWatchOk
import LokyModel.Lemmas.ExecShut
/-! `killedC` (every worker is dead once the manager of a pool flagged broken is in its final phase): the Prop form,
    frame lemmas, and what `kill_workers` does to the registry. -/
namespace LokyModel.Exec

/-- the manager is in the kill loop, about to kill or joining `p` -/
def atKill (pc : MPc) (p : Pid) : Prop := pc = .kill p ∨ pc = .killJoin p

structure KI (s : St) : Prop where
  flag : s.broken.isSome = true → s.shutdownFlag = true
  late : s.broken.isSome = true → mBrkLate s.mpc = true
  loop : ∀ p, atKill s.mpc p → ∀ q ∈ s.allPids, q = p ∨ q ∈ s.procDict ∨ s.w q = .dead
  fin : mFinal s.mpc = true → s.broken.isSome = true → ∀ q ∈ s.allPids, s.w q = .dead

theorem ki_of_bool (s : St) (h : killedC s = true) : KI s := by
  unfold killedC allDead at h
  simp only [Bool.and_eq_true, Bool.or_eq_true] at h
  obtain ⟨⟨h1, h2⟩, h3⟩ := h
  have hb : s.broken.isSome = true → s.shutdownFlag = true ∧ mBrkLate s.mpc = true := by
    intro hb
    rcases h1 with h1 | h1
    · cases hq : s.broken <;> simp [hq] at h1 hb
    · exact h1
  refine ⟨fun hb' => (hb hb').1, fun hb' => (hb hb').2, ?_, ?_⟩
  · intro p hp q hq
    rcases hp with hp | hp <;> simp only [hp, List.all_eq_true] at h2 <;> have := h2 q hq <;>
      simpa [or_assoc] using this
  · intro hm hb' q hq
    rcases h3 with h3 | h3
    · rcases h3 with h3 | h3
      · simp [hm] at h3
      · cases hq : s.broken <;> simp [hq] at h3 hb'
    · rw [List.all_eq_true] at h3
      simpa using h3 q hq

theorem bool_of_ki (s : St) (h : KI s) : killedC s = true := by
  obtain ⟨h1, h2, h3, h4⟩ := h
  unfold killedC allDead
  simp only [Bool.and_eq_true, Bool.or_eq_true]
  refine ⟨⟨?_, ?_⟩, ?_⟩
  · cases hq : s.broken with
    | none => left; rfl
    | some b => right; exact ⟨h1 (by simp [hq]), h2 (by simp [hq])⟩
  · split
    · rename_i p hm
      rw [List.all_eq_true]; intro q hq
      have := h3 p (.inl hm) q hq
      simpa [or_assoc] using this
    · rename_i p hm
      rw [List.all_eq_true]; intro q hq
      have := h3 p (.inr hm) q hq
      simpa [or_assoc] using this
    · rfl
  · cases hm : mFinal s.mpc with
    | false => left; left; rfl
    | true =>
      cases hq : s.broken with
      | none => left; right; rfl
      | some b =>
        right
        rw [List.all_eq_true]; intro q hq'
        simpa using h4 hm (by simp [hq]) q hq'

/-! ### shapes of the program counter -/

theorem atKill_flagged {pc : MPc} {p : Pid} (h : atKill pc p) : mFlagged pc = true := by
  rcases h with h | h <;> rw [h] <;> rfl
theorem atKill_not_final {pc : MPc} {p : Pid} (h : atKill pc p) : mFinal pc = false := by
  rcases h with h | h <;> rw [h] <;> rfl
theorem final_flagged {pc : MPc} (h : mFinal pc = true) : mFlagged pc = true := by
  cases pc <;> simp_all [mFinal, mFlagged]
theorem final_late {pc : MPc} (h : mFinal pc = true) : mBrkLate pc = true := by
  cases pc <;> simp_all [mFinal, mBrkLate]
theorem late_flagged {pc : MPc} (h : mBrkLate pc = true) : mFlagged pc = true := by
  cases pc <;> simp_all [mFinal, mBrkLate, mFlagged]

/-- outside the broken path the pool is not flagged -/
theorem KI.nobroken {s : St} (h : KI s) {pc : MPc} (e : s.mpc = pc) (hl : mBrkLate pc = false) : s.broken = none := by
  cases hq : s.broken with
  | none => rfl
  | some b =>
    have := h.late (by simp [hq])
    rw [e, hl] at this; cases this

/-- a state that is not flagged broken: only the kill loop (of `shutdown(kill_workers=True)`) matters -/
theorem ki_of_nobroken (s' : St) (hb : s'.broken = none)
    (hl : ∀ p, atKill s'.mpc p → ∀ q ∈ s'.allPids, q = p ∨ q ∈ s'.procDict ∨ s'.w q = .dead) : KI s' :=
  ⟨fun h => by simp [hb] at h, fun h => by simp [hb] at h, hl, fun _ h => by simp [hb] at h⟩

/-- frame: nothing the predicate reads changes, except that more processes may be dead and the registry may grow -/
theorem ki_same' (s s' : St) (h : KI s) (hb : s'.broken = s.broken)
    (hf : s.shutdownFlag = true → s'.shutdownFlag = true)
    (hm : s'.mpc = s.mpc) (ha : s'.allPids = s.allPids) (hp : ∀ q ∈ s.procDict, q ∈ s'.procDict)
    (hw : ∀ q, s.w q = .dead → s'.w q = .dead) : KI s' := by
  obtain ⟨h1, h2, h3, h4⟩ := h
  refine ⟨by rw [hb]; exact fun x => hf (h1 x), by rw [hb, hm]; exact h2, ?_, ?_⟩
  · intro p hk q hq
    rw [hm] at hk; rw [ha] at hq
    rcases h3 p hk q hq with e | e | e
    · exact .inl e
    · exact .inr (.inl (hp q e))
    · exact .inr (.inr (hw q e))
  · intro hm' hb' q hq
    rw [hm] at hm'; rw [hb] at hb'; rw [ha] at hq
    exact hw q (h4 hm' hb' q hq)

theorem ki_same (s s' : St) (h : KI s) (hb : s'.broken = s.broken) (hf : s'.shutdownFlag = s.shutdownFlag)
    (hm : s'.mpc = s.mpc) (ha : s'.allPids = s.allPids) (hp : ∀ q ∈ s.procDict, q ∈ s'.procDict)
    (hw : ∀ q, s.w q = .dead → s'.w q = .dead) : KI s' :=
  ki_same' s s' h hb (by rw [hf]; exact id) hm ha hp hw

/-- a step inside the final phase -/
theorem ki_final (s s' : St) (h : KI s) (hm : mFinal s.mpc = true) (hm' : mFinal s'.mpc = true)
    (hb : s'.broken = s.broken) (hf : s'.shutdownFlag = s.shutdownFlag) (ha : s'.allPids = s.allPids)
    (hw : s'.w = s.w) : KI s' := by
  obtain ⟨h1, _, _, h4⟩ := h
  refine ⟨by rw [hb, hf]; exact h1, fun _ => final_late hm', ?_, ?_⟩
  · intro p hk
    rw [atKill_not_final hk] at hm'; cases hm'
  · intro _ hb' q hq
    rw [hb] at hb'; rw [ha] at hq; rw [hw]
    exact h4 hm hb' q hq

/-! ### `kill_workers` pops the registry from the end -/

theorem mem_dropLast_or_last (l : List Pid) (p q : Pid) (hl : l.getLast? = some p) (hq : q ∈ l) :
    q = p ∨ q ∈ l.dropLast := by
  have hne : l ≠ [] := by intro e; simp [e] at hl
  have h1 := List.dropLast_concat_getLast hne
  have h2 : l.getLast hne = p := by
    rw [List.getLast?_eq_some_getLast hne] at hl; simpa using hl
  rw [h2] at h1
  rw [← h1] at hq
  rcases List.mem_append.1 hq with e | e
  · exact .inr e
  · exact .inl (by simpa using e)

theorem mKillNext_loop (X : St) (p : Pid) (hk : atKill (mKillNext X).mpc p) :
    ∀ q ∈ X.procDict, q = p ∨ q ∈ (mKillNext X).procDict := by
  intro q hq
  unfold mKillNext at hk ⊢
  split at hk
  · rename_i p' hl
    simp only []
    have hp : p' = p := by
      rcases hk with e | e
      · simpa using e
      · simp at e
    subst hp
    exact mem_dropLast_or_last _ _ _ hl hq
  · rcases hk with e | e <;> simp [mJoinStart] at e

theorem mKillNext_fin (X : St) (h : mFinal (mKillNext X).mpc = true) : X.procDict = [] := by
  unfold mKillNext at h
  split at h
  · simp [mFinal] at h
  · rename_i hl
    simpa using hl

theorem mKillNext_late (X : St) : mBrkLate (mKillNext X).mpc = true := by
  unfold mKillNext; split <;> rfl

theorem mAfterFlag_loop (X : St) (p : Pid) (hk : atKill (mAfterFlag X).mpc p) :
    ∀ q ∈ X.procDict, q = p ∨ q ∈ (mAfterFlag X).procDict := by
  intro q hq
  by_cases hkf : X.killFlag = true
  · have e : mAfterFlag X = mKillNext (failAll { X with pending := [] } X.pending .excShutdown) := by
      unfold mAfterFlag; rw [if_pos hkf]
    rw [e] at hk ⊢
    exact mKillNext_loop _ p hk q (by simpa using hq)
  · exfalso
    by_cases hp : X.pending = []
    · have e : mAfterFlag X = mJoinStart X := by
        unfold mAfterFlag; rw [if_neg hkf, if_pos hp]
      rw [e] at hk
      rcases hk with e | e <;> simp [mJoinStart] at e
    · have e : mAfterFlag X = mAddF X := by
        unfold mAfterFlag; rw [if_neg hkf, if_neg hp]
      rw [e] at hk
      rcases mAddF_mpc X with ⟨i, _, e⟩ | ⟨_, e, _⟩ | ⟨_, e, _⟩ <;> rw [e] at hk <;> rcases hk with e | e <;> cases e

/-- what `staticC` says about the registry -/
theorem staticC_reg (s : St) (h : staticC s = true) : mLateK s.mpc = false → s.procDict = s.allPids := by
  unfold staticC at h
  simp only [Bool.and_eq_true] at h
  obtain ⟨⟨_, h7⟩, _⟩ := h
  intro hl
  simp only [hl, Bool.false_or] at h7
  simpa using h7

end LokyModel.Exec
