import LokyModel.Lemmas.ExecLiveCrashKillW
import LokyModel.Lemmas.ExecLiveCrashKillM
import LokyModel.Lemmas.ExecLiveCrashKillU
/-!
# `killedC` is an inductive invariant of static pools with crashes, and gives the hypothesis `hkd` of `stuck_good_crash`

"Once the manager of a pool flagged broken has reached its final phase, every worker ever spawned is dead."  The only
facts about the pre-state that the induction step uses are `ShutInv` (an accepted `submit` holds `shutdown_lock` with the
shutdown flag unset; the manager is in the kill loop only with the flag raised) and the registry conjunct of `staticC`
(`mLateK s.mpc || s.procDict == s.allPids`).  The step holds for every variant, crashes of workers that hold a lock
included: `StepLF` and `staticPool` are in the statement for uniformity with the other ingredients only.
-/
namespace LokyModel.Exec

theorem killedC_init (cfg : Cfg) (_hc : cfg.staticPool = true) : killedC (init cfg) = true := by
  apply bool_of_ki
  refine ⟨?_, ?_, ?_, ?_⟩ <;> simp [init, atKill, mFinal]

/-- the induction step in Prop form, any actor, any variant -/
theorem ki_step {s s' : St} {a : Actor} {v : Variant} (hs : step s a v = some s') (hsh : ShutInv s)
    (hreg : mLateK s.mpc = false → s.procDict = s.allPids) (h : KI s) : KI s' := by
  unfold step at hs
  cases a with
  | U k => simp only [] at hs; split at hs; exact ki_stepU s s' k v h hsh hs; cases hs
  | M => exact ki_stepM s s' v h hreg hs
  | F => exact ki_stepF s s' v h hs
  | W p => simp only [] at hs; split at hs; exact ki_stepW s s' p v h hs; cases hs

theorem killedC_stepLF {s s' : St} {a : Actor} {v : Variant} (hs : step s a v = some s')
    (_hlf : StepLF s a v) (_hc : s.cfg.staticPool = true)
    (hsh : ShutInv s) (hst : staticC s = true)
    (h : killedC s = true) : killedC s' = true :=
  bool_of_ki s' (ki_step hs hsh (staticC_reg s hst) (ki_of_bool s h))

/-- the hypothesis `hkd` of `stuck_good_crash` -/
theorem killedC_hkd (s : St) (h : killedC s = true) :
    mFinal s.mpc = true → s.broken.isSome = true → ∀ p ∈ s.allPids, s.w p = .dead :=
  (ki_of_bool s h).fin

/-- the rest of what `killedC` says: the broken flag is raised together with the shutdown flag, by a manager that is
    from then on at `brkRel`, in the kill loop or in its final phase -/
theorem killedC_broken (s : St) (h : killedC s = true) (hb : s.broken.isSome = true) :
    s.shutdownFlag = true ∧ mBrkLate s.mpc = true :=
  ⟨(ki_of_bool s h).flag hb, (ki_of_bool s h).late hb⟩

end LokyModel.Exec
