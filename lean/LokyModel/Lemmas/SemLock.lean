import LokyModel.Lemmas.Cond
/-! helper lemmas for the sequential `SemLock` model (M5a) -/
set_option linter.unusedSimpArgs false
namespace LokyModel.SemLock
open LokyModel.Cond (LInv isMine_iff isMine_false_iff linv_acquired linv_release_rlock release_of_mine canAcquire_iff)

/-- change of "successful acquires minus successful releases" caused by one result -/
def delta : Res → Int
  | .acq true => 1
  | .rel .ok => -1
  | _ => 0

/-- successful acquires minus successful releases along a trace: the number of holders -/
def outstanding (s : SL) : List Op → Int
  | [] => 0
  | o :: os => delta (stepOp s o).2 + outstanding (stepOp s o).1 os

theorem exec_cons (s : SL) (o : Op) (os : List Op) : exec s (o :: os) = exec (stepOp s o).1 os := rfl

theorem stepOp_kind (s : SL) (o : Op) : (stepOp s o).1.kind = s.kind ∧ (stepOp s o).1.maxvalue = s.maxvalue := by
  cases o with
  | tryAcq t =>
    simp only [stepOp, tryAcquire]
    split
    · simp only [acquired]; split <;> simp
    · simp
  | rel t =>
    simp only [stepOp, release]
    cases hk : s.kind <;> simp only []
    · split
      · simp [hk]
      · split <;> simp [hk]
    · split <;> simp [hk]

/-- one step of a plain counting semaphore: `value` moves opposite to the number of holders -/
theorem sem_step (s : SL) (o : Op) (hk : s.kind = .semaphore) :
    ((stepOp s o).1.value : Int) + delta (stepOp s o).2 = s.value := by
  cases o with
  | tryAcq t =>
    simp only [stepOp, tryAcquire, canAcquire, hk]
    by_cases hv : 0 < s.value
    · simp [hv, acquired, hk, delta]; omega
    · simp [hv, delta]
  | rel t =>
    simp only [stepOp, release, hk]
    by_cases hm : s.maxvalue ≤ s.value
    · simp [hm, delta]
    · simp [hm, delta]; omega

theorem sem_conservation (s : SL) (hk : s.kind = .semaphore) (ops : List Op) :
    ((exec s ops).value : Int) + outstanding s ops = s.value := by
  induction ops generalizing s with
  | nil => simp [exec, outstanding]
  | cons o os ih =>
    rw [exec_cons, outstanding]
    have h1 := sem_step s o hk
    have h2 := ih (stepOp s o).1 ((stepOp_kind s o).1.trans hk)
    omega

theorem sem_value_le_max (s : SL) (hk : s.kind = .semaphore) (hv : s.value ≤ s.maxvalue) (ops : List Op) :
    (exec s ops).value ≤ s.maxvalue := by
  induction ops generalizing s with
  | nil => exact hv
  | cons o os ih =>
    rw [exec_cons]
    have hkm := stepOp_kind s o
    rw [← hkm.2]
    apply ih _ (hkm.1.trans hk)
    rw [hkm.2]
    cases o with
    | tryAcq t =>
      simp only [stepOp, tryAcquire, canAcquire, hk]
      by_cases h0 : 0 < s.value
      · simp [h0, acquired, hk]; omega
      · simp [h0]; exact hv
    | rel t =>
      simp only [stepOp, release, hk]
      by_cases hm : s.maxvalue ≤ s.value
      · simp [hm]; exact hv
      · simp [hm]; omega

theorem linv_release_sem (l : SL) (t : Nat) (h : LInv .semaphore l) : LInv .semaphore (release l t).1 := by
  have h1 := h.free; have h2 := h.vle; have h3 := h.kind; have h4 := h.cnn; have h5 := h.maxv
  have h6 := h.one rfl
  unfold release
  simp only [h3]
  by_cases hm : l.maxvalue ≤ l.value
  · simp only [hm, if_true]; exact h
  · simp only [hm, if_false]
    refine ⟨rfl, h5, ?_, ?_, ?_, ?_⟩
    · show l.value + 1 ≤ 1; omega
    · show 0 ≤ l.count - 1; omega
    · show l.value + 1 = 1 ↔ l.count - 1 = 0; omega
    · intro _; show l.count - 1 ≤ 1; omega

theorem linv_stepOp (k : Kind) (s : SL) (o : Op) (h : LInv k s) : LInv k (stepOp s o).1 := by
  cases o with
  | tryAcq t =>
    simp only [stepOp, tryAcquire]
    split
    · exact linv_acquired k s t h ‹_›
    · exact h
  | rel t =>
    simp only [stepOp]
    cases k with
    | recursiveMutex => exact linv_release_rlock s t h
    | semaphore => exact linv_release_sem s t h

theorem linv_exec (k : Kind) (s : SL) (ops : List Op) (h : LInv k s) : LInv k (exec s ops) := by
  induction ops generalizing s with
  | nil => exact h
  | cons o os ih => rw [exec_cons]; exact ih _ (linv_stepOp k s o h)

theorem linv_mkLock : LInv .semaphore mkLock := by constructor <;> simp [mkLock]
theorem linv_mkRLock : LInv .recursiveMutex mkRLock := by constructor <;> simp [mkRLock]

end LokyModel.SemLock
