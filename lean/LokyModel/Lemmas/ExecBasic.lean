import LokyModel.Exec
/-! Basic facts about M1: reachability and its induction principle. -/
namespace LokyModel.Exec

/-- states reachable from `init cfg` by any number of steps of any actors, any variants
    (time-outs, failed try-locks, crashes) -/
inductive Reachable (cfg : Cfg) : St → Prop
  | init : Reachable cfg (init cfg)
  | step {s s' : St} {a : Actor} {v : Variant} : Reachable cfg s → step s a v = some s' → Reachable cfg s'

theorem run_append (s : St) (xs ys : List (Actor × Variant)) :
    run s (xs ++ ys) = (run s xs).bind (run · ys) := by
  induction xs generalizing s with
  | nil => simp [run]
  | cons x xs ih =>
    obtain ⟨a, v⟩ := x
    simp only [List.cons_append, run]
    cases step s a v with
    | none => simp
    | some s' => simpa using ih s'

theorem reachable_of_run_from {cfg : Cfg} {s0 : St} (h0 : Reachable cfg s0) :
    ∀ (sched : List (Actor × Variant)) (s : St), run s0 sched = some s → Reachable cfg s := by
  intro sched
  induction sched generalizing s0 with
  | nil => intro s hr; simp [run] at hr; subst hr; exact h0
  | cons x xs ih =>
    intro s hr
    obtain ⟨a, v⟩ := x
    simp only [run] at hr
    cases hs : step s0 a v with
    | none => simp [hs] at hr
    | some s1 =>
      simp only [hs, Option.bind_some] at hr
      exact ih (Reachable.step h0 hs) s hr

/-- the executable `run` (what the driver and the lock-step correspondence exercise) reaches
    exactly the `Reachable` states -/
theorem reachable_iff_run (cfg : Cfg) (s : St) :
    Reachable cfg s ↔ ∃ sched, run (init cfg) sched = some s := by
  constructor
  · intro h
    induction h with
    | init => exact ⟨[], rfl⟩
    | @step _ _ a v _ hs ih =>
      obtain ⟨sched, hr⟩ := ih
      refine ⟨sched ++ [(a, v)], ?_⟩
      rw [run_append, hr]
      simp [run, hs]
  · rintro ⟨sched, hr⟩
    exact reachable_of_run_from Reachable.init sched s hr

end LokyModel.Exec
