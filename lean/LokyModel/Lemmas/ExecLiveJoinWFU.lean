import LokyModel.Lemmas.ExecLiveJoinBase
/-! `JoinInv` is kept by the steps of workers, feeder and user threads. -/
namespace LokyModel.Exec
set_option linter.unusedSimpArgs false
set_option linter.unusedVariables false

theorem stepW_alive (s s' : St) (p : Pid) (v : Variant) (hs : stepW s p v = some s') : s.w p ≠ .dead := by
  intro e; unfold stepW at hs; simp [e] at hs

theorem joinInv_stepW (s s' : St) (p : Pid) (v : Variant) (h : JoinInv s) (hpi : PidsInv s) (hst : staticOk s = true)
    (hp : p ∈ s.allPids) (hs : stepW s p v = some s') : JoinInv s' := by
  obtain ⟨f1, f2, f3, f4, f5, f6, f7, f8⟩ := stepW_frame s s' p v hs
  have hal := stepW_alive s s' p v hs
  refine joinInv_same s s' h f1 (by rw [f2]; exact id) (by rw [f3]; intro _ h; exact h) f4 f5 ?_ (by rw [f6]; exact id) ?_
  · intro q hq
    by_cases e : q = p
    · subst e; exact absurd hq hal
    · rw [f8 q e]; exact hq
  · rcases stepW_pipe s s' p v hs with ⟨hpipe, hstop⟩ | ⟨m, hpipe, hpre, hpost⟩ | hnever
    · have e : stopsInFlight s' = stopsInFlight s := by
        rw [stopsInFlight_eq, stopsInFlight_eq, f6, f7, hpipe]
      have := needStop_mono s s' f5 (by
        intro q hq hw
        by_cases e : q = p
        · subst e; exact hstop hw
        · rw [f8 q e]; exact hw)
      omega
    · have e := needStop_upd s s' p hpi.nodup hp f5 f8
      have e1 : stopsInFlight s = stopsInFlight s' + cstop m := by
        rw [stopsInFlight_eq, stopsInFlight_eq, f6, f7, hpipe]; simp only [sumL_cons]; omega
      rw [hpre, hpost] at e
      cases m <;> simp [nstop, cstop, wStopping, isStop] at e e1 <;> omega
    · have := (staticOk_facts s hst).2.2.1 p hp
      rw [this] at hnever; cases hnever

theorem joinInv_stepF (s s' : St) (v : Variant) (h : JoinInv s) (hs : stepF s v = some s') : JoinInv s' := by
  obtain ⟨f1, f2, f3, f4, f5, f6, f7, f8⟩ := stepF_frame s s' v hs
  refine joinInv_same s s' h f1 (by rw [f2]; exact id) (fun _ => f3) f4 f5 (by rw [f6]; exact fun _ h => h)
    (fun e => absurd e f8) ?_
  have : needStop s' = needStop s := by rw [needStop_eq, needStop_eq, f5, f6]
  omega

theorem joinInv_stepU (s s' : St) (k : Nat) (v : Variant) (h : JoinInv s)
    (hacc : ∀ k, s.upc k = .subPStart → s.shutdownFlag = false) (hs : stepU s k v = some s') : JoinInv s' := by
  obtain ⟨f1, f2, f3, f4, f5, f6, f7⟩ := stepU_frame s s' k v hs
  by_cases hf : mFlagF s.mpc = true
  · have hfl := h.flagF hf
    rcases f7 with ⟨g1, g2, g3⟩ | g
    · rcases f1 with f1 | f1
      · refine joinInv_same s s' h f1 f2 f3 g1 g2 (by rw [g3]; exact fun _ h => h) (by rw [f4]; exact id) ?_
        have e1 : needStop s' = needStop s := by rw [needStop_eq, needStop_eq, g2, g3]
        have e2 : stopsInFlight s' = stopsInFlight s := by rw [stopsInFlight_eq, stopsInFlight_eq, f4, f5, f6]
        omega
      · exact joinInv_plain s' (by rw [f1]; rfl)
    · rw [hacc k g] at hfl; cases hfl
  · have hf' : mFlagF s.mpc = false := by simpa using hf
    rcases f1 with f1 | f1
    · exact joinInv_plain s' (by rw [f1]; exact hf')
    · exact joinInv_plain s' (by rw [f1]; rfl)

end LokyModel.Exec
