import LokyModel.Lemmas.ExecOutcome
/-! `OutInv`: steps of a worker process and of the feeder thread. -/
namespace LokyModel.Exec
open StaticP

macro "outw_close" : tactic => `(tactic| (
  first
  | (intro x hx; simp_all; done)
  | (intro x hx; left; simpa using hx; done)
  | (simp [wArgOk]; done)
  | (simp_all [wArgOk]; done)
  | skip))

set_option maxHeartbeats 4000000 in
theorem outInv_stepW (s s' : St) (p : Pid) (v : Variant) (h : OutInv s) (hm : MsgInv s) (hs : stepW s p v = some s') :
    OutInv s' := by
  have hwp := h.w p
  have hmp := hm.w p
  unfold stepW at hs
  crack_step
  all_goals (first
    | (refine out_wmove s _ h p _ rfl (by simp) ?_ ?_ ?_ <;> outw_close <;> done)
    | (refine out_wmove s _ h p _ (wGet_w' _ _) (by simp) ?_ ?_ (wArgOk_wGetPc _ _) <;> outw_close <;> done)
    -- the head of the call pipe is taken
    | (refine out_wmove s _ h p _ rfl (by simp) ?_ ?_ ?_
       · intro x hx; simp_all
       · intro x hx; left; simpa using hx
       · show cArgOk s.cfg _ = true; refine h.pipe _ ?_; simp_all)
    | (refine out_wmove s _ h p _ (wDispatch_w' _ _ _) (by simp) ?_ ?_ (wArgOk_wDispatchPc _ _ ?_)
       · intro x hx; simpa using hx
       · intro x hx; left; simpa using hx
       · simp_all [wArgOk])
    | (refine out_wmove s _ h p _ (wAfterStart_w' _ _) (by simp) ?_ ?_ ?_
       · intro x hx; simpa using hx
       · intro x hx; left; simpa using hx
       · split
         · rfl
         · exact wArgOk_wGetPc _ _)
    | (obtain ⟨pc, hw, hpc⟩ := wAfterResult_w' { s with rqWlock := s.rqWlock + 1, oRqWlock := none } p
       refine out_wmove s _ h p pc hw (by simp) ?_ ?_ ?_
       · intro x hx; simpa using hx
       · intro x hx; left; simpa using hx
       · rcases hpc with rfl | rfl | rfl <;> rfl)
    -- the body starts: the work id enters the execution log
    | (refine out_wmove s _ h p _ rfl (by simp) ?_ ?_ ?_
       · intro x hx; simpa using hx
       · intro x hx
         simp at hx
         rcases hx with hx | rfl
         · left; exact hx
         · right
           rw [‹s.w p = _›] at hwp hmp
           obtain ⟨h1, h2⟩ := hmp
           refine ⟨h1, ?_⟩
           unfold argOfW; rw [← h2]; simpa [wArgOk] using hwp
       · rfl)
    | skip)

/-! ### the feeder -/

/-- closes the side conditions of `out_keep` for a step that leaves futures alone -/
macro "out_simple" s:term "," h:term : tactic => `(tactic| (
  have hp := OutInv.pipe $h; have hw := OutInv.w $h; have hf := OutInv.f $h; have hx := OutInv.ex $h
  refine out_keep $s _ $h ?_ ?_ ?_ ?_ ?_ ?_ ?_
  · simp
  · simp
  · simp
  · intro x hx'; simp at hx'; simp_all [fArgOk, cArgOk]
  · intro q; simp_all
  · simp_all [fArgOk, cArgOk]
  · intro i hi; simp at hi; simp_all))

theorem out_fNext (X : St) (h : OutInv { X with fpc := .none }) (hb : X.cfg.benign)
    (hm : ∀ m ∈ X.cqBuf, goodC X.cfg X.taskOf m) : OutInv (fNext X) := by
  unfold fNext
  split
  · out_simple _, h
  · out_simple _, h
  · out_simple _, h
  · rename_i w t rest hq
    have hg := hm (.call w t) (by simp [hq])
    obtain ⟨hlt, ht⟩ := hg
    have hben := specOf_benign X hb t
    have harg : argOfW X.cfg X.taskOf w = (specOf X t).args := by unfold argOfW argOf specOf; rw [← ht]
    have harg' : argOf X.cfg t = (specOf X t).args := rfl
    split
    · rename_i ha
      have hp := OutInv.pipe h; have hw := OutInv.w h; have hx := OutInv.ex h
      refine out_keep _ _ h ?_ ?_ ?_ ?_ ?_ ?_ ?_
      · simp
      · simp
      · simp
      · intro x hx'; simp at hx'; simp_all
      · intro q; simp_all
      · simp [fArgOk, harg, ha, hlt, ArgKind.unsendable]
      · intro i hi; simp at hi; simp_all
    · rename_i ha
      have hp := OutInv.pipe h; have hw := OutInv.w h; have hx := OutInv.ex h
      refine out_keep _ _ h ?_ ?_ ?_ ?_ ?_ ?_ ?_
      · simp
      · simp
      · simp
      · intro x hx'; simp at hx'; simp_all
      · intro q; simp_all
      · simp [fArgOk, harg, ha, hlt, ArgKind.unsendable]
      · intro i hi; simp at hi; simp_all
    · rename_i ha1 ha2
      have hok : (specOf X t).args = .ok := by
        simp only [TaskSpec.benign, Bool.and_eq_true, bne_iff_ne, ne_eq] at hben
        cases hq' : (specOf X t).args <;> simp_all
      have hp := OutInv.pipe h; have hw := OutInv.w h; have hx := OutInv.ex h
      refine out_keep _ _ h ?_ ?_ ?_ ?_ ?_ ?_ ?_
      · simp
      · simp
      · simp
      · intro x hx'; simp at hx'; simp_all
      · intro q; simp_all
      · simp [fArgOk, cArgOk, harg', hok]
      · intro i hi; simp at hi; simp_all

/-- `_on_queue_feeder_error`: the future of the item fails with the feeder's exception -/
theorem out_errSem (s : St) (h : OutInv s) (w : Wid) (hpc : s.fpc = .errSem w) (X : St)
    (hfr : X.cfg = s.cfg ∧ X.taskOf = s.taskOf ∧ X.killFlag = s.killFlag ∧ X.uscript = s.uscript ∧ X.ucur = s.ucur ∧
           X.upc = s.upc ∧ X.cancelOk = s.cancelOk ∧ X.cqPipe = s.cqPipe ∧ X.w = s.w ∧ X.execW = s.execW ∧
           X.futs = s.futs.set w .excFeeder)
    (hf : X.fpc = .errAcq) : OutInv X := by
  obtain ⟨f1, f2, f3, f4, f5, f6, f7, f8, f9, f10, f11⟩ := hfr
  have hfp := h.f; rw [hpc] at hfp
  simp only [fArgOk, Bool.and_eq_true, decide_eq_true_eq] at hfp
  refine out_move s X h ⟨f1, f2, f3, f4, f5, f6⟩ ?_ ?_ ?_ ?_ ?_
  · intro i
    rw [f7]
    have e1 : futOf X i = futOf (setFut s w .excFeeder) i := by simp [futOf, f11, setFut]
    rw [e1, futOf_setFut]
    split
    · rename_i hi; rw [hi.1]; simpa [futArgOk] using hfp.2
    · exact h.fut i
  · rw [f8]; exact h.pipe
  · rw [f9]; exact h.w
  · rw [hf]; rfl
  · rw [f10]; exact h.ex

theorem futOf_eq (s : St) (i : Wid) : s.futs.getD i .pending = futOf s i := rfl

set_option maxHeartbeats 4000000 in
theorem outInv_stepF (s s' : St) (v : Variant) (h : OutInv s) (hm : MsgInv s) (hb : s.cfg.benign)
    (hs : stepF s v = some s') : OutInv s' := by
  have hbuf := hm.buf
  unfold stepF at hs
  crack_step
  all_goals (first
    | (refine out_fNext _ ?_ hb (by simpa using hbuf); out_simple s, h; done)
    | (out_simple s, h; done)
    -- the message in the feeder's hands enters the pipe
    | (have hf := OutInv.f h; rw [‹s.fpc = _›] at hf
       have hp := OutInv.pipe h; have hw := OutInv.w h; have hx := OutInv.ex h
       refine out_keep s _ h ?_ ?_ ?_ ?_ ?_ ?_ ?_
       · simp
       · simp
       · simp
       · intro x hx'; simp at hx'
         rcases hx' with hx' | rfl
         · exact hp x hx'
         · exact hf
       · intro q; simp_all
       · rfl
       · intro i hi; simp at hi; simp_all)
    -- `_on_queue_feeder_error`: the future of the item fails with the feeder's exception
    | (exact out_errSem s h _ ‹s.fpc = _› _ (by simp [setFut]) (by simp))
    | skip)

end LokyModel.Exec
