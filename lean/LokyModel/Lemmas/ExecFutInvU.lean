import LokyModel.Lemmas.ExecFutInvStep
import LokyModel.Lemmas.ExecShutU
namespace LokyModel.Exec

theorem shutInv_step {s s' : St} {a : Actor} {v : Variant} (h : ShutInv s) (hs : step s a v = some s') : ShutInv s' := by
  unfold step at hs
  cases a with
  | U k => simp only [] at hs; split at hs; exact shutInv_stepU s s' k v h hs; cases hs
  | M => exact shutInv_stepM s s' v h hs
  | F => exact shutInv_stepF s s' v h hs
  | W p => simp only [] at hs; split at hs; exact shutInv_stepW s s' p v h hs; cases hs

theorem shutInv_reachable {cfg : Cfg} {s : St} (h : Reachable cfg s) : ShutInv s := by
  induction h with
  | init => exact shutInv_init cfg
  | step _ hs ih => exact shutInv_step ih hs

theorem mTerm_mFlagged (pc : MPc) (h : mTerm pc = true) : mFlagged pc = true := by
  cases pc <;> simp_all [mTerm, mFlagged]

/-- `submit` accepts -/
theorem fs_submit (s X : St) (h : FutInv s) (ht : TokInv s)
    (hfr : X.futs = s.futs ++ [.pending] ∧ X.pending = s.pending ++ [s.queueCount] ∧
           X.workIds = s.workIds ++ [s.queueCount] ∧ X.execW = s.execW ∧ X.mpc = s.mpc) : FS s X := by
  obtain ⟨f1, f2, f3, f4, f5⟩ := hfr
  have hq : s.futs.length = s.queueCount := ht.len
  have hfo : ∀ j, futOf X j = if j = s.futs.length then .pending else futOf s j := by
    intro j; simp only [futOf, f1]; exact futOf_append _ _ _
  have hnp : s.queueCount ∉ s.pending := by
    intro hm; have := h.plt _ hm; womega
  refine ⟨⟨?_, ?_, ?_, ?_, ?_, ?_⟩, ?_⟩
  · intro j
    rw [f2, count_snoc]
    by_cases hj : s.queueCount = j
    · subst hj
      have : s.pending.count s.queueCount = 0 := List.count_eq_zero.mpr hnp
      simp [ind]; omega
    · have := h.pnodup j; simp [ind, hj]; omega
  · intro j hj
    rw [f2] at hj; rw [f1]
    simp only [List.mem_append, List.mem_singleton, List.length_append, List.length_singleton] at hj ⊢
    rcases hj with hj | hj
    · have := h.plt j hj; womega
    · womega
  · intro j hj
    rw [f2] at hj
    simp only [List.mem_append, List.mem_singleton] at hj
    rw [hfo]
    by_cases e : j = s.futs.length
    · simp [e]
    · rw [if_neg e]
      rcases hj with hj | hj
      · exact h.pfut j hj
      · exfalso; womega
  · intro j hlt hn
    rw [f1] at hlt; rw [f2] at hn
    simp only [List.mem_append, List.mem_singleton, not_or, List.length_append, List.length_singleton] at hlt hn
    have e : j ≠ s.futs.length := by womega
    rw [hfo, if_neg e]
    exact h.resolved j (by womega) hn.1
  · intro hl j hj
    rw [f5] at hl; rw [f3] at hj
    simp only [List.mem_append, List.mem_singleton] at hj
    rw [f2, hfo]
    rcases hj with hj | hj
    · have := h.wk hl j hj
      have hlt := h.plt j this.1
      have e : j ≠ s.futs.length := by womega
      rw [if_neg e]
      exact ⟨List.mem_append_left _ this.1, this.2⟩
    · have e : j = s.futs.length := by womega
      rw [if_pos e]
      exact ⟨by rw [hj]; simp, Or.inl rfl⟩
  · intro j hv
    rw [hfo] at hv
    by_cases e : j = s.futs.length
    · rw [if_pos e] at hv; simp at hv
    · rw [if_neg e] at hv; rw [f4]; exact h.executed j hv
  · intro j hd
    rw [hfo]
    by_cases e : j = s.futs.length
    · rw [futOf_ge s j (by womega)] at hd; simp [Fut.done] at hd
    · rw [if_neg e]

/-- `Future.cancel()` on a future that is still pending -/
theorem fs_cancel (s X : St) (h : FutInv s) (w : Wid) (hw : w < s.futs.length) (hp : futOf s w = .pending)
    (hfr : X.futs = s.futs.set w .cancelled ∧ X.pending = s.pending ∧ X.workIds = s.workIds ∧
           X.execW = s.execW ∧ X.mpc = s.mpc) : FS s X := by
  obtain ⟨f1, f2, f3, f4, f5⟩ := hfr
  have hfo : ∀ j, futOf X j = if j = w then .cancelled else futOf s j := by
    intro j
    have := futOf_setFut s w .cancelled j
    simp only [futOf, setFut, f1] at this ⊢
    rw [this]
    by_cases e : j = w <;> simp [e, hw]
  have hwp : w ∈ s.pending := by
    apply Decidable.byContradiction
    intro hn
    have := h.resolved w hw hn
    rw [hp] at this; simp [Fut.done] at this
  refine fut_move s X h (by rw [f1]; simp) (fun _ => by rw [f4]; exact Nat.le_refl _) ?_ ?_
  · intro j
    unfold FRel
    refine ⟨by rw [f2]; exact Nat.le_refl _, ?_⟩
    rw [hfo]
    by_cases e : j = w
    · subst e
      right; right
      exact ⟨by rw [f2]; exact hwp, hp, Or.inr (by simp)⟩
    · left; rw [if_neg e]
      exact ⟨rfl, fun h1 h2 => by rw [f2] at h2; exact absurd h1 h2⟩
  · intro hl j hj
    rw [f5] at hl; rw [f3] at hj
    have := h.wk hl j hj
    rw [f2, hfo]
    by_cases e : j = w
    · rw [if_pos e]; exact ⟨this.1, Or.inr rfl⟩
    · rw [if_neg e]; exact this

macro "fs_frameU" s:term "," h:term : tactic => `(tactic| (
  refine fs_same $s _ $h ?_ ?_ ?_ ?_ ?_
  · simp
  · simp
  · simp
  · intro i; simp
  · simp))

theorem fs_uDispatch (s : St) (k : Nat) (op : UOp) (h : FutInv s) (hl : LenInv s) : FS s (uDispatch s k op) := by
  unfold uDispatch
  cases op with
  | cancel t =>
    simp only []
    split
    · rename_i w hw
      have hlt : w < s.futs.length := by
        have := widOfTask_lt s t w hw; unfold LenInv at hl; womega
      split
      · rename_i hp
        refine fs_cancel s _ h w hlt hp ?_
        simp [setFut]
      · fs_frameU s, h
      · fs_frameU s, h
    · fs_frameU s, h
  | _ => simp only [] <;> (repeat' split) <;> (fs_frameU s, h)

set_option maxHeartbeats 4000000 in
theorem fs_stepU (s s' : St) (k : Nat) (v : Variant) (h : FutInv s) (ht : TokInv s) (hl : LenInv s) (hsh : ShutInv s)
    (hs : stepU s k v = some s') : FS s s' := by
  have hflag : accU (s.upc k) = true → mTerm s.mpc = false := by
    intro ha
    have h1 := hsh.acc k ha
    cases hm : mTerm s.mpc with
    | false => rfl
    | true => have := hsh.flag (mTerm_mFlagged _ hm); rw [h1] at this; cases this
  unfold stepU at hs
  crack_step
  all_goals (first
    | (fs_frameU s, h; done)
    | (exact fs_uDispatch s k _ h hl)
    | (refine fs_submit s _ h ht ?_; simp; done)
    | (refine fs_same s _ h ?_ ?_ ?_ ?_ ?_
       · simp
       · simp
       · simp
       · intro i; simp
       · intro _; exact hflag (by simp [*, accU]))
    | skip)

theorem fs_step {s s' : St} {a : Actor} {v : Variant} (h : FutInv s) (ht : TokInv s) (hl : LenInv s) (hsh : ShutInv s)
    (hs : step s a v = some s') : FS s s' := by
  unfold step at hs
  cases a with
  | U k => simp only [] at hs; split at hs; exact fs_stepU s s' k v h ht hl hsh hs; cases hs
  | M => exact fs_stepM s s' v h ht hs
  | F => exact fs_stepF s s' v h ht hs
  | W p => simp only [] at hs; split at hs; exact fs_stepW s s' p v h hs; cases hs

theorem futInv_reachable {cfg : Cfg} {s : St} (h : Reachable cfg s) : FutInv s := by
  induction h with
  | init => exact futInv_init cfg
  | step hr hs ih => exact (fs_step ih (tokInv_reachable hr) (lenInv_reachable hr) (shutInv_reachable hr) hs).1

/-- a resolved future never changes again, along any schedule from a reachable state -/
theorem done_sticky_run {cfg : Cfg} (sched : List (Actor × Variant)) : ∀ (s s' : St), Reachable cfg s →
    run s sched = some s' → ∀ i, (futOf s i).done = true → futOf s' i = futOf s i := by
  induction sched with
  | nil => intro s s' _ h i _; simp [run] at h; subst h; rfl
  | cons x xs ih =>
    intro s s' hr h i hd
    obtain ⟨a, v⟩ := x
    simp only [run] at h
    cases hs : step s a v with
    | none => simp [hs] at h
    | some s1 =>
      simp only [hs, Option.bind_some] at h
      have h1 := (fs_step (futInv_reachable hr) (tokInv_reachable hr) (lenInv_reachable hr) (shutInv_reachable hr) hs).2 i hd
      have h2 := ih s1 s' (Reachable.step hr hs) h i (by rw [h1]; exact hd)
      rw [h2, h1]

end LokyModel.Exec
