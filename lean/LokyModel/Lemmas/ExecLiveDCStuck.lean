import LokyModel.Lemmas.ExecLiveStuckCrash
import LokyModel.ExecLiveDCDef
/-! Dynamic pools (idle time-out) with worker deaths, **phase 2**: a registered worker is dead without having announced
    its exit (`zombie`), or the manager is on the broken path / in the kill loop / in its final phase (`phase2`).  A state
    of phase 2 in which no step other than a crash is enabled is a good one, given the ingredients of
    `ExecLiveDCDef.lean` in Prop form.  (The lock-holder facts `HF` hold on runs in which the manager's own SIGKILL never
    hits a worker inside the management-lock window — finding D5; an idle worker inside that window can always release.)
    Phase 1 is `stuck_good_dyn`. -/
namespace LokyModel.Exec

def mWaitJoinDC : MPc → Option Pid
  | .jJoin p | .pidJoin p | .killJoin p => some p
  | _ => none

/-- the manager thread cannot move: every program counter -/
theorem mBlockedDC (s : St) (h1 : stepM s .ok = none) (h2 : stepM s .fail = none)
    (hrecv : s.mpc = .recv → s.rqPipe ≠ []) (hclr : ∀ k, s.mpc = .clrRecv k → 0 < s.wakeup)
    (hl1 : ∀ n, s.mpc ≠ .jRelExit [] n) (hl2 : ∀ c n st co, s.mpc ≠ .jAlive [] c n st co) :
    s.mpc = .none ∨ mEnded s = true ∨
    (∃ snap, s.mpc = .wait snap ∧ s.rqPipe = [] ∧ s.wakeup = 0 ∧ snap.any (isDead s) = false) ∨
    (mWaitSlot s.mpc = true ∧ s.cqSem = 0) ∨ (mWaitShutC s.mpc = true ∧ s.shut = 0) ∨
    (mWaitMgmtD s.mpc = true ∧ s.mgmt = 0) ∨ (∃ p, mWaitJoinDC s.mpc = some p ∧ isDead s p = false) := by
  cases hm : s.mpc <;> unfold stepM at h1 h2 <;>
    simp only [hm, acq_map', mEnded, mWaitSlot, mWaitShutC, mWaitMgmtD, mWaitJoinDC] at h1 h2 hrecv hclr hl1 hl2 ⊢
  case wait snap =>
    right; right; left
    refine ⟨snap, rfl, ?_⟩
    split at h1
    · cases h1
    · split at h1
      · cases h1
      · split at h1
        · cases h1
        · rename_i a b c
          refine ⟨by simpa using a, by omega, by simpa using c⟩
  case recv =>
    exfalso
    have := hrecv trivial
    cases hq : s.rqPipe with
    | nil => exact this hq
    | cons r rest =>
      rw [hq] at h1
      cases r with
      | res w e b => cases b <;> simp at h1
      | pid p => simp at h1
      | rtb => simp at h1
  case clrPoll k =>
    exfalso
    by_cases hw : 0 < s.wakeup
    · simp [hw] at h1
    · have : s.wakeup = 0 := by omega
      simp [this] at h2; cases k <;> simp at h2
  case clrRecv k =>
    exfalso
    have := hclr k rfl
    simp [this] at h1
  case jRelExit ps n =>
    exfalso
    cases ps with
    | nil => exact hl1 n rfl
    | cons p rest => simp at h1; split at h1 <;> cases h1
  case jAlive ps c n st co =>
    exfalso
    cases ps with
    | nil => exact hl2 c n st co rfl
    | cons p rest => simp at h1
  all_goals (first
    | (simp; done)
    | (exfalso; simp at h1; done)
    | (exfalso; revert h1; simp; done)
    | (exfalso; split at h1 <;> simp at h1; done)
    | (simp at h1 ⊢; omega)
    | (simp at h1 h2 ⊢; omega)
    | skip)

/-- **Dynamic pool, phase 2: a quiescent state is a good one.** -/
theorem stuck_good_DC2 (s : St) (hp : PidsInv s) (h2 : phase2 s = true)
    (hsm : smallOk s = true) (hwn : ∀ p ∈ s.allPids, wNeverD (s.w p) = false)
    (HF : (s.cqWlock = 0 → inCqWF s.fpc = true) ∧
      (s.gshut = 0 → ∃ k, k < s.cfg.scripts.length ∧ inGshutU (s.upc k) = true) ∧
      (s.mgmt = 0 → (∃ k, k < s.cfg.scripts.length ∧ inMgmtU' (s.upc k) = true) ∨ inMgmtM' s.mpc = true ∨
        ∃ p, s.oMgmt = some (.W p) ∧ s.w p = .eRel) ∧
      (s.shut = 0 → (∃ k, k < s.cfg.scripts.length ∧ inShutU' (s.upc k) = true) ∨ inShutM' s.mpc = true ∨
        inShutF' s.fpc = true) ∧
      (s.broken = none → (s.rqWlock = 0 → ∃ p, inRqW (s.w p) = true) ∧ (s.cqRlock = 0 → ∃ p, inCqR (s.w p) = true)))
    (hkb : s.broken.isSome = true → mBrkLate s.mpc = true)
    (hkj : ∀ p, s.mpc = .killJoin p → s.w p = .dead)
    (hkf : s.broken.isSome = true → mFinal s.mpc = true → s.procDict = [] ∧ ∀ p, s.mpc ≠ .jJoin p)
    (htr : s.broken = none → tRecvOk s = true)
    (hwt : watchOk s = true) (ha : addSlotOk s = true)
    (hfut : ∀ i, i < s.futs.length → (futOf s i).done = false → i ∈ s.pending)
    (hterm : mEnded s = true → s.pending = [])
    (hq : enabledNC s = []) : good s = true := by
  have SF := small_facts s hsm
  obtain ⟨Hcqw, Hg, Hmg, Hsh, Hw⟩ := HF
  have MB := mBlockedDC s (quiet_M s hq).1 (quiet_M s hq).2 SF.recv SF.clr SF.l1 SF.l2
  -- the feeder
  have FB : ((s.fpc = .none ∨ s.fpc = .done ∨ s.fpc = .wait) ∧ s.cqBuf = []) ∨ (s.fpc = .errAcq ∧ s.shut = 0) := by
    rcases fBlocked s (quiet_F s hq) with h | h | h | h | h
    · exact .inl ⟨.inl h, SF.fidle (.inl h)⟩
    · exact .inl ⟨.inr (.inl h), SF.fidle (.inr h)⟩
    · exact .inl ⟨.inr (.inr h.1), h.2⟩
    · exfalso
      have := Hcqw h.2
      rcases h.1 with ⟨m, hm⟩ | ⟨w, hw⟩
      · rw [hm] at this; simp [inCqWF] at this
      · rw [hw] at this; simp [inCqWF] at this
    · exact .inr h
  -- while the pool is not flagged broken every worker is dead
  have hdead : s.broken = none → ∀ p, s.w p = .dead := by
    intro hb p
    obtain ⟨Hrq, _⟩ := Hw hb
    have Lrq : s.rqWlock ≠ 0 := by
      intro hz
      obtain ⟨q, hq2⟩ := Hrq hz
      have hqm : q ∈ s.allPids := by
        apply Decidable.byContradiction
        intro hn
        rw [hp.dead q hn] at hq2
        simp [inRqW] at hq2
      exact enabled_inRqW s q hq2 (quiet_W s hq q hqm).1
    by_cases hpm : p ∈ s.allPids
    · have qw := quiet_W s hq p hpm
      rcases wBlockedD s p qw.1 qw.2.1 qw.2.2 (hwn p hpm) with h | h | h | h
      · exact h
      · exact absurd h.2 Lrq
      · exact absurd h.2 Lrq
      · exfalso
        have := htr hb
        unfold tRecvOk at this
        rw [List.all_eq_true] at this
        have := this p hpm
        simp [h.1, h.2] at this
    · exact hp.dead p hpm
  -- the manager is never stuck joining a live worker
  have hnj : ∀ p, mWaitJoinDC s.mpc = some p → isDead s p = true := by
    intro p hm
    cases hb : s.broken with
    | none => simp [isDead, hdead hb p]
    | some b =>
      have hbs : s.broken.isSome = true := by simp [hb]
      have hl := hkb hbs
      cases hpc : s.mpc <;> simp [hpc, mWaitJoinDC] at hm
      all_goals (first
        | (exfalso; simp [hpc, mBrkLate, mFinal] at hl; done)
        | (subst hm; simp [isDead, hkj _ hpc]; done)
        | (exact absurd hpc ((hkf hbs (by rw [hpc]; rfl)).2 _)))
  -- the management lock is free
  have hmg : s.mgmt ≠ 0 := by
    intro hz
    rcases Hmg hz with ⟨k, hk, hu⟩ | hm | ⟨p, ho, hwp⟩
    · exact absurd (quiet_U s hq k hk) (enabled_inMgmtU' s k hu)
    · rcases MB with h | h | ⟨sn, h, _⟩ | h | h | h | ⟨p, h, hpd⟩
      · rw [h] at hm; simp [inMgmtM'] at hm
      · rcases mEnded_cases s h with h | ⟨w, h⟩ <;> rw [h] at hm <;> simp [inMgmtM'] at hm
      · rw [h] at hm; simp [inMgmtM'] at hm
      · cases hpc : s.mpc <;> simp [hpc, mWaitSlot, inMgmtM'] at h hm
      · cases hpc : s.mpc <;> simp [hpc, mWaitShutC, inMgmtM'] at h hm
      · cases hpc : s.mpc <;> simp [hpc, mWaitMgmtD, inMgmtM'] at h hm
      · rw [hnj p h] at hpd; cases hpd
    · -- an idle worker inside its non-blocking section: it can release
      have hpm : p ∈ s.allPids := by
        apply Decidable.byContradiction
        intro hn
        rw [hp.dead p hn] at hwp; cases hwp
      have := (quiet_W s hq p hpm).1
      unfold stepW at this
      simp [hwp] at this
  -- the shutdown lock is free
  have hsh : s.shut ≠ 0 := by
    intro hz
    rcases Hsh hz with ⟨k, hk, hu⟩ | hm | hf
    · exact enabled_inShutU' s k hu (fun _ => hmg) (quiet_U s hq k hk)
    · rcases MB with h | h | ⟨sn, h, _⟩ | h | h | h | ⟨p, h, hpd⟩
      · rw [h] at hm; simp [inShutM'] at hm
      · rcases mEnded_cases s h with h | ⟨w, h⟩ <;> rw [h] at hm <;> simp [inShutM'] at hm
      · rw [h] at hm; simp [inShutM'] at hm
      · cases hpc : s.mpc <;> simp [hpc, mWaitSlot, inShutM'] at h hm
      · cases hpc : s.mpc <;> simp [hpc, mWaitShutC, inShutM'] at h hm
      · cases hpc : s.mpc <;> simp [hpc, mWaitMgmtD, inShutM'] at h hm
      · rw [hnj p h] at hpd; cases hpd
    · rcases FB with ⟨h | h | h, _⟩ | ⟨h, _⟩ <;> rw [h] at hf <;> simp [inShutF'] at hf
  -- user threads
  have U : ∀ k, k < s.cfg.scripts.length → s.upc k = .done ∨
      ∃ k', k' < s.cfg.scripts.length ∧ uJoin (s.upc k') = true ∧ mEnded s = false := by
    intro k hk
    rcases uBlocked s k (quiet_U s hq k hk) (SF.api k hk) with h | h | h | h | h
    · exact .inl h
    · exact absurd h.2 hsh
    · exact absurd h.2 hmg
    · right
      obtain ⟨k', hk', hg⟩ := Hg h.2
      rcases inGshutU_cases _ hg with hj' | hrel
      · rcases uBlocked s k' (quiet_U s hq k' hk') (SF.api k' hk') with h' | h' | h' | h' | h'
        · rw [h'] at hj'; simp [uJoin] at hj'
        · exact absurd h'.2 hsh
        · exact absurd h'.2 hmg
        · exfalso; cases hu : s.upc k' <;> simp [hu, uJoin, uWaitG] at hj' h'
        · exact ⟨k', hk', hj', h'.2⟩
      · exact absurd (quiet_U s hq k' hk') (enabled_relG s k' hrel)
    · exact .inr ⟨k, hk, h⟩
  rcases MB with hm | hm | ⟨sn, hm, hrq, hwk, hsn⟩ | hm | hm | hm | ⟨p, hm, hpd⟩
  · -- the manager thread was never started
    have hu : ∀ k, k < s.cfg.scripts.length → s.upc k = .done := by
      intro k hk
      rcases U k hk with h | ⟨k', hk', hj', _⟩
      · exact h
      · exact absurd hm (SF.ujoin k' hk' (.inr hj'))
    refine good_of s ?_ hu
    rcases SF.mnone hm with h | ⟨k, hk, h⟩
    · rw [h]; rfl
    · rw [hu k hk] at h; simp [inShutU'] at h
  · -- the manager thread has ended
    have hu : ∀ k, k < s.cfg.scripts.length → s.upc k = .done := by
      intro k hk
      rcases U k hk with h | ⟨k', _, _, he⟩
      · exact h
      · rw [hm] at he; cases he
    exact good_of s (futs_done_of_pending_nil s hfut (hterm hm)) hu
  · -- the manager waits although a registered worker is dead and un-announced: impossible, it watches every registered
    -- worker
    exfalso
    have hbn : s.broken = none := by
      cases hb : s.broken with
      | none => rfl
      | some b =>
        have := hkb (by simp [hb])
        rw [hm] at this; simp [mBrkLate, mFinal] at this
    have hz : zombie s = true := by
      unfold phase2 at h2
      simp only [Bool.or_eq_true] at h2
      rcases h2 with ((h | h) | h) | h
      · exact h
      · rw [hm] at h; simp [mBrk] at h
      · rw [hm] at h; simp [mFinal] at h
      · rw [hbn] at h; simp at h
    unfold zombie at hz
    rw [List.any_eq_true] at hz
    obtain ⟨p, hpm, hpd⟩ := hz
    simp only [Bool.and_eq_true, beq_iff_eq] at hpd
    unfold watchOk at hwt
    simp only [hm, Bool.or_eq_true, decide_eq_true_eq] at hwt
    rcases hwt with (hw | hw) | hw
    · have hin : sn.contains p = true := List.all_eq_true.1 hw p hpm
      have hmem : p ∈ sn := by simpa using hin
      rw [List.any_eq_false] at hsn
      have := hsn p hmem
      simp [isDead] at this
      exact this hpd.1
    · omega
    · rw [List.any_eq_true] at hw
      obtain ⟨k, hk, hk2⟩ := hw
      have hk' := List.mem_range.1 hk
      rcases uBlocked s k (quiet_U s hq k hk') (SF.api k hk') with h | h | h | h | h
      · rw [h] at hk2; simp [uSpawning] at hk2
      · exact absurd h.2 hsh
      · exact absurd h.2 hmg
      · cases hu : s.upc k <;> simp [hu, uWaitG] at h <;> simp [hu, uSpawning] at hk2
      · cases hu : s.upc k <;> simp [hu, uJoin] at h <;> simp [hu, uSpawning] at hk2
  · exfalso
    unfold addSlotOk at ha
    cases hpc : s.mpc <;> simp [hpc, mWaitSlot] at hm <;> simp [hpc, hm] at ha
  · exact absurd hm.2 hsh
  · exact absurd hm.2 hmg
  · rw [hnj p hm] at hpd; cases hpd

end LokyModel.Exec
