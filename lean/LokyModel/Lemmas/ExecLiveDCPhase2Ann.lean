import LokyModel.Lemmas.ExecMsgU
/-!
# Clash-free copy of the `AnnInv` chain (`Lemmas/ExecAnn.lean`, `ExecAnnW.lean`, `ExecAnnM.lean`, `ExecAnnStep.lean`)

`Lemmas/ExecAnn.lean` defines `LokyModel.Exec.announced : WPc → Bool`, `Lemmas/ExecNoBreak.lean` (imported by
`ExecLiveCrashDefs.lean`, hence by everything about `ReachableLF`) defines `LokyModel.Exec.announced : St → Pid → Prop`:
the two chains cannot be imported into one module.  This file repeats the first chain verbatim in the namespace
`LokyModel.Exec.P2`, with `announced` renamed `annPc`, so that `P2.AnnInv` / `P2.PoolInv` (and the fact that they hold in
every `Reachable` state) can be used next to `ReachableLF`.  No statement or proof is changed.
-/
namespace LokyModel.Exec.P2

/-! ## copy of `Lemmas/ExecAnn.lean` -/
/-!
A worker's exit announcement (`pid` message) is only ever in flight while that worker is past the point where it
could still take a task: it is in the exit handshake, exiting, or dead.
-/

/-- the worker has annPc its exit (or is already exiting / dead): it will never hold a task again -/
def annPc : WPc → Bool
  | .xRel | .xExit | .lRel | .lExitAcq | .lExitRel | .exit _ | .dead => true
  | _ => false

def rPid : RMsg → Option Pid
  | .pid p => some p
  | _ => none
/-- the worker whose exit announcement the manager is processing -/
def mPid : MPc → Option Pid
  | .clrPoll (.item (some r)) | .clrRecv (.item (some r)) => rPid r
  | .pidAcq p | .pidRel p _ | .pidRelExit p | .pidJoin p => some p
  | _ => none

structure AnnInv (s : St) : Prop where
  rq : ∀ r p, r ∈ s.rqPipe → rPid r = some p → annPc (s.w p) = true ∧ p < s.nextPid
  m : ∀ p, mPid s.mpc = some p → annPc (s.w p) = true ∧ p < s.nextPid
  lt : ∀ p, p ∈ s.allPids → p < s.nextPid

theorem annInv_init (cfg : Cfg) : AnnInv (init cfg) := by
  constructor <;> simp [init, mPid]

theorem annPc_upd (f : Pid → WPc) (p q : Pid) (pc : WPc) :
    annPc (upd f p pc q) = if q = p then annPc pc else annPc (f q) := by unfold upd; split <;> rfl

/-- a worker step: only `w p` and the result pipe change; an annPc worker stays annPc; a `pid` message is
    appended only by the worker it names, which is annPc afterwards -/
theorem ann_wmove (s s' : St) (h : AnnInv s) (p : Pid) (hp : p ∈ s.allPids) (pc' : WPc) (hw : s'.w = upd s.w p pc')
    (hfr : s'.mpc = s.mpc ∧ s'.nextPid = s.nextPid ∧ s'.allPids = s.allPids)
    (hmono : annPc (s.w p) = true → annPc pc' = true)
    (hrq : ∀ r, r ∈ s'.rqPipe → r ∈ s.rqPipe ∨ (rPid r = some p ∧ annPc pc' = true) ∨ rPid r = none) : AnnInv s' := by
  obtain ⟨f1, f2, f3⟩ := hfr
  have keep : ∀ q, annPc (s.w q) = true → annPc (s'.w q) = true := by
    intro q hq; rw [hw, annPc_upd]; split
    · rename_i e; subst e; exact hmono hq
    · exact hq
  constructor
  · intro r q hr hq
    rcases hrq r hr with e | ⟨e, a⟩ | e
    · have := h.rq r q e hq; exact ⟨keep q this.1, by rw [f2]; exact this.2⟩
    · rw [e] at hq; cases hq
      refine ⟨?_, by rw [f2]; exact h.lt p hp⟩
      rw [hw, annPc_upd, if_pos rfl]; exact a
    · rw [e] at hq; cases hq
  · intro q hq; rw [f1] at hq; have := h.m q hq; exact ⟨keep q this.1, by rw [f2]; exact this.2⟩
  · rw [f2, f3]; exact h.lt

/-! ## copy of `Lemmas/ExecAnnW.lean` -/
theorem annPc_wGetPc (s : St) : annPc (wGetPc s) = false := by unfold wGetPc; split <;> rfl
theorem annPc_wDispatchPc (s : St) (m : CMsg) : annPc (wDispatchPc s m) = false := by
  unfold wDispatchPc; (repeat' split) <;> rfl

macro "p2annw_rq" : tactic => `(tactic| (
  intro r hr
  first
  | (left; simpa using hr; done)
  | (simp at hr
     rcases hr with hr | hr
     · left; exact hr
     · subst hr; first | (right; left; exact ⟨rfl, rfl⟩) | (right; right; rfl)))) 

set_option maxHeartbeats 4000000 in
theorem annInv_stepW (s s' : St) (p : Pid) (v : Variant) (h : AnnInv s) (hp : p ∈ s.allPids)
    (hs : stepW s p v = some s') : AnnInv s' := by
  unfold stepW at hs
  crack_step
  all_goals (first
    | (refine ann_wmove s _ h p hp _ rfl ?_ ?_ ?_
       · simp
       · first | (intro _; rfl) | (intro ha; simp_all [annPc])
       · p2annw_rq)
    | (refine ann_wmove s _ h p hp _ (wGet_w' _ _) ?_ ?_ ?_
       · simp
       · intro ha; simp_all [annPc]
       · p2annw_rq)
    | (refine ann_wmove s _ h p hp _ (wDispatch_w' _ _ _) ?_ ?_ ?_
       · simp
       · intro ha; simp_all [annPc]
       · p2annw_rq)
    | (refine ann_wmove s _ h p hp _ (wAfterStart_w' _ _) ?_ ?_ ?_
       · simp
       · intro ha; simp_all [annPc]
       · p2annw_rq)
    | (obtain ⟨pc, hw, hpc⟩ := wAfterResult_w' { s with rqWlock := s.rqWlock + 1, oRqWlock := none } p
       refine ann_wmove s _ h p hp pc hw ?_ ?_ ?_
       · simp
       · intro ha; simp_all [annPc]
       · p2annw_rq)
    | skip)

/-! ## copy of `Lemmas/ExecAnnM.lean` -/
theorem ann_move (s s' : St) (h : AnnInv s)
    (hw : ∀ q, q < s.nextPid → annPc (s.w q) = true → annPc (s'.w q) = true)
    (hnp : s.nextPid ≤ s'.nextPid)
    (hall : ∀ p, p ∈ s'.allPids → p < s'.nextPid)
    (hrq : ∀ r, r ∈ s'.rqPipe → r ∈ s.rqPipe)
    (hm : ∀ p, mPid s'.mpc = some p → mPid s.mpc = some p ∨ ∃ r, r ∈ s.rqPipe ∧ rPid r = some p) : AnnInv s' := by
  constructor
  · intro r p hr hp
    have := h.rq r p (hrq r hr) hp
    exact ⟨hw p this.2 this.1, Nat.lt_of_lt_of_le this.2 hnp⟩
  · intro p hp
    rcases hm p hp with e | ⟨r, hr, e⟩
    · have := h.m p e; exact ⟨hw p this.2 this.1, Nat.lt_of_lt_of_le this.2 hnp⟩
    · have := h.rq r p hr e; exact ⟨hw p this.2 this.1, Nat.lt_of_lt_of_le this.2 hnp⟩
  · exact hall

/-- continuations that choose a program counter holding no exit announcement -/
@[simp] theorem mPid_mAddFuel (n : Nat) (s : St) : mPid (mAddFuel n s).mpc = none := by
  induction n generalizing s with
  | zero => rfl
  | succ n ih => unfold mAddFuel; (repeat' split) <;> first | rfl | simp [*]
@[simp] theorem mPid_mAdd (s : St) : mPid (mAdd s).mpc = none := by unfold mAdd; simp
@[simp] theorem mPid_mAddF (s : St) : mPid (mAddF s).mpc = none := by
  rcases mAddF_mpc s with ⟨i, _, h⟩ | ⟨_, h, _⟩ | ⟨_, h, _⟩ <;> rw [h] <;> rfl
@[simp] theorem mPid_mJoinStart (s : St) : mPid (mJoinStart s).mpc = none := rfl
@[simp] theorem mPid_mKillNext (s : St) : mPid (mKillNext s).mpc = none := by unfold mKillNext; split <;> rfl
@[simp] theorem mPid_mAfterItem (s : St) : mPid (mAfterItem s).mpc = none := by
  unfold mAfterItem; split <;> first | rfl | simp
@[simp] theorem mPid_mDropRef (s : St) : mPid (mDropRef s).mpc = none := by
  unfold mDropRef; simp only []; split <;> first | rfl | simp
@[simp] theorem mPid_mRespawnCheck (s : St) : mPid (mRespawnCheck s).mpc = none := by
  unfold mRespawnCheck; simp only []; (repeat' split) <;> first | rfl | simp
@[simp] theorem mPid_mJoinClose (s : St) : mPid (mJoinClose s).mpc = none := rfl
@[simp] theorem mPid_mJoinLoop (s : St) (n a c) : mPid (mJoinLoop s n a c).mpc = none := by
  unfold mJoinLoop; split <;> first | rfl | simp
@[simp] theorem mPid_mAfterPut (s : St) (k n a c) : mPid (mAfterPut s k n a c).mpc = none := by
  unfold mAfterPut; split <;> first | rfl | simp
@[simp] theorem mPid_mAfterFlag (s : St) : mPid (mAfterFlag s).mpc = none := by
  unfold mAfterFlag; (repeat' split) <;> first | rfl | simp
@[simp] theorem mPid_mSpawnLoop (s : St) : mPid (mSpawnLoop s).mpc = none := by unfold mSpawnLoop; split <;> rfl
@[simp] theorem mPid_mJoinProcs (s : St) : mPid (mJoinProcs s).mpc = none := by unfold mJoinProcs; split <;> rfl
@[simp] theorem mPid_mRelExitNext (s : St) (ps n) : mPid (mRelExitNext s ps n).mpc = none := by
  unfold mRelExitNext; split <;> rfl
@[simp] theorem mPid_mAliveNext (s : St) (ps c n a b) : mPid (mAliveNext s ps c n a b).mpc = none := by
  unfold mAliveNext; split <;> rfl
theorem mPid_mProcess (s : St) (r : Option RMsg) (p : Pid) (h : mPid (mProcess s r).mpc = some p) :
    ∃ r', r = some r' ∧ rPid r' = some p := by
  unfold mProcess at h
  split at h
  · simp at h
  · simp at h
  · split at h <;> simp at h
  · rename_i q; simp [mPid] at h; subst h; exact ⟨_, rfl, rfl⟩

theorem mPid_clrRecv (k : AfterClear) : mPid (.clrRecv k) = mPid (.clrPoll k) := by
  cases k with
  | item r => cases r <;> rfl
  | broken b => rfl

/-- closes the side conditions of `ann_move` for a manager / feeder / user step that spawns nobody -/
macro "p2ann_simple" s:term "," h:term : tactic => `(tactic| (
  refine ann_move $s _ $h ?_ ?_ ?_ ?_ ?_
  · intro q _ hq; first | (simpa using hq; done) | (simp only [die_w, mKillNext_w, annPc_upd]; split <;> first | rfl | exact hq)
  · simp
  · first | (simpa using AnnInv.lt $h; done) | (intro q hq; exact AnnInv.lt $h q (by simpa using hq))
  · intro r hr; first | (simpa using hr; done) | (simp_all; done)
  · intro q hq; first | (simp at hq; done) | (left; simpa using hq; done) | (simp_all [mPid]; done)))

/-! ## copy of `Lemmas/ExecAnnStep.lean` -/
theorem ann_spawn (s X : St) (h : AnnInv s)
    (hw : X.w = upd s.w s.nextPid .start) (hn : X.nextPid = s.nextPid + 1) (ha : X.allPids = s.allPids ++ [s.nextPid])
    (hr : X.rqPipe = s.rqPipe) (hm : mPid X.mpc = none ∨ X.mpc = s.mpc) : AnnInv X := by
  refine ann_move s X h ?_ ?_ ?_ ?_ ?_
  · intro q hq ha'; rw [hw, annPc_upd, if_neg (Nat.ne_of_lt hq)]; exact ha'
  · rw [hn]; exact Nat.le_succ _
  · intro p hp; rw [ha] at hp; rw [hn]
    simp only [List.mem_append, List.mem_singleton] at hp
    rcases hp with hp | hp
    · exact Nat.lt_succ_of_lt (h.lt p hp)
    · rw [hp]; exact Nat.lt_succ_self _
  · intro r hr'; rw [hr] at hr'; exact hr'
  · intro p hp
    rcases hm with hm | hm
    · rw [hm] at hp; cases hp
    · left; rw [← hm]; exact hp

set_option maxHeartbeats 8000000 in
theorem annInv_stepM (s s' : St) (v : Variant) (h : AnnInv s) (hs : stepM s v = some s') : AnnInv s' := by
  unfold stepM at hs
  crack_step
  all_goals (first
    | (p2ann_simple s, h; done)
    | (refine ann_spawn s _ h ?_ ?_ ?_ ?_ (Or.inl ?_) <;> simp [spawn] <;> done)
    | (refine ann_move s _ h ?_ ?_ ?_ ?_ ?_
       · intro q _ hq; simpa using hq
       · simp
       · simpa using AnnInv.lt h
       · intro r hr; simpa using hr
       · intro q hq; left; rw [‹s.mpc = _›]
         first | (simpa [mPid_clrRecv] using hq) | (rw [mPid_clrRecv]; simpa using hq))
    | (refine ann_move s _ h ?_ ?_ ?_ ?_ ?_
       · intro q _ hq; simpa using hq
       · simp
       · simpa using AnnInv.lt h
       · intro r hr; simpa using hr
       · intro q hq; left; rw [‹s.mpc = _›]
         obtain ⟨r', e1, e2⟩ := mPid_mProcess s _ q hq
         subst e1; exact e2)
    | skip)

set_option maxHeartbeats 4000000 in
theorem annInv_stepF (s s' : St) (v : Variant) (h : AnnInv s) (hs : stepF s v = some s') : AnnInv s' := by
  unfold stepF at hs
  crack_step
  all_goals (first
    | (p2ann_simple s, h; done)
    | skip)

theorem ann_uDispatch (s : St) (k : Nat) (op : UOp) (h : AnnInv s) : AnnInv (uDispatch s k op) := by
  unfold uDispatch
  cases op <;> simp only [] <;> (repeat' split) <;> (p2ann_simple s, h)

set_option maxHeartbeats 4000000 in
theorem annInv_stepU (s s' : St) (k : Nat) (v : Variant) (h : AnnInv s) (hs : stepU s k v = some s') : AnnInv s' := by
  unfold stepU at hs
  crack_step
  all_goals (first
    | (p2ann_simple s, h; done)
    | (exact ann_uDispatch s k _ h)
    | (refine ann_spawn s _ h ?_ ?_ ?_ ?_ (Or.inr ?_) <;> simp [spawn] <;> done)
    | skip)

theorem annInv_step {s s' : St} {a : Actor} {v : Variant} (h : AnnInv s) (hs : step s a v = some s') : AnnInv s' := by
  unfold step at hs
  cases a with
  | U k => simp only [] at hs; split at hs; exact annInv_stepU s s' k v h hs; cases hs
  | M => exact annInv_stepM s s' v h hs
  | F => exact annInv_stepF s s' v h hs
  | W p => simp only [] at hs; split at hs; exact annInv_stepW s s' p v h ‹_› hs; cases hs

theorem annInv_reachable {cfg : Cfg} {s : St} (h : Reachable cfg s) : AnnInv s := by
  induction h with
  | init => exact annInv_init cfg
  | step _ hs ih => exact annInv_step ih hs

end LokyModel.Exec.P2
