import LokyModel.Lemmas.ExecLiveDCPhase2Base
/-! `phase2`: the manager's steps (`P2Step`). -/
namespace LokyModel.Exec
set_option linter.unnecessarySimpa false
set_option linter.unusedSimpArgs false

theorem dcHolds_item_some (r : RMsg) (z : Pid) (h : dcHolds (.clrPoll (.item (some r))) z = true) : r = .pid z := by
  cases r <;> simp [dcHolds] at h
  subst h; rfl

@[simp] theorem dcHolds_mAfterFlag (s : St) (z : Pid) : dcHolds (mAfterFlag s).mpc z = false := by
  unfold mAfterFlag
  split
  · exact dcHolds_late _ _ (late_mKillNext _)
  · split
    · rfl
    · exact dcHolds_mAddF _ _

set_option maxHeartbeats 8000000 in
theorem p2_stepM (s s' : St) (v : Variant) (hp : PidsInv s) (hs : stepM s v = some s') : P2Step s s' := by
  unfold stepM at hs
  crack
  all_goals (refine ⟨?_, ?_, ?_⟩)
  all_goals (first
    | (intro h; simpa using h; done)
    | (simp; done)
    | (rw [‹s.mpc = _›]; intro h; first | (simp [late, mBrk, mFinal] at h; done) | (simp [late, mBrk, mFinal]; done) | (simpa [late_clrRecv] using h; done))
    | (intro z hz; right; simp [late, mBrk, mFinal]; done)
    | (intro z hz
       refine zi_move s _ z hz (.inr ?_) ?_ (pids_reg_lt s hp z) ?_ ?_
       · first | (intro h; simpa using h; done) | (intro h; simp [h]; done)
       · first | (intro h1 h2; simpa using h1; done) | (intro h1 h2; simp [upd, Nat.ne_of_lt h2, h1]; done)
       · first | (intro r hr; left; simpa using hr; done) | (intro r hr; left; simp_all; done)
       · first | (simp; done) | (simp [dcHolds]; done)
               | (rw [‹s.mpc = _›]; simp [dcHolds_clrRecv, dcHolds_mProcess]; done))
    | skip)
  -- recv: the message taken from the pipe is not the zombie's
  · intro z hz
    refine zi_move s _ z hz (.inr ?_) ?_ (pids_reg_lt s hp z) ?_ ?_
    · intro h; exact h
    · intro h1 _; exact h1
    · intro r hr; left; rw [‹s.rqPipe = _›]; exact List.mem_cons_of_mem _ hr
    · intro h; right; rw [‹s.rqPipe = _›]
      have := dcHolds_item_some _ _ h
      subst this; exact List.mem_cons_self ..
  -- clrPoll → clrRecv
  · intro z hz
    refine zi_move s _ z hz (.inr ?_) ?_ (pids_reg_lt s hp z) ?_ ?_
    · intro h; exact h
    · intro h1 _; exact h1
    · intro r hr; left; exact hr
    · intro h; left; rw [‹s.mpc = _›, ← dcHolds_clrRecv]; exact h
  -- clrPoll (.item r) → mProcess
  · intro z hz
    refine zi_move s _ z hz (.inr ?_) ?_ (pids_reg_lt s hp z) ?_ ?_
    · intro h; simpa using h
    · intro h1 _; simpa using h1
    · intro r hr; left; simpa using hr
    · intro h; left; rw [‹s.mpc = _›, ← dcHolds_mProcess s]; exact h
  -- clrRecv → clrPoll
  · intro z hz
    refine zi_move s _ z hz (.inr ?_) ?_ (pids_reg_lt s hp z) ?_ ?_
    · intro h; exact h
    · intro h1 _; exact h1
    · intro r hr; left; exact hr
    · intro h; left; rw [‹s.mpc = _›, dcHolds_clrRecv]; exact h
  -- pidAcq p: p is not the zombie
  · rename_i p hm _
    intro z hz
    have hne : z ≠ p := by
      have := hz.2.2.2
      rw [hm] at this
      intro e; subst e; simp [dcHolds] at this
    refine zi_move s _ z hz (.inr ?_) ?_ (pids_reg_lt s hp z) ?_ ?_
    · intro h; exact (List.mem_erase_of_ne hne).2 h
    · intro h1 _; exact h1
    · intro r hr; left; exact hr
    · intro h; simp [dcHolds] at h
  -- rspStart: a spawn appends a fresh process id
  · intro z hz
    refine zi_move s _ z hz (.inr ?_) ?_ (pids_reg_lt s hp z) ?_ ?_
    · intro h; simp [spawn_procDict', h]
    · intro h1 h2; simp [spawn_w', upd, Nat.ne_of_lt h2, h1]
    · intro r hr; left; simpa using hr
    · intro h; simp at h
  -- flagRel
  · intro z hz
    have key := mAfterFlag_reg_or_late { s with shut := s.shut + 1, oShut := none }
    refine zi_move s _ z hz ?_ ?_ (pids_reg_lt s hp z) ?_ ?_
    · rcases key with h | h
      · exact .inl h
      · right; intro hz'; rw [h]; exact hz'
    · intro h1 _; simpa using h1
    · intro r hr; left; simpa using hr
    · intro h; simp at h

end LokyModel.Exec
