import LokyModel.Lemmas.ExecLiveCrashKillBase
/-! `killedC` along the steps of a worker (crashes included) and of the feeder thread: they touch neither the flags, nor
    the registry, nor the manager; a dead worker stays dead. -/
namespace LokyModel.Exec

set_option maxHeartbeats 4000000 in
theorem ki_stepW (s s' : St) (p : Pid) (v : Variant) (h : KI s) (hs : stepW s p v = some s') : KI s' := by
  unfold stepW at hs
  crack
  all_goals (refine ki_same s _ h ?_ ?_ ?_ ?_ ?_ ?_)
  all_goals (first
    | rfl
    | (simp; done)
    | (intro q hq; simpa using hq)
    | (intro q hq
       by_cases e : q = p
       · subst e; simp_all
       · simp [wAfterStart_w_other, wGet_w_other, wDispatch_w_other, wAfterResult_w_other, setW_w_other, die_w_other, e, hq]
         done))

set_option maxHeartbeats 4000000 in
theorem ki_stepF (s s' : St) (v : Variant) (h : KI s) (hs : stepF s v = some s') : KI s' := by
  unfold stepF at hs
  crack
  all_goals (refine ki_same s _ h ?_ ?_ ?_ ?_ ?_ ?_)
  all_goals (first
    | rfl
    | (simp; done)
    | (intro q hq; simpa using hq))

end LokyModel.Exec
