import LokyModel.Lemmas.ExecLiveBase
import LokyModel.Lemmas.ExecLivePids
/-! `consOk` (no work item is lost) holds in every reachable state of a configuration with benign tasks, for all
    steps other than crashes (time-outs, leak exits, failing initializers and `kill_workers` included).

    `consOk` is not inductive by itself; the strengthening `consOk' = consOk && consExtra` is.  `consExtra` says:
    * `pending.count i ≤ tokens s i` (the table loses one occurrence of an id exactly when a token of that id is consumed);
    * no result that fails to un-pickle in the parent is on its way (worker at `rAcq`/`rSend`, result pipe) - otherwise
      the manager drops the token when it takes the broken path;
    * `consMpcOk`: the manager kills workers only with an empty table and the shutdown flag set (and the flag is set while
      it is at `flagRel`/`brkRel`); it starts the feeder thread (`fpc := .start`) only when there is none;
    * a user thread is about to start the manager thread (`mpc := .start`) only when there is none.
    The last one needs mutual exclusion on the process-management lock, taken as the hypothesis `hu` on the pre-state
    (a consequence of `MgmtInv.u`, `Lemmas/ExecMgmt.lean`).  Checked on random walks by `Drivers/LiveCheckconsOk.lean`.

    The auxiliary lemmas are in the namespace `Cons`. -/
namespace LokyModel.Exec
set_option linter.unusedSimpArgs false

/-! ### the strengthening (executable) -/

/-- no task kills its worker, fails to un-pickle in the worker, or returns a result that fails to un-pickle -/
def Cfg.benignTasks (c : Cfg) : Bool :=
  c.tasks.all (fun t => t.body != .die && t.args != .badunpickle && t.res != .badunpickle)

def noBadW : WPc → Bool
  | .rAcq _ _ b | .rSend _ _ b => !b
  | _ => true
def noBadR : RMsg → Bool
  | .res _ _ b => !b
  | _ => true
/-- what the invariant needs to know at particular program counters of the manager -/
def consMpcOk (s : St) : Bool :=
  match s.mpc with
  | .kill _ | .killJoin _ => s.pending.isEmpty && s.shutdownFlag
  | .flagRel | .brkRel _ => s.shutdownFlag
  | .addTStart _ | .addTStartF _ | .jPutTStart _ _ _ _ => s.fpc == .none
  | _ => true

def consExtra (s : St) : Bool :=
  s.pending.all (fun i => decide (s.pending.count i ≤ tokens s i)) &&
  s.allPids.all (fun p => noBadW (s.w p)) && s.rqPipe.all noBadR && consMpcOk s &&
  (List.range s.cfg.scripts.length).all (fun k => s.upc k != .subTStart || s.mpc == .none)

def consOk' (s : St) : Bool := consOk s && consExtra s


/-! ### the same as a proposition -/

structure ConsInv (s : St) : Prop where
  cnt : ∀ i, s.pending.count i ≤ tokens s i
  badW : ∀ p ∈ s.allPids, noBadW (s.w p) = true
  badR : ∀ r ∈ s.rqPipe, noBadR r = true
  mpc : consMpcOk s = true
  tstart : ∀ k, k < s.cfg.scripts.length → s.upc k = .subTStart → s.mpc = .none

theorem consOk_of_cnt (s : St) (h : ∀ i, s.pending.count i ≤ tokens s i) : consOk s = true := by
  unfold consOk
  rw [List.all_eq_true]
  intro i hi
  have h1 := h i
  have h2 : 0 < s.pending.count i := List.count_pos_iff.2 hi
  simp only [decide_eq_true_eq]
  omega

theorem consOk'_iff (s : St) : consOk' s = true ↔ ConsInv s := by
  constructor
  · intro h
    simp only [consOk', consExtra, Bool.and_eq_true, List.all_eq_true, decide_eq_true_eq, List.mem_range,
      Bool.or_eq_true, bne_iff_ne, ne_eq, beq_iff_eq] at h
    obtain ⟨_, ⟨⟨⟨h1, h2⟩, h3⟩, h4⟩, h5⟩ := h
    refine ⟨?_, h2, h3, h4, ?_⟩
    · intro i
      by_cases hi : i ∈ s.pending
      · exact h1 i hi
      · rw [List.count_eq_zero.2 hi]; omega
    · intro k hk e
      rcases h5 k hk with h | h
      · exact absurd e h
      · exact h
  · intro h
    obtain ⟨h1, h2, h3, h4, h5⟩ := h
    simp only [consOk', consExtra, Bool.and_eq_true, List.all_eq_true, decide_eq_true_eq, List.mem_range,
      Bool.or_eq_true, bne_iff_ne, ne_eq, beq_iff_eq]
    refine ⟨consOk_of_cnt s h1, ⟨⟨⟨fun i _ => h1 i, h2⟩, h3⟩, h4⟩, ?_⟩
    intro k hk
    by_cases e : s.upc k = .subTStart
    · exact .inr (h5 k hk e)
    · exact .inl e

theorem consOk_of_consOk' (s : St) (h : consOk' s = true) : consOk s = true := by
  simp only [consOk', Bool.and_eq_true] at h; exact h.1


/-! ### benign tasks -/

def BenignC (c : Cfg) : Prop :=
  ∀ t, (c.tasks.getD t {}).body ≠ .die ∧ (c.tasks.getD t {}).args ≠ .badunpickle ∧ (c.tasks.getD t {}).res ≠ .badunpickle

theorem benignC_of (c : Cfg) (h : c.benignTasks = true) : BenignC c := by
  intro t
  unfold Cfg.benignTasks at h
  rw [List.all_eq_true] at h
  by_cases ht : t < c.tasks.length
  · have hm : c.tasks.getD t {} ∈ c.tasks := by
      rw [List.getD_eq_getElem?_getD, List.getElem?_eq_getElem ht]; simp
    have := h _ hm
    simp only [Bool.and_eq_true, bne_iff_ne, ne_eq] at this
    exact ⟨this.1.1, this.1.2, this.2⟩
  · have : c.tasks.getD t {} = {} := by
      rw [List.getD_eq_getElem?_getD, List.getElem?_eq_none (by omega)]; rfl
    rw [this]; simp

theorem benignTasks_of_staticPool (c : Cfg) (h : c.staticPool = true) : c.benignTasks = true := by
  unfold Cfg.staticPool at h
  simp only [Bool.and_eq_true] at h
  exact h.1.2

/-! ### worker steps -/

namespace Cons

theorem sumL_w_move (g : WPc → Nat) (w w' : Pid → WPc) (p : Pid) (l : List Pid) (hn : l.Nodup) (hp : p ∈ l)
    (ho : ∀ q, q ≠ p → w' q = w q) :
    sumL (fun q => g (w' q)) l + g (w p) = sumL (fun q => g (w q)) l + g (w' p) := by
  have : sumL (fun q => g (w' q)) l = sumL (fun q => g (upd w p (w' p) q)) l := by
    apply sumL_congr; intro q _; by_cases e : q = p
    · subst e; simp [upd]
    · simp [upd, e, ho q e]
  rw [this]; exact sumL_upd g w p (w' p) l hn hp

theorem consInv_W (s s' : St) (p : Pid) (h : ConsInv s) (hp : PidsInv s) (hpm : p ∈ s.allPids)
    (e1 : s'.pending = s.pending) (e2 : s'.workIds = s.workIds) (e3 : s'.mpc = s.mpc) (e4 : s'.cqBuf = s.cqBuf)
    (e5 : s'.fpc = s.fpc) (e6 : s'.allPids = s.allPids) (e7 : s'.shutdownFlag = s.shutdownFlag)
    (e8 : s'.upc = s.upc) (e9 : s'.cfg = s.cfg)
    (ho : ∀ q, q ≠ p → s'.w q = s.w q)
    (htok : ∀ i, wTok i (s.w p) + sumL (cmsgC' i) s.cqPipe + sumL (rmsgC' i) s.rqPipe
                ≤ wTok i (s'.w p) + sumL (cmsgC' i) s'.cqPipe + sumL (rmsgC' i) s'.rqPipe)
    (hbw : noBadW (s'.w p) = true) (hbr : ∀ r ∈ s'.rqPipe, r ∈ s.rqPipe ∨ noBadR r = true) : ConsInv s' := by
  obtain ⟨h1, h2, h3, h4, h5⟩ := h
  refine ⟨?_, ?_, ?_, ?_, ?_⟩
  · intro i
    have a := h1 i
    have b := sumL_w_move (wTok i) s.w s'.w p s.allPids hp.nodup hpm ho
    have c := htok i
    unfold tokens at a ⊢
    rw [e1, e2, e3, e4, e5, e6]
    omega
  · intro q hq
    rw [e6] at hq
    by_cases e : q = p
    · subst e; exact hbw
    · rw [ho q e]; exact h2 q hq
  · intro r hr
    rcases hbr r hr with h | h
    · exact h3 r h
    · exact h
  · unfold consMpcOk at h4 ⊢
    rw [e1, e3, e5, e7]; exact h4
  · intro k hk e
    rw [e9] at hk; rw [e8] at e; rw [e3]; exact h5 k hk e

@[simp] theorem setW_w_self (s : St) (p : Pid) (pc : WPc) : (setW s p pc).w p = pc := by simp [setW, upd]
@[simp] theorem die_w_self (s : St) (p : Pid) (c : Int) : (die s p c).w p = .dead := by simp [die, upd]
theorem wGet_w_self (s : St) (p : Pid) : (wGet s p).w p = if s.cfg.timeout then .tAcq else .gAcq := by
  simp [wGet]
@[simp] theorem wTok_wGet (s : St) (p : Pid) (i : Wid) : wTok i ((wGet s p).w p) = 0 := by
  rw [wGet_w_self]; split <;> rfl
@[simp] theorem noBadW_wGet (s : St) (p : Pid) : noBadW ((wGet s p).w p) = true := by
  rw [wGet_w_self]; split <;> rfl
@[simp] theorem wTok_wAfterStart (s : St) (p : Pid) (i : Wid) : wTok i ((wAfterStart s p).w p) = 0 := by
  unfold wAfterStart; split
  · simp [wTok]
  · exact wTok_wGet _ _ _
@[simp] theorem noBadW_wAfterStart (s : St) (p : Pid) : noBadW ((wAfterStart s p).w p) = true := by
  unfold wAfterStart; split
  · simp [noBadW]
  · exact noBadW_wGet _ _
@[simp] theorem wTok_wAfterResult (s : St) (p : Pid) (i : Wid) : wTok i ((wAfterResult s p).w p) = 0 := by
  unfold wAfterResult; simp only []; (repeat' split) <;> first | exact wTok_wGet _ _ _ | simp [wTok]
@[simp] theorem noBadW_wAfterResult (s : St) (p : Pid) : noBadW ((wAfterResult s p).w p) = true := by
  unfold wAfterResult; simp only []; (repeat' split) <;> first | exact noBadW_wGet _ _ | simp [noBadW]
theorem wTok_wDispatch (s : St) (p : Pid) (m : CMsg) (i : Wid) (hb : BenignC s.cfg) :
    wTok i ((wDispatch s p m).w p) = cmsgC' i m := by
  unfold wDispatch
  split
  · rename_i w t
    have := (hb t).2.1
    rw [if_neg (by simpa [specOf] using this)]
    simp [wTok, cmsgC']
  · rw [setW_w_self]
    cases m <;> simp_all [cmsgC', wTok]
@[simp] theorem noBadW_wDispatch (s : St) (p : Pid) (m : CMsg) : noBadW ((wDispatch s p m).w p) = true := by
  unfold wDispatch; (repeat' split) <;> simp [noBadW]

theorem res_ok (s : St) (hb : BenignC s.cfg) (t : Tid) : ((specOf s t).res == .badunpickle) = false := by
  have := (hb t).2.2
  simpa [specOf] using this

set_option maxHeartbeats 4000000 in
theorem consInv_stepW (s s' : St) (p : Pid) (v : Variant) (hv : v ≠ .crash) (h : ConsInv s) (hp : PidsInv s)
    (hb : BenignC s.cfg) (hpm : p ∈ s.allPids) (hs : stepW s p v = some s') : ConsInv s' := by
  have hd : ∀ (s' : St) (m : CMsg) (i : Wid), s'.cfg = s.cfg → wTok i ((wDispatch s' p m).w p) = cmsgC' i m :=
    fun s' m i e => wTok_wDispatch s' p m i (e ▸ hb)
  unfold stepW at hs
  crack
  all_goals (first | (exact absurd rfl hv) | skip)
  all_goals (first | (exact absurd (by assumption) (hb _).1) | skip)
  all_goals (have hbp := h.badW p hpm)
  all_goals (refine consInv_W s _ p h hp hpm ?_ ?_ ?_ ?_ ?_ ?_ ?_ ?_ ?_ ?_ ?_ ?_ ?_)
  all_goals (first
    | rfl
    | (simp; done)
    | (intro q hq; simp [wAfterStart_w_other, wGet_w_other, wDispatch_w_other, wAfterResult_w_other, setW_w_other, die_w_other, hq]; done)
    | (intro i; simp [*, wTok, cmsgC', rmsgC']; done)
    | (intro i; simp [*, wTok, cmsgC', rmsgC']; omega)
    | (intro i; rw [hd] <;> first | rfl | (simp [*, wTok]; done))
    | (simp [noBadW]; done)
    | (simp [noBadW, res_ok s hb]; done)
    | (simp_all [noBadW]; done)
    | (intro r hr; left; simpa using hr)
    | (intro r hr; simp at hr; rcases hr with hr | hr
       · exact .inl hr
       · subst hr; right; simp_all [noBadW, noBadR])
    | skip)

/-! ### feeder steps -/

theorem fTok_fNext (s : St) (i : Wid) :
    fTok i (fNext s).fpc = sumL (cmsgC' i) s.cqBuf - sumL (cmsgC' i) (fNext s).cqBuf := by
  unfold fNext
  split
  · simp [*, fTok]
  · simp [*, fTok, cmsgC']
  · simp [*, fTok, cmsgC']
  · split <;> simp [*, fTok, cmsgC']

theorem count_erase_tok (l : List Wid) (w i a : Nat) (h : l.count i ≤ a + ind' w i) : (l.erase w).count i ≤ a := by
  rw [List.count_erase]
  unfold ind' at h
  by_cases e : w = i
  · subst e; simp at h ⊢; omega
  · have : (w == i) = false := by simpa using e
    simp [e, this] at h ⊢; omega
theorem count_notmem_tok (l : List Wid) (w i a : Nat) (hn : w ∉ l) (h : l.count i ≤ a + ind' w i) : l.count i ≤ a := by
  unfold ind' at h
  by_cases e : w = i
  · subst e; rw [List.count_eq_zero.2 hn]; omega
  · simp [e] at h; exact h

theorem mpcOk_F (s s' : St) (h : consMpcOk s = true) (e3 : s'.mpc = s.mpc) (e7 : s'.shutdownFlag = s.shutdownFlag)
    (hp : s.pending = [] → s'.pending = []) (hf : s.fpc ≠ .none) : consMpcOk s' = true := by
  unfold consMpcOk at h ⊢
  rw [e3, e7]
  split <;> simp_all

theorem consInv_F (s s' : St) (h : ConsInv s)
    (e2 : s'.workIds = s.workIds) (e3 : s'.mpc = s.mpc) (e6 : s'.allPids = s.allPids) (e6' : s'.w = s.w)
    (e6'' : s'.rqPipe = s.rqPipe) (e7 : s'.shutdownFlag = s.shutdownFlag)
    (e8 : s'.upc = s.upc) (e9 : s'.cfg = s.cfg)
    (hp : s.pending = [] → s'.pending = []) (hf : s.fpc ≠ .none)
    (hcnt : ∀ i a, s.pending.count i ≤ a + (sumL (cmsgC' i) s.cqBuf + fTok i s.fpc + sumL (cmsgC' i) s.cqPipe) →
       s'.pending.count i ≤ a + (sumL (cmsgC' i) s'.cqBuf + fTok i s'.fpc + sumL (cmsgC' i) s'.cqPipe)) : ConsInv s' := by
  obtain ⟨h1, h2, h3, h4, h5⟩ := h
  refine ⟨?_, ?_, ?_, mpcOk_F s s' h4 e3 e7 hp hf, ?_⟩
  · intro i
    have a := h1 i
    have c := hcnt i (s.workIds.count i + mTok i s.mpc + sumL (fun p => wTok i (s.w p)) s.allPids + sumL (rmsgC' i) s.rqPipe)
      (by unfold tokens at a; omega)
    unfold tokens
    rw [e2, e3, e6, e6', e6'']
    omega
  · rw [e6, e6']; exact h2
  · rw [e6'']; exact h3
  · intro k hk e
    rw [e9] at hk; rw [e8] at e; rw [e3]; exact h5 k hk e

set_option maxHeartbeats 4000000 in
theorem consInv_stepF (s s' : St) (v : Variant) (h : ConsInv s) (hs : stepF s v = some s') : ConsInv s' := by
  unfold stepF at hs
  crack
  all_goals (refine consInv_F s _ h ?_ ?_ ?_ ?_ ?_ ?_ ?_ ?_ ?_ ?_ ?_)
  all_goals (first
    | rfl
    | (simp; done)
    | (simp [*]; done)
    | (intro e; simp [e]; done)
    | (intro i a hh; simp only [fTok_fNext]; simp [*, fTok, cmsgC'] at hh ⊢; omega)
    | (intro i a hh; simp [*, fTok, cmsgC'] at hh ⊢
       first | exact count_erase_tok _ _ _ _ (by omega) | exact count_notmem_tok _ _ _ _ ‹_› (by omega))
    | skip)

/-! ### manager steps -/

/-- the tokens that are not in the manager's hands or in the work-id queue -/
def restTok (s : St) (i : Wid) : Nat :=
  sumL (cmsgC' i) s.cqBuf + fTok i s.fpc + sumL (cmsgC' i) s.cqPipe + sumL (fun p => wTok i (s.w p)) s.allPids +
  sumL (rmsgC' i) s.rqPipe

theorem tokens_eq (s : St) (i : Wid) : tokens s i = s.workIds.count i + mTok i s.mpc + restTok s i := by
  unfold tokens restTok; omega

def Cnt (s : St) : Prop := ∀ i, s.pending.count i ≤ tokens s i
/-- the same with the manager's own token (if any) taken away -/
def CntNoM (s : St) : Prop := ∀ i, s.pending.count i ≤ s.workIds.count i + restTok s i

theorem cnt_of_frame (s s' : St) (h : CntNoM s) (e1 : s'.pending = s.pending) (e2 : s'.workIds = s.workIds)
    (e3 : ∀ i, restTok s' i = restTok s i) : Cnt s' := by
  intro i; have := h i; rw [tokens_eq, e1, e2, e3]; omega

theorem mAddFuel_cnt (n : Nat) (s : St) (h : CntNoM s) : Cnt (mAddFuel n s) := by
  induction n generalizing s with
  | zero => exact cnt_of_frame s _ h rfl rfl (fun _ => rfl)
  | succ n ih =>
    unfold mAddFuel
    split
    · exact cnt_of_frame s _ h rfl rfl (fun _ => rfl)
    · split
      · exact cnt_of_frame s _ h rfl rfl (fun _ => rfl)
      · rename_i i0 rest hw
        split
        · apply ih
          intro i
          have := h i
          simp only [hw, List.count_cons] at this
          show (s.pending.erase i0).count i ≤ rest.count i + restTok s i
          apply count_erase_tok
          unfold ind'
          by_cases e : i0 = i
          · subst e; simp at this ⊢; omega
          · have e' : (i0 == i) = false := by simpa using e
            simp [e, e'] at this ⊢; omega
        · intro i
          have := h i
          simp only [hw, List.count_cons] at this
          rw [tokens_eq]
          show s.pending.count i ≤ rest.count i + ind' i0 i + restTok s i
          unfold ind'
          by_cases e : i0 = i
          · subst e; simp at this ⊢; omega
          · have e' : (i0 == i) = false := by simpa using e
            simp [e, e'] at this ⊢; omega

theorem mAdd_cnt (s : St) (h : CntNoM s) : Cnt (mAdd s) := mAddFuel_cnt _ s h

theorem mAfterAddF_cnt (s : St) (h : Cnt s) : Cnt (mAfterAddF s) := by
  unfold mAfterAddF
  split
  · rename_i i0 hm
    intro i; have := h i
    rw [tokens_eq] at this ⊢
    rw [hm] at this
    exact this
  · split
    · rename_i sn hm _
      intro i; have := h i
      rw [tokens_eq] at this ⊢
      rw [hm] at this
      exact this
    · exact h
  · exact h

theorem mAddF_cnt (s : St) (h : CntNoM s) : Cnt (mAddF s) := mAfterAddF_cnt _ (mAdd_cnt s h)

theorem mAfterItem_cnt (s : St) (h : CntNoM s) : Cnt (mAfterItem s) := by
  unfold mAfterItem
  split
  · exact cnt_of_frame s _ h rfl rfl (fun _ => rfl)
  · exact mAdd_cnt s h

theorem mProcess_cnt (s : St) (r : Option RMsg)
    (h : ∀ i, s.pending.count i ≤ s.workIds.count i + mTok i (.clrPoll (.item r)) + restTok s i) : Cnt (mProcess s r) := by
  unfold mProcess
  split
  · exact mAfterItem_cnt s (fun i => by have := h i; simpa [mTok] using this)
  · exact mAfterItem_cnt s (fun i => by have := h i; simpa [mTok, rmsgC'] using this)
  · rename_i i0 isExc bad
    split
    · apply mAfterItem_cnt
      intro i
      have := h i
      simp only [mTok, rmsgC'] at this
      show (s.pending.erase i0).count i ≤ s.workIds.count i + restTok s i
      exact count_erase_tok _ _ _ _ (by omega)
    · rename_i hn
      apply mAfterItem_cnt
      intro i
      have := h i
      simp only [mTok, rmsgC'] at this
      exact count_notmem_tok _ _ _ _ hn (by omega)
  · exact cnt_of_frame s _ (fun i => by have := h i; simpa [mTok, rmsgC'] using this) rfl rfl (fun _ => rfl)

theorem mRespawnCheck_cnt (s : St) (h : CntNoM s) : Cnt (mRespawnCheck s) := by
  unfold mRespawnCheck
  simp only []
  (repeat' split) <;> first | exact mAfterItem_cnt s h | exact cnt_of_frame s _ h rfl rfl (fun _ => rfl)

theorem mDropRef_cnt (s : St) (h : CntNoM s) : Cnt (mDropRef s) := by
  unfold mDropRef
  simp only []
  split
  · exact cnt_of_frame s _ h rfl rfl (fun _ => rfl)
  · exact mAfterItem_cnt _ h

theorem mAfterFlag_cnt (s : St) (h : CntNoM s) : Cnt (mAfterFlag s) := by
  unfold mAfterFlag
  split
  · intro i; simp
  · split
    · exact cnt_of_frame s _ h rfl rfl (fun _ => rfl)
    · exact mAddF_cnt s h

/-- program counters of the manager at which `consMpcOk` asks nothing -/
def mpcFree : MPc → Bool
  | .kill _ | .killJoin _ | .flagRel | .brkRel _ | .addTStart _ | .addTStartF _ | .jPutTStart _ _ _ _ => false
  | _ => true

theorem mpcOk_of_free (s : St) (h : mpcFree s.mpc = true) : consMpcOk s = true := by
  unfold consMpcOk; split <;> simp_all [mpcFree]

@[simp] theorem mpcFree_mAddFuel (n : Nat) (s : St) : mpcFree (mAddFuel n s).mpc = true := by
  induction n generalizing s with
  | zero => rfl
  | succ n ih => unfold mAddFuel; (repeat' split) <;> first | rfl | simp [*]
@[simp] theorem mpcFree_mAdd (s : St) : mpcFree (mAdd s).mpc = true := by unfold mAdd; simp
@[simp] theorem mpcFree_mAfterAddF (s : St) (h : mpcFree s.mpc = true) : mpcFree (mAfterAddF s).mpc = true := by
  unfold mAfterAddF; (repeat' split) <;> first | rfl | exact h
@[simp] theorem mpcFree_mAddF (s : St) : mpcFree (mAddF s).mpc = true := by unfold mAddF; simp
@[simp] theorem mpcFree_mJoinStart (s : St) : mpcFree (mJoinStart s).mpc = true := rfl
@[simp] theorem mpcFree_mAfterItem (s : St) : mpcFree (mAfterItem s).mpc = true := by
  unfold mAfterItem; split <;> first | rfl | simp
@[simp] theorem mpcFree_mDropRef (s : St) : mpcFree (mDropRef s).mpc = true := by
  unfold mDropRef; simp only []; split <;> first | rfl | simp
@[simp] theorem mpcFree_mRespawnCheck (s : St) : mpcFree (mRespawnCheck s).mpc = true := by
  unfold mRespawnCheck; simp only []; (repeat' split) <;> first | rfl | simp
@[simp] theorem mpcFree_mProcess (s : St) (r) : mpcFree (mProcess s r).mpc = true := by
  unfold mProcess; (repeat' split) <;> first | rfl | simp
@[simp] theorem mpcFree_mJoinClose (s : St) : mpcFree (mJoinClose s).mpc = true := by
  unfold mJoinClose; rfl
@[simp] theorem mpcFree_mJoinLoop (s : St) (n sent cool) : mpcFree (mJoinLoop s n sent cool).mpc = true := by
  unfold mJoinLoop; split <;> first | rfl | simp
@[simp] theorem mpcFree_mAfterPut (s : St) (k n sent cool) : mpcFree (mAfterPut s k n sent cool).mpc = true := by
  unfold mAfterPut; split <;> first | rfl | simp
@[simp] theorem mpcFree_mSpawnLoop (s : St) : mpcFree (mSpawnLoop s).mpc = true := by
  unfold mSpawnLoop; split <;> rfl
@[simp] theorem mpcFree_mJoinProcs (s : St) : mpcFree (mJoinProcs s).mpc = true := by
  unfold mJoinProcs; split <;> rfl
@[simp] theorem mpcFree_mRelExitNext (s : St) (ps n) : mpcFree (mRelExitNext s ps n).mpc = true := by
  unfold mRelExitNext; split <;> rfl
@[simp] theorem mpcFree_mAliveNext (s : St) (ps cnt n sent cool) : mpcFree (mAliveNext s ps cnt n sent cool).mpc = true := by
  unfold mAliveNext; split <;> rfl

theorem mpcOk_mKillNext (s : St) (h1 : s.pending = []) (h2 : s.shutdownFlag = true) : consMpcOk (mKillNext s) = true := by
  unfold mKillNext; split
  · simp [consMpcOk, h1, h2]
  · rfl
theorem mpcOk_mAfterFlag (s : St) (h2 : s.shutdownFlag = true) : consMpcOk (mAfterFlag s) = true := by
  unfold mAfterFlag; split
  · apply mpcOk_mKillNext
    · simp
    · simpa using h2
  · split
    · rfl
    · exact mpcOk_of_free _ (by simp)

/-! the tokens outside the manager's hands after the continuations that do not take a work id -/
@[simp] theorem sumL_mJoinClose (s : St) (i : Wid) : sumL (cmsgC' i) (mJoinClose s).cqBuf = sumL (cmsgC' i) s.cqBuf := by
  unfold mJoinClose; split <;> simp [cmsgC']
@[simp] theorem sumL_mJoinLoop (s : St) (n sent cool) (i : Wid) :
    sumL (cmsgC' i) (mJoinLoop s n sent cool).cqBuf = sumL (cmsgC' i) s.cqBuf := by
  unfold mJoinLoop; split <;> simp
@[simp] theorem sumL_mAfterPut (s : St) (k n sent cool) (i : Wid) :
    sumL (cmsgC' i) (mAfterPut s k n sent cool).cqBuf = sumL (cmsgC' i) s.cqBuf := by
  unfold mAfterPut; split <;> simp

theorem badR_head (s : St) (h : ConsInv s) (r : RMsg) (rest : List RMsg) (e : s.rqPipe = r :: rest) : noBadR r = true :=
  h.badR r (by rw [e]; exact List.mem_cons_self)

theorem mTok_clrRecv (i : Wid) (k : AfterClear) : mTok i (.clrRecv k) = mTok i (.clrPoll k) := by
  cases k with
  | item r => cases r <;> rfl
  | broken b => rfl

theorem cntNoM_of (s : St) (h : ConsInv s) (hm : ∀ i, mTok i s.mpc = 0) : CntNoM s := by
  intro i; have := h.cnt i; rw [tokens_eq, hm i] at this; omega

theorem restTok_spawn (s : St) (hp : PidsInv s) (i : Wid) : restTok (spawn s) i = restTok s i := by
  have hn : s.nextPid ∉ s.allPids := fun e => Nat.lt_irrefl _ (hp.lt _ e)
  unfold restTok
  rw [spawn_allPids', spawn_w', sumL_append, sumL_upd_notin (wTok i) s.w s.nextPid .start s.allPids hn]
  simp [upd, wTok]

set_option maxHeartbeats 8000000 in
theorem consM_tstart (s s' : St) (v : Variant) (h : ConsInv s) (hs : stepM s v = some s') :
    ∀ k, k < s'.cfg.scripts.length → s'.upc k = .subTStart → s'.mpc = .none := by
  unfold stepM at hs
  crack
  all_goals (intro k hk e; simp at hk e; have := h.tstart k hk e; simp_all)

set_option maxHeartbeats 8000000 in
theorem consM_badR (s s' : St) (v : Variant) (h : ConsInv s) (hs : stepM s v = some s') :
    ∀ r ∈ s'.rqPipe, noBadR r = true := by
  unfold stepM at hs
  crack
  all_goals (first
    | (simpa using h.badR)
    | (intro r hr; simp at hr; exact h.badR r (by simp [*])))

set_option maxHeartbeats 8000000 in
theorem consM_badW (s s' : St) (v : Variant) (h : ConsInv s) (hs : stepM s v = some s') :
    ∀ p ∈ s'.allPids, noBadW (s'.w p) = true := by
  unfold stepM at hs
  crack
  all_goals (first
    | (simpa using h.badW)
    | (intro q hq; have := h.badW q; simp [die_w', spawn_w', spawn_allPids', upd_apply'] at hq ⊢; split <;> simp_all [noBadW]))

set_option maxHeartbeats 8000000 in
theorem consM_mpcOk (s s' : St) (v : Variant) (h : ConsInv s) (hs : stepM s v = some s') : consMpcOk s' = true := by
  have hm := h.mpc
  unfold stepM at hs
  crack
  all_goals (first
    | (apply mpcOk_of_free; first | rfl | (simp; done) | (simp [mpcFree]; done))
    | (apply mpcOk_mKillNext <;> simp_all [consMpcOk]; done)
    | (apply mpcOk_mAfterFlag; simp_all [consMpcOk]; done)
    | (simp_all [consMpcOk]; done))

set_option maxHeartbeats 8000000 in
theorem consM_cnt (s s' : St) (v : Variant) (h : ConsInv s) (hp : PidsInv s) (hs : stepM s v = some s') : Cnt s' := by
  have hm := h.mpc
  unfold stepM at hs
  crack
  all_goals (first | (exfalso; have := badR_head s h _ _ (by assumption); simp [noBadR] at this; done) | skip)
  all_goals (first
    | (apply mAdd_cnt; intro i; have := h.cnt i; simp [consMpcOk, *] at hm
       simp [tokens_eq, restTok, *, mTok, fTok, cmsgC', rmsgC', mTok_clrRecv] at this ⊢; omega)
    | (apply mAddF_cnt; intro i; have := h.cnt i; simp [consMpcOk, *] at hm
       simp [tokens_eq, restTok, *, mTok, fTok, cmsgC', rmsgC', mTok_clrRecv] at this ⊢; omega)
    | (apply mProcess_cnt; intro i; have := h.cnt i; simp [tokens_eq, *] at this; exact this)
    | (apply mRespawnCheck_cnt; intro i; have := h.cnt i; simp [consMpcOk, *] at hm
       simp [tokens_eq, restTok, *, mTok, fTok, cmsgC', rmsgC', mTok_clrRecv] at this ⊢; omega)
    | (apply mDropRef_cnt; intro i; have := h.cnt i; simp [consMpcOk, *] at hm
       simp [tokens_eq, restTok, *, mTok, fTok, cmsgC', rmsgC', mTok_clrRecv] at this ⊢; omega)
    | (apply mAfterItem_cnt; intro i; have := h.cnt i; simp [consMpcOk, *] at hm
       simp [tokens_eq, restTok, *, mTok, fTok, cmsgC', rmsgC', mTok_clrRecv] at this ⊢; omega)
    | (apply mAfterFlag_cnt; intro i; have := h.cnt i; simp [consMpcOk, *] at hm
       simp [tokens_eq, restTok, *, mTok, fTok, cmsgC', rmsgC', mTok_clrRecv] at this ⊢; omega)
    | (refine cnt_of_frame s _ ?_ ?_ ?_ ?_
       · (intro i; have := h.cnt i; simp [tokens_eq, *, mTok, mTok_clrRecv] at this; omega)
       · (simp; done)
       · (simp; done)
       · (intro i; simp [restTok, cmsgC']; done))
    | (intro i; have := h.cnt i; simp [consMpcOk, *] at hm
       simp [tokens_eq, restTok, *, mTok, fTok, cmsgC', rmsgC', mTok_clrRecv] at this ⊢; omega)
    | (intro i; simp_all [consMpcOk]; done)
    | (intro i; have := h.cnt i; simp only [tokens_eq, *, mTok_clrRecv] at this ⊢; exact this)
    | (refine cnt_of_frame s _ ?_ (by simp [spawn]) (by simp [spawn]) ?_
       · (intro i; have := h.cnt i; simp [tokens_eq, *, mTok] at this; omega)
       · (intro i; rw [← restTok_spawn s hp i]; simp [restTok]))
    | skip)

theorem consInv_stepM (s s' : St) (v : Variant) (h : ConsInv s) (hp : PidsInv s) (hs : stepM s v = some s') : ConsInv s' :=
  ⟨consM_cnt s s' v h hp hs, consM_badW s s' v h hs, consM_badR s s' v h hs, consM_mpcOk s s' v h hs,
   consM_tstart s s' v h hs⟩

/-! ### user steps -/

theorem uNext_upc_other (s : St) (k j : Nat) (h : j ≠ k) : (uNext s k).upc j = s.upc j := by
  unfold uNext; split <;> simp [setU, upd, h]
theorem uNext_upc_self (s : St) (k : Nat) : (uNext s k).upc k ≠ .subTStart := by
  unfold uNext; split <;> simp [setU, upd]
theorem uRelease_upc_other (s : St) (k j : Nat) (h : j ≠ k) : (uRelease s k).upc j = s.upc j := by
  unfold uRelease; simp only []; split
  · simp [setU, upd, h]
  · exact uNext_upc_other _ _ _ h
theorem uRelease_upc_self (s : St) (k : Nat) : (uRelease s k).upc k ≠ .subTStart := by
  unfold uRelease; simp only []; split
  · simp [setU, upd]
  · exact uNext_upc_self _ _
theorem uSpawnLoop_upc_other (s : St) (k j : Nat) (h : j ≠ k) : (uSpawnLoop s k).upc j = s.upc j := by
  unfold uSpawnLoop; (repeat' split) <;> simp [setU, upd, h]
theorem uSpawnLoop_upc_self (s : St) (k : Nat) (h : (uSpawnLoop s k).upc k = .subTStart) : s.mpc = .none := by
  unfold uSpawnLoop at h; (repeat' split at h) <;> simp_all [setU, upd]
theorem uDispatch_upc_other (s : St) (k j : Nat) (op : UOp) (h : j ≠ k) : (uDispatch s k op).upc j = s.upc j := by
  unfold uDispatch
  (repeat' split) <;> simp [uNext_upc_other, uRelease_upc_other, setU, upd, h]
theorem uDispatch_upc_self (s : St) (k : Nat) (op : UOp) : (uDispatch s k op).upc k ≠ .subTStart := by
  unfold uDispatch
  (repeat' split) <;> first | exact uNext_upc_self _ _ | exact uRelease_upc_self _ _ | simp [setU, upd]

theorem tstart_U (s s' : St) (k : Nat) (h : ConsInv s) (e3 : s'.mpc = s.mpc) (e9 : s'.cfg = s.cfg)
    (ho : ∀ j, j ≠ k → s'.upc j = s.upc j) (hself : s'.upc k = .subTStart → s.mpc = .none) :
    ∀ j, j < s'.cfg.scripts.length → s'.upc j = .subTStart → s'.mpc = .none := by
  intro j hj e
  rw [e3]; rw [e9] at hj
  by_cases ej : j = k
  · subst ej; exact hself e
  · rw [ho j ej] at e; exact h.tstart j hj e

set_option maxHeartbeats 8000000 in
theorem consU_tstart (s s' : St) (k : Nat) (v : Variant) (h : ConsInv s) (hk : k < s.cfg.scripts.length)
    (hu : ∀ k, s.upc k = .subTStart → s.oMgmt = some (.U k)) (hs : stepU s k v = some s') :
    ∀ j, j < s'.cfg.scripts.length → s'.upc j = .subTStart → s'.mpc = .none := by
  unfold stepU at hs
  crack
  all_goals (first
    | (refine tstart_U s _ k h ?_ ?_ ?_ ?_
       · first | rfl | (simp; done)
       · first | rfl | (simp; done)
       · (intro j hj; simp [uNext_upc_other, uRelease_upc_other, uSpawnLoop_upc_other, uDispatch_upc_other, setU, upd, hj]; done)
       · (intro e
          first
          | (exact absurd e (uNext_upc_self _ _))
          | (exact absurd e (uRelease_upc_self _ _))
          | (exact absurd e (uDispatch_upc_self _ _ _))
          | (have := uSpawnLoop_upc_self _ _ e; simpa using this)
          | (simp [setU, upd] at e; done)
          | (simp_all [setU, upd]; done)))
    | (intro j hj e; exfalso
       by_cases ej : j = k
       · subst ej; simp [setU, upd] at e
       · simp [setU, upd, ej] at e
         have a := hu j e
         have b := hu k (by assumption)
         rw [a] at b; simp at b; exact ej b))

theorem mpcOk_U (s s' : St) (h : consMpcOk s = true) (e3 : s'.mpc = s.mpc) (e5 : s'.fpc = s.fpc)
    (e7 : s.shutdownFlag = true → s'.shutdownFlag = true)
    (hp : s.shutdownFlag = true → s.pending = [] → s'.pending = []) : consMpcOk s' = true := by
  unfold consMpcOk at h ⊢
  rw [e3, e5]
  split <;> simp_all

theorem cnt_same (s s' : St) (h : Cnt s) (e1 : s'.pending = s.pending) (e2 : s'.workIds = s.workIds)
    (e3 : s'.mpc = s.mpc) (e4 : ∀ i, restTok s' i = restTok s i) : Cnt s' := by
  intro i; have := h i; rw [tokens_eq] at this ⊢; rw [e1, e2, e3, e4]; exact this

set_option maxHeartbeats 8000000 in
theorem consU_badR (s s' : St) (k : Nat) (v : Variant) (h : ConsInv s) (hs : stepU s k v = some s') :
    ∀ r ∈ s'.rqPipe, noBadR r = true := by
  unfold stepU at hs
  crack
  all_goals (first
    | (simpa using h.badR)
    | (simpa [spawn] using h.badR))

set_option maxHeartbeats 8000000 in
theorem consU_badW (s s' : St) (k : Nat) (v : Variant) (h : ConsInv s) (hs : stepU s k v = some s') :
    ∀ p ∈ s'.allPids, noBadW (s'.w p) = true := by
  unfold stepU at hs
  crack
  all_goals (first
    | (simpa using h.badW)
    | (intro q hq; have := h.badW q; simp [spawn_w', spawn_allPids', upd_apply'] at hq ⊢; split <;> simp_all [noBadW]))

set_option maxHeartbeats 8000000 in
theorem consU_mpcOk (s s' : St) (k : Nat) (v : Variant) (h : ConsInv s) (hk : k < s.cfg.scripts.length)
    (hs : stepU s k v = some s') : consMpcOk s' = true := by
  have hm := h.mpc
  unfold stepU at hs
  crack
  all_goals (first
    | (refine mpcOk_U s _ hm ?_ ?_ ?_ ?_
       · first | rfl | (simp; done) | (simp [spawn]; done)
       · first | rfl | (simp; done) | (simp [spawn]; done)
       · first | (intro e; simp [e]; done) | (intro e; simp [e, spawn]; done)
       · first | (intro e1 e2; simp [e2]; done) | (intro e1 e2; simp [e2, spawn]; done) | (intro e1 e2; simp_all; done))
    | (have := h.tstart k hk (by assumption); simp_all [consMpcOk, setU]; done)
    | skip)

set_option maxHeartbeats 8000000 in
theorem consU_cnt (s s' : St) (k : Nat) (v : Variant) (h : ConsInv s) (hp : PidsInv s) (hk : k < s.cfg.scripts.length)
    (hs : stepU s k v = some s') : Cnt s' := by
  unfold stepU at hs
  crack
  all_goals (first
    | (refine cnt_same s _ h.cnt ?_ ?_ ?_ ?_
       · first | rfl | (simp; done)
       · first | rfl | (simp; done)
       · first | rfl | (simp; done)
       · (intro i; simp [restTok]; done))
    | (refine cnt_same s _ h.cnt (by simp [spawn]) (by simp [spawn]) (by simp [spawn]) ?_
       intro i; rw [← restTok_spawn s hp i]; simp [restTok]; done)
    | (intro i; have := h.cnt i; have hn := h.tstart k hk (by assumption)
       simp [tokens_eq, restTok, *, mTok, List.count_append] at this ⊢; omega)
    | (intro i; have := h.cnt i
       simp [tokens_eq, restTok, *, mTok, List.count_append] at this ⊢; omega)
    | skip)

theorem consInv_stepU (s s' : St) (k : Nat) (v : Variant) (h : ConsInv s) (hp : PidsInv s)
    (hk : k < s.cfg.scripts.length) (hu : ∀ k, s.upc k = .subTStart → s.oMgmt = some (.U k))
    (hs : stepU s k v = some s') : ConsInv s' :=
  ⟨consU_cnt s s' k v h hp hk hs, consU_badW s s' k v h hs, consU_badR s s' k v h hs, consU_mpcOk s s' k v h hk hs,
   consU_tstart s s' k v h hk hu hs⟩

end Cons

/-! ### assembly -/

open Cons

theorem consInv_init (cfg : Cfg) : ConsInv (init cfg) := by
  refine ⟨?_, ?_, ?_, ?_, ?_⟩ <;> simp [init, consMpcOk]

/-- `ConsInv` is preserved by every step other than a crash, when no task kills its worker, fails to un-pickle in the
    worker, or returns a result that fails to un-pickle in the parent -/
theorem consInv_step {s s' : St} {a : Actor} {v : Variant} (hv : v ≠ .crash) (hs : step s a v = some s')
    (hp : PidsInv s) (hb : BenignC s.cfg) (hu : ∀ k, s.upc k = .subTStart → s.oMgmt = some (.U k))
    (h : ConsInv s) : ConsInv s' := by
  unfold step at hs
  cases a with
  | U k => simp only [] at hs; split at hs; exact consInv_stepU s s' k v h hp (by assumption) hu hs; cases hs
  | M => exact consInv_stepM s s' v h hp hs
  | F => exact consInv_stepF s s' v h hs
  | W p => simp only [] at hs; split at hs; exact consInv_stepW s s' p v hv h hp hb (by assumption) hs; cases hs

theorem consOk'_init (cfg : Cfg) : consOk' (init cfg) = true := (consOk'_iff _).2 (consInv_init cfg)

theorem consOk_init (cfg : Cfg) : consOk (init cfg) = true := consOk_of_consOk' _ (consOk'_init cfg)

/-- the strengthened invariant is inductive: benign tasks, no crash step; `hu` is mutual exclusion on the
    process-management lock at the one place where it matters (a consequence of `MgmtInv.u`) -/
theorem consOk'_step_benign {s s' : St} {a : Actor} {v : Variant} (hv : v ≠ .crash) (hs : step s a v = some s')
    (hp : PidsInv s) (hb : s.cfg.benignTasks = true) (hu : ∀ k, s.upc k = .subTStart → s.oMgmt = some (.U k))
    (h : consOk' s = true) : consOk' s' = true :=
  (consOk'_iff _).2 (consInv_step hv hs hp (benignC_of _ hb) hu ((consOk'_iff _).1 h))

theorem consOk'_step {s s' : St} {a : Actor} {v : Variant} (hv : v ≠ .crash) (hs : step s a v = some s')
    (hp : PidsInv s) (hc : s.cfg.staticPool = true) (hu : ∀ k, s.upc k = .subTStart → s.oMgmt = some (.U k))
    (h : consOk' s = true) : consOk' s' = true :=
  consOk'_step_benign hv hs hp (benignTasks_of_staticPool _ hc) hu h

theorem consOk_step {s s' : St} {a : Actor} {v : Variant} (hv : v ≠ .crash) (hs : step s a v = some s')
    (hp : PidsInv s) (hc : s.cfg.staticPool = true) (hu : ∀ k, s.upc k = .subTStart → s.oMgmt = some (.U k))
    (h : consOk' s = true) : consOk s' = true :=
  consOk_of_consOk' _ (consOk'_step hv hs hp hc hu h)

end LokyModel.Exec
