import LokyModel.Lemmas.ExecShutM
namespace LokyModel.Exec

set_option maxHeartbeats 8000000 in
theorem shutInv_stepF (s s' : St) (v : Variant) (h : ShutInv s) (hs : stepF s v = some s') : ShutInv s' := by
  obtain ⟨hv, hu, hm, hf, ha, hfl⟩ := h
  have hle : s.shut ≤ 1 := by rw [hv]; split <;> omega
  unfold stepF at hs
  crack_step
  all_goals (refine ⟨?_, ?_, ?_, ?_, ?_, ?_⟩)
  all_goals (first
    | (simp_all; done)
    | (intro k hk; have h1 := hu k; simp_all; done)
    | (simp_all [inShutM, inShutU, inShutF, mFlagged]; done)
    | (intro k hk; have h1 := hu k; simp_all [inShutM, inShutU, inShutF]; done)
    | (simp_all; omega)
    | (simp_all [inShutF]; omega)
    | (intro hk; have h1 := hf hk; simp_all [inShutF]; done)
    | (intro hk; have h1 := hm hk; simp_all [inShutF]; done)
    | skip)

set_option maxHeartbeats 8000000 in
theorem shutInv_stepW (s s' : St) (p : Pid) (v : Variant) (h : ShutInv s) (hs : stepW s p v = some s') : ShutInv s' := by
  obtain ⟨hv, hu, hm, hf, ha, hfl⟩ := h
  unfold stepW at hs
  crack_step
  all_goals (refine ⟨?_, ?_, ?_, ?_, ?_, ?_⟩)
  all_goals (first
    | (simp_all; done)
    | (intro k hk; have h1 := hu k; simp_all; done)
    | (intro k hk; have h1 := ha k; simp_all; done)
    | (simp_all [wAfterStart, wGet, wDispatch, wAfterResult]; done)
    | skip)

