import LokyModel.Lemmas.ExecMsgM
namespace LokyModel.Exec

set_option maxHeartbeats 8000000 in
theorem msgInv_stepM (s s' : St) (v : Variant) (h : MsgInv s) (hs : stepM s v = some s') : MsgInv s' := by
  unfold stepM at hs
  crack_step
  all_goals (first
    | (msg_simple s, h; done)
    | (refine msg_mAdd _ ?_; msg_simple s, h; done)
    | (refine msg_mAddF _ ?_; msg_simple s, h; done)
    | (refine msg_mAfterItem _ ?_; msg_simple s, h; done)
    | (refine msg_mRespawnCheck _ ?_; msg_simple s, h; done)
    | (refine msg_mDropRef _ ?_; msg_simple s, h; done)
    | (refine msg_mAfterFlag _ ?_; msg_simple s, h; done)
    | (exact msg_mProcess s _ h ‹_›)
    -- the dispatched work id enters the call buffer with its own task
    | (refine msg_mAdd _ ?_
       have hm := MsgInv.m h; rw [‹s.mpc = _›] at hm
       refine msg_plus s _ h ?_ ?_ ?_ ?_ ?_
       · simp
       · left; simp
       · intro m hm'; simp at hm'
         rcases hm' with e | rfl
         · left; exact e
         · right; exact ⟨hm, rfl⟩
       · trivial
       · first | (simpa using MsgInv.f h) | trivial)
    | (refine msg_mAddF _ ?_
       have hm := MsgInv.m h; rw [‹s.mpc = _›] at hm
       refine msg_plus s _ h ?_ ?_ ?_ ?_ ?_
       · simp
       · left; simp
       · intro m hm'; simp at hm'
         rcases hm' with e | rfl
         · left; exact e
         · right; exact ⟨hm, rfl⟩
       · trivial
       · first | (simpa using MsgInv.f h) | trivial)
    | (have hm := MsgInv.m h; rw [‹s.mpc = _›] at hm
       refine msg_plus s _ h ?_ ?_ ?_ ?_ ?_
       · simp
       · left; simp
       · intro m hm'; left; simpa using hm'
       · first | (rw [goodM_clrRecv]; exact hm) | (rw [goodM_clrRecv] at hm; exact hm)
       · simpa using MsgInv.f h)
    | (refine msg_brkRel s h _ ?_ ?_ ?_ _ _ <;> simp <;> done)
    -- a worker is spawned / killed
    | (refine msg_plus s _ h ?_ (Or.inr ⟨_, _, ?_, ?_⟩) ?_ ?_ ?_
       · simp
       · simp [spawn, die]; rfl
       · trivial
       · intro m hm'; left; simpa using hm'
       · simp
       · simpa using MsgInv.f h)
    -- shutdown_workers / join: only sentinels enter the call buffer
    | (refine msg_plus s _ h ?_ ?_ ?_ ?_ ?_
       · simp
       · left; simp
       · intro m hm'
         first
         | (rcases mem_mJoinLoop _ _ _ _ m hm' with e | rfl
            · simp at e; rcases e with e | rfl
              · left; exact e
              · right; trivial
            · right; trivial)
         | (rcases mem_mAfterPut _ _ _ _ _ m hm' with e | rfl
            · simp at e; rcases e with e | rfl
              · left; exact e
              · right; trivial
            · right; trivial)
         | (rcases mem_mJoinClose _ m hm' with e | rfl
            · simp at e; left; exact e
            · right; trivial)
       · simp
       · first | (simpa using MsgInv.f h) | trivial)
    | (exact msg_spawn s h)
    | (exact msg_kill s h _)
    | (exact msg_joinLoop s h _ _ _)
    | (exact msg_afterPutStart s h _ _ _ _)
    | (refine msg_joinLoop _ ?_ _ _ _; msg_simple s, h; done)
    | skip)

end LokyModel.Exec
