import LokyModel.Lemmas.ExecFutInv
namespace LokyModel.Exec

@[simp] theorem mTerm_mJoinStart (s : St) : mTerm (mJoinStart s).mpc = true := rfl
@[simp] theorem mTerm_mKillNext (s : St) : mTerm (mKillNext s).mpc = true := by unfold mKillNext; split <;> rfl
@[simp] theorem mTerm_mJoinProcs (s : St) : mTerm (mJoinProcs s).mpc = true := by unfold mJoinProcs; split <;> rfl
@[simp] theorem mTerm_mJoinClose (s : St) : mTerm (mJoinClose s).mpc = true := rfl
@[simp] theorem mTerm_mJoinLoop (s : St) (n sent cool : Nat) : mTerm (mJoinLoop s n sent cool).mpc = true := by
  unfold mJoinLoop; split <;> first | rfl | exact mTerm_mJoinClose _
@[simp] theorem mTerm_mRelExitNext (s : St) (ps : List Pid) (n : Nat) : mTerm (mRelExitNext s ps n).mpc = true := by
  unfold mRelExitNext; split <;> rfl
@[simp] theorem mTerm_mAliveNext (s : St) (ps : List Pid) (c n sent cool : Nat) :
    mTerm (mAliveNext s ps c n sent cool).mpc = true := by unfold mAliveNext; split <;> rfl
@[simp] theorem mTerm_mAfterPut (s : St) (k n sent cool : Nat) : mTerm (mAfterPut s k n sent cool).mpc = true := by
  unfold mAfterPut; split <;> first | rfl | exact mTerm_mJoinLoop _ _ _ _
@[simp] theorem mTerm_mSpawnLoop (s : St) : mTerm (mSpawnLoop s).mpc = false := by unfold mSpawnLoop; split <;> rfl

theorem count_erase_self' (l : List Wid) (i : Wid) (h : l.count i ≤ 1) : (l.erase i).count i = 0 := by
  rw [List.count_erase_self]; omega
theorem count_erase_ne' (l : List Wid) (i j : Wid) (h : i ≠ j) : (l.erase i).count j = l.count j := by
  rw [List.count_erase_of_ne (Ne.symm h)]

/-- `add_call_item_to_queue` -/
theorem fs_mAddFuel (n : Nat) : ∀ X : St, FutInv { X with mpc := .none } → TokInv { X with mpc := .none } →
    FS { X with mpc := .none } (mAddFuel n X) := by
  induction n with
  | zero => intro X h _; unfold mAddFuel; exact fs_same _ _ h rfl rfl rfl (fun _ => Nat.le_refl _) (fun _ => rfl)
  | succ n ih =>
    intro X h ht
    unfold mAddFuel
    split
    · exact fs_same _ _ h rfl rfl rfl (fun _ => Nat.le_refl _) (fun _ => rfl)
    · split
      · exact fs_same _ _ h rfl rfl rfl (fun _ => Nat.le_refl _) (fun _ => rfl)
      · rename_i i rest hwk
        have hw0 := h.wk rfl
        simp only [hwk] at hw0
        have hi := hw0 i (by simp)
        have hcount : (i :: rest).count i ≤ 1 := by
          have := ht.once i; simp only [hwk] at this; omega
        have hnot : i ∉ rest := by
          intro hm
          have : 0 < rest.count i := List.count_pos_iff.mpr hm
          rw [count_cons'] at hcount; simp [ind] at hcount; omega
        split
        · rename_i hc
          have hcanc : futOf X i = .cancelled := by simpa using hc
          -- drop the cancelled id, then continue
          have step1 : FS { X with mpc := .none } { X with workIds := rest, pending := X.pending.erase i, mpc := .none } := by
            refine fut_move _ _ h rfl (fun _ => Nat.le_refl _) ?_ ?_
            · intro j
              by_cases hj : i = j
              · subst hj
                refine ⟨by simp [count_erase_self' _ _ (h.pnodup i)], Or.inl ⟨rfl, fun _ _ => ?_⟩⟩
                show (futOf X i).done = true
                rw [hcanc]; rfl
              · refine ⟨by simp [count_erase_ne' _ _ _ hj], Or.inl ⟨rfl, fun h1 h2 => ?_⟩⟩
                exfalso; apply h2
                simp only
                exact (List.mem_erase_of_ne (Ne.symm hj)).mpr h1
            · intro _ j hj
              have hjr : j ∈ rest := hj
              have := hw0 j (by simp [hjr])
              have hne : j ≠ i := fun e => hnot (e ▸ hjr)
              exact ⟨(List.mem_erase_of_ne hne).mpr this.1, this.2⟩
          have ht1 : TokInv { X with workIds := rest, pending := X.pending.erase i, mpc := .none } := by
            refine tok_move _ _ ht ?_ (Or.inl ?_) ?_ ?_ ?_ ?_ ?_
            · simp
            · simp
            · intro j; simp [hwk, count_cons']
            · intro j; simp [hwk, count_cons', nw, mPreC]
            · intro j; simp [pnw, mPostC]
            · intro j; left; simp [futOf]
            · intro j _; simp [nw, mPreC]
          exact step1.trans (ih { X with workIds := rest, pending := X.pending.erase i } step1.1 ht1)
        · rename_i hc
          have hnc : futOf X i ≠ .cancelled := by simpa using hc
          have hpend : futOf X i = .pending := by
            rcases hi.2 with e | e
            · exact e
            · exact absurd e hnc
          have hlt : i < X.futs.length := h.plt i hi.1
          have key : ∀ (s1 : St), s1.futs = (setFut X i .running).futs → s1.pending = X.pending →
              s1.workIds = rest → s1.execW = X.execW → FS { X with mpc := .none } s1 := by
            intro s1 h1 h2 h3 h4
            have hfo : ∀ j, futOf s1 j = if j = i then .running else futOf X j := by
              intro j
              have e1 : futOf s1 j = futOf (setFut X i .running) j := by simp [futOf, h1]
              rw [e1, futOf_setFut]
              by_cases hj : j = i
              · simp [hj, hlt]
              · simp [hj]
            refine fut_move _ _ h (by rw [h1]; simp) (fun _ => by rw [h4]; exact Nat.le_refl _) ?_ (fun _ => ?_)
            · intro j
              refine ⟨by rw [h2]; exact Nat.le_refl _, ?_⟩
              rw [hfo j]
              by_cases hj : j = i
              · subst hj
                right; right
                exact ⟨by rw [h2]; exact hi.1, hpend, Or.inl (by simp)⟩
              · left; simp only [if_neg hj]
                exact ⟨rfl, fun h1' h2' => by rw [h2] at h2'; exact absurd h1' h2'⟩
            · intro j hj
              rw [h3] at hj
              have := hw0 j (by simp [hj])
              have hne : j ≠ i := fun e => hnot (e ▸ hj)
              rw [hfo j, h2]
              simp only [if_neg hne]
              exact this
          exact key _ rfl rfl rfl rfl

theorem fs_mAdd (X : St) (h : FutInv { X with mpc := .none }) (ht : TokInv { X with mpc := .none }) :
    FS { X with mpc := .none } (mAdd X) := fs_mAddFuel _ X h ht

theorem fs_mAfterItem (X : St) (h : FutInv { X with mpc := .none }) (ht : TokInv { X with mpc := .none }) :
    FS { X with mpc := .none } (mAfterItem X) := by
  unfold mAfterItem
  split
  · exact fs_same _ _ h rfl rfl rfl (fun _ => Nat.le_refl _) (fun _ => rfl)
  · exact fs_mAdd X h ht

theorem fs_mDropRef (X : St) (h : FutInv { X with mpc := .none }) (ht : TokInv { X with mpc := .none }) :
    FS { X with mpc := .none } (mDropRef X) := by
  unfold mDropRef
  simp only []
  split
  · exact fs_same _ _ h rfl rfl rfl (fun _ => Nat.le_refl _) (fun _ => rfl)
  · have f0 : FS { X with mpc := .none } { X with refs := X.refs - 1, mpc := .none } :=
      fs_same _ _ h rfl rfl rfl (fun _ => Nat.le_refl _) (fun _ => rfl)
    have t0 : TokInv { X with refs := X.refs - 1, mpc := .none } := by
      refine tok_congr _ _ ht ?_ ?_
      · simp
      · intro i; simp
    exact f0.trans (fs_mAfterItem { X with refs := X.refs - 1 } f0.1 t0)

theorem fs_mRespawnCheck (X : St) (h : FutInv { X with mpc := .none }) (ht : TokInv { X with mpc := .none }) :
    FS { X with mpc := .none } (mRespawnCheck X) := by
  unfold mRespawnCheck
  simp only []
  split
  · split
    · exact fs_same _ _ h rfl rfl rfl (fun _ => Nat.le_refl _) (fun _ => rfl)
    · exact fs_mAfterItem X h ht
  · exact fs_mAfterItem X h ht

/-- failing every pending future and emptying `pending` (the manager then goes on to a terminal phase) -/
theorem fs_failAll (s s1 : St) (f : Fut) (h : FutInv s) (hf : f = .excShutdown ∨ f = .excTerminated ∨ f = .excBroken)
    (h1 : s1.futs = (failAll s s.pending f).futs) (h2 : s1.pending = []) (h3 : mTerm s1.mpc = true)
    (h4 : s1.execW = s.execW) : FS s s1 := by
  have hf1 : f ≠ .cancelled := by rcases hf with e | e | e <;> simp [e]
  have hfd : f.done = true := by rcases hf with e | e | e <;> simp [e, Fut.done]
  have hfv : ¬ (f = .value ∨ f = .excWorker) := by rcases hf with e | e | e <;> simp [e]
  have hfo : ∀ j, futOf s1 j = if j ∈ s.pending ∧ j < s.futs.length ∧ futOf s j ≠ .cancelled then f else futOf s j := by
    intro j
    have e1 : futOf s1 j = futOf (failAll s s.pending f) j := by simp [futOf, h1]
    rw [e1, futOf_failAll _ _ _ hf1]
  refine fut_move s s1 h (by rw [h1]; simp) (fun _ => by rw [h4]; exact Nat.le_refl _) ?_ ?_
  · intro j
    unfold FRel
    refine ⟨by rw [h2]; simp, ?_⟩
    rw [hfo j]
    by_cases hj : j ∈ s.pending ∧ j < s.futs.length ∧ futOf s j ≠ .cancelled
    · rw [if_pos hj]
      right; left
      refine ⟨hj.1, by rw [h2]; simp, ?_, hfd, fun hv => absurd hv hfv⟩
      rcases h.pfut j hj.1 with e | e | e
      · exact Or.inl e
      · exact Or.inr e
      · exact absurd e hj.2.2
    · rw [if_neg hj]
      left
      refine ⟨rfl, fun hm _ => ?_⟩
      have hc : futOf s j = .cancelled := by
        apply Decidable.byContradiction
        intro hn
        exact hj ⟨hm, h.plt j hm, hn⟩
      rw [hc]; rfl
  · intro hl; rw [h3] at hl; cases hl

/-- the end of the pass made after flagging: a pure change of program counter, and the final phase is only entered
    from `wait` (where it had not been entered) -/
theorem mTerm_mAfterAddF (Y : St) (h : mTerm (mAfterAddF Y).mpc = false) : mTerm Y.mpc = false := by
  unfold mAfterAddF at h
  split at h
  · rename_i i hpc; rw [hpc]; rfl
  · rename_i sn hpc; rw [hpc]; rfl
  · exact h

theorem fs_mAfterAddF (Y : St) (h : FutInv Y) : FS Y (mAfterAddF Y) :=
  fs_same _ _ h (by simp) (by simp) (by simp) (fun _ => by simp) (mTerm_mAfterAddF Y)

theorem fs_mAddF (X : St) (h : FutInv { X with mpc := .none }) (ht : TokInv { X with mpc := .none }) :
    FS { X with mpc := .none } (mAddF X) :=
  (fs_mAdd X h ht).trans (fs_mAfterAddF _ (fs_mAdd X h ht).1)

theorem fs_mAfterFlag (X : St) (h : FutInv { X with mpc := .none }) (ht : TokInv { X with mpc := .none }) :
    FS { X with mpc := .none } (mAfterFlag X) := by
  unfold mAfterFlag
  split
  · exact fs_failAll _ _ .excShutdown h (Or.inl rfl) (by simp [failAll]) (by simp) (by simp) (by simp)
  · split
    · exact fs_same _ _ h rfl rfl rfl (fun _ => Nat.le_refl _) (fun _ => rfl)
    · exact fs_mAddF X h ht

theorem fs_mProcess (s : St) (r : Option RMsg) (h : FutInv s) (ht : TokInv s) (hpc : s.mpc = .clrPoll (.item r)) :
    FS s (mProcess s r) := by
  have hl : mTerm s.mpc = false := by rw [hpc]; rfl
  have f0 : FS s { s with mpc := .none } := fs_same _ _ h rfl rfl rfl (fun _ => Nat.le_refl _) (fun _ => hl)
  have t0 : TokInv { s with mpc := .none } := by tok_simple s, ht
  unfold mProcess
  split
  · exact f0.trans (fs_mAfterItem s f0.1 t0)
  · exact f0.trans (fs_mAfterItem s f0.1 t0)
  · rename_i i isExc bad
    split
    · rename_i hip
      obtain ⟨n1, n2⟩ := fut_of_mpc s ht i (by simp [hpc, mPostC, rmsgC, ind])
      have hrun : futOf s i = .running := by
        rcases h.pfut i hip with e | e | e
        · exact absurd e n1
        · exact e
        · exact absurd e n2
      have hlt := h.plt i hip
      have hex : 1 ≤ s.execW.count i := by
        have := ht.postle i
        have hp : 1 ≤ post s i := by simp [post, hpc, mPostC, rmsgC, ind]
        omega
      have hnw : i ∉ s.workIds := by
        intro hm
        have : 0 < s.workIds.count i := List.count_pos_iff.mpr hm
        have := ht.once i; omega
      let v : Fut := if isExc then .excWorker else .value
      have hvd : v.done = true := by simp only [v]; split <;> rfl
      have key : ∀ s1 : St, s1.futs = (setFut s i v).futs → s1.pending = s.pending.erase i →
          s1.workIds = s.workIds → s1.execW = s.execW → s1.mpc = .none → FS s s1 := by
        intro s1 h1 h2 h3 h4 h5
        have hfo : ∀ j, futOf s1 j = if j = i then v else futOf s j := by
          intro j
          have e1 : futOf s1 j = futOf (setFut s i v) j := by simp [futOf, h1]
          rw [e1, futOf_setFut]
          by_cases hj : j = i
          · simp [hj, hlt]
          · simp [hj]
        refine fut_move _ _ h (by rw [h1]; simp) (fun _ => by rw [h4]; exact Nat.le_refl _) ?_ ?_
        · intro j
          unfold FRel
          rw [hfo j]
          by_cases hj : j = i
          · subst hj
            refine ⟨by rw [h2, count_erase_self' _ _ (h.pnodup j)]; exact Nat.zero_le _, ?_⟩
            right; left
            refine ⟨hip, ?_, Or.inr hrun, by simpa using hvd, fun _ => by rw [h4]; exact hex⟩
            rw [h2]; intro hm
            have : 0 < (s.pending.erase j).count j := List.count_pos_iff.mpr hm
            rw [count_erase_self' _ _ (h.pnodup j)] at this; omega
          · refine ⟨by rw [h2, count_erase_ne' _ _ _ (Ne.symm hj)]; exact Nat.le_refl _, ?_⟩
            left; rw [if_neg hj]
            refine ⟨rfl, fun hm hn => ?_⟩
            exfalso; apply hn; rw [h2]
            exact (List.mem_erase_of_ne hj).mpr hm
        · intro _ j hj
          rw [h3] at hj
          have := h.wk hl j hj
          have hne : j ≠ i := fun e => hnw (e ▸ hj)
          rw [hfo j, h2]; simp only [if_neg hne]
          exact ⟨(List.mem_erase_of_ne hne).mpr this.1, this.2⟩
      have f1 : FS s { (setFut { s with pending := s.pending.erase i, running := s.running.erase i } i v) with mpc := .none } :=
        key _ rfl rfl rfl rfl rfl
      have t1 : TokInv { (setFut { s with pending := s.pending.erase i, running := s.running.erase i } i v) with mpc := .none } := by
        have kt : ∀ s1 : St, s1.futs = (setFut s i v).futs → ∀ j,
            (futOf s1 j = futOf s j ∨ (futOf s1 j ≠ .pending ∧ futOf s1 j ≠ .cancelled ∧ futOf s j ≠ .cancelled)) := by
          intro s1 h1 j
          have e1 : futOf s1 j = futOf (setFut s i v) j := by simp [futOf, h1]
          rw [e1, futOf_setFut]
          by_cases hj : j = i ∧ i < s.futs.length
          · rw [if_pos hj, hj.1]
            exact Or.inr ⟨by simp only [v]; split <;> simp, by simp only [v]; split <;> simp, n2⟩
          · rw [if_neg hj]; exact Or.inl rfl
        refine tok_move s _ ht ?_ (Or.inl ?_) ?_ ?_ ?_ ?_ ?_
        · simp
        · simp
        · intro j; simp
        · intro j; simp [nw, mPreC]
        · intro j; simp [pnw, mPostC]
        · intro j; exact kt _ rfl j
        · intro j _; simp [nw, mPreC]
      exact f1.trans (fs_mAfterItem _ f1.1 t1)
    · exact f0.trans (fs_mAfterItem s f0.1 t0)
  · exact fs_same _ _ h rfl rfl rfl (fun _ => Nat.le_refl _) (fun _ => hl)

end LokyModel.Exec
