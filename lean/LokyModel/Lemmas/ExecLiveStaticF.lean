import LokyModel.Lemmas.ExecLiveStaticBase
/-! `staticOk'`: steps of the queue-feeder thread. -/
namespace LokyModel.Exec.StaticP
set_option linter.unusedSimpArgs false

theorem qOk_of_si (s : St) (h : SI s) : QOk s.cqBuf s.cqPipe s.fpc (mLate s.mpc) (mFinal s.mpc) :=
  { fb := h.fb, cp := h.cp, fc := h.fc, cl := h.cl, late := h.late,
    nb := fun hf => (h.pre hf).nb, np := fun hf => (h.pre hf).np, nf := fun hf => (h.pre hf).nf }

theorem mem_dropLast_tail {α : Type} (x : α) (l : List α) (m : α) (h : m ∈ l.dropLast) : m ∈ (x :: l).dropLast := by
  cases l with
  | nil => simp at h
  | cons y r => simp only [List.dropLast_cons_cons]; exact List.mem_cons_of_mem _ h

theorem fNext_q (s : St) (f0 : FPc) (late fin : Bool) (h : QOk s.cqBuf s.cqPipe f0 late fin) :
    QOk (fNext s).cqBuf (fNext s).cqPipe (fNext s).fpc late fin := by
  obtain ⟨fb, cp, fc, cl, lt, nb, np, nf⟩ := h
  unfold fNext
  split
  · rename_i e
    constructor <;> simp_all [fClose, fStop]
  · rename_i rest e
    rw [e] at cl lt nb
    have hr : rest = [] := by
      cases rest with
      | nil => rfl
      | cons y r => have := cl .close (by simp); simp [isClose] at this
    have hl : late = true := by
      cases late
      · have := (lt rfl).1 .close (by simp); simp [isClose] at this
      · rfl
    subst hr; subst hl
    constructor <;> simp_all [fClose, fStop]
  · rename_i rest e
    rw [e] at cl lt nb
    have hl : fin = true := by
      cases fin
      · have := nb rfl .stop (by simp); simp [isStop] at this
      · rfl
    subst hl
    constructor <;> first
      | (simp_all [fClose, fStop]; done)
      | (intro m hm; exact cl m (mem_dropLast_tail _ _ _ hm))
      | (intro hl; refine ⟨fun m hm => (lt hl).1 m (List.mem_cons_of_mem _ hm), by simp⟩)
  · rename_i w t rest e
    rw [e] at cl lt nb
    split <;> constructor <;> first
      | (simp_all [fClose, fStop]; done)
      | (intro m hm; exact cl m (mem_dropLast_tail _ _ _ hm))
      | (intro hl; refine ⟨fun m hm => (lt hl).1 m (List.mem_cons_of_mem _ hm), by simp⟩)
      | (intro hf m hm; exact nb hf m (List.mem_cons_of_mem _ hm))

/-- the feeder moves between program counters that are neither sentinels' nor `none`/`done`; buffer and pipe unchanged -/
theorem qOk_fpc (buf pipe : List CMsg) (f f' : FPc) (late fin : Bool) (h : QOk buf pipe f late fin)
    (h1 : f' ≠ .none) (h2 : f' ≠ .done) (h3 : fClose f' = false) (h4 : fStop f' = true → fStop f = true) :
    QOk buf pipe f' late fin := by
  obtain ⟨fb, cp, fc, cl, lt, nb, np, nf⟩ := h
  refine ⟨?_, cp, h3, cl, ?_, nb, np, ?_⟩
  · rintro (e | e) <;> contradiction
  · intro hl; exact ⟨(lt hl).1, h2⟩
  · intro hf
    cases e : fStop f'
    · rfl
    · rw [nf hf] at h4; exact absurd (h4 e) (by simp)

/-- `send`: the message in the feeder's hands goes into the pipe -/
theorem qOk_send (buf pipe : List CMsg) (m : CMsg) (late fin : Bool) (h : QOk buf pipe (.send m) late fin) :
    QOk buf (pipe ++ [m]) .rel late fin := by
  obtain ⟨fb, cp, fc, cl, lt, nb, np, nf⟩ := h
  refine ⟨?_, ?_, rfl, cl, ?_, nb, ?_, fun _ => rfl⟩
  · rintro (e | e) <;> cases e
  · intro x hx
    rcases List.mem_append.1 hx with hx | hx
    · exact cp x hx
    · have : x = m := by simpa using hx
      subst this; cases x <;> simp_all [fClose, isClose]
  · intro hl; exact ⟨(lt hl).1, by simp⟩
  · intro hf x hx
    rcases List.mem_append.1 hx with hx | hx
    · exact np hf x hx
    · have : x = m := by simpa using hx
      subst this; have := nf hf; cases x <;> simp_all [fStop, isStop]

structure FSum (s s' : St) : Prop where
  q : QOk s'.cqBuf s'.cqPipe s'.fpc (mLate s.mpc) (mFinal s.mpc)
  futs : s'.futs = [] ↔ s.futs = []
  wk : s.wakeup ≤ s'.wakeup
  mpc : s'.mpc = s.mpc
  upc : s'.upc = s.upc
  ucur : s'.ucur = s.ucur
  uscript : s'.uscript = s.uscript
  procDict : s'.procDict = s.procDict
  allPids : s'.allPids = s.allPids
  cfg : s'.cfg = s.cfg
  w : s'.w = s.w
  rqPipe : s'.rqPipe = s.rqPipe
  wakeupClosed : s'.wakeupClosed = s.wakeupClosed
  broken : s'.broken = s.broken
  killFlag : s'.killFlag = s.killFlag
  threadReg : s'.threadReg = s.threadReg
  oMgmt : s'.oMgmt = s.oMgmt
  leaky : s'.leaky = s.leaky

set_option maxHeartbeats 4000000 in
theorem fSum_step (s s' : St) (v : Variant) (h : SI s) (hs : stepF s v = some s') : FSum s s' := by
  have hq := qOk_of_si s h
  have hfc := hq.fc
  unfold stepF at hs
  crack
  all_goals constructor
  all_goals (first
    | rfl
    | (simp; done)
    | (exact fNext_q _ _ _ _ hq)
    | (have e := ‹s.fpc = FPc.send _›; rw [e] at hq; exact qOk_send _ _ _ _ _ hq)
    | (refine qOk_fpc _ _ _ _ _ _ hq ?_ ?_ ?_ ?_ <;> simp_all [fClose, fStop]; done)
    | (refine qOk_fpc _ _ _ _ _ _ hq ?_ ?_ ?_ ?_ <;> cases ‹CMsg› <;> simp_all [fClose, fStop]; done)
    | (simp [setFut]; done)
    | skip)

theorem si_stepF (s s' : St) (v : Variant) (h : SI s) (hl : ∀ q, s.leaky q = false) (hs : stepF s v = some s') :
    SI s' ∧ ∀ q, s'.leaky q = false := by
  have F := fSum_step s s' v h hs
  refine ⟨?_, by rw [F.leaky]; exact hl⟩
  have Q := F.q
  refine { mn := ?mn, br := ?br, kf := ?kf, wn := ?wn, pre := ?pre, rc := ?rc, cr := ?cr, je := ?je, api := ?api, fb := Q.fb,
           wc := ?wc, pe := ?pe, snap := ?snap, wb := ?wb, rb := ?rb, cp := Q.cp, fc := Q.fc, cl := Q.cl, late := ?late, tr := ?tr,
           nks := ?nks, nkc := ?nkc, nkp := ?nkp, fu := ?fu, tsn := ?tsn }
  all_goals try simp only [F.mpc, F.upc, F.ucur, F.uscript, F.procDict, F.allPids, F.cfg, F.w, F.rqPipe,
    F.wakeupClosed, F.broken, F.killFlag, F.threadReg, F.futs]
  case mn => exact h.mn
  case br => exact h.br
  case kf => exact h.kf
  case wn => exact h.wn
  case rc => exact h.rc
  case cr => intro hm; have := h.cr hm; have := F.wk; omega
  case je => exact h.je
  case api => exact h.api
  case wc => exact h.wc
  case pe => exact h.pe
  case snap => exact h.snap
  case wb => exact h.wb
  case rb => exact h.rb
  case late => exact Q.late
  case tr => exact h.tr
  case nks => exact h.nks
  case nkc => exact h.nkc
  case nkp => exact h.nkp
  case fu => exact h.fu
  case tsn => exact h.tsn
  case pre =>
    intro hf
    have P := h.pre hf
    refine { pd := ?pd, ns := ?ns, nb := Q.nb hf, np := Q.np hf, nr := ?nr, nf := Q.nf hf, full := ?full, le := ?le, mx := ?mx,
             lt := ?lt, ts := ?ts }
    all_goals try simp only [F.mpc, F.upc, F.procDict, F.allPids, F.cfg, F.w, F.rqPipe, F.oMgmt]
    case pd => exact P.pd
    case ns => exact P.ns
    case nr => exact P.nr
    case full => exact P.full
    case le => exact P.le
    case mx => exact P.mx
    case lt => exact P.lt
    case ts => exact P.ts

end LokyModel.Exec.StaticP
