import LokyModel.Lemmas.ExecPoolM
namespace LokyModel.Exec

theorem mKillNext_irrel (s : St) (pc : MPc) : mKillNext s = mKillNext { s with mpc := pc } := by
  unfold mKillNext; simp only []; (try split) <;> (try rfl)
theorem mJoinProcs_irrel (s : St) (pc : MPc) : mJoinProcs s = mJoinProcs { s with mpc := pc } := by
  unfold mJoinProcs; simp only []

theorem pool_spawn (s X : St) (h : PoolInv s) (hroom : s.procDict.length < s.cfg.maxWorkers) (hlt : ∀ p, p ∈ s.allPids → p < s.nextPid)
    (hm0 : mPop s.mpc = none)
    (hfr : X.w = upd s.w s.nextPid .start ∧ X.nextPid = s.nextPid + 1 ∧ X.allPids = s.allPids ++ [s.nextPid] ∧
           X.procDict = s.procDict ++ [s.nextPid] ∧ X.cfg = s.cfg) (hm : mPop X.mpc = none) : PoolInv X := by
  obtain ⟨f1, f2, f3, f4, f5⟩ := hfr
  have hnp : s.nextPid ∉ s.procDict := fun e => Nat.lt_irrefl _ (h.fresh _ e)
  constructor
  · intro q hq ha
    rw [f3] at hq; rw [f4]
    simp only [List.mem_append, List.mem_singleton] at hq ⊢
    rcases hq with hq | hq
    · have hne : q ≠ s.nextPid := Nat.ne_of_lt (hlt q hq)
      rw [f1, announced_upd, if_neg hne] at ha
      rcases h.pre q hq ha with e | e
      · left; left; exact e
      · rw [hm0] at e; cases e
    · left; right; exact hq
  · rw [f4]; exact List.nodup_append.mpr ⟨h.nd, by simp, by
      intro a ha b hb; simp at hb; subst hb; exact fun e => hnp (e ▸ ha)⟩
  · intro q hq; rw [hm] at hq; cases hq
  · rw [hm, f4, f5]; simp; exact hroom
  · intro q hq; rw [f4] at hq; rw [f2]
    simp only [List.mem_append, List.mem_singleton] at hq
    rcases hq with hq | hq
    · exact Nat.lt_succ_of_lt (h.fresh q hq)
    · rw [hq]; exact Nat.lt_succ_self _

theorem pool_erase (s X : St) (h : PoolInv s) (p : Pid) (hann : announced (s.w p) = true) (hm0 : mPop s.mpc = none)
    (hfr : X.w = s.w ∧ X.nextPid = s.nextPid ∧ X.allPids = s.allPids ∧ X.procDict = s.procDict.erase p ∧ X.cfg = s.cfg)
    (hm : mPop X.mpc = none) : PoolInv X := by
  obtain ⟨f1, f2, f3, f4, f5⟩ := hfr
  constructor
  · intro q hq ha
    rw [f3] at hq; rw [f1] at ha; rw [f4]
    rcases h.pre q hq ha with e | e
    · left
      have hne : q ≠ p := by intro e'; rw [e'] at ha; rw [hann] at ha; cases ha
      exact (List.mem_erase_of_ne hne).mpr e
    · rw [hm0] at e; cases e
  · rw [f4]; exact List.Nodup.erase p h.nd
  · intro q hq; rw [hm] at hq; cases hq
  · have := h.cnt; rw [hm0] at this; rw [hm, f4, f5]
    have hl : (s.procDict.erase p).length ≤ s.procDict.length := List.length_erase_le
    simp at this ⊢; omega
  · intro q hq; rw [f4] at hq; rw [f2]; exact h.fresh q (List.mem_of_mem_erase hq)

theorem pool_die (s X : St) (h : PoolInv s) (p : Pid)
    (hfr : X.w = upd s.w p .dead ∧ X.nextPid = s.nextPid ∧ X.allPids = s.allPids ∧ X.procDict = s.procDict ∧ X.cfg = s.cfg)
    (hm : mPop X.mpc = mPop s.mpc) : PoolInv X := by
  obtain ⟨f1, f2, f3, f4, f5⟩ := hfr
  constructor
  · intro q hq ha
    rw [f3] at hq; rw [f4, hm]
    rw [f1, announced_upd] at ha
    split at ha
    · simp [announced] at ha
    · exact h.pre q hq ha
  · rw [f4]; exact h.nd
  · rw [hm, f4]; exact h.popnot
  · rw [hm, f4, f5]; exact h.cnt
  · rw [f4, f2]; exact h.fresh

theorem pool_mAfterFlag (X : St) (h : PoolInv X) (hm : mPop X.mpc = none) : PoolInv (mAfterFlag X) := by
  unfold mAfterFlag
  split
  · refine pool_mKillNext _ ?_ ?_
    · exact pool_congr X _ h (by simp) (by simp [hm])
    · simpa using hm
  · split
    · exact pool_congr X _ h (by simp [mJoinStart]) (by rw [hm]; rfl)
    · exact pool_congr X _ h (by simp) (by simp [hm])

theorem pool_kill (s : St) (h : PoolInv s) (p : Pid) (hpc : s.mpc = .kill p) :
    PoolInv (die { s with mpc := .killJoin p } p (-9)) := by
  refine pool_die s _ h p ?_ ?_
  · simp
  · rw [hpc]; simp; rfl

end LokyModel.Exec
