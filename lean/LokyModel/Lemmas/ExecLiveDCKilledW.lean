import LokyModel.Lemmas.ExecLiveDCKilledBase
/-! `dcKilled` along the steps of a worker (crashes included) and of the feeder thread: they touch neither the flags, nor
    the registry, nor the manager; a dead worker stays dead. -/
namespace LokyModel.Exec

set_option maxHeartbeats 4000000 in
theorem dk_stepW (s s' : St) (p : Pid) (v : Variant) (h : DK s) (hs : stepW s p v = some s') : DK s' := by
  unfold stepW at hs
  crack
  all_goals (refine dk_same s _ h ?_ ?_ ?_ ?_ ?_ ?_)
  all_goals (first
    | rfl
    | (simp; done)
    | (intro q hq
       by_cases e : q = p
       · subst e; simp_all
       · simp [wAfterStart_w_other, wGet_w_other, wDispatch_w_other, wAfterResult_w_other, setW_w_other, die_w_other, e, hq]
         done))

set_option maxHeartbeats 4000000 in
theorem dk_stepF (s s' : St) (v : Variant) (h : DK s) (hs : stepF s v = some s') : DK s' := by
  unfold stepF at hs
  crack
  all_goals (refine dk_same s _ h ?_ ?_ ?_ ?_ ?_ ?_)
  all_goals (first
    | rfl
    | (simp; done)
    | (intro q hq; simpa using hq))

end LokyModel.Exec
