import LokyModel.ExecLiveDCDef
import LokyModel.Lemmas.ExecLiveTRecv
/-! `dcTRecv`, the worker's part: `tRecvOk` along the steps of a worker (crashes included) needs mutual exclusion on the call
    queue's read lock among the *listed* workers only; and the broken flag is raised by the manager only, never lowered. -/
namespace LokyModel.Exec

set_option linter.unusedSimpArgs false in
set_option maxHeartbeats 8000000 in
/-- `tRecvInv_stepW` with mutual exclusion on the read lock as a plain hypothesis about the listed workers -/
theorem tRecvInv_stepW' (s s' : St) (p : Pid) (v : Variant) (h : TRecvInv s)
    (hex : ∀ q ∈ s.allPids, inCqR (s.w q) = true → s.oCqRlock = some (.W q)) (hpm : p ∈ s.allPids)
    (hs : stepW s p v = some s') : TRecvInv s' := by
  unfold stepW at hs
  crack
  all_goals (
    intro q hq hw'
    by_cases e : q = p
    · subst e
      first
        | (simp [wAfterStart, wGet, wDispatch, wAfterResult, setW, die, upd] at hw'; done)
        | (simp [setW, die, upd] at hw' ⊢; assumption)
        | (exact absurd hw' (wGet_not_tRecv _ _))
        | (exact absurd hw' (wAfterStart_not_tRecv _ _))
        | (exact absurd hw' (wDispatch_not_tRecv _ _ _))
        | (exact absurd hw' (wAfterResult_not_tRecv _ _))
    · have hwq : s.w q = .tRecv := by
        simpa [wAfterStart_w_other, wGet_w_other, wDispatch_w_other, wAfterResult_w_other, setW_w_other, die_w_other, e]
          using hw'
      have hqm : q ∈ s.allPids := by simpa using hq
      have hne := h q hqm hwq
      first
        | (simpa using hne)
        | (exfalso
           have h1 := hex q hqm (by rw [hwq]; rfl)
           have h2 := hex p hpm (by simp [*, inCqR])
           rw [h1] at h2
           injection h2 with h2; injection h2 with h2; exact e h2))

/-! ### the broken flag: raised by the manager (`terminate_broken`), never lowered -/

set_option maxHeartbeats 4000000 in
theorem brk_stepW (s s' : St) (p : Pid) (v : Variant) (hs : stepW s p v = some s') : s'.broken = s.broken := by
  unfold stepW at hs
  crack
  all_goals (first | rfl | (simp; done))

set_option maxHeartbeats 4000000 in
theorem brk_stepF (s s' : St) (v : Variant) (hs : stepF s v = some s') : s'.broken = s.broken := by
  unfold stepF at hs
  crack
  all_goals (first | rfl | (simp; done))

set_option maxHeartbeats 8000000 in
theorem brk_stepU (s s' : St) (k : Nat) (v : Variant) (hs : stepU s k v = some s') : s'.broken = s.broken := by
  unfold stepU at hs
  crack
  all_goals (first | rfl | (simp; done))

set_option maxHeartbeats 8000000 in
theorem brk_stepM (s s' : St) (v : Variant) (hs : stepM s v = some s') :
    s'.broken = s.broken ∨ s'.broken.isSome = true := by
  unfold stepM at hs
  crack
  all_goals (first | (left; rfl) | (left; simp; done) | (right; rfl))

end LokyModel.Exec
