import LokyModel.Lemmas.ExecLiveWakeW
import LokyModel.Lemmas.ExecLiveWakeF
import LokyModel.Lemmas.ExecLiveWakeM2
import LokyModel.Lemmas.ExecLiveWakeU2
/-! # No lost wake-up (`wakeOk`), as an inductive invariant of M1 in the static-pool scope

`wakeOk` alone is not inductive.  The strengthening `wakeOk' s = wakeOk s && (wakeOk2 s && wakeX s)`
(`ExecLiveWakeDefs.lean`, executable) is: `wakeOk2` is `wakeOk` with a sharper notion of which user threads still owe a
wake-up, `wakeX` collects the small facts the step proofs need (no close sentinel in the pipe, mutual exclusion on the
shutdown lock in "who is inside is the recorded holder" form, `attrsDropped → shutdownFlag`, the manager thread is
started once and stays registered while it runs).  Per-actor step lemmas: `ExecLiveWake{W,F,M,M2,U,U2}.lean`. -/
namespace LokyModel.Exec
set_option linter.unusedVariables false

theorem wakeOk'_iff (s : St) : wakeOk' s = true ↔ WakeP s ∧ WX s := by
  unfold wakeOk'
  simp only [Bool.and_eq_true]
  constructor
  · intro ⟨_, h2, h3⟩
    exact ⟨(wakeOk2_iff s).1 h2, (wakeX_iff s).1 h3⟩
  · intro ⟨h2, h3⟩
    have := (wakeOk2_iff s).2 h2
    exact ⟨wakeOk_of_wakeOk2 s this, this, (wakeX_iff s).2 h3⟩

/-- the strengthened invariant implies the one asked for -/
theorem wakeOk_of_wakeOk' (s : St) (h : wakeOk' s = true) : wakeOk s = true := by
  unfold wakeOk' at h
  simp only [Bool.and_eq_true] at h
  exact h.1

theorem wakeOk'_init (cfg : Cfg) (hc : cfg.staticPool = true) : wakeOk' (init cfg) = true := by
  rw [wakeOk'_iff]
  refine ⟨wakeP_busy rfl, ?_⟩
  constructor <;> simp [init, inShutU', inShutM', inShutF', inSd]

theorem wakeOk_init (cfg : Cfg) (hc : cfg.staticPool = true) : wakeOk (init cfg) = true :=
  wakeOk_of_wakeOk' _ (wakeOk'_init cfg hc)

theorem wakeOk'_step {s s' : St} {a : Actor} {v : Variant} (hv : v ≠ .crash) (hs : step s a v = some s')
    (hp : PidsInv s) (hc : s.cfg.staticPool = true) (hst : staticOk s = true) (hsl : slotOk s = true)
    (hh : holderOk s = true) (h : wakeOk' s = true) : wakeOk' s' = true := by
  rw [wakeOk'_iff] at h ⊢
  obtain ⟨h1, h2⟩ := h
  unfold step at hs
  cases a with
  | U k =>
    simp only [] at hs
    split at hs
    · rename_i hk
      exact ⟨wakeP_stepU s s' k v hk hst h2 h1 hs, wx_stepU s s' k v hk h2 hh hs⟩
    · cases hs
  | M => exact ⟨wakeP_stepM s s' v hsl hst h2 h1 hs, wx_stepM s s' v h2 hh hs⟩
  | F => exact ⟨wakeP_stepF s s' v hst h1 hs, wx_stepF s s' v h2 hh hs⟩
  | W p =>
    simp only [] at hs
    split at hs
    · rename_i hpp
      exact ⟨wakeP_stepW s s' p v hv hc hpp h1 hs, wx_stepW s s' p v h2 hs⟩
    · cases hs

/-- in particular `wakeOk` holds after the step -/
theorem wakeOk_step' {s s' : St} {a : Actor} {v : Variant} (hv : v ≠ .crash) (hs : step s a v = some s')
    (hp : PidsInv s) (hc : s.cfg.staticPool = true) (hst : staticOk s = true) (hsl : slotOk s = true)
    (hh : holderOk s = true) (h : wakeOk' s = true) : wakeOk s' = true :=
  wakeOk_of_wakeOk' _ (wakeOk'_step hv hs hp hc hst hsl hh h)

end LokyModel.Exec
