import LokyModel.ExecLiveDyn
import LokyModel.Lemmas.ExecLiveWakeDefs
/-! Executable strengthening of `wakeOkD` (no lost wake-up for the manager's decision to leave, dynamic pools) that is
    inductive; proofs in `ExecLiveWakeD.lean`.  Import-light so that `Drivers/LiveCheckwakeOkD.lean` can evaluate it on
    random walks. -/
namespace LokyModel.Exec

/-- `is_shutting_down()` of an executor that is not broken -/
def shuttingDown (s : St) : Bool := s.globalShutdown || s.refs == 0 || s.shutdownFlag

/-- a wake-up is in the pipe, a message is in the result pipe, or a thread owes a wake-up -/
def wakeD (s : St) : Bool := decide (0 < s.wakeup) || !s.rqPipe.isEmpty || owesD s

/-- while the manager is inside `add_call_item_to_queue` (which ends at `wait` without another look at the flags),
    a shutdown that has begun is matched by a wake-up that has not been consumed -/
def addWakeD (s : St) : Bool :=
  match s.mpc with
  | .addAcq _ | .addTStart _ => !shuttingDown s || wakeD s
  | _ => true

/-- the manager starts the feeder thread only when there is none -/
def tstartFD (s : St) : Bool :=
  match s.mpc with
  | .addTStart _ => s.fpc == .none
  | _ => true

def wakeOkD' (s : St) : Bool := wakeOkD s && (addWakeD s && tstartFD s && wakeX s)

end LokyModel.Exec
