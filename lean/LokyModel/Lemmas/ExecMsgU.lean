import LokyModel.Lemmas.ExecMsgM2
namespace LokyModel.Exec

theorem goodW_mono (cfg : Cfg) (T : List Tid) (t : Tid) (pc : WPc) (h : goodW cfg T pc) : goodW cfg (T ++ [t]) pc := by
  cases pc <;> simp only [goodW] at h ⊢ <;> first | trivial | exact goodC_mono cfg T t _ h | exact goodR_mono cfg T t _ h
theorem goodF_mono (cfg : Cfg) (T : List Tid) (t : Tid) (pc : FPc) (h : goodF cfg T pc) : goodF cfg (T ++ [t]) pc := by
  cases pc <;> simp only [goodF] at h ⊢ <;> first | trivial | exact goodC_mono cfg T t _ h
theorem goodM_mono (cfg : Cfg) (T : List Tid) (t : Tid) (pc : MPc) (h : goodM cfg T pc) : goodM cfg (T ++ [t]) pc := by
  cases pc with
  | addAcq w => show w < (T ++ [t]).length; simp only [List.length_append, List.length_singleton]; exact Nat.lt_succ_of_lt h
  | addTStart w => show w < (T ++ [t]).length; simp only [List.length_append, List.length_singleton]; exact Nat.lt_succ_of_lt h
  | addAcqF w => show w < (T ++ [t]).length; simp only [List.length_append, List.length_singleton]; exact Nat.lt_succ_of_lt h
  | addTStartF w => show w < (T ++ [t]).length; simp only [List.length_append, List.length_singleton]; exact Nat.lt_succ_of_lt h
  | clrPoll k =>
    cases k with
    | item r =>
      cases r with
      | none => trivial
      | some r => exact ⟨goodR_mono cfg T t r h.1, h.2⟩
    | broken b => trivial
  | clrRecv k =>
    cases k with
    | item r =>
      cases r with
      | none => trivial
      | some r => exact ⟨goodR_mono cfg T t r h.1, h.2⟩
    | broken b => trivial
  | _ => trivial

/-- `submit` accepts -/
theorem msg_submit (s X : St) (h : MsgInv s) (hl : LenInv s) (ht : TokInv s) (t : Tid)
    (hfr : X.cfg = s.cfg ∧ X.taskOf = s.taskOf ++ [t] ∧ X.futs = s.futs ++ [.pending] ∧
           X.workIds = s.workIds ++ [s.queueCount] ∧ X.cqBuf = s.cqBuf ∧ X.cqPipe = s.cqPipe ∧ X.rqPipe = s.rqPipe ∧
           X.w = s.w ∧ X.mpc = s.mpc ∧ X.fpc = s.fpc) : MsgInv X := by
  obtain ⟨f1, f2, f3, f4, f5, f6, f7, f8, f9, f10⟩ := hfr
  have hq : s.taskOf.length = s.queueCount := by rw [← ht.len]; exact hl
  constructor
  · rw [f1, f2, f5]; intro m hm; exact goodC_mono _ _ _ _ (h.buf m hm)
  · rw [f1, f2, f6]; intro m hm; exact goodC_mono _ _ _ _ (h.pipe m hm)
  · rw [f1, f2, f7]; intro r hr; exact goodR_mono _ _ _ _ (h.rq r hr)
  · rw [f1, f2, f8]; intro p; exact goodW_mono _ _ _ _ (h.w p)
  · rw [f1, f2, f9]; exact goodM_mono _ _ _ _ h.m
  · rw [f1, f2, f10]; exact goodF_mono _ _ _ _ h.f
  · intro i hi
    rw [f4] at hi; rw [f2]
    simp only [List.mem_append, List.mem_singleton, List.length_append, List.length_singleton] at hi ⊢
    rcases hi with hi | hi
    · exact Nat.lt_succ_of_lt (h.wk i hi)
    · rw [hi, hq]; exact Nat.lt_succ_self _
  · intro i
    have hfo : futOf X i = if i = s.futs.length then .pending else futOf s i := by
      simp only [futOf, f3]; exact futOf_append _ _ _
    rw [hfo]
    by_cases e : i = s.futs.length
    · rw [if_pos e]; simp
    · rw [if_neg e]
      have hv := h.val i
      by_cases hlt : i < s.taskOf.length
      · have e2 : (s.taskOf ++ [t]).getD i 0 = s.taskOf.getD i 0 := by
          simp [List.getD_eq_getElem?_getD, List.getElem?_append_left hlt]
        simp only [specOf, f1, f2, e2] at hv ⊢
        exact hv
      · -- out of range: the future is PENDING
        have : futOf s i = .pending := futOf_ge s i (by unfold LenInv at hl; womega)
        rw [this]; simp

theorem msg_uDispatch (s : St) (k : Nat) (op : UOp) (h : MsgInv s) : MsgInv (uDispatch s k op) := by
  unfold uDispatch
  cases op with
  | cancel t =>
    simp only []
    split
    · rename_i w hw
      split
      · have hb := MsgInv.buf h; have hp := MsgInv.pipe h; have hr := MsgInv.rq h; have hw := MsgInv.w h
        have hm := MsgInv.m h; have hf := MsgInv.f h; have hk := MsgInv.wk h
        refine msg_move s _ h ?_ ?_ ?_ ?_ ?_ ?_ ?_ ?_ ?_
        · simp
        · intro x hx; simp at hx; simp_all
        · intro x hx; simp at hx; simp_all
        · intro x hx; simp at hx; simp_all
        · intro q; simp_all
        · simp_all
        · simp_all
        · intro i hi; simp at hi; simp_all
        · intro i
          have key : ∀ b : St, b.futs = (setFut s w .cancelled).futs → _ :=
            fun b hb => msg_val_setFut s h w .cancelled (by simp) (by simp) b hb i
          exact key _ (by simp [setFut])
      · msg_simple s, h
      · msg_simple s, h
    · msg_simple s, h
  | _ => simp only [] <;> (repeat' split) <;> (msg_simple s, h)

set_option maxHeartbeats 8000000 in
theorem msgInv_stepU (s s' : St) (k : Nat) (v : Variant) (h : MsgInv s) (hl : LenInv s) (ht : TokInv s)
    (hs : stepU s k v = some s') : MsgInv s' := by
  unfold stepU at hs
  crack_step
  all_goals (first
    | (msg_simple s, h; done)
    | (exact msg_uDispatch s k _ h)
    | (refine msg_submit s _ h hl ht ‹Tid› ?_; simp; done)
    | (refine msg_plus s _ h ?_ (Or.inr ⟨s.nextPid, .start, ?_, ?_⟩) ?_ ?_ ?_
       · simp [spawn]
       · simp [spawn]
       · trivial
       · intro m hm'; left; simpa [spawn] using hm'
       · simpa [spawn] using MsgInv.m h
       · simpa [spawn] using MsgInv.f h)
    | skip)

theorem msgInv_step {s s' : St} {a : Actor} {v : Variant} (h : MsgInv s) (hl : LenInv s) (ht : TokInv s)
    (hs : step s a v = some s') : MsgInv s' := by
  unfold step at hs
  cases a with
  | U k => simp only [] at hs; split at hs; exact msgInv_stepU s s' k v h hl ht hs; cases hs
  | M => exact msgInv_stepM s s' v h hs
  | F => exact msgInv_stepF s s' v h hs
  | W p => simp only [] at hs; split at hs; exact msgInv_stepW s s' p v h hs; cases hs

theorem msgInv_reachable {cfg : Cfg} {s : St} (h : Reachable cfg s) : MsgInv s := by
  induction h with
  | init => exact msgInv_init cfg
  | step hr hs ih => exact msgInv_step ih (lenInv_reachable hr) (tokInv_reachable hr) hs

end LokyModel.Exec
