import LokyModel.Lemmas.ExecLiveDeliverBase
/-! `RefP` across a user-thread step: a thread that appends a work id owes the manager a wake-up until it has written
    to the wake-up pipe. -/
namespace LokyModel.Exec
set_option linter.unusedSimpArgs false
set_option linter.unusedVariables false

/-- a thread lets go of its reference: the weak-reference callback runs, or the thread goes on with its script -/
theorem refP_uRelease (s s1 : St) (k : Nat) (h : RefP s)
    (hupc : s1.upc = s.upc) (hcfg : s1.cfg = s.cfg) (hwk : s.wakeup ≤ s1.wakeup) (hrq : s1.rqPipe = s.rqPipe)
    (hfpc : s1.fpc = s.fpc) (hsem : s1.cqSem = s.cqSem) (hall : s1.allPids = s.allPids)
    (hw : s1.w = s.w) (hmpc : s1.mpc = s.mpc) (hwi : s1.workIds = s.workIds)
    (hn : NeedR s → uOwes2 s (s.upc k) = false ∧
      (s1.attrsDropped = s.attrsDropped ∨ ∀ k', k' < s.cfg.scripts.length → k' ≠ k → ∀ w, s.upc k' ≠ .sdRel1 w)) :
    RefP (uRelease s1 k) := by
  refine refP_keep s _ k _ h (by rw [uRelease_eq, hupc]) (by simpa using hcfg) (by simpa using hwk) (by simpa using hrq)
    (by simpa using hfpc) (by simpa using hsem) (by simpa using hall) (by simpa using hw) (by simpa using hmpc)
    (by simpa using hwi) ?_
  intro n
  obtain ⟨n1, n2⟩ := hn n
  exact ⟨n1, by simpa using n2⟩

theorem refP_uDispatch (s : St) (k : Nat) (op : UOp) (hk : k < s.cfg.scripts.length) (h : RefP s)
    (hold : uOwes2 s (s.upc k) = false) : RefP (uDispatch s k op) := by
  unfold uDispatch
  (repeat' split)
  all_goals (first
    | (refine refP_uRelease s _ k h rfl rfl (Nat.le_refl _) rfl rfl rfl rfl rfl rfl rfl (fun _ => ⟨hold, .inl rfl⟩))
    | (refine refP_owes _ k hk ?_; intro _; simp [setU, upd, uOwes2, uOwes]; done)
    | (refine refP_keep s _ k ?_ h ?_ ?_ ?_ ?_ ?_ ?_ ?_ ?_ ?_ ?_ (fun _ => ⟨hold, .inl ?_⟩)
       all_goals (first
        | exact uNext_eq _ _
        | rfl
        | (simp; done)
        | skip)
       done)
    | skip)

set_option maxHeartbeats 8000000 in
theorem refP_stepU (s s' : St) (k : Nat) (v : Variant) (hk : k < s.cfg.scripts.length) (hst : staticOk s = true)
    (hx : WX s) (h : RefP s) (hs : stepU s k v = some s') : RefP s' := by
  have hwc := static_wc s hst
  have hmx := mutex_sdRel1 s hx k hk
  have hrg := hx.relG k hk
  unfold stepU at hs
  crack
  all_goals (first
    | (exact refP_uDispatch s k _ hk h (by simp [*, uOwes2, uOwes]))
    | (refine refP_busy ?_; simp; first | exact mIdle_of_ended s ‹_› | exact mIdle_of_ended s (hrg ‹_›))
    | (refine refP_busy ?_; simp [mIdle]; done)
    | (refine refP_owes _ k (by simpa using hk) ?_; intro _
       first | (simp [setU, upd, uOwes2, uOwes]; done) | exact uSpawnLoop_owes _ _ _)
    | (refine refP_wake _ ?_; intro _; simp; done)
    | (intro n; exfalso; have := hwc (needR_idle n); simp_all; done)
    | (refine refP_uRelease s _ k h rfl rfl (Nat.le_refl _) rfl rfl rfl rfl rfl rfl rfl ?_
       intro _
       refine ⟨by simp [*, uOwes2, uOwes], ?_⟩
       first | exact .inl rfl | exact .inr (hmx (by simp [*, inShutU'])))
    | (refine refP_keep s _ k ?_ h ?_ ?_ ?_ ?_ ?_ ?_ ?_ ?_ ?_ ?_ ?_
       all_goals (first
        | exact uNext_eq _ _
        | rfl
        | (simp; done)
        | (intro _; refine ⟨by simp [*, uOwes2, uOwes], .inl ?_⟩; first | rfl | (simp; done))
        | skip)
       done)
    | (by_cases hd : s.attrsDropped = true
       · refine refP_keep s _ k ?_ h ?_ ?_ ?_ ?_ ?_ ?_ ?_ ?_ ?_ ?_ ?_
         all_goals (first
          | rfl
          | exact Nat.le_refl _
          | (intro _; exact ⟨by simp [*, uOwes2, uOwes], .inl rfl⟩)
          | skip)
       · refine refP_owes _ k (by simpa using hk) ?_
         intro _
         simp [setU, upd, uOwes2, hd])
    | skip)

end LokyModel.Exec
