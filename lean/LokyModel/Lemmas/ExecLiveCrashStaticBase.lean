import LokyModel.Lemmas.ExecLiveStatic
import LokyModel.Lemmas.ExecLiveCrashDefs
import LokyModel.Lemmas.ExecNoBreakAll
import LokyModel.ExecLiveCrashStaticDef
/-! `staticC && smallOk` strengthened to an invariant of static pools whose workers may die (`staticSmallC'`): the
    invariant as a proposition, its equivalence with the executable form, the initial state. -/
namespace LokyModel.Exec.StaticCP
open StaticP
set_option linter.unusedSimpArgs false

/-! ### the invariant as a proposition -/

/-- what holds before the manager's final phase (the kill loop included) -/
structure PreC (s : St) : Prop where
  ns : ∀ p ∈ s.allPids, wStopL (s.w p) = false
  nb : ∀ m ∈ s.cqBuf, isStop m = false
  np : ∀ m ∈ s.cqPipe, isStop m = false
  nr : ∀ r ∈ s.rqPipe, isPidMsg r = false
  nf : fStop s.fpc = false

structure CI (s : St) : Prop where
  -- `staticC`
  mn : mNeverC s.mpc = false
  kf : s.killFlag = false
  wn : ∀ p ∈ s.allPids, wNever (s.w p) = false
  bu : s.broken ≠ some .unserialize
  bd : s.broken ≠ none → anyDead s = true
  md : mBrk s.mpc = true → anyDead s = true
  pd : mLateK s.mpc = false → s.procDict = s.allPids
  kj : ∀ p, s.mpc = .killJoin p → s.w p = .dead
  -- `smallOk`
  rc : s.mpc = .recv → s.rqPipe ≠ []
  cr : isClrRecv s.mpc = true → 0 < s.wakeup
  je : mEmptyL s.mpc = false
  api : ∀ k, k < s.cfg.scripts.length → s.upc k = .api → (s.ucur k).isSome = true
  fb : (s.fpc = .none ∨ s.fpc = .done) → s.cqBuf = []
  wc : s.wakeupClosed = true → mFinal s.mpc = true
  pe : ∀ k, k < s.cfg.scripts.length → peLike (s.upc k) = true → s.mpc ≠ .none
  -- `staticXC`
  snap : ∀ p ∈ snapOf s.mpc, p ∈ s.allPids
  wb : ∀ p ∈ s.allPids, wBadRes (s.w p) = false
  rb : ∀ r ∈ s.rqPipe, rBad r = false
  cp : ∀ m ∈ s.cqPipe, isClose m = false
  fc : fClose s.fpc = false
  cl : ∀ m ∈ s.cqBuf.dropLast, isClose m = false
  late : mLate s.mpc = false → (∀ m ∈ s.cqBuf, isClose m = false) ∧ s.fpc ≠ .done
  tr : s.threadReg = true → s.mpc ≠ .none
  nks : ∀ k, k < s.cfg.scripts.length → ∀ op ∈ s.uscript k, op.isKill = false
  nkc : ∀ k, k < s.cfg.scripts.length → ucurOk (s.ucur k) = true
  nkp : ∀ k, k < s.cfg.scripts.length → isSdKill (s.upc k) = false
  fu : s.mpc = .none → s.futs = [] ∨ ∃ k, k < s.cfg.scripts.length ∧ subEarly (s.upc k) = true
  ko : ∀ p, killOf s.mpc = some p → p ∈ s.allPids
  pre : mFinal s.mpc = false → PreC s

/-! ### Bool ↔ Prop -/

theorem sC_m1 (b : Option Broken) :
    staticC.match_1 (fun _ => Bool) b (fun _ => false) (fun _ => true) = (b != some .unserialize) := by
  cases b with
  | none => rfl
  | some x => cases x <;> rfl
theorem sC_m3 (m : MPc) (f : Pid → Bool) :
    (staticC.match_3 (fun _ => Bool) m (fun p => f p) (fun _ => true) = true) ↔ ∀ p, m = .killJoin p → f p = true := by
  cases m <;> simp
theorem sX_m1 (o : Option Pid) (f : Pid → Bool) :
    (staticXC.match_1 (fun _ => Bool) o (fun p => f p) (fun _ => true) = true) ↔ ∀ p, o = some p → f p = true := by
  cases o <;> simp
theorem sm_m1 (m : MPc) (b : Bool) : smallOk.match_1 (fun _ => Bool) m (fun _ => b) (fun _ => true) = (!isClrRecv m || b) := by
  cases m <;> simp [isClrRecv]
theorem sm_m4 (m : MPc) :
    smallOk.match_4 (fun _ => Bool) m (fun _ => false) (fun _ _ _ _ => false) (fun _ => true) = !mEmptyL m := by
  cases m with
  | jRelExit l n => cases l <;> rfl
  | jAlive l a b c d => cases l <;> rfl
  | _ => rfl

theorem bf_or {b : Bool} {P : Prop} (h : b = false ∨ P) (hb : b = true) : P := h.resolve_left (by simp [hb])
theorem bt_or {b : Bool} {P : Prop} (h : b = true ∨ P) (hb : b = false) : P := h.resolve_left (by simp [hb])
theorem or_bf {b : Bool} {P : Prop} (h : b = true → P) : b = false ∨ P := by
  cases b
  · left; rfl
  · right; exact h rfl
theorem or_bt {b : Bool} {P : Prop} (h : b = false → P) : b = true ∨ P := by
  cases b
  · right; exact h rfl
  · left; rfl
theorem or_np {Q P : Prop} [Decidable Q] (h : Q → P) : ¬ Q ∨ P := by
  by_cases q : Q
  · right; exact h q
  · left; exact q

theorem ci_of_bool (s : St) (h : staticSmallC' s = true) : CI s := by
  unfold staticSmallC' staticC smallOk staticXC usersOf at h
  simp only [sC_m1, sC_m3, sX_m1, sm_m1, sm_m4, match_peLike, Bool.and_eq_true, Bool.or_eq_true,
    Bool.not_eq_true', List.all_eq_true, List.any_eq_true, List.mem_range, bne_iff_ne, ne_eq, beq_iff_eq, decide_eq_true_eq,
    List.isEmpty_iff, Bool.not_eq_true, List.any_eq_false, Option.isNone_iff_eq_none, List.contains_iff_mem] at h
  obtain ⟨⟨⟨⟨⟨⟨⟨⟨⟨c1, c2⟩, c3⟩, c4⟩, c5⟩, c6⟩, c7⟩, c8⟩,
           ⟨⟨⟨⟨⟨⟨⟨d1, d2⟩, d3⟩, d4⟩, d5⟩, _d6⟩, d7⟩, d8⟩⟩,
          ⟨⟨⟨⟨⟨⟨⟨⟨⟨⟨⟨x1, x2⟩, x3⟩, x4⟩, x5⟩, x6⟩, x7⟩, x8⟩, x9⟩, x10⟩, x11⟩, x12⟩⟩ := h
  refine { mn := c1, kf := c2, wn := c3, bu := c4, bd := fun hb => c5.resolve_left hb, md := bf_or c6, pd := bt_or c7, kj := c8,
           rc := ?_, cr := bf_or d2, je := d3, api := fun k hk hm => (d4 k hk).resolve_left (by simp [hm]), fb := ?_,
           wc := bf_or d7, pe := fun k hk hm => bf_or (d8 k hk) hm,
           snap := x1, wb := x2, rb := x3, cp := x4, fc := x5, cl := x6, late := bt_or x7, tr := bf_or x8,
           nks := fun k hk => (x9 k hk).1.1, nkc := fun k hk => (x9 k hk).1.2, nkp := fun k hk => (x9 k hk).2,
           fu := fun hm => x10.resolve_left (by simp [hm]), ko := x11, pre := ?_ }
  · intro hm; have := d1.resolve_left (by simp [hm]); intro e; simp [e] at this
  · intro hf; refine d5.resolve_left ?_; rcases hf with e | e <;> simp [e]
  · intro hf
    obtain ⟨⟨⟨⟨p1, p2⟩, p3⟩, p4⟩, p5⟩ := bt_or x12 hf
    exact { ns := p1, nb := p2, np := p3, nr := p4, nf := p5 }

theorem bool_of_ci (s : St) (h : CI s) : staticSmallC' s = true := by
  unfold staticSmallC' staticC smallOk staticXC usersOf
  simp only [sC_m1, sC_m3, sX_m1, sm_m1, sm_m4, match_peLike, Bool.and_eq_true, Bool.or_eq_true,
    Bool.not_eq_true', List.all_eq_true, List.any_eq_true, List.mem_range, bne_iff_ne, ne_eq, beq_iff_eq, decide_eq_true_eq,
    List.isEmpty_iff, Bool.not_eq_true, List.any_eq_false, Option.isNone_iff_eq_none, List.contains_iff_mem]
  refine ⟨⟨⟨⟨⟨⟨⟨⟨⟨h.mn, h.kf⟩, h.wn⟩, h.bu⟩, ?c5⟩, or_bf h.md⟩, or_bt h.pd⟩, h.kj⟩,
           ⟨⟨⟨⟨⟨⟨⟨?d1, or_bf h.cr⟩, h.je⟩, fun k hk => or_np (h.api k hk)⟩, ?d5⟩, ?d6⟩, or_bf h.wc⟩, fun k hk => or_bf (h.pe k hk)⟩⟩,
          ⟨⟨⟨⟨⟨⟨⟨⟨⟨⟨⟨h.snap, h.wb⟩, h.rb⟩, h.cp⟩, h.fc⟩, h.cl⟩, or_bt h.late⟩, or_bf h.tr⟩,
            fun k hk => ⟨⟨h.nks k hk, h.nkc k hk⟩, h.nkp k hk⟩⟩, or_np h.fu⟩, h.ko⟩, ?x12⟩⟩
  case c5 =>
    by_cases hb : s.broken = none
    · left; exact hb
    · right; exact h.bd hb
  case d1 =>
    by_cases hm : s.mpc = .recv
    · right; have := h.rc hm; cases hq : s.rqPipe <;> simp_all
    · left; exact hm
  case d5 =>
    by_cases hf : (s.fpc = .none ∨ s.fpc = .done)
    · right; exact h.fb hf
    · left; simp_all
  case d6 =>
    by_cases hm : s.mpc = .none
    · right
      rcases h.fu hm with e | ⟨k, hk, he⟩
      · left; exact e
      · right; exact ⟨k, hk, subEarly_inShut _ he⟩
    · left; exact hm
  case x12 =>
    refine or_bt fun hf => ?_
    have p := h.pre hf
    exact ⟨⟨⟨⟨p.ns, p.nb⟩, p.np⟩, p.nr⟩, p.nf⟩

/-! ### initial state -/

theorem ci_init (cfg : Cfg) (hc : cfg.staticPool = true) : CI (init cfg) := by
  refine { mn := rfl, kf := rfl, wn := ?_, bu := ?_, bd := ?_, md := ?_, pd := ?_, kj := ?_, rc := ?_, cr := ?_, je := rfl,
           api := ?_, fb := ?_, wc := ?_, pe := ?_, snap := ?_, wb := ?_, rb := ?_, cp := ?_, fc := rfl, cl := ?_, late := ?_,
           tr := ?_, nks := ?_, nkc := ?_, nkp := ?_, fu := ?_, ko := ?_, pre := ?_ }
  all_goals try (simp [init, isClrRecv, peLike, snapOf, ucurOk, isSdKill, mBrk, killOf]; done)
  · intro k _; exact sp_script cfg hc k
  · intro _
    constructor <;> simp [init, fStop]

/-! ### small tools shared by the per-actor files -/

theorem mNeverC_of_mNever (m : MPc) (h : mNever m = false) : mNeverC m = false := by
  cases m with
  | clrPoll k => cases k with
    | broken b => simp [mNever] at h
    | item r => cases r with
      | none => rfl
      | some r => cases r <;> simp_all [mNever, mNeverC]
  | clrRecv k => cases k with
    | broken b => simp [mNever] at h
    | item r => cases r with
      | none => rfl
      | some r => cases r <;> simp_all [mNever, mNeverC]
  | _ => simp_all [mNever, mNeverC]

theorem anyDead_iff (s : St) : anyDead s = true ↔ ∃ p ∈ s.allPids, s.w p = .dead := by
  simp [anyDead]

theorem anyDead_mono (s s' : St) (hsub : ∀ p ∈ s.allPids, p ∈ s'.allPids) (hdd : ∀ q ∈ s.allPids, s.w q = .dead → s'.w q = .dead)
    (h : anyDead s = true) : anyDead s' = true := by
  rw [anyDead_iff] at h ⊢
  obtain ⟨p, hp, hd⟩ := h
  exact ⟨p, hsub p hp, hdd p hp hd⟩

theorem qOk_of_ci (s : St) (h : CI s) : QOk s.cqBuf s.cqPipe s.fpc (mLate s.mpc) (mFinal s.mpc) :=
  { fb := h.fb, cp := h.cp, fc := h.fc, cl := h.cl, late := h.late,
    nb := fun hf => (h.pre hf).nb, np := fun hf => (h.pre hf).np, nf := fun hf => (h.pre hf).nf }

end LokyModel.Exec.StaticCP
