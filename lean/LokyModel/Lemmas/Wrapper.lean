import LokyModel.Wrapper
/-! Specification vocabulary and helper lemmas for C16 (`Props/C16.lean`). -/
namespace LokyModel.Wrapper

/-- `f` applied `n` times -/
def iter {α : Type} (f : α → α) : Nat → α → α
  | 0, x => x
  | n + 1, x => iter f n (f x)

/-- number of layers with `keep_wrapper=True` -/
def keptLayers : Val → Nat
  | .raw _ => 0
  | .wrap _ keep v => (if keep then 1 else 0) + keptLayers v

/-- every layer has `keep_wrapper=True` -/
def allKeep : Val → Bool
  | .raw _ => true
  | .wrap _ keep v => keep && allKeep v

/-- the wrapper class of a layer has `__call__` exactly when what it wraps is callable — true of
everything `_wrap_non_picklable_objects` builds, and of class-wrapper instances when the class-level
test agrees with `callable(instance)` -/
def kindOk (k : WKind) (v : Val) : Prop := k.hasCall = isCallable v

/-- every layer of the stack is `kindOk` -/
def Regular : Val → Prop
  | .raw _ => True
  | .wrap k _ v => kindOk k v ∧ Regular v

/-- observable behaviour agrees: `callable()`, the result of calls (or `TypeError`), and reads of all
attributes that are neither type-level names nor `_obj` / `_keep_wrapper` -/
def SameBeh (v w : Val) : Prop :=
  isCallable v = isCallable w ∧ (∀ x, callV v x = callV w x) ∧
  (∀ a, reserved a = false → getattr v a = getattr w a)

theorem SameBeh.trans {u v w : Val} (h1 : SameBeh u v) (h2 : SameBeh v w) : SameBeh u w :=
  ⟨h1.1.trans h2.1, fun x => (h1.2.1 x).trans (h2.2.1 x), fun a ha => (h1.2.2 a ha).trans (h2.2.2 a ha)⟩

theorem callV_of_not_callable (v : Val) (h : isCallable v = false) (x : Nat) : callV v x = none := by
  cases v with
  | raw o => simp_all [callV, isCallable]
  | wrap k keep v => simp_all [callV, isCallable]

theorem isCallable_wrapNP (v : Val) (keep : Bool) : isCallable (wrapNP v keep) = isCallable v := by
  unfold wrapNP
  cases h : isCallable v <;> simp [isCallable, WKind.hasCall]

theorem regular_wrapNP (v : Val) (keep : Bool) (h : Regular v) : Regular (wrapNP v keep) := by
  refine ⟨?_, h⟩
  unfold kindOk
  cases h : isCallable v <;> simp [WKind.hasCall]

theorem trips_wrapNP_true (rt : Obj → Obj) (n : Nat) (v : Val) :
    trips rt n (wrapNP v true) = wrapNP (trips rt n v) true := by
  induction n generalizing v with
  | zero => rfl
  | succ n ih =>
    show trips rt n (trip rt (wrapNP v true)) = _
    have : trip rt (wrapNP v true) = wrapNP (trip rt v) true := rfl
    rw [this, ih]
    rfl

theorem depth_wrapNP (v : Val) (keep : Bool) : depth (wrapNP v keep) = depth v + 1 := rfl

theorem depth_trip (rt : Obj → Obj) (v : Val) : depth (trip rt v) = keptLayers v := by
  induction v with
  | raw o => rfl
  | wrap k keep v ih =>
    cases keep
    · simpa [trip, keptLayers] using ih
    · simp [trip, keptLayers, depth_wrapNP, ih, Nat.add_comm]

theorem keptLayers_trip (rt : Obj → Obj) (v : Val) : keptLayers (trip rt v) = keptLayers v := by
  induction v with
  | raw o => rfl
  | wrap k keep v ih =>
    cases keep
    · simpa [trip, keptLayers] using ih
    · simp [trip, keptLayers, wrapNP, ih]

theorem allKeep_trip (rt : Obj → Obj) (v : Val) : allKeep (trip rt v) = true := by
  induction v with
  | raw o => rfl
  | wrap k keep v ih =>
    cases keep
    · simpa [trip] using ih
    · simp [trip, wrapNP, allKeep, ih]

theorem core_wrapNP (v : Val) (keep : Bool) : core (wrapNP v keep) = core v := rfl

theorem core_trip (rt : Obj → Obj) (v : Val) : core (trip rt v) = rt (core v) := by
  induction v with
  | raw o => rfl
  | wrap k keep v ih =>
    cases keep
    · simpa [trip, core] using ih
    · simp [trip, core_wrapNP, core, ih]

theorem regular_trip (rt : Obj → Obj) (v : Val) : Regular (trip rt v) := by
  induction v with
  | raw o => trivial
  | wrap k keep v ih =>
    cases keep
    · simpa [trip] using ih
    · simpa [trip] using regular_wrapNP _ _ ih

theorem regular_trips_succ (rt : Obj → Obj) (n : Nat) (v : Val) : Regular (trips rt (n + 1) v) := by
  induction n generalizing v with
  | zero => exact regular_trip rt v
  | succ n ih => rw [trips]; exact ih _

/-- a regular stack of wrappers behaves like the object at its bottom -/
theorem sameBeh_core (v : Val) (hv : Regular v) : SameBeh v (.raw (core v)) := by
  induction v with
  | raw o => exact ⟨rfl, fun _ => rfl, fun _ _ => rfl⟩
  | wrap k keep v ih =>
    obtain ⟨hk, hr⟩ := hv
    have ih := ih hr
    unfold kindOk at hk
    refine ⟨?_, fun x => ?_, fun a ha => ?_⟩
    · show k.hasCall = _
      rw [hk]; exact ih.1
    · show (if k.hasCall then callV v x else none) = _
      cases hc : k.hasCall
      · rw [hk] at hc
        have h1 := callV_of_not_callable v hc x
        have h2 : callV v x = callV (.raw (core v)) x := ih.2.1 x
        simp only [Bool.false_eq_true, if_false]
        show none = callV (.raw (core v)) x
        rw [← h2, h1]
      · have h2 : callV v x = callV (.raw (core v)) x := ih.2.1 x
        simp only [if_true]
        exact h2
    · have : getattr (.wrap k keep v) a = getattr v a := by
        cases a <;> simp_all [reserved, typeLevel, getattr, ownLookup, refused]
      rw [this]
      exact ih.2.2 a ha

theorem sameBeh_raw_iter (rt : Obj → Obj) (hf : Faithful rt) (n : Nat) (o : Obj) :
    SameBeh (.raw (iter rt n o)) (.raw o) := by
  induction n generalizing o with
  | zero => exact ⟨rfl, fun _ => rfl, fun _ _ => rfl⟩
  | succ n ih =>
    refine (ih (rt o)).trans ?_
    obtain ⟨h1, h2, h3⟩ := hf o
    refine ⟨h1, fun x => ?_, fun a _ => ?_⟩
    · simp [callV, h1, h3]
    · simp [getattr, h2]

/-! ## histories on one wrapper object -/

/-- a state change keeps `callable(obj)` (in Python it is decided by the object's type) -/
def CallStable (f : Obj → Obj) : Prop := ∀ o, (f o).callable = o.callable

/-- every state change of the live object in the history is `CallStable` -/
def StableOps : List HOp → Prop
  | [] => True
  | .mutate f :: ops => CallStable f ∧ StableOps ops
  | _ :: ops => StableOps ops

theorem pickleNow_eq_trip (rt : Obj → Obj) (v : Val) : pickleNow rt v = trip rt v := by
  cases v with
  | raw o => rfl
  | wrap k keep v => cases keep <;> rfl

theorem core_mapCore (f : Obj → Obj) (v : Val) : core (mapCore f v) = f (core v) := by
  induction v with
  | raw o => rfl
  | wrap k keep v ih => simpa [mapCore, core] using ih

theorem keptLayers_mapCore (f : Obj → Obj) (v : Val) : keptLayers (mapCore f v) = keptLayers v := by
  induction v with
  | raw o => rfl
  | wrap k keep v ih => simp [mapCore, keptLayers, ih]

theorem mapCore_mapCore (f g : Obj → Obj) (v : Val) :
    mapCore g (mapCore f v) = mapCore (fun o => g (f o)) v := by
  induction v with
  | raw o => rfl
  | wrap k keep v ih => simp [mapCore, ih]

theorem mapCore_congr {f g : Obj → Obj} (h : ∀ o, f o = g o) (v : Val) : mapCore f v = mapCore g v := by
  have : f = g := funext h
  rw [this]

theorem mapCore_id (v : Val) : mapCore (fun o => o) v = v := by
  induction v with
  | raw o => rfl
  | wrap k keep v ih => simp [mapCore, ih]

theorem isCallable_mapCore (f : Obj → Obj) (hf : CallStable f) (v : Val) :
    isCallable (mapCore f v) = isCallable v := by
  cases v with
  | raw o => exact hf o
  | wrap k keep v => rfl

theorem regular_mapCore (f : Obj → Obj) (hf : CallStable f) (v : Val) (hv : Regular v) :
    Regular (mapCore f v) := by
  induction v with
  | raw o => trivial
  | wrap k keep v ih =>
    obtain ⟨hk, hr⟩ := hv
    refine ⟨?_, ih hr⟩
    unfold kindOk at *
    rw [hk, isCallable_mapCore f hf v]

theorem liveMut_callStable (ops : List HOp) (h : StableOps ops) : CallStable (liveMut ops) := by
  induction ops with
  | nil => exact fun _ => rfl
  | cons op ops ih =>
    cases op with
    | mutate f =>
      obtain ⟨hf, hr⟩ := h
      intro o
      show (liveMut ops (f o)).callable = o.callable
      rw [ih hr (f o), hf o]
    | pickle src => exact ih h
    | mutateCopy j f => exact ih h

theorem hstep_pickle_some (rt : Obj → Obj) (s : Session) (src : Option Nat) (v : Val)
    (h : srcVal s src = some v) : hstep rt s (.pickle src) = { s with got := s.got ++ [pickleNow rt v] } := by
  simp only [hstep, h]

theorem hstep_pickle_none (rt : Obj → Obj) (s : Session) (src : Option Nat)
    (h : srcVal s src = none) : hstep rt s (.pickle src) = s := by
  simp only [hstep, h]

theorem hrun_append (rt : Obj → Obj) (s : Session) (a b : List HOp) :
    hrun rt s (a ++ b) = hrun rt (hrun rt s a) b := by
  induction a generalizing s with
  | nil => rfl
  | cons op a ih => exact ih _

/-- picklings and changes of received copies never change the live wrapper: it is the initial one
with the object in the state the `mutate` events left it in -/
theorem hrun_live (rt : Obj → Obj) (s : Session) (ops : List HOp) :
    (hrun rt s ops).live = mapCore (liveMut ops) s.live := by
  induction ops generalizing s with
  | nil => exact (mapCore_id _).symm
  | cons op ops ih =>
    show (hrun rt (hstep rt s op) ops).live = _
    rw [ih]
    cases op with
    | mutate f => exact mapCore_mapCore f (liveMut ops) s.live
    | pickle src =>
      have : (hstep rt s (.pickle src)).live = s.live := by
        cases hv : srcVal s src with
        | none => rw [hstep_pickle_none rt s src hv]
        | some v => rw [hstep_pickle_some rt s src v hv]
      rw [this]; rfl
    | mutateCopy j f => rfl

theorem length_modifyAt (f : Val → Val) (j : Nat) (l : List Val) : (modifyAt f j l).length = l.length := by
  induction l generalizing j with
  | nil => cases j <;> rfl
  | cons x xs ih => cases j <;> simp [modifyAt, ih]

theorem getElem?_modifyAt_ne (f : Val → Val) (j k : Nat) (l : List Val) (h : j ≠ k) :
    (modifyAt f j l)[k]? = l[k]? := by
  induction l generalizing j k with
  | nil => cases j <;> rfl
  | cons x xs ih =>
    cases j with
    | zero =>
      cases k with
      | zero => exact absurd rfl h
      | succ k => rfl
    | succ j =>
      cases k with
      | zero => rfl
      | succ k =>
        simp only [modifyAt, List.getElem?_cons_succ]
        exact ih j k (fun e => h (by rw [e]))

/-- a copy already received is changed by nothing but a `mutateCopy` event aimed at it: neither by
changes of the original, nor by later picklings, nor by changes of other copies -/
theorem got_stable (rt : Obj → Obj) (s : Session) (ops : List HOp) (k : Nat) (hk : k < s.got.length)
    (h : ∀ j f, HOp.mutateCopy j f ∈ ops → j ≠ k) : (hrun rt s ops).got[k]? = s.got[k]? := by
  induction ops generalizing s with
  | nil => rfl
  | cons op ops ih =>
    have hrest : ∀ j f, HOp.mutateCopy j f ∈ ops → j ≠ k := fun j f hm => h j f (List.mem_cons_of_mem _ hm)
    show (hrun rt (hstep rt s op) ops).got[k]? = _
    cases op with
    | mutate f => exact ih _ hk hrest
    | pickle src =>
      cases hv : srcVal s src with
      | none => rw [hstep_pickle_none rt s src hv]; exact ih _ hk hrest
      | some v =>
        rw [hstep_pickle_some rt s src v hv, ih _ (by simp; omega) hrest]
        exact List.getElem?_append_left hk
    | mutateCopy j f =>
      rw [ih _ (by simpa [hstep, length_modifyAt] using hk) hrest]
      exact getElem?_modifyAt_ne _ j k _ (h j f List.mem_cons_self)

/-- what a pickling event delivers, whatever happens afterwards -/
theorem copy_general (rt : Obj → Obj) (s : Session) (src : Option Nat) (v : Val) (post : List HOp)
    (hv : srcVal s src = some v)
    (hpost : ∀ j f, HOp.mutateCopy j f ∈ post → j ≠ s.got.length) :
    (hrun rt s (.pickle src :: post)).got[s.got.length]? = some (trip rt v) := by
  show (hrun rt (hstep rt s (.pickle src)) post).got[s.got.length]? = _
  rw [hstep_pickle_some rt s src v hv, got_stable rt _ post s.got.length (by simp) hpost, pickleNow_eq_trip]
  simp

end LokyModel.Wrapper
