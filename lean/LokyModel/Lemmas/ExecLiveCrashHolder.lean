import LokyModel.Lemmas.ExecLiveCrashHolderWF
import LokyModel.Lemmas.ExecLiveCrashHolderM
import LokyModel.Lemmas.ExecLiveCrashHolderU
import LokyModel.Lemmas.ExecLiveCrashHolderExit
/-! `holderC` — lock holders of a static pool whose workers may die at any point at which they hold no kernel lock — is
    an inductive invariant of lock-free runs (`ReachableLF`) once strengthened to `holderC'`
    (`LokyModel/ExecLiveCrashHolderDef.lean`).  Pre-state facts used: `PidsInv s` and `staticC s` (no worker at a program
    counter of the idle time-out or of the error exits, `kill_workers` never requested, the manager never respawns). -/
namespace LokyModel.Exec

theorem holderC'_init (cfg : Cfg) (_hc : cfg.staticPool = true) : holderC' (init cfg) = true :=
  bool_of_holderInvC (holderInvC_init cfg) (exitInv_init cfg)

/-- the Prop form of the invariant over one step of a lock-free run -/
theorem holderInvC_stepLF {s s' : St} {a : Actor} {v : Variant} (hs : step s a v = some s') (hlf : StepLF s a v)
    (hp : PidsInv s) (hst : StaticCH s) (h : HolderInvC s) (hx : ExitInv s) : HolderInvC s' ∧ ExitInv s' := by
  unfold step at hs
  cases a with
  | U k =>
    simp only [] at hs; split at hs
    · exact ⟨holderInvC_stepU s s' k v (by assumption) hp h hs,
        exitInvC_stepU s s' k v (by assumption) hp h.mgmt hx hs⟩
    · cases hs
  | M =>
    exact ⟨holderInvC_stepM s s' v hp hst.kflag (relExitSafe_of_exitInv hx) h hs,
      exitInvC_stepM s s' v hp hst.mnever hx hs⟩
  | F => exact ⟨holderInvC_stepF s s' v h hs, exitInv_stepF s s' v hx hs⟩
  | W p =>
    simp only [] at hs; split at hs
    · rename_i hin
      refine ⟨holderInvC_stepW s s' p v ?_ (hst.wnever p hin) h hs, exitInv_stepW s s' p v hp hin hx hs⟩
      intro hv
      rcases hlf with hne | ⟨q, hq, hl⟩
      · exact absurd hv hne
      · cases hq; exact hl
    · cases hs

theorem holderC'_stepLF {s s' : St} {a : Actor} {v : Variant} (hs : step s a v = some s') (hlf : StepLF s a v)
    (_hc : s.cfg.staticPool = true) (hp : PidsInv s) (hst : staticC s = true) (h : holderC' s = true) :
    holderC' s' = true := by
  obtain ⟨hh, hx⟩ := holderInvC_of_bool hp h
  obtain ⟨hh', hx'⟩ := holderInvC_stepLF hs hlf hp (staticCH_of s hst) hh hx
  exact bool_of_holderInvC hh' hx'

theorem holderC_of' (s : St) (h : holderC' s = true) : holderC s = true := holderC_of_bool h

end LokyModel.Exec
