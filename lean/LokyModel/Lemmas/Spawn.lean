import LokyModel.Spawn
/-! helper lemmas for `Props/C18Spawn.lean` -/
namespace LokyModel.Spawn

theorem strictInc_of_pairwise : ∀ l : List Nat, l.Pairwise (· < ·) → strictInc l = true
  | [], _ => rfl
  | [_], _ => rfl
  | a :: b :: t, h => by
    have hab : a < b := (List.pairwise_cons.1 h).1 b (by simp)
    have ht := strictInc_of_pairwise (b :: t) (List.pairwise_cons.1 h).2
    simp [strictInc, hab, ht]

theorem pairwise_of_strictInc : ∀ l : List Nat, strictInc l = true → l.Pairwise (· < ·)
  | [], _ => List.Pairwise.nil
  | [_], _ => by simp
  | a :: b :: t, h => by
    simp only [strictInc, Bool.and_eq_true, decide_eq_true_eq] at h
    have ht := pairwise_of_strictInc (b :: t) h.2
    refine List.pairwise_cons.2 ⟨?_, ht⟩
    intro x hx
    rcases List.mem_cons.1 hx with rfl | hx
    · exact h.1
    · exact Nat.lt_trans h.1 ((List.pairwise_cons.1 ht).1 x hx)

theorem insertSorted_perm (a : Nat) : ∀ l : List Nat, (insertSorted a l).Perm (a :: l)
  | [] => List.Perm.refl _
  | b :: t => by
    unfold insertSorted
    split
    · exact List.Perm.refl _
    · exact ((insertSorted_perm a t).cons b).trans (List.Perm.swap a b t)

theorem passFds_perm : ∀ keep : List Nat, (passFds keep).Perm keep
  | [] => List.Perm.refl _
  | a :: t => by
    show (insertSorted a (passFds t)).Perm (a :: t)
    exact (insertSorted_perm a _).trans ((passFds_perm t).cons a)

theorem mem_passFds {a : Nat} {keep : List Nat} : a ∈ passFds keep ↔ a ∈ keep :=
  (passFds_perm keep).mem_iff

theorem insertSorted_sorted (a : Nat) : ∀ l : List Nat, l.Pairwise (· ≤ ·) →
    (insertSorted a l).Pairwise (· ≤ ·)
  | [], _ => by simp [insertSorted]
  | b :: t, h => by
    unfold insertSorted
    have hb := (List.pairwise_cons.1 h)
    split
    · rename_i hab
      refine List.pairwise_cons.2 ⟨?_, h⟩
      intro x hx
      rcases List.mem_cons.1 hx with rfl | hx
      · exact hab
      · exact Nat.le_trans hab (hb.1 x hx)
    · rename_i hab
      refine List.pairwise_cons.2 ⟨?_, insertSorted_sorted a t hb.2⟩
      intro x hx
      rcases List.mem_cons.1 ((insertSorted_perm a t).mem_iff.1 hx) with rfl | hx
      · omega
      · exact hb.1 x hx

theorem passFds_sorted : ∀ keep : List Nat, (passFds keep).Pairwise (· ≤ ·)
  | [] => List.Pairwise.nil
  | a :: t => insertSorted_sorted a _ (passFds_sorted t)

theorem passFds_strictInc_iff (keep : List Nat) : strictInc (passFds keep) = true ↔ keep.Nodup := by
  have hperm : (passFds keep).Perm keep := passFds_perm keep
  constructor
  · intro h
    have hp := pairwise_of_strictInc _ h
    have : (passFds keep).Nodup := hp.imp (by intro a b hab; exact Nat.ne_of_lt hab)
    exact hperm.nodup_iff.1 this
  · intro h
    have hnd : (passFds keep).Nodup := hperm.nodup_iff.2 h
    have hs := passFds_sorted keep
    apply strictInc_of_pairwise
    have := hs.and hnd
    exact this.imp (by intro a b hab; exact Nat.lt_of_le_of_ne hab.1 hab.2)

theorem lookup_map_val (parent : Env) (f : String → String → String) (k : String) :
    (parent.map (fun kv => (kv.1, f kv.1 kv.2))).lookup k = (parent.lookup k).map (f k) := by
  induction parent with
  | nil => rfl
  | cons kv t ih =>
    obtain ⟨a, v⟩ := kv
    by_cases h : k = a
    · subst h; simp [List.lookup]
    · have : (k == a) = false := by simpa using h
      simp [List.lookup, this, ih]

theorem lookup_filter_new (parent overlay : Env) (k : String) :
    (overlay.filter (fun kv => !parent.hasKey kv.1)).lookup k
      = if parent.hasKey k then none else overlay.lookup k := by
  induction overlay with
  | nil => simp [List.lookup]
  | cons kv t ih =>
    obtain ⟨a, v⟩ := kv
    by_cases hk : parent.hasKey a = true
    · by_cases h : k = a
      · subst h; simp [List.filter, hk, ih]
      · have : (k == a) = false := by simpa using h
        simp [List.filter, hk, ih, List.lookup, this]
    · have hk' : parent.hasKey a = false := by simpa using hk
      by_cases h : k = a
      · subst h; simp [List.filter, hk', List.lookup]
      · have : (k == a) = false := by simpa using h
        simp [List.filter, hk', List.lookup, this, ih]

theorem lookup_append' (l₁ l₂ : Env) (k : String) :
    (l₁ ++ l₂).lookup k = match l₁.lookup k with | some v => some v | none => l₂.lookup k := by
  induction l₁ with
  | nil => rfl
  | cons kv t ih =>
    obtain ⟨a, v⟩ := kv
    by_cases h : k = a
    · subst h; simp [List.lookup]
    · have : (k == a) = false := by simpa using h
      simp [List.lookup, this, ih]

theorem wTermSig_eq (s : Nat) : wTermSig s = s % 128 := by
  unfold wTermSig
  exact Nat.and_two_pow_sub_one_eq_mod s 7

theorem wExitStatus_eq (s : Nat) : wExitStatus s = s / 256 % 256 := by
  unfold wExitStatus
  rw [Nat.shiftRight_eq_div_pow]
  exact Nat.and_two_pow_sub_one_eq_mod (s / 2 ^ 8) 8

end LokyModel.Spawn
