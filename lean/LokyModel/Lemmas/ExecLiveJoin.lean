import LokyModel.Lemmas.ExecLiveJoinWFU
import LokyModel.Lemmas.ExecLiveJoinM
/-! `joinOk` (the final phase of the manager has enough stop sentinels), strengthened to the inductive `joinOk'`
    (`ExecLiveJoinBase.lean`): initial state and preservation by every step. -/
namespace LokyModel.Exec

theorem joinOk'_init (cfg : Cfg) : joinOk' (init cfg) = true := by
  simp [joinOk', joinOk, joinExtra, init, mFinal, mPre]

theorem joinOk_init (cfg : Cfg) (_hc : cfg.staticPool = true) : joinOk (init cfg) = true :=
  joinOk_of_joinOk' _ (joinOk'_init cfg)

theorem joinInv_step {s s' : St} {a : Actor} {v : Variant} (hs : step s a v = some s') (hp : PidsInv s)
    (hst : staticOk s = true) (hacc : ∀ k, s.upc k = .subPStart → s.shutdownFlag = false) (h : JoinInv s) :
    JoinInv s' := by
  unfold step at hs
  cases a with
  | U k => simp only [] at hs; split at hs; exact joinInv_stepU s s' k v h hacc hs; cases hs
  | M => exact joinInv_stepM s s' v h hst hs
  | F => exact joinInv_stepF s s' v h hs
  | W p => simp only [] at hs; split at hs; exact joinInv_stepW s s' p v h hp hst (by assumption) hs; cases hs

/-- `joinOk'` is inductive relative to `PidsInv`, `staticOk` and one fact about the shutdown lock
    (`ShutInv.acc` of `ExecShut.lean`: a `submit` that is spawning workers saw the shutdown flag down and still holds
    the shutdown lock).  Crash steps need not be excluded for this invariant. -/
theorem joinOk'_step {s s' : St} {a : Actor} {v : Variant} (_hv : v ≠ .crash) (hs : step s a v = some s')
    (hp : PidsInv s) (hst : staticOk s = true) (hacc : ∀ k, s.upc k = .subPStart → s.shutdownFlag = false)
    (h : joinOk' s = true) : joinOk' s' = true :=
  (joinOk'_iff s').2 (joinInv_step hs hp hst hacc ((joinOk'_iff s).1 h))

/-- what the deadlock-freedom argument uses -/
theorem joinOk_step' {s s' : St} {a : Actor} {v : Variant} (hv : v ≠ .crash) (hs : step s a v = some s')
    (hp : PidsInv s) (hst : staticOk s = true) (hacc : ∀ k, s.upc k = .subPStart → s.shutdownFlag = false)
    (h : joinOk' s = true) : joinOk s' = true :=
  joinOk_of_joinOk' _ (joinOk'_step hv hs hp hst hacc h)

end LokyModel.Exec
