import LokyModel.Lemmas.ExecLiveStaticBase
/-! `staticOk'`: steps of a user thread. -/
namespace LokyModel.Exec.StaticP
set_option linter.unusedSimpArgs false

/-- program counters at which the invariant says nothing special about the thread -/
def uNeutral (u : UPc) : Bool :=
  !inMgmtU' u && !spawning u && u != .subTStart && !peLike u && !isSdKill u && !subEarly u

theorem uNeutral_parts (u : UPc) (h : uNeutral u = true) :
    inMgmtU' u = false ∧ spawning u = false ∧ u ≠ .subTStart ∧ peLike u = false ∧ isSdKill u = false ∧ subEarly u = false := by
  simpa [uNeutral, and_assoc] using h

theorem setU_upc_self (s : St) (k : Nat) (pc : UPc) : (setU s k pc).upc k = pc := by simp [setU, upd]
theorem setU_upc_oth (s : St) (k j : Nat) (pc : UPc) (h : j ≠ k) : (setU s k pc).upc j = s.upc j := by simp [setU, upd, h]

theorem uNext_oth (s : St) (k j : Nat) (h : j ≠ k) :
    (uNext s k).upc j = s.upc j ∧ (uNext s k).ucur j = s.ucur j ∧ (uNext s k).uscript j = s.uscript j := by
  unfold uNext; split <;> simp [setU, upd, h]

theorem uNext_self (s : St) (k : Nat) (hs : ∀ op ∈ s.uscript k, op.isKill = false) :
    uNeutral ((uNext s k).upc k) = true ∧ ((uNext s k).upc k = .api → ((uNext s k).ucur k).isSome = true) ∧
    (∀ op ∈ (uNext s k).uscript k, op.isKill = false) ∧ ucurOk ((uNext s k).ucur k) = true := by
  unfold uNext; split
  · rename_i op rest e
    rw [e] at hs
    simp [setU, upd, uNeutral, inMgmtU', spawning, peLike, isSdKill, subEarly, ucurOk]
    exact ⟨fun x hx => hs x (List.mem_cons_of_mem _ hx), hs op (by simp)⟩
  · rename_i e
    simp [setU, upd, uNeutral, inMgmtU', spawning, peLike, isSdKill, subEarly, ucurOk, e]

theorem uRelease_oth (s : St) (k j : Nat) (h : j ≠ k) :
    (uRelease s k).upc j = s.upc j ∧ (uRelease s k).ucur j = s.ucur j ∧ (uRelease s k).uscript j = s.uscript j := by
  unfold uRelease; simp only []; split
  · simp [setU, upd, h]
  · exact uNext_oth _ k j h

theorem uRelease_self (s : St) (k : Nat) (hs : ∀ op ∈ s.uscript k, op.isKill = false) (hc : ucurOk (s.ucur k) = true) :
    uNeutral ((uRelease s k).upc k) = true ∧ ((uRelease s k).upc k = .api → ((uRelease s k).ucur k).isSome = true) ∧
    (∀ op ∈ (uRelease s k).uscript k, op.isKill = false) ∧ ucurOk ((uRelease s k).ucur k) = true := by
  unfold uRelease; simp only []; split
  · simp [setU, upd, uNeutral, inMgmtU', spawning, peLike, isSdKill, subEarly]
    exact ⟨hs, hc⟩
  · exact uNext_self _ k hs

theorem uSpawnLoop_oth (s : St) (k j : Nat) (h : j ≠ k) :
    (uSpawnLoop s k).upc j = s.upc j ∧ (uSpawnLoop s k).ucur j = s.ucur j ∧ (uSpawnLoop s k).uscript j = s.uscript j := by
  unfold uSpawnLoop; (repeat' split) <;> simp [setU, upd, h]

theorem uSpawnLoop_self (s : St) (k : Nat) :
    ((uSpawnLoop s k).upc k = .subExit ∧ s.procDict.length < s.cfg.maxWorkers) ∨
    ((uSpawnLoop s k).upc k = .subTStart ∧ ¬ s.procDict.length < s.cfg.maxWorkers ∧ s.mpc = .none) ∨
    ((uSpawnLoop s k).upc k = .subRelMgmt ∧ ¬ s.procDict.length < s.cfg.maxWorkers ∧ s.mpc ≠ .none) := by
  unfold uSpawnLoop; (repeat' split) <;> simp_all [setU, upd]

theorem uNext_pc (s : St) (k : Nat) :
    uNeutral ((uNext s k).upc k) = true ∧ ((uNext s k).upc k = .api → ((uNext s k).ucur k).isSome = true) := by
  unfold uNext; split <;> simp [setU, upd, uNeutral, inMgmtU', spawning, peLike, isSdKill, subEarly]

theorem uRelease_pc (s : St) (k : Nat) :
    uNeutral ((uRelease s k).upc k) = true ∧ ((uRelease s k).upc k = .api → ((uRelease s k).ucur k).isSome = true) := by
  unfold uRelease; simp only []; split
  · simp [setU, upd, uNeutral, inMgmtU', spawning, peLike, isSdKill, subEarly]
  · exact uNext_pc _ k

theorem uNext_sf (s : St) (k : Nat) :
    inMgmtU' ((uNext s k).upc k) = false ∧ spawning ((uNext s k).upc k) = false ∧ (uNext s k).upc k ≠ .subTStart ∧
    peLike ((uNext s k).upc k) = false ∧ isSdKill ((uNext s k).upc k) = false ∧ subEarly ((uNext s k).upc k) = false :=
  uNeutral_parts _ (uNext_pc s k).1

theorem uRelease_sf (s : St) (k : Nat) :
    inMgmtU' ((uRelease s k).upc k) = false ∧ spawning ((uRelease s k).upc k) = false ∧ (uRelease s k).upc k ≠ .subTStart ∧
    peLike ((uRelease s k).upc k) = false ∧ isSdKill ((uRelease s k).upc k) = false ∧
    subEarly ((uRelease s k).upc k) = false :=
  uNeutral_parts _ (uRelease_pc s k).1

theorem uSpawnLoop_sf (s : St) (k : Nat) :
    peLike ((uSpawnLoop s k).upc k) = false ∧ isSdKill ((uSpawnLoop s k).upc k) = false ∧
    (uSpawnLoop s k).upc k ≠ .api ∧ inMgmtU' ((uSpawnLoop s k).upc k) = true := by
  rcases uSpawnLoop_self s k with ⟨e, _⟩ | ⟨e, _⟩ | ⟨e, _⟩ <;> simp [e, peLike, isSdKill, inMgmtU']
theorem uSpawnLoop_early (s : St) (k : Nat) (h : (uSpawnLoop s k).mpc = .none) : subEarly ((uSpawnLoop s k).upc k) = true := by
  have hm : s.mpc = .none := by simpa using h
  rcases uSpawnLoop_self s k with ⟨e, _⟩ | ⟨e, _⟩ | ⟨e, _, e'⟩
  · simp [e, subEarly]
  · simp [e, subEarly]
  · exact absurd hm e'
theorem uSpawnLoop_ltk (s : St) (k : Nat) (h : spawning ((uSpawnLoop s k).upc k) = true) :
    s.procDict.length < s.cfg.maxWorkers := by
  rcases uSpawnLoop_self s k with ⟨e, e'⟩ | ⟨e, _⟩ | ⟨e, _⟩
  · exact e'
  · simp [e, spawning] at h
  · simp [e, spawning] at h
theorem uSpawnLoop_tsk (s : St) (k : Nat) (h : (uSpawnLoop s k).upc k = .subTStart) :
    ¬ s.procDict.length < s.cfg.maxWorkers ∧ s.mpc = .none := by
  rcases uSpawnLoop_self s k with ⟨e, e'⟩ | ⟨e, e'⟩ | ⟨e, _⟩
  · rw [e] at h; cases h
  · exact e'
  · rw [e] at h; cases h

/-- everything the invariant needs to know about a step of user thread `k` in a static pool -/
structure USum (s s' : St) (k : Nat) : Prop where
  broken : s'.broken = s.broken
  cqBuf : s'.cqBuf = s.cqBuf
  cqPipe : s'.cqPipe = s.cqPipe
  rqPipe : s'.rqPipe = s.rqPipe
  fpc : s'.fpc = s.fpc
  wakeupClosed : s'.wakeupClosed = s.wakeupClosed
  cfg : s'.cfg = s.cfg
  leaky : s'.leaky = s.leaky
  wk : s.wakeup ≤ s'.wakeup
  oth : ∀ j, j ≠ k → s'.upc j = s.upc j ∧ s'.ucur j = s.ucur j ∧ s'.uscript j = s.uscript j
  kf : s'.killFlag = false
  mpc : s'.mpc = s.mpc ∨ (s.mpc = .none ∧ s'.mpc = .start ∧ inMgmtU' (s.upc k) = true)
  tsn : s'.upc k = .subTStart → s'.mpc = .none
  tr : s'.threadReg = true → s'.mpc ≠ .none
  sp : (s'.allPids = s.allPids ∧ s'.procDict = s.procDict ∧ s'.w = s.w) ∨
       (inMgmtU' (s.upc k) = true ∧ s'.allPids = s.allPids ++ [s.nextPid] ∧ s'.procDict = s.procDict ++ [s.nextPid] ∧
        s'.w = upd s.w s.nextPid .start)
  api : s'.upc k = .api → (s'.ucur k).isSome = true
  pe : peLike (s'.upc k) = true → s'.mpc ≠ .none
  nks : ∀ op ∈ s'.uscript k, op.isKill = false
  nkc : ucurOk (s'.ucur k) = true
  nkp : isSdKill (s'.upc k) = false
  fu : s'.mpc = .none → (s'.futs = [] ∨ subEarly (s'.upc k) = true) ∨ (s.futs ≠ [] ∧ subEarly (s.upc k) = false)
  om : mFinal s.mpc = false →
    s'.oMgmt = s.oMgmt ∨ (s.oMgmt = none ∧ s'.oMgmt = some (.U k)) ∨ (s.oMgmt = some (.U k) ∧ s'.oMgmt = none)
  mxk : mFinal s.mpc = false → inMgmtU' (s'.upc k) = true → s'.oMgmt = some (.U k)
  ltk : mFinal s.mpc = false → spawning (s'.upc k) = true → s'.procDict.length < s.cfg.maxWorkers
  tsk : mFinal s.mpc = false → s'.upc k = .subTStart → s'.procDict.length = s.cfg.maxWorkers
  le : mFinal s.mpc = false → s'.procDict.length ≤ s.cfg.maxWorkers
  full : mFinal s.mpc = false → s'.mpc = .none ∨ s'.procDict.length = s.cfg.maxWorkers

theorem mgmt_free (s : St) (hh : holderOk s = true) (h : 0 < s.mgmt) : s.oMgmt = none := by
  unfold holderOk at hh
  simp only [Bool.and_eq_true] at hh
  obtain ⟨⟨_, h5⟩, _⟩ := hh
  cases ho : s.oMgmt with
  | none => rfl
  | some a =>
    rw [ho] at h5
    cases a <;> simp at h5 <;> omega

-- closes the fields of `USum` transition by transition; the hypotheses it names are set up by its two callers
set_option hygiene false in
macro "ubattery" : tactic => `(tactic| (
  all_goals constructor
  all_goals (first
    | rfl
    | (simp; done)
    | (intro j hj; simp [uNext_oth _ _ _ hj, uRelease_oth _ _ _ hj, uSpawnLoop_oth _ _ _ hj, setU, upd, hj]; done)
    | (exact (uNext_pc _ _).2)
    | (exact (uRelease_pc _ _).2)
    | (refine (uNext_self _ _ ?_).2.2.1; exact hnks)
    | (refine (uNext_self _ _ ?_).2.2.2; exact hnks)
    | (refine (uRelease_self _ _ ?_ ?_).2.2.1 <;> first | exact hnks | exact hnkc)
    | (refine (uRelease_self _ _ ?_ ?_).2.2.2 <;> first | exact hnks | exact hnkc)
    | (simp only [uNext_sf, uRelease_sf] <;> simp; done)
    | (simp [setU_upc_self, inMgmtU', spawning, peLike, isSdKill, subEarly, *]; done)
    | (simpa using htr)
    | (simpa using hnks)
    | (simpa using hnkc)
    | (simpa using hle)
    | (simpa using hfull)
    | (intro _; by_cases e : s.futs = [] <;> simp [e, subEarly, uNext_sf, uRelease_sf, setU_upc_self, *]; done)
    | (intro hf _; have h1 := hmx hf; simp [‹s.upc k = _›, inMgmtU'] at h1; simpa using h1)
    | (intro hf _; have h1 := hlt hf; simp [‹s.upc k = _›, spawning] at h1; simpa using h1)
    | (intro hf; simp only [uNext_sf, uRelease_sf] <;> simp; done)
    | (simp only [uSpawnLoop_sf] <;> simp; done)
    | (intro hm; left; right; exact uSpawnLoop_early _ _ hm)
    | (intro hf hsp; have := uSpawnLoop_ltk _ _ hsp; simpa using this)
    | (intro hf hsp; have h1 := (uSpawnLoop_tsk _ _ hsp).1; have h2 := hle hf; simp at h1; omega)
    | (intro hf hsp; have h1 := (uSpawnLoop_tsk _ _ hsp).1; have h2 := hlt hf; simp [‹s.upc k = _›, spawning] at h2
       simp [spawn] at h1 ⊢; omega)
    | (intro hsp; have := uSpawnLoop_tsk _ _ hsp; simp_all; done)
    | (intro hf; have h2 := hlt hf; simp [‹s.upc k = _›, spawning] at h2; simp [spawn]; omega)
    | (intro hf; have h2 := hlt hf; simp [‹s.upc k = _›, spawning] at h2; have h3 := hfull hf; left; simp
       rcases h3 with h3 | h3
       · exact h3
       · omega)
    | (intro hf; right; have h1 := hts hf; simp [‹s.upc k = _›] at h1; simpa using h1)
    | (intro hf; right; left; refine ⟨hfree ?_, ?_⟩ <;> first | assumption | (simp; done))
    | (intro hf; right; right; have h1 := hmx hf; simp [‹s.upc k = _›, inMgmtU'] at h1; refine ⟨h1, ?_⟩; simp; done)
    | (right; simp [*, inMgmtU', spawn]; done)
    | (cases ‹Bool› <;> simp_all [isSdKill]; done)
    | (intro _; by_cases e : s.futs = [] <;> simp [e, subEarly, uNext_sf, setFut, *]; done)
    | (simp only [setU_upc_self]; cases ‹Bool› <;> cases ‹Bool› <;> simp_all [isSdKill, UOp.isKill]; done)
    | skip)))

set_option maxHeartbeats 16000000 in
theorem uDispatch_sum (s : St) (k : Nat) (op : UOp) (h : SI s) (hh : holderOk s = true) (hk : k < s.cfg.scripts.length)
    (hpc : s.upc k = .api) (hcur : s.ucur k = some op) : USum s (uDispatch s k op) k := by
  have hkf := h.kf
  have hnks := h.nks k hk
  have hnkc := h.nkc k hk
  have hnkp := h.nkp k hk
  have hfree := mgmt_free s hh
  have hpe := h.pe k hk
  have htr := h.tr
  have hmx : mFinal s.mpc = false → inMgmtU' (s.upc k) = true → s.oMgmt = some (.U k) := fun hf => (h.pre hf).mx k hk
  have hlt : mFinal s.mpc = false → spawning (s.upc k) = true → s.procDict.length < s.cfg.maxWorkers :=
    fun hf => (h.pre hf).lt k hk
  have hts : mFinal s.mpc = false → s.upc k = .subTStart → s.procDict.length = s.cfg.maxWorkers := fun hf => (h.pre hf).ts k hk
  have hle : mFinal s.mpc = false → s.procDict.length ≤ s.cfg.maxWorkers := fun hf => (h.pre hf).le
  have hfull : mFinal s.mpc = false → s.mpc = .none ∨ s.procDict.length = s.cfg.maxWorkers := fun hf => (h.pre hf).full
  have htsn := h.tsn k hk
  have hop : op.isKill = false := by rw [hcur] at hnkc; simpa [ucurOk] using hnkc
  unfold uDispatch
  repeat' split
  ubattery

set_option maxHeartbeats 16000000 in
theorem uSum_step (s s' : St) (k : Nat) (v : Variant) (h : SI s) (hh : holderOk s = true) (hk : k < s.cfg.scripts.length)
    (hs : stepU s k v = some s') : USum s s' k := by
  have hkf := h.kf
  have hnks := h.nks k hk
  have hnkc := h.nkc k hk
  have hnkp := h.nkp k hk
  have hfree := mgmt_free s hh
  have hpe := h.pe k hk
  have htr := h.tr
  have hmx : mFinal s.mpc = false → inMgmtU' (s.upc k) = true → s.oMgmt = some (.U k) := fun hf => (h.pre hf).mx k hk
  have hlt : mFinal s.mpc = false → spawning (s.upc k) = true → s.procDict.length < s.cfg.maxWorkers :=
    fun hf => (h.pre hf).lt k hk
  have hts : mFinal s.mpc = false → s.upc k = .subTStart → s.procDict.length = s.cfg.maxWorkers := fun hf => (h.pre hf).ts k hk
  have hle : mFinal s.mpc = false → s.procDict.length ≤ s.cfg.maxWorkers := fun hf => (h.pre hf).le
  have hfull : mFinal s.mpc = false → s.mpc = .none ∨ s.procDict.length = s.cfg.maxWorkers := fun hf => (h.pre hf).full
  have htsn := h.tsn k hk
  unfold stepU at hs
  crack
  all_goals (first | (exact uDispatch_sum s k _ h hh hk ‹_› ‹_›) | skip)
  ubattery

theorem spawning_inMgmt (u : UPc) (h : spawning u = true) : inMgmtU' u = true := by
  cases u <;> simp_all [spawning, inMgmtU']

theorem si_stepU (s s' : St) (k : Nat) (v : Variant) (h : SI s) (hh : holderOk s = true) (hk : k < s.cfg.scripts.length)
    (hl : ∀ q, s.leaky q = false) (hs : stepU s k v = some s') : SI s' ∧ ∀ q, s'.leaky q = false := by
  have U := uSum_step s s' k v h hh hk hs
  refine ⟨?_, by rw [U.leaky]; exact hl⟩
  -- the two possible effects on the manager's program counter
  have hmpc : s'.mpc = s.mpc ∨ (s.mpc = .none ∧ s'.mpc = .start ∧ inMgmtU' (s.upc k) = true) := U.mpc
  have hfin : mFinal s'.mpc = false → mFinal s.mpc = false := by
    intro hf
    rcases hmpc with e | ⟨e, _, _⟩
    · rw [← e]; exact hf
    · rw [e]; rfl
  have hnone : s'.mpc = .none → s.mpc = .none := by
    intro hm
    rcases hmpc with e | ⟨_, e, _⟩
    · rw [← e]; exact hm
    · rw [e] at hm; cases hm
  -- two different threads are not both inside the management-lock section (before the final phase)
  have hex : mFinal s.mpc = false → ∀ j, j < s.cfg.scripts.length → j ≠ k → inMgmtU' (s.upc j) = true →
      inMgmtU' (s.upc k) = true → False := by
    intro hf j hj hjk h1 h2
    have P := h.pre hf
    have e1 := P.mx j hj h1
    have e2 := P.mx k hk h2
    rw [e1] at e2
    injection e2 with e2
    injection e2 with e2
    exact hjk e2
  have hsub : ∀ p ∈ s.allPids, p ∈ s'.allPids := by
    intro p hp
    rcases U.sp with ⟨e, _, _⟩ | ⟨_, e, _, _⟩
    · rw [e]; exact hp
    · rw [e]; exact List.mem_append.2 (.inl hp)
  have hall : ∀ (P : WPc → Bool), P .start = false → (∀ q ∈ s.allPids, P (s.w q) = false) →
      ∀ q ∈ s'.allPids, P (s'.w q) = false := by
    intro P h0 h1 q hq
    rcases U.sp with ⟨e1, _, e3⟩ | ⟨_, e1, _, e3⟩
    · rw [e3]; rw [e1] at hq; exact h1 q hq
    · rw [e3, upd_apply']
      split
      · exact h0
      · rename_i hne
        rw [e1] at hq
        rcases List.mem_append.1 hq with hq | hq
        · exact h1 q hq
        · exact absurd (by simpa using hq) hne
  have hcfg := U.cfg
  refine { mn := ?mn, br := ?br, kf := U.kf, wn := hall _ rfl h.wn, pre := ?pre, rc := ?rc, cr := ?cr, je := ?je, api := ?api,
           fb := ?fb, wc := ?wc, pe := ?pe, snap := ?snap, wb := hall _ rfl h.wb, rb := ?rb, cp := ?cp, fc := ?fc, cl := ?cl,
           late := ?late, tr := U.tr, nks := ?nks, nkc := ?nkc, nkp := ?nkp, fu := ?fu, tsn := ?tsn }
  all_goals try simp only [U.broken, U.cqBuf, U.cqPipe, U.rqPipe, U.fpc, U.wakeupClosed, U.cfg]
  case mn =>
    rcases hmpc with e | ⟨_, e, _⟩
    · rw [e]; exact h.mn
    · rw [e]; rfl
  case br => exact h.br
  case rc =>
    intro hm
    rcases hmpc with e | ⟨_, e, _⟩
    · rw [e] at hm; exact h.rc hm
    · rw [e] at hm; cases hm
  case cr =>
    intro hm
    rcases hmpc with e | ⟨_, e, _⟩
    · rw [e] at hm; have := h.cr hm; have := U.wk; omega
    · rw [e] at hm; cases hm
  case je =>
    rcases hmpc with e | ⟨_, e, _⟩
    · rw [e]; exact h.je
    · rw [e]; rfl
  case api =>
    intro j hj hm
    by_cases e : j = k
    · subst e; exact U.api hm
    · rw [(U.oth j e).1] at hm; rw [(U.oth j e).2.1]; exact h.api j hj hm
  case fb => exact h.fb
  case wc =>
    intro hw
    have := h.wc hw
    rcases hmpc with e | ⟨e, _, _⟩
    · rw [e]; exact this
    · rw [e] at this; cases this
  case pe =>
    intro j hj hm
    by_cases e : j = k
    · subst e; exact U.pe hm
    · rw [(U.oth j e).1] at hm
      have := h.pe j hj hm
      intro hm'
      exact this (hnone hm')
  case snap =>
    intro p hp
    rcases hmpc with e | ⟨_, e, _⟩
    · rw [e] at hp; exact hsub p (h.snap p hp)
    · rw [e] at hp; simp [snapOf] at hp
  case rb => exact h.rb
  case cp => exact h.cp
  case fc => exact h.fc
  case cl => exact h.cl
  case late =>
    intro hm
    apply h.late
    rcases hmpc with e | ⟨e, _, _⟩
    · rw [← e]; exact hm
    · rw [e]; rfl
  case nks =>
    intro j hj
    by_cases e : j = k
    · subst e; exact U.nks
    · rw [(U.oth j e).2.2]; exact h.nks j hj
  case nkc =>
    intro j hj
    by_cases e : j = k
    · subst e; exact U.nkc
    · rw [(U.oth j e).2.1]; exact h.nkc j hj
  case nkp =>
    intro j hj
    by_cases e : j = k
    · subst e; exact U.nkp
    · rw [(U.oth j e).1]; exact h.nkp j hj
  case fu =>
    intro hm
    have hm0 := hnone hm
    rcases U.fu hm with (e | e) | ⟨e1, e2⟩
    · left; exact e
    · right; exact ⟨k, hk, e⟩
    · rcases h.fu hm0 with e | ⟨j, hj, e⟩
      · exact absurd e e1
      · right
        have hjk : j ≠ k := by intro e'; subst e'; rw [e2] at e; cases e
        exact ⟨j, hj, by rw [(U.oth j hjk).1]; exact e⟩
  case tsn =>
    intro j hj hm
    by_cases e : j = k
    · subst e; exact U.tsn hm
    · rw [(U.oth j e).1] at hm
      have h0 := h.tsn j hj hm
      rcases hmpc with e' | ⟨e1, _, e3⟩
      · rw [e']; exact h0
      · exact absurd e3 (fun e3 => hex (by rw [e1]; rfl) j hj e (by rw [hm]; rfl) e3)
  case pre =>
    intro hf'
    have hf := hfin hf'
    have P := h.pre hf
    refine { pd := ?pd, ns := hall _ rfl P.ns, nb := ?nb, np := ?np, nr := ?nr, nf := ?nf, full := by rw [U.cfg]; exact U.full hf, le := by rw [U.cfg]; exact U.le hf,
             mx := ?mx, lt := ?lt, ts := ?ts }
    all_goals try simp only [U.cqBuf, U.cqPipe, U.rqPipe, U.fpc, U.cfg]
    case pd =>
      rcases U.sp with ⟨e1, e2, _⟩ | ⟨_, e1, e2, _⟩
      · rw [e1, e2]; exact P.pd
      · rw [e1, e2, P.pd]
    case nb => exact P.nb
    case np => exact P.np
    case nr => exact P.nr
    case nf => exact P.nf
    case mx =>
      intro j hj hm
      by_cases e : j = k
      · subst e; exact U.mxk hf hm
      · rw [(U.oth j e).1] at hm
        have e1 := P.mx j hj hm
        rcases U.om hf with e2 | ⟨e2, _⟩ | ⟨e2, _⟩
        · rw [e2]; exact e1
        · rw [e1] at e2; cases e2
        · rw [e1] at e2
          injection e2 with e2
          injection e2 with e2
          exact absurd e2 e
    case lt =>
      intro j hj hm
      by_cases e : j = k
      · subst e; exact U.ltk hf hm
      · rw [(U.oth j e).1] at hm
        have e1 := P.lt j hj hm
        rcases U.sp with ⟨_, e2, _⟩ | ⟨e3, _, _, _⟩
        · rw [e2]; exact e1
        · exact absurd e3 (fun e3 => hex hf j hj e (spawning_inMgmt _ hm) e3)
    case ts =>
      intro j hj hm
      by_cases e : j = k
      · subst e; exact U.tsk hf hm
      · rw [(U.oth j e).1] at hm
        have e1 := P.ts j hj hm
        rcases U.sp with ⟨_, e2, _⟩ | ⟨e3, _, _, _⟩
        · rw [e2]; exact e1
        · exact absurd e3 (fun e3 => hex hf j hj e (by rw [hm]; rfl) e3)

end LokyModel.Exec.StaticP
