import LokyModel.Lemmas.ExecLiveCrashStaticM
import LokyModel.Lemmas.ExecLiveCrashStaticU
import LokyModel.Lemmas.ExecLiveDynOkW
import LokyModel.Lemmas.ExecLiveDynOkM
import LokyModel.ExecLiveDCDef
/-! `dcSmall` (`LokyModel/ExecLiveDCDef.lean`) for dynamic pools whose workers may die: the invariant as a proposition, its
    equivalence with the executable form, the initial state.  The conjunct D6 (`TStartInv`: a thread about to start the
    manager thread has found that there is none) is an invariant of the older chain of lemmas (`tstartInv_step`), so it is
    kept out of the structure and added back when the executable form is rebuilt. -/
namespace LokyModel.Exec.DCSmallP
open StaticP StaticCP DynP
set_option linter.unusedSimpArgs false

/-! ### the invariant as a proposition -/

structure SmI (s : St) : Prop where
  -- `smallOk`
  rc : s.mpc = .recv → s.rqPipe ≠ []
  cr : isClrRecv s.mpc = true → 0 < s.wakeup
  je : mEmptyL s.mpc = false
  api : ∀ k, k < s.cfg.scripts.length → s.upc k = .api → (s.ucur k).isSome = true
  wc : s.wakeupClosed = true → mFinal s.mpc = true
  pe : ∀ k, k < s.cfg.scripts.length → peLike (s.upc k) = true → s.mpc ≠ .none
  -- D1
  wn : ∀ p ∈ s.allPids, wNeverD (s.w p) = false
  -- D2 (and the conjunct of `smallOk` on the feeder's buffer)
  q : QOk s.cqBuf s.cqPipe s.fpc (mLate s.mpc) true
  -- D3
  tr : s.threadReg = true → s.mpc ≠ .none
  -- D4
  kf : s.killFlag = false
  nks : ∀ k, k < s.cfg.scripts.length → ∀ op ∈ s.uscript k, op.isKill = false
  nkc : ∀ k, k < s.cfg.scripts.length → ucurOk (s.ucur k) = true
  nkp : ∀ k, k < s.cfg.scripts.length → isSdKill (s.upc k) = false
  -- D5
  fu : s.mpc = .none → s.futs = [] ∨ ∃ k, k < s.cfg.scripts.length ∧ subEarly (s.upc k) = true

/-- D6 restricted to the user threads that exist -/
def TsnU (s : St) : Prop := ∀ k, k < s.cfg.scripts.length → s.upc k = .subTStart → s.mpc = .none

/-! ### Bool ↔ Prop -/

theorem smI_of_bool (s : St) (h : dcSmall s = true) : SmI s ∧ TsnU s := by
  unfold dcSmall smallOk at h
  simp only [sm_m1, sm_m4, match_peLike, mem_usersOf, Bool.and_eq_true, Bool.or_eq_true,
    Bool.not_eq_true', List.all_eq_true, List.any_eq_true, bne_iff_ne, ne_eq, beq_iff_eq, decide_eq_true_eq,
    List.isEmpty_iff, Bool.not_eq_true, List.any_eq_false, Option.isNone_iff_eq_none] at h
  obtain ⟨⟨⟨⟨⟨⟨⟨⟨⟨⟨⟨⟨⟨⟨⟨⟨⟨d1, d2⟩, d3⟩, d4⟩, d5⟩, _d6⟩, d7⟩, d8⟩, w1⟩, q0⟩, q1⟩, q2⟩, q3⟩, t1⟩, k1⟩, k2⟩, f1⟩, ts⟩ := h
  refine ⟨{ rc := ?_, cr := bf_or d2, je := d3, api := fun k hk hm => (d4 k hk).resolve_left (by simp [hm]),
            wc := bf_or d7, pe := fun k hk hm => bf_or (d8 k hk) hm, wn := w1, q := ?_, tr := bf_or t1, kf := k1,
            nks := fun k hk => (k2 k hk).1.1, nkc := fun k hk => (k2 k hk).1.2, nkp := fun k hk => (k2 k hk).2,
            fu := fun hm => f1.resolve_left (by simp [hm]) }, ?_⟩
  · intro hm; have := d1.resolve_left (by simp [hm]); intro e; simp [e] at this
  · rw [qOk_iff]
    refine ⟨?_, q0, q1, q2, ?_⟩
    · intro hf; refine d5.resolve_left ?_; rcases hf with e | e <;> simp [e]
    · intro hm; exact q3.resolve_left (by simp [hm])
  · intro k hk hm; exact (ts k hk).resolve_left (by simp [hm])

theorem bool_of_smI (s : St) (h : SmI s) (ht : TsnU s) : dcSmall s = true := by
  unfold dcSmall smallOk
  simp only [sm_m1, sm_m4, match_peLike, mem_usersOf, Bool.and_eq_true, Bool.or_eq_true,
    Bool.not_eq_true', List.all_eq_true, List.any_eq_true, bne_iff_ne, ne_eq, beq_iff_eq, decide_eq_true_eq,
    List.isEmpty_iff, Bool.not_eq_true, List.any_eq_false, Option.isNone_iff_eq_none]
  have Q := (qOk_iff _ _ _ _).1 h.q
  refine ⟨⟨⟨⟨⟨⟨⟨⟨⟨⟨⟨⟨⟨⟨⟨⟨⟨?d1, or_bf h.cr⟩, h.je⟩, fun k hk => or_np (h.api k hk)⟩, ?d5⟩, ?d6⟩, or_bf h.wc⟩,
    fun k hk => or_bf (h.pe k hk)⟩, h.wn⟩, Q.2.1⟩, Q.2.2.1⟩, Q.2.2.2.1⟩, or_bt Q.2.2.2.2⟩, or_bf h.tr⟩, h.kf⟩,
    fun k hk => ⟨⟨h.nks k hk, h.nkc k hk⟩, h.nkp k hk⟩⟩, or_np h.fu⟩, fun k hk => or_np (ht k hk)⟩
  case d1 =>
    by_cases hm : s.mpc = .recv
    · right; have := h.rc hm; cases hq : s.rqPipe <;> simp_all
    · left; exact hm
  case d5 =>
    by_cases hf : (s.fpc = .none ∨ s.fpc = .done)
    · right; exact Q.1 hf
    · left; simp_all
  case d6 =>
    by_cases hm : s.mpc = .none
    · right
      rcases h.fu hm with e | ⟨k, hk, he⟩
      · left; exact e
      · right; exact ⟨k, hk, subEarly_inShut _ he⟩
    · left; exact hm

/-! ### initial state -/

theorem smI_init (cfg : Cfg) (hc : cfg.dynPool = true) : SmI (init cfg) := by
  refine { rc := ?_, cr := ?_, je := rfl, api := ?_, wc := ?_, pe := ?_, wn := ?_, q := ?_, tr := ?_, kf := rfl,
           nks := ?_, nkc := ?_, nkp := ?_, fu := ?_ }
  all_goals try (simp [init, isClrRecv, peLike, ucurOk, isSdKill]; done)
  · rw [qOk_iff]; simp [init, fClose, mLate]
  · intro k _ op hop
    have := dp_script cfg hc k op hop
    simp only [opOkD, Bool.and_eq_true, Bool.not_eq_true'] at this
    exact this.1

theorem tsnU_init (cfg : Cfg) : TsnU (init cfg) := by
  intro k _ _; rfl

end LokyModel.Exec.DCSmallP
