import LokyModel.Lemmas.ExecShut
namespace LokyModel.Exec

set_option maxHeartbeats 8000000 in
theorem shutInv_stepM (s s' : St) (v : Variant) (h : ShutInv s) (hs : stepM s v = some s') : ShutInv s' := by
  obtain ⟨hv, hu, hm, hf, ha, hfl⟩ := h
  have hle : s.shut ≤ 1 := by rw [hv]; split <;> omega
  unfold stepM at hs
  crack_step
  all_goals (refine ⟨?_, ?_, ?_, ?_, ?_, ?_⟩)
  all_goals (first
    | (simp_all; done)
    | (intro k hk; have h1 := hu k; simp_all; done)
    | (simp_all [inShutM, inShutU, inShutF, mFlagged]; done)
    | (intro k hk; have h1 := hu k; simp_all [inShutM, inShutU, inShutF]; done)
    | (intro k hk; have h1 := hu k (accU_inShutU _ hk); have h2 := ha k hk; simp_all [inShutM, inShutU, inShutF, mFlagged]; done)
    | (simp_all; omega)
    | (intro hk; have h1 := hf hk; simp_all; done)
    | (intro hk; have h1 := hm hk; simp_all; done)
    | skip)


end LokyModel.Exec
