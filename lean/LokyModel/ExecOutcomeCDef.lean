import LokyModel.ExecOutcomeDef
import LokyModel.ExecLiveCrash
/-!
# Outcomes of futures on a pool whose workers may die: what property C02 allows, and the executable invariant behind it

`expectedFutC` is `expectedFut` (the outcome of the future's own task, or the cancellation) plus the two pool errors that
`terminate_broken` assigns to every future that is not resolved when the pool breaks (`TerminatedWorkerError` for an
unannounced death, `BrokenProcessPool` otherwise).  `outOkCB` is the executable (Bool) shadow of the crash-aware
invariant `OutInvC` of `Lemmas/ExecOutcomeC*.lean`: `OutInv` with its clause about futures weakened to "a pool error is on
a future only if the pool is flagged broken"; every clause about call items, workers, the feeder and the kill flag is
kept as it is — none of them depends on whether the pool is broken.

Import-free apart from model files, so that `Drivers/LiveCheckOutcomeC.lean` can evaluate everything on random walks.
-/
namespace LokyModel.Exec
open StaticP

/-- the errors that `terminate_broken` puts on the futures that were not resolved when the pool broke -/
def Fut.poolErr : Fut → Bool
  | .excTerminated | .excBroken => true
  | _ => false

/-- **what C02 allows** for a resolved future of work id `i`, submitted for a task of specification `sp`, when workers may
    die: what is allowed on a healthy pool (`expectedFut`: its own value / its own exception / the feeder's pickling error /
    cancelled), or the error of the broken pool.  Never `ShutdownExecutorError` (no script forces a shutdown), never the
    outcome of a task of another kind. -/
def expectedFutC (sp : TaskSpec) (i : Wid) (f : Fut) : Bool :=
  expectedFut sp i f || f == .excTerminated || f == .excBroken

/-- `futArgOk` with the pool errors allowed exactly when the pool is flagged broken (`brk`) -/
def futArgOkC (cfg : Cfg) (T : List Tid) (cancelOk : List Wid) (brk : Bool) (i : Wid) : Fut → Bool
  | .excBroken | .excTerminated => brk
  | f => futArgOk cfg T cancelOk i f

def isBrkRel : MPc → Bool
  | .brkRel _ => true
  | _ => false

def outOkCB (s : St) : Bool :=
  (List.range s.futs.length).all (fun i => futArgOkC s.cfg s.taskOf s.cancelOk s.broken.isSome i (futOf s i)) &&
  -- the manager fails the futures (`brkRel`) only after it has flagged the pool (`brkAcq`)
  (!isBrkRel s.mpc || s.broken.isSome) &&
  !s.killFlag &&
  ((List.range s.cfg.scripts.length).all fun k =>
     (s.uscript k).all (fun op => !op.isKill) && ucurOk (s.ucur k) && !isSdKill (s.upc k)) &&
  s.cqPipe.all (cArgOk s.cfg) &&
  s.allPids.all (fun p => wArgOk s.cfg (s.w p)) &&
  fArgOk s.cfg s.taskOf s.fpc &&
  s.execW.all (fun i => decide (i < s.taskOf.length) && argOfW s.cfg s.taskOf i == .ok)

/-- the statement of `C02_static_pool_crash_outcomes` (its outcome clause, in every state), executable:
    a resolved future holds what `expectedFutC` allows; while the pool is not flagged broken, what `expectedFut` allows -/
def ownOutcomesC (s : St) : Bool :=
  (List.range s.futs.length).all fun i =>
    !(futOf s i).done ||
      (expectedFutC (specOf s (s.taskOf.getD i 0)) i (futOf s i) &&
       (s.broken.isSome || expectedFut (specOf s (s.taskOf.getD i 0)) i (futOf s i)))

/-- a pool error is on a future only if the pool is flagged broken, and then a worker has died -/
def poolErrOk (s : St) : Bool :=
  (List.range s.futs.length).all fun i => !(futOf s i).poolErr || (s.broken.isSome && anyDead s)

end LokyModel.Exec
