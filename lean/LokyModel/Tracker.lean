/-!
# M3 — the resource tracker's main loop (`loky/backend/resource_tracker.py`, `main(fd)`)

Import-free, total, executable transcription of the server loop as it exists:

```
registry = {rtype: {} for rtype in _CLEANUP_FUNCS.keys()}          # folder, file, semlock
with open(fd, "rb") as f:
    while True:
        line = f.readline()
        if line == b"": break
        try:
            splitted = line.strip().decode("ascii").split(":")
            if len(splitted) < 3: raise ValueError
            cmd, name, rtype = splitted[0], ":".join(splitted[1:-1]), splitted[-1]
            if cmd == "PROBE": continue
            if rtype not in _CLEANUP_FUNCS: raise ValueError
            if cmd == "REGISTER":   registry[rtype][name] = 1  /  += 1
            elif cmd == "UNREGISTER": del registry[rtype][name]
            elif cmd == "MAYBE_UNLINK":
                registry[rtype][name] -= 1
                if registry[rtype][name] == 0:
                    del registry[rtype][name]
                    try: _CLEANUP_FUNCS[rtype](name)
                    except Exception as e: warnings.warn(...)
            else: raise RuntimeError
        except BaseException: sys.excepthook(...)                   # reported, loop goes on
finally:   # sweep: every kind but "folder" in table order, then "folder"
```

External inputs are explicit parameters: the byte stream and the behaviour of the clean-up
functions (`Env`: returns normally / raises an `Exception` / raises a bare `BaseException`).
Effects are an output list of `Event`s per line.  `verbose = 0` (no logging), warnings are not
configured to raise.  A decoded ASCII string is represented by its bytes.
-/
namespace LokyModel.Tracker

abbrev Bytes := List UInt8
/-- a decoded name: ASCII text, represented by its code points -/
abbrev Name := List UInt8

/-- keys of `_CLEANUP_FUNCS` on POSIX -/
inductive Kind where
  | folder | file | semlock
  deriving DecidableEq, Repr

inductive Cmd where
  | register | unregister | maybeUnlink
  deriving DecidableEq, Repr

/-- what reaches `sys.excepthook` through the per-line barrier -/
inductive Err where
  | decode        -- UnicodeDecodeError: a byte ≥ 0x80 in the stripped line
  | malformed     -- ValueError: fewer than three ':'-separated fields
  | unknownType   -- ValueError: last field is not a key of _CLEANUP_FUNCS
  | unknownCmd    -- RuntimeError: first field is not a command
  | key           -- KeyError: UNREGISTER / MAYBE_UNLINK of a name that is not in the registry
  | base          -- a bare BaseException raised by the clean-up function itself
  deriving DecidableEq, Repr

/-- what a clean-up function does when called (external input) -/
inductive Outcome where
  | ok | exc | baseExc
  deriving DecidableEq, Repr

abbrev Env := Kind → Name → Outcome

inductive Event where
  | clean (k : Kind) (n : Name)     -- `_CLEANUP_FUNCS[k](n)` was invoked
  | warnCleanup                     -- `warnings.warn("resource_tracker: name: exc")`
  | leak (k : Kind) (n : Nat)       -- `warnings.warn("There appear to be n leaked k objects")`
  | error (e : Err)                 -- `sys.excepthook(...)` called by the barrier
  deriving DecidableEq, Repr

/-! ## byte strings of the protocol -/

def colon : UInt8 := 58
def newline : UInt8 := 10

def bREGISTER : Bytes := [82, 69, 71, 73, 83, 84, 69, 82]
def bUNREGISTER : Bytes := [85, 78, 82, 69, 71, 73, 83, 84, 69, 82]
def bMAYBE_UNLINK : Bytes := [77, 65, 89, 66, 69, 95, 85, 78, 76, 73, 78, 75]
def bPROBE : Bytes := [80, 82, 79, 66, 69]
def bFolder : Bytes := [102, 111, 108, 100, 101, 114]
def bFile : Bytes := [102, 105, 108, 101]
def bSemlock : Bytes := [115, 101, 109, 108, 111, 99, 107]

def Kind.bytes : Kind → Bytes
  | .folder => bFolder | .file => bFile | .semlock => bSemlock

def Cmd.bytes : Cmd → Bytes
  | .register => bREGISTER | .unregister => bUNREGISTER | .maybeUnlink => bMAYBE_UNLINK

/-- `rtype in _CLEANUP_FUNCS` -/
def kindOf (s : Bytes) : Option Kind :=
  if s = bFolder then some .folder
  else if s = bFile then some .file
  else if s = bSemlock then some .semlock
  else none

def cmdOf (s : Bytes) : Option Cmd :=
  if s = bREGISTER then some .register
  else if s = bUNREGISTER then some .unregister
  else if s = bMAYBE_UNLINK then some .maybeUnlink
  else none

/-- client side (`ResourceTracker._send`): the text `f"{cmd}:{name}:{rtype}"` of a request -/
def wire (c : Cmd) (n : Name) (k : Kind) : Bytes := c.bytes ++ colon :: (n ++ colon :: k.bytes)

/-! ## `line.strip().decode("ascii").split(":")` -/

/-- ASCII whitespace removed by `bytes.strip()`: space, \t \n \v \f \r -/
def isSpace (b : UInt8) : Bool := b == 32 || (9 ≤ b && b ≤ 13)

def lstrip (s : Bytes) : Bytes := s.dropWhile isSpace
def rstrip (s : Bytes) : Bytes := (s.reverse.dropWhile isSpace).reverse
def strip (s : Bytes) : Bytes := rstrip (lstrip s)

/-- `.decode("ascii")` succeeds -/
def isAscii (s : Bytes) : Bool := s.all (· < 128)

/-- `str.split(sep)`: always at least one field -/
def splitOn {α} [DecidableEq α] (sep : α) : List α → List (List α)
  | [] => [[]]
  | c :: cs =>
    let r := splitOn sep cs
    if c = sep then [] :: r else (c :: r.headD []) :: r.tail

/-- `sep.join(parts)` -/
def joinWith {α} (sep : α) : List (List α) → List α
  | [] => []
  | [p] => p
  | p :: q :: ps => p ++ sep :: joinWith sep (q :: ps)

inductive Parsed where
  | probe
  | req (c : Cmd) (k : Kind) (n : Name)
  | bad (e : Err)
  deriving DecidableEq, Repr

/-- the three fields exactly as the code computes them:
    `splitted[0]`, `":".join(splitted[1:-1])`, `splitted[-1]` -/
def fields (s : Bytes) : Bytes × Name × Bytes :=
  let parts := splitOn colon s
  (parts.headD [], joinWith colon parts.tail.dropLast, parts.getLastD [])

/-- everything the loop body does before it touches the registry, in the code's order:
    strip, decode, split, field-count test, PROBE test, resource-type test, command dispatch -/
def parseLine (line : Bytes) : Parsed :=
  let s := strip line
  if ¬ isAscii s then .bad .decode
  else if (splitOn colon s).length < 3 then .bad .malformed
  else
    let (cmd, name, rtype) := fields s
    if cmd = bPROBE then .probe
    else match kindOf rtype with
      | none => .bad .unknownType
      | some k =>
        match cmdOf cmd with
        | some c => .req c k name
        | none => .bad .unknownCmd

/-! ## the registry: `rtype → {name: count}`, inner dicts insertion-ordered -/

abbrev Dict := List (Name × Int)

namespace Dict

def get? : Dict → Name → Option Int
  | [], _ => none
  | (m, c) :: r, n => if m = n then some c else get? r n

/-- `d[n] = v`: in place when present, appended otherwise -/
def set : Dict → Name → Int → Dict
  | [], n, v => [(n, v)]
  | (m, c) :: r, n, v => if m = n then (m, v) :: r else (m, c) :: set r n v

/-- `del d[n]` (keys are unique, `Lemmas.Tracker.Inv`; every binding of `n` goes) -/
def erase : Dict → Name → Dict
  | [], _ => []
  | (m, c) :: r, n => if m = n then erase r n else (m, c) :: erase r n

def keys (d : Dict) : List Name := d.map (·.1)

end Dict

abbrev Registry := Kind → Dict

def Registry.init : Registry := fun _ => []

def Registry.upd (r : Registry) (k : Kind) (d : Dict) : Registry :=
  fun k' => if k' = k then d else r k'

/-- events of one call of the clean-up function inside the loop body -/
def cleanupInLoop (env : Env) (k : Kind) (n : Name) : List Event :=
  .clean k n ::
    match env k n with
    | .ok => []
    | .exc => [.warnCleanup]          -- `except Exception as e: warnings.warn(...)`
    | .baseExc => [.error .base]      -- escapes to the barrier, entry already deleted

/-- the loop body after parsing; the pair is (registry left behind, effects of this line) -/
def handle (env : Env) (reg : Registry) : Parsed → Registry × List Event
  | .probe => (reg, [])                                   -- `continue`
  | .bad e => (reg, [.error e])
  | .req .register k n =>
    match (reg k).get? n with
    | none => (reg.upd k ((reg k).set n 1), [])
    | some c => (reg.upd k ((reg k).set n (c + 1)), [])
  | .req .unregister k n =>
    match (reg k).get? n with
    | none => (reg, [.error .key])                        -- `del` raises KeyError
    | some _ => (reg.upd k ((reg k).erase n), [])
  | .req .maybeUnlink k n =>
    match (reg k).get? n with
    | none => (reg, [.error .key])                        -- the read of `-=` raises KeyError
    | some c =>
      let d := (reg k).set n (c - 1)                      -- `registry[rtype][name] -= 1`
      if c - 1 = 0 then
        (reg.upd k (d.erase n), cleanupInLoop env k n)    -- `del`, then the clean-up call
      else (reg.upd k d, [])

def handleLine (env : Env) (reg : Registry) (line : Bytes) : Registry × List Event :=
  handle env reg (parseLine line)

/-- registry after a sequence of lines -/
def runReg (env : Env) (reg : Registry) (lines : List Bytes) : Registry :=
  lines.foldl (fun r l => (handleLine env r l).1) reg

/-- effects, one list per line -/
def outputs (env : Env) (reg : Registry) : List Bytes → List (List Event)
  | [] => []
  | l :: ls => (handleLine env reg l).2 :: outputs env (handleLine env reg l).1 ls

/-! ## end of life -/

/-- `for name in rtype_registry: try: cleanup(name) except Exception: warn`;
    the flag says a bare BaseException escaped (the sweep is abandoned there) -/
def sweepNames (env : Env) (k : Kind) : List Name → List Event × Bool
  | [] => ([], false)
  | n :: ns =>
    match env k n with
    | .ok => let (e, a) := sweepNames env k ns; (.clean k n :: e, a)
    | .exc => let (e, a) := sweepNames env k ns; (.clean k n :: .warnCleanup :: e, a)
    | .baseExc => ([.clean k n], true)

/-- `_unlink_resources(rtype_registry, rtype)` -/
def sweepKind (env : Env) (k : Kind) (d : Dict) : List Event × Bool :=
  let (e, a) := sweepNames env k d.keys
  ((if d.isEmpty then [] else [.leak k d.length]) ++ e, a)

def sweepKinds (env : Env) (reg : Registry) : List Kind → List Event × Bool
  | [] => ([], false)
  | k :: ks =>
    let (e, a) := sweepKind env k (reg k)
    if a then (e, true)
    else let (e', a') := sweepKinds env reg ks; (e ++ e', a')

/-- insertion order of `_CLEANUP_FUNCS`, hence of `registry` -/
def tableOrder : List Kind := [.folder, .file, .semlock]

/-- `for rtype in registry: if rtype == "folder": continue ...` then `if "folder" in registry` -/
def sweepOrder : List Kind :=
  tableOrder.filter (· ≠ .folder) ++ (if Kind.folder ∈ tableOrder then [.folder] else [])

def sweep (env : Env) (reg : Registry) : List Event × Bool :=
  sweepKinds env reg sweepOrder

/-! ## the whole of `main(fd)` on a byte stream -/

/-- successive `f.readline()` results up to EOF (each keeps its `\n`; the last may lack it) -/
def readLines : Bytes → List Bytes
  | [] => []
  | b :: bs =>
    if b = newline then [b] :: readLines bs
    else match readLines bs with
      | [] => [[b]]
      | l :: ls => (b :: l) :: ls

structure Result where
  perLine : List (List Event)
  final : Registry
  sweepEvents : List Event
  aborted : Bool

def main (env : Env) (stream : Bytes) : Result :=
  let lines := readLines stream
  let reg := runReg env .init lines
  let (e, a) := sweep env reg
  ⟨outputs env .init lines, reg, e, a⟩

end LokyModel.Tracker
