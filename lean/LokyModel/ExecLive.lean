import LokyModel.Exec
/-!
# Executable (Bool-valued) ingredients of the deadlock-freedom argument for M1

Import-free apart from the model, so that `Drivers/LiveCheck.lean` can evaluate them on millions of reachable
states before (and independently of) their proofs in `Lemmas/ExecLive*.lean`.  Everything here is a *definition*;
the theorems are in `Props/C01Live.lean`.
-/
namespace LokyModel.Exec

/-! ### scope of the theorem -/

def UOp.isKill : UOp → Bool
  | .shutdown _ true => true
  | _ => false

/-- static pool: workers leave only through the stop sentinel of `join_executor_internals` — no idle time-out, no
    memory-leak exit, no initializer failure, no task that kills its worker or breaks the pool, no `kill_workers` -/
def Cfg.staticPool (c : Cfg) : Bool :=
  !c.timeout && c.leakAfter.isEmpty && c.initFail.isEmpty && decide (0 < c.maxWorkers) &&
  c.tasks.all (fun t => t.body != .die && t.args != .badunpickle && t.res != .badunpickle) &&
  c.scripts.all (fun sc => sc.all (fun op => !op.isKill))

/-! ### what is enabled -/

def actorsOf (s : St) : List Actor :=
  (List.range s.cfg.scripts.length).map Actor.U ++ [Actor.M, Actor.F] ++ s.allPids.map Actor.W

/-- the enabled steps other than crashes -/
def enabledNC (s : St) : List (Actor × Variant) :=
  (actorsOf s).flatMap fun a => ([Variant.ok, .timeout, .fail].filter fun v => (step s a v).isSome).map fun v => (a, v)

/-- every future resolved, every user script finished -/
def good (s : St) : Bool :=
  s.futs.all Fut.done && (List.range s.cfg.scripts.length).all (fun k => s.upc k == .done)

/-! ### slot accounting of the call queue's bounding semaphore -/

def cap (s : St) : Nat := 2 * s.cfg.maxWorkers + 1
def cslot : CMsg → Nat
  | .close => 0
  | _ => 1
def fSlot : FPc → Nat
  | .acq m | .send m => cslot m
  | .acqBig _ | .sendBig _ | .relBig _ | .errSem _ => 1
  | _ => 0
def mSlot : MPc → Nat
  | .addTStart _ | .addTStartF _ | .jPutTStart _ _ _ _ => 1
  | _ => 0
def wSlot : WPc → Nat
  | .gRel _ | .gSem _ | .tSem _ => 1
  | _ => 0
def sumL {α : Type} (f : α → Nat) : List α → Nat
  | [] => 0
  | x :: xs => f x + sumL f xs
def slots (s : St) : Nat :=
  sumL cslot s.cqBuf + fSlot s.fpc + s.cqPipe.length + mSlot s.mpc + sumL (fun p => wSlot (s.w p)) s.allPids
def slotOk (s : St) : Bool := s.cqSem + slots s == cap s

/-! ### lock holders (converse of the mutual-exclusion invariants): a taken lock has a holder that is inside the section -/

def inRqW : WPc → Bool
  | .rSend _ _ _ | .rRel | .bSend | .bRel | .xSend | .xRel | .lSend | .lRel => true
  | _ => false
def inCqR : WPc → Bool
  | .gRecv | .gRel _ | .tPoll | .tRecv | .tSem _ | .tRel _ | .tRelE => true
  | _ => false
def inCqWF : FPc → Bool
  | .send _ | .rel | .sendBig _ | .relBig _ => true
  | _ => false
def inGshutU : UPc → Bool
  | .sdJoin | .sdRelG | .peJoin | .peRelG => true
  | _ => false
def inMgmtU' : UPc → Bool
  | .subExit | .subPStart | .subTStart | .subRelMgmt => true
  | _ => false
def inMgmtM' : MPc → Bool
  | .pidRel .. | .rspExit | .rspStart | .rspRel | .jRelExit .. | .jRel1 _ | .jAlive .. | .jAliveRel ..
  | .jJoin _ | .jRel2 => true
  | _ => false
def inShutU' : UPc → Bool
  | .subAcqMgmt | .subExit | .subPStart | .subTStart | .subRelMgmt | .subWake | .subRelShut
  | .sdRel1 _ | .sdWake _ | .sdRel2 _ | .cbWake | .cbRel | .peWake | .peRel => true
  | _ => false
def inShutM' : MPc → Bool
  | .cbWake | .cbRel | .flagRel | .brkRel _ | .jShutRel => true
  | _ => false
def inShutF' : FPc → Bool
  | .errWake | .errRel => true
  | _ => false

def holderOk (s : St) : Bool :=
  (match s.oRqWlock with
   | none => s.rqWlock == 1
   | some (.W p) => s.rqWlock == 0 && inRqW (s.w p)
   | _ => false) &&
  (match s.oCqRlock with
   | none => s.cqRlock == 1
   | some (.W p) => s.cqRlock == 0 && inCqR (s.w p)
   | _ => false) &&
  (match s.oCqWlock with
   | none => s.cqWlock == 1
   | some .F => s.cqWlock == 0 && inCqWF s.fpc
   | _ => false) &&
  (match s.oGshut with
   | none => s.gshut == 1
   | some (.U k) => s.gshut == 0 && inGshutU (s.upc k) && decide (k < s.cfg.scripts.length)
   | _ => false) &&
  (match s.oMgmt with
   | none => s.mgmt == 1
   | some (.U k) => s.mgmt == 0 && inMgmtU' (s.upc k) && decide (k < s.cfg.scripts.length)
   | some .M => s.mgmt == 0 && inMgmtM' s.mpc
   | some (.W p) => s.mgmt == 0 && s.w p == .eRel
   | _ => false) &&
  (match s.oShut with
   | none => s.shut == 1
   | some (.U k) => s.shut == 0 && inShutU' (s.upc k) && decide (k < s.cfg.scripts.length)
   | some .M => s.shut == 0 && inShutM' s.mpc
   | some .F => s.shut == 0 && inShutF' s.fpc
   | _ => false)

/-! ### static pool: which program counters occur, and when -/

/-- the manager has begun `join_executor_internals` (or ended) -/
def mFinal : MPc → Bool
  | .jAcq1 | .jRelExit _ _ | .jRel1 _ | .jAliveAcq _ _ _ | .jAlive _ _ _ _ _
  | .jAliveRel _ _ _ _ | .jPut _ _ _ _ | .jPutTStart _ _ _ _ | .jSleep _ _ _ | .jShutAcq | .jShutRel | .jAcq2
  | .jJoin _ | .jRel2 | .done | .raised _ => true
  | _ => false
/-- program counters of the manager that a static pool never reaches -/
def mNever : MPc → Bool
  | .pidAcq _ | .pidRel _ _ | .pidRelExit _ | .pidJoin _ | .rspAcq | .rspExit | .rspStart | .rspRel
  | .brkAcq _ | .brkRel _ | .kill _ | .killJoin _ | .clrPoll (.broken _) | .clrRecv (.broken _)
  | .clrPoll (.item (some (.pid _))) | .clrRecv (.item (some (.pid _))) | .clrPoll (.item (some .rtb))
  | .clrRecv (.item (some .rtb)) => true
  | _ => false
/-- worker program counters a static pool never reaches -/
def wNever : WPc → Bool
  | .tAcq | .tPoll | .tRecv | .tSem _ | .tRel _ | .tRelE | .eTry | .eRel | .bAcq | .bSend | .bRel
  | .lAcq | .lSend | .lRel | .lExitAcq | .lExitRel => true
  | .exit c => c != 0
  | _ => false
/-- the worker has received its stop sentinel (or is gone) -/
def wStopping : WPc → Bool
  | .gRel .stop | .gSem .stop | .gRel .close | .gSem .close | .xAcq | .xSend | .xRel | .xExit | .exit _ | .dead => true
  | _ => false
def isStop : CMsg → Bool
  | .stop => true
  | _ => false
def isPidMsg : RMsg → Bool
  | .pid _ => true
  | _ => false

def staticOk (s : St) : Bool :=
  !mNever s.mpc && s.broken.isNone && !s.killFlag &&
  s.allPids.all (fun p => !wNever (s.w p)) &&
  -- before the final phase every spawned worker is registered, nobody is stopping, no stop sentinel and no pid
  -- message exists; once the manager thread runs the pool is complete
  (mFinal s.mpc ||
    (s.procDict == s.allPids &&
     s.allPids.all (fun p => !wStopping (s.w p)) && !s.cqBuf.any isStop && !s.cqPipe.any isStop &&
     !s.rqPipe.any isPidMsg && (match s.fpc with | .acq .stop | .send .stop => false | _ => true) &&
     (s.mpc == .none || s.procDict.length == s.cfg.maxWorkers))) &&
  -- small facts about the actors' program counters
  (s.mpc != .recv || !s.rqPipe.isEmpty) &&
  (match s.mpc with | .clrRecv _ => decide (0 < s.wakeup) | _ => true) &&
  (match s.mpc with | .jRelExit [] _ | .jAlive [] _ _ _ _ => false | _ => true) &&
  (List.range s.cfg.scripts.length).all (fun k => s.upc k != .api || (s.ucur k).isSome) &&
  (!(s.fpc == .none || s.fpc == .done) || s.cqBuf.isEmpty) &&
  (s.mpc != .none || (s.futs.isEmpty || (List.range s.cfg.scripts.length).any (fun k => inShutU' (s.upc k)))) &&
  (!s.wakeupClosed || mFinal s.mpc) &&
  ((List.range s.cfg.scripts.length).all fun k =>
    (!(s.upc k == .sdAcqG || s.upc k == .sdJoin || s.upc k == .peAcqG || s.upc k == .peJoin || s.upc k == .peAcq ||
       s.upc k == .peWake || s.upc k == .peRel) || s.mpc != .none))

/-! ### nobody waits for a wake-up that is not coming -/

def isCall : CMsg → Bool
  | .call _ _ => true
  | _ => false
def isRes : RMsg → Bool
  | .res _ _ _ => true
  | _ => false
/-- a worker that is busy with a call item: it will send a result message -/
def wBusy : WPc → Bool
  | .gRel (.call _ _) | .gSem (.call _ _) | .tSem (.call _ _) | .tRel (.call _ _) | .task _ _ | .taskEnd _ _
  | .rAcq _ _ _ | .rSend _ _ _ => true
  | _ => false
def fBusy : FPc → Bool
  | .acq (.call _ _) | .send (.call _ _) | .acqBig _ | .sendBig _ | .relBig _ => true
  | _ => false
/-- a thread that has done what the manager must hear about and has not yet written to the wake-up pipe -/
def uOwes : UPc → Bool
  | .subAcqMgmt | .subExit | .subPStart | .subTStart | .subRelMgmt | .subWake
  | .sdRel1 _ | .sdAcq2 _ | .sdWake _ | .cbAcq | .cbWake | .peAcq | .peWake => true
  | _ => false
def fOwes : FPc → Bool
  | .errSem _ | .errAcq | .errWake => true
  | _ => false
/-- something will wake the manager -/
def willWake (s : St) : Bool :=
  decide (0 < s.wakeup) || !s.rqPipe.isEmpty || (List.range s.cfg.scripts.length).any (fun k => uOwes (s.upc k)) ||
  fOwes s.fpc || s.cqBuf.any isCall || fBusy s.fpc || s.cqPipe.any isCall || s.allPids.any (fun p => wBusy (s.w p))
/-- the manager is expected to leave: the executor is shutting down and nothing is pending -/
def mustExit (s : St) : Bool :=
  (s.globalShutdown || s.refs == 0 || s.shutdownFlag) && s.pending.isEmpty

def wakeOk (s : St) : Bool :=
  match s.mpc with
  | .start => willWake s
  | .wait _ => !(mustExit s || !s.workIds.isEmpty) || willWake s
  | _ => true

/-! ### no work item is lost -/

def ind' (w i : Wid) : Nat := if w = i then 1 else 0
def cmsgC' (i : Wid) : CMsg → Nat
  | .call w _ => ind' w i
  | _ => 0
def rmsgC' (i : Wid) : RMsg → Nat
  | .res w _ _ => ind' w i
  | _ => 0
def wTok (i : Wid) : WPc → Nat
  | .gRel m | .gSem m | .tSem m | .tRel m => cmsgC' i m
  | .task w _ | .taskEnd w _ | .rAcq w _ _ | .rSend w _ _ => ind' w i
  | _ => 0
def mTok (i : Wid) : MPc → Nat
  | .addAcq w | .addTStart w | .addAcqF w | .addTStartF w => ind' w i
  | .clrPoll (.item (some r)) | .clrRecv (.item (some r)) => rmsgC' i r
  | _ => 0
def fTok (i : Wid) : FPc → Nat
  | .acq m | .send m => cmsgC' i m
  | .acqBig w | .sendBig w | .relBig w | .errSem w => ind' w i
  | _ => 0
def tokens (s : St) (i : Wid) : Nat :=
  s.workIds.count i + mTok i s.mpc + sumL (cmsgC' i) s.cqBuf + fTok i s.fpc + sumL (cmsgC' i) s.cqPipe +
  sumL (fun p => wTok i (s.w p)) s.allPids + sumL (rmsgC' i) s.rqPipe
/-- every pending work item has its token somewhere -/
def consOk (s : St) : Bool := s.pending.all fun i => decide (0 < tokens s i)

/-! ### the final phase: enough stop sentinels -/

/-- stop sentinels that `shutdown_workers` is still going to put -/
def mToSend (s : St) : Nat :=
  match s.mpc with
  | .jAcq1 | .jRelExit _ _ | .jRel1 _ => s.procDict.length
  | .jAliveAcq n sent _ | .jAlive _ _ n sent _ | .jAliveRel _ n sent _ | .jSleep n sent _
  | .jPut _ n sent _ | .jPutTStart _ n sent _ => n - sent
  | _ => 0
def stopsInFlight (s : St) : Nat :=
  sumL (fun m => if isStop m then 1 else 0) s.cqBuf + (match s.fpc with | .acq .stop | .send .stop => 1 | _ => 0) +
  sumL (fun m => if isStop m then 1 else 0) s.cqPipe
/-- workers that have not yet received a stop sentinel -/
def needStop (s : St) : Nat := sumL (fun p => if wStopping (s.w p) then 0 else 1) s.allPids

def joinOk (s : St) : Bool :=
  !mFinal s.mpc ||
  (s.pending.isEmpty && s.shutdownFlag &&
   (match s.mpc with
    | .raised _ => true
    | .jAlive ps cnt _ _ _ =>
        -- `cnt = 0`: every registered worker scanned so far was found dead
        (cnt != 0 || (s.procDict.take (s.procDict.length - ps.length)).all (fun p => s.w p == .dead)) &&
        decide (needStop s ≤ stopsInFlight s + mToSend s)
    | .jAliveRel cnt _ _ _ =>
        (cnt != 0 || s.procDict.all (fun p => s.w p == .dead)) && decide (needStop s ≤ stopsInFlight s + mToSend s)
    | .jPut k n sent _ | .jPutTStart k n sent _ => k == n - sent && decide (0 < k) && decide (needStop s ≤ stopsInFlight s + mToSend s)
    | _ => decide (needStop s ≤ stopsInFlight s + mToSend s)))

/-- all of it -/
def liveOk (s : St) : Bool := slotOk s && holderOk s && staticOk s && wakeOk s && consOk s && joinOk s

end LokyModel.Exec
