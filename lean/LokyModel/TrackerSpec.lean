import LokyModel.Tracker
/-!
# the specification side of C11 (definitions only)

`bal k n hist` — registrations minus (accepted) maybe_unlinks of key `(k, n)` since its last
unregister — is the one-line specification the tracker loop is refined to in `Props/C11.lean`.
-/
namespace LokyModel.Tracker

/-- effect of one parsed line on the balance of key `(k, n)`: registrations minus (accepted)
    maybe_unlinks since the last unregister; a maybe_unlink on an untracked key is refused -/
def balStep (k : Kind) (n : Name) (b : Int) : Parsed → Int
  | .req c k' n' =>
    if k' = k ∧ n' = n then
      match c with
      | .register => b + 1
      | .unregister => 0
      | .maybeUnlink => if 0 < b then b - 1 else 0
    else b
  | _ => b

def bal (k : Kind) (n : Name) (hist : List Parsed) : Int := hist.foldl (balStep k n) 0

def history (lines : List Bytes) : List Parsed := lines.map parseLine

/-- what the tracker must do on a line, as a function of `bal` only -/
def specEvents (env : Env) (hist : List Parsed) : Parsed → List Event
  | .probe => []
  | .bad e => [.error e]
  | .req .register _ _ => []
  | .req .unregister k n => if 0 < bal k n hist then [] else [.error .key]
  | .req .maybeUnlink k n =>
    if bal k n hist = 1 then cleanupInLoop env k n
    else if 1 < bal k n hist then [] else [.error .key]

/-- number of times `(k, n)` is destroyed by a sequence of per-line effects -/
def cleanCount (k : Kind) (n : Name) (outs : List (List Event)) : Nat :=
  outs.flatten.count (.clean k n)

/-- a well-formed request as the client writes it, defined without the parser -/
def IsRequest (s : Bytes) : Prop := ∃ c n k, isAscii n = true ∧ s = wire c n k

/-- a liveness ping `PROBE:<x>:<y>` (at least three fields) -/
def IsProbe (s : Bytes) : Prop := isAscii s = true ∧ ∃ a b, s = bPROBE ++ colon :: (a ++ colon :: b)

abbrev Blank (s : Bytes) : Prop := ∀ x ∈ s, isSpace x = true

end LokyModel.Tracker
