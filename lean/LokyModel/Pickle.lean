/-!
# M6 `Pickle` — `loky/backend/reduction.py` (+ how `queues.py` / `process_executor.py` hand reducers over)

Two halves, import-free.

**Dispatch tables.**  Python `dict`s are heap objects; the question C15 asks is which dict a write
goes to.  So tables live in numbered heap cells: cell 0 = `copyreg.dispatch_table`, cell 1 =
cloudpickle's class-level table (`CloudPickler.dispatch_table.maps[0]`), cell 2 =
`loky.backend.reduction._dispatch_table`; every `CustomizablePickler(...)` allocates one more.
A table is an association list in which the *first* entry for a type wins (`d[k] = v` is `cons`).

**Reducer algebra.**  loky's built-in reducers for bound methods / class methods, method
descriptors and `functools.partial`, over a small universe of values, with pickle itself trusted on
the leaves.
-/
namespace LokyModel.Pickle

/-! ## dispatch tables -/

/-- a Python type (identity) -/
abbrev Ty := Nat
/-- a reducer function (identity) -/
abbrev Reducer := Nat
/-- a `dict` type → reducer; the first entry for a key is the current one -/
abbrev Table := List (Ty × Reducer)

/-- types loky registers reducers for at import time -/
def tyMethod : Ty := 1            -- type(_C().f) == type(_C.h) == types.MethodType
def tyMethodDescriptor : Ty := 2  -- type(list.append)
def tyWrapperDescriptor : Ty := 3 -- type(int.__add__)
def tyPartial : Ty := 4           -- functools.partial
def tySocket : Ty := 5            -- socket.socket
def tyCSocket : Ty := 6           -- _socket.socket
def tyConnection : Ty := 7        -- multiprocessing.connection.Connection

def rMethod : Reducer := 1            -- _reduce_method
def rMethodDescriptor : Reducer := 2  -- _reduce_method_descriptor
def rPartial : Reducer := 3           -- _reduce_partial
def rSocket : Reducer := 4            -- _reduce_socket
def rConnection : Reducer := 5        -- reduce_connection

/-- `register(type_, reduce_function)`: `_dispatch_table[type_] = reduce_function` -/
def tset (t : Table) (ty : Ty) (r : Reducer) : Table := (ty, r) :: t

/-- `d.update(other)` -/
def tupdate (d other : Table) : Table := other ++ d

/-- `_dispatch_table` after `import loky.backend.reduction` on POSIX: the `register(...)` calls of
`reduction.py` and `_posix_reduction.py`, in program order -/
def lokyInit : Table :=
  let t : Table := []
  let t := tset t tyMethod rMethod                      -- register(type(_C().f), _reduce_method)
  let t := tset t tyMethod rMethod                      -- register(type(_C.h), _reduce_method)
  let t := tset t tyMethodDescriptor rMethodDescriptor  -- register(type(list.append), …)
  let t := tset t tyWrapperDescriptor rMethodDescriptor -- register(type(int.__add__), …)
  let t := tset t tyPartial rPartial                    -- register(functools.partial, _reduce_partial)
  let t := tset t tySocket rSocket
  let t := tset t tyCSocket rSocket
  tset t tyConnection rConnection

inductive Backend where
  /-- `set_loky_pickler("cloudpickle")` (the default): base class `cloudpickle.CloudPickler` -/
  | cloudpickle
  /-- `set_loky_pickler("pickle")`: base class `pickle.Pickler` (the C `_pickle.Pickler`) -/
  | pickle
  deriving DecidableEq, Repr

/-- process state relevant to C15 -/
structure State where
  /-- heap of dicts; 0 copyreg, 1 cloudpickle, 2 loky, ≥ 3 per-pickler tables -/
  cells : List Table
  /-- base class of the current `_LokyPickler` -/
  backend : Backend
  /-- live pickler instances (their table's cell) in creation order -/
  picklers : List Nat
  /-- `_reducers` of the live queues, in creation order (`None` kept as `none`) -/
  queues : List (Option Table)
  /-- table cell of the pickler created last (also the temporary one of `dumps`) -/
  last : Option Nat

def copyregCell : Nat := 0
def cloudCell : Nat := 1
def lokyCell : Nat := 2

def readCell (s : State) (i : Nat) : Table := s.cells.getD i []

def updAt {α : Type} : List α → Nat → (α → α) → List α
  | [], _, _ => []
  | x :: xs, 0, f => f x :: xs
  | x :: xs, n + 1, f => x :: updAt xs n f

def writeCell (s : State) (i : Nat) (f : Table → Table) : State :=
  { s with cells := updAt s.cells i f }

/-- the three process-wide registries -/
structure Globals where
  copyreg : Table
  cloud : Table
  loky : Table
  deriving DecidableEq

def globals (s : State) : Globals := ⟨readCell s copyregCell, readCell s cloudCell, readCell s lokyCell⟩

def initState (g : Globals) (b : Backend) : State :=
  ⟨[g.copyreg, g.cloud, g.loky], b, [], [], none⟩

/-- `register` on a pickler instance: `self.dispatch_table[type] = reduce_func` -/
def registerCell (s : State) (c : Nat) (ty : Ty) (r : Reducer) : State :=
  writeCell s c (fun t => tset t ty r)

/-- `CustomizablePickler.__init__(writer, reducers)`:

    if hasattr(self, "dispatch_table"):  loky_dt = dict(self.dispatch_table)      # cloudpickle: ChainMap(cp, copyreg)
    else:                                loky_dt = copyreg.dispatch_table.copy()  # pickle
    loky_dt.update(_dispatch_table)
    self._set_dispatch_table(loky_dt)
    for type, reduce_func in reducers.items(): self.register(type, reduce_func)

returns the new state and the cell of the instance's table -/
def createPickler (s : State) (reducers : Table) : State × Nat :=
  let base : Table := match s.backend with
    | .cloudpickle => readCell s cloudCell ++ readCell s copyregCell   -- dict(ChainMap): first map wins
    | .pickle => readCell s copyregCell
  let c := s.cells.length
  let s := { s with cells := s.cells ++ [base] }                        -- the *copy*
  let s := writeCell s c (fun t => tupdate t (readCell s lokyCell))
  let s := reducers.foldl (fun s (p : Ty × Reducer) => registerCell s c p.1 p.2) s
  ({ s with last := some c }, c)

/-- `reducers=None` → `{}` -/
def orEmpty (r : Option Table) : Table := r.getD []

/-- one API call of a history -/
inductive Op where
  /-- `set_loky_pickler(name)` -/
  | setPickler (b : Backend)
  /-- `p = get_loky_pickler()(buf, reducers=r)`, kept alive -/
  | newPickler (r : Option Table)
  /-- `p.register(type, f)` on the live pickler whose table is cell `c` (an object reference) -/
  | register (c : Nat) (ty : Ty) (r : Reducer)
  /-- `dumps(obj, reducers=r)` / `dump(obj, file, reducers=r)`: temporary pickler -/
  | dumps (r : Option Table)
  /-- `Queue(reducers=r)` / `SimpleQueue(reducers=r)`: stores `r` in `_reducers` -/
  | newQueue (r : Option Table)
  /-- `q.put(obj)` on the `i`-th queue: `dumps(obj, reducers=self._reducers)` -/
  | put (i : Nat)
  /-- `ProcessPoolExecutor(job_reducers=j, result_reducers=r)`: call queue then result queue -/
  | newExecutor (j r : Option Table)

/-- `if result_reducers is None: result_reducers = job_reducers` -/
def resultReducers (job result : Option Table) : Option Table :=
  match result with
  | none => job
  | some r => some r

def step (s : State) : Op → State
  | .setPickler b => { s with backend := b }
  | .newPickler r =>
    let (s, c) := createPickler s (orEmpty r)
    { s with picklers := s.picklers ++ [c] }
  | .register c ty r => if c ∈ s.picklers then registerCell s c ty r else s
  | .dumps r => (createPickler s (orEmpty r)).1
  | .newQueue r => { s with queues := s.queues ++ [r] }
  | .put i =>
    match s.queues[i]? with
    | some r => (createPickler s (orEmpty r)).1
    | none => s
  | .newExecutor j r => { s with queues := s.queues ++ [j, resultReducers j r] }

def run (s : State) (ops : List Op) : State := ops.foldl step s

/-- the table `CustomizablePickler(reducers)` is specified to have: base (copyreg, under
cloudpickle overlaid by cloudpickle's) overlaid by loky's registry overlaid by the user's reducers
(of which the last entry for a type wins) -/
def effectiveTable (g : Globals) (b : Backend) (reducers : Table) : Table :=
  reducers.reverse ++ (g.loky ++ (match b with
    | .cloudpickle => g.cloud ++ g.copyreg
    | .pickle => g.copyreg))

/-- `p.dispatch_table.get(ty)` of the pickler whose table is cell `c` -/
def picklerLookup (s : State) (c : Nat) (ty : Ty) : Option Reducer := (readCell s c).lookup ty

/-! ## reducer algebra -/

/-- what normal attribute look-up finds under a name on a class -/
inductive Member where
  /-- a plain function (id): instances get a bound method -/
  | func (f : Nat)
  /-- a `classmethod` around function `f`: bound to the class -/
  | cmeth (f : Nat)
  /-- a method/wrapper descriptor of a built-in class (`str.upper`, `int.__add__`) -/
  | descr
  deriving DecidableEq, Repr

/-- the classes and functions of the program -/
structure World where
  /-- `f.__name__` of a function id -/
  fname : Nat → Nat
  /-- `cls.__dict__`-through-MRO look-up: class id, attribute name -/
  member : Nat → Nat → Option Member

/-- values -/
inductive V where
  /-- plain data; pickle's business -/
  | atom (n : Nat)
  /-- importable function / class `n`, pickled by reference -/
  | glob (n : Nat)
  /-- instance of importable class `cls` with (plain data) state -/
  | inst (cls : Nat) (state : Nat)
  /-- `types.MethodType`: `__self__` (an instance, or a class for class methods) and `__func__` -/
  | bound (self : V) (func : Nat)
  /-- method / wrapper descriptor: `__objclass__`, `__name__` -/
  | descr (cls : Nat) (name : Nat)
  /-- `functools.partial`: `func`, `args`, `keywords` (insertion-ordered) -/
  | part (func : V) (args : List V) (kw : List (Nat × V))

def V.isPartial : V → Bool
  | .part .. => true
  | _ => false

/-- `getattr(owner, name)` for the owners the reducers produce; `none` = `AttributeError` (or a kind of
result outside the universe) -/
def getattrV (w : World) : V → Nat → Option V
  | .inst c s, n =>
    match w.member c n with
    | some (.func f) => some (.bound (.inst c s) f)
    | some (.cmeth f) => some (.bound (.glob c) f)
    | _ => none
  | .glob c, n =>
    match w.member c n with
    | some (.func f) => some (.glob f)
    | some (.cmeth f) => some (.bound (.glob c) f)
    | some .descr => some (.descr c n)
    | none => none
  | _, _ => none

/-- `{**k, **kw}` on insertion-ordered dicts -/
def mergeKw (k kw : List (Nat × V)) : List (Nat × V) :=
  k.map (fun p => (p.1, (kw.lookup p.1).getD p.2)) ++ kw.filter (fun p => (k.lookup p.1).isNone)

/-- `functools.partial(func, *args, **kw)`: CPython flattens a partial of a (plain) partial -/
def mkPartial (func : V) (args : List V) (kw : List (Nat × V)) : V :=
  match func with
  | .part f a k => .part f (a ++ args) (mergeKw k kw)
  | f => .part f args kw

/-- a reduce value `(callable, args)` -/
inductive Red where
  /-- `(getattr, (owner, name))` -/
  | getattr (owner : V) (name : Nat)
  /-- `(_rebuild_partial, (func, args, keywords))` -/
  | rebuildPartial (func : V) (args : List V) (kw : List (Nat × V))

/-- `_reduce_method(m)`: `getattr, (m.__self__, m.__func__.__name__)`
(the `m.__self__ is None` branch is Python-2 legacy: a `MethodType` always has a receiver) -/
def reduceMethod (w : World) : V → Option Red
  | .bound self f => some (.getattr self (w.fname f))
  | _ => none

/-- `_reduce_method_descriptor(m)`: `getattr, (m.__objclass__, m.__name__)` -/
def reduceMethodDescriptor : V → Option Red
  | .descr c n => some (.getattr (.glob c) n)
  | _ => none

/-- `_reduce_partial(p)`: `_rebuild_partial, (p.func, p.args, p.keywords or {})` -/
def reducePartial : V → Option Red
  | .part f a k => some (.rebuildPartial f a k)
  | _ => none

/-- the reducer loky's registry selects for a value, by its type -/
def reduceV (w : World) (v : V) : Option Red :=
  match v with
  | .bound .. => reduceMethod w v
  | .descr .. => reduceMethodDescriptor v
  | .part .. => reducePartial v
  | _ => none

/-- unpickling a reduce value whose arguments have already been unpickled:
`getattr(owner, name)`, resp. `_rebuild_partial(func, args, keywords) = functools.partial(func, *args, **keywords)` -/
def applyRed (w : World) : Red → Option V
  | .getattr o n => getattrV w o n
  | .rebuildPartial f a k => some (mkPartial f a k)

mutual
/-- `loads(dumps(v))` with loky's reducers: components first, then the reduce value is applied -/
def rtV (w : World) : V → Option V
  | .atom n => some (.atom n)
  | .glob n => some (.glob n)
  | .inst c s => some (.inst c s)
  | .bound self f =>
    match rtV w self with
    | some s' => applyRed w (.getattr s' (w.fname f))
    | none => none
  | .descr c n => applyRed w (.getattr (.glob c) n)
  | .part f a k =>
    match rtV w f, rtList w a, rtKw w k with
    | some f', some a', some k' => applyRed w (.rebuildPartial f' a' k')
    | _, _, _ => none
def rtList (w : World) : List V → Option (List V)
  | [] => some []
  | x :: xs =>
    match rtV w x, rtList w xs with
    | some x', some xs' => some (x' :: xs')
    | _, _ => none
def rtKw (w : World) : List (Nat × V) → Option (List (Nat × V))
  | [] => some []
  | (n, x) :: xs =>
    match rtV w x, rtKw w xs with
    | some x', some xs' => some ((n, x') :: xs')
    | _, _ => none
end

mutual
/-- graphs C15 is about: every method is reachable on its receiver under the `__name__` of its
function (what CPython's own pickling of methods assumes too), descriptors exist on their class,
and a partial's `func` is not a plain partial (`functools.partial` never builds one). -/
def wfV (w : World) : V → Prop
  | .atom _ => True
  | .glob _ => True
  | .inst _ _ => True
  | .bound self f => wfV w self ∧ getattrV w self (w.fname f) = some (.bound self f)
  | .descr c n => w.member c n = some .descr
  | .part f a k => wfV w f ∧ f.isPartial = false ∧ wfList w a ∧ wfKw w k
def wfList (w : World) : List V → Prop
  | [] => True
  | x :: xs => wfV w x ∧ wfList w xs
def wfKw (w : World) : List (Nat × V) → Prop
  | [] => True
  | (_, x) :: xs => wfV w x ∧ wfKw w xs
end

/-! ## `get_reusable_executor`: which reducers (initializer, environment) the returned executor carries

    kwargs = dict(context=…, timeout=…, job_reducers=…, result_reducers=…, initializer=…, initargs=…, env=…)
    if executor is None:            _executor_kwargs = kwargs; executor = cls(…, **kwargs)
    else:
        if reuse == "auto":         reuse = kwargs == _executor_kwargs
        if executor._flags.broken or executor._flags.shutdown or not reuse:
            executor.shutdown(…); _executor = _executor_kwargs = None; return cls.get_reusable_executor(…)   # new one
        else:                       executor._resize(max_workers)                                            # reused

Functions, closures, `functools.partial` objects and instances of classes without `__eq__` compare by
identity under `==`; a reducer (initializer, element of `initargs`) is therefore its identity number, and
equal numbers = `==`.  Reducer maps are given sorted by type (`dict` equality ignores insertion order). -/

/-- an object passed as initializer / in `initargs` (identity) -/
abbrev Obj := Nat

/-- what `get_reusable_executor` stores in `_executor_kwargs` (the default `context` left out) -/
structure Kwargs where
  timeout : Nat
  job : Option Table
  res : Option Table
  init : Option Obj
  initargs : List Obj
  env : Option (List (Nat × Nat))
  deriving DecidableEq, Repr

/-- a reusable executor object -/
structure RExec where
  /-- `executor_id` -/
  id : Nat
  /-- `_executor_kwargs` (module global, set together with `_executor`) -/
  kwargs : Kwargs
  maxWorkers : Nat
  /-- `_call_queue._reducers`: what the feeder thread pickles every task with -/
  jobq : Option Table
  /-- `_result_queue._reducers`: every worker gets a copy when it is spawned and pickles results with it -/
  resq : Option Table
  /-- `_initializer`, `_initargs`, `_env`: handed to every spawned worker -/
  init : Option Obj
  initargs : List Obj
  env : Option (List (Nat × Nat))
  /-- neither broken nor shut down -/
  usable : Bool
  deriving DecidableEq, Repr

structure RState where
  nextId : Nat
  cur : Option RExec
  deriving DecidableEq, Repr

/-- `cls(_executor_lock, max_workers=w, executor_id=id, **kwargs)`: the constructor of C15's `newExecutor` -/
def newRExec (id w : Nat) (k : Kwargs) : RExec :=
  ⟨id, k, w, k.job, resultReducers k.job k.res, k.init, k.initargs, k.env, true⟩

/-- `get_reusable_executor(max_workers=w, reuse="auto", **k)`, with the test `same k _executor_kwargs` for
"the arguments have not changed"; returns the new state and `is_reused` -/
def request (same : Kwargs → Kwargs → Bool) (s : RState) (w : Nat) (k : Kwargs) : RState × Bool :=
  match s.cur with
  | none => (⟨s.nextId + 1, some (newRExec s.nextId w k)⟩, false)
  | some e =>
    if e.usable && same k e.kwargs then (⟨s.nextId, some { e with maxWorkers := w }⟩, true)
    else (⟨s.nextId + 1, some (newRExec s.nextId w k)⟩, false)

/-- the test of the code: `kwargs == _executor_kwargs` -/
def sameKwargs (a b : Kwargs) : Bool := decide (a = b)

/-- a history on the singleton -/
inductive ROp where
  | req (w : Nat) (k : Kwargs)
  /-- `executor.shutdown()` by the user (or the pool broke): the object stays installed, flagged -/
  | shutdown
  deriving DecidableEq, Repr

def rstep (same : Kwargs → Kwargs → Bool) (s : RState) : ROp → RState
  | .req w k => (request same s w k).1
  | .shutdown => { s with cur := s.cur.map (fun e => { e with usable := false }) }

def rrun (same : Kwargs → Kwargs → Bool) (s : RState) (ops : List ROp) : RState := ops.foldl (rstep same) s

/-- "compare the reducers by their implementation": a key per reducer (its code object / its class) -/
def sameByCode (code : Reducer → Nat) (a b : Kwargs) : Bool :=
  let key (t : Option Table) := t.map (fun l => l.map (fun p => (p.1, code p.2)))
  decide (a.timeout = b.timeout ∧ key a.job = key b.job ∧ key a.res = key b.res ∧ a.init = b.init
    ∧ a.initargs = b.initargs ∧ a.env = b.env)

end LokyModel.Pickle
