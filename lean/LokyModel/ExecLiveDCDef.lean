import LokyModel.ExecLiveCrash
import LokyModel.ExecLiveCrashHolderDef
import LokyModel.ExecLiveCrashKillDef
import LokyModel.ExecLiveStaticDef
import LokyModel.ExecLiveDynOkDef
/-!
# Executable ingredients for DYNAMIC pools (idle time-out) WITH worker deaths at lock-free points

Scope: `Cfg.dynPool` and `Cfg.oneCreate`; runs `ReachableLF` (ordinary steps of every actor, time-outs included, and the
death of a worker at any point at which it holds no kernel lock).  The argument has two phases.

* **Phase 1** — every death so far was *benign*: the victim had announced its exit and was waiting for its exit lock
  (`xExit`).  Such a death is, for the parent, the clean exit that was about to happen (the manager joins a dead process).
  The state satisfies the crash-free ingredients of `ExecLiveDyn.lean` (`dynOk`, `wakeOkD`, `respawnOk`, …).
* **Phase 2** (`phase2`) — a registered worker is dead and has not announced its exit (a *zombie*), or the manager is
  already on the broken path / in the kill loop / in its final phase.  The zombie stays registered until the manager
  pops it (kill loop, final join), and `watchOk` says a waiting manager sees its sentinel.  From here the ingredients
  `dcSmall`, `dcHolder'`, `dcKilled` carry the run: lock holders are inside their sections (the two worker-side queue locks
  only until the pool is flagged broken — afterwards the manager kills every registered worker wherever it is), nobody
  spawns onto a flagged pool, and the kill loop leaves the registry empty.

The one thing the manager's own SIGKILL can break is the process-management lock: an idle worker whose `get` timed out
takes it non-blocking and releases it at once; killed in between (`mgmtOrphan`) the lock stays taken for ever and
`join_executor_internals` blocks — the listed finding D5 in its "manager's own SIGKILL" form.  `lockFree` keeps *crash*
steps out of that window; the theorem assumes `mgmtOrphan s = false` for the manager's kill.

Import-light (model files only) so that `Drivers/LiveCheckDC.lean` can evaluate everything on random walks.
-/
namespace LokyModel.Exec
open StaticP

/-- D5, manager-kill form: the recorded owner of the process-management lock is a dead worker -/
def mgmtOrphan (s : St) : Bool :=
  match s.oMgmt with
  | some (.W p) => s.w p == .dead
  | _ => false

/-- the manager's next step is the SIGKILL of a worker that is inside the management-lock window -/
def killsERel (s : St) : Bool :=
  match s.mpc with
  | .kill p => s.w p == .eRel
  | _ => false

/-- the manager holds worker `p`'s exit announcement and has not yet un-registered it (copy of `mHolds`) -/
def dcHolds : MPc → Pid → Bool
  | .clrPoll (.item (some (.pid q))), p => q == p
  | .clrRecv (.item (some (.pid q))), p => q == p
  | .pidAcq q, p => q == p
  | _, _ => false

def isPidOf (p : Pid) : RMsg → Bool
  | .pid q => q == p
  | _ => false

/-- the exit announcement of `p` is in the result pipe or in the manager's hands -/
def dcAnn (s : St) (p : Pid) : Bool := s.rqPipe.any (isPidOf p) || dcHolds s.mpc p

/-- a registered worker is dead and never announced its exit -/
def zombie (s : St) : Bool := s.procDict.any fun p => s.w p == .dead && !dcAnn s p

def phase2 (s : St) : Bool := zombie s || mBrk s.mpc || mFinal s.mpc || s.broken.isSome

/-! ### small facts, scope facts -/

def dcSmall (s : St) : Bool :=
  smallOk s &&
  -- D1 workers of a dynamic pool: no blocking `get`, no error exit, no memory-leak exit
  s.allPids.all (fun p => !wNeverD (s.w p)) &&
  -- D2 the close sentinel of the call queue never gets past the feeder thread; it is the last thing put into the buffer,
  --    and put only by `join_executor_internals`
  !s.cqPipe.any isClose && !fClose s.fpc &&
  !s.cqBuf.dropLast.any isClose && (mLate s.mpc || (!s.cqBuf.any isClose && s.fpc != .done)) &&
  -- D3 a registered manager thread exists
  (!s.threadReg || s.mpc != .none) &&
  -- D4 `kill_workers` is never requested
  !s.killFlag &&
  ((usersOf s).all fun k => (s.uscript k).all (fun op => !op.isKill) && ucurOk (s.ucur k) && !isSdKill (s.upc k)) &&
  -- D5 futures exist before the manager thread does only while the thread that submitted the first one is on its way to
  --    start it
  (s.mpc != .none || (s.futs.isEmpty || (usersOf s).any (fun k => subEarly (s.upc k)))) &&
  -- D6 a thread about to start the manager thread has found that there is none
  ((usersOf s).all fun k => s.upc k != .subTStart || s.mpc == .none)

/-! ### lock holders -/

/-- as `holderC`, with the idle worker's non-blocking section of the management lock -/
def dcHolder (s : St) : Bool :=
  (match s.oCqWlock with
   | none => s.cqWlock == 1
   | some .F => s.cqWlock == 0 && inCqWF s.fpc
   | _ => false) &&
  (match s.oGshut with
   | none => s.gshut == 1
   | some (.U k) => s.gshut == 0 && inGshutU (s.upc k) && decide (k < s.cfg.scripts.length)
   | _ => false) &&
  (match s.oMgmt with
   | none => s.mgmt == 1
   | some (.U k) => s.mgmt == 0 && inMgmtU' (s.upc k) && decide (k < s.cfg.scripts.length)
   | some .M => s.mgmt == 0 && inMgmtM' s.mpc
   | some (.W p) => s.mgmt == 0 && s.w p == .eRel
   | _ => false) &&
  (match s.oShut with
   | none => s.shut == 1
   | some (.U k) => s.shut == 0 && inShutU' (s.upc k) && decide (k < s.cfg.scripts.length)
   | some .M => s.shut == 0 && inShutM' s.mpc
   | some .F => s.shut == 0 && inShutF' s.fpc
   | _ => false) &&
  (s.broken.isSome ||
    ((match s.oRqWlock with
      | none => s.rqWlock == 1
      | some (.W p) => s.rqWlock == 0 && inRqW (s.w p)
      | _ => false) &&
     (match s.oCqRlock with
      | none => s.cqRlock == 1
      | some (.W p) => s.cqRlock == 0 && inCqR (s.w p)
      | _ => false)))

/-- the strengthened form: converse (`hcExcl` + the worker's management-lock section), exit-lock protocol, the kill loop
    only on a pool flagged broken -/
def dcHolder' (s : St) : Bool :=
  dcHolder s && hcExcl s && (s.allPids.all fun p => !(s.w p == .eRel) || s.oMgmt == some (.W p)) &&
  hcExitOk s && (!hcKillPc s.mpc || s.broken.isSome)

/-! ### the broken path -/

def dcKilled (s : St) : Bool :=
  -- the broken flag is raised together with the shutdown flag; the manager never goes back to its main loop
  (s.broken.isNone || (s.shutdownFlag && mBrkLate s.mpc)) &&
  -- the manager waits for a worker it has killed
  (match s.mpc with | .killJoin p => s.w p == .dead | _ => true) &&
  -- the worker being killed was spawned
  (match s.mpc with | .kill p | .killJoin p => s.allPids.contains p | _ => true) &&
  -- the final phase of a pool flagged broken: the kill loop has emptied the registry
  (s.broken.isNone || !mFinal s.mpc ||
    (s.procDict.isEmpty && (match s.mpc with | .jJoin _ => false | _ => true)))

/-- a worker that has polled the call pipe successfully finds the message still there (until the pool is flagged broken) -/
def dcTRecv (s : St) : Bool := s.broken.isSome || tRecvOk s

/-- a registered worker that is dead has announced its exit (phase 1; Bool form of `NBInv.ann` for dead workers) -/
def dcAnnOk (s : St) : Bool := s.procDict.all fun p => !(s.w p == .dead) || dcAnn s p || mRsp s.mpc

/-- phase 1: the crash-free ingredients of dynamic pools -/
def dcPhase1 (s : St) : Bool :=
  slotOk s && holderOk s && dynOk s && addSlotOk s && wakeOkD s && consOk s && respawnOk s && tRecvOk s && dcAnnOk s

def dcPhase (s : St) : Bool := phase2 s || dcPhase1 s

/-- all of it (on runs without the manager-kill form of D5) -/
def dcAll (s : St) : Bool := dcSmall s && dcHolder' s && dcKilled s && dcTRecv s && dcPhase s

end LokyModel.Exec
