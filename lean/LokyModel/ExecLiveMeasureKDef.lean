import LokyModel.ExecLiveMeasureCDef
import LokyModel.ExecLiveCrash
/-!
# The termination measure for static pools with forced shutdowns (executable part)

`muC` (`LokyModel/ExecLiveMeasureCDef.lean`) ranks the kill loop of `kill_workers` (`kill p`, `killJoin p`) two steps per
registered process ABOVE the manager's `wait`: the loop ends at the first operation of `join_executor_internals`, whose
rank is `waitR B - 1`.  On the broken path the difference is paid by the token `brkTok`, consumed by the step that flags
the pool broken.  With `shutdown(kill_workers=True)` the kill loop is entered a second way: from the end of
`flag_executor_shutting_down` (`flagRel`, rank `waitR B + 1`), when the manager finds the kill flag set — and the pool is
NOT flagged broken, so that `brkTok` is still there.  That entry is paid by a second token, `killTok`, worth `2 * B`,
which exists as long as the manager has not begun to pop registered workers (`mLateK`: kill loop, final phase, ended):

  `muK = muC + killTok`.

`killTok` reads the configuration and the manager's program counter only, and the manager never comes back from the
kill loop / the final phase, so it never grows.  `muC` does not read the kill flag nor the `kill_workers` arguments in the
scripts (`muC s.unkill = muC s`), so that in phase 1 of a run — until the manager sees the flag — `muC_decreasesLF'`
applies to the simulating run of the un-killed pool.

Import-free apart from the model: `Drivers/LiveCheckMeasureK.lean` evaluates it on random walks with forced shutdowns
and crash steps.
-/
namespace LokyModel.Exec

/-- the token consumed when the manager begins to pop the registered workers -/
def killTok (s : St) : Nat := if mLateK s.mpc then 0 else 2 * s.cfg.maxWorkers

/-- **the termination measure, forced shutdowns and worker deaths included** -/
def muK (s : St) : Nat := muC s + killTok s

end LokyModel.Exec
