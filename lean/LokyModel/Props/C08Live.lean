import LokyModel.Lemmas.ExecLiveDeliver
import LokyModel.Lemmas.ExecLiveDeliverStuck
import LokyModel.Props.C01Live
/-!
# C08 — the parallelism is actually delivered (the delivery clause of C08, static pools)

`Props/C08.lean` proves the safety half: in every reachable state at most `max_workers` task bodies execute.  This file
proves the other half for **static pools** (`Cfg.staticPool`: no idle time-out, no memory-leak exit, no failing
initializer, no worker-killing / un-picklable task, no `kill_workers`; everything else arbitrary — see
`Props/C01Live.lean`) on runs **without crash steps** (`ReachableNC`).

Like deadlock freedom it is stated about the states in which nothing *else* can move.  A worker is *inside a body*
(`inBody`) between the step that starts the body (`.task w t → .taskEnd w t`, which logs the execution) and the step
that ends it; `enabledNB s` are the enabled steps other than crashes and body completions.  The theorem: **if only
task bodies can move, then `max_workers` bodies are running, or every unresolved future is being run** — and every
user thread has finished its script or is inside `shutdown(wait=True)` / the interpreter-exit hook waiting for the
manager thread.  So whatever the interleaving, as long as task bodies do not return the executor keeps working until
the pool is saturated or no submitted task is left waiting: no schedule parks a task in the work-id queue, the call
queue or a pipe while a worker sits idle.

The proof needs one ingredient beyond those of deadlock freedom (`slotOk`, `holderOk`, `staticOk`, `wakeOk'`, `consOk`,
`joinOk`): **no lost refill** (`refillOk`, `LokyModel/ExecLiveDeliverDef.lean`; inductive: `Lemmas/ExecLiveDeliver.lean`):
while the manager waits with work ids queued, a wake-up that does not depend on a body returning is on its way, or
the call queue has no more free slots than there are workers holding an unanswered call item.  (`wakeOk` alone does
not give this: it counts a busy worker as a coming wake-up, which is exactly what may never come here.)  The bound
`2·max_workers + 1` of the call queue matters: a waiting manager with queued ids has `cqSem ≤ #unanswered items ≤
max_workers < 2·max_workers + 1`, so the call queue is not empty and no worker is idle.

Random-walk validation before the proof: `Drivers/LiveCheckDeliver.lean`.
-/
namespace LokyModel.Exec

/-- the additional ingredient, for every state a static pool reaches without crash steps -/
theorem C08_static_pool_no_lost_refill (cfg : Cfg) (hc : cfg.staticPool = true) (s : St) (h : ReachableNC cfg s) :
    refillOk s = true := refillOk_reachableNC hc h

/-- … spelled out: while the manager waits with work ids queued and no wake-up is under way, the free slots of the call
    queue are at most the call items that workers have taken and not yet answered. -/
theorem C08_no_lost_refill (cfg : Cfg) (hc : cfg.staticPool = true) (s : St) (h : ReachableNC cfg s) (sn : List Pid)
    (hm : s.mpc = .wait sn) (hw : s.workIds ≠ []) (hnw : wakeNB s = false) : s.cqSem ≤ nPost s := by
  have := C08_static_pool_no_lost_refill cfg hc s h
  unfold refillOk at this
  simp only [hm, hnw, Bool.or_false, Bool.or_eq_true, List.isEmpty_iff, decide_eq_true_eq] at this
  rcases this with h' | h'
  · exact absurd h' hw
  · exact h'

/-- **C08, delivery, static pools.**  In every state that a static pool reaches without crash steps, if no step is
    enabled other than (crashes and) completions of task bodies, then

    * `max_workers` workers are inside a task body, **or** every future that is not resolved is being executed by some
      worker, and
    * every user thread has finished its script or waits for the manager thread to end (`shutdown(wait=True)`,
      interpreter exit — directly or behind another such thread on the global shutdown lock). -/
theorem C08_static_pool_delivers (cfg : Cfg) (hc : cfg.staticPool = true) (s : St) (h : ReachableNC cfg s)
    (hq : enabledNB s = []) :
    (nBodies s = cfg.maxWorkers ∨
      ∀ i, i < s.futs.length → (futOf s i).done = false → ∃ p ∈ s.allPids, ∃ t, s.w p = .taskEnd i t) ∧
    ∀ k, k < cfg.scripts.length → uParked (s.upc k) = true := by
  have hr := h.reachable
  have L := liveInv_reachableNC hc h
  have hcfg := cfg_reachable hr
  have hmw : 0 < s.cfg.maxWorkers := by
    rw [hcfg]
    unfold Cfg.staticPool at hc
    simp only [Bool.and_eq_true, decide_eq_true_eq] at hc
    exact hc.1.1.2
  have := stuckNB_delivered s (pidsInv_reachable hr) (slotOk_of_slotOk' s L.slot)
    (holderOk_of_ok'' L.holder) (staticOk_of_inv L.static) (consOk_of_consOk' s L.cons)
    (joinOk_of_joinOk' s L.join) (refillOk_reachableNC hc h) ?_ ?_ hmw hq
  · unfold Delivered at this
    rw [hcfg] at this
    exact this
  · intro i hi hd
    apply Decidable.byContradiction
    intro hm
    have := (futInv_reachable hr).resolved i hi hm
    rw [hd] at this; cases this
  · intro k hk
    exact (shutInv_reachable hr).acc k (by simp [accU, hk])

/-- the same, read as saturation: **if some submitted task is neither resolved nor being executed, then `max_workers`
    bodies are running** (as soon as nothing but task bodies can move). -/
theorem C08_static_pool_saturates (cfg : Cfg) (hc : cfg.staticPool = true) (s : St) (h : ReachableNC cfg s)
    (hq : enabledNB s = []) (i : Wid) (hi : i < s.futs.length) (hd : (futOf s i).done = false)
    (hnr : ∀ p ∈ s.allPids, ∀ t, s.w p ≠ .taskEnd i t) : nBodies s = cfg.maxWorkers := by
  rcases (C08_static_pool_delivers cfg hc s h hq).1 with h' | h'
  · exact h'
  · obtain ⟨p, hp, t, e⟩ := h' i hi hd
    exact absurd e (hnr p hp t)

/-- the predicate `busy` of the safety half (`Props/C08.lean`, `C08_executing_le`), repeated here because the two files
    cannot be imported together (`Lemmas/ExecAnn.lean` and `Lemmas/ExecNoBreak.lean` both define `announced`) -/
def executing : WPc → Bool
  | .task _ _ | .taskEnd _ _ => true
  | _ => false

/-- in such a state "inside a body" and `executing` (= `busy` of the safety half) coincide: a worker that holds a call
    item whose body it has not started can move -/
theorem executing_eq_inBody_of_quietNB (s : St) (hq : enabledNB s = []) (p : Pid) (hp : p ∈ s.allPids) :
    executing (s.w p) = inBody (s.w p) := by
  cases hb : inBody (s.w p) with
  | true =>
    obtain ⟨w, t, e⟩ := inBody_cases _ hb
    rw [e]; rfl
  | false =>
    have := ((qnb_of s hq).w p hp hb).1
    cases hw : s.w p <;> simp [hw, executing, inBody] at hb ⊢
    unfold stepW at this
    simp [hw] at this

/-- … so the two halves of C08 meet: in a state in which only task bodies can move and a submitted task is still
    waiting, the number of executing workers is *exactly* `max_workers`. -/
theorem C08_static_pool_exactly (cfg : Cfg) (hc : cfg.staticPool = true) (s : St) (h : ReachableNC cfg s)
    (hq : enabledNB s = []) (i : Wid) (hi : i < s.futs.length) (hd : (futOf s i).done = false)
    (hnr : ∀ p ∈ s.allPids, ∀ t, s.w p ≠ .taskEnd i t) :
    (s.allPids.filter (fun p => executing (s.w p))).length = cfg.maxWorkers := by
  have := C08_static_pool_saturates cfg hc s h hq i hi hd hnr
  unfold nBodies at this
  rw [← this]
  congr 1
  apply List.filter_congr
  intro p hp
  exact executing_eq_inBody_of_quietNB s hq p hp

/-- the executable form evaluated by `Drivers/LiveCheckDeliver.lean` -/
theorem C08_static_pool_delivered (cfg : Cfg) (hc : cfg.staticPool = true) (s : St) (h : ReachableNC cfg s)
    (hq : enabledNB s = []) : delivered s = true := by
  obtain ⟨h1, h2⟩ := C08_static_pool_delivers cfg hc s h hq
  have hcfg := cfg_reachable h.reachable
  unfold delivered
  rw [Bool.and_eq_true]
  constructor
  · rcases h1 with h1 | h1
    · simp [h1, hcfg]
    · rw [Bool.or_eq_true]
      right
      rw [List.all_eq_true]
      intro i hi
      cases hd : (futOf s i).done with
      | true => rfl
      | false =>
        obtain ⟨p, hp, t, e⟩ := h1 i (List.mem_range.1 hi) hd
        simp only [Bool.false_or]
        unfold runningBody
        rw [List.any_eq_true]
        exact ⟨p, hp, by simp [e]⟩
  · rw [List.all_eq_true]
    intro k hk
    rw [hcfg] at hk
    exact h2 k (List.mem_range.1 hk)

/-! ### non-vacuity: kernel-evaluated schedules of static pools reaching states in which only task bodies can move -/

/-- two workers, four tasks, `shutdown(wait=True)` -/
def cfgDeliver : Cfg :=
  { maxWorkers := 2, timeout := false, tasks := [{}, { body := .raises }, {}, {}],
    scripts := [[.create, .submit 0, .submit 1, .submit 2, .submit 3, .shutdown true false]] }
def schedDeliver : List (Actor × Variant) :=
  List.replicate 38 (.U 0, .ok) ++ List.replicate 17 (.M, .ok) ++ [(.M, .fail), (.M, .ok), (.M, .ok)] ++
  List.replicate 13 (.F, .ok) ++ List.replicate 6 (.W 100, .ok) ++ List.replicate 6 (.W 101, .ok)

example : cfgDeliver.staticPool = true := by decide
example : schedDeliver.all (fun av => av.2 != .crash) = true := by decide
/-- saturated: both workers are inside a body (tasks 0 and 1), two more call items wait in the call queue, the manager
    waits, the user thread is blocked in `shutdown(wait=True)`; only the two bodies can move -/
example : (run (init cfgDeliver) schedDeliver).map (fun s =>
      ((enabledNB s).isEmpty, (enabledNC s).length, nBodies s, s.futs)) =
    some (true, 2, 2, [.running, .running, .running, .running]) := by decide +kernel
example : (run (init cfgDeliver) schedDeliver).map (fun s => (s.cqPipe.length, s.upc 0, delivered s)) =
    some (2, .sdJoin, true) := by decide +kernel

/-- the hypotheses of the theorem hold of that state -/
example : ∃ s, ReachableNC cfgDeliver s ∧ enabledNB s = [] ∧ nBodies s = cfgDeliver.maxWorkers := by
  have hrun : (run (init cfgDeliver) schedDeliver).isSome = true := by decide +kernel
  obtain ⟨s, hs⟩ := Option.isSome_iff_exists.1 hrun
  refine ⟨s, reachableNC_of_run schedDeliver _ _ .init (by decide) hs, ?_, ?_⟩
  · have : (run (init cfgDeliver) schedDeliver).map (fun s => decide (enabledNB s = [])) = some true := by decide +kernel
    rw [hs] at this; simpa using this
  · have : (run (init cfgDeliver) schedDeliver).map (fun s => nBodies s) = some 2 := by decide +kernel
    rw [hs] at this; simpa [cfgDeliver] using this

/-- one worker, six tasks (more than the 2·1+1 slots of the call queue): the worker runs task 0, two call items wait in
    the call queue, three ids wait in the id queue while one slot is free (`cqSem = 1 = nPost`: the equality case of
    `refillOk`), the manager waits — the result of task 0 is what will wake it -/
def cfgDeliver1 : Cfg :=
  { maxWorkers := 1, timeout := false, tasks := [{}],
    scripts := [[.create, .submit 0, .submit 0, .submit 0, .submit 0, .submit 0, .submit 0]] }
def schedDeliver1 : List (Actor × Variant) :=
  List.replicate 41 (.U 0, .ok) ++ List.replicate 18 (.M, .ok) ++ [(.M, .fail)] ++
  List.replicate 10 (.F, .ok) ++ List.replicate 6 (.W 100, .ok)
example : cfgDeliver1.staticPool = true := by decide
example : (run (init cfgDeliver1) schedDeliver1).map (fun s => ((enabledNB s).isEmpty, nBodies s, s.workIds, s.cqSem)) =
    some (true, 1, [3, 4, 5], 1) := by decide +kernel
example : (run (init cfgDeliver1) schedDeliver1).map (fun s => (nPost s, s.cqPipe.length, wakeNB s, delivered s)) =
    some (1, 2, false, true) := by decide +kernel

/-- fewer tasks than workers: one body runs, the other worker waits for a call item; every unresolved future is being
    executed (the second alternative of the theorem) -/
def cfgDeliver2 : Cfg :=
  { maxWorkers := 2, timeout := false, tasks := [{}], scripts := [[.create, .submit 0]] }
def schedDeliver2 : List (Actor × Variant) :=
  List.replicate 13 (.U 0, .ok) ++ List.replicate 6 (.M, .ok) ++ [(.M, .fail)] ++
  List.replicate 4 (.F, .ok) ++ List.replicate 6 (.W 100, .ok) ++ List.replicate 2 (.W 101, .ok)
example : cfgDeliver2.staticPool = true := by decide
example : (run (init cfgDeliver2) schedDeliver2).map (fun s =>
      ((enabledNB s).isEmpty, nBodies s, s.futs, runningBody s 0, s.w 101, delivered s)) =
    some (true, 1, [.running], true, .gRecv, true) := by decide +kernel

end LokyModel.Exec
