import LokyModel.Lemmas.Resize
/-!
# C10 (operation level) — `_resize` as a program-counter machine (model M1Z, `LokyModel.Resize`)

Every theorem is for ALL streams of observations `E : Nat → Env` (`E n` = the shared state as the calling thread sees
it right after its `(n-1)`-th operation, together with the result of that operation where it matters: `lastAlive`
for an `alive(p)`, `lastTimeout` for a put; `st new E n` = its program counter then, `lb new E n` = the `n`-th operation
it announces) unless a hypothesis restricts the environment (`Quiet`, `Helpful`, defined in `Lemmas/Resize.lean`).
Finite runs (`run`, what the driver computes line by line) are prefixes of stream runs: `run_stream`.
-/
namespace LokyModel.Resize

/-! ## example streams (non-vacuity) -/

private def w1 : Env := { procs := [(10, true)], mw := 1, started := true, feeder := true, nextPid := 11 }
private def w2 : Env := { w1 with procs := [(10, true), (11, false)], mw := 3, nextPid := 12 }
private def w3 : Env := { w1 with procs := [(10, true), (11, true), (12, true)], mw := 3, nextPid := 13 }

/-- grow 1 → 3: two spawns; `alive(12)` returns false at the first look of the arrival wait (observation 14) -/
def growE : Nat → Env :=
  ofList [w1, w1, w1, { w1 with mw := 3 }, { w1 with mw := 3 }, { w1 with mw := 3 }, { w1 with mw := 3 },
          w2, w2, w3, w3, w3, w3, w3, { w3 with lastAlive := false },
          w3, w3, w3, w3] w3

private def s3 (f : Bool) (mw : Nat) : Env :=
  { procs := [(10, true), (11, true), (12, true)], mw := mw, started := true, feeder := f, nextPid := 13 }
private def s1 : Env := { procs := [(12, true)], mw := 1, started := true, feeder := true, nextPid := 13 }

/-- shrink 3 → 1: the first put times out once, the feeder thread is started by the first successful put -/
def shrinkE : Nat → Env :=
  ofList [s3 false 3, s3 false 3, s3 false 3, s3 false 3, s3 false 3, s3 false 1,
          { s3 false 1 with lastTimeout := true }, s3 false 1, s3 true 1, s3 true 1, s3 true 1, s1, s1, s1, s1] s1

/-- shrink 3 → 1 on an executor that breaks while the first put is timing out -/
def brokenE : Nat → Env :=
  ofList [s3 true 3, s3 true 3, s3 true 3, s3 true 3, s3 true 3, s3 true 1,
          { s3 true 1 with lastTimeout := true }]
    { s3 true 1 with lastTimeout := true, broken := true }

example : (List.range 20).map (lb 3 growE) =
    [.acqExec, .acqMgmt, .alive 10, .relMgmt, .acqShut, .acqExit 11, .pstart, .acqExit 12, .pstart, .sendWakeup,
     .relShut, .alive 10, .alive 11, .alive 12, .sleep, .alive 10, .alive 11, .alive 12, .relExec, .ret] := by decide

example : (List.range 16).map (lb 1 shrinkE) =
    [.acqExec, .acqMgmt, .alive 10, .alive 11, .alive 12, .acqCqSem, .acqCqSem, .tstartF, .acqCqSem, .relMgmt,
     .sleep, .acqShut, .sendWakeup, .relShut, .alive 12, .relExec] := by decide

example : (List.range 12).map (lb 1 brokenE) =
    [.acqExec, .acqMgmt, .alive 10, .alive 11, .alive 12, .acqCqSem, .acqCqSem, .relMgmt, .acqShut, .relShut,
     .relExec, .ret] := by decide

/-! ## 1. no spawn on a flagged executor (class of D15/D16) -/

/-- A `pstart` / `acquire(exit[p],B)` is only ever announced if the observation made right after
    `acquire(shut,B)` had `broken = false ∧ shutdown = false`. -/
theorem C10R_no_spawn_when_flagged (new : Nat) (E : Nat → Env) (i : Nat)
    (h : lb new E i = .pstart ∨ ∃ p, lb new E i = .acqExit p) :
    ∃ j, j < i ∧ lb new E j = .acqShut ∧ (E (j + 1)).broken = false ∧ (E (j + 1)).shutdown = false := by
  have key : ∃ j, j < i ∧ lb new E j = .acqShut ∧ flagged (E (j + 1)) = false := by
    rcases h with h | ⟨p, h⟩
    · have hs : st new E i = .spawnAcq := (pstart_iff ..).mp h
      exact spawn_inv new E i (by rw [hs]; rfl)
    · have h' := (acqExit_from h).1
      rcases h' with ⟨hs, hf⟩ | hs
      · cases i with
        | zero => have h0 : st new E 0 = .shutHeld := hs
                  simp at h0
        | succ k =>
          have hs' : st new E (k + 1) = .shutHeld := hs
          rw [st_succ] at hs'
          exact ⟨k, by omega, (shutHeld_iff ..).mp hs', hf⟩
      · have hs' : st new E i = .spawned := hs
        exact spawn_inv new E i (by rw [hs']; rfl)
  obtain ⟨j, hj, hl, hf⟩ := key
  refine ⟨j, hj, hl, ?_⟩
  simpa [flagged] using hf

/-- … and that observation is unambiguous: `acquire(shut,B)` is announced at most once per call. -/
theorem C10R_acqShut_once (new : Nat) (E : Nat → Env) {i j : Nat}
    (hi : lb new E i = .acqShut) (hj : lb new E j = .acqShut) : i = j := acqShut_unique new E hi hj

/-- on a flagged observation after `acquire(shut,B)` the section is left at once -/
theorem C10R_flagged_shut_section (new : Nat) (e : Env) (h : flagged e = true) :
    next new .shutHeld e = (.relShut, .arrive) := by simp [next, h]

example : lb 3 growE 6 = .pstart ∧ lb 3 growE 4 = .acqShut ∧ flagged (growE 5) = false := by decide
example : lb 1 brokenE 8 = .acqShut ∧ flagged (brokenE 9) = true ∧ lb 1 brokenE 9 = .relShut := by decide

/-! ## 2. the manager thread is woken after the spawns (D20) -/

/-- Between a `pstart` and the `release(shut)` there is a `send(wakeup)`. -/
theorem C10R_wake_after_spawn (new : Nat) (E : Nat → Env) {i k : Nat}
    (hi : lb new E i = .pstart) (hk : lb new E k = .relShut) (hik : i < k) :
    ∃ w, i < w ∧ w < k ∧ lb new E w = .sendWakeup := by
  have hsi : st new E i = .spawnAcq := (pstart_iff ..).mp hi
  have hsk : st new E k = .woke := by
    have h' := (relShut_from hk).1
    rcases h' with ⟨hs, _⟩ | hs
    · have hs' : st new E k = .shutHeld := hs
      have := rank_mono new E (Nat.le_of_lt hik)
      rw [hsi, hs'] at this; simp [rank] at this
    · exact hs
  cases k with
  | zero => omega
  | succ k' =>
    rw [st_succ] at hsk
    have hw : lb new E k' = .sendWakeup := (woke_iff ..).mp hsk
    refine ⟨k', ?_, by omega, hw⟩
    by_cases hik' : i = k'
    · subst hik'; rw [hi] at hw; cases hw
    · omega

/-- No `pstart` (nor `acquire(exit[p],B)`) after `send(wakeup)`. -/
theorem C10R_no_spawn_after_wake (new : Nat) (E : Nat → Env) {w i : Nat}
    (hw : lb new E w = .sendWakeup) (hwi : w < i) : lb new E i ≠ .pstart ∧ ∀ p, lb new E i ≠ .acqExit p := by
  have h1 : (next new (st new E w) (E w)).2 = .woke := (sendWakeup_from hw).2.2
  have h2 := rank_mono new E (n := w + 1) (m := i) (by omega)
  rw [st_succ, h1] at h2
  constructor
  · intro hp
    have hs : st new E i = .spawnAcq := (pstart_iff ..).mp hp
    rw [hs] at h2; simp [rank] at h2
  · intro p hp
    rcases (acqExit_from hp).1 with ⟨hs, _⟩ | hs
    · have hs' : st new E i = .shutHeld := hs
      rw [hs'] at h2; simp [rank] at h2
    · have hs' : st new E i = .spawned := hs
      rw [hs'] at h2; simp [rank] at h2

/-- The wake-up is sent iff the spawn branch was taken, even with zero spawns: right after an unflagged
    `acquire(shut,B)` observation with nothing missing. -/
theorem C10R_wake_even_without_spawn (new : Nat) (e : Env) (hf : flagged e = false) (hl : new ≤ e.procs.length) :
    next new .shutHeld e = (.sendWakeup, .woke) := by
  have : ¬ e.procs.length < new := by omega
  simp [next, hf, spawnStep, this]

example : lb 3 growE 8 = .pstart ∧ lb 3 growE 9 = .sendWakeup ∧ lb 3 growE 10 = .relShut := by decide
example : lb 1 shrinkE 12 = .sendWakeup := by decide

/-! ## 3. the sentinels -/

/-- The number of *posted* sentinels (`acquire(cq.sem,B,T)` that ended `ok`) never exceeds
    (#members the counting scan was told are alive) − new … -/
theorem C10R_sentinel_count_le (new : Nat) (E : Nat → Env) (n : Nat) :
    puts new E n ≤ reported new E n - new := by
  have h := sent_inv new E n
  revert h
  cases st new E n <;> simp only [SentInv] <;> omega

/-- … and once the management lock has been released (or the call returned early) it is exactly that number,
    provided no observation made inside the sentinel loop was flagged. -/
theorem C10R_sentinel_count (new : Nat) (E : Nat → Env) (n : Nat) (hr : 6 ≤ rank (st new E n))
    (hclean : ∀ i, inPutLoop (st new E i) = true → flagged (E i) = false) :
    puts new E n = reported new E n - new := by
  have h := sent_inv new E n
  have hc := clean_of new E hclean n
  revert h hr
  cases st new E n <;> simp [SentInv, rank, hc]

/-- the same, phrased with the label: after `release(mgmt)` -/
theorem C10R_sentinel_count_after_release (new : Nat) (E : Nat → Env) {i n : Nat}
    (hi : lb new E i = .relMgmt) (hin : i < n)
    (hclean : ∀ i, inPutLoop (st new E i) = true → flagged (E i) = false) :
    puts new E n = reported new E n - new :=
  C10R_sentinel_count new E n (relMgmt_rank hi hin) hclean

/-- without time-outs and flags this is the count of the `acquire(cq.sem,B,T)` labels themselves -/
theorem C10R_sentinel_count_no_timeout (new : Nat) (E : Nat → Env) (n : Nat) (hr : 6 ≤ rank (st new E n))
    (hclean : ∀ i, inPutLoop (st new E i) = true → flagged (E i) = false)
    (hto : ∀ n, (E n).lastTimeout = false) :
    attempts new E n = reported new E n - new := by
  rw [attempts_eq_puts hto]; exact C10R_sentinel_count new E n hr hclean

/-- All `acquire(cq.sem,B,T)` are announced while the management lock is held: after the `acquire(mgmt,B)` and not
    after a `release(mgmt)`. -/
theorem C10R_sentinels_under_mgmt (new : Nat) (E : Nat → Env) {i : Nat} (h : lb new E i = .acqCqSem) :
    (∃ a, a < i ∧ lb new E a = .acqMgmt) ∧ ∀ r, r ≤ i → lb new E r ≠ .relMgmt := by
  have hr : 3 ≤ rank (st new E i) ∧ rank (st new E i) ≤ 5 := acqCqSem_from h
  refine ⟨mgmt_entered new E i hr.1 (by omega), ?_⟩
  intro r hri hrel
  by_cases hlt : r < i
  · have := relMgmt_rank hrel hlt
    omega
  · have : r = i := by omega
    subst this; rw [h] at hrel; cases hrel

/-- **C10R_put_gives_up_when_flagged** (class of the defect fixed by the time-out put: blocking for ever on a full
    call queue with the management lock held).  On a flagged observation no `acquire(cq.sem,B,T)` is announced,
    wherever the thread is; inside the sentinel loop the next label is `release(mgmt)` — the only exception being
    the `tstart(F)` that completes a put which has just SUCCEEDED, and then `release(mgmt)` follows it. -/
theorem C10R_put_gives_up_when_flagged (new : Nat) (e : Env) (hf : flagged e = true) :
    (∀ pc, (next new pc e).1 ≠ .acqCqSem) ∧
    (∀ rem, next new (.sentFed rem) e = (.relMgmt, .depart)) ∧
    (∀ rem, e.lastTimeout = true ∨ e.feeder = true → next new (.sentAcq rem) e = (.relMgmt, .depart)) ∧
    (∀ rem, e.lastTimeout = false → e.feeder = false → next new (.sentAcq rem) e = (.tstartF, .sentFed rem)) ∧
    (∀ cur cnt, next new (.scan cur [] cnt) e = (.relMgmt, .depart)) := by
  have hs : ∀ rem, sentStep rem e = (.relMgmt, .depart) := by
    intro rem; cases rem <;> simp [sentStep, hf]
  refine ⟨fun pc => no_put_when_flagged hf, fun rem => by simp [next, hs], ?_, ?_, fun cur cnt => by simp [next, scanStep, hs]⟩
  · intro rem h
    rcases h with h | h
    · simp [next, h, hs]
    · by_cases ht : e.lastTimeout = true <;> simp [next, ht, h, hs]
  · intro rem h1 h2; simp [next, h1, h2]

/-- stream form: once flagged (and staying so for one more observation) inside the sentinel loop, the lock is
    released within two operations -/
theorem C10R_put_gives_up_within_two (new : Nat) (E : Nat → Env) (n : Nat) (hr : rank (st new E n) = 5)
    (h1 : flagged (E n) = true) (h2 : flagged (E (n + 1)) = true) :
    lb new E n = .relMgmt ∨ lb new E (n + 1) = .relMgmt := by
  have key := C10R_put_gives_up_when_flagged new (E n) h1
  have key2 := C10R_put_gives_up_when_flagged new (E (n + 1)) h2
  cases hs : st new E n with
  | sentFed rem => left; rw [lb_eq, hs, key.2.1]
  | sentAcq rem =>
    by_cases h : (E n).lastTimeout = true ∨ (E n).feeder = true
    · left; rw [lb_eq, hs, key.2.2.1 rem h]
    · right
      have h' : (E n).lastTimeout = false ∧ (E n).feeder = false := by
        cases h3 : (E n).lastTimeout <;> cases h4 : (E n).feeder <;> simp_all
      have hs2 : st new E (n + 1) = .sentFed rem := by rw [step_eq hs, key.2.2.2.1 rem h'.1 h'.2]
      rw [lb_eq, hs2, key2.2.1]
  | _ => rw [hs] at hr; simp [rank] at hr

example : puts 1 shrinkE 16 = 2 ∧ reported 1 shrinkE 16 = 3 ∧ attempts 1 shrinkE 16 = 3 := by decide
example : ∀ i, i < 16 → inPutLoop (st 1 shrinkE i) = true → flagged (shrinkE i) = false := by decide
example : puts 1 brokenE 12 = 0 ∧ reported 1 brokenE 12 = 3 ∧ attempts 1 brokenE 12 = 2 ∧
    flagged (brokenE 7) = true ∧ lb 1 brokenE 7 = .relMgmt := by decide

/-! ## 4. the spawn loop never stops short -/

/-- When the spawn loop ends — `send(wakeup)` is what ends it — the last observation had `new ≤ len procs`. -/
theorem C10R_spawns_fill_up (new : Nat) (E : Nat → Env) {n : Nat} (h : lb new E n = .sendWakeup) :
    new ≤ (E n).procs.length := (sendWakeup_from h).2.1

/-- At each test of the spawn loop, with workers missing in the observation, one more spawn is started, with the
    exit lock of the pid the observation announces; otherwise the loop ends with the wake-up. -/
theorem C10R_spawn_loop_step (new : Nat) (pc : Pc) (e : Env)
    (hpc : pc = .spawned ∨ (pc = .shutHeld ∧ flagged e = false)) :
    (e.procs.length < new → next new pc e = (.acqExit e.nextPid, .spawnAcq)) ∧
    (new ≤ e.procs.length → next new pc e = (.sendWakeup, .woke)) := by
  rcases hpc with rfl | ⟨rfl, hf⟩
  · constructor
    · intro h; simp [next, spawnStep, h]
    · intro h; have : ¬ e.procs.length < new := by omega
      simp [next, spawnStep, this]
  · constructor
    · intro h; simp [next, spawnStep, h, hf]
    · intro h; have : ¬ e.procs.length < new := by omega
      simp [next, spawnStep, this, hf]

example : lb 3 growE 9 = .sendWakeup ∧ (growE 9).procs.length = 3 := by decide

/-! ## 5. leaving the arrival wait (D6) -/

/-- one test of the loop condition on one observation: leave at once iff flagged or nobody is registered -/
theorem C10R_leaves_arrival_wait_step (new : Nat) (e : Env) :
    next new .arrive e = (.relExec, .done) ↔ (flagged e = true ∨ e.procs = []) := by
  by_cases hf : flagged e = true
  · simp [next, hf]
  · cases hp : e.procs with
    | nil => simp [next, hf, pids, hp, arrStep]
    | cons x xs => simp [next, hf, pids, hp, arrStep]

/-- One iteration of the arrival wait, started on an unflagged observation `e0` and followed by one observation per
    `alive()` call: the call leaves (`alive(p)` for every member of the CURRENT registered set of `e0`, then
    `release(execlock)`, no `sleep`) iff every one of these calls returned true. -/
theorem C10R_leaves_arrival_wait_iff (new : Nat) (e0 : Env) (es : List Env) (hf : flagged e0 = false)
    (hlen : es.length = (pids e0).length) :
    run new .arrive (e0 :: es) = ((pids e0).map .alive ++ [.relExec], .done) ↔ ∀ e ∈ es, e.lastAlive = true := by
  rw [← scanOK_iff (pids e0) es hlen]
  cases hp : pids e0 with
  | nil =>
    have : es = [] := by rw [hp] at hlen; simpa using hlen
    subst this
    simp [run_cons, next, hf, hp, arrStep, scanOK]
  | cons p ps =>
    rw [hp] at hlen
    have h := arrScan_run new p ps es (by simpa using hlen)
    have hn : next new .arrive e0 = (.alive p, .arrScan p ps) := by simp [next, hf, hp, arrStep]
    rw [run_cons, hn, ← h]
    constructor
    · intro h1
      simp only [List.map_cons, List.cons_append, Prod.mk.injEq, List.cons.injEq, true_and] at h1
      exact Prod.ext h1.1 h1.2
    · intro h1; simp [h1]

/-- In every run: a `release(execlock)` announced from the arrival wait on observation `E n` means that `E n` is
    flagged, or that the `all(...)` just completed ran over the registered set of an unflagged observation `E j` of
    THIS iteration (taken after the last `sleep` / `release(shut)`, never a stale snapshot from before the wait) and
    every one of its `alive()` calls returned true (the `i`-th result is `(E (j+1+i)).lastAlive`). -/
theorem C10R_leaves_arrival_wait_only_if (new : Nat) (E : Nat → Env) {n : Nat}
    (h : lb new E n = .relExec) (hr : rank (st new E n) = 10) :
    flagged (E n) = true ∨
    ∃ j, j ≤ n ∧ st new E j = .arrive ∧ flagged (E j) = false ∧ n = j + (pids (E j)).length ∧
      ∀ i, i < (pids (E j)).length → (E (j + 1 + i)).lastAlive = true := by
  rcases relExec_from h with ⟨hs, _⟩ | ⟨hs, hc⟩ | ⟨cur, hs, ha⟩
  · have hs' : st new E n = .locked := hs
    rw [hs'] at hr; simp [rank] at hr
  · have hs' : st new E n = .arrive := hs
    rcases hc with hc | hc
    · exact Or.inl hc
    · by_cases hf : flagged (E n) = true
      · exact Or.inl hf
      · exact Or.inr ⟨n, Nat.le_refl _, hs', by simpa using hf, by simp [hc], by simp [hc]⟩
  · have hs' : st new E n = .arrScan cur [] := hs
    obtain ⟨j, seen, hj, hsj, hfj, hp, hn, hal⟩ := arr_inv new E n cur [] hs'
    refine Or.inr ⟨j, by omega, hsj, hfj, by rw [hp]; simp; omega, ?_⟩
    intro i hi
    rw [hp] at hi
    by_cases hlt : i < seen.length
    · exact hal i hlt
    · have : j + 1 + i = n := by simp at hi; omega
      rw [this]; exact ha

/-- conversely, an `alive()` returning false sends the thread to sleep and the next test looks at the registry again -/
theorem C10R_arrival_wait_sleeps_on_dead (new : Nat) (cur : Nat) (todo : List Nat) (e : Env)
    (h : e.lastAlive = false) : next new (.arrScan cur todo) e = (.sleep, .arrive) := by simp [next, h]

example : lb 3 growE 14 = .sleep ∧ st 3 growE 15 = .arrive ∧ lb 3 growE 18 = .relExec := by decide

/-! ## 6. the size at return under a quiet environment -/

/-- Under `Quiet` (nobody flags the executor; the thread's own write of `_max_workers` is visible; between the end
    of the departure wait and the arrival wait the registered set changes only by the thread's own `pstart`s, one
    worker each; during the arrival wait the registered set is stable) the observation at the `release(execlock)`
    that ends the arrival wait has exactly `new` registered workers, `_max_workers = new`, and the `all(...)` that
    just completed called `alive()` on every CURRENTLY registered worker (the snapshot of `E j` is the registered set
    of `E n`) and each call returned true.  Nothing is assumed about how the pool shrinks (the departure wait itself
    guarantees `len procs ≤ new`) nor about the results of the `alive()` calls (a false one only delays the return). -/
theorem C10R_size_at_return {new : Nat} {E : Nat → Env} (hq : Quiet new E) {n : Nat}
    (h : lb new E n = .relExec) (hr : rank (st new E n) = 10) :
    (E n).procs.length = new ∧ (E n).mw = new ∧
    ∃ j, j ≤ n ∧ st new E j = .arrive ∧ pids (E j) = pids (E n) ∧ n = j + (E n).procs.length ∧
      ∀ i, i < (E n).procs.length → (E (j + 1 + i)).lastAlive = true := by
  have hlen := len_inv hq n
  refine ⟨?_, hq.ownMw n (by omega) (by omega), ?_⟩
  · revert hlen hr
    cases st new E n <;> simp [LenInv, rank]
  · rcases C10R_leaves_arrival_wait_only_if new E h hr with hf | ⟨j, hj, hsj, _, hn, hal⟩
    · rcases relExec_from h with ⟨hs, _⟩ | ⟨hs, _⟩ | ⟨cur, hs, _⟩
      · have hs' : st new E n = .locked := hs
        rw [hs'] at hr; simp [rank] at hr
      · have hs' : st new E n = .arrive := hs
        rw [hq.noFlag n (Or.inr (Or.inr hs'))] at hf; cases hf
      · -- flagged observations are not excluded inside a scan: use the snapshot invariant directly
        have hs' : st new E n = .arrScan cur [] := hs
        obtain ⟨j, seen, hj, hsj, _, hp, hn, hal⟩ := arr_inv new E n cur [] hs'
        have hd : n = j + (n - j) := by omega
        have hpc : pids (E n) = pids (E j) := by
          rw [hd]; exact pids_const hq (by rw [hsj]; rfl) (n - j) (by rw [← hd]; exact hr)
        have hl : (E n).procs.length = seen.length + 1 := by
          have := congrArg List.length hpc
          rw [hp] at this; simpa [pids] using this
        refine ⟨j, by omega, hsj, hpc.symm, by omega, ?_⟩
        intro i hi
        by_cases hlt : i < seen.length
        · exact hal i hlt
        · have : j + 1 + i = n := by omega
          rw [this]
          rcases relExec_from h with ⟨hs2, _⟩ | ⟨hs2, _⟩ | ⟨c2, _, ha⟩
          · have hs2' : st new E n = .locked := hs2
            rw [hs2'] at hs'; cases hs'
          · have hs2' : st new E n = .arrive := hs2
            rw [hs2'] at hs'; cases hs'
          · exact ha
    · have hd : n = j + (n - j) := by omega
      have hpc : pids (E n) = pids (E j) := by
        rw [hd]; exact pids_const hq (by rw [hsj]; rfl) (n - j) (by rw [← hd]; exact hr)
      have hl : (E n).procs.length = (pids (E j)).length := by
        have := congrArg List.length hpc
        simpa [pids] using this
      exact ⟨j, hj, hsj, hpc.symm, by omega, fun i hi => hal i (by omega)⟩

private theorem growE_done (n : Nat) (hn : 19 ≤ n) : st 3 growE n = .done :=
  done_stays 3 growE hn (by decide)
private theorem growE_tail (n : Nat) (hn : 19 ≤ n) : growE n = w3 := ofList_ge (by simp; omega)

/-- non-vacuity: the grow 1 → 3 stream is quiet, and the conclusion is reached at operation 18 -/
theorem growE_quiet : Quiet 3 growE where
  noFlag := by
    intro n _
    by_cases hn : n < 19
    · exact (by decide : ∀ n, n < 19 → flagged (growE n) = false) n hn
    · rw [growE_tail n (by omega)]; rfl
  ownMw := by
    intro n h1 h2
    by_cases hn : n < 19
    · exact (by decide : ∀ n, n < 19 → 6 ≤ rank (st 3 growE n) → (growE n).mw = 3) n hn h1
    · rw [growE_done n (by omega)] at h2; simp [rank] at h2
  lenFrozen := by
    intro n h
    by_cases hn : n < 19
    · exact (by decide : ∀ n, n < 19 → (lb 3 growE n = .acqShut ∨ (7 ≤ rank (st 3 growE n) ∧ rank (st 3 growE n) ≤ 9)) →
        (growE (n + 1)).procs.length = (growE n).procs.length + if lb 3 growE n = .pstart then 1 else 0) n hn h
    · have hd := growE_done n (by omega)
      rcases h with h | h
      · rw [lb_eq, hd] at h; simp [next] at h
      · rw [hd] at h; simp [rank] at h
  arrStay := by
    intro n h
    by_cases hn : n < 19
    · exact (by decide : ∀ n, n < 19 → rank (st 3 growE n) = 10 → pids (growE (n + 1)) = pids (growE n)) n hn h
    · rw [growE_done n (by omega)] at h; simp [rank] at h

example : lb 3 growE 18 = .relExec ∧ rank (st 3 growE 18) = 10 ∧ (growE 18).procs.length = 3 ∧ (growE 18).mw = 3 :=
  ⟨by decide, by decide, (C10R_size_at_return growE_quiet (n := 18) (by decide) (by decide)).1,
   (C10R_size_at_return growE_quiet (n := 18) (by decide) (by decide)).2.1⟩

/-! ## 7. termination -/

/-- If the environment is eventually helpful (`Helpful new E N`: from `N` on no pending job; `len procs ≤ new` or
    broken; every `alive()` call of the arrival scan returns true or the executor is flagged; put time-outs have
    stopped or a flag is raised; an own `pstart` is followed by a larger registered set; during the arrival wait
    the flags are not reset), then — wherever the call is at `N` — it returns after finitely many operations. -/
theorem C10R_terminates {new : Nat} {E : Nat → Env} {N : Nat} (H : Helpful new E N) :
    ∃ n, st new E n = .done ∧ ∀ m, n ≤ m → lb new E m = .ret := by
  obtain ⟨n, hn⟩ := reach_any H
  exact ⟨n, hn, fun m hm => (ret_iff ..).mpr (done_stays new E hm hn)⟩

/-- non-vacuity: from observation 15 on (every `alive()` returns true) the grow stream is helpful -/
theorem growE_helpful : Helpful 3 growE 15 where
  pend := by
    intro n _
    by_cases hn : n < 19
    · exact (by decide : ∀ n, n < 19 → (growE n).pending = 0) n hn
    · rw [growE_tail n (by omega)]; rfl
  dep := by
    intro n _
    by_cases hn : n < 19
    · exact Or.inl ((by decide : ∀ n, n < 19 → (growE n).procs.length ≤ 3) n hn)
    · rw [growE_tail n (by omega)]; exact Or.inl (by decide)
  allAlive := by
    intro n h _
    by_cases hn : n < 19
    · exact Or.inl ((by decide : ∀ n, n < 19 → 15 ≤ n → (growE n).lastAlive = true) n hn h)
    · rw [growE_tail n (by omega)]; exact Or.inl rfl
  putOk := by
    intro n _ _
    by_cases hn : n < 19
    · exact Or.inl ((by decide : ∀ n, n < 19 → (growE n).lastTimeout = false) n hn)
    · rw [growE_tail n (by omega)]; exact Or.inl rfl
  grow := by
    intro n h hp
    by_cases hn : n < 18
    · exact absurd hp ((by decide : ∀ n, n < 18 → 15 ≤ n → lb 3 growE (n + 1) ≠ .pstart) n hn h)
    · rw [lb_eq, growE_done (n + 1) (by omega)] at hp; simp [next] at hp
  stick := by
    intro n _ h
    by_cases hn : n < 19
    · exact (by decide : ∀ n, n < 19 → rank (st 3 growE n) = 10 → flagged (growE n) = true →
        flagged (growE (n + 1)) = true) n hn h
    · rw [growE_done n (by omega)] at h; simp [rank] at h

private theorem brokenE_tail (n : Nat) (hn : 7 ≤ n) :
    brokenE n = { s3 true 1 with lastTimeout := true, broken := true } := ofList_ge (by simp; omega)
private theorem brokenE_done (n : Nat) (hn : 11 ≤ n) : st 1 brokenE n = .done :=
  done_stays 1 brokenE hn (by decide)

/-- non-vacuity with put time-outs that never stop: the executor is flagged broken from observation 7 on -/
theorem brokenE_helpful : Helpful 1 brokenE 7 where
  pend := by intro n h; rw [brokenE_tail n h]; rfl
  dep := by intro n h; rw [brokenE_tail n h]; exact Or.inr rfl
  allAlive := by intro n h _; rw [brokenE_tail n h]; exact Or.inr rfl
  putOk := by intro n h _; rw [brokenE_tail n h]; exact Or.inr rfl
  grow := by
    intro n h hp
    by_cases hn : n < 11
    · exact absurd hp ((by decide : ∀ n, n < 11 → lb 1 brokenE (n + 1) ≠ .pstart) n hn)
    · rw [lb_eq, brokenE_done (n + 1) (by omega)] at hp; simp [next] at hp
  stick := by intro n h _ _; rw [brokenE_tail (n + 1) (by omega)]; rfl

example : ∃ n, st 3 growE n = .done := (C10R_terminates growE_helpful).imp fun _ h => h.1
example : ∃ n, st 1 brokenE n = .done := (C10R_terminates brokenE_helpful).imp fun _ h => h.1

/-! ## 8. the early returns -/

/-- `new = _max_workers` or no manager thread yet, in the observation made right after `acquire(execlock,B)`:
    the run is `acquire(execlock,B)`, `release(execlock)`, then only `return`. -/
theorem C10R_early_return (new : Nat) (E : Nat → Env) (h : new = (E 1).mw ∨ (E 1).started = false) :
    lb new E 0 = .acqExec ∧ lb new E 1 = .relExec ∧ ∀ n, 2 ≤ n → lb new E n = .ret := by
  have h2 : st new E 2 = .done := by
    show (next new (next new .entry (E 0)).2 (E 1)).2 = .done
    rcases h with h | h
    · simp [next, h]
    · by_cases hm : new = (E 1).mw <;> simp [next, hm, h]
  refine ⟨rfl, ?_, fun n hn => (ret_iff ..).mpr (done_stays new E hn h2)⟩
  show (next new (next new .entry (E 0)).2 (E 1)).1 = .relExec
  rcases h with h | h
  · simp [next, h]
  · by_cases hm : new = (E 1).mw <;> simp [next, hm, h]

theorem C10R_early_return_run (new : Nat) (e0 e1 : Env) (es : List Env) (h : new = e1.mw ∨ e1.started = false) :
    run new .entry (e0 :: e1 :: es) = (.acqExec :: .relExec :: List.replicate es.length .ret, .done) := by
  have : next new .locked e1 = (.relExec, .done) := by
    rcases h with h | h
    · simp [next, h]
    · by_cases hm : new = e1.mw <;> simp [next, hm, h]
  have h0 : next new .entry e0 = (.acqExec, .locked) := rfl
  rw [run_cons, h0, run_cons, this, run_done]

/-- otherwise the call goes on to the job wait: nothing is released -/
theorem C10R_no_early_return (new : Nat) (E : Nat → Env) (h1 : new ≠ (E 1).mw) (h2 : (E 1).started = true) :
    lb new E 1 = .sleep ∨ lb new E 1 = .acqMgmt := by
  show (next new (next new .entry (E 0)).2 (E 1)).1 = .sleep ∨ (next new (next new .entry (E 0)).2 (E 1)).1 = .acqMgmt
  by_cases hp : (E 1).pending = 0 <;> simp [next, h1, h2, jobStep, hp]

example : (run 2 .entry [{ mw := 2, started := true }, { mw := 2, started := true, pending := 5 }, {}, {}]).1 =
    [.acqExec, .relExec, .ret, .ret] := by decide
example : (run 4 .entry [{ mw := 2 }, { mw := 2 }, { mw := 4 }]).1 = [.acqExec, .relExec, .ret] := by decide

end LokyModel.Resize
