import LokyModel.Lemmas.TrackerSpec

/-!
# C11 — the resource tracker's reference counts are exact

Property theorems over the model `LokyModel.Tracker` (M3): the implementation-shaped loop
(dict of dicts, `KeyError` / `ValueError` / `RuntimeError` / `UnicodeDecodeError` paths, per-line
barrier, end-of-life sweep) against the one-line specification `bal`.

Quantifiers: every finite sequence of lines (arbitrary bytes), every name (arbitrary ASCII text,
`:` and blanks included, the empty name included), the three resource types, every behaviour of
the clean-up functions (`Env`).  `history pre` is what the lines of `pre` parse to.
-/

namespace LokyModel.Tracker

/-! ## the specification (definitions in `LokyModel/TrackerSpec.lean`)

* `balStep k n b p` — effect of one parsed line on the balance of key `(k, n)`: REGISTER `b + 1`,
  UNREGISTER `0`, MAYBE_UNLINK `b - 1` when `0 < b` (refused otherwise); any other line: `b`.
* `bal k n hist = hist.foldl (balStep k n) 0`, `history lines = lines.map parseLine`.
* `specEvents env hist p` — what must happen on a line, as a function of `bal` only.
* `cleanCount k n outs` — how often `(k, n)` is destroyed in a list of per-line effects.
* `IsRequest s` — `s = wire c n k` for a command, an ASCII name and a type (no parser involved);
  `IsProbe s` — ASCII and `PROBE:a:b`; `Blank s` — only blanks. -/

/-! ## refinement -/

/-- **Refinement.**  After any sequence of lines the registry is well formed (unique names, every
    stored count ≥ 1), the count it holds for every key is `bal`, and what it does on the next line
    is what the specification prescribes. -/
theorem tracker_refines_spec (env : Env) (pre : List Bytes) :
    Inv (runReg env .init pre) ∧
    (∀ k n, cnt (runReg env .init pre) k n = bal k n (history pre)) ∧
    (∀ l, (handleLine env (runReg env .init pre) l).2 = specEvents env (history pre) (parseLine l)) :=
  refines_core env pre

/-- a name is in the registry exactly when its balance is positive -/
theorem tracked_iff_bal_pos (env : Env) (pre : List Bytes) (k : Kind) (n : Name) :
    ((runReg env .init pre) k).get? n ≠ none ↔ 0 < bal k n (history pre) := by
  obtain ⟨hinv, hcnt, _⟩ := tracker_refines_spec env pre
  have h0 := cnt_eq_zero_iff _ hinv k n
  have hn := cnt_nonneg _ hinv k n
  rw [hcnt] at h0 hn
  constructor
  · intro h
    have : bal k n (history pre) ≠ 0 := fun e => h (h0.1 e)
    omega
  · intro h e
    have := h0.2 e
    omega

/-! ## destroyed exactly at the request that brings the count to zero -/

/-- **cleanup_iff_hits_zero.**  The clean-up function is invoked for `(k, n)` at a request iff that
    request is `MAYBE_UNLINK k n` and the balance before it is 1 (it brings it to zero). -/
theorem cleanup_iff_hits_zero (env : Env) (pre : List Bytes) (l : Bytes) (k : Kind) (n : Name) :
    .clean k n ∈ (handleLine env (runReg env .init pre) l).2 ↔
      parseLine l = .req .maybeUnlink k n ∧ bal k n (history pre) = 1 := by
  have hc := count_events env pre l k n
  constructor
  · intro hm
    have hpos := List.count_pos_iff.2 hm
    by_cases h : parseLine l = .req .maybeUnlink k n ∧ bal k n (history pre) = 1
    · exact h
    · rw [if_neg h] at hc; omega
  · intro h
    rw [if_pos h] at hc
    exact List.count_pos_iff.1 (by omega)

example : Event.clean .file [97] ∈
    (handleLine (fun _ _ => .ok) (runReg (fun _ _ => .ok) .init [wire .register [97] .file ++ [newline]])
      (wire .maybeUnlink [97] .file ++ [newline])).2 := by decide

/-- and it is destroyed once by that request, not several times -/
theorem cleanup_once_per_request (env : Env) (pre : List Bytes) (l : Bytes) (k : Kind) (n : Name) :
    (handleLine env (runReg env .init pre) l).2.count (.clean k n) ≤ 1 := by
  rw [count_events]; split <;> omega

/-- **never_while_positive.**  No request that leaves a positive count destroys the resource, and
    none that finds a count of two or more does. -/
theorem never_while_positive (env : Env) (pre : List Bytes) (l : Bytes) (k : Kind) (n : Name)
    (h : 0 < bal k n (history (pre ++ [l])) ∨ 2 ≤ bal k n (history pre)) :
    .clean k n ∉ (handleLine env (runReg env .init pre) l).2 := by
  intro hm
  obtain ⟨hp, h1⟩ := (cleanup_iff_hits_zero env pre l k n).1 hm
  rcases h with h | h
  · rw [bal_snoc, hp, h1] at h
    simp [balStep] at h
  · omega

example : 0 < bal .file [97] (history ([wire .register [97] .file, wire .register [97] .file] ++
    [wire .maybeUnlink [97] .file])) := by decide

/-- **never_after_unregister.**  Once a key has been unregistered, nothing destroys it until it is
    registered again. -/
theorem never_after_unregister (env : Env) (p1 p2 : List Bytes) (u l : Bytes) (k : Kind) (n : Name)
    (hu : parseLine u = .req .unregister k n)
    (hno : ∀ x ∈ p2, parseLine x ≠ .req .register k n) :
    .clean k n ∉ (handleLine env (runReg env .init (p1 ++ u :: p2)) l).2 := by
  intro hm
  have h1 := ((cleanup_iff_hits_zero env _ l k n).1 hm).2
  have : bal k n (history (p1 ++ u :: p2)) = 0 := by
    have e : p1 ++ u :: p2 = (p1 ++ [u]) ++ p2 := by simp
    rw [e]
    unfold bal history
    rw [List.map_append, List.foldl_append]
    have hb := bal_snoc k n p1 u
    unfold bal history at hb
    rw [hb, hu]
    simp only [balStep, and_self, if_true]
    exact bal_zero_of_no_register k n p2 hno
  omega

example : parseLine (wire .unregister [97] .file) = .req .unregister .file [97] := by decide

/-- **exactly_once_between_registers (at most once).**  Over any stretch of requests that contains no
    REGISTER of the key — from any reachable state, whatever else is interleaved — the key is
    destroyed at most once. -/
theorem exactly_once_between_registers (env : Env) (pre seg : List Bytes) (k : Kind) (n : Name)
    (hno : ∀ x ∈ seg, parseLine x ≠ .req .register k n) :
    cleanCount k n (outputs env (runReg env .init pre) seg) ≤ 1 := by
  have := at_most_once_aux env k n seg pre hno
  split at this <;> omega

example : ∀ x ∈ [wire .maybeUnlink [97] .file, wire .maybeUnlink [97] .file],
    parseLine x ≠ .req .register .file [97] := by decide

/-! ## end of life -/

/-- **sweep_all_once.**  At end of life everything still counted is destroyed exactly once and
    nothing else is (clean-up functions raising at most `Exception`). -/
theorem sweep_all_once (env : Env) (hnb : NoBase env) (lines : List Bytes) (k : Kind) (n : Name) :
    (sweep env (runReg env .init lines)).1.count (.clean k n) = (if 0 < bal k n (history lines) then 1 else 0)
    ∧ (sweep env (runReg env .init lines)).2 = false := by
  obtain ⟨hinv, _, _⟩ := tracker_refines_spec env lines
  have ht := tracked_iff_bal_pos env lines k n
  rw [sweep_noabort_eq env hnb]
  refine ⟨?_, rfl⟩
  simp only [List.count_append]
  have own := fun k => sweepKind_count env hnb k ((runReg env .init lines) k) n
  have other := fun (k' : Kind) (hk : k ≠ k') =>
    count_eq_zero_of_kind (n := n) (sweepKind_kind env k' ((runReg env .init lines) k')) hk
  have hk := count_keys_nodup _ (hinv k).1 n
  have hfin : ((runReg env .init lines) k).keys.count n = if 0 < bal k n (history lines) then 1 else 0 := by
    rw [hk]
    by_cases hb : 0 < bal k n (history lines)
    · rw [if_pos hb, if_pos (ht.2 hb)]
    · rw [if_neg hb, if_neg (fun h => hb (ht.1 h))]
  cases k
  · rw [other .file (by decide), other .semlock (by decide), own .folder, hfin]; simp
  · rw [other .folder (by decide), other .semlock (by decide), own .file, hfin]; simp
  · rw [other .file (by decide), other .folder (by decide), own .semlock, hfin]; simp

example : NoBase (fun _ _ => .ok) := by intro _ _ h; cases h

/-- **destroyed exactly once.**  A tracked key that is neither re-registered nor unregistered for the
    rest of the tracker's life is destroyed exactly once: either by the request that brings its
    count to zero or by the end-of-life sweep, never both, never neither. -/
theorem destroyed_exactly_once (env : Env) (hnb : NoBase env) (pre seg : List Bytes) (k : Kind) (n : Name)
    (htracked : 0 < bal k n (history pre))
    (hno : ∀ x ∈ seg, parseLine x ≠ .req .register k n ∧ parseLine x ≠ .req .unregister k n) :
    cleanCount k n (outputs env (runReg env .init pre) seg)
      + (sweep env (runReg env .init (pre ++ seg))).1.count (.clean k n) = 1 := by
  have h := exactly_once_aux env k n seg pre hno
  rw [if_pos htracked] at h
  rw [(sweep_all_once env hnb (pre ++ seg) k n).1]
  exact h

example : 0 < bal .folder [97, 58, 98] (history [wire .register [97, 58, 98] .folder]) := by decide

/-- **sweep_folders_last.**  In the end-of-life sweep no file or semaphore is destroyed after a
    folder (whatever the clean-up functions do, abandoned sweeps included). -/
theorem sweep_folders_last (env : Env) (reg : Registry) :
    ∃ A B, (sweep env reg).1 = A ++ B ∧ (∀ n, .clean .folder n ∉ A) ∧
      (∀ k n, .clean k n ∈ B → k = .folder) := by
  have e : sweepOrder = [.file, .semlock] ++ [.folder] := by decide
  unfold sweep
  rw [e, sweepKinds_append]
  have hA : ∀ n, Event.clean .folder n ∉ (sweepKinds env reg [.file, .semlock]).1 := by
    intro n hm
    have := sweepKinds_kinds env reg _ _ hm .folder n rfl
    simp at this
  by_cases ha : (sweepKinds env reg [.file, .semlock]).2 = true
  · rw [if_pos ha]
    exact ⟨_, [], by simp, hA, by simp⟩
  · rw [if_neg ha]
    refine ⟨_, _, rfl, hA, fun k n hm => ?_⟩
    have := sweepKinds_kinds env reg _ _ hm k n rfl
    simpa using this

/-! ## malformed and unknown requests -/

/-- **bad_line_is_noop.**  Every line that is neither a well-formed request `CMD:name:rtype` (known
    command, known type, ASCII) nor a `PROBE:x:y` ping — unknown command, unknown type, undecodable
    bytes, missing fields, empty, truncated — is reported through the barrier and skipped: registry
    unchanged, nothing destroyed. -/
theorem bad_line_is_noop (env : Env) (reg : Registry) (l : Bytes)
    (hreq : ¬ IsRequest (strip l)) (hprobe : ¬ IsProbe (strip l)) :
    ∃ e, parseLine l = .bad e ∧ handleLine env reg l = (reg, [.error e]) := by
  suffices h : ∃ e, parseLine l = .bad e by
    obtain ⟨e, he⟩ := h
    exact ⟨e, he, by simp [handleLine, he, handle]⟩
  unfold parseLine
  by_cases hasc : isAscii (strip l) = true
  · by_cases hlen : (splitOn colon (strip l)).length < 3
    · exact ⟨.malformed, by simp [hasc, hlen]⟩
    · have hd := split_decomp colon (strip l) (by omega)
      simp only [hasc, hlen, not_true_eq_false, if_false, fields]
      by_cases hpr : (splitOn colon (strip l)).headD [] = bPROBE
      · exfalso
        apply hprobe
        refine ⟨hasc, joinWith colon (splitOn colon (strip l)).tail.dropLast,
          (splitOn colon (strip l)).getLastD [], ?_⟩
        rw [← hpr]; exact hd
      · simp only [hpr, if_false]
        cases hk : kindOf ((splitOn colon (strip l)).getLastD []) with
        | none => exact ⟨.unknownType, rfl⟩
        | some k =>
          cases hc : cmdOf ((splitOn colon (strip l)).headD []) with
          | none => exact ⟨.unknownCmd, rfl⟩
          | some c =>
            exfalso
            apply hreq
            refine ⟨c, joinWith colon (splitOn colon (strip l)).tail.dropLast, k, ?_, ?_⟩
            · rw [hd] at hasc; exact isAscii_mid hasc
            · unfold wire; rw [← cmdOf_some hc, ← kindOf_some hk]; exact hd
  · exact ⟨.decode, by simp [hasc]⟩

/-- the two-field shapes `CMD:rtype` (formerly executed on the empty name, defect D11) are covered -/
example : ¬ IsRequest (strip (bREGISTER ++ colon :: bFile ++ [newline])) := by
  rintro ⟨c, n, k, _, h⟩
  have h2 := congrArg (fun s => (splitOn colon s).length) h
  simp only [splitOn_wire] at h2
  have : (splitOn colon (strip (bREGISTER ++ colon :: bFile ++ [newline]))).length = 2 := by decide
  have hn := splitOn_ne_nil colon n
  rw [this] at h2
  cases hs : splitOn colon n with
  | nil => exact hn hs
  | cons a t => rw [hs] at h2; simp at h2

example : ¬ IsProbe (strip (bREGISTER ++ colon :: bFile ++ [newline])) := by
  rintro ⟨_, a, b, h⟩
  have h1 : (strip (bREGISTER ++ colon :: bFile ++ [newline])).head? = some 82 := by decide
  rw [h] at h1
  simp [bPROBE] at h1

example : parseLine (bREGISTER ++ colon :: bFile ++ [newline]) = .bad .malformed := by decide

example : parseLine (bMAYBE_UNLINK ++ colon :: bFolder ++ [newline]) = .bad .malformed := by decide

example : parseLine (bUNREGISTER ++ colon :: bSemlock) = .bad .malformed := by decide

example : parseLine bREGISTER = .bad .malformed := by decide

example : parseLine bPROBE = .bad .malformed := by decide

example : parseLine [newline] = .bad .malformed := by decide

example : parseLine (255 :: wire .register [97] .file) = .bad .decode := by decide

example : parseLine (bREGISTER ++ colon :: 97 :: colon :: [115, 111, 99, 107]) = .bad .unknownType := by decide

example : parseLine ([70, 79, 79] ++ colon :: 97 :: colon :: bFile) = .bad .unknownCmd := by decide

/-- a request on a key that is not tracked (never registered, unregistered, or already destroyed)
    is reported and changes nothing -/
theorem never_registered_is_noop (env : Env) (pre : List Bytes) (l : Bytes) (c : Cmd) (k : Kind) (n : Name)
    (hp : parseLine l = .req c k n) (hc : c ≠ .register) (h0 : bal k n (history pre) = 0) :
    handleLine env (runReg env .init pre) l = (runReg env .init pre, [.error .key]) := by
  have hg : ((runReg env .init pre) k).get? n = none := by
    have := tracked_iff_bal_pos env pre k n
    by_cases e : ((runReg env .init pre) k).get? n = none
    · exact e
    · have := this.1 e; omega
  unfold handleLine
  rw [hp]
  cases c
  · exact absurd rfl hc
  · exact handle_unregister_none hg
  · exact handle_maybeUnlink_none hg

example : bal .file [97] (history []) = 0 := by decide

/-- the loop goes on after a bad line: deleting the line from the stream changes nothing but its own
    report -/
theorem bad_line_skipped (env : Env) (reg : Registry) (pre post : List Bytes) (l : Bytes) (e : Err)
    (hl : parseLine l = .bad e) :
    runReg env reg (pre ++ l :: post) = runReg env reg (pre ++ post) ∧
    outputs env reg (pre ++ l :: post) =
      outputs env reg pre ++ [.error e] :: outputs env (runReg env reg pre) post := by
  have h1 : handleLine env (runReg env reg pre) l = (runReg env reg pre, [.error e]) := by
    simp [handleLine, hl, handle]
  constructor
  · rw [runReg_append, runReg_append, runReg_cons, h1]
  · rw [outputs_append]
    simp only [outputs, h1]

/-- PROBE lines are silent and change nothing -/
theorem probe_is_silent (env : Env) (reg : Registry) (l : Bytes) (hp : parseLine l = .probe) :
    handleLine env reg l = (reg, []) := by
  simp [handleLine, hp, handle]

example : parseLine (bPROBE ++ [colon, 48, colon, 110, 111, 111, 112, newline]) = .probe := by decide

/-- **other_keys_untouched.**  A request on `(k, n)` leaves the count of every other key, and the
    whole dictionary (order included) of every other resource type, as they were, and destroys
    nothing but `(k, n)`. -/
theorem other_keys_untouched (env : Env) (reg : Registry) (l : Bytes) (c : Cmd) (k : Kind) (n : Name)
    (hp : parseLine l = .req c k n) :
    (∀ k' n', ¬ (k' = k ∧ n' = n) → ((handleLine env reg l).1 k').get? n' = (reg k').get? n') ∧
    (∀ k', k' ≠ k → (handleLine env reg l).1 k' = reg k') ∧
    (∀ k' n', .clean k' n' ∈ (handleLine env reg l).2 → k' = k ∧ n' = n) := by
  unfold handleLine
  rw [hp]
  exact ⟨fun k' n' h => get?_other env reg c k k' n n' h,
         fun k' h => dict_other_kind env reg c k k' n h,
         fun k' n' h => (clean_mem_handle env reg c k k' n n' h).2⟩

example : parseLine (wire .register [97] .file) = .req .register .file [97] := by decide

/-! ## parsing -/

/-- **parse_name_with_colons.**  `cmd:a:b:c:rtype` is a request on the name `a:b:c`: for every ASCII
    name whatsoever (colons, blanks, empty), with any blanks around the line. -/
theorem parse_name_with_colons (c : Cmd) (k : Kind) (n : Name) (hn : isAscii n = true)
    (pre post : Bytes) (hpre : Blank pre) (hpost : Blank post) :
    parseLine (pre ++ wire c n k ++ post) = .req c k n :=
  parse_stripped_wire _ c n k hn (strip_core pre post _ hpre hpost (wire_head c n k) (wire_last c n k))

/-- as written by the client: `f"{cmd}:{name}:{rtype}\n"` -/
theorem parse_sent_line (c : Cmd) (k : Kind) (n : Name) (hn : isAscii n = true) :
    parseLine (wire c n k ++ [newline]) = .req c k n := by
  have := parse_name_with_colons c k n hn [] [newline] (by intro x hx; simp at hx)
    (by intro x hx; simp only [List.mem_singleton] at hx; subst hx; decide)
  simpa using this

example : parseLine (wire .register [97, 58, 98, 58, 99] .folder ++ [newline])
    = .req .register .folder [97, 58, 98, 58, 99] := by decide

example : isAscii [97, 58, 98, 58, 99] = true ∧ Blank [32, 9] ∧ Blank [13, 10] := by decide

/-- distinct names are distinct keys even when one is a `:`-prefix of the other -/
example : (runReg (fun _ _ => .ok) .init
    [wire .register [97, 58, 98] .file, wire .maybeUnlink [97] .file]) .file = [([97, 58, 98], 1)] := by decide

/-! ## the byte stream -/

/-- the stream is cut exactly after every newline, a last unterminated line is still handled,
    and nothing is handled after the end of the stream -/
theorem stream_cut_at_newlines : ∀ (ls : List Bytes) (last : Bytes),
    (∀ l ∈ ls, newline ∉ l) → newline ∉ last →
    readLines (ls.flatMap (· ++ [newline]) ++ last) =
      ls.map (· ++ [newline]) ++ (if last = [] then [] else [last])
  | [], last, _, hl => by
    by_cases e : last = []
    · simp [e, readLines]
    · simp [e, readLines_last last hl e]
  | l :: ls, last, h, hl => by
    have ih := stream_cut_at_newlines ls last (fun x hx => h x (List.mem_cons_of_mem _ hx)) hl
    have hnl := h l (by simp)
    simp only [List.flatMap_cons, List.map_cons, List.cons_append, List.append_assoc, List.nil_append]
    rw [readLines_nl _ l hnl, ih]

example : readLines ([97, newline, newline, 98] : Bytes) = [[97, newline], [newline], [98]] := by decide

/-- the whole of `main(fd)`: the loop over the lines of the stream, then the sweep of what is left -/
theorem main_eq (env : Env) (stream : Bytes) :
    (main env stream).perLine = outputs env .init (readLines stream) ∧
    (main env stream).final = runReg env .init (readLines stream) ∧
    ((main env stream).sweepEvents, (main env stream).aborted) = sweep env (runReg env .init (readLines stream)) :=
  ⟨rfl, rfl, rfl⟩

end LokyModel.Tracker
