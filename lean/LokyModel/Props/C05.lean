import LokyModel.Lemmas.ExecTerm
import LokyModel.Props.C02
import LokyModel.Lemmas.ExecNoBreakAll
/-!
# C05 — graceful shutdown drains submitted work and leaves nothing behind (executor protocol)

Decision-logic theorems over M1 about the non-kill shutdown path.  The whole-run statements (every
already-submitted task delivers its result; every worker leaves through the handshake) are decided on
the real code by the E1 runs of the `graceful` family; known findings D4 and D7 are witnessed in
`Props/C01.lean`.
-/
namespace LokyModel.Exec

/-- `shutdown()` / garbage collection / interpreter exit only *flag* the pool; the flag is written under
    the shutdown lock, and never marks the pool broken. -/
theorem C05_shutdown_flags_only (s s' : St) (k : Nat) (w kl : Bool) (hpc : s.upc k = .sdAcq1 w kl)
    (hs : stepU s k .ok = some s') :
    s'.shutdownFlag = true ∧ s'.broken = s.broken ∧ s'.futs = s.futs ∧ s'.pending = s.pending := by
  unfold stepU at hs; simp only [hpc, acq_map] at hs
  split at hs
  · cases hs; simp [setU]
  · cases hs

theorem C05_manager_flag_only (s s' : St) (hpc : s.mpc = .flagAcq) (hs : stepM s .ok = some s') :
    s'.shutdownFlag = true ∧ s'.broken = s.broken ∧ s'.futs = s.futs ∧ s'.pending = s.pending := by
  unfold stepM at hs; simp only [hpc, acq_map] at hs
  split at hs
  · cases hs; simp
  · cases hs

/-- The manager starts shutting down only when no new work can arrive: interpreter exit, or the pool is
    not broken and its owner is gone or has called `shutdown`. -/
theorem C05_shutting_down_iff (s : St) :
    (mAfterItem s).mpc = .flagAcq ↔
      (s.globalShutdown = true ∨ ((s.refs = 0 ∨ s.shutdownFlag = true) ∧ s.broken = none)) := by
  unfold mAfterItem
  constructor
  · intro h
    split at h
    · rename_i hc; simp at hc; rcases hc with hc | hc
      · exact Or.inl hc
      · exact Or.inr ⟨hc.1, by simpa using hc.2⟩
    · exfalso
      have : ∀ n t, (mAddFuel n t).mpc ≠ .flagAcq := by
        intro n; induction n with
        | zero => intro t; simp [mAddFuel]
        | succ n ih => intro t; unfold mAddFuel; (repeat' split) <;> first | exact ih _ | simp [setFut]
      exact this _ _ h
  · intro h
    have : (s.globalShutdown || (s.refs == 0 || s.shutdownFlag) && s.broken.isNone) = true := by
      rcases h with h | ⟨h1, h2⟩
      · simp [h]
      · rcases h1 with h1 | h1 <;> simp [h1, h2]
    simp [this]

/-- Draining: as long as work is pending (and no kill was requested) the manager keeps serving — it
    makes a pass of `add_call_item_to_queue` right away (`mAddF`, described by `C05_pass_after_flag`) —
    and it proceeds to `join_executor_internals` at once when nothing is pending. -/
theorem C05_drain_before_join (s : St) (hk : s.killFlag = false) :
    (s.pending = [] → mAfterFlag s = mJoinStart s) ∧ (s.pending ≠ [] → mAfterFlag s = mAddF s) := by
  unfold mAfterFlag; constructor <;> intro h <;> simp [hk, h]

/-- The pass of `add_call_item_to_queue` made right after flagging is the ordinary pass (`mAdd`: same futures, same
    table, same queues), and it ends in exactly one of three ways: still inside the pass, blocked on a call-queue
    slot with work id `i` in hand; finished with work items left in the table — the thread announces `wait` on the
    current sentinels; finished with the table emptied (it held only cancelled futures) — the thread goes on to
    `join_executor_internals` instead of waiting. -/
theorem C05_pass_after_flag (s : St) :
    (∃ i, (mAdd s).mpc = .addAcq i ∧ mAddF s = { mAdd s with mpc := .addAcqF i })
    ∨ ((mAdd s).mpc = .wait s.procDict ∧ (mAdd s).pending ≠ [] ∧ mAddF s = mAdd s)
    ∨ ((mAdd s).mpc = .wait s.procDict ∧ (mAdd s).pending = [] ∧ mAddF s = mJoinStart (mAdd s)) :=
  mAddF_cases s

/-- **The fix, on the model**: after `flag_executor_shutting_down` the manager never announces `wait` with an empty
    table of pending work items (whatever the kill flag) … -/
theorem C05_no_wait_on_emptied_table (s : St) (sn : List Pid) (hw : (mAfterFlag s).mpc = .wait sn) :
    (mAfterFlag s).pending ≠ [] := by
  unfold mAfterFlag at hw ⊢
  split
  · rename_i hk; simp only [hk, if_true] at hw
    unfold mKillNext at hw; split at hw <;> simp [mJoinStart] at hw
  · rename_i hk
    split
    · rename_i hp; simp [hk, hp, mJoinStart] at hw
    · rename_i hp; simp only [hk, hp, if_false, Bool.false_eq_true] at hw
      exact mAddF_wait_pending s sn hw

/-- … neither at the step that ends `flag_executor_shutting_down` nor at the later steps of the pass it starts
    (the blocking acquire of a call-queue slot, the start of the feeder thread). -/
theorem C05_no_wait_on_emptied_table_step (s s' : St) (v : Variant)
    (hpc : s.mpc = .flagRel ∨ (∃ i, s.mpc = .addAcqF i) ∨ (∃ i, s.mpc = .addTStartF i))
    (hs : stepM s v = some s') (sn : List Pid) (hw : s'.mpc = .wait sn) : s'.pending ≠ [] := by
  unfold stepM at hs
  rcases hpc with hpc | ⟨i, hpc⟩ | ⟨i, hpc⟩
  · cases v <;> simp only [hpc] at hs <;> first | (cases hs; done) | skip
    cases hs; exact C05_no_wait_on_emptied_table _ sn hw
  · cases v <;> simp only [hpc, acq_map] at hs <;> first | (cases hs; done) | skip
    split at hs
    · cases hs
      split at hw
      · cases hw
      · rename_i hf; simp only [hf, if_false]; exact mAddF_wait_pending _ sn hw
    · cases hs
  · cases v <;> simp only [hpc] at hs <;> first | (cases hs; done) | skip
    cases hs; exact mAddF_wait_pending _ sn hw

/-- … and when the pass does end with work items left, the sentinels the thread then waits on are the current
    registry (as for every other `wait`, `C02_wait_snapshot_is_current`). -/
theorem C05_wait_after_flag_snapshot (s : St) (sn : List Pid) (hw : (mAddF s).mpc = .wait sn) : sn = s.procDict := by
  rcases mAddF_mpc s with ⟨i, _, e⟩ | ⟨_, e, _⟩ | ⟨_, e, _⟩ <;> rw [e] at hw <;> cases hw
  rfl

/-- Not vacuous, both ways.  A table holding one cancelled work item that `add_call_item_to_queue` has not looked at
    yet: the pass drops it and the manager goes on to `join_executor_internals` with an empty table (before the fix:
    `wait`, for ever) … -/
example :
    let s : St := { cfg := { maxWorkers := 1, timeout := false, tasks := [{}], scripts := [] }, cqSem := 3,
                    uscript := fun _ => [], shutdownFlag := true, pending := [0], workIds := [0],
                    futs := [.cancelled], taskOf := [0], procDict := [100], mpc := .flagRel }
    ((mAfterFlag s).mpc, (mAfterFlag s).pending, (mAdd s).mpc, (mAdd s).pending)
      = (.jAcq1, [], .wait [100], []) := by decide +kernel
/-- … a table holding a running work item: the manager waits for its result, on the current sentinels … -/
example :
    let s : St := { cfg := { maxWorkers := 1, timeout := false, tasks := [{}], scripts := [] }, cqSem := 2,
                    uscript := fun _ => [], shutdownFlag := true, pending := [0], running := [0],
                    futs := [.running], taskOf := [0], procDict := [100], mpc := .flagRel }
    ((mAfterFlag s).mpc, (mAfterFlag s).pending) = (.wait [100], [0]) := by decide +kernel
/-- … and a table holding a work item not yet dispatched: the pass dispatches it (`addAcqF`). -/
example :
    let s : St := { cfg := { maxWorkers := 1, timeout := false, tasks := [{}], scripts := [] }, cqSem := 3,
                    uscript := fun _ => [], shutdownFlag := true, pending := [0], workIds := [0],
                    futs := [.pending], taskOf := [0], procDict := [100], mpc := .flagRel }
    ((mAfterFlag s).mpc, (mAfterFlag s).pending, (mAfterFlag s).futs) = (.addAcqF 0, [0], [.running]) := by
  decide +kernel

/-- graceful shutdown fails no future: the flag step leaves every future as it is -/
theorem C05_flag_touches_no_future (s : St) (hk : s.killFlag = false) (hp : s.pending = []) :
    (mAfterFlag s).futs = s.futs ∧ (mAfterFlag s).broken = s.broken := by
  have := (C05_drain_before_join s hk).1 hp
  rw [this]; simp [mJoinStart]

/-! #### the same on a run from the initial state

One worker; `submit(t0)`; while `t0` runs, `submit(t1)`, `t1`'s future is cancelled, `shutdown(wait=False)`.  The
manager processes the result of `t0`, sees that the executor is shutting down, flags it — and its table holds
exactly the cancelled future of `t1`, whose work id `add_call_item_to_queue` has not looked at yet. -/

def cfgCancelledLeft : Cfg :=
  { maxWorkers := 1, timeout := false, tasks := [{}, {}],
    scripts := [[.create, .submit 0, .submit 1, .cancel 1, .shutdown false false]] }

/-- up to the manager's `flagRel` announcement -/
def schedCancelledLeft : List (Actor × Variant) :=
  [(.U 0, .ok), (.U 0, .ok), (.U 0, .ok), (.U 0, .ok), (.U 0, .ok), (.U 0, .ok), (.U 0, .ok), (.U 0, .ok),
   (.U 0, .ok), (.U 0, .ok), (.U 0, .ok), (.M, .ok), (.M, .ok), (.M, .ok), (.M, .ok), (.M, .ok), (.M, .ok),
   (.M, .fail), (.F, .ok), (.F, .ok), (.F, .ok), (.F, .ok), (.W 100, .ok), (.W 100, .ok), (.W 100, .ok),
   (.W 100, .ok), (.W 100, .ok), (.W 100, .ok), (.W 100, .ok), (.W 100, .ok), (.W 100, .ok), (.U 0, .ok),
   (.U 0, .ok), (.U 0, .ok), (.U 0, .ok), (.U 0, .ok), (.U 0, .ok), (.U 0, .ok), (.U 0, .ok), (.U 0, .ok),
   (.U 0, .ok), (.U 0, .ok), (.U 0, .ok), (.U 0, .ok), (.M, .ok), (.M, .ok), (.M, .ok), (.M, .ok), (.M, .ok),
   (.M, .ok), (.M, .fail), (.M, .ok)]
/-- the rest of the run: `join_executor_internals`, the feeder's and the worker's exit -/
def schedCancelledLeftEnd : List (Actor × Variant) :=
  [(.M, .ok), (.M, .ok), (.M, .ok), (.M, .ok), (.M, .ok), (.M, .ok), (.M, .ok), (.M, .ok), (.M, .ok), (.M, .ok),
   (.F, .ok), (.F, .ok), (.F, .ok), (.F, .ok), (.W 100, .ok), (.W 100, .ok), (.W 100, .ok),
   (.W 100, .ok), (.W 100, .ok), (.W 100, .ok), (.W 100, .ok), (.W 100, .ok), (.W 100, .ok), (.W 100, .ok),
   (.M, .ok), (.M, .ok)]

/-- the situation is reachable: flagged, the only work item left is a cancelled one, still in the work-id queue … -/
theorem C05_witness_cancelled_left :
    (run (init cfgCancelledLeft) schedCancelledLeft).map
        (fun s => (s.mpc, s.killFlag, s.pending, s.workIds, s.futs))
      = some (.flagRel, false, [1], [1], [.value, .cancelled]) := by decide +kernel

/-- … the manager's next step empties the table and goes on to `join_executor_internals` (it does not `wait`) … -/
theorem C05_witness_cancelled_left_joins :
    (run (init cfgCancelledLeft) (schedCancelledLeft ++ [(.M, .ok)])).map (fun s => (s.mpc, s.pending, s.workIds))
      = some (.jAcq1, [], []) := by decide +kernel

/-- … and the run ends: manager thread, feeder thread and worker gone, the user's calls returned. -/
theorem C05_witness_cancelled_left_ends :
    (run (init cfgCancelledLeft) (schedCancelledLeft ++ (.M, .ok) :: schedCancelledLeftEnd)).map
        (fun s => ((s.mpc, s.fpc, s.w 100, s.upc 0), (s.pending, s.futs)))
      = some ((.done, .done, .dead, .done), ([], [.value, .cancelled])) := by decide +kernel

/-- A later `submit` raises `ShutdownExecutorError`: no future is created, nothing is queued. -/
theorem C05_submit_after_shutdown_raises (s s' : St) (k : Nat) (t : Tid)
    (hpc : s.upc k = .subAcqShut t) (hb : s.broken = none) (hf : s.shutdownFlag = true)
    (hs : stepU s k .ok = some s') :
    s'.upc k = .subRelShut ∧ s'.futs = s.futs ∧ s'.pending = s.pending ∧ s'.workIds = s.workIds := by
  unfold stepU at hs; simp only [hpc, acq_map] at hs
  split at hs
  · cases hs; simp [hb, hf, setU]
  · cases hs

/-- Shut down is for ever: along every schedule from a state where the executor is flagged as shutting down
    (by `shutdown()`, by the manager after the executor was collected, or at interpreter exit) it stays
    flagged, so *every* later `submit` is refused and creates no future. -/
theorem C05_every_later_submit_raises (s s' s'' : St) (sched : List (Actor × Variant)) (k : Nat) (t : Tid)
    (hf : s.shutdownFlag = true) (hr : run s sched = some s') (hpc : s'.upc k = .subAcqShut t)
    (hs : stepU s' k .ok = some s'') :
    s''.upc k = .subRelShut ∧ s''.futs = s'.futs ∧ s''.pending = s'.pending ∧ s''.workIds = s'.workIds := by
  have hf' := (sticky_run sched s s' hr).2.1 hf
  cases hbb : s'.broken with
  | none => exact C05_submit_after_shutdown_raises s' s'' k t hpc hbb hf' hs
  | some b =>
    have := C02_submit_after_broken_raises s' s'' k t b hpc hbb hs
    exact ⟨this.1, this.2.1, this.2.2.1, this.2.2.2.1⟩

/-- The wake-up pipe, once closed by `join_executor_internals`, is never written again by a state that observes
    the flag: `wakeupClosed` is sticky as well. -/
theorem C05_wakeup_closed_is_sticky (s s' : St) (sched : List (Actor × Variant)) (hr : run s sched = some s')
    (h : s.wakeupClosed = true) : s'.wakeupClosed = true :=
  (sticky_run sched s s' hr).2.2.2 h

/-- One stop sentinel per registered worker: `shutdown_workers` counts the workers whose exit lock it
    releases — one manager step each, no other actor needed — and that count is what it will send. -/
theorem C05_sentinel_count (ps : List Pid) (s : St) (n : Nat) (hfree : ∀ p ∈ ps, s.exitL p = 0)
    (hnd : ps.Nodup) :
    ∃ s', mRun ps.length (mRelExitNext s ps n) = some s' ∧ s'.mpc = .jRel1 (n + ps.length) := by
  induction ps generalizing s n with
  | nil => exact ⟨_, rfl, by simp [mRelExitNext]⟩
  | cons p ps ih =>
    have hp0 : s.exitL p = 0 := hfree p (by simp)
    let s1 : St := { s with exitL := upd s.exitL p (s.exitL p + 1) }
    have hfree1 : ∀ q ∈ ps, s1.exitL q = 0 := by
      intro q hq
      have hne : q ≠ p := by intro h; subst h; exact (List.nodup_cons.1 hnd).1 hq
      simp [s1, upd, hne, hfree q (by simp [hq])]
    obtain ⟨s', hr, hm⟩ := ih s1 (n + 1) hfree1 (List.nodup_cons.1 hnd).2
    refine ⟨s', ?_, ?_⟩
    · have hstep : stepM (mRelExitNext s (p :: ps) n) .ok = some (mRelExitNext s1 ps (n + 1)) := by
        unfold stepM; simp [mRelExitNext, hp0, s1]
      simp only [List.length_cons, mRun, hstep, Option.bind_some]
      exact hr
    · rw [hm]; simp; omega

/-- **A graceful shutdown never flags the pool broken** — explicit, via garbage collection or at
    interpreter exit, waited or not, at any point of a run, with any number of workers leaving through
    the handshake or timing out meanwhile (crash-free runs of benign configurations). -/
theorem C05_never_flagged_broken (cfg : Cfg) (hb : cfg.benign) (s : St) (h : ReachableNC cfg s) :
    s.broken = none ∧ brokenPath s.mpc = false :=
  ⟨(nbInv_reachableNC hb h).nb, (nbInv_reachableNC hb h).mp⟩


/-- **Nothing is left behind**: when the manager thread has ended — which is what `shutdown(wait=True)`, the exit
    hook and garbage collection wait for — every future of the executor is resolved and the table of pending
    work items is empty; and the manager can only have got there with the shutdown flag raised, so every later
    `submit` is refused (`C05_every_later_submit_raises`). -/
theorem C05_nothing_left_when_manager_ends (cfg : Cfg) (s : St) (h : Reachable cfg s) (he : mEnded s = true) :
    s.pending = [] ∧ s.shutdownFlag = true ∧ ∀ i, i < s.futs.length → (futOf s i).done = true := by
  have ht : mTerm s.mpc = true := by
    unfold mEnded at he; split at he <;> simp_all [mTerm]
  have hp := termInv_reachable h ht
  refine ⟨hp, (shutInv_reachable h).flag (mTerm_mFlagged _ ht), fun i hi => ?_⟩
  exact (futInv_reachable h).resolved i hi (by rw [hp]; simp)

/-- The manager starts `join_executor_internals` on the graceful path only once its table is empty: in the final
    phase there is never an unprocessed work item. -/
theorem C05_join_only_when_drained (cfg : Cfg) (s : St) (h : Reachable cfg s) (ht : mTerm s.mpc = true) :
    s.pending = [] := termInv_reachable h ht

end LokyModel.Exec
