import LokyModel.Lemmas.ExecTerm
import LokyModel.Props.C02
import LokyModel.Lemmas.ExecNoBreakAll
/-!
# C05 — graceful shutdown drains submitted work and leaves nothing behind (executor protocol)

Decision-logic theorems over M1 about the non-kill shutdown path.  The whole-run statements (every
already-submitted task delivers its result; every worker leaves through the handshake) are decided on
the real code by the E1 runs of the `graceful` family; known findings D4 and D7 are witnessed in
`Props/C01.lean`.
-/
namespace LokyModel.Exec

/-- `shutdown()` / garbage collection / interpreter exit only *flag* the pool; the flag is written under
    the shutdown lock, and never marks the pool broken. -/
theorem C05_shutdown_flags_only (s s' : St) (k : Nat) (w kl : Bool) (hpc : s.upc k = .sdAcq1 w kl)
    (hs : stepU s k .ok = some s') :
    s'.shutdownFlag = true ∧ s'.broken = s.broken ∧ s'.futs = s.futs ∧ s'.pending = s.pending := by
  unfold stepU at hs; simp only [hpc, acq_map] at hs
  split at hs
  · cases hs; simp [setU]
  · cases hs

theorem C05_manager_flag_only (s s' : St) (hpc : s.mpc = .flagAcq) (hs : stepM s .ok = some s') :
    s'.shutdownFlag = true ∧ s'.broken = s.broken ∧ s'.futs = s.futs ∧ s'.pending = s.pending := by
  unfold stepM at hs; simp only [hpc, acq_map] at hs
  split at hs
  · cases hs; simp
  · cases hs

/-- The manager starts shutting down only when no new work can arrive: interpreter exit, or the pool is
    not broken and its owner is gone or has called `shutdown`. -/
theorem C05_shutting_down_iff (s : St) :
    (mAfterItem s).mpc = .flagAcq ↔
      (s.globalShutdown = true ∨ ((s.refs = 0 ∨ s.shutdownFlag = true) ∧ s.broken = none)) := by
  unfold mAfterItem
  constructor
  · intro h
    split at h
    · rename_i hc; simp at hc; rcases hc with hc | hc
      · exact Or.inl hc
      · exact Or.inr ⟨hc.1, by simpa using hc.2⟩
    · exfalso
      have : ∀ n t, (mAddFuel n t).mpc ≠ .flagAcq := by
        intro n; induction n with
        | zero => intro t; simp [mAddFuel]
        | succ n ih => intro t; unfold mAddFuel; (repeat' split) <;> first | exact ih _ | simp [setFut]
      exact this _ _ h
  · intro h
    have : (s.globalShutdown || (s.refs == 0 || s.shutdownFlag) && s.broken.isNone) = true := by
      rcases h with h | ⟨h1, h2⟩
      · simp [h]
      · rcases h1 with h1 | h1 <;> simp [h1, h2]
    simp [this]

/-- Draining: as long as work is pending (and no kill was requested) the manager keeps serving — it
    goes back to `add_call_item_to_queue` / `wait` — and it proceeds to `join_executor_internals`
    exactly when nothing is pending any more. -/
theorem C05_drain_before_join (s : St) (hk : s.killFlag = false) :
    (s.pending = [] → mAfterFlag s = mJoinStart s) ∧ (s.pending ≠ [] → mAfterFlag s = mAdd s) := by
  unfold mAfterFlag; constructor <;> intro h <;> simp [hk, h]

/-- graceful shutdown fails no future: the flag step leaves every future as it is -/
theorem C05_flag_touches_no_future (s : St) (hk : s.killFlag = false) (hp : s.pending = []) :
    (mAfterFlag s).futs = s.futs ∧ (mAfterFlag s).broken = s.broken := by
  have := (C05_drain_before_join s hk).1 hp
  rw [this]; simp [mJoinStart]

/-- A later `submit` raises `ShutdownExecutorError`: no future is created, nothing is queued. -/
theorem C05_submit_after_shutdown_raises (s s' : St) (k : Nat) (t : Tid)
    (hpc : s.upc k = .subAcqShut t) (hb : s.broken = none) (hf : s.shutdownFlag = true)
    (hs : stepU s k .ok = some s') :
    s'.upc k = .subRelShut ∧ s'.futs = s.futs ∧ s'.pending = s.pending ∧ s'.workIds = s.workIds := by
  unfold stepU at hs; simp only [hpc, acq_map] at hs
  split at hs
  · cases hs; simp [hb, hf, setU]
  · cases hs

/-- Shut down is for ever: along every schedule from a state where the executor is flagged as shutting down
    (by `shutdown()`, by the manager after the executor was collected, or at interpreter exit) it stays
    flagged, so *every* later `submit` is refused and creates no future. -/
theorem C05_every_later_submit_raises (s s' s'' : St) (sched : List (Actor × Variant)) (k : Nat) (t : Tid)
    (hf : s.shutdownFlag = true) (hr : run s sched = some s') (hpc : s'.upc k = .subAcqShut t)
    (hs : stepU s' k .ok = some s'') :
    s''.upc k = .subRelShut ∧ s''.futs = s'.futs ∧ s''.pending = s'.pending ∧ s''.workIds = s'.workIds := by
  have hf' := (sticky_run sched s s' hr).2.1 hf
  cases hbb : s'.broken with
  | none => exact C05_submit_after_shutdown_raises s' s'' k t hpc hbb hf' hs
  | some b =>
    have := C02_submit_after_broken_raises s' s'' k t b hpc hbb hs
    exact ⟨this.1, this.2.1, this.2.2.1, this.2.2.2.1⟩

/-- The wake-up pipe, once closed by `join_executor_internals`, is never written again by a state that observes
    the flag: `wakeupClosed` is sticky as well. -/
theorem C05_wakeup_closed_is_sticky (s s' : St) (sched : List (Actor × Variant)) (hr : run s sched = some s')
    (h : s.wakeupClosed = true) : s'.wakeupClosed = true :=
  (sticky_run sched s s' hr).2.2.2 h

/-- One stop sentinel per registered worker: `shutdown_workers` counts the workers whose exit lock it
    releases — one manager step each, no other actor needed — and that count is what it will send. -/
theorem C05_sentinel_count (ps : List Pid) (s : St) (n : Nat) (hfree : ∀ p ∈ ps, s.exitL p = 0)
    (hnd : ps.Nodup) :
    ∃ s', mRun ps.length (mRelExitNext s ps n) = some s' ∧ s'.mpc = .jRel1 (n + ps.length) := by
  induction ps generalizing s n with
  | nil => exact ⟨_, rfl, by simp [mRelExitNext]⟩
  | cons p ps ih =>
    have hp0 : s.exitL p = 0 := hfree p (by simp)
    let s1 : St := { s with exitL := upd s.exitL p (s.exitL p + 1) }
    have hfree1 : ∀ q ∈ ps, s1.exitL q = 0 := by
      intro q hq
      have hne : q ≠ p := by intro h; subst h; exact (List.nodup_cons.1 hnd).1 hq
      simp [s1, upd, hne, hfree q (by simp [hq])]
    obtain ⟨s', hr, hm⟩ := ih s1 (n + 1) hfree1 (List.nodup_cons.1 hnd).2
    refine ⟨s', ?_, ?_⟩
    · have hstep : stepM (mRelExitNext s (p :: ps) n) .ok = some (mRelExitNext s1 ps (n + 1)) := by
        unfold stepM; simp [mRelExitNext, hp0, s1]
      simp only [List.length_cons, mRun, hstep, Option.bind_some]
      exact hr
    · rw [hm]; simp; omega

/-- **A graceful shutdown never flags the pool broken** — explicit, via garbage collection or at
    interpreter exit, waited or not, at any point of a run, with any number of workers leaving through
    the handshake or timing out meanwhile (crash-free runs of benign configurations). -/
theorem C05_never_flagged_broken (cfg : Cfg) (hb : cfg.benign) (s : St) (h : ReachableNC cfg s) :
    s.broken = none ∧ brokenPath s.mpc = false :=
  ⟨(nbInv_reachableNC hb h).nb, (nbInv_reachableNC hb h).mp⟩


/-- **Nothing is left behind**: when the manager thread has ended — which is what `shutdown(wait=True)`, the exit
    hook and garbage collection wait for — every future of the executor is resolved and the table of pending
    work items is empty; and the manager can only have got there with the shutdown flag raised, so every later
    `submit` is refused (`C05_every_later_submit_raises`). -/
theorem C05_nothing_left_when_manager_ends (cfg : Cfg) (s : St) (h : Reachable cfg s) (he : mEnded s = true) :
    s.pending = [] ∧ s.shutdownFlag = true ∧ ∀ i, i < s.futs.length → (futOf s i).done = true := by
  have ht : mTerm s.mpc = true := by
    unfold mEnded at he; split at he <;> simp_all [mTerm]
  have hp := termInv_reachable h ht
  refine ⟨hp, (shutInv_reachable h).flag (mTerm_mFlagged _ ht), fun i hi => ?_⟩
  exact (futInv_reachable h).resolved i hi (by rw [hp]; simp)

/-- The manager starts `join_executor_internals` on the graceful path only once its table is empty: in the final
    phase there is never an unprocessed work item. -/
theorem C05_join_only_when_drained (cfg : Cfg) (s : St) (h : Reachable cfg s) (ht : mTerm s.mpc = true) :
    s.pending = [] := termInv_reachable h ht

end LokyModel.Exec
