import LokyModel.Lemmas.Ledger
/-!
# C20 (ledger part) — executor lifecycles leak no parent-side resources  *(partial)*

Theorems over the ghost ledger `LokyModel.Ledger`: descriptors, threads, children (zombies included) and
named semaphores that an executor holds in the parent, as a function of the executor's abstract state,
for the lifecycles clean shutdown (with any number of idle time-outs / down-sizing before), forced
shutdown, broken (any number of workers dying by themselves) and replaced, idle time-out of all workers,
release without shutdown, never used, resized — for **every** number of workers.  The ledger's entries
are tied to code lines in `Ledger.lean`; that the real process shows exactly these counts at the observed
points is the correspondence run of `harness/props/C20_real.py` (real processes: `/proc/self/fd`,
`threading.enumerate()`, children, `/dev/shm`).

One clause of the natural statement "after a completed lifecycle the ledger equals the baseline" is false
of the code as it is: after a pool broken by a worker that died by itself, one descriptor and one named
semaphore per such worker stay until the next process start (`broken_lingers`).  They do not accumulate
(`repeat_n` holds for every sequence), and children and threads are always balanced.
-/
namespace LokyModel.Ledger

/-- **A released executor holds nothing of its own**: once the manager and feeder threads are gone, neither
    the executor nor the manager references the internals any more and every worker has been joined, the
    ledger shows no descriptor, thread, child or semaphore of this executor — only the process-wide lingering
    Process objects, if any. -/
theorem released_holds_nothing (e : Exec) (h : Released e) : counts e = lingerCounts e.lingering := by
  obtain ⟨h1, h2, h3, h4, h5⟩ := h
  simp [counts, lingerCounts, Exec.held, b2n, h1, h2, h3, h4, h5]

/-- every lifecycle ends in a released executor, for every number of workers / time-outs / crashes -/
theorem lifecycle_releases (l : Life) (l0 : Nat) : Released (runLife l l0) := by
  cases l with
  | clean n k =>
    simp only [runLife, prog, runOps_append, run_spawns, run_reaps]
    split <;> simp [runOps, apply, Released]
  | kill n =>
    simp only [runLife, prog, runOps_append, run_spawns]
    split <;> simp [runOps, apply, Released]
  | broken n c =>
    simp only [runLife, prog, runOps_append, run_spawns, run_crashes]
    split <;> simp [runOps, apply, Released]
  | idle n =>
    simp only [runLife, prog, runOps_append, run_spawns, run_reaps]
    split <;> simp [runOps, apply, Released]
  | dropped n =>
    simp only [runLife, prog, runOps_append, run_spawns]
    split <;> simp [runOps, apply, Released]
  | unused => simp [runLife, prog, runOps, apply, Released]
  | resized n m =>
    simp only [runLife, prog, runOps_append, run_spawns, run_reaps]
    split <;> split <;> simp [runOps, apply, Released]

/-- what stays after a lifecycle: nothing if it started a worker and no worker died by itself; one object
    per self-inflicted death after a broken pool; whatever was there before if no process was started -/
theorem lingering_after (l : Life) (l0 : Nat) :
    (runLife l l0).lingering =
      match l with
      | .broken n c => if n = 0 then l0 else min c n
      | l => if l.spawns then 0 else l0 := by
  cases l with
  | clean n k =>
    simp only [runLife, prog, runOps_append, run_spawns, run_reaps]
    by_cases hn : n = 0 <;> simp [hn, runOps, apply, Life.spawns]
  | kill n =>
    simp only [runLife, prog, runOps_append, run_spawns]
    by_cases hn : n = 0 <;> simp [hn, runOps, apply, Life.spawns]
  | broken n c =>
    simp only [runLife, prog, runOps_append, run_spawns, run_crashes]
    by_cases hn : n = 0 <;> simp [hn, runOps, apply]
  | idle n =>
    simp only [runLife, prog, runOps_append, run_spawns, run_reaps]
    by_cases hn : n = 0 <;> simp [hn, runOps, apply, Life.spawns]
  | dropped n =>
    simp only [runLife, prog, runOps_append, run_spawns]
    by_cases hn : n = 0 <;> simp [hn, runOps, apply, Life.spawns]
  | unused => simp [runLife, prog, runOps, apply, Life.spawns]
  | resized n m =>
    simp only [runLife, prog, runOps_append, run_spawns, run_reaps]
    by_cases hn : n = 0 <;> by_cases hm : m = 0 <;> simp [hn, hm, runOps, apply, Life.spawns]
    split <;> simp

/-- **The ledger is balanced**: after a completed lifecycle that started workers and in which no worker died
    by itself — clean, forced, idle-timed-out, dropped, resized, of any size — the ledger equals the
    baseline, whatever lingered before. -/
theorem ledger_balanced (l : Life) (hs : l.spawns = true) (hb : ∀ n c, l = .broken n c → c = 0)
    (l0 : Nat) (base : Counts) : base + counts (runLife l l0) = base := by
  rw [released_holds_nothing _ (lifecycle_releases l l0), lingering_after]
  have : (match l with
      | .broken n c => if n = 0 then l0 else min c n
      | l => if l.spawns then 0 else l0) = 0 := by
    cases l with
    | broken n c =>
      have := hb n c rfl; subst this
      have hn : n ≠ 0 := by simpa [Life.spawns] using hs
      simp [hn]
    | _ => simp [hs]
  rw [this]; cases base; rfl

/-- children (zombies included) and threads are balanced after *every* lifecycle, broken ones included -/
theorem children_threads_balanced (l : Life) (l0 : Nat) :
    (counts (runLife l l0)).children = 0 ∧ (counts (runLife l l0)).threads = 0 := by
  rw [released_holds_nothing _ (lifecycle_releases l l0)]; exact ⟨rfl, rfl⟩

/-- **Witness**: the natural statement fails for a pool broken by a worker that died by itself — one
    descriptor (the sentinel) and one named semaphore (the exit lock) of that worker stay behind … -/
theorem broken_lingers :
    counts (runLife (.broken 2 1)) = { fds := 1, threads := 0, children := 0, sems := 1 } := by
  decide

/-- … until the next process start, which clears them -/
theorem lingering_cleared_by_next_start :
    counts (runLife (.clean 1 0) (runLife (.broken 2 1)).lingering) = {} := by
  decide

/-- what the ledger predicts *during* a lifecycle (these are the points the real-process check observes):
    after the constructor, with `n ≥ 1` workers started and `k` of them reaped (truncated subtraction) -/
theorem ledger_in_use (n k : Nat) (hn : n ≠ 0) (l0 : Nat) :
    counts (runOps { lingering := l0 } [.ctor]) = { fds := 6 + l0, threads := 0, children := 0, sems := 6 + l0 }
    ∧ counts (runOps { lingering := l0 } ([.ctor] ++ rep n .spawn ++ [.startManager, .put] ++ rep k .reapOne))
        = { fds := 6 + (n - k), threads := 2, children := n - k, sems := 6 + (n - k) } := by
  constructor
  · simp [runOps, apply, counts, Exec.held, b2n]
  · simp only [runOps_append, run_spawns, run_reaps]
    simp [hn, runOps, apply, counts, Exec.held, b2n]

/-- a sequence that starts a process somewhere forgets what lingered before it; one that does not keeps it -/
theorem lingerSeq_start (ls : List Life) :
    (ls.any Life.spawns = true → ∀ a b, lingerSeq a ls = lingerSeq b ls)
    ∧ (ls.any Life.spawns = false → ∀ a, lingerSeq a ls = a) := by
  induction ls with
  | nil => simp [lingerSeq]
  | cons l ls ih =>
    have hl := lingering_after l
    constructor
    · intro hany a b
      simp only [lingerSeq, List.foldl_cons]
      by_cases hsp : l.spawns = true
      · have : (runLife l a).lingering = (runLife l b).lingering := by
          rw [hl a, hl b]
          cases l <;> simp_all [Life.spawns]
        rw [this]
      · have hsp' : l.spawns = false := by simpa using hsp
        have hrest : ls.any Life.spawns = true := by simpa [hsp'] using hany
        exact ih.1 hrest _ _
    · intro hany a
      simp only [List.any_cons, Bool.or_eq_false_iff] at hany
      simp only [lingerSeq, List.foldl_cons]
      have : (runLife l a).lingering = a := by
        rw [hl a]
        cases l <;> simp_all [Life.spawns]
      rw [this]; exact ih.2 hany.2 a

/-- **Repeating does not accumulate**: by induction on the number of repetitions, for every sequence of
    lifecycles (broken ones included) the counts after running it `n + 1` times are the counts after
    running it once. -/
theorem repeat_n (ls : List Life) (n : Nat) (base : Counts) :
    runSeq base (List.replicate (n + 1) ls).flatten = runSeq base ls := by
  have key : lingerSeq 0 (List.replicate (n + 1) ls).flatten = lingerSeq 0 ls := by
    induction n with
    | zero => simp
    | succ n ih =>
      rw [List.replicate_succ, List.flatten_cons, lingerSeq_append]
      by_cases hany : ls.any Life.spawns = true
      · have : (List.replicate (n + 1) ls).flatten.any Life.spawns = true := by
          rw [List.replicate_succ, List.flatten_cons, List.any_append, hany]; rfl
        rw [(lingerSeq_start _).1 this _ 0]; exact ih
      · have hany' : ls.any Life.spawns = false := by simpa using hany
        rw [(lingerSeq_start ls).2 hany' 0]; rw [ih, (lingerSeq_start ls).2 hany' 0]
  simp only [runSeq, key]

/-- non-vacuity of `repeat_n` on a sequence that ends with a broken pool: the counts are not the baseline,
    and they are the same after one and after five runs -/
example : runSeq {} [.clean 2 0, .broken 3 1] = { fds := 1, threads := 0, children := 0, sems := 1 }
    ∧ runSeq {} (List.replicate 5 [Life.clean 2 0, Life.broken 3 1]).flatten
        = { fds := 1, threads := 0, children := 0, sems := 1 } := by
  decide

/-! ## oversized tasks queued behind busy workers -/

/-- **every teardown route releases the executor although the feeder thread is blocked mid-send**: a SIGKILLed
    worker, `shutdown(kill_workers=True)`, `get_reusable_executor(kill_workers=True)` and a graceful
    shutdown, for every number of workers -/
theorem big_task_releases (r : Route) (n : Nat) (hn : n ≠ 0) (l0 : Nat) : Released (runBig r n l0) := by
  cases r <;> simp only [runBig, progBig, runOps_append, run_spawns] <;> simp [hn, runOps, apply, Released]

/-- … and the ledger is that of the same lifecycle without the oversized task -/
theorem big_task_balanced (r : Route) (n : Nat) (hn : n ≠ 0) (l0 : Nat) :
    counts (runBig r n l0) = lingerCounts (if r = .sigkill then 1 else 0) := by
  rw [released_holds_nothing _ (big_task_releases r n hn l0)]
  cases r <;> simp only [runBig, progBig, runOps_append, run_spawns] <;> simp [hn, runOps, apply] <;> omega

/-- **witness (D22, fixed)**: with the read end left open by `kill_workers` the blocked feeder thread stays
    for ever and with it the call queue: one thread, the pipe, the semaphores (the ledger's `held`
    over-approximates the three of the call queue to all six) per lifecycle -/
theorem D22_blocked_feeder_leaked :
    counts (runOpsOld {} (progBig .killShutdown 1)) = { fds := 2, threads := 1, children := 0, sems := 6 }
    ∧ ¬ Released (runOpsOld {} (progBig .killShutdown 1)) := by
  refine ⟨by decide, fun h => ?_⟩
  exact absurd h.2.1 (by decide)

example : counts (runBig .killShutdown 1) = {} ∧ counts (runBig .sigkill 2) = lingerCounts 1 := by decide

/-! ## futures kept by the caller -/

/-- **user-held futures pin nothing**: whatever futures of completed lifecycles the caller keeps — results,
    task errors, PicklingErrors of unsendable arguments or unpicklable results, errors of broken or killed
    pools, any number of each — the process ledger is that of the lifecycles alone -/
theorem kept_futures_pin_nothing (base : Counts) (ls : List (Life × List FutKind)) :
    runSeqKept futurePins base ls = runSeq base (ls.map Prod.fst) := by
  have hf : ∀ l : List FutKind, l.filter futurePins = [] := by
    intro l; induction l <;> simp_all [List.filter, futurePins]
  simp only [runSeqKept, keptCounts, hf]
  cases h : runSeq base (List.map Prod.fst ls); rfl

/-- **repeating with kept futures does not accumulate** -/
theorem repeat_n_kept (ls : List (Life × List FutKind)) (n : Nat) (base : Counts) :
    runSeqKept futurePins base (List.replicate (n + 1) ls).flatten = runSeqKept futurePins base ls := by
  rw [kept_futures_pin_nothing, kept_futures_pin_nothing]
  have : (List.replicate (n + 1) ls).flatten.map Prod.fst = (List.replicate (n + 1) (ls.map Prod.fst)).flatten := by
    simp [List.map_flatten, List.map_replicate]
  rw [this, repeat_n]

/-- **witness**: were the error stored for unsendable arguments to reference the feeder thread's frame (the
    original exception kept as `__context__`), every lifecycle with such a kept future would leave one
    descriptor and three semaphores behind: five repetitions, five times as much -/
theorem pinning_future_accumulates :
    runSeqKept (fun k => k == .unsendableArgs) {} [(Life.clean 1 0, [FutKind.unsendableArgs, .result])]
      = { fds := 1, threads := 0, children := 0, sems := 3 }
    ∧ runSeqKept (fun k => k == .unsendableArgs) {}
        (List.replicate 5 [(Life.clean 1 0, [FutKind.unsendableArgs, .result])]).flatten
      = { fds := 5, threads := 0, children := 0, sems := 15 } := by
  decide

example : runSeqKept futurePins {} [(.clean 2 0, [.unsendableArgs, .taskError]), (.kill 1, [.killedPool])] = {} := by
  decide

/-- the ledger is not trivially zero: an executor whose manager thread died before `join_executor_internals`
    (the shape of the defect repaired by "ignore InvalidStateError …") keeps everything — workers, pipes, the
    feeder thread and through it the queues; it is *not* released -/
theorem unreleased_holds (n : Nat) (hn : n ≠ 0) :
    counts (runOps {} ([.ctor] ++ rep n .spawn ++ [.startManager, .put, .managerExit, .dropRefs]))
      = { fds := 6 + n, threads := 1, children := n, sems := 6 + n } := by
  simp only [runOps_append, run_spawns]
  simp [hn, runOps, apply, counts, Exec.held, b2n]

end LokyModel.Ledger
