import LokyModel.Lemmas.ExecLiveMeasureK
import LokyModel.Props.C06Live
import LokyModel.Props.C02Term
/-!
# C06 — termination of static pools with forced shutdowns: `shutdown(kill_workers=True)` returns IN FINITE TIME

`Props/C06Live.lean` proves deadlock freedom of static pools whose scripts may contain `shutdown(wait, kill_workers=True)`
(`Cfg.staticPoolK`), along lock-free crash runs (`ReachableLF`: ordinary steps, and deaths of workers at any point at which
they hold no kernel lock; the manager's own `kill` steps hit a worker anywhere): a quiescent state is a good one.
`Props/C02Term.lean` proves that runs of static pools WITHOUT forced shutdowns are finite.  This file closes the square:
the executable measure `muK : St → Nat` (`LokyModel/ExecLiveMeasureKDef.lean`: the measure `muC` of C02, plus a token
`killTok` consumed when the manager begins to pop the registered workers) strictly decreases on every step of a lock-free
crash run of a static pool with forced shutdowns — the step in which the manager sees the kill flag, its `kill` / `join`
steps, the steps of every other actor while the kill loop runs (user threads finishing their scripts, workers running
until they are killed, the feeder thread), and the death steps included (`muK_decreasesLF`,
`Lemmas/ExecLiveMeasureK.lean`).  Hence

* `C06_kill_pool_runs_are_finite`: a schedule — with any number of forced shutdowns, from any thread, and any number of
  deaths at lock-free points — that runs from `init cfg` has at most `muK (init cfg)` steps;
* `C06_kill_pool_no_infinite_run`: there is no infinite lock-free crash run, **whatever the scheduler**;
* `C06_kill_pool_terminates_good`: every *maximal* lock-free crash run from a state `s0` of such a run has at most
  `muK s0` steps and ends in a `good` state — every future resolved (with its result, or with the shutdown error), every
  `submit` / `shutdown` / interpreter-exit hook returned;
* `C06_kill_pool_reaches_good`: from every state of such a run a good quiescent state is within `muK` steps, by any
  choice of enabled steps;
* `C06_forced_shutdown_returns`: from the step in which the manager sees the kill flag on, at most `muK` further steps
  are taken BY ANYBODY, and when nothing can move the manager thread has ended, every worker is dead, every future is
  resolved and every user thread — the caller of `shutdown(kill_workers=True)` included — is at the end of its script.

**What "finite time" means here.**  Task bodies are steps of the model: a body that never finishes is a scheduler that
never chooses the worker's `taskEnd` step, and the bound is on the steps TAKEN, by all actors together.  The promptness
statement proper — once the manager has seen the flag it needs no step of any other actor to kill and join every worker
and to end — is `C06_killLoop_completes` (`Props/C06.lean`).
-/
namespace LokyModel.Exec

/-- along a lock-free crash schedule of a static pool with forced shutdowns the measure pays for every step -/
theorem muK_runLF {cfg : Cfg} (hc : cfg.staticPoolK = true) : ∀ (sched : List (Actor × Variant)) (s0 s : St),
    ReachableLF cfg s0 → runLF s0 sched = some s → sched.length + muK s ≤ muK s0 := by
  intro sched
  induction sched with
  | nil => intro s0 s _ hr; simp [runLF] at hr; subst hr; simp
  | cons x xs ih =>
    intro s0 s h0 hr
    obtain ⟨a, v⟩ := x
    simp only [runLF] at hr
    cases hcond : stepLFb s0 a v with
    | false => simp [hcond] at hr
    | true =>
      simp only [hcond, if_true] at hr
      cases hs : step s0 a v with
      | none => simp [hs] at hr
      | some s1 =>
        simp only [hs, Option.bind_some] at hr
        have h1 := muK_decreasesLF' h0 hc hs
        have h2 := ih s1 s (reachableLF_stepLFb h0 hcond hs) hr
        simp only [List.length_cons]
        omega

/-- **C06, static pools with forced shutdowns: runs are finite.**  A schedule — ordinary steps (among them any number of
    `shutdown(kill_workers=True)` calls, the manager's `kill`s, task bodies beginning and ending) and deaths of workers
    that hold no kernel lock, in any number and order — that runs from the initial state has at most `muK (init cfg)`
    steps. -/
theorem C06_kill_pool_runs_are_finite (cfg : Cfg) (hc : cfg.staticPoolK = true)
    (sched : List (Actor × Variant)) (s : St) (hrun : runLF (init cfg) sched = some s) :
    sched.length ≤ muK (init cfg) := by
  have := muK_runLF hc sched (init cfg) s .init hrun
  omega

/-- … in the form of infinite runs: there is none, under any scheduler and any placement of deaths at lock-free
    points. -/
theorem C06_kill_pool_no_infinite_run (cfg : Cfg) (hc : cfg.staticPoolK = true) (σ : Nat → St)
    (act : Nat → Actor × Variant) (h0 : σ 0 = init cfg)
    (hstep : ∀ n, stepLFb (σ n) (act n).1 (act n).2 = true ∧ step (σ n) (act n).1 (act n).2 = some (σ (n + 1))) :
    False := by
  have key : ∀ n, ReachableLF cfg (σ n) ∧ n + muK (σ n) ≤ muK (σ 0) := by
    intro n
    induction n with
    | zero => exact ⟨h0 ▸ .init, by simp⟩
    | succ n ih =>
      have h1 := muK_decreasesLF' ih.1 hc (hstep n).2
      exact ⟨reachableLF_stepLFb ih.1 (hstep n).1 (hstep n).2, by omega⟩
  have := (key (muK (σ 0) + 1)).2
  omega

/-- **C06, static pools with forced shutdowns: every maximal run is short and ends well.**  From any state `s0` of a
    lock-free crash run of such a pool, a schedule (further deaths at lock-free points included) that ends in a state
    where nothing but a death is enabled has at most `muK s0` steps, and its last state is `good`: every future is
    resolved and every user thread has finished its script.  A forced shutdown returns in finite time, whatever the
    tasks do. -/
theorem C06_kill_pool_terminates_good (cfg : Cfg) (hc : cfg.staticPoolK = true) (s0 : St)
    (h0 : ReachableLF cfg s0) (sched : List (Actor × Variant)) (s : St) (hrun : runLF s0 sched = some s)
    (hmax : enabledNC s = []) : sched.length ≤ muK s0 ∧ good s = true := by
  constructor
  · have := muK_runLF hc sched s0 s h0 hrun
    omega
  · exact C06_kill_pool_no_deadlock cfg hc s (reachableLF_of_run sched s0 s h0 hrun) hmax

/-- … from the initial state, spelled out: at most `muK (init cfg)` steps, then every future is done and every user
    thread is at the end of its script -/
theorem C06_kill_pool_maximal_run_resolves (cfg : Cfg) (hc : cfg.staticPoolK = true)
    (sched : List (Actor × Variant)) (s : St) (hrun : runLF (init cfg) sched = some s) (hmax : enabledNC s = []) :
    sched.length ≤ muK (init cfg) ∧ (∀ f ∈ s.futs, f.done = true) ∧
    ∀ k, k < s.cfg.scripts.length → s.upc k = .done := by
  obtain ⟨h1, hg⟩ := C06_kill_pool_terminates_good cfg hc (init cfg) .init sched s hrun hmax
  unfold good at hg
  simp only [Bool.and_eq_true, List.all_eq_true, List.mem_range, beq_iff_eq] at hg
  exact ⟨h1, hg⟩

/-- **C06, static pools with forced shutdowns: a good quiescent state is always within reach.**  From every state of a
    lock-free crash run there is a continuation of at most `muK s` steps to a quiescent, good state (and by
    `C06_kill_pool_terminates_good` *every* way of continuing until nothing is enabled, with or without further deaths,
    is such a continuation). -/
theorem C06_kill_pool_reaches_good (cfg : Cfg) (hc : cfg.staticPoolK = true) (s : St)
    (h : ReachableLF cfg s) :
    ∃ (sched : List (Actor × Variant)) (s' : St), runLF s sched = some s' ∧ sched.length ≤ muK s ∧
      enabledNC s' = [] ∧ good s' = true := by
  generalize hn : muK s = n
  induction n using Nat.strongRecOn generalizing s with
  | _ n ih =>
    cases hen : enabledNC s with
    | nil =>
      exact ⟨[], s, rfl, by simp, hen, C06_kill_pool_no_deadlock cfg hc s h hen⟩
    | cons x rest =>
      obtain ⟨a, v⟩ := x
      have hmem : (a, v) ∈ enabledNC s := by rw [hen]; simp
      obtain ⟨hv, s1, hs⟩ := mem_enabledNC hmem
      have hlt := muK_decreasesLF' h hc hs
      obtain ⟨sched, s', hrun, hlen, hq, hg⟩ := ih (muK s1) (by omega) s1 (.step h hv hs) rfl
      have hcond : stepLFb s a v = true := by
        unfold stepLFb
        cases v <;> first | rfl | exact absurd rfl hv
      refine ⟨(a, v) :: sched, s', ?_, ?_, hq, hg⟩
      · simp [runLF, hcond, hs, hrun]
      · simp only [List.length_cons]; omega

/-! ### from the moment the manager sees the kill flag -/

/-- a schedule accepted by `runLF` is a lock-free crash run in the sense of `Props/C06Live.lean` -/
theorem stepsLF_of_runLF : ∀ (sched : List (Actor × Variant)) (s0 s1 s : St), StepsLF s0 s1 →
    runLF s1 sched = some s → StepsLF s0 s := by
  intro sched
  induction sched with
  | nil => intro s0 s1 s h hr; simp [runLF] at hr; subst hr; exact h
  | cons x xs ih =>
    intro s0 s1 s h hr
    obtain ⟨a, v⟩ := x
    simp only [runLF] at hr
    cases hcond : stepLFb s1 a v with
    | false => simp [hcond] at hr
    | true =>
      simp only [hcond, if_true] at hr
      cases hs : step s1 a v with
      | none => simp [hs] at hr
      | some s2 =>
        simp only [hs, Option.bind_some] at hr
        refine ih s0 s2 s ?_ hr
        by_cases hv : v = .crash
        · subst hv
          cases a with
          | W p => exact .crash h (by simpa [stepLFb] using hcond) hs
          | _ => simp [stepLFb] at hcond
        · exact .step h hv hs

/-- **a forced shutdown returns in finite time.**  Let the manager thread see the kill flag (its step out of the lock
    section of `flag_executor_shutting_down`, in a state `s0` in which `kill_workers` is recorded; `s1` is the state
    after it: every pending future failed with the shutdown error, the kill loop begun).  Then every continuation —
    the manager's `kill`s and `join`s, `join_executor_internals`, the other threads finishing what they are doing, the
    not yet killed workers running on, further deaths — has at most `muK s1` steps; and once nothing can move, the
    manager thread has ended, every worker process ever spawned is dead, every future is resolved and every user thread
    — the caller of `shutdown(kill_workers=True)` included — is at the end of its script. -/
theorem C06_forced_shutdown_returns (cfg : Cfg) (hc : cfg.staticPoolK = true) (s0 s1 : St)
    (h0 : ReachableLF cfg s0) (hm : s0.mpc = .flagRel) (hk : s0.killFlag = true) (h1 : step s0 .M .ok = some s1)
    (sched : List (Actor × Variant)) (s : St) (hrun : runLF s1 sched = some s) :
    sched.length ≤ muK s1 ∧ muK s1 < muK s0 ∧
    (enabledNC s = [] → s.mpc = .done ∧ (∀ p ∈ s.allPids, s.w p = .dead) ∧ (∀ f ∈ s.futs, f.done = true) ∧
      ∀ k, k < s.cfg.scripts.length → s.upc k = .done) := by
  have hr1 : ReachableLF cfg s1 := .step h0 (by decide) h1
  refine ⟨?_, muK_decreasesLF' h0 hc h1, ?_⟩
  · have := muK_runLF hc sched s1 s hr1 hrun
    omega
  · intro hq
    exact C06_after_kill_quiescent cfg hc s0 s1 s h0 hm hk h1 (stepsLF_of_runLF sched s1 s1 s (.refl s1) hrun) hq

/-! ### non-vacuity: the pool and the run with a forced shutdown of `Props/C06Live.lean` -/

/-- the bound for `cfgKill` (two workers, one user thread, four script operations, the last one
    `shutdown(wait=True, kill_workers=True)`) -/
example : muK (init cfgKill) = 937 := by decide +kernel
/-- its run `schedKill` (84 steps; the manager sees the kill flag at step 69 while worker 100 is inside a task body and
    worker 101 holds the call queue's read lock, kills and joins both, ends; `shutdown` returns) is within the bound -/
example : schedKill.length = 84 ∧ schedKill.length ≤ muK (init cfgKill) := by decide +kernel
/-- the measure along the whole of that run — the seeing step, the kill loop and the final phase included: strictly
    decreasing -/
def muKTrace (s : St) : List (Actor × Variant) → List Nat
  | [] => [muK s]
  | (a, v) :: rest => muK s :: (match step s a v with | some s' => muKTrace s' rest | none => [])
example : (muKTrace (init cfgKill) schedKill).length = 85 ∧
    (muKTrace (init cfgKill) schedKill).Pairwise (· > ·) := by
  decide +kernel
/-- the seeing step consumes the token: `killTok` is `2 * max_workers` before it and `0` after it -/
example : (runLF (init cfgKill) (schedKill.take 69)).map (fun s => (seesKill s .M, killTok s)) = some (true, 4) ∧
    (runLF (init cfgKill) (schedKill.take 70)).map (fun s => (s.mpc, killTok s)) = some (.kill 101, 0) := by
  decide +kernel

end LokyModel.Exec
